/-
  Lemmas/C16RangeAssign.lean — C16 for the range-assignment statement `t[a:b] = rhs` and for `===` / `!==`.

  `t[a:b] = rhs` (`bindNext` on a `.RangeIndex` target) has two typed operands:
    * the target `t` must be a list — every other kind is `ValueNotRangeIndexAssignable`;
    * the right-hand side must be a list or a string — every other kind `k` is
      `RangeIndexAssignOnNonIndexable k`, at the position of the target, in the state reached by evaluating the target
      expression ONLY: the bounds `a`, `b` have not been evaluated, the length of the range has not been compared
      with anything.  In particular an object with exactly as many properties as the range is long is rejected with
      the type error, not accepted and not a size error; the bounds' effects (prints) do not happen.
  `===` / `!==` are defined exactly on two lists, two objects or two functions; every other pair of kinds — in
  particular a list and an object — is `InvalidOpTypes` naming the operator and both kinds in operand order.
-/
import SeedProofs.C16
namespace Seed
namespace C16R
open Gen (Leaf)

/-! ## `t[a:b] = rhs` -/

/-- what a range assignment stores for a right-hand side of an accepted kind: the elements of a list, the one-byte
    strings of a string; `none` for every other kind (`some none`: a list value whose cell is missing — unreachable
    from well-formed states, a crash in the model) -/
def rangeItems (σ : State) (rhs : Val) : Option (Option (List SVal)) :=
  match rhs with
  | .list b => some (σ.getList b)
  | .str bs => some (some (bs.map fun b => SVal.plain (.str [b])))
  | _ => none

/-- `rangeItems` answers exactly on lists and strings -/
theorem rangeItems_isSome (σ : State) (rhs : Val) :
    (rangeItems σ rhs).isSome = (rhs.kind == .List || rhs.kind == .Str) := by
  cases rhs <;> rfl

/-- the kinds that are not list or string are the six others -/
theorem not_list_str_iff (k : Kind) :
    (k ≠ .List ∧ k ≠ .Str) ↔ k = .Null ∨ k = .Bool ∨ k = .Int ∨ k = .Object ∨ k = .Func ∨ k = .BuiltinFunc := by
  cases k <;> simp

/-- **`range_assign_rhs_kinds`.**  `t[a:b] = rhs` where `t` evaluated to the list cell `a` (leaving state `σ1`):
    * a list right-hand side goes on to the bounds / size stage `bindRangeIndex` with its elements,
    * a string right-hand side goes on with its bytes as one-byte strings,
    * every other kind is the located type error carrying that kind, in the state `σ1` — reached by evaluating the target
      only — whatever `start`, `stop` are and whatever the value holds.
    The three cases are exhaustive and exclusive, so the right-hand side is accepted exactly when its kind is list or string. -/
theorem range_assign_rhs_kinds (n : Nat) (σ σ1 : State) (sc : List Addr) (names : List (List Char)) (ex : Expr)
    (start stop : Option Expr) (loc : Loc) (rhs tgt : SVal) (decl : Bool) (a : Addr)
    (h : evalExpr n σ sc ex = .ok tgt σ1) (ht : tgt.v = .list a) :
    (∀ b items, rhs.v = .list b → σ1.getList b = some items →
      bindNext (n + 1) σ sc names (.mk (.RangeIndex ex start stop) loc) rhs none decl =
        bindRangeIndex n σ1 sc a start stop loc items names) ∧
    (∀ bs, rhs.v = .str bs →
      bindNext (n + 1) σ sc names (.mk (.RangeIndex ex start stop) loc) rhs none decl =
        bindRangeIndex n σ1 sc a start stop loc (bs.map fun b => SVal.plain (.str [b])) names) ∧
    (rhs.v.kind ≠ .List → rhs.v.kind ≠ .Str →
      bindNext (n + 1) σ sc names (.mk (.RangeIndex ex start stop) loc) rhs none decl =
        errAt loc (Leaf.RangeIndexAssignOnNonIndexable rhs.v.kind) σ1) := by
  refine ⟨fun b items hb hl => ?_, fun bs hb => ?_, fun h1 h2 => ?_⟩
  · rw [bindNext]; simp only [h, Res.bind, ht, hb, hl]
  · rw [bindNext]; simp only [h, Res.bind, ht, hb]
  · rw [bindNext]; simp only [h, Res.bind, ht]
    cases hv : rhs.v <;> simp_all [Val.kind]

/-- the same as one equation: the statement is the type error exactly when `rangeItems` has no answer (kind not list, not
    string), and otherwise runs the bounds / size stage on the items -/
theorem range_assign_rhs_cases (n : Nat) (σ σ1 : State) (sc : List Addr) (names : List (List Char)) (ex : Expr)
    (start stop : Option Expr) (loc : Loc) (rhs tgt : SVal) (decl : Bool) (a : Addr)
    (h : evalExpr n σ sc ex = .ok tgt σ1) (ht : tgt.v = .list a) :
    bindNext (n + 1) σ sc names (.mk (.RangeIndex ex start stop) loc) rhs none decl =
      match rangeItems σ1 rhs.v with
      | some (some items) => bindRangeIndex n σ1 sc a start stop loc items names
      | some none => crashHeap σ1
      | none => errAt loc (Leaf.RangeIndexAssignOnNonIndexable rhs.v.kind) σ1 := by
  rw [bindNext]; simp only [h, Res.bind, ht]
  cases hv : rhs.v <;> simp only [rangeItems]
  case list b => cases σ1.getList b <;> rfl

/-- the six rejected kinds, one by one — the value's contents (the size of the object, the function) never matter -/
theorem range_assign_rejects (n : Nat) (σ σ1 : State) (sc : List Addr) (names : List (List Char)) (ex : Expr)
    (start stop : Option Expr) (loc : Loc) (tgt : SVal) (decl : Bool) (a : Addr) (s : Option Val)
    (h : evalExpr n σ sc ex = .ok tgt σ1) (ht : tgt.v = .list a) :
    let go (v : Val) := bindNext (n + 1) σ sc names (.mk (.RangeIndex ex start stop) loc) ⟨v, s⟩ none decl
    go .null = errAt loc (Leaf.RangeIndexAssignOnNonIndexable .Null) σ1 ∧
    (∀ b, go (.bool b) = errAt loc (Leaf.RangeIndexAssignOnNonIndexable .Bool) σ1) ∧
    (∀ i, go (.int i) = errAt loc (Leaf.RangeIndexAssignOnNonIndexable .Int) σ1) ∧
    (∀ o, go (.obj o) = errAt loc (Leaf.RangeIndexAssignOnNonIndexable .Object) σ1) ∧
    (∀ f, go (.func f) = errAt loc (Leaf.RangeIndexAssignOnNonIndexable .Func) σ1) ∧
    (∀ nm id, go (.builtin nm id) = errAt loc (Leaf.RangeIndexAssignOnNonIndexable .BuiltinFunc) σ1) := by
  intro go
  have k := fun v => (range_assign_rhs_kinds n σ σ1 sc names ex start stop loc ⟨v, s⟩ tgt decl a h ht).2.2
  exact ⟨k .null (by simp [Val.kind]) (by simp [Val.kind]), fun b => k (.bool b) (by simp [Val.kind]) (by simp [Val.kind]),
    fun i => k (.int i) (by simp [Val.kind]) (by simp [Val.kind]), fun o => k (.obj o) (by simp [Val.kind]) (by simp [Val.kind]),
    fun f => k (.func f) (by simp [Val.kind]) (by simp [Val.kind]),
    fun nm id => k (.builtin nm id) (by simp [Val.kind]) (by simp [Val.kind])⟩

/-- an instance of the hypotheses: the target `xs` holds the list cell 1 -/
def σx : State := ⟨#[.scope [(c!"xs", SVal.plain (.list 1), (1, 0))], .list [SVal.plain (.int 1), SVal.plain (.int 2), SVal.plain (.int 3)],
  .obj [(c!"x", SVal.plain (.int 10)), (c!"y", SVal.plain (.int 20))]], []⟩

example : evalExpr 1 σx [0] (.mk (.Var c!"xs") (2, 0)) = .ok (SVal.plain (.list 1)) σx ∧
    (SVal.plain (.list 1)).v = .list 1 ∧
    (SVal.plain (.obj 2)).v.kind ≠ .List ∧ (SVal.plain (.obj 2)).v.kind ≠ .Str := by
  refine ⟨by rw [evalExpr]; rfl, rfl, by decide, by decide⟩

/-- **size does not matter.**  The object of cell 2 has exactly two properties, the range `[1:3]` is exactly two long, and
    the two bounds are in range: the answer is still the type error (and not `RangeIndexItemMismatch`, and not a store) -/
example :
    bindNext 2 σx [0] [] (.mk (.RangeIndex (.mk (.Var c!"xs") (2, 0)) (some (.mk (.Int 1) (2, 3))) (some (.mk (.Int 3) (2, 5)))) (2, 2))
      (SVal.plain (.obj 2)) none false = errAt (2, 2) (Leaf.RangeIndexAssignOnNonIndexable .Object) σx ∧
    σx.getObj 2 = some [(c!"x", SVal.plain (.int 10)), (c!"y", SVal.plain (.int 20))] :=
  ⟨(range_assign_rhs_kinds 1 σx σx [0] [] _ _ _ (2, 2) (SVal.plain (.obj 2)) (SVal.plain (.list 1)) false 1
      (by rw [evalExpr]; rfl) rfl).2.2 (by decide) (by decide), by decide⟩

/-- **the check precedes the bounds.**  With a rejected kind the result does not depend on the bound expressions at all:
    any two pairs of bounds (diverging, failing, printing, out of range, …) give the same answer -/
theorem range_assign_reject_ignores_bounds (n : Nat) (σ σ1 : State) (sc : List Addr) (names : List (List Char)) (ex : Expr)
    (start stop start' stop' : Option Expr) (loc : Loc) (rhs tgt : SVal) (decl : Bool) (a : Addr)
    (h : evalExpr n σ sc ex = .ok tgt σ1) (ht : tgt.v = .list a) (h1 : rhs.v.kind ≠ .List) (h2 : rhs.v.kind ≠ .Str) :
    bindNext (n + 1) σ sc names (.mk (.RangeIndex ex start stop) loc) rhs none decl =
      bindNext (n + 1) σ sc names (.mk (.RangeIndex ex start' stop') loc) rhs none decl := by
  rw [(range_assign_rhs_kinds n σ σ1 sc names ex start stop loc rhs tgt decl a h ht).2.2 h1 h2,
    (range_assign_rhs_kinds n σ σ1 sc names ex start' stop' loc rhs tgt decl a h ht).2.2 h1 h2]

/-- **`range_assign_target_kinds`.**  A target that is not a list (string, object, int, …) is
    `ValueNotRangeIndexAssignable` at the target's position, in the state after evaluating the target — whatever the
    right-hand side and the bounds are -/
theorem range_assign_target_kinds (n : Nat) (σ σ1 : State) (sc : List Addr) (names : List (List Char)) (ex : Expr)
    (start stop : Option Expr) (loc : Loc) (rhs tgt : SVal) (decl : Bool)
    (h : evalExpr n σ sc ex = .ok tgt σ1) (ht : tgt.v.kind ≠ .List) :
    bindNext (n + 1) σ sc names (.mk (.RangeIndex ex start stop) loc) rhs none decl =
      errAt loc Leaf.ValueNotRangeIndexAssignable σ1 := by
  rw [bindNext]; simp only [h, Res.bind]
  cases hv : tgt.v <;> simp_all [Val.kind]

example : evalExpr 1 State.init [] (.mk (.Str c!"abc" none) (1, 0)) = .ok (SVal.plain (.str (utf8Encode c!"abc"))) State.init ∧
    (SVal.plain (.str (utf8Encode c!"abc"))).v.kind ≠ .List := ⟨by rw [evalExpr], by decide⟩

/-- the order of the two checks: the target's kind is examined first (a non-list target with a non-list right-hand side
    reports the target) — an instance of the theorem above, stated for emphasis -/
theorem range_assign_target_first (n : Nat) (σ σ1 : State) (sc : List Addr) (names : List (List Char)) (ex : Expr)
    (start stop : Option Expr) (loc : Loc) (tgt : SVal) (decl : Bool) (o : Addr)
    (h : evalExpr n σ sc ex = .ok tgt σ1) (ht : tgt.v.kind ≠ .List) :
    bindNext (n + 1) σ sc names (.mk (.RangeIndex ex start stop) loc) (SVal.plain (.obj o)) none decl =
      errAt loc Leaf.ValueNotRangeIndexAssignable σ1 :=
  range_assign_target_kinds n σ σ1 sc names ex start stop loc _ tgt decl h ht

/-- `t[a:b] op= rhs` is rejected before anything is evaluated -/
theorem range_opassign (n : Nat) (σ : State) (sc : List Addr) (names : List (List Char)) (ex : Expr)
    (start stop : Option Expr) (loc : Loc) (rhs : SVal) (decl : Bool) (p : BinaryOp × Loc) :
    bindNext (n + 1) σ sc names (.mk (.RangeIndex ex start stop) loc) rhs (some p) decl = errAt loc Leaf.OpOnRangeIndex σ := by
  rw [bindNext]

/-- the texts: the right-hand-side error names the offending type with the diagnostics table -/
theorem range_assign_msgs (k : Kind) :
    (Leaf.RangeIndexAssignOnNonIndexable k).msg =
      c!"only 'list's or 'string's can be assigned to range indexes, got '" ++ Gen.typeNameDiag k ++ c!"'" ∧
    Leaf.ValueNotRangeIndexAssignable.msg = c!"only 'list's can update range indices" := ⟨rfl, rfl⟩

/-! ## `===` / `!==` -/

/-- the documented domain of `===`: both operands of the same kind, which is list, object or (user) function -/
theorem allowed_refEq_iff (l r : Kind) :
    C16.allowed .RefEq l r = true ↔ l = r ∧ (l = .List ∨ l = .Object ∨ l = .Func) := by
  cases l <;> cases r <;> simp [C16.allowed]

theorem allowed_refNe_eq (l r : Kind) : C16.allowed .RefNe l r = C16.allowed .RefEq l r := rfl

/-- `refEq` answers exactly on the documented domain -/
theorem refEq_isSome (a b : Val) : (refEq a b).isSome = C16.allowed .RefEq a.kind b.kind := by
  cases a <;> cases b <;> rfl

/-- **`ref_eq_kinds`.**  On two lists, two objects or two functions `===` is a boolean (address equality, `C05.refEq_iff_addr`)
    and `!==` its negation, with no state change; on every other pair of kinds both are the located `InvalidOpTypes`
    error carrying the operator and the two kinds in operand order — whatever the fuel and the state. -/
theorem ref_eq_kinds (fuel : Nat) (σ : State) (loc : Loc) (a b : Val) :
    (C16.allowed .RefEq a.kind b.kind = true → ∃ r, refEq a b = some r ∧
      applyBinOp fuel σ .RefEq loc a b = .ok (.bool r) σ ∧ applyBinOp fuel σ .RefNe loc a b = .ok (.bool (!r)) σ) ∧
    (C16.allowed .RefEq a.kind b.kind = false →
      applyBinOp fuel σ .RefEq loc a b = .err (Err.at loc (Leaf.InvalidOpTypes .RefEq a.kind b.kind)) σ ∧
      applyBinOp fuel σ .RefNe loc a b = .err (Err.at loc (Leaf.InvalidOpTypes .RefNe a.kind b.kind)) σ) := by
  constructor
  · intro h
    have hs := refEq_isSome a b
    rw [h] at hs
    obtain ⟨r, hr⟩ := Option.isSome_iff_exists.mp hs
    exact ⟨r, hr, by simp [applyBinOp, hr], by simp [applyBinOp, hr]⟩
  · intro h
    exact ⟨C16.binop_reject h (by decide) (by decide) fuel σ loc,
      C16.binop_reject (op := .RefNe) h (by decide) (by decide) fuel σ loc⟩

example : C16.allowed .RefEq (Val.list 1).kind (Val.list 2).kind = true ∧
    C16.allowed .RefEq (Val.list 1).kind (Val.obj 2).kind = false := by decide

/-- the converse direction is `C16.binop_domain`: a value is answered only on the documented kinds -/
theorem ref_eq_ok_only_on_domain {fuel : Nat} {σ σ' : State} {loc : Loc} {a b v : Val} :
    (applyBinOp fuel σ .RefEq loc a b = .ok v σ' → C16.allowed .RefEq a.kind b.kind = true) ∧
    (applyBinOp fuel σ .RefNe loc a b = .ok v σ' → C16.allowed .RefNe a.kind b.kind = true) :=
  ⟨C16.binop_domain, C16.binop_domain⟩

example : applyBinOp 0 State.init .RefEq (1, 1) (.list 3) (.list 3) = .ok (.bool true) State.init := rfl

/-- a list and an object (either order, any addresses — also equal ones): the type error naming both kinds in order,
    with the documented text -/
theorem ref_eq_list_object (fuel : Nat) (σ : State) (loc : Loc) (x y : Addr) :
    applyBinOp fuel σ .RefEq loc (.list x) (.obj y) = .err (Err.at loc (Leaf.InvalidOpTypes .RefEq .List .Object)) σ ∧
    applyBinOp fuel σ .RefEq loc (.obj y) (.list x) = .err (Err.at loc (Leaf.InvalidOpTypes .RefEq .Object .List)) σ ∧
    applyBinOp fuel σ .RefNe loc (.list x) (.obj y) = .err (Err.at loc (Leaf.InvalidOpTypes .RefNe .List .Object)) σ ∧
    applyBinOp fuel σ .RefNe loc (.obj y) (.list x) = .err (Err.at loc (Leaf.InvalidOpTypes .RefNe .Object .List)) σ ∧
    (Leaf.InvalidOpTypes .RefEq .List .Object).msg = c!"can't apply '===' to 'list' and 'object'" ∧
    (Leaf.InvalidOpTypes .RefNe .Object .List).msg = c!"can't apply '!==' to 'object' and 'list'" :=
  ⟨rfl, rfl, rfl, rfl, rfl, rfl⟩

/-- a user function and a built-in function are different kinds for `===` (both print as `func`) -/
theorem ref_eq_func_builtin (fuel : Nat) (σ : State) (loc : Loc) (f : Addr) (nm : List Char) (id : BuiltinId) :
    applyBinOp fuel σ .RefEq loc (.func f) (.builtin nm id) = .err (Err.at loc (Leaf.InvalidOpTypes .RefEq .Func .BuiltinFunc)) σ ∧
    applyBinOp fuel σ .RefEq loc (.builtin nm id) (.builtin nm id) =
      .err (Err.at loc (Leaf.InvalidOpTypes .RefEq .BuiltinFunc .BuiltinFunc)) σ :=
  ⟨rfl, rfl⟩

/-- the arms of `ref_eq` in the source (extracted table) are this domain (`C16.source_eq_arms_are_the_documented_domain`) -/
theorem ref_eq_source_arms (l r : Kind) :
    Gen.refEqArms.contains (l, r) = C16.allowed .RefEq l r := by
  cases l <;> cases r <;> decide

/-- the expression `l === r` / `l !== r`, one evaluator step deep: both operands are evaluated (left first), then the
    kinds are checked; out of domain the error is at the operator's position in the state after both operands -/
theorem ref_eq_expr (n : Nat) (σ σ1 σ2 : State) (sc : List Addr) (l r : Expr) (ol loc : Loc) (vl vr : SVal)
    (hl : evalExpr n σ sc l = .ok vl σ1) (hr : evalExpr n σ1 sc r = .ok vr σ2)
    (hk : C16.allowed .RefEq vl.v.kind vr.v.kind = false) :
    evalExpr (n + 1) σ sc (.mk (.BinaryOp .RefEq ol l r) loc) =
      errAt ol (Leaf.InvalidOpTypes .RefEq vl.v.kind vr.v.kind) σ2 ∧
    evalExpr (n + 1) σ sc (.mk (.BinaryOp .RefNe ol l r) loc) =
      errAt ol (Leaf.InvalidOpTypes .RefNe vl.v.kind vr.v.kind) σ2 := by
  obtain ⟨h1, h2⟩ := (ref_eq_kinds n σ2 ol vl.v vr.v).2 hk
  constructor
  · rw [evalExpr]; simp only [hl, hr, Res.bind, h1]; rfl
  · rw [evalExpr]; simp only [hl, hr, Res.bind, h2]; rfl

example : evalExpr 1 σx [0] (.mk (.Var c!"xs") (3, 0)) = .ok (SVal.plain (.list 1)) σx ∧
    evalExpr 1 σx [0] (.mk (.Int 1) (3, 7)) = .ok (SVal.plain (.int 1)) σx ∧
    C16.allowed .RefEq (SVal.plain (.list 1)).v.kind (SVal.plain (.int 1)).v.kind = false :=
  ⟨by rw [evalExpr]; rfl, by rw [evalExpr], by decide⟩

/-! ## through the whole pipeline (`run`: lex, parse, evaluate, render) -/

/-- an object with exactly as many properties as the range is long: the type error, and nothing was stored -/
example : (run 300 c!"t.sd" c!"xs := [1, 2, 3];\nxs[1:3] = {\"x\": 10, \"y\": 20};\n").stderr =
    c!"t.sd:2:1: only 'list's or 'string's can be assigned to range indexes, got 'object'\n" := by decide +kernel

/-- every rejected kind, named with the `->type()` name -/
example :
    (run 300 c!"t.sd" c!"xs := [1, 2, 3];\nxs[1:3] = null;\n").stderr =
      c!"t.sd:2:1: only 'list's or 'string's can be assigned to range indexes, got 'null'\n" ∧
    (run 300 c!"t.sd" c!"xs := [1, 2, 3];\nxs[1:3] = true;\n").stderr =
      c!"t.sd:2:1: only 'list's or 'string's can be assigned to range indexes, got 'bool'\n" ∧
    (run 300 c!"t.sd" c!"xs := [1, 2, 3];\nxs[1:3] = 7;\n").stderr =
      c!"t.sd:2:1: only 'list's or 'string's can be assigned to range indexes, got 'int'\n" ∧
    (run 300 c!"t.sd" c!"xs := [1, 2, 3];\nxs[1:3] = fn () {};\n").stderr =
      c!"t.sd:2:1: only 'list's or 'string's can be assigned to range indexes, got 'func'\n" ∧
    (run 300 c!"t.sd" c!"xs := [1, 2, 3];\nxs[1:3] = print;\n").stderr =
      c!"t.sd:2:1: only 'list's or 'string's can be assigned to range indexes, got 'func'\n" := by decide +kernel

/-- the accepted kinds: a list and a string of the right length are stored -/
example :
    (run 300 c!"t.sd" c!"xs := [1, 2, 3];\nxs[1:3] = \"ab\";\nprint(xs[1] + xs[2]);\nxs[0:1] = [[]];\nprint(xs[0] == []);\n").out =
      [c!"ab", c!"true"] := by decide +kernel

/-- the kind check precedes the bounds: the bound `f()` prints when the right-hand side is a list (and the size error
    follows), and is never evaluated — nothing printed — when it is an object -/
example :
    let o := run 300 c!"t.sd" c!"fn f() { print(\"bound\"); return 1; }\nxs := [1, 2, 3];\nxs[f():3] = {\"x\": 10, \"y\": 20};\n"
    let l := run 300 c!"t.sd" c!"fn f() { print(\"bound\"); return 1; }\nxs := [1, 2, 3];\nxs[f():3] = [7];\n"
    o.out = [] ∧ o.stderr = c!"t.sd:3:1: only 'list's or 'string's can be assigned to range indexes, got 'object'\n" ∧
    l.out = [c!"bound"] ∧ l.stderr = c!"t.sd:3:1: cannot bind 1 item(s) to 2 index(s)\n" := by decide +kernel

/-- … and an out-of-range bound is not reported either: the type error wins -/
example : (run 300 c!"t.sd" c!"xs := [1, 2, 3];\nxs[5:9] = {\"x\": 10};\n").stderr =
    c!"t.sd:2:1: only 'list's or 'string's can be assigned to range indexes, got 'object'\n" := by decide +kernel

/-- the target: a string or an object cannot be range-assigned, whatever is assigned -/
example :
    (run 300 c!"t.sd" c!"xs := \"abc\";\nxs[1:3] = \"ab\";\n").stderr = c!"t.sd:2:1: only 'list's can update range indices\n" ∧
    (run 300 c!"t.sd" c!"xs := {\"a\": 1};\nxs[1:3] = [1, 2];\n").stderr = c!"t.sd:2:1: only 'list's can update range indices\n" ∧
    (run 300 c!"t.sd" c!"xs := {\"a\": 1};\nxs[1:3] = {\"a\": 1};\n").stderr = c!"t.sd:2:1: only 'list's can update range indices\n" := by
  decide +kernel

/-- `===` / `!==` between a list and an object -/
example :
    (run 300 c!"t.sd" c!"print([] === {});\n").stderr = c!"t.sd:1:10: can't apply '===' to 'list' and 'object'\n" ∧
    (run 300 c!"t.sd" c!"print({} !== []);\n").stderr = c!"t.sd:1:10: can't apply '!==' to 'object' and 'list'\n" ∧
    (run 300 c!"t.sd" c!"a := [];\no := {};\nf := fn () {};\nprint(a === a);\nprint(o === o);\nprint(f === f);\nprint(a !== []);\n").out =
      [c!"true", c!"true", c!"true", c!"true"] := by decide +kernel

end C16R
end Seed
