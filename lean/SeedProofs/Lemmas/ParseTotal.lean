/-
  ParseTotal.lean — P3: the parser never runs out of fuel when it is given `10 * (number of tokens) + c_f`
  units, where `c_f ≤ 10` is a per-function constant (for `parseTier k` it is `3 + (postfixTier - k)`).
  The potential `Φ_f(ts) = 10 * ts.length + c_f` strictly decreases along every call edge of the mutual
  block: calls on the same input go to a function with a smaller constant (the chain
  parseStmts/parseBraceStmt > parseRawStmt > parseExprStmt/parseExpr > parseExpr1 > parseTier 2 > … >
  parsePostfix > parseAtom), every other call happens after at least one token has been consumed (P2), which
  pays for any constant.  One induction on the fuel over the conjunction of all functions.
-/
import SeedProofs.Lemmas.ParseProgress
namespace Seed

/-- not a time-out -/
def PRes.NT {α} (r : PRes α) : Prop := r ≠ .timeout

namespace PRes.NT
theorem ok {α} (a : α) (rest : List Span) : PRes.NT (PRes.ok a rest) := by intro h; cases h
theorem err {α} (e : PErr) : PRes.NT (PRes.err e : PRes α) := by intro h; cases h

theorem bind {α β} {m : Nat} {r : PRes α} {f : α → List Span → PRes β} (hb : PRes.Bnd m r) (hn : PRes.NT r)
    (hf : ∀ a ts, ts.length < m → PRes.NT (f a ts)) : PRes.NT (r.bind f) := by
  cases r with
  | ok a rest => exact hf a rest hb
  | err e => exact PRes.NT.err e
  | timeout => exact absurd rfl hn

theorem map {α β} {r : PRes α} (f : α → β) (hn : PRes.NT r) : PRes.NT (r.map f) := by
  cases r with
  | ok a rest => exact PRes.NT.ok _ _
  | err e => exact PRes.NT.err e
  | timeout => exact absurd rfl hn
end PRes.NT

theorem expectTok_nt (t : Token) (ts : List Span) : PRes.NT (expectTok t ts) := by
  unfold expectTok
  split
  · exact PRes.NT.err _
  · split
    · exact PRes.NT.ok _ _
    · exact PRes.NT.err _

theorem expectIdent_nt (ts : List Span) : PRes.NT (expectIdent ts) := by
  unfold expectIdent
  split
  · exact PRes.NT.err _
  · split
    · exact PRes.NT.ok _ _
    · exact PRes.NT.err _

/-- "`n` units of fuel are enough whenever `n ≥ 10 * ts.length + c_f`" for every parser function -/
structure PTotAll (n : Nat) : Prop where
  parseAtom : ∀ pre ts, 10 * ts.length + 1 ≤ n → PRes.NT (parseAtom n pre ts)
  parsePostfix : ∀ l pre ts, 10 * ts.length + 2 ≤ n → PRes.NT (parsePostfix n l pre ts)
  postfixLoop : ∀ l acc ts, 10 * ts.length + 1 ≤ n → PRes.NT (postfixLoop n l acc ts)
  parseIndexTail : ∀ e ts, 10 * ts.length + 9 ≤ n → PRes.NT (parseIndexTail n e ts)
  parseRangeEnd : ∀ e s ts, 10 * ts.length + 9 ≤ n → PRes.NT (parseRangeEnd n e s ts)
  parseTier : ∀ k l pre ts, 10 * ts.length + (3 + (Gen.postfixTier - k)) ≤ n → PRes.NT (parseTier n k l pre ts)
  tierLoop : ∀ k l acc ts, 10 * ts.length + 1 ≤ n → PRes.NT (tierLoop n k l acc ts)
  parseExpr1 : ∀ s l pre ts, 10 * ts.length + 7 ≤ n → PRes.NT (parseExpr1 n s l pre ts)
  rangeLoop : ∀ s l acc ts, 10 * ts.length + 1 ≤ n → PRes.NT (rangeLoop n s l acc ts)
  parseExpr : ∀ s ts, 10 * ts.length + 8 ≤ n → PRes.NT (parseExpr n s ts)
  parseArgs : ∀ acc ts, 10 * ts.length + 9 ≤ n → PRes.NT (parseArgs n acc ts)
  parseExprList : ∀ acc ts, 10 * ts.length + 9 ≤ n → PRes.NT (parseExprList n acc ts)
  parseParams : ∀ acc ts, 10 * ts.length + 9 ≤ n → PRes.NT (parseParams n acc ts)
  parsePropItems : ∀ acc ts, 10 * ts.length + 9 ≤ n → PRes.NT (parsePropItems n acc ts)
  parsePropTail : ∀ acc ts, 10 * ts.length + 1 ≤ n → PRes.NT (parsePropTail n acc ts)
  parseBlock : ∀ ts, 10 * ts.length + 1 ≤ n → PRes.NT (parseBlock n ts)
  parseStmts : ∀ c acc ts, 10 * ts.length + 10 ≤ n → PRes.NT (parseStmts n c acc ts)
  parseIf : ∀ ts, 10 * ts.length + 9 ≤ n → PRes.NT (parseIf n ts)
  parseStmtTail : ∀ lhs ts, 10 * ts.length + 1 ≤ n → PRes.NT (parseStmtTail n lhs ts)
  parseExprStmt : ∀ amb l pre ts, 10 * ts.length + 8 ≤ n → PRes.NT (parseExprStmt n amb l pre ts)
  parseRawStmt : ∀ amb ts, 10 * ts.length + 9 ≤ n → PRes.NT (parseRawStmt n amb ts)
  parseBraceStmt : ∀ amb l ts, 10 * ts.length + 10 ≤ n → PRes.NT (parseBraceStmt n amb l ts)

macro "ptot_arith" : tactic =>
  `(tactic| ((try simp only [optLen, List.length_cons, List.length_nil, Nat.add_zero, Gen.postfixTier, Gen.firstTier] at *); omega))

/-- a (sub-)call does not time out, by the induction hypothesis and arithmetic on the potential -/
macro "ptot_call " ih:ident : tactic =>
  `(tactic| first
    | exact expectTok_nt _ _ | exact expectIdent_nt _
    | ((with_reducible apply PTotAll.parseAtom $ih); ptot_arith) | ((with_reducible apply PTotAll.parsePostfix $ih); ptot_arith)
    | ((with_reducible apply PTotAll.postfixLoop $ih); ptot_arith) | ((with_reducible apply PTotAll.parseIndexTail $ih); ptot_arith)
    | ((with_reducible apply PTotAll.parseRangeEnd $ih); ptot_arith) | ((with_reducible apply PTotAll.parseTier $ih); ptot_arith)
    | ((with_reducible apply PTotAll.tierLoop $ih); ptot_arith) | ((with_reducible apply PTotAll.parseExpr1 $ih); ptot_arith)
    | ((with_reducible apply PTotAll.rangeLoop $ih); ptot_arith) | ((with_reducible apply PTotAll.parseExpr $ih); ptot_arith)
    | ((with_reducible apply PTotAll.parseArgs $ih); ptot_arith) | ((with_reducible apply PTotAll.parseExprList $ih); ptot_arith)
    | ((with_reducible apply PTotAll.parseParams $ih); ptot_arith) | ((with_reducible apply PTotAll.parsePropItems $ih); ptot_arith)
    | ((with_reducible apply PTotAll.parsePropTail $ih); ptot_arith) | ((with_reducible apply PTotAll.parseBlock $ih); ptot_arith)
    | ((with_reducible apply PTotAll.parseStmts $ih); ptot_arith) | ((with_reducible apply PTotAll.parseIf $ih); ptot_arith)
    | ((with_reducible apply PTotAll.parseStmtTail $ih); ptot_arith) | ((with_reducible apply PTotAll.parseExprStmt $ih); ptot_arith)
    | ((with_reducible apply PTotAll.parseRawStmt $ih); ptot_arith) | ((with_reducible apply PTotAll.parseBraceStmt $ih); ptot_arith))

macro "ptot_auto " ih:ident hb:ident : tactic =>
  `(tactic| repeat' first
    | exact PRes.NT.ok _ _
    | exact PRes.NT.err _
    | (refine PRes.NT.bind (by pbnd_call $hb) (by ptot_call $ih) ?_)
    | ptot_call $ih
    | intro _ _ _
    | (dsimp only [])
    | (apply PRes.NT.map; ptot_call $ih)
    | split)

theorem ptotAll_zero : PTotAll 0 := by
  constructor <;> intros <;> omega

theorem ptotAll_succ (n : Nat) (ih : PTotAll n) : PTotAll (n + 1) := by
  have hb := pbndAll n
  constructor
  · intro pre ts hn; (conv => arg 1; unfold parseAtom); ptot_auto ih hb
  · intro l pre ts hn; cases pre <;> ((conv => arg 1; unfold parsePostfix); ptot_auto ih hb)
  · intro l acc ts hn; (conv => arg 1; unfold postfixLoop); ptot_auto ih hb
  · intro e ts hn; (conv => arg 1; unfold parseIndexTail); ptot_auto ih hb
  · intro e s ts hn; (conv => arg 1; unfold parseRangeEnd); ptot_auto ih hb
  · intro k l pre ts hn; cases pre <;> ((conv => arg 1; unfold parseTier); ptot_auto ih hb)
  · intro k l acc ts hn; (conv => arg 1; unfold tierLoop); ptot_auto ih hb
  · intro s l pre ts hn; cases pre <;> ((conv => arg 1; unfold parseExpr1); ptot_auto ih hb)
  · intro s l acc ts hn; (conv => arg 1; unfold rangeLoop); ptot_auto ih hb
  · intro s ts hn; (conv => arg 1; unfold parseExpr); ptot_auto ih hb
  · intro acc ts hn; (conv => arg 1; unfold parseArgs); ptot_auto ih hb
  · intro acc ts hn; (conv => arg 1; unfold parseExprList); ptot_auto ih hb
  · intro acc ts hn; (conv => arg 1; unfold parseParams); ptot_auto ih hb
  · intro acc ts hn; (conv => arg 1; unfold parsePropItems); ptot_auto ih hb
  · intro acc ts hn; (conv => arg 1; unfold parsePropTail); ptot_auto ih hb
  · intro ts hn; (conv => arg 1; unfold parseBlock); ptot_auto ih hb
  · intro c acc ts hn; (conv => arg 1; unfold parseStmts); ptot_auto ih hb
  · intro ts hn; (conv => arg 1; unfold parseIf); ptot_auto ih hb
  · intro lhs ts hn; (conv => arg 1; unfold parseStmtTail); ptot_auto ih hb
  · intro amb l pre ts hn; cases pre <;> ((conv => arg 1; unfold parseExprStmt); ptot_auto ih hb)
  · intro amb ts hn; (conv => arg 1; unfold parseRawStmt); ptot_auto ih hb
  · intro amb l ts hn; (conv => arg 1; unfold parseBraceStmt); ptot_auto ih hb

theorem ptotAll (n : Nat) : PTotAll n := by
  induction n with
  | zero => exact ptotAll_zero
  | succ n ih => exact ptotAll_succ n ih

/-! ### the driver's fuel is enough -/

/-- `parseStmts` never times out on `10 * (ts.length + 1)` units of fuel or more -/
theorem parseStmts_total (fuel : Nat) (c : Bool) (acc : List Stmt) (ts : List Span)
    (h : 10 * (ts.length + 1) ≤ fuel) : parseStmts fuel c acc ts ≠ .timeout :=
  (ptotAll fuel).parseStmts c acc ts (by omega)

/-- `parseExpr` never times out on `10 * ts.length + 8` units of fuel or more -/
theorem parseExpr_total (fuel : Nat) (s : Bool) (ts : List Span)
    (h : 10 * ts.length + 8 ≤ fuel) : parseExpr fuel s ts ≠ .timeout :=
  (ptotAll fuel).parseExpr s ts h

/-- P3: the fuel supplied by `parseProg` and `parseExprTop` always suffices -/
theorem parse_total (ts : List Span) :
    parseStmts (parseFuel ts) false [] ts ≠ .timeout ∧ parseExpr (parseFuel ts) false ts ≠ .timeout := by
  constructor
  · apply parseStmts_total; unfold parseFuel; omega
  · apply parseExpr_total; unfold parseFuel; omega

/-- the front end never reports a time-out -/
theorem parseProg_ne_timeout (src : List Char) : parseProg src ≠ .timeout := by
  unfold parseProg
  have h := (parse_total (lexAll src).1).1
  generalize hl : lexAll src = p at h
  obtain ⟨ts, le⟩ := p
  dsimp only at h ⊢
  split
  · rename_i heq; exact absurd heq h
  · (intro h; cases h)
  · split <;> (intro h; cases h)

theorem parseExprTop_ne_timeout (src : List Char) : parseExprTop src ≠ .timeout := by
  unfold parseExprTop
  have h := (parse_total (lexAll src).1).2
  generalize hl : lexAll src = p at h
  obtain ⟨ts, le⟩ := p
  dsimp only at h ⊢
  split
  · rename_i heq; exact absurd heq h
  · (intro h; cases h)
  · split
    · (intro h; cases h)
    · split <;> (intro h; cases h)

end Seed
