/-
  NoCrashDefs.lean — G4, part 3a: the statement `SafeAll n` ("at fuel `n` no evaluator function crashes from a
  well-formed state, except by `lock`") and the small facts its proof needs.
-/
import SeedProofs.Lemmas.WFPrim
namespace Seed

/-- the value carried by a `return` is OK -/
def EscOK (σ : State) : Escape → Prop
  | .none => True
  | .brk _ => True
  | .cont _ => True
  | .ret v _ => SValOK σ v

def BindsOK (σ : State) (bs : List (Expr × SVal)) : Prop := ∀ b ∈ bs, SValOK σ b.2

theorem BindsOK.nil {σ : State} : BindsOK σ [] := fun _ h => by cases h
theorem BindsOK.cons {σ : State} {e : Expr} {v : SVal} {bs : List (Expr × SVal)} (hv : SValOK σ v) (h : BindsOK σ bs) :
    BindsOK σ ((e, v) :: bs) := by
  intro b hb
  rcases List.mem_cons.1 hb with rfl | hb
  · exact hv
  · exact h b hb
theorem BindsOK.append {σ : State} {xs ys : List (Expr × SVal)} (hx : BindsOK σ xs) (hy : BindsOK σ ys) :
    BindsOK σ (xs ++ ys) := by
  intro b hb
  rcases List.mem_append.1 hb with h | h
  · exact hx b h
  · exact hy b h
theorem BindsOK.zip {σ : State} (es : List Expr) {vs : List SVal} (h : ListOK σ vs) : BindsOK σ (es.zip vs) :=
  fun b hb => h b.2 (List.of_mem_zip (a := b.1) (b := b.2) hb).2
theorem BindsOK.mono {σ σ' : State} {bs : List (Expr × SVal)} (h : BindsOK σ bs) (he : Ext σ σ') : BindsOK σ' bs :=
  fun b hb => (h b hb).mono he
theorem BindsOK.head {σ : State} {e : Expr} {v : SVal} {bs : List (Expr × SVal)} (h : BindsOK σ ((e, v) :: bs)) : SValOK σ v :=
  h (e, v) List.mem_cons_self
theorem BindsOK.tail {σ : State} {b : Expr × SVal} {bs : List (Expr × SVal)} (h : BindsOK σ (b :: bs)) : BindsOK σ bs :=
  fun x hx => h x (List.mem_cons_of_mem _ hx)

/-- the live source list of a list destructuring is long enough for the pattern -/
def LenOK (σ : State) (b : Addr) (collect : Bool) (lhsLen : Nat) : Prop :=
  ∃ xs, σ.getList b = some xs ∧ (collect = true → lhsLen - 1 ≤ xs.length) ∧ (collect = false → lhsLen ≤ xs.length)

theorem LenOK.mono {σ σ' : State} {b : Addr} {c : Bool} {l : Nat} (h : LenOK σ b c l) (he : Ext σ σ') : LenOK σ' b c l := by
  obtain ⟨xs, hx, h1, h2⟩ := h
  obtain ⟨ys, hy, hl⟩ := he.getList hx
  exact ⟨ys, hy, by rw [hl]; exact h1, by rw [hl]; exact h2⟩

theorem ValOK.list_tag {σ : State} {v : Val} {a : Addr} (h : ValOK σ v) (e : v = .list a) : σ.tagAt a = some .list := by
  rw [e] at h; exact h
theorem ValOK.obj_tag {σ : State} {v : Val} {a : Addr} (h : ValOK σ v) (e : v = .obj a) : σ.tagAt a = some .obj := by
  rw [e] at h; exact h
theorem ValOK.func_tag {σ : State} {v : Val} {a : Addr} (h : ValOK σ v) (e : v = .func a) : σ.tagAt a = some .func := by
  rw [e] at h; exact h

theorem EscOK.mono {σ σ' : State} {e : Escape} (h : EscOK σ e) (he : Ext σ σ') : EscOK σ' e := by
  cases e <;> first | trivial | exact SValOK.mono h he

theorem intRange_ok (σ : State) (a b : Int) : ListOK σ (intRange a b) := by
  intro x hx
  obtain ⟨i, _, rfl⟩ := List.mem_map.1 hx
  exact SValOK.plain trivial

theorem strItems_ok (σ : State) (bs : Bytes) : ListOK σ (bs.map fun b => SVal.plain (.str [b])) := by
  intro x hx
  obtain ⟨i, _, rfl⟩ := List.mem_map.1 hx
  exact SValOK.plain trivial

/-- at fuel `n`, from a well-formed state, a usable scope chain and OK arguments, no evaluator function
    crashes (except by `lock`), and success yields OK results in a well-formed extension of the state -/
structure SafeAll (n : Nat) : Prop where
  evalExpr : ∀ σ sc e, WF σ → ScOK σ sc → Safe SValOK σ (evalExpr n σ sc e)
  evalOptIndex : ∀ σ sc e, WF σ → ScOK σ sc → Safe Triv σ (evalOptIndex n σ sc e)
  evalListItems : ∀ σ sc items acc, WF σ → ScOK σ sc → ListOK σ acc → Safe ListOK σ (evalListItems n σ sc items acc)
  /-- the accumulator of an object literal stays strictly sorted by key -/
  evalProps : ∀ σ sc l props acc, WF σ → ScOK σ sc → ObjOK σ acc → Sorted acc →
    Safe (fun σ' m => ObjOK σ' m ∧ Sorted m) σ (evalProps n σ sc l props acc)
  evalCall : ∀ σ sc f args loc, WF σ → ScOK σ sc → Safe SValOK σ (evalCall n σ sc f args loc)
  evalToStr : ∀ σ sc d e, WF σ → ScOK σ sc → Safe Triv σ (evalToStr n σ sc d e)
  evalToBool : ∀ σ sc d e, WF σ → ScOK σ sc → Safe Triv σ (evalToBool n σ sc d e)
  evalToInt : ∀ σ sc d e, WF σ → ScOK σ sc → Safe Triv σ (evalToInt n σ sc d e)
  evalToIndex : ∀ σ sc e, WF σ → ScOK σ sc → Safe Triv σ (evalToIndex n σ sc e)
  interpolate : ∀ σ sc s slots loc last acc, WF σ → ScOK σ sc → Safe Triv σ (interpolate n σ sc s slots loc last acc)
  /-- `evalBlock` pushes a fresh scope, so the outer chain may be empty (as in `evalProg`) -/
  evalBlock : ∀ σ sc bs stmts, WF σ → ScTags σ sc → BindsOK σ bs → Safe EscOK σ (evalBlock n σ sc bs stmts)
  declareAll : ∀ σ sc bs, WF σ → ScOK σ sc → BindsOK σ bs → Safe Triv σ (declareAll n σ sc bs)
  evalStmts : ∀ σ sc stmts, WF σ → ScOK σ sc → Safe EscOK σ (evalStmts n σ sc stmts)
  evalStmt : ∀ σ sc st, WF σ → ScOK σ sc → Safe EscOK σ (evalStmt n σ sc st)
  evalIf : ∀ σ sc bs els, WF σ → ScOK σ sc → Safe EscOK σ (evalIf n σ sc bs els)
  evalWhile : ∀ σ sc c stmts, WF σ → ScOK σ sc → Safe EscOK σ (evalWhile n σ sc c stmts)
  evalFor : ∀ σ sc lhs pairs stmts, WF σ → ScOK σ sc → PairsOK σ pairs → Safe EscOK σ (evalFor n σ sc lhs pairs stmts)
  bindNext : ∀ σ sc names lhs rhs op decl, WF σ → ScOK σ sc → SValOK σ rhs →
    Safe Triv σ (bindNext n σ sc names lhs rhs op decl)
  bindProp : ∀ σ a name loc rhs op names vi, WF σ → σ.tagAt a = some .obj → SValOK σ rhs →
    Safe Triv σ (bindProp n σ a name loc rhs op names vi)
  bindRangeIndex : ∀ σ sc a start stop loc rhsItems names, WF σ → ScOK σ sc → σ.tagAt a = some .list → ListOK σ rhsItems →
    Safe Triv σ (bindRangeIndex n σ sc a start stop loc rhsItems names)
  bindList : ∀ σ sc names items collect lhsLoc b decl i lhsLen, WF σ → ScOK σ sc → i + items.length = lhsLen →
    LenOK σ b collect lhsLen → Safe Triv σ (bindList n σ sc names items collect lhsLoc b decl i lhsLen)
  bindObject : ∀ σ sc names props b decl i total remaining, WF σ → ScOK σ sc → σ.tagAt b = some .obj →
    Safe Triv σ (bindObject n σ sc names props b decl i total remaining)
  bindObjectProp : ∀ σ sc names lhs b pname ploc decl, WF σ → ScOK σ sc → σ.tagAt b = some .obj →
    Safe Triv σ (bindObjectProp n σ sc names lhs b pname ploc decl)

theorem safeAll_zero : SafeAll 0 := by
  constructor <;> intros
  · unfold evalExpr; trivial
  · unfold evalOptIndex; trivial
  · unfold evalListItems; trivial
  · unfold evalProps; trivial
  · unfold evalCall; trivial
  · unfold evalToStr; trivial
  · unfold evalToBool; trivial
  · unfold evalToInt; trivial
  · unfold evalToIndex; trivial
  · unfold interpolate; trivial
  · unfold evalBlock; trivial
  · unfold declareAll; trivial
  · unfold evalStmts; trivial
  · unfold evalStmt; trivial
  · unfold evalIf; trivial
  · unfold evalWhile; trivial
  · unfold evalFor; trivial
  · unfold bindNext; trivial
  · unfold bindProp; trivial
  · unfold bindRangeIndex; trivial
  · unfold bindList; trivial
  · unfold bindObject; trivial
  · unfold bindObjectProp; trivial

end Seed
