/-
  Lemmas/C16Kinds.lean — the documented operand table (`allowed`, transcribed from the statement of C16) and the
  case analyses of `applyBinOp` over operator × kind × kind.
-/
import SeedModel.Prim
import SeedModel.Eval
namespace Seed.C16
open Seed

/-- the documented operand kinds of every binary operator:
    `+` two ints, two strings or two lists; `- * / %` and `< <= > >=` two ints; `&& ||` two bools;
    `==`/`!=` two values of the same non-function kind; `===`/`!==` two lists, two objects or two user functions -/
def allowed (op : BinaryOp) (l r : Kind) : Bool :=
  match op with
  | .Sum => (l == .Int && r == .Int) || (l == .Str && r == .Str) || (l == .List && r == .List)
  | .Sub | .Mul | .Div | .Mod | .Lt | .Lte | .Gt | .Gte => l == .Int && r == .Int
  | .And | .Or => l == .Bool && r == .Bool
  | .Eq | .Ne => l == r && l != .Func && l != .BuiltinFunc
  | .RefEq | .RefNe => (l == .List && r == .List) || (l == .Object && r == .Object) || (l == .Func && r == .Func)

/-- the kind of a result, fixed by the operator (for `+`: the kind of the operands) -/
def resultKind (op : BinaryOp) (l : Kind) : Kind :=
  match op with
  | .Sum => l
  | .Sub | .Mul | .Div | .Mod => .Int
  | _ => .Bool

/-- the number of allowed cells of the 15 × 8 × 8 matrix -/
theorem allowed_count :
    (([BinaryOp.Sum, .Sub, .Mul, .Div, .Mod, .And, .Or, .Eq, .Ne, .Gt, .Gte, .Lt, .Lte, .RefEq, .RefNe].map fun op =>
      ([Kind.Null, .Bool, .Int, .Str, .List, .Object, .BuiltinFunc, .Func].map fun l =>
        ([Kind.Null, .Bool, .Int, .Str, .List, .Object, .BuiltinFunc, .Func].filter fun r => allowed op l r).length).sum).sum) = 31 := by
  decide

theorem arith_ok_kind {op : BinaryOp} {loc : Loc} {x y : Int} {σ σ' : State} {v : Val}
    (h : arith op loc x y σ = .ok v σ') : v.kind = .Int := by
  unfold arith at h
  cases op <;> simp only at h <;> (repeat' split at h) <;> first | (cases h; rfl) | cases h

/-- `==` answers a boolean only on operands of the same non-function kind -/
theorem eqVal_ok_kinds {fuel : Nat} {σ : State} {a b : Val} {r : Bool} (h : eqVal fuel σ a b = .ok r) :
    allowed .Eq a.kind b.kind = true := by
  cases fuel with
  | zero => simp [eqVal] at h
  | succ n =>
    cases a <;> cases b <;> first | rfl | (simp [eqVal] at h)

/-- on operands of different kinds, or two functions, `==` reports both type names in operand order, with an empty path -/
theorem eqVal_mismatch {n : Nat} {σ : State} {a b : Val} (h : allowed .Eq a.kind b.kind = false) :
    eqVal (n + 1) σ a b = .mismatch [] (Gen.typeNameDiag a.kind) (Gen.typeNameDiag b.kind) := by
  cases a <;> cases b <;> first | (simp [eqVal]; done) | (revert h; simp [allowed, Val.kind])

theorem domain_noneq {fuel : Nat} {σ σ' : State} {op : BinaryOp} {loc : Loc} {a b v : Val}
    (h1 : op ≠ .Eq) (h2 : op ≠ .Ne) (h : applyBinOp fuel σ op loc a b = .ok v σ') :
    allowed op a.kind b.kind = true := by
  cases op <;> first | exact absurd rfl h1 | exact absurd rfl h2 | skip
  all_goals
    cases a <;> cases b <;> first | rfl | cases h

theorem reject_noneq {op : BinaryOp} {a b : Val} (h : allowed op a.kind b.kind = false)
    (h1 : op ≠ .Eq) (h2 : op ≠ .Ne) (fuel : Nat) (σ : State) (loc : Loc) :
    applyBinOp fuel σ op loc a b = .err (invalidOpTypes op loc a b) σ := by
  cases op <;> first | exact absurd rfl h1 | exact absurd rfl h2 | skip
  all_goals
    cases a <;> cases b <;> first | rfl | cases h

theorem result_kind_noneq {fuel : Nat} {σ σ' : State} {op : BinaryOp} {loc : Loc} {a b v : Val}
    (h1 : op ≠ .Eq) (h2 : op ≠ .Ne) (h : applyBinOp fuel σ op loc a b = .ok v σ') :
    v.kind = resultKind op a.kind := by
  cases op <;> first | exact absurd rfl h1 | exact absurd rfl h2 | skip
  all_goals
    cases a <;> cases b <;> first
      | (cases h; rfl)
      | (cases h; done)
      | exact arith_ok_kind (op := .Sum) h
      | exact arith_ok_kind (op := .Sub) h
      | exact arith_ok_kind (op := .Mul) h
      | exact arith_ok_kind (op := .Div) h
      | exact arith_ok_kind (op := .Mod) h
      | (simp only [applyBinOp] at h; repeat' split at h) <;> first | (cases h; rfl) | (cases h; done)

end Seed.C16
