/-
  Lemmas/C06Fuel.lean — answers that are not time-outs are stable under more fuel (from G1, `monoAll`).
-/
import SeedProofs.Lemmas.EvalMono
namespace Seed.C06
open Seed

theorem evalExpr_stable {m n : Nat} (h : m ≤ n) {σ : State} {sc : List Addr} {e : Expr} {r : Res SVal}
    (hr : evalExpr m σ sc e = r) (hne : r ≠ .timeout) : evalExpr n σ sc e = r := by
  induction h with
  | refl => exact hr
  | step _ ih =>
    rename_i k _
    rcases (monoAll k).evalExpr σ sc e with h' | h'
    · rw [ih] at h'; exact absurd h' hne
    · rw [← h', ih]

theorem applyBinOp_stable {m n : Nat} (h : m ≤ n) {σ : State} {op : BinaryOp} {loc : Loc} {a b : Val} {r : Res Val}
    (hr : applyBinOp m σ op loc a b = r) (hne : r ≠ .timeout) : applyBinOp n σ op loc a b = r := by
  induction h with
  | refl => exact hr
  | step _ ih =>
    rename_i k _
    rcases applyBinOp_mono k σ op loc a b with h' | h'
    · rw [ih] at h'; exact absurd h' hne
    · rw [← h', ih]

end Seed.C06
