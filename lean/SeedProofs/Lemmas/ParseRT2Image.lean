/-
  ParseRT2Image.lean — the domain of the round trip, characterised: a program is well-formed (`wfStmts true`)
  iff, up to positions, the parser returns it from some token list (`image_iff`); the printer is injective up
  to positions on well-formed trees (`prStmts_injective`, `prE_injective`: no two different trees are
  spelled by the same tokens — the printed parentheses always suffice).
-/
import SeedProofs.Lemmas.ParseRT2Sound
namespace Seed

/-! ### well-formedness does not look at positions -/

theorem stripItems_isEmpty (l : List ListItem) : (stripItems l).isEmpty = l.isEmpty := by
  cases l with
  | nil => rfl
  | cons a l => cases a; rfl

theorem stripEs_isEmpty (l : List Expr) : (stripEs l).isEmpty = l.isEmpty := by
  cases l <;> rfl

theorem stripStmts_isEmpty (l : List Stmt) : (stripStmts l).isEmpty = l.isEmpty := by
  cases l <;> rfl

theorem stripBs_isEmpty (l : List Branch) : (stripBs l).isEmpty = l.isEmpty := by
  cases l with
  | nil => rfl
  | cons a l => cases a; rfl

mutual
theorem wfR_strip (fn : Bool) : (r : RawExpr) → wfR fn (stripR r) = wfR fn r
  | .Null => rfl
  | .Bool _ => rfl
  | .Int _ => rfl
  | .Str _ _ => rfl
  | .Var _ => rfl
  | .BinaryOp _ _ l r => by simp only [stripR, wfR, wfE_strip fn l, wfE_strip fn r]
  | .List items c => by simp only [stripR, wfR, wfItems_strip fn items, stripItems_isEmpty]
  | .Index e i => by simp only [stripR, wfR, wfE_strip fn e, wfE_strip fn i]
  | .RangeIndex e a b => by simp only [stripR, wfR, wfE_strip fn e, wfO_strip fn a, wfO_strip fn b]
  | .Range a b => by simp only [stripR, wfR, wfE_strip fn a, wfE_strip fn b]
  | .Object props => by simp only [stripR, wfR, wfProps_strip fn props]
  | .Prop e _ _ => by simp only [stripR, wfR, wfE_strip fn e]
  | .Func args c stmts => by
    simp only [stripR, wfR, wfEs_strip fn args, wfStmts_strip fn stmts, stripEs_isEmpty]
  | .Call f args => by simp only [stripR, wfR, wfE_strip fn f, wfItems_strip fn args]
theorem wfE_strip (fn : Bool) : (e : Expr) → wfE fn (stripE e) = wfE fn e
  | .mk r _ => by simp only [stripE, wfE, wfR_strip fn r]
theorem wfO_strip (fn : Bool) : (o : Option Expr) → wfO fn (stripO o) = wfO fn o
  | none => rfl
  | some e => by simp only [stripO, wfO, wfE_strip fn e]
theorem wfItems_strip (fn : Bool) : (l : List ListItem) → wfItems fn (stripItems l) = wfItems fn l
  | [] => rfl
  | .mk e _ :: r => by simp only [stripItems, wfItems, wfE_strip fn e, wfItems_strip fn r]
theorem wfProps_strip (fn : Bool) : (l : List PropItem) → wfProps fn (stripProps l) = wfProps fn l
  | [] => rfl
  | .Pair k v :: r => by simp only [stripProps, wfProps, wfE_strip fn k, wfE_strip fn v, wfProps_strip fn r]
  | .Single e _ _ :: r => by simp only [stripProps, wfProps, wfE_strip fn e, wfProps_strip fn r]
theorem wfEs_strip (fn : Bool) : (l : List Expr) → wfEs fn (stripEs l) = wfEs fn l
  | [] => rfl
  | e :: r => by simp only [stripEs, wfEs, wfE_strip fn e, wfEs_strip fn r]
theorem wfStmts_strip (fn : Bool) : (l : List Stmt) → wfStmts fn (stripStmts l) = wfStmts fn l
  | [] => rfl
  | s :: r => by simp only [stripStmts, wfStmts, wfStmt_strip fn s, wfStmts_strip fn r]
theorem wfStmt_strip (fn : Bool) : (s : Stmt) → wfStmt fn (stripStmt s) = wfStmt fn s
  | .Block b => by simp only [stripStmt, wfStmt, wfStmts_strip fn b, stripStmts_isEmpty]
  | .Expr e => by simp only [stripStmt, wfStmt, wfE_strip fn e]
  | .Declare l r => by simp only [stripStmt, wfStmt, wfE_strip fn l, wfE_strip fn r]
  | .Assign l r => by simp only [stripStmt, wfStmt, wfE_strip fn l, wfE_strip fn r]
  | .OpAssign l _ _ r => by simp only [stripStmt, wfStmt, wfE_strip fn l, wfE_strip fn r]
  | .If bs none => by simp only [stripStmt, wfStmt, wfBs_strip fn bs, stripBs_isEmpty]
  | .If bs (some els) => by
    simp only [stripStmt, wfStmt, wfBs_strip fn bs, wfStmts_strip fn els, stripBs_isEmpty]
  | .While c s => by simp only [stripStmt, wfStmt, wfE_strip fn c, wfStmts_strip fn s]
  | .For l i s => by simp only [stripStmt, wfStmt, wfE_strip fn l, wfE_strip fn i, wfStmts_strip fn s]
  | .Break _ => rfl
  | .Continue _ => rfl
  | .Func _ _ args _ s => by simp only [stripStmt, wfStmt, wfEs_strip fn args, wfStmts_strip fn s, stripEs_isEmpty]
  | .Return _ e => by simp only [stripStmt, wfStmt, wfE_strip fn e]
theorem wfBs_strip (fn : Bool) : (l : List Branch) → wfBs fn (stripBs l) = wfBs fn l
  | [] => rfl
  | .mk c s :: r => by simp only [stripBs, wfBs, wfE_strip fn c, wfStmts_strip fn s, wfBs_strip fn r]
end

/-! ### the image of the parser -/

/-- positions `(0, 0)` for a token list -/
def zeroSpans (toks : List Token) : List Span := toks.map fun t => ⟨(0, 0), t, (0, 0)⟩

theorem zeroSpans_tok (toks : List Token) : (zeroSpans toks).map Span.tok = toks := by
  simp [zeroSpans, List.map_map, Function.comp_def]

/-- the well-formed programs are exactly (up to positions) the programs the parser returns -/
theorem image_iff (p : List Stmt) :
    wfStmts true p = true ↔
      ∃ ts p', parseStmts (parseFuel ts) false [] ts = .ok p' [] ∧ stripStmts p' = stripStmts p := by
  constructor
  · intro hwf
    obtain ⟨p', hp, hs⟩ := parse_print_prog p hwf (zeroSpans (prStmts p)) (zeroSpans_tok _)
    exact ⟨_, p', hp, hs⟩
  · rintro ⟨ts, p', hp, hs⟩
    have h := parse_sound hp
    rw [← wfStmts_strip, hs, wfStmts_strip] at h
    exact h

/-- the same for expressions -/
theorem image_iff_expr (e : Expr) :
    wfE true e = true ↔ ∃ ts e', parseExpr (parseFuel ts) false ts = .ok e' [] ∧ stripE e' = stripE e := by
  constructor
  · intro hwf
    obtain ⟨e', hp, hs⟩ := parse_print_expr e hwf (zeroSpans (prE 1 e)) (zeroSpans_tok _)
    exact ⟨_, e', hp, hs⟩
  · rintro ⟨ts, e', hp, hs⟩
    have h := parseExpr_sound hp
    rw [← wfE_strip, hs, wfE_strip] at h
    exact h

/-! ### no two trees are printed alike -/

theorem prStmts_injective (p q : List Stmt) (hp : wfStmts true p = true) (hq : wfStmts true q = true)
    (h : prStmts p = prStmts q) : stripStmts p = stripStmts q := by
  obtain ⟨p', hpp, hps⟩ := parse_print_prog p hp (zeroSpans (prStmts p)) (zeroSpans_tok _)
  obtain ⟨q', hqp, hqs⟩ := parse_print_prog q hq (zeroSpans (prStmts p)) (by rw [zeroSpans_tok, h])
  rw [hpp] at hqp
  cases hqp
  rw [← hps, hqs]

theorem prE_injective (e f : Expr) (he : wfE true e = true) (hf : wfE true f = true) (h : prE 1 e = prE 1 f) :
    stripE e = stripE f := by
  obtain ⟨e', hep, hes⟩ := parse_print_expr e he (zeroSpans (prE 1 e)) (zeroSpans_tok _)
  obtain ⟨f', hfp, hfs⟩ := parse_print_expr f hf (zeroSpans (prE 1 e)) (by rw [zeroSpans_tok, h])
  rw [hep] at hfp
  cases hfp
  rw [← hes, hfs]

end Seed
