/-
  ParseProgress.lean — P2: the rest returned by a parser function is a (length-)suffix of its input, and the
  functions that must consume a token do so.  `PRes.Bnd m r` says "if `r` is a success, fewer than `m` tokens
  remain"; so `Bnd (ts.length + 1)` is "no more tokens than before" and `Bnd ts.length` is "strictly fewer".
-/
import SeedProofs.Lemmas.ParseMono
namespace Seed

/-- if `r` is a success, fewer than `m` tokens remain -/
def PRes.Bnd {α} (m : Nat) : PRes α → Prop
  | .ok _ rest => rest.length < m
  | _ => True

/-- 1 for an already-parsed atom (which costs no token), 0 otherwise -/
def optLen {α} : Option α → Nat
  | none => 0
  | some _ => 1

namespace PRes.Bnd
theorem mono {α} {m m' : Nat} {r : PRes α} (hm : m ≤ m') (h : PRes.Bnd m r) : PRes.Bnd m' r := by
  cases r with
  | ok a rest => exact Nat.lt_of_lt_of_le h hm
  | err e => exact True.intro
  | timeout => exact True.intro

theorem bind {α β} {m m' : Nat} {r : PRes α} {f : α → List Span → PRes β} (h : PRes.Bnd m r)
    (hf : ∀ a ts, ts.length < m → PRes.Bnd m' (f a ts)) : PRes.Bnd m' (r.bind f) := by
  cases r with
  | ok a rest => exact hf a rest h
  | err e => exact True.intro
  | timeout => exact True.intro

theorem map {α β} {m : Nat} {r : PRes α} (f : α → β) (h : PRes.Bnd m r) : PRes.Bnd m (r.map f) := by
  cases r with
  | ok a rest => exact h
  | err e => exact True.intro
  | timeout => exact True.intro

theorem elim {α} {m : Nat} {r : PRes α} {a : α} {rest : List Span} (h : PRes.Bnd m r) (hr : r = .ok a rest) :
    rest.length < m := by
  subst hr; exact h
end PRes.Bnd

theorem expectTok_bnd (t : Token) (ts : List Span) : PRes.Bnd ts.length (expectTok t ts) := by
  unfold expectTok
  split
  · exact True.intro
  · split
    · simp only [PRes.Bnd, List.length_cons]; omega
    · exact True.intro

theorem expectIdent_bnd (ts : List Span) : PRes.Bnd ts.length (expectIdent ts) := by
  unfold expectIdent
  split
  · exact True.intro
  · split
    · simp only [PRes.Bnd, List.length_cons]; omega
    · exact True.intro

structure PBndAll (n : Nat) : Prop where
  parseAtom : ∀ pre ts, PRes.Bnd (ts.length + optLen pre) (parseAtom n pre ts)
  parsePostfix : ∀ l pre ts, PRes.Bnd (ts.length + optLen pre) (parsePostfix n l pre ts)
  postfixLoop : ∀ l acc ts, PRes.Bnd (ts.length + 1) (postfixLoop n l acc ts)
  parseIndexTail : ∀ e ts, PRes.Bnd ts.length (parseIndexTail n e ts)
  parseRangeEnd : ∀ e s ts, PRes.Bnd ts.length (parseRangeEnd n e s ts)
  parseTier : ∀ k l pre ts, PRes.Bnd (ts.length + optLen pre) (parseTier n k l pre ts)
  tierLoop : ∀ k l acc ts, PRes.Bnd (ts.length + 1) (tierLoop n k l acc ts)
  parseExpr1 : ∀ s l pre ts, PRes.Bnd (ts.length + optLen pre) (parseExpr1 n s l pre ts)
  rangeLoop : ∀ s l acc ts, PRes.Bnd (ts.length + 1) (rangeLoop n s l acc ts)
  parseExpr : ∀ s ts, PRes.Bnd ts.length (parseExpr n s ts)
  parseArgs : ∀ acc ts, PRes.Bnd ts.length (parseArgs n acc ts)
  parseExprList : ∀ acc ts, PRes.Bnd ts.length (parseExprList n acc ts)
  parseParams : ∀ acc ts, PRes.Bnd ts.length (parseParams n acc ts)
  parsePropItems : ∀ acc ts, PRes.Bnd ts.length (parsePropItems n acc ts)
  parsePropTail : ∀ acc ts, PRes.Bnd ts.length (parsePropTail n acc ts)
  parseBlock : ∀ ts, PRes.Bnd ts.length (parseBlock n ts)
  parseStmts : ∀ c acc ts, PRes.Bnd (ts.length + 1) (parseStmts n c acc ts)
  parseIf : ∀ ts, PRes.Bnd ts.length (parseIf n ts)
  parseStmtTail : ∀ lhs ts, PRes.Bnd (ts.length + 1) (parseStmtTail n lhs ts)
  parseExprStmt : ∀ amb l pre ts, PRes.Bnd (ts.length + optLen pre) (parseExprStmt n amb l pre ts)
  parseRawStmt : ∀ amb ts, PRes.Bnd ts.length (parseRawStmt n amb ts)
  parseBraceStmt : ∀ amb l ts, PRes.Bnd ts.length (parseBraceStmt n amb l ts)

/-- the bound of a (sub-)call exactly as the induction hypothesis states it -/
macro "pbnd_call " ih:ident : tactic =>
  `(tactic| first
    | apply PBndAll.parseAtom $ih | apply PBndAll.parsePostfix $ih | apply PBndAll.postfixLoop $ih
    | apply PBndAll.parseIndexTail $ih | apply PBndAll.parseRangeEnd $ih | apply PBndAll.parseTier $ih
    | apply PBndAll.tierLoop $ih | apply PBndAll.parseExpr1 $ih | apply PBndAll.rangeLoop $ih
    | apply PBndAll.parseExpr $ih | apply PBndAll.parseArgs $ih | apply PBndAll.parseExprList $ih
    | apply PBndAll.parseParams $ih | apply PBndAll.parsePropItems $ih | apply PBndAll.parsePropTail $ih
    | apply PBndAll.parseBlock $ih | apply PBndAll.parseStmts $ih | apply PBndAll.parseIf $ih
    | apply PBndAll.parseStmtTail $ih | apply PBndAll.parseExprStmt $ih | apply PBndAll.parseRawStmt $ih
    | apply PBndAll.parseBraceStmt $ih
    | apply expectTok_bnd | apply expectIdent_bnd)

/-- arithmetic side goals and `ok` leaves -/
macro "pbnd_arith" : tactic =>
  `(tactic| ((try simp only [PRes.Bnd, optLen, List.length_cons, Nat.add_zero] at *); omega))

macro "pbnd_auto " ih:ident : tactic =>
  `(tactic| repeat' first
    | exact True.intro
    | (apply PRes.Bnd.bind (by pbnd_call $ih))
    | intro _ _ _
    | (dsimp only [])
    | (apply PRes.Bnd.map; pbnd_call $ih)
    | (apply PRes.Bnd.mono ?_ (by pbnd_call $ih); pbnd_arith)
    | split
    | pbnd_arith)

theorem pbndAll_zero : PBndAll 0 := by
  constructor <;> intros
  · unfold parseAtom; exact True.intro
  · unfold parsePostfix; exact True.intro
  · unfold postfixLoop; exact True.intro
  · unfold parseIndexTail; exact True.intro
  · unfold parseRangeEnd; exact True.intro
  · unfold parseTier; exact True.intro
  · unfold tierLoop; exact True.intro
  · unfold parseExpr1; exact True.intro
  · unfold rangeLoop; exact True.intro
  · unfold parseExpr; exact True.intro
  · unfold parseArgs; exact True.intro
  · unfold parseExprList; exact True.intro
  · unfold parseParams; exact True.intro
  · unfold parsePropItems; exact True.intro
  · unfold parsePropTail; exact True.intro
  · unfold parseBlock; exact True.intro
  · unfold parseStmts; exact True.intro
  · unfold parseIf; exact True.intro
  · unfold parseStmtTail; exact True.intro
  · unfold parseExprStmt; exact True.intro
  · unfold parseRawStmt; exact True.intro
  · unfold parseBraceStmt; exact True.intro

theorem pbndAll_succ (n : Nat) (ih : PBndAll n) : PBndAll (n + 1) := by
  constructor
  · intro pre ts; (conv => arg 2; unfold parseAtom); pbnd_auto ih
  · intro l pre ts; (conv => arg 2; unfold parsePostfix); pbnd_auto ih
  · intro l acc ts; (conv => arg 2; unfold postfixLoop); pbnd_auto ih
  · intro e ts; (conv => arg 2; unfold parseIndexTail); pbnd_auto ih
  · intro e s ts; (conv => arg 2; unfold parseRangeEnd); pbnd_auto ih
  · intro k l pre ts; (conv => arg 2; unfold parseTier); pbnd_auto ih
  · intro k l acc ts; (conv => arg 2; unfold tierLoop); pbnd_auto ih
  · intro s l pre ts; (conv => arg 2; unfold parseExpr1); pbnd_auto ih
  · intro s l acc ts; (conv => arg 2; unfold rangeLoop); pbnd_auto ih
  · intro s ts; (conv => arg 2; unfold parseExpr); pbnd_auto ih
  · intro acc ts; (conv => arg 2; unfold parseArgs); pbnd_auto ih
  · intro acc ts; (conv => arg 2; unfold parseExprList); pbnd_auto ih
  · intro acc ts; (conv => arg 2; unfold parseParams); pbnd_auto ih
  · intro acc ts; (conv => arg 2; unfold parsePropItems); pbnd_auto ih
  · intro acc ts; (conv => arg 2; unfold parsePropTail); pbnd_auto ih
  · intro ts; (conv => arg 2; unfold parseBlock); pbnd_auto ih
  · intro c acc ts; (conv => arg 2; unfold parseStmts); pbnd_auto ih
  · intro ts; (conv => arg 2; unfold parseIf); pbnd_auto ih
  · intro lhs ts; (conv => arg 2; unfold parseStmtTail); pbnd_auto ih
  · intro amb l pre ts; (conv => arg 2; unfold parseExprStmt); pbnd_auto ih
  · intro amb ts; (conv => arg 2; unfold parseRawStmt); pbnd_auto ih
  · intro amb l ts; (conv => arg 2; unfold parseBraceStmt); pbnd_auto ih

theorem pbndAll (n : Nat) : PBndAll n := by
  induction n with
  | zero => exact pbndAll_zero
  | succ n ih => exact pbndAll_succ n ih

/-! ### the statements in plain form -/

theorem parseAtom_progress {n ts a rest} (h : parseAtom n none ts = .ok a rest) : rest.length < ts.length :=
  ((pbndAll n).parseAtom none ts).elim h
theorem parseAtom_suffix {n pre ts a rest} (h : parseAtom n pre ts = .ok a rest) : rest.length ≤ ts.length := by
  have := ((pbndAll n).parseAtom pre ts).elim h
  cases pre <;> simp only [optLen] at this <;> omega
theorem parsePostfix_progress {n l ts a rest} (h : parsePostfix n l none ts = .ok a rest) : rest.length < ts.length :=
  ((pbndAll n).parsePostfix l none ts).elim h
theorem postfixLoop_suffix {n l acc ts a rest} (h : postfixLoop n l acc ts = .ok a rest) : rest.length ≤ ts.length :=
  Nat.le_of_lt_succ (((pbndAll n).postfixLoop l acc ts).elim h)
theorem parseTier_progress {n k l ts a rest} (h : parseTier n k l none ts = .ok a rest) : rest.length < ts.length :=
  ((pbndAll n).parseTier k l none ts).elim h
theorem parseTier_suffix {n k l pre ts a rest} (h : parseTier n k l pre ts = .ok a rest) : rest.length ≤ ts.length := by
  have := ((pbndAll n).parseTier k l pre ts).elim h
  cases pre <;> simp only [optLen] at this <;> omega
theorem tierLoop_suffix {n k l acc ts a rest} (h : tierLoop n k l acc ts = .ok a rest) : rest.length ≤ ts.length :=
  Nat.le_of_lt_succ (((pbndAll n).tierLoop k l acc ts).elim h)
theorem parseExpr1_progress {n s l ts a rest} (h : parseExpr1 n s l none ts = .ok a rest) : rest.length < ts.length :=
  ((pbndAll n).parseExpr1 s l none ts).elim h
theorem parseExpr1_suffix {n s l pre ts a rest} (h : parseExpr1 n s l pre ts = .ok a rest) :
    rest.length ≤ ts.length := by
  have := ((pbndAll n).parseExpr1 s l pre ts).elim h
  cases pre <;> simp only [optLen] at this <;> omega
theorem rangeLoop_suffix {n s l acc ts a rest} (h : rangeLoop n s l acc ts = .ok a rest) : rest.length ≤ ts.length :=
  Nat.le_of_lt_succ (((pbndAll n).rangeLoop s l acc ts).elim h)
theorem parseExpr_progress {n s ts e rest} (h : parseExpr n s ts = .ok e rest) : rest.length < ts.length :=
  ((pbndAll n).parseExpr s ts).elim h
theorem parseIndexTail_progress {n e ts a rest} (h : parseIndexTail n e ts = .ok a rest) : rest.length < ts.length :=
  ((pbndAll n).parseIndexTail e ts).elim h
theorem parseRangeEnd_progress {n e s ts a rest} (h : parseRangeEnd n e s ts = .ok a rest) : rest.length < ts.length :=
  ((pbndAll n).parseRangeEnd e s ts).elim h
theorem parseArgs_progress {n acc ts a rest} (h : parseArgs n acc ts = .ok a rest) : rest.length < ts.length :=
  ((pbndAll n).parseArgs acc ts).elim h
theorem parseExprList_progress {n acc ts a rest} (h : parseExprList n acc ts = .ok a rest) : rest.length < ts.length :=
  ((pbndAll n).parseExprList acc ts).elim h
theorem parseParams_progress {n acc ts a rest} (h : parseParams n acc ts = .ok a rest) : rest.length < ts.length :=
  ((pbndAll n).parseParams acc ts).elim h
theorem parsePropItems_progress {n acc ts a rest} (h : parsePropItems n acc ts = .ok a rest) :
    rest.length < ts.length := ((pbndAll n).parsePropItems acc ts).elim h
theorem parsePropTail_progress {n acc ts a rest} (h : parsePropTail n acc ts = .ok a rest) : rest.length < ts.length :=
  ((pbndAll n).parsePropTail acc ts).elim h
theorem parseBlock_progress {n ts a rest} (h : parseBlock n ts = .ok a rest) : rest.length < ts.length :=
  ((pbndAll n).parseBlock ts).elim h
theorem parseStmts_suffix {n c acc ts a rest} (h : parseStmts n c acc ts = .ok a rest) : rest.length ≤ ts.length :=
  Nat.le_of_lt_succ (((pbndAll n).parseStmts c acc ts).elim h)
theorem parseIf_progress {n ts a rest} (h : parseIf n ts = .ok a rest) : rest.length < ts.length :=
  ((pbndAll n).parseIf ts).elim h
theorem parseStmtTail_suffix {n lhs ts a rest} (h : parseStmtTail n lhs ts = .ok a rest) : rest.length ≤ ts.length :=
  Nat.le_of_lt_succ (((pbndAll n).parseStmtTail lhs ts).elim h)
theorem parseExprStmt_progress {n amb l ts a rest} (h : parseExprStmt n amb l none ts = .ok a rest) :
    rest.length < ts.length := ((pbndAll n).parseExprStmt amb l none ts).elim h
theorem parseExprStmt_suffix {n amb l pre ts a rest} (h : parseExprStmt n amb l pre ts = .ok a rest) :
    rest.length ≤ ts.length := by
  have := ((pbndAll n).parseExprStmt amb l pre ts).elim h
  cases pre <;> simp only [optLen] at this <;> omega
theorem parseRawStmt_progress {n amb ts a rest} (h : parseRawStmt n amb ts = .ok a rest) : rest.length < ts.length :=
  ((pbndAll n).parseRawStmt amb ts).elim h
theorem parseBraceStmt_progress {n amb l ts a rest} (h : parseBraceStmt n amb l ts = .ok a rest) :
    rest.length < ts.length := ((pbndAll n).parseBraceStmt amb l ts).elim h

end Seed
