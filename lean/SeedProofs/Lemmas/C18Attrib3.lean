/-
  Lemmas/C18Attrib3.lean — attribution on SOURCE TEXT, continued: the labelled positions of a tree as a list (`kwsSL`),
  from token starts to source offsets (`TokIs`, `kw_pos_src`), the text at those offsets (`TokIs.text`), the source-level
  forms of the attribution theorems of C18Attrib.lean, and whole-pipeline runs through `Seed.run`.
-/
import SeedProofs.Lemmas.C18Attrib2
namespace Seed.C18A
open Seed Gen

/-! ## the labelled positions of a tree, as a list: "the tree contains a `BinaryOp op` node whose `opLoc` is `p`"
    is `(binTok op, p) ∈ kwsSL stmts` -/

mutual
def kwsRaw : RawExpr → List (Token × Loc)
  | .Null => [] | .Bool _ => [] | .Int _ => [] | .Str _ _ => [] | .Var _ => []
  | .BinaryOp op ol l r => (binTok op, ol) :: (kwsE l ++ kwsE r)
  | .List items _ => kwsItemL items
  | .Index e i => kwsE e ++ kwsE i
  | .RangeIndex e a b => kwsE e ++ (kwsO a ++ kwsO b)
  | .Range a b => kwsE a ++ kwsE b
  | .Object props => kwsPropL props
  | .Prop e _ _ => kwsE e
  | .Func args _ stmts => kwsEL args ++ kwsSL stmts
  | .Call f args => kwsE f ++ kwsItemL args
def kwsE : Expr → List (Token × Loc)
  | .mk raw _ => kwsRaw raw
def kwsO : Option Expr → List (Token × Loc)
  | none => []
  | some e => kwsE e
def kwsEL : List Expr → List (Token × Loc)
  | [] => []
  | e :: r => kwsE e ++ kwsEL r
def kwsItem : ListItem → List (Token × Loc)
  | .mk e _ => kwsE e
def kwsItemL : List ListItem → List (Token × Loc)
  | [] => []
  | x :: r => kwsItem x ++ kwsItemL r
def kwsProp : PropItem → List (Token × Loc)
  | .Pair n v => kwsE n ++ kwsE v
  | .Single e _ _ => kwsE e
def kwsPropL : List PropItem → List (Token × Loc)
  | [] => []
  | x :: r => kwsProp x ++ kwsPropL r
def kwsS : Stmt → List (Token × Loc)
  | .Block b => kwsSL b
  | .Expr e => kwsE e
  | .Declare l r => kwsE l ++ kwsE r
  | .Assign l r => kwsE l ++ kwsE r
  | .OpAssign l op ol r => (assignTok op, ol) :: (kwsE l ++ kwsE r)
  | .If bs els => kwsBL bs ++ kwsSLO els
  | .While c s => kwsE c ++ kwsSL s
  | .For l i s => kwsE l ++ (kwsE i ++ kwsSL s)
  | .Break l => [(.Break, l)]
  | .Continue l => [(.Continue, l)]
  | .Func name nl args _ s => (.Ident name, nl) :: (kwsEL args ++ kwsSL s)
  | .Return l e => (.Return, l) :: kwsE e
def kwsSL : List Stmt → List (Token × Loc)
  | [] => []
  | x :: r => kwsS x ++ kwsSL r
def kwsSLO : Option (List Stmt) → List (Token × Loc)
  | none => []
  | some s => kwsSL s
def kwsB : Branch → List (Token × Loc)
  | .mk c s => kwsE c ++ kwsSL s
def kwsBL : List Branch → List (Token × Loc)
  | [] => []
  | x :: r => kwsB x ++ kwsBL r
end

section lists
variable {P : Token × Loc → Prop}
theorem all_kwsEL : ∀ {es : List Expr}, (∀ x, x ∈ es → ∀ y ∈ kwsE x, P y) → ∀ y ∈ kwsEL es, P y
  | [], _ => by intro y hy; simp [kwsEL] at hy
  | e :: r, h => by
    rw [kwsEL, List.forall_mem_append]
    exact ⟨h e List.mem_cons_self, all_kwsEL fun x hx => h x (List.mem_cons_of_mem _ hx)⟩
theorem all_kwsItemL : ∀ {es : List ListItem}, (∀ x, x ∈ es → ∀ y ∈ kwsItem x, P y) → ∀ y ∈ kwsItemL es, P y
  | [], _ => by intro y hy; simp [kwsItemL] at hy
  | e :: r, h => by
    rw [kwsItemL, List.forall_mem_append]
    exact ⟨h e List.mem_cons_self, all_kwsItemL fun x hx => h x (List.mem_cons_of_mem _ hx)⟩
theorem all_kwsPropL : ∀ {es : List PropItem}, (∀ x, x ∈ es → ∀ y ∈ kwsProp x, P y) → ∀ y ∈ kwsPropL es, P y
  | [], _ => by intro y hy; simp [kwsPropL] at hy
  | e :: r, h => by
    rw [kwsPropL, List.forall_mem_append]
    exact ⟨h e List.mem_cons_self, all_kwsPropL fun x hx => h x (List.mem_cons_of_mem _ hx)⟩
theorem all_kwsSL : ∀ {es : List Stmt}, (∀ x, x ∈ es → ∀ y ∈ kwsS x, P y) → ∀ y ∈ kwsSL es, P y
  | [], _ => by intro y hy; simp [kwsSL] at hy
  | e :: r, h => by
    rw [kwsSL, List.forall_mem_append]
    exact ⟨h e List.mem_cons_self, all_kwsSL fun x hx => h x (List.mem_cons_of_mem _ hx)⟩
theorem all_kwsBL : ∀ {es : List Branch}, (∀ x, x ∈ es → ∀ y ∈ kwsB x, P y) → ∀ y ∈ kwsBL es, P y
  | [], _ => by intro y hy; simp [kwsBL] at hy
  | e :: r, h => by
    rw [kwsBL, List.forall_mem_append]
    exact ⟨h e List.mem_cons_self, all_kwsBL fun x hx => h x (List.mem_cons_of_mem _ hx)⟩
theorem all_kwsSLO : ∀ {o : Option (List Stmt)}, (∀ s, o = some s → ∀ x, x ∈ s → ∀ y ∈ kwsS x, P y) → ∀ y ∈ kwsSLO o, P y
  | none, _ => by intro y hy; simp [kwsSLO] at hy
  | some s, h => all_kwsSL (h s rfl)
theorem all_kwsO : ∀ {o : Option Expr}, (∀ x, o = some x → ∀ y ∈ kwsE x, P y) → ∀ y ∈ kwsO o, P y
  | none, _ => by intro y hy; simp [kwsO] at hy
  | some e, h => h e rfl
end lists

mutual
theorem RawKwOK.kws {T : List Span} : ∀ {r : RawExpr}, RawKwOK T r → ∀ y ∈ kwsRaw r, TokAt T (· = y.1) y.2
  | _, .null => by intro y hy; simp [kwsRaw] at hy
  | _, .bool => by intro y hy; simp [kwsRaw] at hy
  | _, .int => by intro y hy; simp [kwsRaw] at hy
  | _, .str => by intro y hy; simp [kwsRaw] at hy
  | _, .var => by intro y hy; simp [kwsRaw] at hy
  | _, .binop ho hl hr => by
    simp only [kwsRaw, List.forall_mem_cons, List.forall_mem_append]; exact ⟨ho, hl.kws, hr.kws⟩
  | _, .list h => by
    simp only [kwsRaw]; exact all_kwsItemL fun x hx => (h x hx).kws
  | _, .index he hi => by
    simp only [kwsRaw, List.forall_mem_append]; exact ⟨he.kws, hi.kws⟩
  | _, .rangeIndex he ha hb => by
    simp only [kwsRaw, List.forall_mem_append]
    exact ⟨he.kws, all_kwsO fun x hx => (ha x hx).kws, all_kwsO fun x hx => (hb x hx).kws⟩
  | _, .range ha hb => by
    simp only [kwsRaw, List.forall_mem_append]; exact ⟨ha.kws, hb.kws⟩
  | _, .object h => by
    simp only [kwsRaw]; exact all_kwsPropL fun x hx => (h x hx).kws
  | _, .prop he => by
    simp only [kwsRaw]; exact he.kws
  | _, .func ha hs => by
    simp only [kwsRaw, List.forall_mem_append]
    exact ⟨all_kwsEL fun x hx => (ha x hx).kws, all_kwsSL fun x hx => (hs x hx).kws⟩
  | _, .call hf ha => by
    simp only [kwsRaw, List.forall_mem_append]
    exact ⟨hf.kws, all_kwsItemL fun x hx => (ha x hx).kws⟩
theorem KwOK.kws {T : List Span} : ∀ {e : Expr}, KwOK T e → ∀ y ∈ kwsE e, TokAt T (· = y.1) y.2
  | .mk _ _, .mk hr => by simp only [kwsE]; exact hr.kws
theorem ItemKwOK.kws {T : List Span} : ∀ {e : ListItem}, ItemKwOK T e → ∀ y ∈ kwsItem e, TokAt T (· = y.1) y.2
  | _, .mk h => by simp only [kwsItem]; exact h.kws
theorem PropKwOK.kws {T : List Span} : ∀ {e : PropItem}, PropKwOK T e → ∀ y ∈ kwsProp e, TokAt T (· = y.1) y.2
  | _, .pair hn hv => by simp only [kwsProp, List.forall_mem_append]; exact ⟨hn.kws, hv.kws⟩
  | _, .single h => by simp only [kwsProp]; exact h.kws
theorem StmtKwOK.kws {T : List Span} : ∀ {s : Stmt}, StmtKwOK T s → ∀ y ∈ kwsS s, TokAt T (· = y.1) y.2
  | _, .block h => by simp only [kwsS]; exact all_kwsSL fun x hx => (h x hx).kws
  | _, .expr h => by simp only [kwsS]; exact h.kws
  | _, .declare hl hr => by simp only [kwsS, List.forall_mem_append]; exact ⟨hl.kws, hr.kws⟩
  | _, .assign hl hr => by simp only [kwsS, List.forall_mem_append]; exact ⟨hl.kws, hr.kws⟩
  | _, .opAssign hl ho hr => by
    simp only [kwsS, List.forall_mem_cons, List.forall_mem_append]; exact ⟨ho, hl.kws, hr.kws⟩
  | .If bs els, .ifs hb he => by
    simp only [kwsS, List.forall_mem_append]
    exact ⟨all_kwsBL fun x hx => (hb x hx).kws, all_kwsSLO fun s hs x hx => (he s hs x hx).kws⟩
  | _, .whiles hc hs => by
    simp only [kwsS, List.forall_mem_append]; exact ⟨hc.kws, all_kwsSL fun x hx => (hs x hx).kws⟩
  | _, .fors hl hi hs => by
    simp only [kwsS, List.forall_mem_append]; exact ⟨hl.kws, hi.kws, all_kwsSL fun x hx => (hs x hx).kws⟩
  | _, .brk h => by simp only [kwsS, List.forall_mem_cons]; exact ⟨h, fun _ hy => nomatch hy⟩
  | _, .cont h => by simp only [kwsS, List.forall_mem_cons]; exact ⟨h, fun _ hy => nomatch hy⟩
  | _, .func hn ha hs => by
    simp only [kwsS, List.forall_mem_cons, List.forall_mem_append]
    exact ⟨hn, all_kwsEL fun x hx => (ha x hx).kws, all_kwsSL fun x hx => (hs x hx).kws⟩
  | _, .ret hl he => by simp only [kwsS, List.forall_mem_cons]; exact ⟨hl, he.kws⟩
theorem BranchKwOK.kws {T : List Span} : ∀ {b : Branch}, BranchKwOK T b → ∀ y ∈ kwsB b, TokAt T (· = y.1) y.2
  | _, .mk hc hs => by
    simp only [kwsB, List.forall_mem_append]; exact ⟨hc.kws, all_kwsSL fun x hx => (hs x hx).kws⟩
end

/-! ## from tokens to source positions -/

/-- `l` is the position of the first character of a token `t` of `src`: the token `sp` of the token stream is `t` and
    starts at `l`, it is what `nextToken` returns from some offset `k'`, whitespace and comments from `k'` end at offset
    `i`, and `l` is the line/column `posOf src i` of offset `i` -/
def TokIs (src : List Char) (t : Token) (l : Loc) : Prop :=
  ∃ sp k' i j, sp ∈ (lexAll src).1 ∧ sp.start = l ∧ sp.tok = t ∧ k' ≤ i ∧ i < j ∧ i < src.length ∧ j ≤ src.length ∧
    nextToken ((Scanner.new src).advance k') = .tok sp ((Scanner.new src).advance j) ∧
    ((Scanner.new src).advance k').skipWs = (Scanner.new src).advance i ∧ l = posOf src i

theorem tokAt_tokIs {src : List Char} {t : Token} {l : Loc} (h : TokAt (lexAll src).1 (· = t) l) : TokIs src t l := by
  obtain ⟨sp, hm, rfl, ht⟩ := h
  have hraw : sp ∈ (lexRaw (src.length + 1) ((Scanner.new src).advance 0)).1 := suppress_subset _ _ _ hm
  obtain ⟨k', s', _, hn⟩ := lexRaw_mem_reach src _ 0 sp hraw
  obtain ⟨i, j, h1, h2, h3, h4, h5, h6, h7, _⟩ := nextToken_tok_reach hn
  subst h7
  exact ⟨sp, k', i, j, hm, rfl, ht, h1, h2, h3, h4, hn, h5, by rw [h6, scan_pos]⟩

theorem TokIs.tokStart {src : List Char} {t : Token} {l : Loc} (h : TokIs src t l) : TokStart src l := by
  obtain ⟨sp, k', i, j, h1, h2, _, h4, h5, h6, h7, h8, h9, h10⟩ := h
  exact ⟨sp, k', i, j, h1, h2, h4, h5, h6, h7, h8, h9, h10⟩

theorem TokIs.is_posOf {src : List Char} {t : Token} {l : Loc} (h : TokIs src t l) : ∃ i, i < src.length ∧ l = posOf src i :=
  h.tokStart.is_posOf

/-- **`kw_pos_src`.**  if the source parses to `stmts`: every labelled position of the tree — `(binTok op, opLoc)` of a
    binary operation, `(assignTok op, opLoc)` of an op-assignment, `(break, l)`, `(continue, l)`, `(return, l)`,
    `(Ident name, nameLoc)` of a function statement, at any depth — is the source position `posOf src i` of the first
    character of a token of exactly that kind -/
theorem kw_pos_src {src : List Char} {stmts : List Stmt} (hp : parseProg src = .ok stmts) :
    ∀ y ∈ kwsSL stmts, TokIs src y.1 y.2 :=
  fun y hy => tokAt_tokIs (all_kwsSL (P := fun y => TokAt (lexAll src).1 (· = y.1) y.2)
    (fun st hst => (node_kw hp st hst).kws) y hy)

/-- the form asked for: the tree contains a `BinaryOp op` node whose stored `opLoc` is `p` ⇒ `p` is the position of
    the operator's token -/
theorem binop_opLoc_is_operator_token {src : List Char} {stmts : List Stmt} (hp : parseProg src = .ok stmts)
    {op : BinaryOp} {p : Loc} (h : (binTok op, p) ∈ kwsSL stmts) : TokIs src (binTok op) p := kw_pos_src hp _ h
theorem opAssign_opLoc_is_opassign_token {src : List Char} {stmts : List Stmt} (hp : parseProg src = .ok stmts)
    {op : BinaryOp} {p : Loc} (h : (assignTok op, p) ∈ kwsSL stmts) : TokIs src (assignTok op) p := kw_pos_src hp _ h
theorem break_loc_is_break_token {src : List Char} {stmts : List Stmt} (hp : parseProg src = .ok stmts)
    {p : Loc} (h : (Token.Break, p) ∈ kwsSL stmts) : TokIs src .Break p := kw_pos_src hp _ h
theorem continue_loc_is_continue_token {src : List Char} {stmts : List Stmt} (hp : parseProg src = .ok stmts)
    {p : Loc} (h : (Token.Continue, p) ∈ kwsSL stmts) : TokIs src .Continue p := kw_pos_src hp _ h
theorem return_loc_is_return_token {src : List Char} {stmts : List Stmt} (hp : parseProg src = .ok stmts)
    {p : Loc} (h : (Token.Return, p) ∈ kwsSL stmts) : TokIs src .Return p := kw_pos_src hp _ h

/-- an instance: the labelled positions of `x := a + b * c; fn f() { break; }` -/
example : kwsSL (progOf c!"x := a + b * c;\nfn f() {\n  break;\n}\n") =
    [(.Sum, (1, 8)), (.Mul, (1, 12)), (.Ident c!"f", (2, 4)), (.Break, (3, 3))] := by decide +kernel

/-! ## where an escape comes from: `.brk l` / `.cont l` / `.ret v l` returned by a statement list carries the position
    stored in a `break` / `continue` / `return` statement OF THAT LIST (at any depth of blocks, `if`s and loops — not
    inside nested function bodies: a call turns the escapes of its body into values or errors) -/

/-- the escape's position is a labelled position of `ks` with the matching keyword -/
def EscIn (ks : List (Token × Loc)) : Escape → Prop
  | .none => True
  | .brk l => (Token.Break, l) ∈ ks
  | .cont l => (Token.Continue, l) ∈ ks
  | .ret _ l => (Token.Return, l) ∈ ks

theorem EscIn.mono {ks ks' : List (Token × Loc)} (h : ∀ y, y ∈ ks → y ∈ ks') : ∀ {esc : Escape}, EscIn ks esc → EscIn ks' esc
  | .none, _ => trivial
  | .brk _, he => h _ he
  | .cont _, he => h _ he
  | .ret _ _, he => h _ he

/-- a successful result satisfies `EscIn ks` -/
def EscSat (ks : List (Token × Loc)) : Res Escape → Prop
  | .ok esc _ => EscIn ks esc
  | _ => True

theorem EscSat.mono {ks ks' : List (Token × Loc)} (h : ∀ y, y ∈ ks → y ∈ ks') {r : Res Escape} (hr : EscSat ks r) :
    EscSat ks' r := by
  cases r with
  | ok esc σ => exact EscIn.mono h hr
  | _ => trivial

/-- after a step that returns no escape -/
theorem EscSat.bind {α} {ks : List (Token × Loc)} {r : Res α} {f : α → State → Res Escape}
    (hf : ∀ a σ, EscSat ks (f a σ)) : EscSat ks (r.bind f) := by
  cases r with
  | ok a σ => exact hf a σ
  | _ => trivial

/-- after a step that returns an escape -/
theorem EscSat.bindE {ks1 ks : List (Token × Loc)} {r : Res Escape} {f : Escape → State → Res Escape}
    (hr : EscSat ks1 r) (hf : ∀ esc σ, EscIn ks1 esc → EscSat ks (f esc σ)) : EscSat ks (r.bind f) := by
  cases r with
  | ok a σ => exact hf a σ hr
  | _ => trivial

structure EscAll (n : Nat) : Prop where
  evalBlock : ∀ σ sc bs ss, EscSat (kwsSL ss) (evalBlock n σ sc bs ss)
  evalStmts : ∀ σ sc ss, EscSat (kwsSL ss) (evalStmts n σ sc ss)
  evalStmt : ∀ σ sc st, EscSat (kwsS st) (evalStmt n σ sc st)
  evalIf : ∀ σ sc bs els, EscSat (kwsBL bs ++ kwsSLO els) (evalIf n σ sc bs els)
  evalWhile : ∀ σ sc c ss, EscSat (kwsSL ss) (evalWhile n σ sc c ss)
  evalFor : ∀ σ sc lhs ps ss, EscSat (kwsSL ss) (evalFor n σ sc lhs ps ss)

theorem escAll_zero : EscAll 0 := by
  constructor <;> intros
  · unfold evalBlock; trivial
  · unfold evalStmts; trivial
  · unfold evalStmt; trivial
  · unfold evalIf; trivial
  · unfold evalWhile; trivial
  · unfold evalFor; trivial

theorem escAll_succ (n : Nat) (ih : EscAll n) : EscAll (n + 1) := by
  constructor
  · intro σ sc bs ss
    conv => arg 2; unfold evalBlock
    exact EscSat.bind fun _ _ => ih.evalStmts _ _ _
  · intro σ sc ss
    conv => arg 2; unfold evalStmts
    cases ss with
    | nil => trivial
    | cons st r =>
      simp only [kwsSL]
      refine EscSat.bindE (ih.evalStmt σ sc st) fun esc σ1 he => ?_
      cases esc with
      | none => exact (ih.evalStmts σ1 sc r).mono fun y hy => List.mem_append_right _ hy
      | brk l => exact List.mem_append_left _ he
      | cont l => exact List.mem_append_left _ he
      | ret v l => exact List.mem_append_left _ he
  · intro σ sc st
    conv => arg 2; unfold evalStmt
    cases st with
    | Block b => exact ih.evalBlock _ _ _ _
    | Expr e => exact EscSat.bind fun _ _ => trivial
    | Declare l r => exact EscSat.bind fun _ _ => EscSat.bind fun _ _ => trivial
    | Assign l r => exact EscSat.bind fun _ _ => EscSat.bind fun _ _ => trivial
    | OpAssign l op ol r => exact EscSat.bind fun _ _ => EscSat.bind fun _ _ => trivial
    | If bs els => exact ih.evalIf _ _ _ _
    | While c ss => exact (ih.evalWhile σ sc c ss).mono fun y hy => List.mem_append_right _ hy
    | For lhs it ss =>
      refine EscSat.bind fun v σ1 => ?_
      split
      · trivial
      · trivial
      · exact (ih.evalFor _ _ _ _ _).mono fun y hy => List.mem_append_right _ (List.mem_append_right _ hy)
    | Break l => exact List.mem_cons_self
    | Continue l => exact List.mem_cons_self
    | Func name nl args collect ss =>
      refine EscSat.bind fun _ σ0 => ?_
      simp only [State.alloc]
      exact EscSat.bind fun _ _ => trivial
    | Return l e => exact EscSat.bind fun _ _ => List.mem_cons_self
  · intro σ sc bs els
    conv => arg 2; unfold evalIf
    cases bs with
    | nil =>
      cases els with
      | none => trivial
      | some ss => exact (ih.evalBlock σ sc [] ss).mono fun y hy => by simpa [kwsBL, kwsSLO] using hy
    | cons b r =>
      cases b with
      | mk cond ss =>
        refine EscSat.bind fun bv σ1 => ?_
        cases bv with
        | true =>
          exact (ih.evalBlock σ1 sc [] ss).mono fun y hy => by
            simp only [kwsBL, kwsB, List.mem_append]; exact Or.inl (Or.inl (Or.inr hy))
        | false =>
          exact (ih.evalIf σ1 sc r els).mono fun y hy => by
            simp only [kwsBL, List.mem_append] at hy ⊢
            rcases hy with hy | hy
            · exact Or.inl (Or.inr hy)
            · exact Or.inr hy
  · intro σ sc c ss
    conv => arg 2; unfold evalWhile
    refine EscSat.bind fun bv σ1 => ?_
    cases bv with
    | false => trivial
    | true =>
      refine EscSat.bindE (ih.evalBlock σ1 sc [] ss) fun esc σ2 he => ?_
      cases esc with
      | none => exact ih.evalWhile _ _ _ _
      | brk l => trivial
      | cont l => exact ih.evalWhile _ _ _ _
      | ret v l => exact he
  · intro σ sc lhs ps ss
    conv => arg 2; unfold evalFor
    cases ps with
    | nil => trivial
    | cons p r =>
      obtain ⟨k, v⟩ := p
      simp only []
      refine EscSat.bindE (ih.evalBlock _ sc _ ss) fun esc σ2 he => ?_
      cases esc with
      | none => exact ih.evalFor _ _ _ _ _
      | brk l => trivial
      | cont l => exact ih.evalFor _ _ _ _ _
      | ret v l => exact he

theorem escAll (n : Nat) : EscAll n := by
  induction n with
  | zero => exact escAll_zero
  | succ n ih => exact escAll_succ n ih

/-- **the escape of a statement list is a jump statement of that list** -/
theorem stmts_escape_from_list {n : Nat} {σ σ' : State} {sc : List Addr} {ss : List Stmt} {esc : Escape}
    (h : evalStmts n σ sc ss = .ok esc σ') : EscIn (kwsSL ss) esc := by
  have := (escAll n).evalStmts σ sc ss
  rw [h] at this; exact this

theorem block_escape_from_list {n : Nat} {σ σ' : State} {sc : List Addr} {bs : List (Expr × SVal)} {ss : List Stmt}
    {esc : Escape} (h : evalBlock n σ sc bs ss = .ok esc σ') : EscIn (kwsSL ss) esc := by
  have := (escAll n).evalBlock σ sc bs ss
  rw [h] at this; exact this

/-- an instance: the body `if true { break; }` with the `break` stored at 3:5 runs to `.brk (3,5)` -/
example : ∃ σ', evalStmts 8 progState [0]
    [.If [.mk (.mk (.Bool true) (2, 6)) [.Break (3, 5)]] none] = .ok (.brk (3, 5)) σ' := ⟨_, by with_unfolding_all rfl⟩

/-! ## the text at a token start: a keyword / operator token starts with the characters that spell it -/

/-- the spelling of the tokens the attribution theorems are about: the jump keywords, the binary operators, the
    op-assignment operators (`none` for every other token) -/
def tokText : Token → Option (List Char)
  | .Break => some c!"break" | .Continue => some c!"continue" | .Return => some c!"return"
  | .Sum => some c!"+" | .Sub => some c!"-" | .Mul => some c!"*" | .Div => some c!"/" | .Mod => some c!"%"
  | .AmpAmp => some c!"&&" | .PipePipe => some c!"||" | .EqualsEquals => some c!"==" | .BangEquals => some c!"!="
  | .GreaterThan => some c!">" | .GreaterThanEquals => some c!">=" | .LessThan => some c!"<"
  | .LessThanEquals => some c!"<=" | .EqualsEqualsEquals => some c!"===" | .BangEqualsEquals => some c!"!=="
  | .SumEquals => some c!"+=" | .SubEquals => some c!"-=" | .MulEquals => some c!"*=" | .DivEquals => some c!"/="
  | .ModEquals => some c!"%="
  | _ => none

/-- every binary operator and every op-assignment operator has a spelling -/
example : (∀ op : BinaryOp, (tokText (binTok op)).isSome) ∧
    (∀ op ∈ [BinaryOp.Sum, .Sub, .Mul, .Div, .Mod], (tokText (assignTok op)).isSome) := by
  constructor
  · intro op; cases op <;> rfl
  · decide

theorem lookupAssoc_mem {α β} [DecidableEq α] {k : α} {v : β} : ∀ {l : List (α × β)}, lookupAssoc k l = some v → (k, v) ∈ l
  | [], h => by simp [lookupAssoc] at h
  | (k', v') :: r, h => by
    unfold lookupAssoc at h
    split at h
    · next hk => cases h; subst hk; exact List.mem_cons_self
    · exact List.mem_cons_of_mem _ (lookupAssoc_mem h)

theorem single_text {c : Char} {t : Token} {w : List Char} (h : matchSingle c = some t) (hw : tokText t = some w) : w = [c] := by
  have := (by decide : ∀ p ∈ Gen.singleSym, tokText p.2 = none ∨ tokText p.2 = some [p.1]) _ (lookupAssoc_mem h)
  rcases this with h' | h' <;> simp_all
theorem double_text {a b : Char} {t : Token} {w : List Char} (h : matchDouble a b = some t) (hw : tokText t = some w) :
    w = [a, b] := by
  have := (by decide : ∀ p ∈ Gen.doubleSym, tokText p.2 = none ∨ tokText p.2 = some [p.1.1, p.1.2]) _ (lookupAssoc_mem h)
  rcases this with h' | h' <;> simp_all
theorem triple_text {a b c : Char} {t : Token} {w : List Char} (h : matchTriple a b c = some t) (hw : tokText t = some w) :
    w = [a, b, c] := by
  have := (by decide : ∀ p ∈ Gen.tripleSym, tokText p.2 = none ∨ tokText p.2 = some [p.1.1, p.1.2.1, p.1.2.2]) _
    (lookupAssoc_mem h)
  rcases this with h' | h' <;> simp_all
theorem keyword_text {w' w : List Char} (hw : tokText (keywordOrIdent w') = some w) : w = w' := by
  unfold keywordOrIdent at hw
  split at hw
  · next t h =>
    have := (by decide : ∀ p ∈ Gen.keywords, tokText p.2 = none ∨ tokText p.2 = some p.1) _ (lookupAssoc_mem h)
    rcases this with h' | h' <;> simp_all
  · simp [tokText] at hw

theorem peek_next {s : Scanner} {c1 c2 : Char} {r : List Char} (hr : s.rest = c1 :: r) (h : s.next.peek = some c2) :
    ∃ r', r = c2 :: r' := by
  unfold Scanner.peek at h
  rw [Scanner.next_rest, hr] at h
  cases r with
  | nil => simp at h
  | cons x r' => simp at h; subst h; exact ⟨r', rfl⟩

theorem next_rest_cons {s : Scanner} {c1 : Char} {r : List Char} (hr : s.rest = c1 :: r) : s.next.rest = r := by
  rw [Scanner.next_rest, hr]; rfl

theorem single_prefix {c : Char} {t : Token} {w r : List Char} (h : matchSingle c = some t) (hw : tokText t = some w) :
    w <+: c :: r := by rw [single_text h hw]; exact ⟨_, rfl⟩
theorem double_prefix {a b : Char} {t : Token} {w r : List Char} (h : matchDouble a b = some t) (hw : tokText t = some w) :
    w <+: a :: b :: r := by rw [double_text h hw]; exact ⟨_, rfl⟩
theorem triple_prefix {a b c : Char} {t : Token} {w r : List Char} (h : matchTriple a b c = some t)
    (hw : tokText t = some w) : w <+: a :: b :: c :: r := by rw [triple_text h hw]; exact ⟨_, rfl⟩

/-- closes a leaf of the analysis of `lexSym` / `lexMultiSym` -/
macro "sym_leaf" : tactic =>
  `(tactic| first
    | exact single_prefix (by assumption) (by assumption)
    | exact double_prefix (by assumption) (by assumption)
    | exact triple_prefix (by assumption) (by assumption))

theorem lexMultiSym_text {c1 : Char} {s s' : Scanner} {t : Token} {r w : List Char} (hr : s.rest = c1 :: r)
    (h : lexMultiSym c1 s = (some t, s')) (hw : tokText t = some w) : w <+: c1 :: r := by
  unfold lexMultiSym at h
  simp only at h
  split at h
  · cases h
  · next c2 h2 =>
    obtain ⟨r', rfl⟩ := peek_next hr h2
    have hr2 := next_rest_cons hr
    split at h
    · split at h
      · cases h
      · next c3 h3 =>
        obtain ⟨r'', rfl⟩ := peek_next hr2 h3
        injection h with h _
        sym_leaf
    · split at h
      · injection h with h _; injection h with h; subst h
        sym_leaf
      · next c3 h3 =>
        obtain ⟨r'', rfl⟩ := peek_next hr2 h3
        split at h
        · injection h with h _; injection h with h; subst h
          sym_leaf
        · injection h with h _; injection h with h; subst h
          sym_leaf

theorem lexSym_text {c1 : Char} {s s' : Scanner} {t : Token} {r w : List Char} (hr : s.rest = c1 :: r)
    (h : lexSym c1 s = (some t, s')) (hw : tokText t = some w) : w <+: c1 :: r := by
  unfold lexSym at h
  simp only at h
  split at h
  · exact lexMultiSym_text hr h hw
  · next t1 h1 =>
    split at h
    · injection h with h _; injection h with h; subst h
      sym_leaf
    · next c2 h2 =>
      obtain ⟨r', rfl⟩ := peek_next hr h2
      have hr2 := next_rest_cons hr
      split at h
      · injection h with h _; injection h with h; subst h
        sym_leaf
      · split at h
        · injection h with h _; injection h with h; subst h
          sym_leaf
        · next c3 h3 =>
          obtain ⟨r'', rfl⟩ := peek_next hr2 h3
          split at h
          · injection h with h _; injection h with h; subst h
            sym_leaf
          · injection h with h _; injection h with h; subst h
            sym_leaf

/-- **a token with a spelling starts with its spelling**: the text after whitespace and comments begins with `w` -/
theorem nextToken_text {s0 s' : Scanner} {sp : Span} {w : List Char} (h : nextToken s0 = .tok sp s')
    (hw : tokText sp.tok = some w) : w <+: s0.skipWs.rest := by
  unfold nextToken at h
  simp only at h
  generalize s0.skipWs = s at h ⊢
  split at h
  · cases h
  · next c r hr =>
    split at h
    · cases h
    · next t s'' hres =>
      injection h with h1 h2
      subst h1
      simp only at hw
      rw [hr]
      split at hres
      · injection hres with hres; injection hres with ht _; subst ht; simp [tokText] at hw
      · split at hres
        · injection hres with hres; injection hres with ht _; subst ht
          rw [keyword_text hw, hr]
          exact List.takeWhile_prefix _
        · split at hres
          · unfold lexInt at hres
            simp only at hres
            split at hres
            · injection hres with hres; injection hres with ht _; subst ht; simp [tokText] at hw
            · cases hres
          · split at hres
            · unfold lexStr at hres
              simp only at hres
              split at hres
              · cases hres
              · simp only [Bool.false_eq_true, if_false] at hres
                injection hres with hres; injection hres with ht _; subst ht; simp [tokText] at hw
            · split at hres
              · unfold lexStr at hres
                simp only at hres
                split at hres
                · cases hres
                · simp only [if_true] at hres
                  injection hres with hres; injection hres with ht _; subst ht; simp [tokText] at hw
              · split at hres
                · next t' s3 hsym =>
                  injection hres with hres; injection hres with ht _; subst ht
                  exact lexSym_text hr hsym hw
                · cases hres

/-- a token of kind `t` at `l` (`TokIs`), `t` with spelling `w`: `l = posOf src i` and the source text from offset `i`
    starts with `w` -/
theorem TokIs.text {src : List Char} {t : Token} {l : Loc} {w : List Char} (h : TokIs src t l) (hw : tokText t = some w) :
    ∃ i, i < src.length ∧ l = posOf src i ∧ w <+: src.drop i := by
  obtain ⟨sp, k', i, j, _, _, ht, _, _, hi, _, hn, hs, hl⟩ := h
  refine ⟨i, hi, hl, ?_⟩
  have := nextToken_text hn (by rw [ht]; exact hw)
  rwa [hs, scan_rest] at this

/-! ## the attribution theorems of C18Attrib.lean on SOURCE TEXT -/

/-- the spelling of a binary operator -/
def binText : BinaryOp → List Char
  | .Sum => c!"+" | .Sub => c!"-" | .Mul => c!"*" | .Div => c!"/" | .Mod => c!"%" | .And => c!"&&" | .Or => c!"||"
  | .Eq => c!"==" | .Ne => c!"!=" | .Gt => c!">" | .Gte => c!">=" | .Lt => c!"<" | .Lte => c!"<="
  | .RefEq => c!"===" | .RefNe => c!"!=="

theorem tokText_binTok (op : BinaryOp) : tokText (binTok op) = some (binText op) := by cases op <;> rfl

theorem mem_kwsSL_of_mem {st : Stmt} {y : Token × Loc} : ∀ {stmts : List Stmt}, st ∈ stmts → y ∈ kwsS st → y ∈ kwsSL stmts
  | x :: r, hm, hy => by
    rw [kwsSL, List.mem_append]
    rcases List.mem_cons.mp hm with rfl | hm
    · exact Or.inl hy
    · exact Or.inr (mem_kwsSL_of_mem hm hy)

/-- the body of a function statement of the program is code of the program -/
theorem func_body_sub {stmts body : List Stmt} {name : List Char} {nl : Loc} {args : List Expr} {collect : Bool}
    (h : Stmt.Func name nl args collect body ∈ stmts) : ∀ y, y ∈ kwsSL body → y ∈ kwsSL stmts := fun y hy =>
  mem_kwsSL_of_mem h (by simp only [kwsS, List.mem_cons, List.mem_append]; exact Or.inr (Or.inr hy))

section src
variable {src : List Char} {stmts : List Stmt}

/-- **(1) on source text.**  the source parses to `stmts`, the tree contains a `BinaryOp op` node with `opLoc`; a node
    `lhs op rhs` with that operator position whose operands evaluate and whose operation fails reports at
    `posOf src i` — the line and column of offset `i` — and the source text at offset `i` is the operator: -/
theorem binop_fail_at_operator_text (hp : parseProg src = .ok stmts) {op : BinaryOp} {opLoc loc : Loc}
    (hin : (binTok op, opLoc) ∈ kwsSL stmts) (k : Nat) {n : Nat} {σ σ1 σ2 σ3 : State} {sc : List Addr} {lhs rhs : Expr}
    {l r : SVal} {e : Err} (h1 : evalExpr n σ sc lhs = .ok l σ1) (h2 : evalExpr n σ1 sc rhs = .ok r σ2)
    (h3 : applyBinOp n σ2 op opLoc l.v r.v = .err e σ3) :
    ∃ leaf i, OpFailLeaf op l.v r.v leaf ∧ i < src.length ∧ binText op <+: src.drop i ∧
      evalExpr (n + k + 1) σ sc (.mk (.BinaryOp op opLoc lhs rhs) loc) = errAt (posOf src i) leaf σ2 := by
  obtain ⟨leaf, hl, _, _, h⟩ := binop_fail_at_opLoc (loc := loc) k h1 h2 h3
  obtain ⟨i, hi, hpos, htxt⟩ := (binop_opLoc_is_operator_token hp hin).text (tokText_binTok op)
  exact ⟨leaf, i, hl, hi, htxt, hpos ▸ h⟩
/-- an instance: the program `y := x + s;` (the `+` at 1:8), evaluated where `x = 1`, `s = "a"` -/
example (k : Nat) := binop_fail_at_operator_text (src := c!"y := x + s;\n") (parseProg_progOf (by decide +kernel))
  (op := .Sum) (opLoc := (1, 8)) (loc := (1, 6)) (by decide +kernel) k (ex_x 0 (1, 6)) (ex_s 0 (1, 10))
  (applyBinOp_type_mismatch 1 σe (1, 8) 1 _)

/-- the chain `a op1 b op2 c` of a parsed program, first operator failing: reported at the first operator's own
    characters -/
theorem chain_inner_fails_at_operator_text (hp : parseProg src = .ok stmts) {op1 op2 : BinaryOp} {p1 p2 l1 l2 : Loc}
    (hin : (binTok op1, p1) ∈ kwsSL stmts) (k : Nat) {n : Nat} {σ σ1 σ2 σ3 : State} {sc : List Addr} {a b c : Expr}
    {va vb : SVal} {e : Err} (ha : evalExpr n σ sc a = .ok va σ1) (hb : evalExpr n σ1 sc b = .ok vb σ2)
    (hop : applyBinOp n σ2 op1 p1 va.v vb.v = .err e σ3) :
    ∃ leaf i, OpFailLeaf op1 va.v vb.v leaf ∧ i < src.length ∧ binText op1 <+: src.drop i ∧
      evalExpr (n + k + 2) σ sc (.mk (.BinaryOp op2 p2 (.mk (.BinaryOp op1 p1 a b) l1) c) l2) =
        errAt (posOf src i) leaf σ2 := by
  obtain ⟨leaf, hl, h⟩ := chain_inner_fails (op2 := op2) (p2 := p2) (l1 := l1) (l2 := l2) (c := c) k ha hb hop
  obtain ⟨i, hi, hpos, htxt⟩ := (binop_opLoc_is_operator_token hp hin).text (tokText_binTok op1)
  exact ⟨leaf, i, hl, hi, htxt, hpos ▸ h⟩
/-- `y := x + s + x;`: the first `+` at 1:8 -/
example (k : Nat) := chain_inner_fails_at_operator_text (src := c!"y := x + s + x;\n") (parseProg_progOf (by decide +kernel))
  (op1 := .Sum) (op2 := .Sum) (p1 := (1, 8)) (p2 := (1, 12)) (l1 := (1, 6)) (l2 := (1, 6)) (c := V c!"x" (1, 14))
  (by decide +kernel) k (ex_x 0 (1, 6)) (ex_s 0 (1, 10)) (applyBinOp_type_mismatch 1 σe (1, 8) 1 _)

/-- … second operator failing: reported at the second operator's own characters -/
theorem chain_outer_fails_at_operator_text (hp : parseProg src = .ok stmts) {op1 op2 : BinaryOp} {p1 p2 l1 l2 : Loc}
    (hin : (binTok op2, p2) ∈ kwsSL stmts) (k : Nat) {n : Nat} {σ σ1 σ2 σ3 σ4 σ5 : State} {sc : List Addr} {a b c : Expr}
    {va vb vc : SVal} {v : Val} {e : Err} (ha : evalExpr n σ sc a = .ok va σ1) (hb : evalExpr n σ1 sc b = .ok vb σ2)
    (hop : applyBinOp n σ2 op1 p1 va.v vb.v = .ok v σ3) (hc : evalExpr n σ3 sc c = .ok vc σ4)
    (hop2 : applyBinOp n σ4 op2 p2 v vc.v = .err e σ5) :
    ∃ leaf i, OpFailLeaf op2 v vc.v leaf ∧ i < src.length ∧ binText op2 <+: src.drop i ∧
      evalExpr (n + k + 2) σ sc (.mk (.BinaryOp op2 p2 (.mk (.BinaryOp op1 p1 a b) l1) c) l2) =
        errAt (posOf src i) leaf σ4 := by
  obtain ⟨leaf, hl, h⟩ := chain_outer_fails (l1 := l1) (l2 := l2) k ha hb hop hc hop2
  obtain ⟨i, hi, hpos, htxt⟩ := (binop_opLoc_is_operator_token hp hin).text (tokText_binTok op2)
  exact ⟨leaf, i, hl, hi, htxt, hpos ▸ h⟩
/-- `y := x + x + s;`: the second `+` at 1:12 -/
example (k : Nat) := chain_outer_fails_at_operator_text (src := c!"y := x + x + s;\n") (parseProg_progOf (by decide +kernel))
  (op1 := .Sum) (op2 := .Sum) (p1 := (1, 8)) (p2 := (1, 12)) (l1 := (1, 6)) (l2 := (1, 6))
  (by decide +kernel) k (ex_x 0 (1, 6)) (ex_x 0 (1, 10))
  (show applyBinOp 1 σe .Sum (1, 8) (.int 1) (.int 1) = .ok (.int 2) σe from by with_unfolding_all rfl)
  (ex_s 0 (1, 14)) (applyBinOp_type_mismatch 1 σe (1, 12) 2 _)

/-- **(2) on source text**, for `xs[i] op= rhs` (the other three targets alike): reported at the characters of `op=` -/
theorem opAssign_index_fail_at_operator_text (hp : parseProg src = .ok stmts) {op : BinaryOp} {opLoc loc : Loc}
    {w : List Char} (hin : (assignTok op, opLoc) ∈ kwsSL stmts) (hw : tokText (assignTok op) = some w) (k : Nat) {n : Nat}
    {σ σ1 σ2 σ3 σ4 : State} {sc : List Addr} {rhs ex locat : Expr} {v cur : SVal} {e : Err} {a : Addr} {s : Option Val}
    {i : Nat} {items : List SVal}
    (h1 : evalExpr n σ sc rhs = .ok v σ1) (h2 : evalExpr n σ1 sc ex = .ok ⟨.list a, s⟩ σ2)
    (h3 : evalToIndex n σ2 sc locat = .ok i σ3) (h4 : σ3.getList a = some items) (h5 : items[i]? = some cur)
    (h6 : applyBinOp n σ3 op opLoc cur.v v.v = .err e σ4) :
    ∃ leaf j, OpFailLeaf op cur.v v.v leaf ∧ j < src.length ∧ w <+: src.drop j ∧
      evalStmt (n + k + 2) σ sc (.OpAssign (.mk (.Index ex locat) loc) op opLoc rhs) = errAt (posOf src j) leaf σ3 := by
  obtain ⟨leaf, hl, _, h⟩ := opAssign_index_fail_at_opLoc (loc := loc) k h1 h2 h3 h4 h5 h6
  obtain ⟨j, hj, hpos, htxt⟩ := (opAssign_opLoc_is_opassign_token hp hin).text hw
  exact ⟨leaf, j, hl, hj, htxt, hpos ▸ h⟩
/-- `xs[0] += "b";`: the `+=` at 1:7 -/
example (k : Nat) := opAssign_index_fail_at_operator_text (src := c!"xs[0] += \"b\";\n") (parseProg_progOf (by decide +kernel))
  (op := .Sum) (opLoc := (1, 7)) (loc := (1, 1)) (w := c!"+=") (by decide +kernel) rfl k
  (ex_lit 3 c!"b" (1, 10)) (ex_xs 3 (1, 1))
  (show evalToIndex 4 σe [0] (I 0 (1, 4)) = .ok 0 σe from by with_unfolding_all rfl)
  (show σe.getList 1 = some [SVal.plain (.int 5)] from by rfl) (show [SVal.plain (.int 5)][0]? = some (SVal.plain (.int 5)) from rfl)
  (applyBinOp_type_mismatch 4 σe (1, 7) 5 _)

/-- **(4) on source text, top level** — no hypothesis about the tree beyond the parse: a run of the program's statements
    that ends in a `break` escape is reported at `posOf src i`, and the source text at offset `i` is `break` -/
theorem top_level_break_at_keyword_text (hp : parseProg src = .ok stmts) (k : Nat) {n : Nat} {l : Loc} {σ : State}
    (h : evalStmts n progState [0] stmts = .ok (.brk l) σ) :
    ∃ i, i < src.length ∧ c!"break" <+: src.drop i ∧
      evalProg (n + k + 3) stmts = errAt (posOf src i) Leaf.BreakOutsideLoop σ := by
  obtain ⟨i, hi, hpos, htxt⟩ := (break_loc_is_break_token hp (stmts_escape_from_list h)).text rfl
  exact ⟨i, hi, htxt, hpos ▸ top_level_break_at_keyword k h⟩
/-- an instance: `if true { break; }` at top level -/
example (k : Nat) := top_level_break_at_keyword_text (src := c!"if true {\n  break;\n}\n") (parseProg_progOf (by decide +kernel)) k
  (n := 8) (l := (2, 3)) (σ := (progState.alloc (.scope [])).2) (by with_unfolding_all rfl)

theorem top_level_continue_at_keyword_text (hp : parseProg src = .ok stmts) (k : Nat) {n : Nat} {l : Loc} {σ : State}
    (h : evalStmts n progState [0] stmts = .ok (.cont l) σ) :
    ∃ i, i < src.length ∧ c!"continue" <+: src.drop i ∧
      evalProg (n + k + 3) stmts = errAt (posOf src i) Leaf.ContinueOutsideLoop σ := by
  obtain ⟨i, hi, hpos, htxt⟩ := (continue_loc_is_continue_token hp (stmts_escape_from_list h)).text rfl
  exact ⟨i, hi, htxt, hpos ▸ top_level_continue_at_keyword k h⟩

theorem top_level_return_at_keyword_text (hp : parseProg src = .ok stmts) (k : Nat) {n : Nat} {l : Loc} {v : SVal}
    {σ : State} (h : evalStmts n progState [0] stmts = .ok (.ret v l) σ) :
    ∃ i, i < src.length ∧ c!"return" <+: src.drop i ∧
      evalProg (n + k + 3) stmts = errAt (posOf src i) Leaf.ReturnOutsideFunction σ := by
  obtain ⟨i, hi, hpos, htxt⟩ := (return_loc_is_return_token hp (stmts_escape_from_list h)).text rfl
  exact ⟨i, hi, htxt, hpos ▸ top_level_return_at_keyword k h⟩
example (k : Nat) := top_level_return_at_keyword_text (src := c!"return 1;\n") (parseProg_progOf (by decide +kernel)) k
  (n := 4) (l := (1, 1)) (v := SVal.plain (.int 1)) (σ := progState) (by with_unfolding_all rfl)

/-- **(4) on source text, a called function.**  `hbody`: the body of the called function is code of the program (true
    for a function declared by a statement of the program: `func_body_sub`; that every function cell reachable in a run
    has this property is the labelled form of the heap invariant `PosInv` of C18EvalPos.lean — not proved here).  A
    `break` that escapes the body is reported at `posOf src i` with the source text `break` at offset `i` — at the
    keyword inside the function, not at the call -/
theorem break_escaping_call_at_keyword_text (hp : parseProg src = .ok stmts) (k : Nat) {n : Nat} {σ σ1 σ2 σ4 : State}
    {sc : List Addr} {loc l : Loc} {f : Expr} {args : List ListItem} {argVals : List SVal} {a : Addr} {s : Option Val}
    {fr : FuncRec} (hbody : ∀ y, y ∈ kwsSL fr.stmts → y ∈ kwsSL stmts)
    (h1 : evalListItems n σ sc args [] = .ok argVals σ1) (h2 : evalExpr n σ1 sc f = .ok ⟨.func a, s⟩ σ2)
    (h3 : σ2.getFunc a = some fr)
    (hA : (fr.collect && decide (fr.args.length - 1 > argVals.length)) = false)
    (hB : (!fr.collect && decide (fr.args.length ≠ argVals.length)) = false)
    (h4 : evalBlock n (callFrame σ2 fr ⟨.func a, s⟩ argVals loc).2 fr.closure (callFrame σ2 fr ⟨.func a, s⟩ argVals loc).1 fr.stmts
      = .ok (.brk l) σ4) :
    ∃ i, i < src.length ∧ c!"break" <+: src.drop i ∧
      evalExpr (n + k + 2) σ sc (.mk (.Call f args) loc) = errAt (posOf src i) Leaf.BreakOutsideLoop σ4 := by
  obtain ⟨i, hi, hpos, htxt⟩ := (break_loc_is_break_token hp (hbody _ (block_escape_from_list h4))).text rfl
  exact ⟨i, hi, htxt, hpos ▸ break_escaping_call_at_keyword k h1 h2 h3 hA hB h4⟩

theorem continue_escaping_call_at_keyword_text (hp : parseProg src = .ok stmts) (k : Nat) {n : Nat} {σ σ1 σ2 σ4 : State}
    {sc : List Addr} {loc l : Loc} {f : Expr} {args : List ListItem} {argVals : List SVal} {a : Addr} {s : Option Val}
    {fr : FuncRec} (hbody : ∀ y, y ∈ kwsSL fr.stmts → y ∈ kwsSL stmts)
    (h1 : evalListItems n σ sc args [] = .ok argVals σ1) (h2 : evalExpr n σ1 sc f = .ok ⟨.func a, s⟩ σ2)
    (h3 : σ2.getFunc a = some fr)
    (hA : (fr.collect && decide (fr.args.length - 1 > argVals.length)) = false)
    (hB : (!fr.collect && decide (fr.args.length ≠ argVals.length)) = false)
    (h4 : evalBlock n (callFrame σ2 fr ⟨.func a, s⟩ argVals loc).2 fr.closure (callFrame σ2 fr ⟨.func a, s⟩ argVals loc).1 fr.stmts
      = .ok (.cont l) σ4) :
    ∃ i, i < src.length ∧ c!"continue" <+: src.drop i ∧
      evalExpr (n + k + 2) σ sc (.mk (.Call f args) loc) = errAt (posOf src i) Leaf.ContinueOutsideLoop σ4 := by
  obtain ⟨i, hi, hpos, htxt⟩ := (continue_loc_is_continue_token hp (hbody _ (block_escape_from_list h4))).text rfl
  exact ⟨i, hi, htxt, hpos ▸ continue_escaping_call_at_keyword k h1 h2 h3 hA hB h4⟩
/-- an instance: the program `exBreak'` = `fn f() { break; }  f();`, in a state where `f` is the function cell 1 holding
    the body of the function statement (the state the program is in when it reaches the call) -/
def exBreak' : List Char := c!"fn f() {\n    break;\n}\nf();\n"
def frX : FuncRec := ⟨some c!"f", [], false, [.Break (2, 5)], [0]⟩
def σf : State :=
  ⟨#[.scope [(c!"f", SVal.plain (.func 1), (1, 4)), (c!"print", SVal.plain (.builtin c!"print" .print), (0, 0))], .func frX], []⟩
example (k : Nat) := break_escaping_call_at_keyword_text (src := exBreak') (parseProg_progOf (by decide +kernel)) k
  (fr := frX) (loc := (4, 1)) (l := (2, 5)) (σ4 := (σf.alloc (.scope [])).2) (by decide +kernel)
  (show evalListItems 3 σf [0] [] [] = .ok [] σf from by with_unfolding_all rfl)
  (show evalExpr 3 σf [0] (V c!"f" (4, 1)) = .ok ⟨.func 1, none⟩ σf from by with_unfolding_all rfl)
  (show σf.getFunc 1 = some frX from by rfl) rfl rfl (by with_unfolding_all rfl)

end src

/-! ## whole-pipeline runs (`Seed.run`: lex → parse → evaluate → render): the reported `line:column` is the position of
    the operator / keyword, and the character at that position of the source is the operator / the keyword's first -/

/-- `a + b + c`, the FIRST `+` fails (`1 + "s"`): reported at 4:8, the first `+` (offset 33) -/
def exChain1 : List Char := c!"a := 1;\nb := \"s\";\nc := 2;\nx := a + b + c;\n"
example : (run 60 c!"t.sd" exChain1).stderr = c!"t.sd:4:8: can't apply '+' to 'int' and 'string'\n" ∧
    posOf exChain1 33 = (4, 8) ∧ exChain1[33]? = some '+' ∧ exChain1[37]? = some '+' ∧
    kwsSL (progOf exChain1) = [(.Sum, (4, 12)), (.Sum, (4, 8))] := by decide +kernel

/-- `a + b + c`, the SECOND `+` fails (`3 + "s"`): reported at 4:12, the second `+` (offset 37) -/
def exChain2 : List Char := c!"a := 1;\nb := 2;\nc := \"s\";\nx := a + b + c;\n"
example : (run 60 c!"t.sd" exChain2).stderr = c!"t.sd:4:12: can't apply '+' to 'int' and 'string'\n" ∧
    posOf exChain2 37 = (4, 12) ∧ exChain2[37]? = some '+' := by decide +kernel

/-- the chain over three lines: the second `+` is on line 5, column 6 -/
def exChain3 : List Char := c!"a := 1;\nb := 2;\nc := \"s\";\nx := a +\n   b +\n     c;\n"
example : (run 60 c!"t.sd" exChain3).stderr = c!"t.sd:5:6: can't apply '+' to 'int' and 'string'\n" ∧
    posOf exChain3 40 = (5, 6) ∧ exChain3[40]? = some '+' := by decide +kernel

/-- … the hypotheses of `binop_fail_at_operator_text` for it: the program parses and its tree has the two `+` nodes -/
example : parsesOk exChain3 = true ∧ (binTok .Sum, (5, 6)) ∈ kwsSL (progOf exChain3) ∧
    (binTok .Sum, (4, 8)) ∈ kwsSL (progOf exChain3) := by decide +kernel

/-- a `break` inside a called function: reported at 2:5, the keyword (offset 13) — not at the call `f()` on line 4, and
    without a stack trace -/
def exBreak : List Char := c!"fn f() {\n    break;\n}\nf();\n"
example : (run 60 c!"t.sd" exBreak).stderr = c!"t.sd:2:5: 'break' can't be used outside of a loop\n" ∧
    posOf exBreak 13 = (2, 5) ∧ (exBreak.drop 13).take 5 = c!"break" ∧
    kwsSL (progOf exBreak) = [(.Ident c!"f", (1, 4)), (.Break, (2, 5))] := by decide +kernel

/-- a `continue` in an `if` of a function called from inside a loop: the loop of the CALLER does not catch it; reported at
    the keyword 3:5 (offset 25) -/
def exContinue : List Char := c!"fn f() {\n  if true {\n    continue;\n  }\n}\nwhile true {\n  f();\n}\n"
example : (run 80 c!"t.sd" exContinue).stderr = c!"t.sd:3:5: 'continue' can't be used outside of a loop\n" ∧
    posOf exContinue 25 = (3, 5) ∧ (exContinue.drop 25).take 8 = c!"continue" := by decide +kernel

/-- `return` at top level: at the keyword -/
example : (run 60 c!"t.sd" c!"x := 1;\nreturn x;\n").stderr = c!"t.sd:2:1: 'return' can't be used outside of a function\n" := by
  decide +kernel

/-- op-assignment on a list element: at the `+=` (2:9, offset 19), not at the target `xs[0]` (2:1) -/
def exOpAssign : List Char := c!"xs := [1];\nxs[0]   += \"a\";\n"
example : (run 60 c!"t.sd" exOpAssign).stderr = c!"t.sd:2:9: can't apply '+' to 'int' and 'string'\n" ∧
    posOf exOpAssign 19 = (2, 9) ∧ (exOpAssign.drop 19).take 2 = c!"+=" ∧
    kwsSL (progOf exOpAssign) = [(.SumEquals, (2, 9))] := by decide +kernel

/-- … on a property, and an overflow on a variable -/
example : (run 60 c!"t.sd" c!"o := {\"k\": 1};\no.k   -= \"a\";\n").stderr =
      c!"t.sd:2:7: can't apply '-' to 'int' and 'string'\n" ∧
    (run 60 c!"t.sd" c!"x := 9223372036854775807;\nx   *= 2;\n").stderr =
      c!"t.sd:2:5: '9223372036854775807 * 2' caused an integer overflow\n" := by decide +kernel

/-- (3), (5), (6) through the pipeline: a negative index at the index expression (2:11, not the node 2:6), the range
    end at the end expression (1:11), `for` over an int at the iterable (1:10) -/
example : (run 60 c!"t.sd" c!"xs := [1];\ny := xs[  -1];\n").stderr = c!"t.sd:2:11: index can't be negative\n" ∧
    (run 60 c!"t.sd" c!"x := 1 .. \"a\";\n").stderr = c!"t.sd:1:11: range end must be 'int', got 'string'\n" ∧
    (run 60 c!"t.sd" c!"for v in 1 { }\n").stderr =
      c!"t.sd:1:10: 'for' iterator must be a 'list', 'object' or 'string'\n" := by decide +kernel

end Seed.C18A
