/-
  Lemmas/C18Attrib3.lean — attribution on SOURCE TEXT, continued: the labelled positions of a tree as a list (`kwsSL`),
  from token starts to source offsets (`TokIs`, `kw_pos_src`), the text at those offsets (`TokIs.text`), the source-level
  forms of the attribution theorems of C18Attrib.lean, and whole-pipeline runs through `Seed.run`.
-/
import SeedProofs.Lemmas.C18Attrib2
namespace Seed.C18A
open Seed Gen

/-! ## the labelled positions of a tree, as a list: "the tree contains a `BinaryOp op` node whose `opLoc` is `p`"
    is `(binTok op, p) ∈ kwsSL stmts` -/

mutual
def kwsRaw : RawExpr → List (Token × Loc)
  | .Null => [] | .Bool _ => [] | .Int _ => [] | .Str _ _ => [] | .Var _ => []
  | .BinaryOp op ol l r => (binTok op, ol) :: (kwsE l ++ kwsE r)
  | .List items _ => kwsItemL items
  | .Index e i => kwsE e ++ kwsE i
  | .RangeIndex e a b => kwsE e ++ (kwsO a ++ kwsO b)
  | .Range a b => kwsE a ++ kwsE b
  | .Object props => kwsPropL props
  | .Prop e _ _ => kwsE e
  | .Func args _ stmts => kwsEL args ++ kwsSL stmts
  | .Call f args => kwsE f ++ kwsItemL args
def kwsE : Expr → List (Token × Loc)
  | .mk raw _ => kwsRaw raw
def kwsO : Option Expr → List (Token × Loc)
  | none => []
  | some e => kwsE e
def kwsEL : List Expr → List (Token × Loc)
  | [] => []
  | e :: r => kwsE e ++ kwsEL r
def kwsItem : ListItem → List (Token × Loc)
  | .mk e _ => kwsE e
def kwsItemL : List ListItem → List (Token × Loc)
  | [] => []
  | x :: r => kwsItem x ++ kwsItemL r
def kwsProp : PropItem → List (Token × Loc)
  | .Pair n v => kwsE n ++ kwsE v
  | .Single e _ _ => kwsE e
def kwsPropL : List PropItem → List (Token × Loc)
  | [] => []
  | x :: r => kwsProp x ++ kwsPropL r
def kwsS : Stmt → List (Token × Loc)
  | .Block b => kwsSL b
  | .Expr e => kwsE e
  | .Declare l r => kwsE l ++ kwsE r
  | .Assign l r => kwsE l ++ kwsE r
  | .OpAssign l op ol r => (assignTok op, ol) :: (kwsE l ++ kwsE r)
  | .If bs els => kwsBL bs ++ kwsSLO els
  | .While c s => kwsE c ++ kwsSL s
  | .For l i s => kwsE l ++ (kwsE i ++ kwsSL s)
  | .Break l => [(.Break, l)]
  | .Continue l => [(.Continue, l)]
  | .Func name nl args _ s => (.Ident name, nl) :: (kwsEL args ++ kwsSL s)
  | .Return l e => (.Return, l) :: kwsE e
def kwsSL : List Stmt → List (Token × Loc)
  | [] => []
  | x :: r => kwsS x ++ kwsSL r
def kwsSLO : Option (List Stmt) → List (Token × Loc)
  | none => []
  | some s => kwsSL s
def kwsB : Branch → List (Token × Loc)
  | .mk c s => kwsE c ++ kwsSL s
def kwsBL : List Branch → List (Token × Loc)
  | [] => []
  | x :: r => kwsB x ++ kwsBL r
end

section lists
variable {P : Token × Loc → Prop}
theorem all_kwsEL : ∀ {es : List Expr}, (∀ x, x ∈ es → ∀ y ∈ kwsE x, P y) → ∀ y ∈ kwsEL es, P y
  | [], _ => by intro y hy; simp [kwsEL] at hy
  | e :: r, h => by
    rw [kwsEL, List.forall_mem_append]
    exact ⟨h e List.mem_cons_self, all_kwsEL fun x hx => h x (List.mem_cons_of_mem _ hx)⟩
theorem all_kwsItemL : ∀ {es : List ListItem}, (∀ x, x ∈ es → ∀ y ∈ kwsItem x, P y) → ∀ y ∈ kwsItemL es, P y
  | [], _ => by intro y hy; simp [kwsItemL] at hy
  | e :: r, h => by
    rw [kwsItemL, List.forall_mem_append]
    exact ⟨h e List.mem_cons_self, all_kwsItemL fun x hx => h x (List.mem_cons_of_mem _ hx)⟩
theorem all_kwsPropL : ∀ {es : List PropItem}, (∀ x, x ∈ es → ∀ y ∈ kwsProp x, P y) → ∀ y ∈ kwsPropL es, P y
  | [], _ => by intro y hy; simp [kwsPropL] at hy
  | e :: r, h => by
    rw [kwsPropL, List.forall_mem_append]
    exact ⟨h e List.mem_cons_self, all_kwsPropL fun x hx => h x (List.mem_cons_of_mem _ hx)⟩
theorem all_kwsSL : ∀ {es : List Stmt}, (∀ x, x ∈ es → ∀ y ∈ kwsS x, P y) → ∀ y ∈ kwsSL es, P y
  | [], _ => by intro y hy; simp [kwsSL] at hy
  | e :: r, h => by
    rw [kwsSL, List.forall_mem_append]
    exact ⟨h e List.mem_cons_self, all_kwsSL fun x hx => h x (List.mem_cons_of_mem _ hx)⟩
theorem all_kwsBL : ∀ {es : List Branch}, (∀ x, x ∈ es → ∀ y ∈ kwsB x, P y) → ∀ y ∈ kwsBL es, P y
  | [], _ => by intro y hy; simp [kwsBL] at hy
  | e :: r, h => by
    rw [kwsBL, List.forall_mem_append]
    exact ⟨h e List.mem_cons_self, all_kwsBL fun x hx => h x (List.mem_cons_of_mem _ hx)⟩
theorem all_kwsSLO : ∀ {o : Option (List Stmt)}, (∀ s, o = some s → ∀ x, x ∈ s → ∀ y ∈ kwsS x, P y) → ∀ y ∈ kwsSLO o, P y
  | none, _ => by intro y hy; simp [kwsSLO] at hy
  | some s, h => all_kwsSL (h s rfl)
theorem all_kwsO : ∀ {o : Option Expr}, (∀ x, o = some x → ∀ y ∈ kwsE x, P y) → ∀ y ∈ kwsO o, P y
  | none, _ => by intro y hy; simp [kwsO] at hy
  | some e, h => h e rfl
end lists

mutual
theorem RawKwOK.kws {T : List Span} : ∀ {r : RawExpr}, RawKwOK T r → ∀ y ∈ kwsRaw r, TokAt T (· = y.1) y.2
  | _, .null => by intro y hy; simp [kwsRaw] at hy
  | _, .bool => by intro y hy; simp [kwsRaw] at hy
  | _, .int => by intro y hy; simp [kwsRaw] at hy
  | _, .str => by intro y hy; simp [kwsRaw] at hy
  | _, .var => by intro y hy; simp [kwsRaw] at hy
  | _, .binop ho hl hr => by
    simp only [kwsRaw, List.forall_mem_cons, List.forall_mem_append]; exact ⟨ho, hl.kws, hr.kws⟩
  | _, .list h => by
    simp only [kwsRaw]; exact all_kwsItemL fun x hx => (h x hx).kws
  | _, .index he hi => by
    simp only [kwsRaw, List.forall_mem_append]; exact ⟨he.kws, hi.kws⟩
  | _, .rangeIndex he ha hb => by
    simp only [kwsRaw, List.forall_mem_append]
    exact ⟨he.kws, all_kwsO fun x hx => (ha x hx).kws, all_kwsO fun x hx => (hb x hx).kws⟩
  | _, .range ha hb => by
    simp only [kwsRaw, List.forall_mem_append]; exact ⟨ha.kws, hb.kws⟩
  | _, .object h => by
    simp only [kwsRaw]; exact all_kwsPropL fun x hx => (h x hx).kws
  | _, .prop he => by
    simp only [kwsRaw]; exact he.kws
  | _, .func ha hs => by
    simp only [kwsRaw, List.forall_mem_append]
    exact ⟨all_kwsEL fun x hx => (ha x hx).kws, all_kwsSL fun x hx => (hs x hx).kws⟩
  | _, .call hf ha => by
    simp only [kwsRaw, List.forall_mem_append]
    exact ⟨hf.kws, all_kwsItemL fun x hx => (ha x hx).kws⟩
theorem KwOK.kws {T : List Span} : ∀ {e : Expr}, KwOK T e → ∀ y ∈ kwsE e, TokAt T (· = y.1) y.2
  | .mk _ _, .mk hr => by simp only [kwsE]; exact hr.kws
theorem ItemKwOK.kws {T : List Span} : ∀ {e : ListItem}, ItemKwOK T e → ∀ y ∈ kwsItem e, TokAt T (· = y.1) y.2
  | _, .mk h => by simp only [kwsItem]; exact h.kws
theorem PropKwOK.kws {T : List Span} : ∀ {e : PropItem}, PropKwOK T e → ∀ y ∈ kwsProp e, TokAt T (· = y.1) y.2
  | _, .pair hn hv => by simp only [kwsProp, List.forall_mem_append]; exact ⟨hn.kws, hv.kws⟩
  | _, .single h => by simp only [kwsProp]; exact h.kws
theorem StmtKwOK.kws {T : List Span} : ∀ {s : Stmt}, StmtKwOK T s → ∀ y ∈ kwsS s, TokAt T (· = y.1) y.2
  | _, .block h => by simp only [kwsS]; exact all_kwsSL fun x hx => (h x hx).kws
  | _, .expr h => by simp only [kwsS]; exact h.kws
  | _, .declare hl hr => by simp only [kwsS, List.forall_mem_append]; exact ⟨hl.kws, hr.kws⟩
  | _, .assign hl hr => by simp only [kwsS, List.forall_mem_append]; exact ⟨hl.kws, hr.kws⟩
  | _, .opAssign hl ho hr => by
    simp only [kwsS, List.forall_mem_cons, List.forall_mem_append]; exact ⟨ho, hl.kws, hr.kws⟩
  | .If bs els, .ifs hb he => by
    simp only [kwsS, List.forall_mem_append]
    exact ⟨all_kwsBL fun x hx => (hb x hx).kws, all_kwsSLO fun s hs x hx => (he s hs x hx).kws⟩
  | _, .whiles hc hs => by
    simp only [kwsS, List.forall_mem_append]; exact ⟨hc.kws, all_kwsSL fun x hx => (hs x hx).kws⟩
  | _, .fors hl hi hs => by
    simp only [kwsS, List.forall_mem_append]; exact ⟨hl.kws, hi.kws, all_kwsSL fun x hx => (hs x hx).kws⟩
  | _, .brk h => by simp only [kwsS, List.forall_mem_cons]; exact ⟨h, fun _ hy => nomatch hy⟩
  | _, .cont h => by simp only [kwsS, List.forall_mem_cons]; exact ⟨h, fun _ hy => nomatch hy⟩
  | _, .func hn ha hs => by
    simp only [kwsS, List.forall_mem_cons, List.forall_mem_append]
    exact ⟨hn, all_kwsEL fun x hx => (ha x hx).kws, all_kwsSL fun x hx => (hs x hx).kws⟩
  | _, .ret hl he => by simp only [kwsS, List.forall_mem_cons]; exact ⟨hl, he.kws⟩
theorem BranchKwOK.kws {T : List Span} : ∀ {b : Branch}, BranchKwOK T b → ∀ y ∈ kwsB b, TokAt T (· = y.1) y.2
  | _, .mk hc hs => by
    simp only [kwsB, List.forall_mem_append]; exact ⟨hc.kws, all_kwsSL fun x hx => (hs x hx).kws⟩
end

/-! ## from tokens to source positions -/

/-- `l` is the position of the first character of a token `t` of `src`: the token `sp` of the token stream is `t` and
    starts at `l`, it is what `nextToken` returns from some offset `k'`, whitespace and comments from `k'` end at offset
    `i`, and `l` is the line/column `posOf src i` of offset `i` -/
def TokIs (src : List Char) (t : Token) (l : Loc) : Prop :=
  ∃ sp k' i j, sp ∈ (lexAll src).1 ∧ sp.start = l ∧ sp.tok = t ∧ k' ≤ i ∧ i < j ∧ i < src.length ∧ j ≤ src.length ∧
    nextToken ((Scanner.new src).advance k') = .tok sp ((Scanner.new src).advance j) ∧
    ((Scanner.new src).advance k').skipWs = (Scanner.new src).advance i ∧ l = posOf src i

theorem tokAt_tokIs {src : List Char} {t : Token} {l : Loc} (h : TokAt (lexAll src).1 (· = t) l) : TokIs src t l := by
  obtain ⟨sp, hm, rfl, ht⟩ := h
  have hraw : sp ∈ (lexRaw (src.length + 1) ((Scanner.new src).advance 0)).1 := suppress_subset _ _ _ hm
  obtain ⟨k', s', _, hn⟩ := lexRaw_mem_reach src _ 0 sp hraw
  obtain ⟨i, j, h1, h2, h3, h4, h5, h6, h7, _⟩ := nextToken_tok_reach hn
  subst h7
  exact ⟨sp, k', i, j, hm, rfl, ht, h1, h2, h3, h4, hn, h5, by rw [h6, scan_pos]⟩

theorem TokIs.tokStart {src : List Char} {t : Token} {l : Loc} (h : TokIs src t l) : TokStart src l := by
  obtain ⟨sp, k', i, j, h1, h2, _, h4, h5, h6, h7, h8, h9, h10⟩ := h
  exact ⟨sp, k', i, j, h1, h2, h4, h5, h6, h7, h8, h9, h10⟩

theorem TokIs.is_posOf {src : List Char} {t : Token} {l : Loc} (h : TokIs src t l) : ∃ i, i < src.length ∧ l = posOf src i :=
  h.tokStart.is_posOf

/-- **`kw_pos_src`.**  if the source parses to `stmts`: every labelled position of the tree — `(binTok op, opLoc)` of a
    binary operation, `(assignTok op, opLoc)` of an op-assignment, `(break, l)`, `(continue, l)`, `(return, l)`,
    `(Ident name, nameLoc)` of a function statement, at any depth — is the source position `posOf src i` of the first
    character of a token of exactly that kind -/
theorem kw_pos_src {src : List Char} {stmts : List Stmt} (hp : parseProg src = .ok stmts) :
    ∀ y ∈ kwsSL stmts, TokIs src y.1 y.2 :=
  fun y hy => tokAt_tokIs (all_kwsSL (P := fun y => TokAt (lexAll src).1 (· = y.1) y.2)
    (fun st hst => (node_kw hp st hst).kws) y hy)

/-- the form asked for: the tree contains a `BinaryOp op` node whose stored `opLoc` is `p` ⇒ `p` is the position of
    the operator's token -/
theorem binop_opLoc_is_operator_token {src : List Char} {stmts : List Stmt} (hp : parseProg src = .ok stmts)
    {op : BinaryOp} {p : Loc} (h : (binTok op, p) ∈ kwsSL stmts) : TokIs src (binTok op) p := kw_pos_src hp _ h
theorem opAssign_opLoc_is_opassign_token {src : List Char} {stmts : List Stmt} (hp : parseProg src = .ok stmts)
    {op : BinaryOp} {p : Loc} (h : (assignTok op, p) ∈ kwsSL stmts) : TokIs src (assignTok op) p := kw_pos_src hp _ h
theorem break_loc_is_break_token {src : List Char} {stmts : List Stmt} (hp : parseProg src = .ok stmts)
    {p : Loc} (h : (Token.Break, p) ∈ kwsSL stmts) : TokIs src .Break p := kw_pos_src hp _ h
theorem continue_loc_is_continue_token {src : List Char} {stmts : List Stmt} (hp : parseProg src = .ok stmts)
    {p : Loc} (h : (Token.Continue, p) ∈ kwsSL stmts) : TokIs src .Continue p := kw_pos_src hp _ h
theorem return_loc_is_return_token {src : List Char} {stmts : List Stmt} (hp : parseProg src = .ok stmts)
    {p : Loc} (h : (Token.Return, p) ∈ kwsSL stmts) : TokIs src .Return p := kw_pos_src hp _ h

/-- an instance: the labelled positions of `x := a + b * c; fn f() { break; }` -/
example : kwsSL (progOf c!"x := a + b * c;\nfn f() {\n  break;\n}\n") =
    [(.Sum, (1, 8)), (.Mul, (1, 12)), (.Ident c!"f", (2, 4)), (.Break, (3, 3))] := by decide +kernel

/-! ## where an escape comes from: `.brk l` / `.cont l` / `.ret v l` returned by a statement list carries the position
    stored in a `break` / `continue` / `return` statement OF THAT LIST (at any depth of blocks, `if`s and loops — not
    inside nested function bodies: a call turns the escapes of its body into values or errors) -/

/-- the escape's position is a labelled position of `ks` with the matching keyword -/
def EscIn (ks : List (Token × Loc)) : Escape → Prop
  | .none => True
  | .brk l => (Token.Break, l) ∈ ks
  | .cont l => (Token.Continue, l) ∈ ks
  | .ret _ l => (Token.Return, l) ∈ ks

theorem EscIn.mono {ks ks' : List (Token × Loc)} (h : ∀ y, y ∈ ks → y ∈ ks') : ∀ {esc : Escape}, EscIn ks esc → EscIn ks' esc
  | .none, _ => trivial
  | .brk _, he => h _ he
  | .cont _, he => h _ he
  | .ret _ _, he => h _ he

/-- a successful result satisfies `EscIn ks` -/
def EscSat (ks : List (Token × Loc)) : Res Escape → Prop
  | .ok esc _ => EscIn ks esc
  | _ => True

theorem EscSat.mono {ks ks' : List (Token × Loc)} (h : ∀ y, y ∈ ks → y ∈ ks') {r : Res Escape} (hr : EscSat ks r) :
    EscSat ks' r := by
  cases r with
  | ok esc σ => exact EscIn.mono h hr
  | _ => trivial

/-- after a step that returns no escape -/
theorem EscSat.bind {α} {ks : List (Token × Loc)} {r : Res α} {f : α → State → Res Escape}
    (hf : ∀ a σ, EscSat ks (f a σ)) : EscSat ks (r.bind f) := by
  cases r with
  | ok a σ => exact hf a σ
  | _ => trivial

/-- after a step that returns an escape -/
theorem EscSat.bindE {ks1 ks : List (Token × Loc)} {r : Res Escape} {f : Escape → State → Res Escape}
    (hr : EscSat ks1 r) (hf : ∀ esc σ, EscIn ks1 esc → EscSat ks (f esc σ)) : EscSat ks (r.bind f) := by
  cases r with
  | ok a σ => exact hf a σ hr
  | _ => trivial

structure EscAll (n : Nat) : Prop where
  evalBlock : ∀ σ sc bs ss, EscSat (kwsSL ss) (evalBlock n σ sc bs ss)
  evalStmts : ∀ σ sc ss, EscSat (kwsSL ss) (evalStmts n σ sc ss)
  evalStmt : ∀ σ sc st, EscSat (kwsS st) (evalStmt n σ sc st)
  evalIf : ∀ σ sc bs els, EscSat (kwsBL bs ++ kwsSLO els) (evalIf n σ sc bs els)
  evalWhile : ∀ σ sc c ss, EscSat (kwsSL ss) (evalWhile n σ sc c ss)
  evalFor : ∀ σ sc lhs ps ss, EscSat (kwsSL ss) (evalFor n σ sc lhs ps ss)

theorem escAll_zero : EscAll 0 := by
  constructor <;> intros
  · unfold evalBlock; trivial
  · unfold evalStmts; trivial
  · unfold evalStmt; trivial
  · unfold evalIf; trivial
  · unfold evalWhile; trivial
  · unfold evalFor; trivial

theorem escAll_succ (n : Nat) (ih : EscAll n) : EscAll (n + 1) := by
  constructor
  · intro σ sc bs ss
    conv => arg 2; unfold evalBlock
    exact EscSat.bind fun _ _ => ih.evalStmts _ _ _
  · intro σ sc ss
    conv => arg 2; unfold evalStmts
    cases ss with
    | nil => trivial
    | cons st r =>
      simp only [kwsSL]
      refine EscSat.bindE (ih.evalStmt σ sc st) fun esc σ1 he => ?_
      cases esc with
      | none => exact (ih.evalStmts σ1 sc r).mono fun y hy => List.mem_append_right _ hy
      | brk l => exact List.mem_append_left _ he
      | cont l => exact List.mem_append_left _ he
      | ret v l => exact List.mem_append_left _ he
  · intro σ sc st
    conv => arg 2; unfold evalStmt
    cases st with
    | Block b => exact ih.evalBlock _ _ _ _
    | Expr e => exact EscSat.bind fun _ _ => trivial
    | Declare l r => exact EscSat.bind fun _ _ => EscSat.bind fun _ _ => trivial
    | Assign l r => exact EscSat.bind fun _ _ => EscSat.bind fun _ _ => trivial
    | OpAssign l op ol r => exact EscSat.bind fun _ _ => EscSat.bind fun _ _ => trivial
    | If bs els => exact ih.evalIf _ _ _ _
    | While c ss => exact (ih.evalWhile σ sc c ss).mono fun y hy => List.mem_append_right _ hy
    | For lhs it ss =>
      refine EscSat.bind fun v σ1 => ?_
      simp only []
      split
      · trivial
      · trivial
      · exact (ih.evalFor _ _ _ _ _).mono fun y hy => List.mem_append_right _ (List.mem_append_right _ hy)
    | Break l => exact List.mem_cons_self
    | Continue l => exact List.mem_cons_self
    | Func name nl args collect ss => exact EscSat.bind fun _ _ => by
        simp only []
        exact EscSat.bind fun _ _ => trivial
    | Return l e => exact EscSat.bind fun _ _ => List.mem_cons_self
  · intro σ sc bs els
    conv => arg 2; unfold evalIf
    cases bs with
    | nil =>
      cases els with
      | none => trivial
      | some ss => exact (ih.evalBlock σ sc [] ss).mono fun y hy => by simpa [kwsBL, kwsSLO] using hy
    | cons b r =>
      cases b with
      | mk cond ss =>
        refine EscSat.bind fun bv σ1 => ?_
        cases bv with
        | true =>
          exact (ih.evalBlock σ1 sc [] ss).mono fun y hy => by
            simp only [kwsBL, kwsB, List.mem_append]; exact Or.inl (Or.inl (Or.inr hy))
        | false =>
          exact (ih.evalIf σ1 sc r els).mono fun y hy => by
            simp only [kwsBL, List.mem_append] at hy ⊢
            rcases hy with hy | hy
            · exact Or.inl (Or.inr hy)
            · exact Or.inr hy
  · intro σ sc c ss
    conv => arg 2; unfold evalWhile
    refine EscSat.bind fun bv σ1 => ?_
    cases bv with
    | false => trivial
    | true =>
      refine EscSat.bindE (ih.evalBlock σ1 sc [] ss) fun esc σ2 he => ?_
      cases esc with
      | none => exact ih.evalWhile _ _ _ _
      | brk l => trivial
      | cont l => exact ih.evalWhile _ _ _ _
      | ret v l => exact he
  · intro σ sc lhs ps ss
    conv => arg 2; unfold evalFor
    cases ps with
    | nil => trivial
    | cons p r =>
      obtain ⟨k, v⟩ := p
      simp only []
      refine EscSat.bindE (ih.evalBlock _ sc _ ss) fun esc σ2 he => ?_
      cases esc with
      | none => exact ih.evalFor _ _ _ _ _
      | brk l => trivial
      | cont l => exact ih.evalFor _ _ _ _ _
      | ret v l => exact he

theorem escAll (n : Nat) : EscAll n := by
  induction n with
  | zero => exact escAll_zero
  | succ n ih => exact escAll_succ n ih

/-- **the escape of a statement list is a jump statement of that list** -/
theorem stmts_escape_from_list {n : Nat} {σ σ' : State} {sc : List Addr} {ss : List Stmt} {esc : Escape}
    (h : evalStmts n σ sc ss = .ok esc σ') : EscIn (kwsSL ss) esc := by
  have := (escAll n).evalStmts σ sc ss
  rw [h] at this; exact this

theorem block_escape_from_list {n : Nat} {σ σ' : State} {sc : List Addr} {bs : List (Expr × SVal)} {ss : List Stmt}
    {esc : Escape} (h : evalBlock n σ sc bs ss = .ok esc σ') : EscIn (kwsSL ss) esc := by
  have := (escAll n).evalBlock σ sc bs ss
  rw [h] at this; exact this

/-- an instance: the body `if true { break; }` with the `break` stored at 3:5 runs to `.brk (3,5)` -/
example : ∃ σ', evalStmts 8 progState [0]
    [.If [.mk (.mk (.Bool true) (2, 6)) [.Break (3, 5)]] none] = .ok (.brk (3, 5)) σ' := ⟨_, by with_unfolding_all rfl⟩

end Seed.C18A
