/-
  NoCrash.lean — G4: evaluation never crashes.

  From a well-formed state (`WF`), a usable scope chain (`ScOK`) and OK argument values, none of the 23
  evaluator functions returns `crash`, except through `render` (the `print` builtin) on a container that
  contains itself (crash reason `lock`).  In particular the branches `crashHeap` (dangling address),
  `scope` (`scopeDeclare` on an empty chain / non-scope cell), `args`, `bind` and `index` (`bindList`
  reading past the end of the live source list) are dead code.  On success the final state is again
  well-formed, extends the initial one (`Ext`, which implies `HeapGrows`) and the results are OK in it.
  `WF` also says that every object cell is strictly sorted by key (`Sorted`, C12), and the state carried by an
  error or a `lock` crash is `WF` as well, so the last section derives the C12 invariant "all object cells of
  all reachable states are sorted" (`keepsWF`, `evalProg_state_sorted`, …).

  The induction on the fuel is over `SafeAll n` (NoCrashDefs.lean); the steps are in NoCrashExpr.lean,
  NoCrashStmt.lean and NoCrashBind.lean.
-/
import SeedProofs.Lemmas.NoCrashExpr
import SeedProofs.Lemmas.NoCrashStmt
import SeedProofs.Lemmas.NoCrashBind
import SeedModel.Run
namespace Seed

theorem safeAll_succ (n : Nat) (ih : SafeAll n) : SafeAll (n + 1) where
  evalExpr := safe_evalExpr ih
  evalOptIndex := safe_evalOptIndex ih
  evalListItems := safe_evalListItems ih
  evalProps := safe_evalProps ih
  evalCall := safe_evalCall ih
  evalToStr := safe_evalToStr ih
  evalToBool := safe_evalToBool ih
  evalToInt := safe_evalToInt ih
  evalToIndex := safe_evalToIndex ih
  interpolate := safe_interpolate ih
  evalBlock := safe_evalBlock ih
  declareAll := safe_declareAll ih
  evalStmts := safe_evalStmts ih
  evalStmt := safe_evalStmt ih
  evalIf := safe_evalIf ih
  evalWhile := safe_evalWhile ih
  evalFor := safe_evalFor ih
  bindNext := safe_bindNext ih
  bindProp := safe_bindProp ih
  bindRangeIndex := safe_bindRangeIndex ih
  bindList := safe_bindList ih
  bindObject := safe_bindObject ih
  bindObjectProp := safe_bindObjectProp ih

/-- G4 for all 23 evaluator functions, at every fuel -/
theorem safeAll (n : Nat) : SafeAll n := by
  induction n with
  | zero => exact safeAll_zero
  | succ n ih => exact safeAll_succ n ih

/-- the whole program: the initial state is well-formed, the outer chain is empty and `evalBlock` pushes the
    global scope holding `print` -/
theorem evalProg_safe (n : Nat) (stmts : List Stmt) : Safe Triv State.init (evalProg n stmts) := by
  unfold evalProg
  apply Safe.bind ((safeAll n).evalBlock State.init [] _ stmts wf_init (fun _ h => by cases h)
    (BindsOK.cons (SValOK.plain (v := .builtin c!"print" .print) trivial) BindsOK.nil))
  intro esc σ hw he _
  cases esc <;> first | exact Safe.errAt | exact Safe.ok_same hw trivial

/-- G4: the only crash a program can end in is `print` of a value that contains itself -/
theorem evalProg_no_crash (n : Nat) (stmts : List Stmt) (w : List Char) (σ : State) (h : evalProg n stmts = .crash w σ) :
    w = c!"lock" :=
  (evalProg_safe n stmts).crash_eq h

/-- a program that ends normally leaves a well-formed heap -/
theorem evalProg_ok_wf (n : Nat) (stmts : List Stmt) (σ : State) (h : evalProg n stmts = .ok () σ) : WF σ :=
  ((evalProg_safe n stmts).ok_inv h).1

/-- the same at the level of `run`: a crashed run reports `lock` -/
theorem run_crashed_lock (n : Nat) (path src : List Char) (h : (run n path src).status = .crashed) :
    (run n path src).stderr = c!"lock" := by
  unfold run at h ⊢
  split
  · rename_i hp; rw [hp] at h; cases h
  · rename_i hp; rw [hp] at h; cases h
  · rename_i stmts hp
    rw [hp] at h
    dsimp only [] at h ⊢
    split
    · rename_i he; rw [he] at h; cases h
    · rename_i he; rw [he] at h; cases h
    · rename_i w σ he
      exact evalProg_no_crash n stmts w σ he
    · rename_i he; rw [he] at h; cases h

/-! ### the per-function statements in the form of the specification of G4 -/

/-- G4 for `evalExpr`, spelled out: no crash but `lock`; on success the state is well-formed, `HeapGrows`-extends
    the initial state, and the value is OK in it -/
theorem evalExpr_no_crash (n : Nat) (σ : State) (sc : List Addr) (e : Expr) (hw : WF σ) (hs : ScOK σ sc) :
    (∀ w σ', evalExpr n σ sc e = .crash w σ' → w = c!"lock") ∧
    (∀ v σ', evalExpr n σ sc e = .ok v σ' → WF σ' ∧ HeapGrows σ σ' ∧ SValOK σ' v) :=
  ⟨fun _ _ h => ((safeAll n).evalExpr σ sc e hw hs).crash_eq h, fun _ _ h => ((safeAll n).evalExpr σ sc e hw hs).ok_inv h⟩

theorem evalStmts_no_crash (n : Nat) (σ : State) (sc : List Addr) (stmts : List Stmt) (hw : WF σ) (hs : ScOK σ sc) :
    (∀ w σ', evalStmts n σ sc stmts = .crash w σ' → w = c!"lock") ∧
    (∀ esc σ', evalStmts n σ sc stmts = .ok esc σ' → WF σ' ∧ HeapGrows σ σ' ∧ EscOK σ' esc) :=
  ⟨fun _ _ h => ((safeAll n).evalStmts σ sc stmts hw hs).crash_eq h, fun _ _ h => ((safeAll n).evalStmts σ sc stmts hw hs).ok_inv h⟩

/-- `bindList` never reads past the end of the live source list -/
theorem bindList_no_index_crash (n : Nat) (σ : State) (sc : List Addr) (names : List (List Char)) (items : List ListItem)
    (collect : Bool) (lhsLoc : Loc) (b : Addr) (decl : Bool) (i lhsLen : Nat) (hw : WF σ) (hs : ScOK σ sc)
    (hlen : i + items.length = lhsLen) (hl : LenOK σ b collect lhsLen) (σ' : State) :
    bindList n σ sc names items collect lhsLoc b decl i lhsLen ≠ .crash c!"index" σ' := by
  intro h
  have := ((safeAll n).bindList σ sc names items collect lhsLoc b decl i lhsLen hw hs hlen hl).crash_eq h
  simp at this

/-! ### C12: every object cell of every reachable state is strictly sorted by key

`WF σ` contains "every object cell of `σ` is `Sorted`" (`WF.sorted`), and `Safe` says that the state carried by
ANY result (`ok`, `err`, `lock` crash) is `WF`.  So from `safeAll` the invariant holds in every state the
evaluator can reach: the hypothesis `WF σ` of every function is discharged by the conclusion of the call that
produced `σ`, starting from `wf_init`. -/

/-- every state a result carries is well-formed (in particular all its object cells are `Sorted`) -/
def StateWF {α : Type} (r : Res α) : Prop := ∀ σ', r.state? = some σ' → WF σ'

theorem Safe.stateWF {α : Type} {P : State → α → Prop} {σ : State} {r : Res α} (h : Safe P σ r) : StateWF r :=
  fun _ hr => h.state_wf hr

theorem StateWF.sorted {α : Type} {r : Res α} (h : StateWF r) {σ' : State} (hr : r.state? = some σ') {a : Addr} {m : ObjMap}
    (hm : σ'.getObj a = some m) : Sorted m := (h σ' hr).sorted hm

/-- at every fuel, each of the 23 evaluator functions, started in a well-formed state (hence: all object cells
    sorted) with the arguments the evaluator itself passes, ends — whether in success, in a reported error or in
    a `lock` crash — in a well-formed state (hence: all object cells sorted) -/
structure KeepsWF (n : Nat) : Prop where
  evalExpr : ∀ σ sc e, WF σ → ScOK σ sc → StateWF (evalExpr n σ sc e)
  evalOptIndex : ∀ σ sc e, WF σ → ScOK σ sc → StateWF (evalOptIndex n σ sc e)
  evalListItems : ∀ σ sc items acc, WF σ → ScOK σ sc → ListOK σ acc → StateWF (evalListItems n σ sc items acc)
  evalProps : ∀ σ sc l props acc, WF σ → ScOK σ sc → ObjOK σ acc → Sorted acc → StateWF (evalProps n σ sc l props acc)
  evalCall : ∀ σ sc f args loc, WF σ → ScOK σ sc → StateWF (evalCall n σ sc f args loc)
  evalToStr : ∀ σ sc d e, WF σ → ScOK σ sc → StateWF (evalToStr n σ sc d e)
  evalToBool : ∀ σ sc d e, WF σ → ScOK σ sc → StateWF (evalToBool n σ sc d e)
  evalToInt : ∀ σ sc d e, WF σ → ScOK σ sc → StateWF (evalToInt n σ sc d e)
  evalToIndex : ∀ σ sc e, WF σ → ScOK σ sc → StateWF (evalToIndex n σ sc e)
  interpolate : ∀ σ sc s slots loc last acc, WF σ → ScOK σ sc → StateWF (interpolate n σ sc s slots loc last acc)
  evalBlock : ∀ σ sc bs stmts, WF σ → ScTags σ sc → BindsOK σ bs → StateWF (evalBlock n σ sc bs stmts)
  declareAll : ∀ σ sc bs, WF σ → ScOK σ sc → BindsOK σ bs → StateWF (declareAll n σ sc bs)
  evalStmts : ∀ σ sc stmts, WF σ → ScOK σ sc → StateWF (evalStmts n σ sc stmts)
  evalStmt : ∀ σ sc st, WF σ → ScOK σ sc → StateWF (evalStmt n σ sc st)
  evalIf : ∀ σ sc bs els, WF σ → ScOK σ sc → StateWF (evalIf n σ sc bs els)
  evalWhile : ∀ σ sc c stmts, WF σ → ScOK σ sc → StateWF (evalWhile n σ sc c stmts)
  evalFor : ∀ σ sc lhs pairs stmts, WF σ → ScOK σ sc → PairsOK σ pairs → StateWF (evalFor n σ sc lhs pairs stmts)
  bindNext : ∀ σ sc names lhs rhs op decl, WF σ → ScOK σ sc → SValOK σ rhs →
    StateWF (bindNext n σ sc names lhs rhs op decl)
  bindProp : ∀ σ a name loc rhs op names vi, WF σ → σ.tagAt a = some .obj → SValOK σ rhs →
    StateWF (bindProp n σ a name loc rhs op names vi)
  bindRangeIndex : ∀ σ sc a start stop loc rhsItems names, WF σ → ScOK σ sc → σ.tagAt a = some .list → ListOK σ rhsItems →
    StateWF (bindRangeIndex n σ sc a start stop loc rhsItems names)
  bindList : ∀ σ sc names items collect lhsLoc b decl i lhsLen, WF σ → ScOK σ sc → i + items.length = lhsLen →
    LenOK σ b collect lhsLen → StateWF (bindList n σ sc names items collect lhsLoc b decl i lhsLen)
  bindObject : ∀ σ sc names props b decl i total remaining, WF σ → ScOK σ sc → σ.tagAt b = some .obj →
    StateWF (bindObject n σ sc names props b decl i total remaining)
  bindObjectProp : ∀ σ sc names lhs b pname ploc decl, WF σ → ScOK σ sc → σ.tagAt b = some .obj →
    StateWF (bindObjectProp n σ sc names lhs b pname ploc decl)

theorem keepsWF (n : Nat) : KeepsWF n where
  evalExpr := fun _ _ _ hw hs => ((safeAll n).evalExpr _ _ _ hw hs).stateWF
  evalOptIndex := fun _ _ _ hw hs => ((safeAll n).evalOptIndex _ _ _ hw hs).stateWF
  evalListItems := fun _ _ _ _ hw hs ha => ((safeAll n).evalListItems _ _ _ _ hw hs ha).stateWF
  evalProps := fun _ _ _ _ _ hw hs ha hso => ((safeAll n).evalProps _ _ _ _ _ hw hs ha hso).stateWF
  evalCall := fun _ _ _ _ _ hw hs => ((safeAll n).evalCall _ _ _ _ _ hw hs).stateWF
  evalToStr := fun _ _ _ _ hw hs => ((safeAll n).evalToStr _ _ _ _ hw hs).stateWF
  evalToBool := fun _ _ _ _ hw hs => ((safeAll n).evalToBool _ _ _ _ hw hs).stateWF
  evalToInt := fun _ _ _ _ hw hs => ((safeAll n).evalToInt _ _ _ _ hw hs).stateWF
  evalToIndex := fun _ _ _ hw hs => ((safeAll n).evalToIndex _ _ _ hw hs).stateWF
  interpolate := fun _ _ _ _ _ _ _ hw hs => ((safeAll n).interpolate _ _ _ _ _ _ _ hw hs).stateWF
  evalBlock := fun _ _ _ _ hw hs hb => ((safeAll n).evalBlock _ _ _ _ hw hs hb).stateWF
  declareAll := fun _ _ _ hw hs hb => ((safeAll n).declareAll _ _ _ hw hs hb).stateWF
  evalStmts := fun _ _ _ hw hs => ((safeAll n).evalStmts _ _ _ hw hs).stateWF
  evalStmt := fun _ _ _ hw hs => ((safeAll n).evalStmt _ _ _ hw hs).stateWF
  evalIf := fun _ _ _ _ hw hs => ((safeAll n).evalIf _ _ _ _ hw hs).stateWF
  evalWhile := fun _ _ _ _ hw hs => ((safeAll n).evalWhile _ _ _ _ hw hs).stateWF
  evalFor := fun _ _ _ _ _ hw hs hp => ((safeAll n).evalFor _ _ _ _ _ hw hs hp).stateWF
  bindNext := fun _ _ _ _ _ _ _ hw hs hr => ((safeAll n).bindNext _ _ _ _ _ _ _ hw hs hr).stateWF
  bindProp := fun _ _ _ _ _ _ _ _ hw ha hr => ((safeAll n).bindProp _ _ _ _ _ _ _ _ hw ha hr).stateWF
  bindRangeIndex := fun _ _ _ _ _ _ _ _ hw hs ha hr => ((safeAll n).bindRangeIndex _ _ _ _ _ _ _ _ hw hs ha hr).stateWF
  bindList := fun _ _ _ _ _ _ _ _ _ _ hw hs hl hk => ((safeAll n).bindList _ _ _ _ _ _ _ _ _ _ hw hs hl hk).stateWF
  bindObject := fun _ _ _ _ _ _ _ _ _ hw hs hb => ((safeAll n).bindObject _ _ _ _ _ _ _ _ _ hw hs hb).stateWF
  bindObjectProp := fun _ _ _ _ _ _ _ _ hw hs hb => ((safeAll n).bindObjectProp _ _ _ _ _ _ _ _ hw hs hb).stateWF

/-- whatever a program ends in (success, reported error, `lock` crash), it ends in a well-formed state -/
theorem evalProg_state_wf (n : Nat) (stmts : List Stmt) : StateWF (evalProg n stmts) := (evalProg_safe n stmts).stateWF

/-- a program that ends normally leaves every object cell strictly sorted by key -/
theorem evalProg_ok_sorted (n : Nat) (stmts : List Stmt) (σ : State) (h : evalProg n stmts = .ok () σ) :
    ∀ a m, σ.getObj a = some m → Sorted m :=
  fun _ _ hm => (evalProg_ok_wf n stmts σ h).sorted hm

/-- a program that ends in a reported error leaves a well-formed heap -/
theorem evalProg_err_wf (n : Nat) (stmts : List Stmt) (e : Err) (σ : State) (h : evalProg n stmts = .err e σ) : WF σ :=
  ((evalProg_safe n stmts).err_inv h).1

/-- … in which every object cell is strictly sorted by key -/
theorem evalProg_err_sorted (n : Nat) (stmts : List Stmt) (e : Err) (σ : State) (h : evalProg n stmts = .err e σ) :
    ∀ a m, σ.getObj a = some m → Sorted m :=
  fun _ _ hm => (evalProg_err_wf n stmts e σ h).sorted hm

/-- all outcomes at once -/
theorem evalProg_state_sorted (n : Nat) (stmts : List Stmt) (σ : State) (h : (evalProg n stmts).state? = some σ) :
    ∀ a m, σ.getObj a = some m → Sorted m :=
  fun _ _ hm => (evalProg_state_wf n stmts).sorted h hm

/-- `evalExpr` keeps all object cells sorted: from a well-formed state, whatever the outcome -/
theorem evalExpr_keeps_sorted (n : Nat) (σ : State) (sc : List Addr) (e : Expr) (hw : WF σ) (hs : ScOK σ sc) (σ' : State)
    (h : (evalExpr n σ sc e).state? = some σ') : WF σ' ∧ ∀ a m, σ'.getObj a = some m → Sorted m :=
  ⟨(keepsWF n).evalExpr σ sc e hw hs σ' h, fun _ _ hm => ((keepsWF n).evalExpr σ sc e hw hs).sorted h hm⟩

/-- `evalStmts` keeps all object cells sorted: from a well-formed state, whatever the outcome -/
theorem evalStmts_keeps_sorted (n : Nat) (σ : State) (sc : List Addr) (stmts : List Stmt) (hw : WF σ) (hs : ScOK σ sc)
    (σ' : State) (h : (evalStmts n σ sc stmts).state? = some σ') : WF σ' ∧ ∀ a m, σ'.getObj a = some m → Sorted m :=
  ⟨(keepsWF n).evalStmts σ sc stmts hw hs σ' h, fun _ _ hm => ((keepsWF n).evalStmts σ sc stmts hw hs).sorted h hm⟩

/-- the statement-by-statement form: the state between two statements of a sequence is well-formed, so the
    invariant holds at every intermediate point of a run, not only at its end -/
theorem evalStmt_keeps_sorted (n : Nat) (σ : State) (sc : List Addr) (st : Stmt) (hw : WF σ) (hs : ScOK σ sc)
    (σ' : State) (h : (evalStmt n σ sc st).state? = some σ') : WF σ' ∧ ∀ a m, σ'.getObj a = some m → Sorted m :=
  ⟨(keepsWF n).evalStmt σ sc st hw hs σ' h, fun _ _ hm => ((keepsWF n).evalStmt σ sc st hw hs).sorted h hm⟩

/-- the object a literal evaluates to is a sorted cell of the new state -/
theorem evalExpr_obj_sorted (n : Nat) (σ : State) (sc : List Addr) (e : Expr) (hw : WF σ) (hs : ScOK σ sc) (a : Addr)
    (s : Option Val) (σ' : State) (h : evalExpr n σ sc e = .ok ⟨.obj a, s⟩ σ') : ∃ m, σ'.getObj a = some m ∧ Sorted m := by
  obtain ⟨hw', _, hv⟩ := ((safeAll n).evalExpr σ sc e hw hs).ok_inv h
  obtain ⟨m, hm⟩ := getObj_of_tag hv.1
  exact ⟨m, hm, hw'.sorted hm⟩

end Seed
