/-
  NoCrash.lean — G4: evaluation never crashes.

  From a well-formed state (`WF`), a usable scope chain (`ScOK`) and OK argument values, none of the 23
  evaluator functions returns `crash`, except through `render` (the `print` builtin) on a container that
  contains itself (crash reason `lock`).  In particular the branches `crashHeap` (dangling address),
  `scope` (`scopeDeclare` on an empty chain / non-scope cell), `args`, `bind` and `index` (`bindList`
  reading past the end of the live source list) are dead code.  On success the final state is again
  well-formed, extends the initial one (`Ext`, which implies `HeapGrows`) and the results are OK in it.

  The induction on the fuel is over `SafeAll n` (NoCrashDefs.lean); the steps are in NoCrashExpr.lean,
  NoCrashStmt.lean and NoCrashBind.lean.
-/
import SeedProofs.Lemmas.NoCrashExpr
import SeedProofs.Lemmas.NoCrashStmt
import SeedProofs.Lemmas.NoCrashBind
import SeedModel.Run
namespace Seed

theorem safeAll_succ (n : Nat) (ih : SafeAll n) : SafeAll (n + 1) where
  evalExpr := safe_evalExpr ih
  evalOptIndex := safe_evalOptIndex ih
  evalListItems := safe_evalListItems ih
  evalProps := safe_evalProps ih
  evalCall := safe_evalCall ih
  evalToStr := safe_evalToStr ih
  evalToBool := safe_evalToBool ih
  evalToInt := safe_evalToInt ih
  evalToIndex := safe_evalToIndex ih
  interpolate := safe_interpolate ih
  evalBlock := safe_evalBlock ih
  declareAll := safe_declareAll ih
  evalStmts := safe_evalStmts ih
  evalStmt := safe_evalStmt ih
  evalIf := safe_evalIf ih
  evalWhile := safe_evalWhile ih
  evalFor := safe_evalFor ih
  bindNext := safe_bindNext ih
  bindProp := safe_bindProp ih
  bindRangeIndex := safe_bindRangeIndex ih
  bindList := safe_bindList ih
  bindObject := safe_bindObject ih
  bindObjectProp := safe_bindObjectProp ih

/-- G4 for all 23 evaluator functions, at every fuel -/
theorem safeAll (n : Nat) : SafeAll n := by
  induction n with
  | zero => exact safeAll_zero
  | succ n ih => exact safeAll_succ n ih

/-- the whole program: the initial state is well-formed, the outer chain is empty and `evalBlock` pushes the
    global scope holding `print` -/
theorem evalProg_safe (n : Nat) (stmts : List Stmt) : Safe Triv State.init (evalProg n stmts) := by
  unfold evalProg
  apply Safe.bind ((safeAll n).evalBlock State.init [] _ stmts wf_init (fun _ h => by cases h)
    (BindsOK.cons (SValOK.plain (v := .builtin c!"print" .print) trivial) BindsOK.nil))
  intro esc σ hw he _
  cases esc <;> first | exact Safe.errAt | exact Safe.ok_same hw trivial

/-- G4: the only crash a program can end in is `print` of a value that contains itself -/
theorem evalProg_no_crash (n : Nat) (stmts : List Stmt) (w : List Char) (σ : State) (h : evalProg n stmts = .crash w σ) :
    w = c!"lock" :=
  (evalProg_safe n stmts).crash_eq h

/-- a program that ends normally leaves a well-formed heap -/
theorem evalProg_ok_wf (n : Nat) (stmts : List Stmt) (σ : State) (h : evalProg n stmts = .ok () σ) : WF σ :=
  ((evalProg_safe n stmts).ok_inv h).1

/-- the same at the level of `run`: a crashed run reports `lock` -/
theorem run_crashed_lock (n : Nat) (path src : List Char) (h : (run n path src).status = .crashed) :
    (run n path src).stderr = c!"lock" := by
  unfold run at h ⊢
  split
  · rename_i hp; rw [hp] at h; cases h
  · rename_i hp; rw [hp] at h; cases h
  · rename_i stmts hp
    rw [hp] at h
    dsimp only [] at h ⊢
    split
    · rename_i he; rw [he] at h; cases h
    · rename_i he; rw [he] at h; cases h
    · rename_i w σ he
      exact evalProg_no_crash n stmts w σ he
    · rename_i he; rw [he] at h; cases h

/-! ### the per-function statements in the form of the specification of G4 -/

/-- G4 for `evalExpr`, spelled out: no crash but `lock`; on success the state is well-formed, `HeapGrows`-extends
    the initial state, and the value is OK in it -/
theorem evalExpr_no_crash (n : Nat) (σ : State) (sc : List Addr) (e : Expr) (hw : WF σ) (hs : ScOK σ sc) :
    (∀ w σ', evalExpr n σ sc e = .crash w σ' → w = c!"lock") ∧
    (∀ v σ', evalExpr n σ sc e = .ok v σ' → WF σ' ∧ HeapGrows σ σ' ∧ SValOK σ' v) :=
  ⟨fun _ _ h => ((safeAll n).evalExpr σ sc e hw hs).crash_eq h, fun _ _ h => ((safeAll n).evalExpr σ sc e hw hs).ok_inv h⟩

theorem evalStmts_no_crash (n : Nat) (σ : State) (sc : List Addr) (stmts : List Stmt) (hw : WF σ) (hs : ScOK σ sc) :
    (∀ w σ', evalStmts n σ sc stmts = .crash w σ' → w = c!"lock") ∧
    (∀ esc σ', evalStmts n σ sc stmts = .ok esc σ' → WF σ' ∧ HeapGrows σ σ' ∧ EscOK σ' esc) :=
  ⟨fun _ _ h => ((safeAll n).evalStmts σ sc stmts hw hs).crash_eq h, fun _ _ h => ((safeAll n).evalStmts σ sc stmts hw hs).ok_inv h⟩

/-- `bindList` never reads past the end of the live source list -/
theorem bindList_no_index_crash (n : Nat) (σ : State) (sc : List Addr) (names : List (List Char)) (items : List ListItem)
    (collect : Bool) (lhsLoc : Loc) (b : Addr) (decl : Bool) (i lhsLen : Nat) (hw : WF σ) (hs : ScOK σ sc)
    (hlen : i + items.length = lhsLen) (hl : LenOK σ b collect lhsLen) (σ' : State) :
    bindList n σ sc names items collect lhsLoc b decl i lhsLen ≠ .crash c!"index" σ' := by
  intro h
  have := ((safeAll n).bindList σ sc names items collect lhsLoc b decl i lhsLen hw hs hlen hl).crash_eq h
  simp at this

end Seed
