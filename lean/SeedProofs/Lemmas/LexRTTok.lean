/-
  Lemmas/LexRTTok.lean — one token: the spelling `renderTok t` of a well-formed token `t`, followed by the end
  of input or by a separator character (blank, `#`, newline, `;`), is lexed by `nextToken` as exactly `t`, and
  the scanner stops right behind the spelling (`nextToken_render`).  Class by class: integer literals
  (`natToChars` is inverted by `decimalValue`), identifiers, string literals (C15 `Seg.piece`), interpolated
  literals (C15 `Seg.render`), and — by evaluation, token by token — every symbol and keyword of the generated
  tables.
-/
import SeedProofs.Lemmas.LexRTDefs
import SeedProofs.Lemmas.C09Tok
import SeedProofs.Lemmas.C09Int
namespace Seed.LexRT
open Seed Seed.C09

/-- what may follow a spelled token: the end of input, or a separator character -/
def EndOK (rest : List Char) : Prop := rest = [] ∨ ∃ e r, rest = e :: r ∧ isSep e

theorem EndOK.nil : EndOK [] := Or.inl rfl
theorem EndOK.blank (r : List Char) : EndOK (' ' :: r) := Or.inr ⟨' ', r, rfl, Or.inl (Or.inl rfl)⟩

theorem EndOK.head {rest : List Char} (h : EndOK rest) {P : Char → Bool} (hP : ∀ e, isSep e → P e = false) :
    ∀ e, rest.head? = some e → P e = false := by
  intro e he
  rcases h with rfl | ⟨e', r, rfl, hs⟩
  · cases he
  · simp only [List.head?_cons, Option.some.injEq] at he
    subst he
    exact hP _ hs

/-! ### integer literals -/

theorem digit_spec : ∀ k, k < 10 →
    isAsciiDigit (Char.ofNat (48 + k)) = true ∧ digitVal (Char.ofNat (48 + k)) = k := by decide

theorem digitChar_digit (n : Nat) : isAsciiDigit (digitChar n) = true :=
  (digit_spec (n % 10) (Nat.mod_lt _ (by decide))).1

theorem digitVal_digitChar (n : Nat) : digitVal (digitChar n) = n % 10 :=
  (digit_spec (n % 10) (Nat.mod_lt _ (by decide))).2

theorem decimalValue_snoc (ds : List Char) (d : Char) :
    decimalValue (ds ++ [d]) = decimalValue ds * 10 + digitVal d := by
  simp [decimalValue, List.foldl_append]

/-- the decimal rendering is a non-empty digit string whose value is the number -/
theorem natToCharsAux_spec : ∀ (fuel n : Nat) (acc : List Char), n < fuel →
    ∃ ds, natToCharsAux fuel n acc = ds ++ acc ∧ ds ≠ [] ∧ (∀ ch ∈ ds, isAsciiDigit ch = true) ∧
      decimalValue ds = n
  | 0, n, _, h => absurd h (Nat.not_lt_zero n)
  | fuel + 1, n, acc, h => by
    unfold natToCharsAux
    split
    · next hlt =>
      refine ⟨[digitChar n], rfl, by simp, ?_, ?_⟩
      · intro ch hc
        rw [List.mem_singleton.mp hc]
        exact digitChar_digit n
      · have := decimalValue_snoc [] (digitChar n)
        simp only [List.nil_append] at this
        have h0 : decimalValue [] = 0 := rfl
        rw [this, digitVal_digitChar, Nat.mod_eq_of_lt hlt, h0]
        omega
    · next hge =>
      obtain ⟨ds, e, _, hd, hv⟩ := natToCharsAux_spec fuel (n / 10) (digitChar n :: acc) (by omega)
      refine ⟨ds ++ [digitChar n], by rw [e]; simp, by simp, ?_, ?_⟩
      · intro ch hc
        rcases List.mem_append.mp hc with hc | hc
        · exact hd ch hc
        · rw [List.mem_singleton.mp hc]
          exact digitChar_digit n
      · rw [decimalValue_snoc, hv, digitVal_digitChar]
        omega

theorem natToChars_spec (n : Nat) :
    natToChars n ≠ [] ∧ (∀ ch ∈ natToChars n, isAsciiDigit ch = true) ∧ decimalValue (natToChars n) = n := by
  obtain ⟨ds, e, hne, hd, hv⟩ := natToCharsAux_spec (n + 1) n [] (Nat.lt_succ_self n)
  rw [List.append_nil] at e
  unfold natToChars
  rw [e]
  exact ⟨hne, hd, hv⟩

theorem nextToken_render_int (n : Int) (h0 : 0 ≤ n) (h1 : n ≤ (i64Max : Int)) (rest : List Char)
    (hr : EndOK rest) (l c : Nat) :
    kind (nextToken ⟨natToChars n.toNat ++ rest, l, c⟩) = .tok (.IntLiteral n) rest := by
  obtain ⟨hne, hd, hv⟩ := natToChars_spec n.toNat
  cases hds : natToChars n.toNat with
  | nil => exact absurd hds hne
  | cons d raw =>
    rw [hds] at hd hv
    have hall : ∀ ch ∈ d :: raw, isIntChar ch = true := fun ch hc => isIntChar_of_digit (hd ch hc)
    have h := nextToken_int d raw rest l c (hd d (List.mem_cons_self ..)) hall
      (hr.head (fun e hs => isIntChar_sep hs))
    rw [filter_digits hd, hv] at h
    have hle : n.toNat ≤ i64Max := by omega
    rw [if_pos hle] at h
    rw [h]
    have : Int.ofNat n.toNat = n := Int.toNat_of_nonneg h0
    rw [this]

example : (0 : Int) ≤ 42 ∧ (42 : Int) ≤ (i64Max : Int) ∧ EndOK c!";x" :=
  ⟨by decide, by decide, Or.inr ⟨';', c!"x", rfl, by decide⟩⟩
example : kind (nextToken ⟨natToChars (42 : Int).toNat ++ c!";x", 2, 5⟩) = .tok (.IntLiteral 42) c!";x" := by decide

/-! ### identifiers -/

theorem start_char {ch : Char} (h : (isAsciiAlpha ch || ch = '_') = true) :
    ¬ isBlank ch ∧ ch ≠ '#' ∧ (ch = '\n' || ch = ';') = false := by
  have hr : (97 ≤ ch.toNat ∧ ch.toNat ≤ 122) ∨ (65 ≤ ch.toNat ∧ ch.toNat ≤ 90) ∨ ch.toNat = 95 := by
    rcases Bool.or_eq_true_iff.mp h with h | h
    · unfold isAsciiAlpha at h
      simp only [Bool.or_eq_true, Bool.and_eq_true, decide_eq_true_eq, Char.reduceToNat] at h
      omega
    · have : ch = '_' := by simpa using h
      subst this
      exact Or.inr (Or.inr rfl)
  have hne : ∀ x : Char, x.toNat < 65 → ch ≠ x := by
    rintro x hx rfl
    omega
  refine ⟨?_, hne '#' (by decide), ?_⟩
  · rintro (hb | hb | hb | hb)
    · exact hne ' ' (by decide) hb
    · exact hne '\t' (by decide) hb
    · exact hne '\r' (by decide) hb
    · omega
  · have a := hne '\n' (by decide)
    have b := hne ';' (by decide)
    simp [a, b]

theorem nextToken_render_ident (ch : Char) (r : List Char) (h : identWF (ch :: r) = true) (rest : List Char)
    (hr : EndOK rest) (l c : Nat) :
    kind (nextToken ⟨(ch :: r) ++ rest, l, c⟩) = .tok (.Ident (ch :: r)) rest := by
  unfold identWF at h
  simp only [Bool.and_eq_true, List.all_eq_true, Option.isNone_iff_eq_none] at h
  obtain ⟨⟨hstart, hall⟩, hkw⟩ := h
  obtain ⟨hb, hh, hnl⟩ := start_char hstart
  have hsk : Scanner.skipWs ⟨(ch :: r) ++ rest, l, c⟩ = ⟨(ch :: r) ++ rest, l, c⟩ := by
    simp only [Scanner.skipWs, List.cons_append]
    exact skipWs_stop hb hh _ _ _
  have hw : ((ch :: r) ++ rest).takeWhile isIdentChar = ch :: r := by
    apply takeWhile_of_boundary
    · intro x hx
      rcases List.mem_cons.mp hx with rfl | hx
      · exact isIdentChar_of_start hstart
      · exact hall x hx
    · exact hr.head (fun e hs => isIdentChar_sep hs)
  rw [kind_of_tokBody, hsk]
  simp only [List.cons_append]
  simp only [List.cons_append] at hw
  unfold tokBody
  simp only [hnl, hstart, Bool.false_eq_true, if_false, if_true, hw, exK, Scanner.advance_rest,
    drop_length_cons_append, keywordOrIdent, hkw]

example : identWF c!"_x9" = true ∧ EndOK c!"#c" := ⟨by decide, Or.inr ⟨'#', c!"c", rfl, by decide⟩⟩

/-! ### string literals -/

theorem nextToken_render_str (cs rest : List Char) (l c : Nat) :
    kind (nextToken ⟨'"' :: (C15.escapeChars cs ++ '"' :: rest), l, c⟩) = .tok (.StrLiteral cs) rest := by
  have h := (C15.Seg.piece false cs).lexStr '"' rest l c
  rw [C15.nextToken_plain_str h]
  simp [kind, C15.strTok, Scanner.advance_rest]

theorem nextToken_render_interp (p0 : List Char) (segs : List (List Char × List Char))
    (hb : ∀ x ∈ segs, C15.Balanced x.1) (rest : List Char) (l c : Nat) :
    kind (nextToken ⟨'$' :: '"' :: (C15.render p0 segs ++ '"' :: rest), l, c⟩) =
      .tok (.InterpStrLiteral (C15.decoded p0 segs) (C15.slotsOf 0 p0 segs)) rest := by
  have h := (C15.Seg.render segs p0 hb).lexStr '"' rest (locAfter l c (some '"')).1 (locAfter l c (some '"')).2
  have hn : (Scanner.mk ('$' :: '"' :: (C15.render p0 segs ++ '"' :: rest)) l c).next =
      ⟨'"' :: (C15.render p0 segs ++ '"' :: rest), (locAfter l c (some '"')).1, (locAfter l c (some '"')).2⟩ := rfl
  rw [← hn] at h
  rw [C15.nextToken_interp_str h]
  simp [kind, C15.strTok, Scanner.advance_rest, Scanner.next_rest]

/-! ### symbols and keywords -/

/-- a token checked by evaluation before a blank and before the end of input is lexed alike before any
    separator, from any position -/
theorem nextToken_render_closed (t : Token)
    (h1 : kind (nextToken ⟨renderTok t ++ [' '], 0, 0⟩) = .tok t [' '])
    (h2 : kind (nextToken ⟨renderTok t ++ [], 0, 0⟩) = .tok t [])
    (rest : List Char) (hr : EndOK rest) (l c : Nat) :
    kind (nextToken ⟨renderTok t ++ rest, l, c⟩) = .tok t rest := by
  rcases hr with rfl | ⟨e, r, rfl, hs⟩
  · rw [← h2]
    exact nextToken_kind_indep rfl
  · exact nextToken_local 0 0 l c h1 (Or.inr ⟨e, r, rfl, hs⟩) (fun h => by cases h)

example : kind (nextToken ⟨renderTok .BangEqualsEquals ++ [' '], 0, 0⟩) = .tok .BangEqualsEquals [' '] ∧
    kind (nextToken ⟨renderTok .BangEqualsEquals ++ [], 0, 0⟩) = .tok .BangEqualsEquals [] := by decide
-- without a separator the next character may be absorbed: `!==` before `=` … is still `!==`, but `=` before `=` is `==`
example : kind (nextToken ⟨renderTok .Equals ++ c!"=", 0, 0⟩) = .tok .EqualsEquals [] := by decide

/-! ### every token -/

theorem interpWF_spec {s : List Char} {slots : List (Nat × Nat)} (h : interpWF s slots = true) :
    C15.decoded (splitSlots s 0 slots).1 (splitSlots s 0 slots).2 = s ∧
    C15.slotsOf 0 (splitSlots s 0 slots).1 (splitSlots s 0 slots).2 = slots ∧
    ∀ x ∈ (splitSlots s 0 slots).2, C15.Balanced x.1 := by
  unfold interpWF at h
  simp only [Bool.and_eq_true, decide_eq_true_eq, List.all_eq_true] at h
  exact ⟨h.1.1, h.1.2, h.2⟩

/-- **one token**: the spelling of a well-formed token, followed by the end of input or a separator, is lexed
    as that token, leaving exactly what follows -/
theorem nextToken_render (t : Token) (h : TokWF t) (rest : List Char) (hr : EndOK rest) (l c : Nat) :
    kind (nextToken ⟨renderTok t ++ rest, l, c⟩) = .tok t rest := by
  unfold TokWF at h
  cases t
  case Ident w =>
    cases w with
    | nil => cases h
    | cons ch r => exact nextToken_render_ident ch r h rest hr l c
  case IntLiteral n =>
    simp only [tokWF, Bool.and_eq_true, decide_eq_true_eq] at h
    exact nextToken_render_int n h.1 h.2 rest hr l c
  case StrLiteral s =>
    have := nextToken_render_str s rest l c
    simpa [renderTok] using this
  case InterpStrLiteral s slots =>
    obtain ⟨e1, e2, hb⟩ := interpWF_spec h
    have := nextToken_render_interp (splitSlots s 0 slots).1 (splitSlots s 0 slots).2 hb rest l c
    rw [e1, e2] at this
    simpa [renderTok] using this
  all_goals exact nextToken_render_closed _ (by decide) (by decide) rest hr l c

example : TokWF (.StrLiteral c!"a\"b") ∧ EndOK c!"\nx" := ⟨by decide, Or.inr ⟨'\n', c!"x", rfl, by decide⟩⟩
example : kind (nextToken ⟨renderTok (.StrLiteral c!"a\"b") ++ c!"\nx", 1, 1⟩) = .tok (.StrLiteral c!"a\"b") c!"\nx" := by
  decide

/-! ### the interpolated literals of C15 are well-formed -/

theorem splitSlots_decoded (segs : List (List Char × List Char)) : ∀ (off : Nat) (p0 : List Char),
    splitSlots (C15.decoded p0 segs) off (C15.slotsOf off p0 segs) = (p0, segs) := by
  induction segs with
  | nil => intro off p0; rfl
  | cons x r ih =>
    obtain ⟨e, p⟩ := x
    intro off p0
    simp only [C15.decoded, C15.slotsOf, splitSlots]
    have e1 : off + p0.length - off = p0.length := by omega
    have e2 : off + p0.length + e.length + 3 - off = p0.length + e.length + 3 := by omega
    have e3 : off + p0.length + e.length + 3 - (off + p0.length) - 3 = e.length := by omega
    rw [e1, e2, e3]
    have d1 : (p0 ++ ('$' :: '{' :: e ++ ['}']) ++ C15.decoded p r).drop (p0.length + e.length + 3) =
        C15.decoded p r := by
      apply List.drop_left'
      simp; omega
    have d2 : (p0 ++ ('$' :: '{' :: e ++ ['}']) ++ C15.decoded p r).take p0.length = p0 := by
      rw [List.append_assoc]
      exact List.take_left' rfl
    have d3 : ((p0 ++ ('$' :: '{' :: e ++ ['}']) ++ C15.decoded p r).drop (p0.length + 2)).take e.length = e := by
      have : p0 ++ ('$' :: '{' :: e ++ ['}']) ++ C15.decoded p r =
          (p0 ++ ['$', '{']) ++ (e ++ ('}' :: C15.decoded p r)) := by simp
      rw [this, List.drop_left' (by simp)]
      exact List.take_left' rfl
    rw [d1, d2, d3, ih]

/-- every interpolated literal of the form C15's `slots_exact` describes — pieces of any text, slots with
    brace-balanced texts — is well-formed -/
theorem tokWF_interp_of_pieces (p0 : List Char) (segs : List (List Char × List Char))
    (hb : ∀ x ∈ segs, C15.Balanced x.1) :
    TokWF (.InterpStrLiteral (C15.decoded p0 segs) (C15.slotsOf 0 p0 segs)) := by
  unfold TokWF tokWF interpWF
  simp only [splitSlots_decoded, decide_true, Bool.true_and, List.all_eq_true, decide_eq_true_eq]
  exact hb

end Seed.LexRT
