/-
  C13NestedSpec.lean — the pure engine `pmatch` succeeds exactly when the value has the shape of the pattern
  (`proj` is defined) and the leaf names are new and pairwise distinct (`FreshBs`); then it has declared
  exactly the leaves of `proj`, in pattern order, and its state is `proj`'s (the source plus the rest cells).
  No fuel, no `Expr`, no scope cell here: induction over the pattern tree only.
-/
import SeedProofs.Lemmas.C13NestedDefs
namespace Seed.C13N
open Seed Gen

/-! ### `PExt` -/

theorem PExt.refl (σ : State) : PExt σ σ := ⟨Nat.le_refl _, fun _ _ => rfl, rfl⟩

theorem PExt.trans {a b c : State} (h1 : PExt a b) (h2 : PExt b c) : PExt a c :=
  ⟨Nat.le_trans h1.1 h2.1, fun x hx => by rw [h2.2.1 x (Nat.lt_of_lt_of_le hx h1.1), h1.2.1 x hx],
   h2.2.2.trans h1.2.2⟩

theorem PExt.alloc (σ : State) (c : Cell) : PExt σ (σ.alloc c).2 :=
  ⟨by rw [State.alloc_size]; omega, fun _ hb => State.alloc_heap_old σ c hb, rfl⟩

theorem PExt.getList {σ σ' : State} {b : Addr} {xs : List SVal} (h : PExt σ σ') (hb : σ.getList b = some xs) :
    σ'.getList b = some xs := by
  rw [getList_eq_some] at hb ⊢
  rw [h.2.1 b (heap_lt_of_some hb)]; exact hb

theorem PExt.getObj {σ σ' : State} {b : Addr} {o : ObjMap} (h : PExt σ σ') (hb : σ.getObj b = some o) :
    σ'.getObj b = some o := by
  rw [getObj_eq_some] at hb ⊢
  rw [h.2.1 b (heap_lt_of_some hb)]; exact hb

theorem PExt.getScope {σ σ' : State} {b : Addr} {m : ScopeMap} (h : PExt σ σ') (hb : σ.getScope b = some m) :
    σ'.getScope b = some m := by
  rw [getScope_eq_some] at hb ⊢
  rw [h.2.1 b (heap_lt_of_some hb)]; exact hb

/-! ### `seqP` -/

theorem seqP_some {q : Option (List Bnd × State)} {g : State → Option (List Bnd × State)} {bs : List Bnd} {σ' : State} :
    seqP q g = some (bs, σ') ↔ ∃ bs1 σ1 bs2, q = some (bs1, σ1) ∧ g σ1 = some (bs2, σ') ∧ bs = bs1 ++ bs2 := by
  unfold seqP
  constructor
  · intro h
    split at h
    · cases h
    · rename_i bs1 σ1
      split at h
      · cases h
      · rename_i bs2 σ2 hg
        cases h
        exact ⟨bs1, σ1, bs2, rfl, hg, rfl⟩
  · rintro ⟨bs1, σ1, bs2, rfl, hg, rfl⟩
    simp only [hg]

theorem seqP_ext {σ : State} {q : Option (List Bnd × State)} {g : State → Option (List Bnd × State)} {bs : List Bnd}
    {σ' : State} (h : seqP q g = some (bs, σ')) (hq : ∀ bs1 σ1, q = some (bs1, σ1) → PExt σ σ1)
    (hg : ∀ σ1 bs2 σ2, g σ1 = some (bs2, σ2) → PExt σ1 σ2) : PExt σ σ' := by
  obtain ⟨bs1, σ1, bs2, e1, e2, _⟩ := seqP_some.mp h
  exact (hq _ _ e1).trans (hg _ _ _ e2)

theorem projName_ext {σ : State} {x : List Char} {l : Loc} {v : SVal} {bs : List Bnd} {σ' : State}
    (h : projName σ x l v = some (bs, σ')) : PExt σ σ' := by
  unfold projName at h
  split at h <;> (cases h; exact PExt.refl _)

/-! ### `proj` only pushes cells -/

mutual
theorem proj_ext : (p : Pat) → ∀ (σ : State) (v : SVal) (bs : List Bnd) (σ' : State),
    proj p σ v = some (bs, σ') → PExt σ σ'
  | .var x l, σ, v, bs, σ', h => by
    rw [proj] at h; exact projName_ext h
  | .list ps c l, σ, v, bs, σ', h => by
    rw [proj] at h
    split at h
    · split at h
      · cases h
      · split at h
        · cases h
        · split at h
          · cases h
          · exact projList_ext ps _ _ _ _ _ _ _ h
    · cases h
  | .obj pr l, σ, v, bs, σ', h => by
    rw [proj] at h
    split at h
    · split at h
      · cases h
      · exact projProps_ext pr _ _ _ _ _ _ _ h
    · cases h
theorem projList_ext : (ps : PatList) → ∀ (c : Bool) (xs : List SVal) (i len : Nat) (σ : State) (bs : List Bnd)
    (σ' : State), projList ps c xs i len σ = some (bs, σ') → PExt σ σ'
  | .nil, c, xs, i, len, σ, bs, σ', h => by
    rw [projList] at h; cases h; exact PExt.refl _
  | .cons p r, c, xs, i, len, σ, bs, σ', h => by
    rw [projList] at h
    split at h
    · exact (PExt.alloc σ _).trans
        (seqP_ext h (fun _ _ e => proj_ext p _ _ _ _ e) (fun _ _ _ e => projList_ext r _ _ _ _ _ _ _ e))
    · split at h
      · cases h
      · exact seqP_ext h (fun _ _ e => proj_ext p _ _ _ _ e) (fun _ _ _ e => projList_ext r _ _ _ _ _ _ _ e)
theorem projProps_ext : (pr : PatProps) → ∀ (o : ObjMap) (i total : Nat) (rem : List (List Char)) (σ : State)
    (bs : List Bnd) (σ' : State), projProps pr o i total rem σ = some (bs, σ') → PExt σ σ'
  | .nil, o, i, total, rem, σ, bs, σ', h => by
    rw [projProps] at h; cases h; exact PExt.refl _
  | .short x l r, o, i, total, rem, σ, bs, σ', h => by
    rw [projProps] at h
    refine seqP_ext h (fun bs1 σ1 e => ?_) (fun _ _ _ e => projProps_ext r _ _ _ _ _ _ _ e)
    split at e
    · cases e; exact PExt.refl _
    · split at e
      · cases e
      · exact projName_ext e
  | .pair k lk p r, o, i, total, rem, σ, bs, σ', h => by
    rw [projProps] at h
    refine seqP_ext h (fun bs1 σ1 e => ?_) (fun _ _ _ e => projProps_ext r _ _ _ _ _ _ _ e)
    split at e
    · cases e
    · exact proj_ext p _ _ _ _ e
  | .rest x l r, o, i, total, rem, σ, bs, σ', h => by
    rw [projProps] at h
    split at h
    · cases h
    · exact (PExt.alloc σ _).trans
        (seqP_ext h (fun _ _ e => projName_ext e) (fun _ _ _ e => projProps_ext r _ _ _ _ _ _ _ e))
end

/-! ### `FreshBs` -/

theorem bndNames_append (bs1 bs2 : List Bnd) : bndNames (bs1 ++ bs2) = bndNames bs2 ++ bndNames bs1 := by
  simp [bndNames]

theorem FreshBs_append (bs1 bs2 : List Bnd) : ∀ (names : List (List Char)) (m : ScopeMap),
    FreshBs names m (bs1 ++ bs2) ↔ FreshBs names m bs1 ∧ FreshBs (bndNames bs1 ++ names) (bs1.reverse ++ m) bs2 := by
  induction bs1 with
  | nil => intro names m; simp [FreshBs, bndNames]
  | cons b r ih =>
    intro names m
    obtain ⟨x, v, l⟩ := b
    simp only [List.cons_append, FreshBs, ih]
    have e1 : bndNames ((x, v, l) :: r) ++ names = bndNames r ++ x :: names := by simp [bndNames]
    have e2 : ((x, v, l) :: r).reverse ++ m = r.reverse ++ (x, v, l) :: m := by simp
    rw [e1, e2]
    constructor
    · rintro ⟨a, b, c, d⟩; exact ⟨⟨a, b, c⟩, d⟩
    · rintro ⟨⟨a, b, c⟩, d⟩; exact ⟨a, b, c, d⟩

theorem scopeLookup_append_none (x : List Char) (m1 m : ScopeMap) :
    scopeLookup x (m1 ++ m) = none ↔ (∀ e ∈ m1, e.1 ≠ x) ∧ scopeLookup x m = none := by
  induction m1 with
  | nil => simp
  | cons e r ih =>
    obtain ⟨k, v, l⟩ := e
    simp only [List.cons_append, scopeLookup]
    by_cases hk : x = k
    · subst hk; simp
    · simp only [hk, if_false, ih, List.mem_cons, forall_eq_or_imp]
      constructor
      · rintro ⟨a, b⟩; exact ⟨⟨fun e => hk e.symm, a⟩, b⟩
      · rintro ⟨⟨_, a⟩, b⟩; exact ⟨a, b⟩

/-- `FreshBs` in one piece: the names are pairwise different, none was bound before in this pattern, none is
    declared in the scope -/
theorem FreshBs_iff (bs : List Bnd) : ∀ (names : List (List Char)) (m : ScopeMap),
    FreshBs names m bs ↔
      (bs.map Prod.fst).Nodup ∧ ∀ x ∈ bs.map Prod.fst, x ∉ names ∧ scopeLookup x m = none := by
  induction bs with
  | nil => intro names m; simp [FreshBs]
  | cons b r ih =>
    intro names m
    obtain ⟨x, v, l⟩ := b
    simp only [FreshBs, ih, List.map_cons, List.nodup_cons, List.mem_cons, forall_eq_or_imp]
    constructor
    · rintro ⟨h1, h2, h3, h4⟩
      refine ⟨⟨fun hx => (h4 x hx).1 (Or.inl rfl), h3⟩, ⟨h1, h2⟩, fun y hy => ?_⟩
      obtain ⟨a, b⟩ := h4 y hy
      refine ⟨fun hn => a (Or.inr hn), ?_⟩
      have hyx : y ≠ x := fun e => a (Or.inl e)
      rw [scopeLookup_cons_ne hyx] at b; exact b
    · rintro ⟨⟨h1, h2⟩, ⟨h3, h4⟩, h5⟩
      refine ⟨h3, h4, h2, fun y hy => ?_⟩
      have hyx : y ≠ x := fun e => h1 (e ▸ hy)
      obtain ⟨a, b⟩ := h5 y hy
      refine ⟨fun hn => ?_, ?_⟩
      · rcases hn with e | e
        · exact hyx e
        · exact a e
      · rw [scopeLookup_cons_ne hyx]; exact b

/-! ### `pmatch` succeeds iff `proj` is defined and the names are fresh -/

/-- `r` is ok exactly when `q` is defined with fresh leaves, and then `r` has declared the leaves of `q` -/
def Agree (r : MRes) (names : List (List Char)) (m : ScopeMap) (q : Option (List Bnd × State)) : Prop :=
  ∀ N M S, r = .ok N M S ↔
    ∃ bs, q = some (bs, S) ∧ FreshBs names m bs ∧ N = bndNames bs ++ names ∧ M = bs.reverse ++ m

theorem Agree.err (loc : Loc) (leaf : Leaf) (m' : ScopeMap) (σ : State) (names : List (List Char)) (m : ScopeMap) :
    Agree (.err loc leaf m' σ) names m none := by
  intro N M S
  constructor
  · intro h; cases h
  · rintro ⟨_, h, _⟩; cases h

theorem Agree.crash (w : List Char) (m' : ScopeMap) (σ : State) (names : List (List Char)) (m : ScopeMap) :
    Agree (.crash w m' σ) names m none := by
  intro N M S
  constructor
  · intro h; cases h
  · rintro ⟨_, h, _⟩; cases h

theorem Agree.ok_nil (names : List (List Char)) (m : ScopeMap) (σ : State) :
    Agree (.ok names m σ) names m (some ([], σ)) := by
  intro N M S
  constructor
  · intro h; cases h; exact ⟨[], rfl, trivial, by simp [bndNames], by simp⟩
  · rintro ⟨bs, h, _, hN, hM⟩
    cases h
    simp only [bndNames, List.map_nil, List.reverse_nil, List.nil_append] at hN hM
    rw [hN, hM]

theorem agree_mName (names : List (List Char)) (m : ScopeMap) (σ : State) (x : List Char) (l : Loc) (v : SVal) :
    Agree (mName names m σ x l v) names m (projName σ x l v) := by
  unfold mName projName
  by_cases hx : x = c!"_"
  · rw [if_pos hx, if_pos hx]; exact Agree.ok_nil names m σ
  · rw [if_neg hx, if_neg hx]
    intro N M S
    by_cases hc : names.contains x = true
    · rw [if_pos hc]
      constructor
      · intro h; cases h
      · rintro ⟨bs, h, hf, _⟩
        cases h
        exact absurd (List.contains_iff_mem.mp hc) hf.1
    · rw [if_neg hc]
      have hnm : x ∉ names := fun h => hc (List.contains_iff_mem.mpr h)
      cases hl : scopeLookup x m with
      | some pr =>
        obtain ⟨w, prev⟩ := pr
        simp only []
        constructor
        · intro h; cases h
        · rintro ⟨bs, h, hf, _⟩
          cases h
          have := hf.2.1
          rw [hl] at this; cases this
      | none =>
        simp only []
        constructor
        · intro h; cases h
          exact ⟨[(x, v, l)], rfl, ⟨hnm, hl, trivial⟩, by simp [bndNames], by simp⟩
        · rintro ⟨bs, h, _, hN, hM⟩
          cases h
          simp only [bndNames, List.map_cons, List.map_nil, List.reverse_cons, List.reverse_nil, List.nil_append,
            List.cons_append] at hN hM
          rw [hN, hM]

theorem Agree.seq {r : MRes} {names : List (List Char)} {m : ScopeMap} {q : Option (List Bnd × State)}
    {f : List (List Char) → ScopeMap → State → MRes} {g : State → Option (List Bnd × State)}
    (h1 : Agree r names m q) (h2 : ∀ n1 m1 σ1, Agree (f n1 m1 σ1) n1 m1 (g σ1)) :
    Agree (r.bind f) names m (seqP q g) := by
  intro N M S
  constructor
  · intro h
    cases r with
    | ok n1 m1 σ1 =>
      simp only [MRes.bind] at h
      obtain ⟨bs1, e1, f1, rfl, rfl⟩ := (h1 n1 m1 σ1).mp rfl
      obtain ⟨bs2, e2, f2, rfl, rfl⟩ := (h2 _ _ σ1 N M S).mp h
      refine ⟨bs1 ++ bs2, seqP_some.mpr ⟨bs1, σ1, bs2, e1, e2, rfl⟩, (FreshBs_append bs1 bs2 names m).mpr ⟨f1, f2⟩, ?_, ?_⟩
      · rw [bndNames_append, List.append_assoc]
      · rw [List.reverse_append, List.append_assoc]
    | err loc leaf m1 σ1 => simp only [MRes.bind] at h; cases h
    | crash w m1 σ1 => simp only [MRes.bind] at h; cases h
  · rintro ⟨bs, e, fr, rfl, rfl⟩
    obtain ⟨bs1, σ1, bs2, e1, e2, rfl⟩ := seqP_some.mp e
    obtain ⟨f1, f2⟩ := (FreshBs_append bs1 bs2 names m).mp fr
    have hr := (h1 (bndNames bs1 ++ names) (bs1.reverse ++ m) σ1).mpr ⟨bs1, e1, f1, rfl, rfl⟩
    subst hr
    simp only [MRes.bind]
    refine (h2 _ _ σ1 _ _ S).mpr ⟨bs2, e2, f2, ?_, ?_⟩
    · rw [bndNames_append, List.append_assoc]
    · rw [List.reverse_append, List.append_assoc]

mutual
theorem pmatch_agree : (p : Pat) → ∀ (names : List (List Char)) (m : ScopeMap) (σ : State) (v : SVal),
    Agree (pmatch p names m σ v) names m (proj p σ v)
  | .var x l, names, m, σ, v => by
    rw [pmatch, proj]; exact agree_mName names m σ x l v
  | .list ps c l, names, m, σ, v => by
    rw [pmatch, proj]
    cases v.v <;> try exact Agree.err _ _ _ _ _ _
    rename_i b
    dsimp only
    cases σ.getList b with
    | none => exact Agree.crash _ _ _ _ _
    | some xs =>
      dsimp only
      by_cases h1 : (c && decide (ps.length - 1 > xs.length)) = true
      · rw [if_pos h1, if_pos h1]; exact Agree.err _ _ _ _ _ _
      · rw [if_neg h1, if_neg h1]
        by_cases h2 : (!c && decide (ps.length ≠ xs.length)) = true
        · rw [if_pos h2, if_pos h2]; exact Agree.err _ _ _ _ _ _
        · rw [if_neg h2, if_neg h2]; exact pmatchList_agree ps _ _ _ _ _ _ _ _
  | .obj pr l, names, m, σ, v => by
    rw [pmatch, proj]
    cases v.v <;> try exact Agree.err _ _ _ _ _ _
    rename_i b
    dsimp only
    cases σ.getObj b with
    | none => exact Agree.crash _ _ _ _ _
    | some o => exact pmatchProps_agree pr _ _ _ _ _ _ _
theorem pmatchList_agree : (ps : PatList) → ∀ (c : Bool) (l : Loc) (xs : List SVal) (i len : Nat)
    (names : List (List Char)) (m : ScopeMap) (σ : State),
    Agree (pmatchList ps c l xs i len names m σ) names m (projList ps c xs i len σ)
  | .nil, c, l, xs, i, len, names, m, σ => by
    rw [pmatchList, projList]; exact Agree.ok_nil names m σ
  | .cons p r, c, l, xs, i, len, names, m, σ => by
    rw [pmatchList, projList]
    by_cases h1 : (c && decide (i = len - 1)) = true
    · rw [if_pos h1, if_pos h1]
      exact Agree.seq (pmatch_agree p _ _ _ _) (fun _ _ _ => pmatchList_agree r _ _ _ _ _ _ _ _)
    · rw [if_neg h1, if_neg h1]
      cases xs[i]? with
      | none => exact Agree.crash _ _ _ _ _
      | some v => exact Agree.seq (pmatch_agree p _ _ _ _) (fun _ _ _ => pmatchList_agree r _ _ _ _ _ _ _ _)
theorem pmatchProps_agree : (pr : PatProps) → ∀ (o : ObjMap) (i total : Nat) (rem : List (List Char))
    (names : List (List Char)) (m : ScopeMap) (σ : State),
    Agree (pmatchProps pr o i total rem names m σ) names m (projProps pr o i total rem σ)
  | .nil, o, i, total, rem, names, m, σ => by
    rw [pmatchProps, projProps]; exact Agree.ok_nil names m σ
  | .short x l r, o, i, total, rem, names, m, σ => by
    rw [pmatchProps, projProps]
    refine Agree.seq ?_ (fun _ _ _ => pmatchProps_agree r _ _ _ _ _ _ _)
    by_cases hx : x = c!"_"
    · rw [if_pos hx, if_pos hx]; exact Agree.ok_nil names m σ
    · rw [if_neg hx, if_neg hx]
      cases objGet x o with
      | none => exact Agree.err _ _ _ _ _ _
      | some v => exact agree_mName names m σ x l v
  | .pair k lk p r, o, i, total, rem, names, m, σ => by
    rw [pmatchProps, projProps]
    refine Agree.seq ?_ (fun _ _ _ => pmatchProps_agree r _ _ _ _ _ _ _)
    cases objGet k o with
    | none => exact Agree.err _ _ _ _ _ _
    | some v => exact pmatch_agree p _ _ _ _
  | .rest x l r, o, i, total, rem, names, m, σ => by
    rw [pmatchProps, projProps]
    by_cases h1 : i ≠ total - 1
    · rw [if_pos h1, if_pos h1]; exact Agree.err _ _ _ _ _ _
    · rw [if_neg h1, if_neg h1]
      exact Agree.seq (agree_mName _ _ _ _ _ _) (fun _ _ _ => pmatchProps_agree r _ _ _ _ _ _ _)
end

/-- a successful `pmatch` only pushed cells -/
theorem pmatch_ok_ext {p : Pat} {names : List (List Char)} {m : ScopeMap} {σ : State} {v : SVal}
    {N : List (List Char)} {M : ScopeMap} {S : State} (h : pmatch p names m σ v = .ok N M S) : PExt σ S := by
  obtain ⟨bs, e, _⟩ := (pmatch_agree p names m σ v N M S).mp h
  exact proj_ext p _ _ _ _ e

theorem mName_ok_state {names : List (List Char)} {m : ScopeMap} {σ : State} {x : List Char} {l : Loc} {v : SVal}
    {N : List (List Char)} {M : ScopeMap} {S : State} (h : mName names m σ x l v = .ok N M S) : S = σ := by
  obtain ⟨bs, e, _⟩ := (agree_mName names m σ x l v N M S).mp h
  unfold projName at e
  split at e <;> (cases e; rfl)

/-! ### reading the leaves back from the scope -/

theorem scopeLookup_append_of_not_mem {x : List Char} {m1 m : ScopeMap} (h : ∀ e ∈ m1, e.1 ≠ x) :
    scopeLookup x (m1 ++ m) = scopeLookup x m := by
  induction m1 with
  | nil => rfl
  | cons e r ih =>
    obtain ⟨k, v, l⟩ := e
    have hk : x ≠ k := fun e => h (k, v, l) List.mem_cons_self e.symm
    simp only [List.cons_append, scopeLookup, hk, if_false]
    exact ih fun e he => h e (List.mem_cons_of_mem _ he)

/-- after a successful bind every leaf name reads as the value (and position) it was bound to -/
theorem FreshBs.lookup {bs : List Bnd} : ∀ {names : List (List Char)} {m : ScopeMap}, FreshBs names m bs →
    ∀ {x : List Char} {v : SVal} {l : Loc}, (x, v, l) ∈ bs → scopeLookup x (bs.reverse ++ m) = some (v, l) := by
  induction bs with
  | nil => intro _ _ _ _ _ _ h; cases h
  | cons b r ih =>
    intro names m hf x v l hm
    obtain ⟨y, w, k⟩ := b
    obtain ⟨_, _, h3⟩ := hf
    rw [List.reverse_cons, List.append_assoc, List.singleton_append]
    rcases List.mem_cons.mp hm with e | e
    · cases e
      have hne : ∀ e ∈ r.reverse, e.1 ≠ x := by
        intro e he hex
        have := ((FreshBs_iff r _ _).mp h3).2 e.1 (List.mem_map_of_mem (List.mem_reverse.mp he))
        exact this.1 (by rw [hex]; exact List.mem_cons_self)
      rw [scopeLookup_append_of_not_mem hne]
      simp [scopeLookup]
    · exact ih h3 e

/-- … and every other name reads as before -/
theorem lookup_other {bs : List Bnd} {m : ScopeMap} {x : List Char} (h : ∀ b ∈ bs, b.1 ≠ x) :
    scopeLookup x (bs.reverse ++ m) = scopeLookup x m :=
  scopeLookup_append_of_not_mem fun e he => h e (List.mem_reverse.mp he)

end Seed.C13N
