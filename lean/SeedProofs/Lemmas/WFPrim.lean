/-
  WFPrim.lean — G4, part 2: from a well-formed state and OK arguments the primitives of Prim.lean (and the
  evaluator's non-recursive helpers `opAssignValue`, `bindNextName`, `validateArgsRes`) never take a
  "would panic" branch, except `render` meeting a container that is being rendered further up (`lock`).
  On success they return OK values in a well-formed extension of the state.
-/
import SeedProofs.Lemmas.WF
namespace Seed

/-! ### the safety predicate on results and its rules -/

/-- the state a result carries (`ok`, `err` and `crash` all carry one; `timeout` does not) -/
def Res.state? {α : Type} : Res α → Option State
  | .ok _ σ => some σ
  | .err _ σ => some σ
  | .crash _ σ => some σ
  | .timeout => none

/-- the trivial post-condition -/
def Triv {α : Type} : State → α → Prop := fun _ _ => True

/-- `r`, computed from `σ`, is not a crash other than `lock`; a successful result is `P` in a
    well-formed extension of `σ`; the state carried by an error or by a `lock` crash is a well-formed
    extension of `σ` too (so `WF` — dangling-free and every object cell `Sorted` — holds in EVERY state a
    result can carry) -/
def Safe {α : Type} (P : State → α → Prop) (σ : State) : Res α → Prop
  | .ok a σ' => WF σ' ∧ Ext σ σ' ∧ P σ' a
  | .err _ σ' => WF σ' ∧ Ext σ σ'
  | .crash w σ' => w = c!"lock" ∧ WF σ' ∧ Ext σ σ'
  | .timeout => True

namespace Safe
variable {α β : Type} {P : State → α → Prop} {Q : State → β → Prop} {σ : State}

theorem ok {a : α} {σ' : State} (hw : WF σ') (he : Ext σ σ') (hp : P σ' a) : Safe P σ (.ok a σ') := ⟨hw, he, hp⟩
theorem ok_same {a : α} (hw : WF σ) (hp : P σ a) : Safe P σ (.ok a σ) := ⟨hw, Ext.refl σ, hp⟩
/-- an error raised in the current (well-formed) state; the `WF` fact is found by `assumption` -/
theorem err {e : Err} (hw : WF σ := by assumption) : Safe P σ (.err e σ : Res α) := ⟨hw, Ext.refl σ⟩
theorem errAt {loc : Loc} {l : Gen.Leaf} (hw : WF σ := by assumption) : Safe P σ (Seed.errAt loc l σ : Res α) :=
  ⟨hw, Ext.refl σ⟩
theorem err_ext {e : Err} {σ' : State} (hw : WF σ') (he : Ext σ σ') : Safe P σ (.err e σ' : Res α) := ⟨hw, he⟩
theorem timeout : Safe P σ (.timeout : Res α) := trivial
theorem lock (hw : WF σ := by assumption) : Safe P σ (.crash c!"lock" σ : Res α) := ⟨rfl, hw, Ext.refl σ⟩

theorem weaken {σ1 : State} {r : Res α} (h : Safe P σ1 r) (he : Ext σ σ1) : Safe P σ r := by
  cases r with
  | ok a σ' => exact ⟨h.1, he.trans h.2.1, h.2.2⟩
  | err e σ' => exact ⟨h.1, he.trans h.2⟩
  | crash w σ' => exact ⟨h.1, h.2.1, he.trans h.2.2⟩
  | timeout => trivial

theorem bind {r : Res α} {f : α → State → Res β} (h : Safe P σ r)
    (hf : ∀ a σ1, WF σ1 → Ext σ σ1 → P σ1 a → Safe Q σ1 (f a σ1)) : Safe Q σ (r.bind f) := by
  cases r with
  | ok a σ1 => exact weaken (hf a σ1 h.1 h.2.1 h.2.2) h.2.1
  | err e σ1 => exact h
  | crash w σ1 => exact h
  | timeout => trivial

theorem map {r : Res α} {f : α → β} (h : Safe P σ r) (hf : ∀ σ' a, P σ' a → Q σ' (f a)) : Safe Q σ (r.map f) := by
  cases r with
  | ok a σ1 => exact ⟨h.1, h.2.1, hf _ _ h.2.2⟩
  | err e σ1 => exact h
  | crash w σ1 => exact h
  | timeout => trivial

theorem mapErr {r : Res α} {f : Err → Err} (h : Safe P σ r) : Safe P σ (r.mapErr f) := by
  cases r <;> exact h

theorem imp {P' : State → α → Prop} {r : Res α} (h : Safe P σ r) (hp : ∀ σ' a, P σ' a → P' σ' a) : Safe P' σ r := by
  cases r with
  | ok a σ1 => exact ⟨h.1, h.2.1, hp _ _ h.2.2⟩
  | err e σ1 => exact h
  | crash w σ1 => exact h
  | timeout => trivial

/-- what `Safe` says about crashes -/
theorem crash_eq {r : Res α} (h : Safe P σ r) {w : List Char} {σ' : State} (hr : r = .crash w σ') : w = c!"lock" := by
  subst hr; exact h.1

/-- what `Safe` says about success (with `HeapGrows`, as in the statement of G4) -/
theorem ok_inv {r : Res α} (h : Safe P σ r) {a : α} {σ' : State} (hr : r = .ok a σ') :
    WF σ' ∧ HeapGrows σ σ' ∧ P σ' a := by
  subst hr; exact ⟨h.1, h.2.1.heapGrows, h.2.2⟩

/-- what `Safe` says about errors: the state at the point of the error is well-formed -/
theorem err_inv {r : Res α} (h : Safe P σ r) {e : Err} {σ' : State} (hr : r = .err e σ') : WF σ' ∧ HeapGrows σ σ' := by
  subst hr; exact ⟨h.1, h.2.heapGrows⟩

/-- what `Safe` says about (lock) crashes: the state is well-formed -/
theorem crash_inv {r : Res α} (h : Safe P σ r) {w : List Char} {σ' : State} (hr : r = .crash w σ') :
    WF σ' ∧ HeapGrows σ σ' := by
  subst hr; exact ⟨h.2.1, h.2.2.heapGrows⟩

/-- whatever the outcome, the state a `Safe` result carries is well-formed -/
theorem state_wf {r : Res α} (h : Safe P σ r) {σ' : State} (hr : r.state? = some σ') : WF σ' := by
  cases r with
  | ok a σ1 => cases hr; exact h.1
  | err e σ1 => cases hr; exact h.1
  | crash w σ1 => cases hr; exact h.2.1
  | timeout => cases hr

/-- … and extends the initial state -/
theorem state_ext {r : Res α} (h : Safe P σ r) {σ' : State} (hr : r.state? = some σ') : Ext σ σ' := by
  cases r with
  | ok a σ1 => cases hr; exact h.2.1
  | err e σ1 => cases hr; exact h.2
  | crash w σ1 => cases hr; exact h.2.2
  | timeout => cases hr

/-- whatever the outcome, every object cell of the state a `Safe` result carries is strictly sorted by key -/
theorem state_sorted {r : Res α} (h : Safe P σ r) {σ' : State} (hr : r.state? = some σ') {a : Addr} {m : ObjMap}
    (hm : σ'.getObj a = some m) : Sorted m := (h.state_wf hr).sorted hm
end Safe

theorem ListOK.head {σ : State} {x : SVal} {xs : List SVal} (h : ListOK σ (x :: xs)) : SValOK σ x := h x List.mem_cons_self
theorem ListOK.tail {σ : State} {x : SVal} {xs : List SVal} (h : ListOK σ (x :: xs)) : ListOK σ xs :=
  fun y hy => h y (List.mem_cons_of_mem _ hy)
theorem ObjOK.head {σ : State} {k : List Char} {x : SVal} {xs : ObjMap} (h : ObjOK σ ((k, x) :: xs)) : SValOK σ x :=
  h (k, x) List.mem_cons_self
theorem ObjOK.tail {σ : State} {kx : List Char × SVal} {xs : ObjMap} (h : ObjOK σ (kx :: xs)) : ObjOK σ xs :=
  fun y hy => h y (List.mem_cons_of_mem _ hy)

/-! ### `==` never meets a dangling address -/

theorem EqRes.prefixPath_ne_bad {p : List Char} {r : EqRes} (h : r ≠ .bad) : r.prefixPath p ≠ .bad := by
  cases r <;> simp_all [EqRes.prefixPath]

theorem eq_no_bad (n : Nat) {σ : State} (hw : WF σ) :
    (∀ a b, ValOK σ a → ValOK σ b → eqVal n σ a b ≠ .bad) ∧
    (∀ i xs ys, ListOK σ xs → ListOK σ ys → eqItems n σ i xs ys ≠ .bad) ∧
    (∀ xs ys, ObjOK σ xs → ObjOK σ ys → eqProps n σ xs ys ≠ .bad) := by
  induction n with
  | zero =>
    refine ⟨?_, ?_, ?_⟩
    · intro a b _ _; unfold eqVal; intro h; cases h
    · intro i xs ys _ _; unfold eqItems; intro h; cases h
    · intro xs ys _ _; unfold eqProps; intro h; cases h
  | succ n ih =>
    obtain ⟨ihV, ihI, ihP⟩ := ih
    refine ⟨?_, ?_, ?_⟩
    · intro a b ha hb
      unfold eqVal
      repeat' first
        | (intro h; cases h; done)
        | exact ihI _ _ _ (hw.list (by assumption)) (hw.list (by assumption))
        | exact ihP _ _ (hw.obj (by assumption)) (hw.obj (by assumption))
        | split
      · rename_i hno
        obtain ⟨xs, hx⟩ := getList_of_tag ha
        obtain ⟨ys, hy⟩ := getList_of_tag hb
        exact absurd trivial (fun _ => hno xs ys hx hy)
      · rename_i hno
        obtain ⟨xs, hx⟩ := getObj_of_tag ha
        obtain ⟨ys, hy⟩ := getObj_of_tag hb
        exact absurd trivial (fun _ => hno xs ys hx hy)
    · intro i xs ys hx hy
      unfold eqItems
      repeat' first
        | (intro h; cases h; done)
        | exact ihI _ _ _ hx.tail hy.tail
        | (apply EqRes.prefixPath_ne_bad; exact ihV _ _ hx.head.1 hy.head.1)
        | split
    · intro xs ys hx hy
      unfold eqProps
      repeat' first
        | (intro h; cases h; done)
        | exact ihP _ _ hx.tail hy
        | (apply EqRes.prefixPath_ne_bad; exact ihV _ _ hx.head.1 (objGet_ok hy (by assumption)).1)
        | split

theorem eqVal_ne_bad (n : Nat) {σ : State} {a b : Val} (hw : WF σ) (ha : ValOK σ a) (hb : ValOK σ b) :
    eqVal n σ a b ≠ .bad := (eq_no_bad n hw).1 a b ha hb

/-! ### `render` never meets a dangling address (it may meet a held lock) -/

theorem render_no_bad (n : Nat) {σ : State} (hw : WF σ) :
    (∀ held v, ValOK σ v → render n σ held v ≠ .bad) ∧
    (∀ held items, ListOK σ items → renderItems n σ held items ≠ .bad) ∧
    (∀ held props, ObjOK σ props → renderProps n σ held props ≠ .bad) := by
  induction n with
  | zero =>
    refine ⟨?_, ?_, ?_⟩
    · intro held v _; unfold render; intro h; cases h
    · intro held xs _; unfold renderItems; intro h; cases h
    · intro held xs _; unfold renderProps; intro h; cases h
  | succ n ih =>
    obtain ⟨ihV, ihI, ihP⟩ := ih
    refine ⟨?_, ?_, ?_⟩
    · intro held v hv
      unfold render
      repeat' first
        | (intro h; cases h; done)
        | exact ihI _ _ (hw.list (by assumption))
        | exact ihP _ _ (hw.obj (by assumption))
        | (exact absurd (by assumption) (getList_ne_none hv))
        | (exact absurd (by assumption) (getObj_ne_none hv))
        | (exact absurd (by assumption) (getFunc_ne_none hv))
        | split
    · intro held xs hx
      unfold renderItems
      repeat' first
        | (intro h; cases h; done)
        | exact ihI _ _ hx.tail
        | exact ihV _ _ hx.head.1
        | split
    · intro held xs hx
      unfold renderProps
      repeat' first
        | (intro h; cases h; done)
        | exact ihP _ _ hx.tail
        | exact ihV _ _ hx.head.1
        | split

theorem render_ne_bad (n : Nat) {σ : State} {held : List Addr} {v : Val} (hw : WF σ) (hv : ValOK σ v) :
    render n σ held v ≠ .bad := (render_no_bad n hw).1 held v hv

/-! ### binary operations -/

theorem arith_safe (op : BinaryOp) (loc : Loc) (a b : Int) {σ : State} (hw : WF σ) : Safe ValOK σ (arith op loc a b σ) := by
  unfold arith
  simp only []
  repeat' first
    | exact Safe.err
    | exact Safe.ok_same hw trivial
    | split

theorem applyBinOp_safe (n : Nat) {σ : State} (op : BinaryOp) (loc : Loc) {a b : Val} (hw : WF σ) (ha : ValOK σ a)
    (hb : ValOK σ b) : Safe ValOK σ (applyBinOp n σ op loc a b) := by
  unfold applyBinOp
  cases op <;> simp only [] <;> (repeat' split) <;>
    first
      | exact Safe.err
      | exact Safe.timeout
      | exact Safe.ok_same hw trivial
      | exact arith_safe _ _ _ _ hw
      | exact absurd (by assumption) (eqVal_ne_bad n hw ha hb)
      | exact Safe.ok (alloc_wf (c := .list _) hw (ListOK.append (hw.list (by assumption)) (hw.list (by assumption))))
          (alloc_ext _ _) (alloc_tag _ _)
      | (rename_i hno
         obtain ⟨xs, hx⟩ := getList_of_tag ha
         obtain ⟨ys, hy⟩ := getList_of_tag hb
         exact absurd trivial (fun _ => hno xs ys hx hy))

theorem opAssignValue_safe (n : Nat) {σ : State} {cur rhs : SVal} (op : Option (BinaryOp × Loc)) (hw : WF σ)
    (hc : SValOK σ cur) (hr : SValOK σ rhs) : Safe SValOK σ (opAssignValue n σ cur rhs op) := by
  unfold opAssignValue
  split
  · exact Safe.ok_same hw hr
  · exact Safe.map (applyBinOp_safe n _ _ hw hc.1 hr.1) (fun _ _ h => SValOK.plain h)

/-! ### builtins -/

theorem assertArgs_none {f : List Char} {e g : Nat} (h : assertArgs f e g = none) : g = e := by
  unfold assertArgs at h
  split at h
  · assumption
  · cases h

theorem callBuiltin_safe (n : Nat) {σ : State} (f : BuiltinId) {this : Option SVal} {args : List SVal} (hw : WF σ)
    (ha : ListOK σ args) : Safe SValOK σ (callBuiltin n σ f this args) := by
  unfold callBuiltin
  cases f <;> simp only [] <;> (repeat' split) <;>
    first
      | exact Safe.err
      | exact Safe.timeout
      | exact Safe.lock
      | exact Safe.ok_same hw (SValOK.plain trivial)
      | exact Safe.ok (print_wf _ hw) (print_ext _ _) (SValOK.plain trivial)
      | exact absurd (by assumption) (render_ne_bad n hw ha.head.1)
      | (have := assertArgs_none (by assumption)
         simp at this)

/-! ### `value_to_pairs` -/

def PairsOK (σ : State) (ps : List (SVal × SVal)) : Prop := ∀ p ∈ ps, SValOK σ p.1 ∧ SValOK σ p.2

theorem PairsOK.mono {σ σ' : State} {ps : List (SVal × SVal)} (h : PairsOK σ ps) (he : Ext σ σ') : PairsOK σ' ps :=
  fun p hp => ⟨(h p hp).1.mono he, (h p hp).2.mono he⟩

theorem mem_enumFrom {α} {k i : Nat} {x : α} {xs : List α} (h : (i, x) ∈ enumFrom k xs) : x ∈ xs := by
  induction xs generalizing k with
  | nil => simp [enumFrom] at h
  | cons y r ih =>
    simp only [enumFrom, List.mem_cons] at h
    rcases h with h | h
    · injection h with h1 h2; subst h2; exact List.mem_cons_self
    · exact List.mem_cons_of_mem _ (ih h)

theorem toPairs_ne_none {σ : State} {v : Val} (hv : ValOK σ v) : toPairs σ v ≠ none := by
  unfold toPairs
  repeat' first
    | (intro h; cases h; done)
    | (exact absurd (by assumption) (getList_ne_none hv))
    | (exact absurd (by assumption) (getObj_ne_none hv))
    | split

theorem toPairs_ok {σ : State} {v : Val} {ps : List (SVal × SVal)} (hw : WF σ) (h : toPairs σ v = some (some ps)) :
    PairsOK σ ps := by
  unfold toPairs at h
  split at h
  · injection h with h; injection h with h; subst h
    intro p hp
    obtain ⟨⟨i, b⟩, _, rfl⟩ := List.mem_map.1 hp
    exact ⟨SValOK.plain trivial, SValOK.plain trivial⟩
  · split at h
    · cases h
    · rename_i items hg
      injection h with h; injection h with h; subst h
      intro p hp
      obtain ⟨⟨i, x⟩, hm, rfl⟩ := List.mem_map.1 hp
      exact ⟨SValOK.plain trivial, hw.list hg x (mem_enumFrom hm)⟩
  · split at h
    · cases h
    · rename_i props hg
      injection h with h; injection h with h; subst h
      intro p hp
      obtain ⟨⟨k, x⟩, hm, rfl⟩ := List.mem_map.1 hp
      exact ⟨SValOK.plain trivial, hw.obj hg (k, x) hm⟩
  · injection h with h; cases h

/-! ### type functions are builtins -/

theorem typeFnLookup_ok {σ : State} {ns name : List Char} {tbl : List (List Char × List Char × List Char × List Char)} {f : Val}
    (h : typeFnLookup ns name tbl = some f) : ValOK σ f := by
  induction tbl with
  | nil => simp [typeFnLookup] at h
  | cons e r ih =>
    obtain ⟨ns', key, bname, rustFn⟩ := e
    unfold typeFnLookup at h
    split at h
    · split at h
      · injection h with h; subst h; trivial
      · cases h
    · exact ih h

/-! ### the evaluator's non-recursive helpers -/

theorem validateArgsRes_safe (n : Nat) (args : List Expr) {σ : State} (hw : WF σ) : Safe Triv σ (validateArgsRes n args σ) := by
  unfold validateArgsRes
  split
  · exact Safe.timeout
  · exact Safe.err
  · exact Safe.ok_same hw trivial

theorem bindNextName_safe (n : Nat) {σ : State} {sc : List Addr} (names : List (List Char)) (name : List Char) (loc : Loc)
    {rhs : SVal} (op : Option (BinaryOp × Loc)) (decl : Bool) (hw : WF σ) (hs : ScOK σ sc) (hr : SValOK σ rhs) :
    Safe Triv σ (bindNextName n σ sc names name loc rhs op decl) := by
  unfold bindNextName
  repeat' first
    | exact Safe.errAt
    | exact Safe.ok_same hw trivial
    | (have h := scopeDeclare_spec hw hr (by assumption); exact Safe.ok h.1 h.2 trivial)
    | (exact absurd (by assumption) (scopeDeclare_ne_bad _ _ _ hs))
    | (have h := scopeAssign_spec hw hr (by assumption); exact Safe.ok h.1 h.2 trivial)
    | (have h := scopeAssign_spec (by assumption) (SValOK.plain (by assumption)) (by assumption)
       exact Safe.ok h.1 h.2 trivial)
    | (apply Safe.bind (applyBinOp_safe n _ _ hw (scopeGet_ok hw (by assumption)).1 hr.1); intro _ _ _ _ _)
    | split
    | (dsimp only [])

end Seed
