/-
  C14Routes2.lean — (3) the `for` route: the first iteration of `for [i, v] in xs { … }` binds `v` to the stored `SVal`
  (value and `src`), so calling the loop variable in the body binds `this` to the object the stored function had been
  read from; stated through `evalFor` and through `evalStmt (.For …)`.
-/
import SeedProofs.Lemmas.C14Routes
namespace Seed.C14R
open Seed Gen

theorem set_set (σ : State) (a : Addr) (c c' : Cell) : (σ.set a c).set a c' = σ.set a c' := by
  simp [State.set]

/-- reading a variable returns the stored value, source included -/
theorem src_var {n : Nat} {σ : State} {sc : List Addr} {x : List Char} {v : SVal} (l : Loc)
    (h : scopeGet σ sc x = some v) : evalExpr (n + 1) σ sc (.mk (.Var x) l) = .ok v σ := by
  rw [evalExpr, h]

/-! ## the target pattern `[i, v]` -/

/-- the pattern `[i, job]` -/
def pairPat (i : List Char) (li : Loc) (job : List Char) (lj lp : Loc) : Expr :=
  .mk (.List [.mk (.mk (.Var i) li) false, .mk (.mk (.Var job) lj) false] false) lp

/-- the scope `[i, job]` bound to `[k, v]` produces from the empty scope: `job ↦ v` — the `SVal` itself — and `i ↦ k`
    unless `i` is `_` -/
def pairScope (i : List Char) (li : Loc) (k : SVal) (job : List Char) (lj : Loc) (v : SVal) : ScopeMap :=
  if i = c!"_" then [(job, v, lj)] else [(job, v, lj), (i, k, li)]

theorem pairScope_job (i : List Char) (li : Loc) (k : SVal) (job : List Char) (lj : Loc) (v : SVal) :
    scopeLookup job (pairScope i li k job lj v) = some (v, lj) := by
  unfold pairScope; split <;> simp [scopeLookup]

/-- **binding `[i, job]` to a two-element list `[k, v]`** (declaration, into an empty innermost scope cell `A`): the
    cell becomes `pairScope`; `job` is bound to `v` itself, source included.  `job ≠ _` (otherwise nothing is bound) and
    `i ≠ job` (otherwise the binding fails: `'job' is bound twice`) are what make `job` name the item. -/
theorem bindNext_pair {σ : State} {A pa : Addr} {k v : SVal} (sc : List Addr) (i : List Char) (li : Loc)
    (job : List Char) (lj lp : Loc) (d : Nat)
    (hpa : σ.getList pa = some [k, v]) (hA : σ.getScope A = some []) (hjob : job ≠ c!"_") (hij : i ≠ job) :
    ∃ names, bindNext (d + 5) σ (A :: sc) [] (pairPat i li job lj lp) (SVal.plain (.list pa)) none true =
      .ok names (σ.set A (.scope (pairScope i li k job lj v))) := by
  have h0 : bindNext (d + 5) σ (A :: sc) [] (pairPat i li job lj lp) (SVal.plain (.list pa)) none true =
      bindList (d + 4) σ (A :: sc) [] [.mk (.mk (.Var i) li) false, .mk (.mk (.Var job) lj) false] false lp pa true 0 2 := by
    rw [pairPat, bindNext]
    simp [SVal.plain, hpa]
  rw [h0, bindList]
  simp only [Bool.false_eq_true, if_false, hpa, Bool.false_and, List.getElem?_cons_zero]
  rw [bindNext_var]
  by_cases hi : i = c!"_"
  · subst hi
    refine ⟨[job], ?_⟩
    rw [bindNextName_underscore]
    simp only [Res.bind]
    rw [bindList]
    simp only [Bool.false_eq_true, if_false, hpa, Bool.false_and, List.getElem?_cons_succ, List.getElem?_cons_zero]
    rw [bindNext_var, bindNextName_declare lj v hjob (by simp) hA (by rfl)]
    simp only [Res.bind]
    rw [bindList]
    simp [pairScope]
  · refine ⟨[job, i], ?_⟩
    rw [bindNextName_declare li k hi (by simp) hA (by rfl)]
    simp only [Res.bind]
    have hA1 : (σ.set A (.scope [(i, k, li)])).getScope A = some [(i, k, li)] := getScope_set_same (getScope_lt hA) _
    have hpa1 : (σ.set A (.scope [(i, k, li)])).getList pa = some [k, v] := by rw [getList_set_scope hA]; exact hpa
    rw [bindList]
    simp only [Bool.false_eq_true, if_false, hpa1, Bool.false_and, List.getElem?_cons_succ, List.getElem?_cons_zero]
    rw [bindNext_var, bindNextName_declare lj v hjob (by simpa using Ne.symm hij) hA1
      (by simp [scopeLookup, Ne.symm hij])]
    simp only [Res.bind]
    rw [bindList, set_set]
    simp [pairScope, hi]

/-- `[i, job]` against the pair list `[0, ⟨who, some a⟩]` (cell 6 of the state below) into the empty scope cell 7 -/
example : ∃ names,
    bindNext 5 ((σr.alloc (.list [SVal.plain (.int 0), ⟨.func 1, some (.obj 2)⟩])).2.alloc (.scope [])).2 [7, 0] []
        (pairPat c!"i" (9, 5) c!"job" (9, 8) (9, 4)) (SVal.plain (.list 6)) none true =
      .ok names (((σr.alloc (.list [SVal.plain (.int 0), ⟨.func 1, some (.obj 2)⟩])).2.alloc (.scope [])).2.set 7
        (.scope [(c!"job", ⟨.func 1, some (.obj 2)⟩, (9, 8)), (c!"i", SVal.plain (.int 0), (9, 5))])) :=
  bindNext_pair (k := SVal.plain (.int 0)) (v := ⟨.func 1, some (.obj 2)⟩) [0] c!"i" (9, 5) c!"job" (9, 8) (9, 4) 0
    (by rfl) (by rfl) (by decide) (by decide)

/-- without `i ≠ job` the binding fails (and `job` names nothing): `[x, x]` is `'x' is bound twice` -/
example : bindNext 5 ((σr.alloc (.list [SVal.plain (.int 0), ⟨.func 1, some (.obj 2)⟩])).2.alloc (.scope [])).2 [7, 0] []
    (pairPat c!"x" (9, 5) c!"x" (9, 8) (9, 4)) (SVal.plain (.list 6)) none true =
      errAt (9, 8) (Leaf.AlreadyInBinding c!"x")
        (((σr.alloc (.list [SVal.plain (.int 0), ⟨.func 1, some (.obj 2)⟩])).2.alloc (.scope [])).2.set 7
          (.scope [(c!"x", SVal.plain (.int 0), (9, 5))])) := by
  with_unfolding_all rfl

/-- and with `job = _` the item is bound to no name at all: the scope holds `i` only -/
example : ∃ names,
    bindNext 5 ((σr.alloc (.list [SVal.plain (.int 0), ⟨.func 1, some (.obj 2)⟩])).2.alloc (.scope [])).2 [7, 0] []
        (pairPat c!"i" (9, 5) c!"_" (9, 8) (9, 4)) (SVal.plain (.list 6)) none true =
      .ok names (((σr.alloc (.list [SVal.plain (.int 0), ⟨.func 1, some (.obj 2)⟩])).2.alloc (.scope [])).2.set 7
        (.scope [(c!"i", SVal.plain (.int 0), (9, 5))])) :=
  ⟨_, by with_unfolding_all rfl⟩

/-! ## the first iteration -/

/-- the state in which the body of the iteration for the pair `(k, v)` starts when the loop is entered from `σ1`: the
    pair list `[k, v]` (cell `σ1.heap.size`), then the iteration's scope cell (`σ1.heap.size + 1`) holding `pairScope` -/
def forEntry (σ1 : State) (i : List Char) (li : Loc) (k : SVal) (job : List Char) (lj : Loc) (v : SVal) : State :=
  ((σ1.alloc (.list [k, v])).2.alloc (.scope [])).2.set (σ1.heap.size + 1) (.scope (pairScope i li k job lj v))

/-- what `evalFor` does with the outcome of an iteration's body -/
def forNext (n : Nat) (sc : List Addr) (lhs : Expr) (r : List (SVal × SVal)) (stmts : List Stmt) (esc : Escape)
    (σ2 : State) : Res Escape :=
  match esc with
  | .none => evalFor n σ2 sc lhs r stmts
  | .brk _ => .ok .none σ2
  | .cont _ => evalFor n σ2 sc lhs r stmts
  | .ret v l => .ok (.ret v l) σ2

theorem forEntry_scope (σ1 : State) (i : List Char) (li : Loc) (k : SVal) (job : List Char) (lj : Loc) (v : SVal) :
    (forEntry σ1 i li k job lj v).getScope (σ1.heap.size + 1) = some (pairScope i li k job lj v) := by
  unfold forEntry
  apply getScope_set_same
  rw [State.alloc_size, State.alloc_size]; exact Nat.lt_succ_self _

/-- in that state the chain `iteration scope :: sc` resolves `job` to `v` — the stored `SVal`, source included -/
theorem forEntry_job (σ1 : State) (sc : List Addr) (i : List Char) (li : Loc) (k : SVal) (job : List Char) (lj : Loc)
    (v : SVal) : scopeGet (forEntry σ1 i li k job lj v) ((σ1.heap.size + 1) :: sc) job = some v :=
  scopeGet_head_hit sc (forEntry_scope σ1 i li k job lj v) (pairScope_job i li k job lj v)

/-- the cells that existed when the loop was entered are unchanged in that state -/
theorem forEntry_old (σ1 : State) (i : List Char) (li : Loc) (k : SVal) (job : List Char) (lj : Loc) (v : SVal)
    {b : Addr} (hb : b < σ1.heap.size) : (forEntry σ1 i li k job lj v).heap[b]? = σ1.heap[b]? := by
  unfold forEntry
  have h1 : b ≠ σ1.heap.size + 1 := fun e => by
    rw [e] at hb; exact absurd hb (Nat.not_lt.mpr (Nat.le_succ _))
  have h2 : b < (σ1.alloc (.list [k, v])).2.heap.size := by
    rw [State.alloc_size]; exact Nat.lt_succ_of_lt hb
  rw [State.heap_set_other _ _ h1, State.alloc_heap_old _ _ h2, State.alloc_heap_old _ _ hb]

theorem forEntry_getFunc {σ1 : State} (i : List Char) (li : Loc) (k : SVal) (job : List Char) (lj : Loc) (v : SVal)
    {fa : Addr} {fr : FuncRec} (h : σ1.getFunc fa = some fr) : (forEntry σ1 i li k job lj v).getFunc fa = some fr := by
  rw [getFunc_eq_some] at h ⊢
  rw [forEntry_old _ _ _ _ _ _ _ (heap_lt_of_some h)]; exact h

/-- **one iteration of `for [i, job] in …`**: for the pair `(k, v)` the body runs in the state `forEntry`, on the chain
    `(σ1.heap.size + 1) :: sc`, where `job` resolves to `v` itself (`forEntry_job`) -/
theorem evalFor_pair_step (d : Nat) (σ1 : State) (sc : List Addr) (i : List Char) (li : Loc) (job : List Char)
    (lj lp : Loc) (k v : SVal) (r : List (SVal × SVal)) (stmts : List Stmt) (hjob : job ≠ c!"_") (hij : i ≠ job) :
    evalFor (d + 8) σ1 sc (pairPat i li job lj lp) ((k, v) :: r) stmts =
      (evalStmts (d + 6) (forEntry σ1 i li k job lj v) ((σ1.heap.size + 1) :: sc) stmts).bind
        (forNext (d + 7) sc (pairPat i li job lj lp) r stmts) := by
  have hsz : (σ1.alloc (.list [k, v])).2.heap.size = σ1.heap.size + 1 := State.alloc_size _ _
  have hpa : ((σ1.alloc (.list [k, v])).2.alloc (.scope [])).2.getList σ1.heap.size = some [k, v] :=
    getList_alloc_old _ (getList_alloc_new σ1 [k, v])
  have hA : ((σ1.alloc (.list [k, v])).2.alloc (.scope [])).2.getScope (σ1.heap.size + 1) = some [] := by
    rw [← hsz]; exact getScope_eq_some.mpr (State.alloc_heap_new _ _)
  obtain ⟨names, hb⟩ := bindNext_pair (k := k) (v := v) sc i li job lj lp d hpa hA hjob hij
  have hstep : evalFor (d + 8) σ1 sc (pairPat i li job lj lp) ((k, v) :: r) stmts =
      (evalBlock (d + 7) (σ1.alloc (.list [k, v])).2 sc
        [(pairPat i li job lj lp, SVal.plain (.list σ1.heap.size))] stmts).bind
        (forNext (d + 7) sc (pairPat i li job lj lp) r stmts) := by
    conv => lhs; unfold evalFor
    rfl
  rw [hstep, evalBlock_succ, hsz, declareAll_cons, hb]
  simp only [Res.bind]
  rw [declareAll_nil]
  rfl

/-- the pairs of a list from index `k` on -/
def pairsFrom (k : Nat) (items : List SVal) : List (SVal × SVal) :=
  (enumFrom k items).map fun (i, x) => (SVal.plain (.int (Int.ofNat i)), x)

theorem listPairs_cons_eq (x : SVal) (xs : List SVal) :
    listPairs (x :: xs) = (SVal.plain (.int 0), x) :: pairsFrom 1 xs := rfl

theorem pairsFrom_snd (k : Nat) (xs : List SVal) : (pairsFrom k xs).map Prod.snd = xs := by
  induction xs generalizing k with
  | nil => rfl
  | cons x r ih =>
    have := ih (k + 1)
    simp only [pairsFrom] at this ⊢
    simp only [enumFrom, List.map_cons, this]

/-- **(3) `for [i, job] in e { body }` over a list of length ≥ 1**: the iterable is evaluated once (`σ → σ1`, a list
    cell `a` holding `x :: xs`); the first iteration runs `body` in the state `forEntry σ1 … x` on the chain
    `(σ1.heap.size + 1) :: sc`, and there `job` resolves to `x` — the stored `SVal`, value AND `src` — whatever source the
    list value `it` itself carries; the remaining iterations walk `pairsFrom 1 xs`, whose values are the stored items
    `xs` unchanged.  Every cell that existed at loop entry is unchanged when the body starts. -/
theorem for_item_keeps_src {n : Nat} {σ σ1 : State} {sc : List Addr} {iter : Expr} {it : SVal} {a : Addr} {x : SVal}
    {xs : List SVal} (i : List Char) (li : Loc) (job : List Char) (lj lp : Loc) (stmts : List Stmt)
    (he : evalExpr n σ sc iter = .ok it σ1) (hit : it.v = .list a) (hl : σ1.getList a = some (x :: xs))
    (hjob : job ≠ c!"_") (hij : i ≠ job) :
    evalStmt (n + 9) σ sc (.For (pairPat i li job lj lp) iter stmts) =
      (evalStmts (n + 6) (forEntry σ1 i li (SVal.plain (.int 0)) job lj x) ((σ1.heap.size + 1) :: sc) stmts).bind
        (forNext (n + 7) sc (pairPat i li job lj lp) (pairsFrom 1 xs) stmts) ∧
    scopeGet (forEntry σ1 i li (SVal.plain (.int 0)) job lj x) ((σ1.heap.size + 1) :: sc) job = some x ∧
    (pairsFrom 1 xs).map Prod.snd = xs ∧
    (∀ b, b < σ1.heap.size → (forEntry σ1 i li (SVal.plain (.int 0)) job lj x).heap[b]? = σ1.heap[b]?) := by
  refine ⟨?_, forEntry_job _ _ _ _ _ _ _ _, pairsFrom_snd 1 xs, fun b hb => forEntry_old _ _ _ _ _ _ _ hb⟩
  have hp : toPairs σ1 it.v = some (some ((SVal.plain (.int 0), x) :: pairsFrom 1 xs)) := by
    rw [hit, (toPairs_list_keeps_items hl).1, listPairs_cons_eq]
  rw [C07.for_enters (n + 8) σ σ1 sc _ iter stmts it _ (evalExpr_fuel_mono he (by simp) (by omega)) hp]
  exact evalFor_pair_step n σ1 sc i li job lj lp _ x _ stmts hjob hij

/-- `for [_, job] in queue { }` in the example state: the body starts with `job ↦ ⟨who, some a⟩` in cell 7 -/
example :
    evalStmt 12 σr [0] (.For (pairPat c!"_" (9, 5) c!"job" (9, 8) (9, 4)) eQ []) =
      (evalStmts 9 (forEntry σr c!"_" (9, 5) (SVal.plain (.int 0)) c!"job" (9, 8) ⟨.func 1, some (.obj 2)⟩) [7, 0] []).bind
        (forNext 10 [0] (pairPat c!"_" (9, 5) c!"job" (9, 8) (9, 4)) (pairsFrom 1 [⟨.func 1, none⟩]) []) ∧
    scopeGet (forEntry σr c!"_" (9, 5) (SVal.plain (.int 0)) c!"job" (9, 8) ⟨.func 1, some (.obj 2)⟩) [7, 0] c!"job" =
      some ⟨.func 1, some (.obj 2)⟩ := by
  have h := for_item_keeps_src c!"_" (9, 5) c!"job" (9, 8) (9, 4) [] (σr_q 2) rfl σr_list (by decide) (by decide)
  exact ⟨h.1, h.2.1⟩

/-! ## calling the loop variable -/

/-- **`for [i, job] in e { job(args); rest… }`**: if the first item of the list is a user function stored with source
    `s`, the call in the first iteration runs its body with `callBindings … s …` — `this` is the object the function
    had been read from before it was put in the list (`s = some t`), or nothing is bound (`s = none`).  Between the
    binding of `job` and the call only the argument list runs; as long as `job` still resolves to the item (`hstill`,
    automatic for arguments without effects) this holds. -/
theorem for_item_call {n : Nat} {σ σ1 σ3 : State} {sc : List Addr} {iter : Expr} {it : SVal} {a fa : Addr}
    {s : Option Val} {xs : List SVal} {args : List ListItem} {argVals : List SVal} {fr : FuncRec}
    (i : List Char) (li : Loc) (job : List Char) (lj lp lj2 lc : Loc) (restBody : List Stmt)
    (he : evalExpr n σ sc iter = .ok it σ1) (hit : it.v = .list a) (hl : σ1.getList a = some (⟨.func fa, s⟩ :: xs))
    (hjob : job ≠ c!"_") (hij : i ≠ job)
    (hargs : evalListItems (n + 2) (forEntry σ1 i li (SVal.plain (.int 0)) job lj ⟨.func fa, s⟩)
      ((σ1.heap.size + 1) :: sc) args [] = .ok argVals σ3)
    (hstill : scopeGet σ3 ((σ1.heap.size + 1) :: sc) job = some ⟨.func fa, s⟩)
    (hfr : σ3.getFunc fa = some fr) (hok : arityOk fr.collect fr.args.length argVals.length = true) :
    evalStmt (n + 9) σ sc
        (.For (pairPat i li job lj lp) iter (.Expr (.mk (.Call (.mk (.Var job) lj2) args) lc) :: restBody)) =
      (((((evalBlock (n + 2) (callPlainVals σ3 fr argVals).2 fr.closure
              (callBindings fr (callPlainVals σ3 fr argVals).1 s lc) fr.stmts).mapErr
            (Err.funcCall fr.name lc)).bind finishCall).bind fun _ σ5 =>
          evalStmts (n + 5) σ5 ((σ1.heap.size + 1) :: sc) restBody).bind
        (forNext (n + 7) sc (pairPat i li job lj lp) (pairsFrom 1 xs)
          (.Expr (.mk (.Call (.mk (.Var job) lj2) args) lc) :: restBody))) ∧
    CalleeThis (callPlainVals σ3 fr argVals).2 fr (callPlainVals σ3 fr argVals).1 s lc := by
  refine ⟨?_, calleeThis _ _ _ _ _⟩
  rw [(for_item_keeps_src i li job lj lp _ he hit hl hjob hij).1, call_stmt_then,
    evalCall_func_ok lc hargs (src_var lj2 hstill) rfl hfr hok]

/-- `for [_, job] in queue { job(); }` in the example state: the first call runs `who` with `this := a` (object 2) -/
example :
    evalStmt 12 σr [0]
        (.For (pairPat c!"_" (9, 5) c!"job" (9, 8) (9, 4)) eQ [.Expr (.mk (.Call (.mk (.Var c!"job") (9, 24)) []) (9, 27))]) =
      (((((evalBlock 5 (forEntry σr c!"_" (9, 5) (SVal.plain (.int 0)) c!"job" (9, 8) ⟨.func 1, some (.obj 2)⟩) [0]
              [(.mk (.Var c!"this") (9, 27), SVal.plain (.obj 2))] frWho.stmts).mapErr
            (Err.funcCall (some c!"who") (9, 27))).bind finishCall).bind fun _ σ5 => evalStmts 8 σ5 [7, 0] []).bind
        (forNext 10 [0] (pairPat c!"_" (9, 5) c!"job" (9, 8) (9, 4)) (pairsFrom 1 [⟨.func 1, none⟩])
          [.Expr (.mk (.Call (.mk (.Var c!"job") (9, 24)) []) (9, 27))])) :=
  (for_item_call (n := 3) (argVals := []) (fr := frWho) c!"_" (9, 5) c!"job" (9, 8) (9, 4) (9, 24) (9, 27) []
    (σr_q 2) rfl σr_list (by decide) (by decide) (evalListItems_nil 4 _ _ [])
    (forEntry_job σr [0] c!"_" (9, 5) _ c!"job" (9, 8) _) (forEntry_getFunc _ _ _ _ _ _ σr_who) (by decide)).1

end Seed.C14R
