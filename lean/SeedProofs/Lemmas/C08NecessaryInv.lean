/-
  C08NecessaryInv.lean — the parser never returns a tree whose printed form has more opening parentheses than
  the tokens it consumed.

  One induction on the fuel over all 22 functions of the mutual block of SeedModel/Parse.lean (`PCAll`), with the
  post-condition calculus `SatR` (the post-condition sees the result and the remaining tokens):

      f n … ts = .ok a rest   →   cost a + ws rest ≤ (cost of what was already accumulated) + ws ts

  where `ws` counts the `(` tokens and `cost` is the number of `(` in the printed form (C08NecessaryCost.lean).
-/
import SeedProofs.Lemmas.C08NecessaryCost
set_option linter.unusedSimpArgs false
set_option linter.unusedVariables false
namespace Seed.C08N
open Seed

/-- a successful result, with the tokens it leaves, satisfies `P` -/
def SatR {α} (P : α → List Span → Prop) : PRes α → Prop
  | .ok a r => P a r
  | _ => True

namespace SatR
theorem ok {α} {P : α → List Span → Prop} {a : α} {r : List Span} (h : P a r) : SatR P (.ok a r) := h
theorem err {α} {P : α → List Span → Prop} {e : PErr} : SatR P (.err e : PRes α) := True.intro
theorem timeout {α} {P : α → List Span → Prop} : SatR P (.timeout : PRes α) := True.intro

theorem bind {α β} {P : α → List Span → Prop} {Q : β → List Span → Prop} {r : PRes α}
    {f : α → List Span → PRes β} (h : SatR P r) (hf : ∀ a ts, P a ts → SatR Q (f a ts)) : SatR Q (r.bind f) := by
  cases r with
  | ok a rest => exact hf a rest h
  | err e => exact True.intro
  | timeout => exact True.intro

theorem map {α β} {Q : β → List Span → Prop} {r : PRes α} {f : α → β} (h : SatR (fun a ts => Q (f a) ts) r) :
    SatR Q (r.map f) := by
  cases r with
  | ok a rest => exact h
  | err e => exact True.intro
  | timeout => exact True.intro

theorem mono {α} {P Q : α → List Span → Prop} {r : PRes α} (h : SatR P r) (hpq : ∀ a ts, P a ts → Q a ts) :
    SatR Q r := by
  cases r with
  | ok a rest => exact hpq a rest h
  | err e => exact True.intro
  | timeout => exact True.intro

theorem elim {α} {P : α → List Span → Prop} {r : PRes α} {a : α} {rest : List Span} (h : SatR P r)
    (hr : r = .ok a rest) : P a rest := by
  subst hr; exact h
end SatR

theorem expectTok_satR (t : Token) (ts : List Span) : SatR (fun _ r => pw t + ws r ≤ ws ts) (expectTok t ts) := by
  unfold expectTok
  split
  · exact True.intro
  · split
    · rename_i h; show pw t + ws _ ≤ ws (_ :: _); rw [ws_cons, h]; exact Nat.le_refl _
    · exact True.intro

theorem expectIdent_satR (ts : List Span) : SatR (fun _ r => ws r ≤ ws ts) (expectIdent ts) := by
  unfold expectIdent
  split
  · exact True.intro
  · split
    · show ws _ ≤ ws (_ :: _); rw [ws_cons]; omega
    · exact True.intro

/-! ### the invariant -/

structure PCAll (n : Nat) : Prop where
  parseAtom : ∀ pre ts, SatR (fun a r => cR 5 a + ws r ≤ cPre pre + ws ts) (parseAtom n pre ts)
  parsePostfix : ∀ l pre ts, SatR (fun a r => cR 5 a + ws r ≤ cPre pre + ws ts) (parsePostfix n l pre ts)
  postfixLoop : ∀ l acc ts, SatR (fun a r => cR 5 a + ws r ≤ cR 5 acc + ws ts) (postfixLoop n l acc ts)
  parseIndexTail : ∀ e ts, SatR (fun a r => cR 5 a + ws r ≤ cE 5 e + ws ts) (parseIndexTail n e ts)
  parseRangeEnd : ∀ e s ts, SatR (fun a r => cR 5 a + ws r ≤ cE 5 e + cO s + ws ts) (parseRangeEnd n e s ts)
  parseTier : ∀ k l pre ts, SatR (fun a r => cR k a + ws r ≤ cPre pre + ws ts) (parseTier n k l pre ts)
  tierLoop : ∀ k l acc ts, SatR (fun a r => cR k a + ws r ≤ cR k acc + ws ts) (tierLoop n k l acc ts)
  parseExpr1 : ∀ s l pre ts, SatR (fun a r => cR 1 a + ws r ≤ cPre pre + ws ts) (parseExpr1 n s l pre ts)
  rangeLoop : ∀ s l acc ts, SatR (fun a r => cR 1 a + ws r ≤ cR 1 acc + ws ts) (rangeLoop n s l acc ts)
  parseExpr : ∀ s ts, SatR (fun e r => cE 1 e + ws r ≤ ws ts) (parseExpr n s ts)
  parseArgs : ∀ acc ts, SatR (fun l r => cItems l + ws r ≤ cItems acc + ws ts) (parseArgs n acc ts)
  parseExprList : ∀ acc ts, SatR (fun p r => cItems p.1 + ws r ≤ cItems acc + ws ts) (parseExprList n acc ts)
  parseParams : ∀ acc ts, SatR (fun p r => cEs p.1 + ws r ≤ cEs acc + ws ts) (parseParams n acc ts)
  parsePropItems : ∀ acc ts, SatR (fun l r => cProps l + ws r ≤ cProps acc + ws ts) (parsePropItems n acc ts)
  parsePropTail : ∀ acc ts, SatR (fun l r => cProps l + ws r ≤ cProps acc + ws ts) (parsePropTail n acc ts)
  parseBlock : ∀ ts, SatR (fun l r => cStmts l + ws r ≤ ws ts) (parseBlock n ts)
  parseStmts : ∀ c acc ts, SatR (fun l r => cStmts l + ws r ≤ cStmts acc + ws ts) (parseStmts n c acc ts)
  parseIf : ∀ ts, SatR (fun p r => cBs p.1 + cOS p.2 + ws r ≤ ws ts) (parseIf n ts)
  parseStmtTail : ∀ lhs ts, SatR (fun s r => cStmt s + ws r ≤ cE 1 lhs + ws ts) (parseStmtTail n lhs ts)
  parseExprStmt : ∀ amb l pre ts, SatR (fun s r => cStmt s + ws r ≤ cPre pre + ws ts) (parseExprStmt n amb l pre ts)
  parseRawStmt : ∀ amb ts, SatR (fun s r => cStmt s + ws r ≤ ws ts) (parseRawStmt n amb ts)
  parseBraceStmt : ∀ amb l ts, SatR (fun s r => cStmt s + ws r ≤ ws ts) (parseBraceStmt n amb l ts)

/-- close an arithmetic side condition from the inequalities collected so far -/
macro "pc_side" : tactic =>
  `(tactic| (
    (try simp only [ws_cons, ws_nil, pw_ParenOpen, cE_mk, cO_none, cO_some, cPre_none, cPre_some, cOS_none, cOS_some,
      cItems_nil, cItems_cons, cItems_reverse, cProps_nil, cProps_pair, cProps_single, cProps_reverse,
      cEs_nil, cEs_cons, cEs_reverse, cStmts_nil, cStmts_cons, cStmts_reverse, cBs_nil, cBs_cons, cB_mk,
      cR_null, cR_bool, cR_int, cR_str, cR_var, cR_list, cR_index, cR_rangeIndex, cR_prop, cR_call, cR_object,
      cR_func, cR_bin_own, cR_range_one,
      cStmt_block, cStmt_expr, cStmt_declare, cStmt_assign, cStmt_opAssign, cStmt_if, cStmt_while, cStmt_for,
      cStmt_break, cStmt_continue, cStmt_func, cStmt_return] at *)
    <;> (try simp only [*, pw_ParenOpen] at *)
    <;> omega))

/-- the post-condition of a sub-call, by the induction hypothesis -/
macro "pc_call " ih:ident : tactic =>
  `(tactic| first
    | exact expectTok_satR _ _ | exact expectIdent_satR _
    | (with_reducible exact PCAll.parseAtom $ih _ _)
    | (with_reducible exact PCAll.parsePostfix $ih _ _ _)
    | (with_reducible exact PCAll.postfixLoop $ih _ _ _)
    | (with_reducible exact PCAll.parseIndexTail $ih _ _)
    | (with_reducible exact PCAll.parseRangeEnd $ih _ _ _)
    | (with_reducible exact PCAll.parseTier $ih _ _ _ _)
    | (with_reducible exact PCAll.tierLoop $ih _ _ _ _)
    | (with_reducible exact PCAll.parseExpr1 $ih _ _ _ _)
    | (with_reducible exact PCAll.rangeLoop $ih _ _ _ _)
    | (with_reducible exact PCAll.parseExpr $ih _ _)
    | (with_reducible exact PCAll.parseArgs $ih _ _)
    | (with_reducible exact PCAll.parseExprList $ih _ _)
    | (with_reducible exact PCAll.parseParams $ih _ _)
    | (with_reducible exact PCAll.parsePropItems $ih _ _)
    | (with_reducible exact PCAll.parsePropTail $ih _ _)
    | (with_reducible exact PCAll.parseBlock $ih _)
    | (with_reducible exact PCAll.parseStmts $ih _ _ _)
    | (with_reducible exact PCAll.parseIf $ih _)
    | (with_reducible exact PCAll.parseStmtTail $ih _ _)
    | (with_reducible exact PCAll.parseExprStmt $ih _ _ _ _)
    | (with_reducible exact PCAll.parseRawStmt $ih _ _)
    | (with_reducible exact PCAll.parseBraceStmt $ih _ _ _))

macro "pc_auto " ih:ident : tactic =>
  `(tactic| repeat' first
    | (with_reducible exact SatR.err)
    | (with_reducible exact SatR.timeout)
    | ((with_reducible apply SatR.bind); (pc_call $ih))
    | ((with_reducible apply SatR.mono); (pc_call $ih))
    | intro _ _ _
    | ((with_reducible apply SatR.ok); pc_side)
    | (show _ ≤ _; pc_side)
    | split)

theorem pcAll_zero : PCAll 0 := by
  constructor <;> intros
  · unfold parseAtom; exact True.intro
  · unfold parsePostfix; exact True.intro
  · unfold postfixLoop; exact True.intro
  · unfold parseIndexTail; exact True.intro
  · unfold parseRangeEnd; exact True.intro
  · unfold parseTier; exact True.intro
  · unfold tierLoop; exact True.intro
  · unfold parseExpr1; exact True.intro
  · unfold rangeLoop; exact True.intro
  · unfold parseExpr; exact True.intro
  · unfold parseArgs; exact True.intro
  · unfold parseExprList; exact True.intro
  · unfold parseParams; exact True.intro
  · unfold parsePropItems; exact True.intro
  · unfold parsePropTail; exact True.intro
  · unfold parseBlock; exact True.intro
  · unfold parseStmts; exact True.intro
  · unfold parseIf; exact True.intro
  · unfold parseStmtTail; exact True.intro
  · unfold parseExprStmt; exact True.intro
  · unfold parseRawStmt; exact True.intro
  · unfold parseBraceStmt; exact True.intro

theorem pcAll_succ (n : Nat) (ih : PCAll n) : PCAll (n + 1) := by
  constructor
  · intro pre ts; (conv => arg 2; unfold parseAtom); pc_auto ih
    -- `( e )`: the pair pays for the one the printer may need around `e` in a tighter slot
    apply SatR.ok
    have := cR_le_one 5 ‹RawExpr›
    pc_side
  · intro l pre ts; (conv => arg 2; unfold parsePostfix); pc_auto ih
  · intro l acc ts; (conv => arg 2; unfold postfixLoop); pc_auto ih
  · intro e ts; (conv => arg 2; unfold parseIndexTail); pc_auto ih
  · intro e s ts; (conv => arg 2; unfold parseRangeEnd); pc_auto ih
  · intro k l pre ts; (conv => arg 2; unfold parseTier)
    split
    · rename_i hk
      refine SatR.mono (ih.parsePostfix l pre ts) ?_
      intro a r h
      rw [cR_high (by simpa [Gen.postfixTier] using hk)]
      exact h
    · refine SatR.bind (ih.parseTier (k + 1) l pre ts) ?_
      intro a r h
      refine SatR.mono (ih.tierLoop k l a r) ?_
      intro b r' h'
      have := cR_mono (Nat.le_add_right k 1) a
      omega
  · intro k l acc ts; (conv => arg 2; unfold tierLoop); pc_auto ih
    -- the operator found at tier `k` has tier `k`: the new node is printed bare in the loop's slot
    have hk := tierOf_of_opAt ‹opAt _ _ = some _›
    subst hk
    pc_side
  · intro s l pre ts; (conv => arg 2; unfold parseExpr1)
    refine SatR.bind (ih.parseTier Gen.firstTier l pre ts) ?_
    intro a r h
    refine SatR.mono (ih.rangeLoop s l a r) ?_
    intro b r' h'
    have := cR_mono (show 1 ≤ Gen.firstTier by decide) a
    omega
  · intro s l acc ts; (conv => arg 2; unfold rangeLoop); pc_auto ih
  · intro s ts
    (conv => arg 2; unfold parseExpr)
    refine SatR.map (SatR.mono (ih.parseExpr1 s (headLoc ts) none ts) ?_)
    intro a r h
    simpa only [cE_mk, cPre_none, Nat.zero_add] using h
  · intro acc ts; (conv => arg 2; unfold parseArgs); pc_auto ih
  · intro acc ts; (conv => arg 2; unfold parseExprList); pc_auto ih
  · intro acc ts; (conv => arg 2; unfold parseParams); pc_auto ih
  · intro acc ts; (conv => arg 2; unfold parsePropItems); pc_auto ih
  · intro acc ts; (conv => arg 2; unfold parsePropTail); pc_auto ih
  · intro ts; (conv => arg 2; unfold parseBlock); pc_auto ih
  · intro c acc ts; (conv => arg 2; unfold parseStmts); pc_auto ih
  · intro ts; (conv => arg 2; unfold parseIf); pc_auto ih
  · intro lhs ts; (conv => arg 2; unfold parseStmtTail); pc_auto ih
  · intro amb l pre ts; (conv => arg 2; unfold parseExprStmt); pc_auto ih
  · intro amb ts; (conv => arg 2; unfold parseRawStmt); pc_auto ih
  · intro amb l ts; (conv => arg 2; unfold parseBraceStmt); pc_auto ih

theorem pcAll (n : Nat) : PCAll n := by
  induction n with
  | zero => exact pcAll_zero
  | succ n ih => exact pcAll_succ n ih

end Seed.C08N
