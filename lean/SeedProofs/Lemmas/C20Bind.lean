/-
  Lemmas/C20Bind.lean — the state produced by `applyBinOp`, and the invariant "no scope cell holds `_`".
-/
import SeedProofs.Lemmas.C04Scope
namespace Seed
namespace BindL
open ScopeL

/-- no scope cell of the heap has an entry for `_` -/
def NoUnderscore (σ : State) : Prop := ∀ a m, σ.getScope a = some m → scopeLookup c!"_" m = none

theorem noUnderscore_init : NoUnderscore State.init := by
  intro a m h
  simp [State.getScope, State.init] at h

/-- allocation keeps the invariant when the new cell is not a scope holding `_` -/
theorem noUnderscore_alloc {σ : State} (h : NoUnderscore σ) (c : Cell)
    (hc : ∀ m, c = .scope m → scopeLookup c!"_" m = none) : NoUnderscore (σ.alloc c).2 := by
  intro a m ha
  by_cases hlt : a < σ.heap.size
  · exact h a m (by rw [← getScope_congr (alloc_old σ c hlt)]; exact ha)
  · by_cases heq : a = σ.heap.size
    · subst heq
      have := getScope_heap.mp ha
      rw [alloc_new] at this
      exact hc m (by cases this; rfl)
    · have := getScope_lt ha
      rw [alloc_size] at this
      rcases Nat.lt_or_eq_of_le (Nat.le_of_lt_succ this) with h1 | h1
      · exact (hlt h1).elim
      · exact (heq h1).elim

/-- overwriting a cell keeps the invariant when the new cell is not a scope holding `_` -/
theorem noUnderscore_set {σ : State} (h : NoUnderscore σ) (a : Addr) (c : Cell)
    (hc : ∀ m, c = .scope m → scopeLookup c!"_" m = none) : NoUnderscore (σ.set a c) := by
  intro b m hb
  by_cases hba : b = a
  · subst hba
    by_cases hlt : b < σ.heap.size
    · have := getScope_heap.mp hb
      rw [set_same σ b c hlt] at this
      exact hc m (by cases this; rfl)
    · rw [set_same_oob σ b c hlt] at hb; exact h b m hb
  · rw [getScope_set_other c hba] at hb; exact h b m hb

theorem scopeGet_underscore {σ : State} (h : NoUnderscore σ) (sc : List Addr) : scopeGet σ sc c!"_" = none := by
  induction sc with
  | nil => rfl
  | cons a r ih =>
    rw [scopeGet_cons]
    cases hm : σ.getScope a with
    | none => rfl
    | some m => simp only [h a m hm]; exact ih

/-- `arith` never changes the state -/
theorem arith_state {op : BinaryOp} {loc : Loc} {a b : Int} {σ σ' : State} {v : Val}
    (h : arith op loc a b σ = .ok v σ') : σ' = σ := by
  unfold arith at h
  cases op <;> simp only at h <;> (repeat' split at h) <;> first | (cases h; rfl) | cases h

/-- a successful binary operation leaves the state alone or allocates one list cell (`+` on lists) -/
theorem applyBinOp_state {fuel : Nat} {σ σ' : State} {op : BinaryOp} {loc : Loc} {a b v : Val}
    (h : applyBinOp fuel σ op loc a b = .ok v σ') : σ' = σ ∨ ∃ xs, σ' = (σ.alloc (.list xs)).2 := by
  unfold applyBinOp at h
  cases op <;> simp only at h
  case Sum =>
    cases a <;> cases b <;> simp only at h <;> try (cases h; done)
    · exact Or.inl (arith_state h)
    · cases h; exact Or.inl rfl
    · rename_i x y
      cases hx : σ.getList x <;> cases hy : σ.getList y <;> simp only [hx, hy] at h <;> try (cases h; done)
      rename_i xs ys
      cases h; exact Or.inr ⟨xs ++ ys, rfl⟩
  all_goals first
    | (cases a <;> cases b <;> simp only at h <;>
        first | (cases h; done) | exact Or.inl (arith_state h) | (cases h; exact Or.inl rfl))
    | (split at h <;> first | (cases h; exact Or.inl rfl) | cases h)

theorem applyBinOp_noUnderscore {fuel : Nat} {σ σ' : State} {op : BinaryOp} {loc : Loc} {a b v : Val}
    (hi : NoUnderscore σ) (h : applyBinOp fuel σ op loc a b = .ok v σ') : NoUnderscore σ' := by
  rcases applyBinOp_state h with rfl | ⟨xs, rfl⟩
  · exact hi
  · exact noUnderscore_alloc hi _ (fun m e => by cases e)

end BindL
end Seed
