/-
  C13NestedDefs.lean — arbitrarily nested *pure declaration patterns* and their two fuel-free readings.

  * `Pat` / `PatList` / `PatProps`: variables and `_`; list patterns `[p₁, …, pₙ]` and (flag `collect`)
    `[p₁, …, pₙ₋₁, pₙ..]` whose last item takes the rest; object patterns made of shorthand names `x`,
    literal-key pairs `"k": p` and `..x` (allowed anywhere in the syntax; the engine rejects it unless last).
    The shorthand `_` discards (nothing is looked up); a pair `"_": p` is an ordinary key.
    Sub-patterns nest without bound.  `toExpr` is the `Expr` the parser produces for such a pattern.
    Computed keys (`[k]: p`, interpolated strings) and index / property targets are *not* in `Pat`: they
    evaluate expressions in the middle of the binding.
  * `pmatch` — the engine without fuel and without the scope cell: it threads the names-in-binding, the
    contents `m` of the innermost scope cell and a state that only ever *allocates* (the rest cells); it is total
    (`MRes`: ok / located error / crash, each with what had been bound when it stopped).
  * `proj` — the declarative reading: `proj p σ v = some (bs, σ')` says that `v` has the shape of `p` on the
    heap of `σ`, `bs` are the leaf bindings in pattern order (name, the stored value itself, position of the
    name) and `σ'` is `σ` with one fresh cell per `..rest` (holding `drop n` / the filtered map) pushed, in
    pattern order.  Names play no role in `proj`; `FreshBs` is the separate "pairwise distinct and new" condition.
-/
import SeedProofs.Lemmas.C13Obj
import SeedProofs.Lemmas.C15Utf8
namespace Seed.C13N
open Seed Gen

/-! ### patterns -/

mutual
inductive Pat where
  | var (x : List Char) (l : Loc)
  | list (items : PatList) (collect : Bool) (l : Loc)
  | obj (props : PatProps) (l : Loc)
inductive PatList where
  | nil
  | cons (p : Pat) (r : PatList)
inductive PatProps where
  | nil
  | short (x : List Char) (l : Loc) (r : PatProps)
  | pair (key : List Char) (lk : Loc) (p : Pat) (r : PatProps)
  | rest (x : List Char) (l : Loc) (r : PatProps)
end

def PatList.length : PatList → Nat
  | .nil => 0
  | .cons _ r => r.length + 1

def PatProps.length : PatProps → Nat
  | .nil => 0
  | .short _ _ r => r.length + 1
  | .pair _ _ _ r => r.length + 1
  | .rest _ _ r => r.length + 1

mutual
def Pat.toExpr : Pat → Expr
  | .var x l => .mk (.Var x) l
  | .list ps c l => .mk (.List ps.toItems c) l
  | .obj pr l => .mk (.Object pr.toProps) l
def PatList.toItems : PatList → List ListItem
  | .nil => []
  | .cons p r => .mk p.toExpr false :: r.toItems
def PatProps.toProps : PatProps → List PropItem
  | .nil => []
  | .short x l r => .Single (.mk (.Var x) l) false false :: r.toProps
  | .pair k lk p r => .Pair (.mk (.Str k none) lk) p.toExpr :: r.toProps
  | .rest x l r => .Single (.mk (.Var x) l) false true :: r.toProps
end

-- fuel that suffices for the engine on this pattern (additive, not tight)
mutual
def Pat.size : Pat → Nat
  | .var _ _ => 1
  | .list ps _ _ => ps.size + 1
  | .obj pr _ => pr.size + 1
def PatList.size : PatList → Nat
  | .nil => 1
  | .cons p r => p.size + r.size + 1
def PatProps.size : PatProps → Nat
  | .nil => 1
  | .short _ _ r => r.size + 3
  | .pair _ _ p r => p.size + r.size + 2
  | .rest _ _ r => r.size + 1
end

theorem PatList.toItems_length : (ps : PatList) → ps.toItems.length = ps.length
  | .nil => by simp [PatList.toItems, PatList.length]
  | .cons p r => by simp [PatList.toItems, PatList.length, PatList.toItems_length r]

theorem PatProps.toProps_length : (pr : PatProps) → pr.toProps.length = pr.length
  | .nil => by simp [PatProps.toProps, PatProps.length]
  | .short x l r => by simp [PatProps.toProps, PatProps.length, PatProps.toProps_length r]
  | .pair k lk p r => by simp [PatProps.toProps, PatProps.length, PatProps.toProps_length r]
  | .rest x l r => by simp [PatProps.toProps, PatProps.length, PatProps.toProps_length r]

/-! ### the engine without fuel and without the scope cell -/

/-- outcome of the pure engine: the names-in-binding (on success), the contents of the innermost scope cell and the
    state apart from that cell, as they were when it stopped -/
inductive MRes where
  | ok (names : List (List Char)) (m : ScopeMap) (σ : State)
  | err (loc : Loc) (leaf : Leaf) (m : ScopeMap) (σ : State)
  | crash (why : List Char) (m : ScopeMap) (σ : State)

def MRes.bind (r : MRes) (f : List (List Char) → ScopeMap → State → MRes) : MRes :=
  match r with
  | .ok names m σ => f names m σ
  | .err loc leaf m σ => .err loc leaf m σ
  | .crash w m σ => .crash w m σ

/-- back to a result of the evaluator: the scope contents are written into the scope cell `a` -/
def MRes.toRes (a : Addr) : MRes → Res (List (List Char))
  | .ok names m σ => .ok names (σ.set a (.scope m))
  | .err loc leaf m σ => errAt loc leaf (σ.set a (.scope m))
  | .crash w m σ => .crash w (σ.set a (.scope m))

def MRes.state : MRes → State
  | .ok _ _ σ => σ
  | .err _ _ _ σ => σ
  | .crash _ _ σ => σ

/-- declaring one name: `_` binds nothing; a name may appear once per pattern and must be new in the scope -/
def mName (names : List (List Char)) (m : ScopeMap) (σ : State) (x : List Char) (l : Loc) (v : SVal) : MRes :=
  if x = c!"_" then .ok names m σ
  else if names.contains x then .err l (Leaf.AlreadyInBinding x) m σ
  else
    match scopeLookup x m with
    | some (_, prev) => .err l (Leaf.AlreadyInScope x prev.1 prev.2) m σ
    | none => .ok (x :: names) ((x, v, l) :: m) σ

mutual
def pmatch : Pat → List (List Char) → ScopeMap → State → SVal → MRes
  | .var x l, names, m, σ, v => mName names m σ x l v
  | .list ps c l, names, m, σ, v =>
    match v.v with
    | .list b =>
      match σ.getList b with
      | none => .crash c!"heap" m σ
      | some xs =>
        if c && ps.length - 1 > xs.length then .err l (Leaf.ListCollectTooFew ps.length xs.length) m σ
        else if !c && ps.length ≠ xs.length then .err l (Leaf.ListDestructureItemMismatch ps.length xs.length) m σ
        else pmatchList ps c l xs 0 ps.length names m σ
    | w => .err l (Leaf.ListDestructureOnNonList w.kind) m σ
  | .obj pr l, names, m, σ, v =>
    match v.v with
    | .obj b =>
      match σ.getObj b with
      | none => .crash c!"heap" m σ
      | some o => pmatchProps pr o 0 pr.length (o.map Prod.fst) names m σ
    | w => .err l (Leaf.ObjectDestructureOnNonObject w.kind) m σ
/-- the item loop over the *contents* `xs` of the source list; item `len - 1` of a collecting pattern is matched
    against a fresh list holding `xs.drop (len - 1)` -/
def pmatchList : PatList → Bool → Loc → List SVal → Nat → Nat → List (List Char) → ScopeMap → State → MRes
  | .nil, _, _, _, _, _, names, m, σ => .ok names m σ
  | .cons p r, c, l, xs, i, len, names, m, σ =>
    if c && i = len - 1 then
      (pmatch p names m (σ.alloc (.list (xs.drop (len - 1)))).2 (SVal.plain (.list σ.heap.size))).bind
        fun names' m' σ' => pmatchList r c l xs (i + 1) len names' m' σ'
    else
      match xs[i]? with
      | none => .crash c!"index" m σ
      | some v => (pmatch p names m σ v).bind fun names' m' σ' => pmatchList r c l xs (i + 1) len names' m' σ'
/-- the property loop over the *contents* `o` of the source object; `rem` are the keys not named so far -/
def pmatchProps : PatProps → ObjMap → Nat → Nat → List (List Char) → List (List Char) → ScopeMap → State → MRes
  | .nil, _, _, _, _, names, m, σ => .ok names m σ
  | .short x l r, o, i, total, rem, names, m, σ =>
    MRes.bind
      (if x = c!"_" then MRes.ok names m σ
       else
        match objGet x o with
        | none => MRes.err l (Leaf.PropNotFound x) m σ
        | some v => mName names m σ x l v)
      fun names' m' σ' => pmatchProps r o (i + 1) total (rem.filter fun k => k ≠ x) names' m' σ'
  | .pair k lk p r, o, i, total, rem, names, m, σ =>
    MRes.bind
      (match objGet k o with
       | none => MRes.err lk (Leaf.PropNotFound k) m σ
       | some v => pmatch p names m σ v)
      fun names' m' σ' => pmatchProps r o (i + 1) total (rem.filter fun k' => k' ≠ k) names' m' σ'
  | .rest x l r, o, i, total, rem, names, m, σ =>
    if i ≠ total - 1 then .err l Leaf.ObjectCollectIsNotLast m σ
    else
      (mName names m (σ.alloc (.obj (o.filter fun kv => rem.contains kv.1))).2 x l (SVal.plain (.obj σ.heap.size))).bind
        fun names' m' σ' => pmatchProps r o i total rem names' m' σ'
end

/-! ### the declarative reading -/

/-- a leaf binding: name, the value bound (the stored value itself, provenance included), position of the name -/
abbrev Bnd := List Char × SVal × Loc

/-- run `q`, then `g` on the state `q` left, and concatenate the bindings -/
def seqP (q : Option (List Bnd × State)) (g : State → Option (List Bnd × State)) : Option (List Bnd × State) :=
  match q with
  | none => none
  | some (bs1, σ1) =>
    match g σ1 with
    | none => none
    | some (bs2, σ2) => some (bs1 ++ bs2, σ2)

/-- a name leaf -/
def projName (σ : State) (x : List Char) (l : Loc) (v : SVal) : Option (List Bnd × State) :=
  if x = c!"_" then some ([], σ) else some ([(x, v, l)], σ)

mutual
def proj : Pat → State → SVal → Option (List Bnd × State)
  | .var x l, σ, v => projName σ x l v
  | .list ps c _, σ, v =>
    match v.v with
    | .list b =>
      match σ.getList b with
      | none => none
      | some xs =>
        if c && ps.length - 1 > xs.length then none
        else if !c && ps.length ≠ xs.length then none
        else projList ps c xs 0 ps.length σ
    | _ => none
  | .obj pr _, σ, v =>
    match v.v with
    | .obj b =>
      match σ.getObj b with
      | none => none
      | some o => projProps pr o 0 pr.length (o.map Prod.fst) σ
    | _ => none
def projList : PatList → Bool → List SVal → Nat → Nat → State → Option (List Bnd × State)
  | .nil, _, _, _, _, σ => some ([], σ)
  | .cons p r, c, xs, i, len, σ =>
    if c && i = len - 1 then
      seqP (proj p (σ.alloc (.list (xs.drop (len - 1)))).2 (SVal.plain (.list σ.heap.size)))
        fun σ' => projList r c xs (i + 1) len σ'
    else
      match xs[i]? with
      | none => none
      | some v => seqP (proj p σ v) fun σ' => projList r c xs (i + 1) len σ'
def projProps : PatProps → ObjMap → Nat → Nat → List (List Char) → State → Option (List Bnd × State)
  | .nil, _, _, _, _, σ => some ([], σ)
  | .short x l r, o, i, total, rem, σ =>
    seqP (if x = c!"_" then some ([], σ)
          else
            match objGet x o with
            | none => none
            | some v => projName σ x l v)
      fun σ' => projProps r o (i + 1) total (rem.filter fun k => k ≠ x) σ'
  | .pair k _ p r, o, i, total, rem, σ =>
    seqP (match objGet k o with
          | none => none
          | some v => proj p σ v)
      fun σ' => projProps r o (i + 1) total (rem.filter fun k' => k' ≠ k) σ'
  | .rest x l r, o, i, total, rem, σ =>
    if i ≠ total - 1 then none
    else
      seqP (projName (σ.alloc (.obj (o.filter fun kv => rem.contains kv.1))).2 x l (SVal.plain (.obj σ.heap.size)))
        fun σ' => projProps r o i total rem σ'
end

/-- the value has the shape of the pattern -/
def shapeOK (p : Pat) (σ : State) (v : SVal) : Prop := (proj p σ v).isSome = true

/-- the bindings are new: each name differs from the names bound before it in this pattern (`names` and the
    earlier leaves) and is not yet declared in the scope (`m`) -/
def FreshBs (names : List (List Char)) (m : ScopeMap) : List Bnd → Prop
  | [] => True
  | (x, v, l) :: r => x ∉ names ∧ scopeLookup x m = none ∧ FreshBs (x :: names) ((x, v, l) :: m) r

/-- names of the bindings, newest first (the order of the engine's names-in-binding list) -/
def bndNames (bs : List Bnd) : List (List Char) := (bs.map Prod.fst).reverse

/-- `σ'` is `σ` with cells pushed (nothing else differs) -/
def PExt (σ σ' : State) : Prop :=
  σ.heap.size ≤ σ'.heap.size ∧ (∀ b, b < σ.heap.size → σ'.heap[b]? = σ.heap[b]?) ∧ σ'.out = σ.out

end Seed.C13N
