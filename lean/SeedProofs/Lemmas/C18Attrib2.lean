/-
  Lemmas/C18Attrib2.lean — attribution on SOURCE TEXT.

  `node_pos` (C18NodePos.lean) says every stored position is the start of SOME token.  Here: WHICH token, for the
  positions that Lemmas/C18Attrib.lean shows the diagnostics of binary operations, op-assignments and stray jumps to
  carry (`node_kw`, one more induction over the 22 parser functions):

    * `opLoc` of `.BinaryOp op …`    is the start of a token `binTok op`     (the operator: `+` for `Sum`, …)
    * `opLoc` of `.OpAssign _ op …`  is the start of a token `assignTok op`  (`+=` for `Sum`, …)
    * the position of `.Break` / `.Continue` / `.Return` is the start of a `break` / `continue` / `return` token
    * `nameLoc` of `.Func name …`    is the start of the token `Ident name`

  and, through the lexer facts of Scan.lean, such a token start is `posOf src i` for the offset `i` of the token's first
  character (`TokIs`).  Combined with C18Attrib.lean: the source-level forms of (1), (2), (4) at the end, and
  whole-pipeline runs (`Seed.run`) of `a + b + c` chains and of a `break` inside a called function.
-/
import SeedProofs.Lemmas.C18Attrib
namespace Seed.C18A
open Seed Gen

/-! ## the token that spells an operator -/

/-- the token of a binary operator (the inverse of the table `Gen.binOps`) -/
def binTok : BinaryOp → Token
  | .Sum => .Sum | .Sub => .Sub | .Mul => .Mul | .Div => .Div | .Mod => .Mod | .And => .AmpAmp | .Or => .PipePipe
  | .Eq => .EqualsEquals | .Ne => .BangEquals | .Gt => .GreaterThan | .Gte => .GreaterThanEquals | .Lt => .LessThan
  | .Lte => .LessThanEquals | .RefEq => .EqualsEqualsEquals | .RefNe => .BangEqualsEquals

/-- the token of an op-assignment (the inverse of `Gen.assignOps`; only the five arithmetic operators have one) -/
def assignTok : BinaryOp → Token
  | .Sum => .SumEquals | .Sub => .SubEquals | .Mul => .MulEquals | .Div => .DivEquals | .Mod => .ModEquals
  | _ => .Equals

theorem opAt_tok {k : Nat} {t : Token} {op : BinaryOp} (h : opAt k t = some op) : t = binTok op := by
  unfold opAt at h
  cases t <;> simp [lookupAssoc, Gen.binOps] at h <;> (obtain ⟨_, rfl⟩ := h; rfl)

theorem assignOp_tok {t : Token} {op : BinaryOp} (h : assignOpOf t = some op) : t = assignTok op := by
  unfold assignOpOf at h
  cases t <;> simp [lookupAssoc, Gen.assignOps] at h <;> (subst h; rfl)

/-- the tables are read in both directions: every operator has its token, at its tier -/
example : ∀ op : BinaryOp, ∃ k, opAt k (binTok op) = some op := by
  intro op; cases op <;> first | exact ⟨2, rfl⟩ | exact ⟨3, rfl⟩ | exact ⟨4, rfl⟩

/-! ## the predicate -/

/-- `l` is the start position of a token of `T` that satisfies `P` -/
def TokAt (T : List Span) (P : Token → Prop) (l : Loc) : Prop := ∃ sp, sp ∈ T ∧ sp.start = l ∧ P sp.tok

theorem TokAt.locOK {T : List Span} {P : Token → Prop} {l : Loc} (h : TokAt T P l) : LocOK T l := by
  obtain ⟨sp, hm, hs, _⟩ := h; exact ⟨sp, hm, hs⟩

theorem tokAt_head {T : List Span} {P : Token → Prop} {sp : Span} {r : List Span} (h : Suf T (sp :: r)) (hp : P sp.tok) :
    TokAt T P sp.start := by
  obtain ⟨p, hp'⟩ := h
  exact ⟨sp, by simp [← hp'], rfl, hp⟩

mutual
/-- operator and keyword positions stored in the (raw) expression sit at the tokens that spell them -/
inductive RawKwOK (T : List Span) : RawExpr → Prop
  | null : RawKwOK T .Null
  | bool {b : Bool} : RawKwOK T (.Bool b)
  | int {n : Int} : RawKwOK T (.Int n)
  | str {s : List Char} {slots : Option (List (Nat × Nat))} : RawKwOK T (.Str s slots)
  | var {name : List Char} : RawKwOK T (.Var name)
  | binop {op : BinaryOp} {opLoc : Loc} {lhs rhs : Expr} :
      TokAt T (· = binTok op) opLoc → KwOK T lhs → KwOK T rhs → RawKwOK T (.BinaryOp op opLoc lhs rhs)
  | list {items : List ListItem} {collect : Bool} : (∀ x, x ∈ items → ItemKwOK T x) → RawKwOK T (.List items collect)
  | index {e i : Expr} : KwOK T e → KwOK T i → RawKwOK T (.Index e i)
  | rangeIndex {e : Expr} {start stop : Option Expr} :
      KwOK T e → (∀ x, start = some x → KwOK T x) → (∀ x, stop = some x → KwOK T x) →
      RawKwOK T (.RangeIndex e start stop)
  | range {a b : Expr} : KwOK T a → KwOK T b → RawKwOK T (.Range a b)
  | object {props : List PropItem} : (∀ x, x ∈ props → PropKwOK T x) → RawKwOK T (.Object props)
  | prop {e : Expr} {name : List Char} {tp : Bool} : KwOK T e → RawKwOK T (.Prop e name tp)
  | func {args : List Expr} {collect : Bool} {stmts : List Stmt} :
      (∀ x, x ∈ args → KwOK T x) → (∀ x, x ∈ stmts → StmtKwOK T x) → RawKwOK T (.Func args collect stmts)
  | call {f : Expr} {args : List ListItem} : KwOK T f → (∀ x, x ∈ args → ItemKwOK T x) → RawKwOK T (.Call f args)
inductive KwOK (T : List Span) : Expr → Prop
  | mk {raw : RawExpr} {loc : Loc} : RawKwOK T raw → KwOK T (.mk raw loc)
inductive ItemKwOK (T : List Span) : ListItem → Prop
  | mk {e : Expr} {s : Bool} : KwOK T e → ItemKwOK T (.mk e s)
inductive PropKwOK (T : List Span) : PropItem → Prop
  | pair {n v : Expr} : KwOK T n → KwOK T v → PropKwOK T (.Pair n v)
  | single {e : Expr} {s c : Bool} : KwOK T e → PropKwOK T (.Single e s c)
inductive StmtKwOK (T : List Span) : Stmt → Prop
  | block {b : List Stmt} : (∀ x, x ∈ b → StmtKwOK T x) → StmtKwOK T (.Block b)
  | expr {e : Expr} : KwOK T e → StmtKwOK T (.Expr e)
  | declare {l r : Expr} : KwOK T l → KwOK T r → StmtKwOK T (.Declare l r)
  | assign {l r : Expr} : KwOK T l → KwOK T r → StmtKwOK T (.Assign l r)
  | opAssign {l r : Expr} {op : BinaryOp} {opLoc : Loc} :
      KwOK T l → TokAt T (· = assignTok op) opLoc → KwOK T r → StmtKwOK T (.OpAssign l op opLoc r)
  | ifs {bs : List Branch} {els : Option (List Stmt)} :
      (∀ b, b ∈ bs → BranchKwOK T b) → (∀ s, els = some s → ∀ x, x ∈ s → StmtKwOK T x) → StmtKwOK T (.If bs els)
  | whiles {c : Expr} {s : List Stmt} : KwOK T c → (∀ x, x ∈ s → StmtKwOK T x) → StmtKwOK T (.While c s)
  | fors {l i : Expr} {s : List Stmt} : KwOK T l → KwOK T i → (∀ x, x ∈ s → StmtKwOK T x) → StmtKwOK T (.For l i s)
  | brk {loc : Loc} : TokAt T (· = .Break) loc → StmtKwOK T (.Break loc)
  | cont {loc : Loc} : TokAt T (· = .Continue) loc → StmtKwOK T (.Continue loc)
  | func {name : List Char} {nameLoc : Loc} {args : List Expr} {collect : Bool} {stmts : List Stmt} :
      TokAt T (· = .Ident name) nameLoc → (∀ x, x ∈ args → KwOK T x) → (∀ x, x ∈ stmts → StmtKwOK T x) →
      StmtKwOK T (.Func name nameLoc args collect stmts)
  | ret {loc : Loc} {e : Expr} : TokAt T (· = .Return) loc → KwOK T e → StmtKwOK T (.Return loc e)
inductive BranchKwOK (T : List Span) : Branch → Prop
  | mk {c : Expr} {s : List Stmt} : KwOK T c → (∀ x, x ∈ s → StmtKwOK T x) → BranchKwOK T (.mk c s)
end

theorem StmtKwOK.expr_inv {T : List Span} {e : Expr} (h : StmtKwOK T (.Expr e)) : KwOK T e := by
  cases h; assumption

/-! ## the statement, one field per parser function (the architecture of C18NodePos.lean) -/

structure KwAll (T : List Span) (n : Nat) : Prop where
  parseAtom : ∀ pre ts, Suf T ts → (∀ x, pre = some x → RawKwOK T x) →
    PRes.PosSat (fun a rest => Suf T rest ∧ RawKwOK T a) (parseAtom n pre ts)
  parsePostfix : ∀ l pre ts, Suf T ts → (∀ x, pre = some x → RawKwOK T x) →
    PRes.PosSat (fun a rest => Suf T rest ∧ RawKwOK T a) (parsePostfix n l pre ts)
  postfixLoop : ∀ l acc ts, Suf T ts → RawKwOK T acc →
    PRes.PosSat (fun a rest => Suf T rest ∧ RawKwOK T a) (postfixLoop n l acc ts)
  parseIndexTail : ∀ e ts, Suf T ts → KwOK T e →
    PRes.PosSat (fun a rest => Suf T rest ∧ RawKwOK T a) (parseIndexTail n e ts)
  parseRangeEnd : ∀ e s ts, Suf T ts → KwOK T e → (∀ x, s = some x → KwOK T x) →
    PRes.PosSat (fun a rest => Suf T rest ∧ RawKwOK T a) (parseRangeEnd n e s ts)
  parseTier : ∀ k l pre ts, Suf T ts → (∀ x, pre = some x → RawKwOK T x) →
    PRes.PosSat (fun a rest => Suf T rest ∧ RawKwOK T a) (parseTier n k l pre ts)
  tierLoop : ∀ k l acc ts, Suf T ts → RawKwOK T acc →
    PRes.PosSat (fun a rest => Suf T rest ∧ RawKwOK T a) (tierLoop n k l acc ts)
  parseExpr1 : ∀ s l pre ts, Suf T ts → (∀ x, pre = some x → RawKwOK T x) →
    PRes.PosSat (fun a rest => Suf T rest ∧ RawKwOK T a) (parseExpr1 n s l pre ts)
  rangeLoop : ∀ s l acc ts, Suf T ts → RawKwOK T acc →
    PRes.PosSat (fun a rest => Suf T rest ∧ RawKwOK T a) (rangeLoop n s l acc ts)
  parseExpr : ∀ s ts, Suf T ts → PRes.PosSat (fun a rest => Suf T rest ∧ KwOK T a) (parseExpr n s ts)
  parseArgs : ∀ acc ts, Suf T ts → (∀ x, x ∈ acc → ItemKwOK T x) →
    PRes.PosSat (fun a rest => Suf T rest ∧ ∀ x, x ∈ a → ItemKwOK T x) (parseArgs n acc ts)
  parseExprList : ∀ acc ts, Suf T ts → (∀ x, x ∈ acc → ItemKwOK T x) →
    PRes.PosSat (fun a rest => Suf T rest ∧ ∀ x, x ∈ a.1 → ItemKwOK T x) (parseExprList n acc ts)
  parseParams : ∀ acc ts, Suf T ts → (∀ x, x ∈ acc → KwOK T x) →
    PRes.PosSat (fun a rest => Suf T rest ∧ ∀ x, x ∈ a.1 → KwOK T x) (parseParams n acc ts)
  parsePropItems : ∀ acc ts, Suf T ts → (∀ x, x ∈ acc → PropKwOK T x) →
    PRes.PosSat (fun a rest => Suf T rest ∧ ∀ x, x ∈ a → PropKwOK T x) (parsePropItems n acc ts)
  parsePropTail : ∀ acc ts, Suf T ts → (∀ x, x ∈ acc → PropKwOK T x) →
    PRes.PosSat (fun a rest => Suf T rest ∧ ∀ x, x ∈ a → PropKwOK T x) (parsePropTail n acc ts)
  parseBlock : ∀ ts, Suf T ts →
    PRes.PosSat (fun a rest => Suf T rest ∧ ∀ x, x ∈ a → StmtKwOK T x) (parseBlock n ts)
  parseStmts : ∀ c acc ts, Suf T ts → (∀ x, x ∈ acc → StmtKwOK T x) →
    PRes.PosSat (fun a rest => Suf T rest ∧ ∀ x, x ∈ a → StmtKwOK T x) (parseStmts n c acc ts)
  parseIf : ∀ ts, Suf T ts →
    PRes.PosSat (fun a rest => Suf T rest ∧ (∀ b, b ∈ a.1 → BranchKwOK T b) ∧
      (∀ s, a.2 = some s → ∀ x, x ∈ s → StmtKwOK T x)) (parseIf n ts)
  parseStmtTail : ∀ lhs ts, Suf T ts → KwOK T lhs →
    PRes.PosSat (fun a rest => Suf T rest ∧ StmtKwOK T a) (parseStmtTail n lhs ts)
  parseExprStmt : ∀ amb l pre ts, Suf T ts → (∀ x, pre = some x → RawKwOK T x) →
    PRes.PosSat (fun a rest => Suf T rest ∧ StmtKwOK T a) (parseExprStmt n amb l pre ts)
  parseRawStmt : ∀ amb ts, Suf T ts →
    PRes.PosSat (fun a rest => Suf T rest ∧ StmtKwOK T a) (parseRawStmt n amb ts)
  parseBraceStmt : ∀ amb l ts, Suf T ts →
    PRes.PosSat (fun a rest => Suf T rest ∧ StmtKwOK T a) (parseBraceStmt n amb l ts)

/-! ## automation -/

/-- side conditions: suffixes, the tokens at the stored positions, the `OK` predicates by their constructors -/
syntax "kw_side" : tactic
macro_rules
  | `(tactic| kw_side) => `(tactic| first
    | assumption
    | exact Suf.tail (by assumption)
    | exact Suf.tail (Suf.tail (by assumption))
    | exact Suf.tail (Suf.tail (Suf.tail (by assumption)))
    | exact tokAt_head (by assumption) (opAt_tok (by assumption))
    | exact tokAt_head (by assumption) (assignOp_tok (by assumption))
    | exact tokAt_head (by assumption) (by assumption)
    | exact tokAt_head (Suf.tail (by assumption)) (by assumption)
    | exact optOK_none
    | (refine optOK_some ?_; kw_side)
    | exact (‹∀ x, some _ = some x → _› _ rfl)
    | exact all_nil
    | (refine all_reverse ?_; kw_side)
    | (refine all_cons ?_ ?_ <;> kw_side)
    | exact StmtKwOK.expr_inv (by assumption)
    | (constructor <;> kw_side))

macro "kw_call " ih:ident : tactic =>
  `(tactic| ((with_reducible first
    | apply KwAll.parseAtom $ih | apply KwAll.parsePostfix $ih | apply KwAll.postfixLoop $ih
    | apply KwAll.parseIndexTail $ih | apply KwAll.parseRangeEnd $ih | apply KwAll.parseTier $ih
    | apply KwAll.tierLoop $ih | apply KwAll.parseExpr1 $ih | apply KwAll.rangeLoop $ih
    | apply KwAll.parseExpr $ih | apply KwAll.parseArgs $ih | apply KwAll.parseExprList $ih
    | apply KwAll.parseParams $ih | apply KwAll.parsePropItems $ih | apply KwAll.parsePropTail $ih
    | apply KwAll.parseBlock $ih | apply KwAll.parseStmts $ih | apply KwAll.parseIf $ih
    | apply KwAll.parseStmtTail $ih | apply KwAll.parseExprStmt $ih | apply KwAll.parseRawStmt $ih
    | apply KwAll.parseBraceStmt $ih
    | apply expectTok_pos | apply expectIdent_pos) <;> kw_side))

macro "kw_leaf" : tactic =>
  `(tactic| ((try apply PRes.PosSat.ok); (try dsimp only []); (repeat' (with_reducible apply And.intro)) <;> kw_side))

macro "kw_auto " ih:ident : tactic =>
  `(tactic| repeat' first
    | exact True.intro
    | (apply PRes.PosSat.bind (by kw_call $ih))
    | (apply PRes.PosSat.map (by kw_call $ih))
    | (apply PRes.PosSat.mono ?_ (by kw_call $ih))
    | (intro _ _ _; and_split)
    | kw_leaf
    | (dsimp only [])
    | split)

theorem kwAll_zero (T : List Span) : KwAll T 0 := by
  constructor <;> intros
  · unfold parseAtom; exact True.intro
  · unfold parsePostfix; exact True.intro
  · unfold postfixLoop; exact True.intro
  · unfold parseIndexTail; exact True.intro
  · unfold parseRangeEnd; exact True.intro
  · unfold parseTier; exact True.intro
  · unfold tierLoop; exact True.intro
  · unfold parseExpr1; exact True.intro
  · unfold rangeLoop; exact True.intro
  · unfold parseExpr; exact True.intro
  · unfold parseArgs; exact True.intro
  · unfold parseExprList; exact True.intro
  · unfold parseParams; exact True.intro
  · unfold parsePropItems; exact True.intro
  · unfold parsePropTail; exact True.intro
  · unfold parseBlock; exact True.intro
  · unfold parseStmts; exact True.intro
  · unfold parseIf; exact True.intro
  · unfold parseStmtTail; exact True.intro
  · unfold parseExprStmt; exact True.intro
  · unfold parseRawStmt; exact True.intro
  · unfold parseBraceStmt; exact True.intro

theorem kwAll_succ (T : List Span) (n : Nat) (ih : KwAll T n) : KwAll T (n + 1) := by
  constructor
  · intro pre ts hs hp; (conv => arg 2; unfold parseAtom); kw_auto ih
  · intro l pre ts hs hp; (conv => arg 2; unfold parsePostfix); kw_auto ih
  · intro l acc ts hs ha; (conv => arg 2; unfold postfixLoop); kw_auto ih
  · intro e ts hs he; (conv => arg 2; unfold parseIndexTail); kw_auto ih
  · intro e s ts hs he hso; (conv => arg 2; unfold parseRangeEnd); kw_auto ih
  · intro k l pre ts hs hp; (conv => arg 2; unfold parseTier); kw_auto ih
  · intro k l acc ts hs ha; (conv => arg 2; unfold tierLoop); kw_auto ih
  · intro s l pre ts hs hp; (conv => arg 2; unfold parseExpr1); kw_auto ih
  · intro s l acc ts hs ha; (conv => arg 2; unfold rangeLoop); kw_auto ih
  · intro s ts hs; (conv => arg 2; unfold parseExpr); kw_auto ih
  · intro acc ts hs ha; (conv => arg 2; unfold parseArgs); kw_auto ih
  · intro acc ts hs ha; (conv => arg 2; unfold parseExprList); kw_auto ih
  · intro acc ts hs ha; (conv => arg 2; unfold parseParams); kw_auto ih
  · intro acc ts hs ha; (conv => arg 2; unfold parsePropItems); kw_auto ih
  · intro acc ts hs ha; (conv => arg 2; unfold parsePropTail); kw_auto ih
  · intro ts hs; (conv => arg 2; unfold parseBlock); kw_auto ih
  · intro c acc ts hs ha; (conv => arg 2; unfold parseStmts); kw_auto ih
  · intro ts hs; (conv => arg 2; unfold parseIf); kw_auto ih
  · intro lhs ts hs hl; (conv => arg 2; unfold parseStmtTail); kw_auto ih
  · intro amb l pre ts hs hp; (conv => arg 2; unfold parseExprStmt); kw_auto ih
  · intro amb ts hs; (conv => arg 2; unfold parseRawStmt); kw_auto ih
  · intro amb l ts hs; (conv => arg 2; unfold parseBraceStmt); kw_auto ih

theorem kwAll (T : List Span) (n : Nat) : KwAll T n := by
  induction n with
  | zero => exact kwAll_zero T
  | succ n ih => exact kwAll_succ T n ih

/-! ## plain forms -/

theorem parseStmts_node_kw {n : Nat} {c : Bool} {ts rest : List Span} {stmts : List Stmt}
    (h : parseStmts n c [] ts = .ok stmts rest) : ∀ st, st ∈ stmts → StmtKwOK ts st :=
  (((kwAll ts n).parseStmts c [] ts (Suf.refl ts) all_nil).elim h).2

theorem parseExpr_node_kw {n : Nat} {s : Bool} {ts rest : List Span} {e : Expr} (h : parseExpr n s ts = .ok e rest) :
    KwOK ts e :=
  (((kwAll ts n).parseExpr s ts (Suf.refl ts)).elim h).2

/-- **`node_kw`.** in the syntax tree of a program, every operator position is the start of the token that spells the
    operator, every op-assignment position the start of the op-assignment token, every `break` / `continue` / `return`
    position the start of that keyword, every function-name position the start of the name -/
theorem node_kw {src : List Char} {stmts : List Stmt} (h : parseProg src = .ok stmts) :
    ∀ st, st ∈ stmts → StmtKwOK (lexAll src).1 st := by
  unfold parseProg at h
  generalize lexAll src = p at h ⊢
  obtain ⟨ts, le⟩ := p
  simp only at h
  cases hp : parseStmts (parseFuel ts) false [] ts with
  | timeout => rw [hp] at h; cases h
  | err e => rw [hp] at h; cases h
  | ok a rest =>
    rw [hp] at h
    cases le with
    | some e => cases h
    | none =>
      simp only [Front.ok.injEq] at h
      subst h
      exact parseStmts_node_kw hp

/-- the same for the expression entry point (interpolation slots) -/
theorem node_kw_expr {src : List Char} {e : Expr} (h : parseExprTop src = .ok e) : KwOK (lexAll src).1 e := by
  unfold parseExprTop at h
  generalize lexAll src = p at h ⊢
  obtain ⟨ts, le⟩ := p
  simp only at h
  cases hp : parseExpr (parseFuel ts) false ts with
  | timeout => rw [hp] at h; cases h
  | err e => rw [hp] at h; cases h
  | ok a rest =>
    rw [hp] at h
    cases rest with
    | cons sp r => cases h
    | nil =>
      cases le with
      | some e => cases h
      | none =>
        simp only [Front.ok.injEq] at h
        subst h
        exact parseExpr_node_kw hp

/-- the hypotheses are satisfiable -/
example : ∃ e, parseExprTop c!"a + f(b) * 2" = .ok e ∧ KwOK (lexAll c!"a + f(b) * 2").1 e :=
  ⟨_, rfl, node_kw_expr rfl⟩

end Seed.C18A
