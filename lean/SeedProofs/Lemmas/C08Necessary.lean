/-
  C08Necessary.lean — every parenthesis the printer emits is NECESSARY (DESIGN.md §13.2, open item of C08).

  The printer `prR k / prE k / prStmts` (Lemmas/ParseRT2Defs.lean, whole grammar) puts a pair of parentheses
  around a sub-expression exactly when the sub-expression is a binary operation whose tier is looser than its
  slot, or a `..` expression in any slot but the loosest (`prE_paren`).  `parse_print_expr / parse_print_prog`
  say that these pairs SUFFICE.  Here:

    parseExpr_paren_count / parseStmts_paren_count
        whatever the parser returns, from whatever tokens, with whatever fuel: the printed form of the result has
        at most as many `(` as the tokens that were consumed                       (C08NecessaryInv.lean)
    printed_parens_minimal
        for a well-formed `e`: the printed tokens parse to `e`, and no token list with fewer `(` does — the
        printer is paren-minimal among ALL spellings of `e`
    printed_paren_necessary (… _prog)
        delete any `(` of the printed tokens together with any `)` (in particular: any pair the printer put around
        a sub-expression, at any depth, in any construct of the grammar — list items, arguments, function bodies
        included): the result does not parse to `e` — for every fuel, every setting of the spread flag, and
        whatever is left over; it either fails or gives a DIFFERENT tree
    ctx_paren_necessary
        the same, stated on the tree: for a one-hole context `c` (operands of binary operators and of `..`,
        operands of the five postfix forms, index expressions — nested arbitrarily) and a sub-expression `s`
        that the printer parenthesises in the hole (`needsParen (c.lvl 1) s`), the tokens
        `c.pre ++ bare s ++ c.post` (= the printed tokens of `c.fill s` without that one pair) never parse
        to `c.fill s`

  No well-formedness hypothesis is needed for necessity (it is a statement about what the parser can return).
-/
import SeedProofs.Lemmas.C08NecessaryInv
set_option linter.unusedSimpArgs false
namespace Seed.C08N
open Seed

/-! ### the printer does not look at positions -/

mutual
theorem prR_strip (k : Nat) : (r : RawExpr) → prR k (stripR r) = prR k r
  | .Null => by simp only [stripR]
  | .Bool _ => by simp only [stripR]
  | .Int _ => by simp only [stripR]
  | .Str _ _ => by simp only [stripR]
  | .Var _ => by simp only [stripR]
  | .BinaryOp op _ l r => by simp only [stripR, prR, prE_strip _ l, prE_strip _ r]
  | .List items c => by simp only [stripR, prR, prItems_strip items]
  | .Index e i => by simp only [stripR, prR, prE_strip _ e, prE_strip _ i]
  | .RangeIndex e a b => by simp only [stripR, prR, prE_strip _ e, prO_strip a, prO_strip b]
  | .Range a b => by simp only [stripR, prR, prE_strip _ a, prE_strip _ b]
  | .Object props => by simp only [stripR, prR, prProps_strip props]
  | .Prop e _ _ => by simp only [stripR, prR, prE_strip _ e]
  | .Func args c stmts => by simp only [stripR, prR, prEs_strip args, prStmts_strip stmts]
  | .Call f args => by simp only [stripR, prR, prE_strip _ f, prItems_strip args]
theorem prE_strip (k : Nat) : (e : Expr) → prE k (stripE e) = prE k e
  | .mk r _ => by simp only [stripE, prE, prR_strip k r]
theorem prO_strip : (o : Option Expr) → prO (stripO o) = prO o
  | none => by simp only [stripO]
  | some e => by simp only [stripO, prO, prE_strip 1 e]
theorem prItems_strip : (l : List ListItem) → prItems (stripItems l) = prItems l
  | [] => by simp only [stripItems]
  | .mk e _ :: r => by simp only [stripItems, prItems, prE_strip 1 e, prItems_strip r]
theorem prProps_strip : (l : List PropItem) → prProps (stripProps l) = prProps l
  | [] => by simp only [stripProps]
  | .Pair k v :: r => by simp only [stripProps, prProps, prE_strip 1 k, prE_strip 1 v, prProps_strip r]
  | .Single e _ _ :: r => by simp only [stripProps, prProps, prE_strip 1 e, prProps_strip r]
theorem prEs_strip : (l : List Expr) → prEs (stripEs l) = prEs l
  | [] => by simp only [stripEs]
  | e :: r => by simp only [stripEs, prEs, prE_strip 1 e, prEs_strip r]
theorem prStmts_strip : (l : List Stmt) → prStmts (stripStmts l) = prStmts l
  | [] => by simp only [stripStmts]
  | s :: r => by simp only [stripStmts, prStmts, prStmt_strip s, prStmts_strip r]
theorem prStmt_strip : (s : Stmt) → prStmt (stripStmt s) = prStmt s
  | .Block b => by simp only [stripStmt, prStmt, prStmts_strip b]
  | .Expr e => by simp only [stripStmt, prStmt, prE_strip 1 e]
  | .Declare l r => by simp only [stripStmt, prStmt, prE_strip 1 l, prE_strip 1 r]
  | .Assign l r => by simp only [stripStmt, prStmt, prE_strip 1 l, prE_strip 1 r]
  | .OpAssign l _ _ r => by simp only [stripStmt, prStmt, prE_strip 1 l, prE_strip 1 r]
  | .If bs none => by simp only [stripStmt, prStmt, prBs_strip bs]
  | .If bs (some els) => by simp only [stripStmt, prStmt, prBs_strip bs, prStmts_strip els]
  | .While c s => by simp only [stripStmt, prStmt, prE_strip 1 c, prStmts_strip s]
  | .For l i s => by simp only [stripStmt, prStmt, prE_strip 1 l, prE_strip 1 i, prStmts_strip s]
  | .Break _ => by simp only [stripStmt, prStmt]
  | .Continue _ => by simp only [stripStmt, prStmt]
  | .Func _ _ args _ s => by simp only [stripStmt, prStmt, prEs_strip args, prStmts_strip s]
  | .Return _ e => by simp only [stripStmt, prStmt, prE_strip 1 e]
theorem prBs_strip : (l : List Branch) → prBs (stripBs l) = prBs l
  | [] => by simp only [stripBs]
  | .mk c s :: r => by simp only [stripBs, prBs, prE_strip 1 c, prStmts_strip s, prBs_strip r]
end

/-- trees equal up to positions are printed alike -/
theorem prE_congr {k : Nat} {e f : Expr} (h : stripE e = stripE f) : prE k e = prE k f := by
  rw [← prE_strip k e, h, prE_strip]

theorem prStmts_congr {p q : List Stmt} (h : stripStmts p = stripStmts q) : prStmts p = prStmts q := by
  rw [← prStmts_strip p, h, prStmts_strip]

/-! ### the parser never invents a parenthesis -/

/-- **the count**: whatever `parseExpr` returns — any tokens, any fuel, either setting of the spread flag, any
    remainder — the printed form of the result has at most as many `(` as the consumed tokens -/
theorem parseExpr_paren_count {fuel : Nat} {s : Bool} {ts rest : List Span} {e : Expr}
    (h : parseExpr fuel s ts = .ok e rest) : wt (prE 1 e) + ws rest ≤ ws ts :=
  ((pcAll fuel).parseExpr s ts).elim h

/-- the same for statement lists (what `parseProg` runs on the lexer's output) -/
theorem parseStmts_paren_count {fuel : Nat} {c : Bool} {ts rest : List Span} {p : List Stmt}
    (h : parseStmts fuel c [] ts = .ok p rest) : wt (prStmts p) + ws rest ≤ ws ts := by
  have := ((pcAll fuel).parseStmts c [] ts).elim h
  rw [wt_prStmts]
  simpa only [cStmts_nil, Nat.zero_add] using this

/-- … and through the front end: the printed form of the program `parseProg` returns has at most as many `(` as
    the source text has `(` tokens -/
theorem parseProg_paren_count {src : List Char} {p : List Stmt} (h : parseProg src = .ok p) :
    wt (prStmts p) ≤ ws (lexAll src).1 := by
  unfold parseProg at h
  generalize lexAll src = lx at h
  obtain ⟨ts, le⟩ := lx
  dsimp only at h ⊢
  split at h
  · cases h
  · cases h
  · rename_i stmts rest heq
    split at h
    · cases h
    · cases h
      have := parseStmts_paren_count heq
      omega

-- the hypothesis is satisfiable and the bound is attained: `(a + b) * c` has one `(`, so has its tree;
-- with a redundant pair `((a + b)) * c` the inequality is strict
private def v (s : List Char) : Expr := .mk (.Var s) (0, 0)
private def bin (op : BinaryOp) (l r : Expr) : Expr := .mk (.BinaryOp op (0, 0) l r) (0, 0)
private def rng (l r : Expr) : Expr := .mk (.Range l r) (0, 0)
private def sp0 (toks : List Token) : List Span := toks.map fun t => ⟨(0, 0), t, (0, 0)⟩

example : parseExpr 100 false (sp0 [.ParenOpen, .Ident c!"a", .Sum, .Ident c!"b", .ParenClose, .Mul, .Ident c!"c"]) =
    .ok (bin .Mul (bin .Sum (v c!"a") (v c!"b")) (v c!"c")) [] := by rfl
example : wt (prE 1 (bin .Mul (bin .Sum (v c!"a") (v c!"b")) (v c!"c"))) = 1 ∧
    ws (sp0 [.ParenOpen, .Ident c!"a", .Sum, .Ident c!"b", .ParenClose, .Mul, .Ident c!"c"]) = 1 := by decide +kernel
example : parseExpr 100 false
    (sp0 [.ParenOpen, .ParenOpen, .Ident c!"a", .Sum, .Ident c!"b", .ParenClose, .ParenClose, .Mul, .Ident c!"c"]) =
    .ok (bin .Mul (bin .Sum (v c!"a") (v c!"b")) (v c!"c")) [] := by rfl

-- through the front end: the text `x = ((a + b)) * c;` has two `(`, the printed form of what `parseProg` returns one
example : (match parseProg c!"x = ((a + b)) * c;" with
    | .ok p => decide (wt (prStmts p) = 1 ∧ ws (lexAll c!"x = ((a + b)) * c;").1 = 2)
    | _ => false) = true := by decide +kernel

/-! ### minimality and necessity, on tokens -/

/-- **no spelling with fewer `(`**: a token list with fewer `(` than the printed form of `e` is never parsed to
    `e` (up to positions) — not with any fuel, not with either spread flag, not with any remainder -/
theorem fewer_parens_never_parse (e : Expr) (ts : List Span) (hlt : ws ts < wt (prE 1 e))
    (fuel : Nat) (s : Bool) (e' : Expr) (rest : List Span) (h : parseExpr fuel s ts = .ok e' rest) :
    stripE e' ≠ stripE e := by
  intro heq
  have h1 := parseExpr_paren_count h
  rw [prE_congr heq] at h1
  omega

theorem fewer_parens_never_parse_prog (p : List Stmt) (ts : List Span) (hlt : ws ts < wt (prStmts p))
    (fuel : Nat) (c : Bool) (p' : List Stmt) (rest : List Span) (h : parseStmts fuel c [] ts = .ok p' rest) :
    stripStmts p' ≠ stripStmts p := by
  intro heq
  have h1 := parseStmts_paren_count h
  rw [prStmts_congr heq] at h1
  omega

/-- **the printer is paren-minimal**: for a well-formed `e`, the printed tokens are parsed to `e` (the round trip),
    and every token list that is parsed to `e` has at least as many `(` -/
theorem printed_parens_minimal (e : Expr) (hwf : wfE true e = true) :
    (∀ ts : List Span, ts.map Span.tok = prE 1 e →
        ws ts = wt (prE 1 e) ∧ ∃ e', parseExpr (parseFuel ts) false ts = .ok e' [] ∧ stripE e' = stripE e) ∧
    (∀ (ts : List Span) (fuel : Nat) (s : Bool) (e' : Expr) (rest : List Span),
        parseExpr fuel s ts = .ok e' rest → stripE e' = stripE e → wt (prE 1 e) ≤ ws ts) := by
  refine ⟨fun ts hts => ⟨by rw [← ws_map_tok, hts], parse_print_expr e hwf ts hts⟩, ?_⟩
  intro ts fuel s e' rest h heq
  have h1 := parseExpr_paren_count h
  rw [prE_congr heq] at h1
  omega

theorem printed_parens_minimal_prog (p : List Stmt) (hwf : wfStmts true p = true) :
    (∀ ts : List Span, ts.map Span.tok = prStmts p →
        ws ts = wt (prStmts p) ∧
          ∃ p', parseStmts (parseFuel ts) false [] ts = .ok p' [] ∧ stripStmts p' = stripStmts p) ∧
    (∀ (ts : List Span) (fuel : Nat) (c : Bool) (p' : List Stmt) (rest : List Span),
        parseStmts fuel c [] ts = .ok p' rest → stripStmts p' = stripStmts p → wt (prStmts p) ≤ ws ts) := by
  refine ⟨fun ts hts => ⟨by rw [← ws_map_tok, hts], parse_print_prog p hwf ts hts⟩, ?_⟩
  intro ts fuel c p' rest h heq
  have h1 := parseStmts_paren_count h
  rw [prStmts_congr heq] at h1
  omega

/-- the weight of a token list from which one `(` and one `)` have been deleted -/
theorem wt_delete_pair (pre mid post : List Token) :
    wt (pre ++ (mid ++ post)) + 1 = wt (pre ++ Token.ParenOpen :: (mid ++ Token.ParenClose :: post)) := by
  simp only [wt_append, wt_cons, pw]
  omega

/-- **every printed parenthesis is necessary** (expressions).  Split the printed tokens of `e` at any `(` and any
    later `)` — in particular at a pair the printer put around a sub-expression, at any depth — and delete the
    two: no parse of the remaining tokens gives `e` back.  It fails, or stops early, or gives a different tree. -/
theorem printed_paren_necessary (e : Expr) (pre mid post : List Token)
    (hpr : prE 1 e = pre ++ Token.ParenOpen :: (mid ++ Token.ParenClose :: post))
    (ts : List Span) (hts : ts.map Span.tok = pre ++ (mid ++ post))
    (fuel : Nat) (s : Bool) (e' : Expr) (rest : List Span) (h : parseExpr fuel s ts = .ok e' rest) :
    stripE e' ≠ stripE e := by
  refine fewer_parens_never_parse e ts ?_ fuel s e' rest h
  have := wt_delete_pair pre mid post
  rw [← ws_map_tok, hts, hpr]
  omega

/-- **every printed parenthesis is necessary** (programs) -/
theorem printed_paren_necessary_prog (p : List Stmt) (pre mid post : List Token)
    (hpr : prStmts p = pre ++ Token.ParenOpen :: (mid ++ Token.ParenClose :: post))
    (ts : List Span) (hts : ts.map Span.tok = pre ++ (mid ++ post))
    (fuel : Nat) (c : Bool) (p' : List Stmt) (rest : List Span) (h : parseStmts fuel c [] ts = .ok p' rest) :
    stripStmts p' ≠ stripStmts p := by
  refine fewer_parens_never_parse_prog p ts ?_ fuel c p' rest h
  have := wt_delete_pair pre mid post
  rw [← ws_map_tok, hts, hpr]
  omega

/-- the front end: a source text whose tokens are the printed ones minus one pair is not parsed to `p` -/
theorem printed_paren_necessary_parseProg (p : List Stmt) (pre mid post : List Token)
    (hpr : prStmts p = pre ++ Token.ParenOpen :: (mid ++ Token.ParenClose :: post))
    (src : List Char) (hts : (lexAll src).1.map Span.tok = pre ++ (mid ++ post))
    (p' : List Stmt) (h : parseProg src = .ok p') : stripStmts p' ≠ stripStmts p := by
  intro heq
  have h1 := parseProg_paren_count h
  have := wt_delete_pair pre mid post
  rw [prStmts_congr heq, ← ws_map_tok, hts, hpr] at h1
  omega

/-! ### where the printer puts parentheses -/

/-- the printer parenthesises `s` in a slot of level `k` exactly when `s` is a binary operation of a tier looser
    than `k`, or a `..` expression and `k` is not the loosest level -/
def needsParen (k : Nat) : Expr → Bool
  | .mk (.BinaryOp op _ _ _) _ => decide (tierOf op < k)
  | .mk (.Range _ _) _ => decide (1 < k)
  | _ => false

/-- `s` without parentheses of its own (its operands keep theirs) -/
def bare (s : Expr) : List Token := prE 0 s

/-- the printed form of `s` in a slot of level `k` is `bare s`, parenthesised iff `needsParen k s` -/
theorem prE_paren (k : Nat) (s : Expr) : prE k s = paren (needsParen k s) (bare s) := by
  obtain ⟨r, q⟩ := s
  cases r with
  | BinaryOp op p l r =>
    simp only [bare, prE, prR, needsParen, Nat.not_lt_zero, decide_false]
    simp only [paren, Bool.false_eq_true, if_false]
  | Range l r =>
    simp only [bare, prE, prR, needsParen, Nat.not_lt_zero, decide_false]
    simp only [paren, Bool.false_eq_true, if_false]
  | Bool b => cases b <;> rfl
  | Int z => cases z <;> rfl
  | Str s o => cases o <;> rfl
  | _ => rfl

theorem needsParen_bin (k : Nat) (op : BinaryOp) (p : Loc) (l r : Expr) (q : Loc) :
    needsParen k (.mk (.BinaryOp op p l r) q) = decide (tierOf op < k) := rfl

theorem needsParen_range (k : Nat) (l r : Expr) (q : Loc) : needsParen k (.mk (.Range l r) q) = decide (1 < k) := rfl

/-! ### the same on the tree: one-hole contexts -/

/-- one-hole contexts through the positions whose level matters: operands of binary operators and of `..`,
    the operand of each postfix form, and (to nest further) an index expression -/
inductive Ctx where
  | hole
  | binL (op : BinaryOp) (p : Loc) (c : Ctx) (r : Expr) (q : Loc)
  | binR (op : BinaryOp) (p : Loc) (l : Expr) (c : Ctx) (q : Loc)
  | rangeL (c : Ctx) (r : Expr) (q : Loc)
  | rangeR (l : Expr) (c : Ctx) (q : Loc)
  | index (c : Ctx) (i : Expr) (q : Loc)
  | indexI (e : Expr) (c : Ctx) (q : Loc)
  | rangeIndex (c : Ctx) (a b : Option Expr) (q : Loc)
  | prop (c : Ctx) (name : List Char) (tp : Bool) (q : Loc)
  | call (c : Ctx) (args : List ListItem) (q : Loc)

namespace Ctx

/-- put `s` into the hole -/
def fill : Ctx → Expr → Expr
  | hole, s => s
  | binL op p c r q, s => .mk (.BinaryOp op p (c.fill s) r) q
  | binR op p l c q, s => .mk (.BinaryOp op p l (c.fill s)) q
  | rangeL c r q, s => .mk (.Range (c.fill s) r) q
  | rangeR l c q, s => .mk (.Range l (c.fill s)) q
  | index c i q, s => .mk (.Index (c.fill s) i) q
  | indexI e c q, s => .mk (.Index e (c.fill s)) q
  | rangeIndex c a b q, s => .mk (.RangeIndex (c.fill s) a b) q
  | prop c name tp q, s => .mk (.Prop (c.fill s) name tp) q
  | call c args q, s => .mk (.Call (c.fill s) args) q

/-- the level of the hole when the whole is printed in a slot of level `k` -/
def lvl : Ctx → Nat → Nat
  | hole, k => k
  | binL op _ c _ _, _ => c.lvl (tierOf op)
  | binR op _ _ c _, _ => c.lvl (tierOf op + 1)
  | rangeL c _ _, _ => c.lvl 1
  | rangeR _ c _, _ => c.lvl Gen.firstTier
  | index c _ _, _ => c.lvl 5
  | indexI _ c _, _ => c.lvl 1
  | rangeIndex c _ _ _, _ => c.lvl 5
  | prop c _ _ _, _ => c.lvl 5
  | call c _ _, _ => c.lvl 5

def open? (b : Bool) : List Token := if b then [Token.ParenOpen] else []
def close? (b : Bool) : List Token := if b then [Token.ParenClose] else []

/-- the tokens printed before the hole -/
def pre : Ctx → Nat → List Token
  | hole, _ => []
  | binL op _ c _ _, k => open? (decide (tierOf op < k)) ++ c.pre (tierOf op)
  | binR op _ l c _, k => open? (decide (tierOf op < k)) ++ (prE (tierOf op) l ++ tokOf op :: c.pre (tierOf op + 1))
  | rangeL c _ _, k => open? (decide (1 < k)) ++ c.pre 1
  | rangeR l c _, k => open? (decide (1 < k)) ++ (prE 1 l ++ Token.DotDot :: c.pre Gen.firstTier)
  | index c _ _, _ => c.pre 5
  | indexI e c _, _ => prE 5 e ++ Token.BracketOpen :: c.pre 1
  | rangeIndex c _ _ _, _ => c.pre 5
  | prop c _ _ _, _ => c.pre 5
  | call c _ _, _ => c.pre 5

/-- the tokens printed after the hole -/
def post : Ctx → Nat → List Token
  | hole, _ => []
  | binL op _ c r _, k =>
    c.post (tierOf op) ++ (tokOf op :: prE (tierOf op + 1) r ++ close? (decide (tierOf op < k)))
  | binR op _ _ c _, k => c.post (tierOf op + 1) ++ close? (decide (tierOf op < k))
  | rangeL c r _, k => c.post 1 ++ (Token.DotDot :: prE Gen.firstTier r ++ close? (decide (1 < k)))
  | rangeR _ c _, k => c.post Gen.firstTier ++ close? (decide (1 < k))
  | index c i _, _ => c.post 5 ++ Token.BracketOpen :: (prE 1 i ++ [Token.BracketClose])
  | indexI _ c _, _ => c.post 1 ++ [Token.BracketClose]
  | rangeIndex c a b _, _ =>
    c.post 5 ++ Token.BracketOpen :: (prO a ++ Token.Colon :: (prO b ++ [Token.BracketClose]))
  | prop c name tp _, _ => c.post 5 ++ [if tp then Token.DashGreaterThan else Token.Dot, Token.Ident name]
  | call c args _, _ => c.post 5 ++ Token.ParenOpen :: sepBody .ParenClose false (prItems args)

theorem paren_eq (b : Bool) (ts : List Token) : paren b ts = open? b ++ (ts ++ close? b) := by
  cases b <;> simp [paren, open?, close?]

/-- the printed form of a filled context: what the context prints around the hole does not depend on what is
    put into it -/
theorem prE_fill (c : Ctx) (s : Expr) (k : Nat) : prE k (c.fill s) = c.pre k ++ (prE (c.lvl k) s ++ c.post k) := by
  induction c generalizing k with
  | hole => simp only [fill, pre, post, lvl, List.nil_append, List.append_nil]
  | binL op p c r q ih => simp only [fill, prE, prR, paren_eq, pre, post, lvl, ih, List.append_assoc, List.cons_append]
  | binR op p l c q ih => simp only [fill, prE, prR, paren_eq, pre, post, lvl, ih, List.append_assoc, List.cons_append]
  | rangeL c r q ih => simp only [fill, prE, prR, paren_eq, pre, post, lvl, ih, List.append_assoc, List.cons_append]
  | rangeR l c q ih => simp only [fill, prE, prR, paren_eq, pre, post, lvl, ih, List.append_assoc, List.cons_append]
  | index c i q ih => simp only [fill, prE, prR, pre, post, lvl, ih, List.append_assoc, List.cons_append]
  | indexI e c q ih =>
    simp only [fill, prE, prR, pre, post, lvl, ih, List.append_assoc, List.cons_append, List.nil_append]
  | rangeIndex c a b q ih => simp only [fill, prE, prR, pre, post, lvl, ih, List.append_assoc, List.cons_append]
  | prop c name tp q ih => simp only [fill, prE, prR, pre, post, lvl, ih, List.append_assoc, List.cons_append]
  | call c args q ih => simp only [fill, prE, prR, pre, post, lvl, ih, List.append_assoc, List.cons_append]

end Ctx

/-- **necessity on the tree**: `s` sits in the hole of `c`, and the printer parenthesises it there
    (`needsParen (c.lvl 1) s`: `s` is a binary operation looser than the slot — e.g. a right operand of equal
    tier — or a `..` expression).  Then the printed tokens of `c.fill s` are `c.pre ++ ( bare s ) ++ c.post`, and
    the tokens without that pair, `c.pre ++ bare s ++ c.post`, are never parsed to `c.fill s`. -/
theorem ctx_paren_necessary (c : Ctx) (s : Expr) (hneed : needsParen (c.lvl 1) s = true) :
    prE 1 (c.fill s) = c.pre 1 ++ (Token.ParenOpen :: (bare s ++ [Token.ParenClose]) ++ c.post 1) ∧
    ∀ (ts : List Span), ts.map Span.tok = c.pre 1 ++ (bare s ++ c.post 1) →
      ∀ (fuel : Nat) (sf : Bool) (e' : Expr) (rest : List Span),
        parseExpr fuel sf ts = .ok e' rest → stripE e' ≠ stripE (c.fill s) := by
  have hpr : prE 1 (c.fill s) = c.pre 1 ++ (Token.ParenOpen :: (bare s ++ [Token.ParenClose]) ++ c.post 1) := by
    rw [Ctx.prE_fill, prE_paren (c.lvl 1) s, hneed]
    simp only [paren, if_true]
  refine ⟨hpr, fun ts hts fuel sf e' rest h => ?_⟩
  refine printed_paren_necessary (c.fill s) (c.pre 1) (bare s) (c.post 1) ?_ ts hts fuel sf e' rest h
  rw [hpr]
  simp only [List.cons_append, List.append_assoc, List.nil_append]

/-- and where the printer does not parenthesise, the sub-expression is printed bare: so the printer's pairs are
    exactly the ones of `ctx_paren_necessary` -/
theorem ctx_no_paren (c : Ctx) (s : Expr) (hneed : needsParen (c.lvl 1) s = false) :
    prE 1 (c.fill s) = c.pre 1 ++ (bare s ++ c.post 1) := by
  rw [Ctx.prE_fill, prE_paren (c.lvl 1) s, hneed]
  simp only [paren, Bool.false_eq_true, if_false]

/-- the two binary-operator slots, spelled out: the left operand is parenthesised iff its tier is lower than the
    operator's, the right operand iff its tier is lower or equal -/
theorem operand_slots (op op' : BinaryOp) (p p' q q' : Loc) (a b x : Expr) :
    (needsParen ((Ctx.binL op p .hole x q).lvl 1) (.mk (.BinaryOp op' p' a b) q') = true ↔ tierOf op' < tierOf op) ∧
    (needsParen ((Ctx.binR op p x .hole q).lvl 1) (.mk (.BinaryOp op' p' a b) q') = true ↔ tierOf op' ≤ tierOf op) := by
  constructor
  · simp only [Ctx.lvl, needsParen]; exact decide_eq_true_iff
  · simp only [Ctx.lvl, needsParen]; exact decide_eq_true_iff.trans Nat.lt_succ_iff

/-! ### concrete instances -/

private def idx (e i : Expr) : Expr := .mk (.Index e i) (0, 0)
private def a : Expr := v c!"a"
private def b : Expr := v c!"b"
private def c : Expr := v c!"c"
private def d : Expr := v c!"d"

-- `a - (b - c)`: a right operand of equal tier.  Context `a - □`, sub-expression `b - c`.
example : needsParen ((Ctx.binR .Sub (0, 0) a .hole (0, 0)).lvl 1) (bin .Sub b c) = true := by decide +kernel
example : prE 1 ((Ctx.binR .Sub (0, 0) a .hole (0, 0)).fill (bin .Sub b c)) =
    [.Ident c!"a", .Sub, .ParenOpen, .Ident c!"b", .Sub, .Ident c!"c", .ParenClose] := by decide +kernel
-- the theorem: `a - b - c` (any positions, any fuel) is never `a - (b - c)` …
example (ts : List Span) (hts : ts.map Span.tok = [.Ident c!"a", .Sub, .Ident c!"b", .Sub, .Ident c!"c"])
    (fuel : Nat) (sf : Bool) (e' : Expr) (rest : List Span) (h : parseExpr fuel sf ts = .ok e' rest) :
    stripE e' ≠ stripE (bin .Sub a (bin .Sub b c)) :=
  (ctx_paren_necessary (Ctx.binR .Sub (0, 0) a .hole (0, 0)) (bin .Sub b c) (by decide +kernel)).2 ts
    (by rw [hts]; decide +kernel) fuel sf e' rest h
-- … it is the other grouping, `(a - b) - c`
example : parseExpr 100 false (sp0 [.Ident c!"a", .Sub, .Ident c!"b", .Sub, .Ident c!"c"]) =
    .ok (bin .Sub (bin .Sub a b) c) [] := by rfl

-- `(a + b) * c`: a left operand of a looser tier.  Without the pair: `a + (b * c)`
example : needsParen ((Ctx.binL .Mul (0, 0) .hole c (0, 0)).lvl 1) (bin .Sum a b) = true := by decide +kernel
example (ts : List Span) (hts : ts.map Span.tok = [.Ident c!"a", .Sum, .Ident c!"b", .Mul, .Ident c!"c"])
    (fuel : Nat) (sf : Bool) (e' : Expr) (rest : List Span) (h : parseExpr fuel sf ts = .ok e' rest) :
    stripE e' ≠ stripE (bin .Mul (bin .Sum a b) c) :=
  (ctx_paren_necessary (Ctx.binL .Mul (0, 0) .hole c (0, 0)) (bin .Sum a b) (by decide +kernel)).2 ts
    (by rw [hts]; decide +kernel) fuel sf e' rest h
example : parseExpr 100 false (sp0 [.Ident c!"a", .Sum, .Ident c!"b", .Mul, .Ident c!"c"]) =
    .ok (bin .Sum a (bin .Mul b c)) [] := by rfl

-- `(a .. b) + c`: `..` is looser than every tier.  Without the pair: `a .. (b + c)`
example : needsParen ((Ctx.binL .Sum (0, 0) .hole c (0, 0)).lvl 1) (rng a b) = true := by decide +kernel
example : prE 1 (bin .Sum (rng a b) c) =
    [.ParenOpen, .Ident c!"a", .DotDot, .Ident c!"b", .ParenClose, .Sum, .Ident c!"c"] := by decide +kernel
example (ts : List Span) (hts : ts.map Span.tok = [.Ident c!"a", .DotDot, .Ident c!"b", .Sum, .Ident c!"c"])
    (fuel : Nat) (sf : Bool) (e' : Expr) (rest : List Span) (h : parseExpr fuel sf ts = .ok e' rest) :
    stripE e' ≠ stripE (bin .Sum (rng a b) c) :=
  (ctx_paren_necessary (Ctx.binL .Sum (0, 0) .hole c (0, 0)) (rng a b) (by decide +kernel)).2 ts
    (by rw [hts]; decide +kernel) fuel sf e' rest h
example : parseExpr 100 false (sp0 [.Ident c!"a", .DotDot, .Ident c!"b", .Sum, .Ident c!"c"]) =
    .ok (rng a (bin .Sum b c)) [] := by rfl

-- `a .. (b .. c)`: `..` groups to the left, a `..` right operand needs its pair.  Without: `(a .. b) .. c`
example : needsParen ((Ctx.rangeR a .hole (0, 0)).lvl 1) (rng b c) = true := by decide +kernel
example : parseExpr 100 false (sp0 [.Ident c!"a", .DotDot, .Ident c!"b", .DotDot, .Ident c!"c"]) =
    .ok (rng (rng a b) c) [] := by rfl

-- nested: `d * (a - (b - c))[a + b]` — two pairs; the index expression `a + b` needs none
private def nested : Expr := bin .Mul d (idx (bin .Sub a (bin .Sub b c)) (bin .Sum a b))
example : prE 1 nested =
    [.Ident c!"d", .Mul, .ParenOpen, .Ident c!"a", .Sub, .ParenOpen, .Ident c!"b", .Sub, .Ident c!"c", .ParenClose,
      .ParenClose, .BracketOpen, .Ident c!"a", .Sum, .Ident c!"b", .BracketClose] := by decide +kernel
-- the inner pair, two levels down: context `d * (a - □)[a + b]`
private def innerCtx : Ctx :=
  .binR .Mul (0, 0) d (.index (.binR .Sub (0, 0) a .hole (0, 0)) (bin .Sum a b) (0, 0)) (0, 0)
example : innerCtx.fill (bin .Sub b c) = nested := rfl
example : needsParen (innerCtx.lvl 1) (bin .Sub b c) = true := by decide +kernel
example (ts : List Span)
    (hts : ts.map Span.tok = [.Ident c!"d", .Mul, .ParenOpen, .Ident c!"a", .Sub, .Ident c!"b", .Sub, .Ident c!"c",
      .ParenClose, .BracketOpen, .Ident c!"a", .Sum, .Ident c!"b", .BracketClose])
    (fuel : Nat) (sf : Bool) (e' : Expr) (rest : List Span) (h : parseExpr fuel sf ts = .ok e' rest) :
    stripE e' ≠ stripE nested :=
  (ctx_paren_necessary innerCtx (bin .Sub b c) (by decide +kernel)).2 ts (by rw [hts]; decide +kernel) fuel sf e' rest h
-- the outer pair (the operand of the index): context `d * □[a + b]`; without it `d * a - (b - c)[a + b]`
private def outerCtx : Ctx := .binR .Mul (0, 0) d (.index .hole (bin .Sum a b) (0, 0)) (0, 0)
example : outerCtx.fill (bin .Sub a (bin .Sub b c)) = nested := rfl
example : needsParen (outerCtx.lvl 1) (bin .Sub a (bin .Sub b c)) = true := by decide +kernel
example : parseExpr 200 false (sp0 [.Ident c!"d", .Mul, .Ident c!"a", .Sub, .ParenOpen, .Ident c!"b", .Sub,
      .Ident c!"c", .ParenClose, .BracketOpen, .Ident c!"a", .Sum, .Ident c!"b", .BracketClose]) =
    .ok (bin .Sub (bin .Mul d a) (idx (bin .Sub b c) (bin .Sum a b))) [] := by rfl

-- where no pair is printed: `a - b * c`, `(a - b) - c` is printed `a - b - c`
example : needsParen ((Ctx.binR .Sub (0, 0) a .hole (0, 0)).lvl 1) (bin .Mul b c) = false := by decide +kernel
example : needsParen ((Ctx.binL .Sub (0, 0) .hole c (0, 0)).lvl 1) (bin .Sub a b) = false := by decide +kernel

-- on tokens, anywhere in the grammar: the pair in a list item inside a function body, `fn() { return [(a + b) * c]; }`
private def fnE : Expr :=
  .mk (.Func [] false [.Return (0, 0) (.mk (.List [.mk (bin .Mul (bin .Sum a b) c) false] false) (0, 0))]) (0, 0)
example : prE 1 fnE =
    [.Fn, .ParenOpen, .ParenClose, .BraceOpen, .Return, .BracketOpen] ++ Token.ParenOpen ::
      ([.Ident c!"a", .Sum, .Ident c!"b"] ++ Token.ParenClose ::
        [.Mul, .Ident c!"c", .BracketClose, .StmtEnd, .BraceClose]) := by decide +kernel
example (ts : List Span)
    (hts : ts.map Span.tok = [.Fn, .ParenOpen, .ParenClose, .BraceOpen, .Return, .BracketOpen] ++
      ([.Ident c!"a", .Sum, .Ident c!"b"] ++ [.Mul, .Ident c!"c", .BracketClose, .StmtEnd, .BraceClose]))
    (fuel : Nat) (sf : Bool) (e' : Expr) (rest : List Span) (h : parseExpr fuel sf ts = .ok e' rest) :
    stripE e' ≠ stripE fnE :=
  printed_paren_necessary fnE _ _ _ (by decide +kernel) ts hts fuel sf e' rest h

-- a deleted pair may also leave something that is not an expression at all: `(a + b)(c)` without the call's
-- parentheses stops after `a + b`
example : parseExpr 100 false (sp0 [.ParenOpen, .Ident c!"a", .Sum, .Ident c!"b", .ParenClose, .Ident c!"c"]) =
    .ok (bin .Sum a b) (sp0 [.Ident c!"c"]) := by rfl

-- programs: `x = (a + b) * c;`
private def prog : List Stmt := [.Assign (v c!"x") (bin .Mul (bin .Sum a b) c)]
example : wfStmts true prog = true := by decide +kernel
example (ts : List Span)
    (hts : ts.map Span.tok = [.Ident c!"x", .Equals] ++ ([.Ident c!"a", .Sum, .Ident c!"b"] ++
      [.Mul, .Ident c!"c", .StmtEnd]))
    (fuel : Nat) (cl : Bool) (p' : List Stmt) (rest : List Span) (h : parseStmts fuel cl [] ts = .ok p' rest) :
    stripStmts p' ≠ stripStmts prog :=
  printed_paren_necessary_prog prog _ _ _ (by decide +kernel) ts hts fuel cl p' rest h

-- … and through the front end: the text `x = a + b * c;` spells the printed tokens minus the pair; it is accepted,
-- as another program
example : (lexAll c!"x = a + b * c;").1.map Span.tok =
    [.Ident c!"x", .Equals] ++ ([.Ident c!"a", .Sum, .Ident c!"b"] ++ [.Mul, .Ident c!"c", .StmtEnd]) := by
  decide +kernel
example (p' : List Stmt) (h : parseProg c!"x = a + b * c;" = .ok p') : stripStmts p' ≠ stripStmts prog :=
  printed_paren_necessary_parseProg prog [.Ident c!"x", .Equals] [.Ident c!"a", .Sum, .Ident c!"b"]
    [.Mul, .Ident c!"c", .StmtEnd] (by decide +kernel) c!"x = a + b * c;" (by decide +kernel) p' h
example : (match parseProg c!"x = a + b * c;" with
    | .ok p' => decide (prStmts p' = prStmts [.Assign (v c!"x") (bin .Sum a (bin .Mul b c))])
    | _ => false) = true := by decide +kernel

end Seed.C08N
