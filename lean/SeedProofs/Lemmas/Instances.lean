/-
  Instances.lean — instances of the generic preservation theorem of Frame.lean.
-/
import SeedProofs.Lemmas.Frame
namespace Seed

/-! ### G3: the output only grows (newest line first, so the old output is a suffix) -/

def OutGrows (σ σ' : State) : Prop := ∃ l, σ'.out = l ++ σ.out

theorem outGrows_good : GoodRel OutGrows where
  refl := fun σ => ⟨[], rfl⟩
  trans := by
    rintro a b c ⟨l1, h1⟩ ⟨l2, h2⟩
    exact ⟨l2 ++ l1, by rw [h2, h1, List.append_assoc]⟩
  alloc := fun σ c => ⟨[], rfl⟩
  print := fun σ l => ⟨[l], rfl⟩
  setList := fun σ a xs ys _ => ⟨[], rfl⟩
  setObj := fun σ a m m' _ => ⟨[], rfl⟩
  setScope := fun σ a m m' _ => ⟨[], rfl⟩

/-! ### G2: the heap only grows and no cell ever changes its kind; function cells never change at all -/

inductive CellTag where
  | list | obj | func | scope
  deriving DecidableEq

def Cell.tag : Cell → CellTag
  | .list _ => .list | .obj _ => .obj | .func _ => .func | .scope _ => .scope

def State.tagAt (σ : State) (a : Addr) : Option CellTag := (σ.heap[a]?).map Cell.tag

/-- `σ'` extends `σ`: every address of `σ` is still there with a cell of the same kind -/
def HeapGrows (σ σ' : State) : Prop :=
  σ.heap.size ≤ σ'.heap.size ∧ ∀ a, a < σ.heap.size → σ'.tagAt a = σ.tagAt a

theorem tagAt_set_same (σ : State) (a : Addr) (c : Cell) (h : σ.tagAt a = some c.tag) (b : Addr) :
    (σ.set a c).tagAt b = σ.tagAt b := by
  unfold State.tagAt State.set at *
  simp only [Array.getElem?_setIfInBounds]
  split
  · rename_i hab
    subst hab
    split
    · rename_i hlt
      simp only [Option.map_some]
      rw [← h]
    · rename_i hnlt
      have : σ.heap[a]? = none := by simp; omega
      simp [this]
  · rfl

theorem getList_tag {σ : State} {a : Addr} {xs : List SVal} (h : σ.getList a = some xs) : σ.tagAt a = some .list := by
  unfold State.getList at h; unfold State.tagAt
  split at h <;> simp_all [Cell.tag]

theorem getObj_tag {σ : State} {a : Addr} {m : ObjMap} (h : σ.getObj a = some m) : σ.tagAt a = some .obj := by
  unfold State.getObj at h; unfold State.tagAt
  split at h <;> simp_all [Cell.tag]

theorem getScope_tag {σ : State} {a : Addr} {m : ScopeMap} (h : σ.getScope a = some m) : σ.tagAt a = some .scope := by
  unfold State.getScope at h; unfold State.tagAt
  split at h <;> simp_all [Cell.tag]

theorem set_size (σ : State) (a : Addr) (c : Cell) : (σ.set a c).heap.size = σ.heap.size := by
  simp [State.set]

theorem heapGrows_good : GoodRel HeapGrows where
  refl := fun σ => ⟨Nat.le_refl _, fun _ _ => rfl⟩
  trans := by
    rintro a b c ⟨h1, h1'⟩ ⟨h2, h2'⟩
    exact ⟨Nat.le_trans h1 h2, fun x hx => by rw [h2' x (Nat.lt_of_lt_of_le hx h1), h1' x hx]⟩
  alloc := by
    intro σ c
    refine ⟨by simp [State.alloc], fun a ha => ?_⟩
    simp only [State.alloc, State.tagAt]
    rw [Array.getElem?_push_lt ha]
    simp [Array.getElem?_eq_getElem ha]
  print := fun σ l => ⟨Nat.le_refl _, fun _ _ => rfl⟩
  setList := fun σ a xs ys h =>
    ⟨by rw [set_size]; exact Nat.le_refl _, fun b _ => tagAt_set_same σ a (.list ys) (getList_tag h) b⟩
  setObj := fun σ a m m' h =>
    ⟨by rw [set_size]; exact Nat.le_refl _, fun b _ => tagAt_set_same σ a (.obj m') (getObj_tag h) b⟩
  setScope := fun σ a m m' h =>
    ⟨by rw [set_size]; exact Nat.le_refl _, fun b _ => tagAt_set_same σ a (.scope m') (getScope_tag h) b⟩

/-- function cells are immutable: once allocated, a function value denotes the same code and closure forever -/
def FuncsStable (σ σ' : State) : Prop := ∀ a f, σ.getFunc a = some f → σ'.getFunc a = some f

theorem getFunc_set_keeps (σ : State) (a b : Addr) (c : Cell) (f : FuncRec) (hb : σ.getFunc b = some f)
    (hne : ∀ g, σ.getFunc a ≠ some g) : (σ.set a c).getFunc b = some f := by
  by_cases hab : a = b
  · subst hab; exact absurd hb (hne f)
  · unfold State.getFunc State.set at *
    simp only [Array.getElem?_setIfInBounds, hab, if_false]
    exact hb

theorem getFunc_congr {σ σ' : State} {a : Addr} (h : σ'.heap[a]? = σ.heap[a]?) : σ'.getFunc a = σ.getFunc a := by
  unfold State.getFunc; rw [h]

theorem getFunc_lt {σ : State} {a : Addr} {f : FuncRec} (h : σ.getFunc a = some f) : a < σ.heap.size := by
  cases Nat.lt_or_ge a σ.heap.size with
  | inl hlt => exact hlt
  | inr hge =>
    have : σ.heap[a]? = none := by simp; omega
    unfold State.getFunc at h
    simp [this] at h

theorem alloc_heap_lt (σ : State) (c : Cell) {a : Addr} (ha : a < σ.heap.size) : (σ.alloc c).2.heap[a]? = σ.heap[a]? := by
  show (σ.heap.push c)[a]? = σ.heap[a]?
  rw [Array.getElem?_push_lt ha]
  simp [Array.getElem?_eq_getElem ha]

theorem funcsStable_good : GoodRel FuncsStable where
  refl := fun σ a f h => h
  trans := fun h1 h2 a f h => h2 a f (h1 a f h)
  alloc := by
    intro σ c a f h
    rw [getFunc_congr (alloc_heap_lt σ c (getFunc_lt h))]; exact h
  print := fun σ l a f h => h
  setList := by
    intro σ a xs ys hg b f hb
    refine getFunc_set_keeps σ a b _ f hb (fun g hgf => ?_)
    unfold State.getList State.getFunc at *
    split at hg <;> simp_all
  setObj := by
    intro σ a m m' hg b f hb
    refine getFunc_set_keeps σ a b _ f hb (fun g hgf => ?_)
    unfold State.getObj State.getFunc at *
    split at hg <;> simp_all
  setScope := by
    intro σ a m m' hg b f hb
    refine getFunc_set_keeps σ a b _ f hb (fun g hgf => ?_)
    unfold State.getScope State.getFunc at *
    split at hg <;> simp_all

end Seed
