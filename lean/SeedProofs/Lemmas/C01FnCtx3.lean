/-
  C01FnCtx3.lean — congruence through function bodies, part 3: the theorems.

  * `stmts_sim`, `prog_sim`, `prog_outcome_refines` : for ANY two programs related by `RStmts` (the same syntax except
    that, at any number of statement-list positions at any depth — also inside `fn` statements and function literals —
    the left one has `x` where the right one has a `y` with `Refines x y`): whatever the left program does (other than
    running out of fuel) the right program does, at some fuel: the same value / diagnostic, the same printed lines, and a
    final heap that is identical (same addresses, same lists, objects and scopes) except for the bodies stored in
    function cells, which are again `RStmts`-related.  The only hypothesis about `x`, `y` is plain refinement IN ONE
    STATE (`Refines`, the hypothesis of `C01.stmt_ctx_refines`): no simulation hypothesis about related states is
    needed — the left run of `x` is first matched by the right run of the SAME `x` (simulation at the same left fuel,
    structural), and only then, inside the right state, `x` is replaced by `y`.
  * `FCtx` / `ECtx` : one-hole contexts, `SCtx` extended with function bodies: the body of a `fn` statement, and every
    statement that contains an expression that contains (at any expression position, to any depth) a function literal
    whose body contains the hole.  `fn_ctx_refines`, `fn_ctx_congr_upto` (both directions, for `UptoEq s t`),
    `fn_ctx_run` (the same for `run`: exit status, stdout, stderr).
  * nothing is left out: patterns (parameter lists, the left-hand sides of `:=`, `=`, `op=` and of `for`) may contain the
    hole too (a function literal can occur there inside an index expression or a computed key, as in
    `xs[(fn() { □ })()] = 1`); `validateArgs` only looks at the shape of the parameter patterns (`validateArgs_rel`).
-/
import SeedProofs.Lemmas.C01FnCtx2
namespace Seed.C01
open Seed Seed.C07 Seed.ScopeL
open Seed.Eqv (allocS alloc_pair getFunc_heap)

/-! ### the simulation, read off for statement lists -/

/-- **Simulation for statement lists.**  `ss`, `ss'` related; the right state is the left state up to related function
    bodies.  Whatever the left run yields (not a time-out), the right run yields from some fuel on, up to related
    function bodies. -/
theorem stmts_sim {ss ss' : List Stmt} (h : RStmts ss ss') {β : Repl} {σ : State} (hg : Good β σ) (sc : List Addr)
    (n : Nat) (hne : evalStmts n σ sc ss ≠ .timeout) :
    ∃ β' m₀, GoodRes β' (evalStmts n σ sc ss) ∧ ∀ m, m₀ ≤ m → evalStmts m (wb β σ) sc ss' = wbRes β' (evalStmts n σ sc ss) := by
  obtain ⟨β', hg', m₀, hm⟩ := (simAll n).evalStmts β σ sc ss ss' hg h hne
  exact ⟨β', m₀, hg', hm⟩

/-- the bodies that are stored in `σ` -/
def bodies (σ : State) (a : Addr) : Code :=
  match σ.getFunc a with
  | some fr => (fr.args, fr.stmts)
  | none => ([], [])

theorem wb_bodies (σ : State) : wb (bodies σ) σ = σ := by
  have h : σ.heap.mapIdx (wbCell (bodies σ)) = σ.heap := by
    apply Array.ext_getElem?
    intro i
    rw [Array.getElem?_mapIdx]
    cases hi : σ.heap[i]? with
    | none => rfl
    | some c =>
      cases c with
      | func fr =>
        have : σ.getFunc i = some fr := getFunc_heap.mpr hi
        simp [wbCell, bodies, this, setCode]
      | list xs => rfl
      | obj m => rfl
      | scope m => rfl
  unfold wb
  rw [h]

theorem good_bodies (σ : State) : Good (bodies σ) σ := by
  intro a fr h
  simp only [bodies, h]
  exact ⟨RExprs.refl _, RStmts.refl _⟩

/-- the same, started in ONE state: the generalisation of `C01.stmt_ctx_refines` to related programs -/
theorem stmts_sim_same {ss ss' : List Stmt} (h : RStmts ss ss') (n : Nat) (σ : State) (sc : List Addr)
    (hne : evalStmts n σ sc ss ≠ .timeout) :
    ∃ β' m, GoodRes β' (evalStmts n σ sc ss) ∧ evalStmts m σ sc ss' = wbRes β' (evalStmts n σ sc ss) := by
  obtain ⟨β', m₀, hg', hm⟩ := stmts_sim h (good_bodies σ) sc n hne
  refine ⟨β', m₀, hg', ?_⟩
  have := hm m₀ (Nat.le_refl _)
  rwa [wb_bodies] at this

/-! ### whole programs -/

/-- what `evalProg` does with the way the top-level statement list ended -/
def progK (esc : Escape) (σ : State) : Res Unit :=
  match esc with
  | .none => .ok () σ
  | .brk l => errAt l Gen.Leaf.BreakOutsideLoop σ
  | .cont l => errAt l Gen.Leaf.ContinueOutsideLoop σ
  | .ret _ l => errAt l Gen.Leaf.ReturnOutsideFunction σ

def printB : Expr × SVal := (.mk (.Var c!"print") (0, 0), SVal.plain (.builtin c!"print" .print))

theorem evalProg_eq (n : Nat) (p : List Stmt) : evalProg n p = (evalBlock n State.init [] [printB] p).bind progK := rfl

theorem wb_init (β : Repl) : wb β State.init = State.init := by
  simp [wb, State.init]

theorem prog_ev {p p' : List Stmt} (h : RStmts p p') (n : Nat) : Ev (evalProg n p) (fun m => evalProg m p') := by
  have hb := (simAll n).evalBlock (fun _ => ([], [])) State.init [] [printB] [printB] p p' (good_init _) (RBinds.refl _) h
  rw [wb_init] at hb
  have := Ev.bind (k := progK) (k' := fun _ => progK) hb (by
    intro β esc σ hg
    cases esc <;> exact Ev.of_eq (β := β) (fun _ => rfl) (by first | exact hg | trivial))
  exact this

/-- **Simulation for whole programs.**  If `p'` is `p` with some statement lists `x` (anywhere, also inside function
    bodies) replaced by lists `y` that refine them, then whatever `p` does, `p'` does, up to related function bodies in
    the final heap. -/
theorem prog_sim {p p' : List Stmt} (h : RStmts p p') (n : Nat) (hne : evalProg n p ≠ .timeout) :
    ∃ β' m₀, ∀ m, m₀ ≤ m → evalProg m p' = wbRes β' (evalProg n p) := by
  obtain ⟨β', _, m₀, hm⟩ := prog_ev h n hne
  exact ⟨β', m₀, hm⟩

/-- the observable outcome of an evaluation result, as `run` computes it -/
def outcomeOf (path : List Char) : Res Unit → Outcome
  | .ok _ σ => ⟨σ.out.reverse, .success, []⟩
  | .err e σ => ⟨σ.out.reverse, .failed, evalErrText path e⟩
  | .crash w σ => ⟨σ.out.reverse, .crashed, w⟩
  | .timeout => ⟨[], .timeout, []⟩

/-- the outcome (printed lines, exit status, text on stderr) of running the parsed program `p` -/
def progOutcome (fuel : Nat) (path : List Char) (p : List Stmt) : Outcome := outcomeOf path (evalProg fuel p)

theorem run_eq_progOutcome (fuel : Nat) (path src : List Char) (p : List Stmt) (h : parseProg src = .ok p) :
    run fuel path src = progOutcome fuel path p := by
  unfold run progOutcome
  rw [h]
  dsimp only []
  cases evalProg fuel p <;> rfl

/-- the outcome does not see function bodies -/
theorem outcomeOf_wbRes (path : List Char) (β : Repl) (r : Res Unit) : outcomeOf path (wbRes β r) = outcomeOf path r := by
  cases r <;> rfl

theorem outcome_timeout_iff (path : List Char) (r : Res Unit) : (outcomeOf path r).status = .timeout ↔ r = .timeout := by
  cases r <;> simp [outcomeOf]

/-- **Refinement of outcomes.**  Related programs: every outcome of `p` (exit status, printed lines, text on stderr)
    other than running out of fuel is an outcome of `p'`. -/
theorem prog_outcome_refines {p p' : List Stmt} (h : RStmts p p') (path : List Char) (n : Nat)
    (hne : (progOutcome n path p).status ≠ .timeout) : ∃ m, progOutcome m path p' = progOutcome n path p := by
  have hne' : evalProg n p ≠ .timeout := fun he => hne ((outcome_timeout_iff path _).2 he)
  obtain ⟨β', m₀, hm⟩ := prog_sim h n hne'
  refine ⟨m₀, ?_⟩
  unfold progOutcome
  rw [hm m₀ (Nat.le_refl _), outcomeOf_wbRes]

/-- two programs have the same outcomes: every outcome other than a time-out that one reaches (at some fuel) the other
    reaches too (`FuelEq` for whole programs) -/
def OutcomeEq (p p' : List Stmt) : Prop :=
  ∀ path o, o.status ≠ .timeout → ((∃ n, progOutcome n path p = o) ↔ (∃ n, progOutcome n path p' = o))

theorem outcomeEq_of_rel {p p' : List Stmt} (h1 : RStmts p p') (h2 : RStmts p' p) : OutcomeEq p p' := by
  intro path o ho
  constructor
  · rintro ⟨n, rfl⟩
    exact prog_outcome_refines h1 path n ho
  · rintro ⟨n, rfl⟩
    exact prog_outcome_refines h2 path n ho

/-! ### the relation is closed under the list contexts -/

theorem RStmts.suffix (post : List Stmt) : ∀ {x y : List Stmt}, RStmts x y → RStmts (x ++ post) (y ++ post) := by
  intro x
  induction x with
  | nil =>
    intro y h
    cases h with
    | nil => exact RStmts.refl _
    | hole hxy => exact .hole (ref_suffix hxy post)
  | cons s r ih =>
    intro y h
    cases h with
    | cons hs hr => exact .cons hs (ih hr)
    | hole hxy => exact .hole (ref_suffix hxy post)

theorem RStmts.prefix (pre : List Stmt) {x y : List Stmt} (h : RStmts x y) : RStmts (pre ++ x) (pre ++ y) := by
  induction pre with
  | nil => exact h
  | cons s r ih => exact .cons (RStmt.refl s) ih

theorem RBranches.mid {c c' : Expr} {x y : List Stmt} (hc : RExpr c c') (h : RStmts x y) (before later : List Branch) :
    RBranches (before ++ .mk c x :: later) (before ++ .mk c' y :: later) := by
  induction before with
  | nil => exact .cons hc h (RBranches.refl later)
  | cons b r ih =>
    obtain ⟨bc, bss⟩ := b
    exact .cons (RExpr.refl bc) (RStmts.refl bss) ih

theorem RItems.mid {e e' : Expr} (he : RExpr e e') (s : Bool) (before after : List ListItem) :
    RItems (before ++ .mk e s :: after) (before ++ .mk e' s :: after) := by
  induction before with
  | nil => exact .cons s he (RItems.refl after)
  | cons b r ih =>
    obtain ⟨be, bs⟩ := b
    exact .cons bs (RExpr.refl be) ih

theorem RExprs.mid {e e' : Expr} (he : RExpr e e') (before after : List Expr) :
    RExprs (before ++ e :: after) (before ++ e' :: after) := by
  induction before with
  | nil => exact .cons he (RExprs.refl after)
  | cons b r ih => exact .cons (RExpr.refl b) ih

theorem RProps.mid {p p' : PropItem} (before after : List PropItem)
    (h : ∀ {r r' : List PropItem}, RProps r r' → RProps (p :: r) (p' :: r')) :
    RProps (before ++ p :: after) (before ++ p' :: after) := by
  induction before with
  | nil => exact h (RProps.refl after)
  | cons b r ih =>
    cases b with
    | Pair n v => exact .pair (RExpr.refl n) (RExpr.refl v) ih
    | Single e s c => exact .single s c (RExpr.refl e) ih

/-! ### one-hole contexts with function bodies -/

mutual
/-- a statement list with one hole (for a statement list): the contexts of `SCtx`, the body of a `fn` statement, and
    the statements that contain an expression context -/
inductive FCtx where
  | hole
  | seq (pre : List Stmt) (c : FCtx) (post : List Stmt)
  | block (c : FCtx)
  | ifBranch (before : List Branch) (cond : Expr) (c : FCtx) (later : List Branch) (els : Option (List Stmt))
  | ifElse (branches : List Branch) (c : FCtx)
  | whileBody (cond : Expr) (c : FCtx)
  | forBody (lhs iter : Expr) (c : FCtx)
  /-- `fn name(args) { □ }` -/
  | fnBody (name : List Char) (nameLoc : Loc) (args : List Expr) (collect : Bool) (c : FCtx)
  /-- `e;` -/
  | exprStmt (e : ECtx)
  /-- `lhs := e;` -/
  | declare (lhs : Expr) (e : ECtx)
  /-- `lhs = e;` -/
  | assign (lhs : Expr) (e : ECtx)
  /-- `lhs op= e;` -/
  | opAssign (lhs : Expr) (op : BinaryOp) (opLoc : Loc) (e : ECtx)
  /-- `return e;` -/
  | ret (loc : Loc) (e : ECtx)
  /-- `p := rhs;` with the hole in the pattern `p` (likewise `=`, `op=`, `for p in …`) -/
  | declareLhs (e : ECtx) (rhs : Expr)
  | assignLhs (e : ECtx) (rhs : Expr)
  | opAssignLhs (e : ECtx) (op : BinaryOp) (opLoc : Loc) (rhs : Expr)
  | forLhs (e : ECtx) (iter : Expr) (body : List Stmt)
  /-- `fn name(…, p, …) { body }` with the hole in the parameter pattern `p` -/
  | fnArg (name : List Char) (nameLoc : Loc) (before : List Expr) (e : ECtx) (after : List Expr) (collect : Bool) (body : List Stmt)
  /-- `if … else if e { body } …` -/
  | ifCond (before : List Branch) (e : ECtx) (body : List Stmt) (later : List Branch) (els : Option (List Stmt))
  /-- `while e { body }` -/
  | whileCond (e : ECtx) (body : List Stmt)
  /-- `for lhs in e { body }` -/
  | forIter (lhs : Expr) (e : ECtx) (body : List Stmt)
/-- an expression with one hole for a statement list; the hole is inside the body of a function literal -/
inductive ECtx where
  /-- `fn(args) { □ }` -/
  | fn (args : List Expr) (collect : Bool) (c : FCtx) (loc : Loc)
  /-- `fn(…, p, …) { body }` with the hole in the parameter pattern `p` -/
  | fnArg (before : List Expr) (e : ECtx) (after : List Expr) (collect : Bool) (body : List Stmt) (loc : Loc)
  | binL (op : BinaryOp) (opLoc : Loc) (e : ECtx) (rhs : Expr) (loc : Loc)
  | binR (op : BinaryOp) (opLoc : Loc) (lhs : Expr) (e : ECtx) (loc : Loc)
  | listItem (before : List ListItem) (e : ECtx) (spread : Bool) (after : List ListItem) (collect : Bool) (loc : Loc)
  | indexE (e : ECtx) (i : Expr) (loc : Loc)
  | indexI (x : Expr) (e : ECtx) (loc : Loc)
  | rangeIndexE (e : ECtx) (start stop : Option Expr) (loc : Loc)
  | rangeIndexStart (x : Expr) (e : ECtx) (stop : Option Expr) (loc : Loc)
  | rangeIndexStop (x : Expr) (start : Option Expr) (e : ECtx) (loc : Loc)
  | rangeStart (e : ECtx) (stop : Expr) (loc : Loc)
  | rangeStop (start : Expr) (e : ECtx) (loc : Loc)
  | objKey (before : List PropItem) (e : ECtx) (value : Expr) (after : List PropItem) (loc : Loc)
  | objVal (before : List PropItem) (key : Expr) (e : ECtx) (after : List PropItem) (loc : Loc)
  | objSingle (before : List PropItem) (e : ECtx) (spread collect : Bool) (after : List PropItem) (loc : Loc)
  | prop (e : ECtx) (name : List Char) (typeProp : Bool) (loc : Loc)
  | callee (e : ECtx) (args : List ListItem) (loc : Loc)
  | callArg (f : Expr) (before : List ListItem) (e : ECtx) (spread : Bool) (after : List ListItem) (loc : Loc)
end

mutual
/-- put the statement list `s` in the hole -/
def FCtx.plug : FCtx → List Stmt → List Stmt
  | .hole, s => s
  | .seq pre c post, s => pre ++ c.plug s ++ post
  | .block c, s => [.Block (c.plug s)]
  | .ifBranch before cond c later els, s => [.If (before ++ .mk cond (c.plug s) :: later) els]
  | .ifElse bs c, s => [.If bs (some (c.plug s))]
  | .whileBody cond c, s => [.While cond (c.plug s)]
  | .forBody lhs iter c, s => [.For lhs iter (c.plug s)]
  | .fnBody name nl args collect c, s => [.Func name nl args collect (c.plug s)]
  | .exprStmt e, s => [.Expr (e.plug s)]
  | .declare lhs e, s => [.Declare lhs (e.plug s)]
  | .assign lhs e, s => [.Assign lhs (e.plug s)]
  | .opAssign lhs op ol e, s => [.OpAssign lhs op ol (e.plug s)]
  | .ret l e, s => [.Return l (e.plug s)]
  | .declareLhs e rhs, s => [.Declare (e.plug s) rhs]
  | .assignLhs e rhs, s => [.Assign (e.plug s) rhs]
  | .opAssignLhs e op ol rhs, s => [.OpAssign (e.plug s) op ol rhs]
  | .forLhs e iter body, s => [.For (e.plug s) iter body]
  | .fnArg name nl before e after collect body, s => [.Func name nl (before ++ e.plug s :: after) collect body]
  | .ifCond before e body later els, s => [.If (before ++ .mk (e.plug s) body :: later) els]
  | .whileCond e body, s => [.While (e.plug s) body]
  | .forIter lhs e body, s => [.For lhs (e.plug s) body]
def ECtx.plug : ECtx → List Stmt → Expr
  | .fn args collect c loc, s => .mk (.Func args collect (c.plug s)) loc
  | .fnArg before e after collect body loc, s => .mk (.Func (before ++ e.plug s :: after) collect body) loc
  | .binL op ol e rhs loc, s => .mk (.BinaryOp op ol (e.plug s) rhs) loc
  | .binR op ol lhs e loc, s => .mk (.BinaryOp op ol lhs (e.plug s)) loc
  | .listItem before e spread after collect loc, s => .mk (.List (before ++ .mk (e.plug s) spread :: after) collect) loc
  | .indexE e i loc, s => .mk (.Index (e.plug s) i) loc
  | .indexI x e loc, s => .mk (.Index x (e.plug s)) loc
  | .rangeIndexE e start stop loc, s => .mk (.RangeIndex (e.plug s) start stop) loc
  | .rangeIndexStart x e stop loc, s => .mk (.RangeIndex x (some (e.plug s)) stop) loc
  | .rangeIndexStop x start e loc, s => .mk (.RangeIndex x start (some (e.plug s))) loc
  | .rangeStart e stop loc, s => .mk (.Range (e.plug s) stop) loc
  | .rangeStop start e loc, s => .mk (.Range start (e.plug s)) loc
  | .objKey before e value after loc, s => .mk (.Object (before ++ .Pair (e.plug s) value :: after)) loc
  | .objVal before key e after loc, s => .mk (.Object (before ++ .Pair key (e.plug s) :: after)) loc
  | .objSingle before e spread collect after loc, s => .mk (.Object (before ++ .Single (e.plug s) spread collect :: after)) loc
  | .prop e name tp loc, s => .mk (.Prop (e.plug s) name tp) loc
  | .callee e args loc, s => .mk (.Call (e.plug s) args) loc
  | .callArg f before e spread after loc, s => .mk (.Call f (before ++ .mk (e.plug s) spread :: after)) loc
end

/-- every context of `C01Ctx.lean` is one of these -/
def SCtx.toFCtx : SCtx → FCtx
  | .hole => .hole
  | .seq pre c post => .seq pre c.toFCtx post
  | .block c => .block c.toFCtx
  | .ifBranch before cond c later els => .ifBranch before cond c.toFCtx later els
  | .ifElse bs c => .ifElse bs c.toFCtx
  | .whileBody cond c => .whileBody cond c.toFCtx
  | .forBody lhs iter c => .forBody lhs iter c.toFCtx

theorem SCtx.toFCtx_plug (K : SCtx) (s : List Stmt) : K.toFCtx.plug s = K.plug s := by
  induction K with
  | hole => rfl
  | seq pre c post ih => simp [SCtx.toFCtx, FCtx.plug, SCtx.plug, ih]
  | block c ih => simp [SCtx.toFCtx, FCtx.plug, SCtx.plug, ih]
  | ifBranch before cond c later els ih => simp [SCtx.toFCtx, FCtx.plug, SCtx.plug, ih]
  | ifElse bs c ih => simp [SCtx.toFCtx, FCtx.plug, SCtx.plug, ih]
  | whileBody cond c ih => simp [SCtx.toFCtx, FCtx.plug, SCtx.plug, ih]
  | forBody lhs iter c ih => simp [SCtx.toFCtx, FCtx.plug, SCtx.plug, ih]

mutual
/-- plugging refinement-related lists into one context gives related programs -/
theorem FCtx.plug_rel {s t : List Stmt} (h : Refines s t) : (K : FCtx) → RStmts (K.plug s) (K.plug t)
  | .hole => .hole h
  | .seq pre c post => by
    simp only [FCtx.plug, List.append_assoc]
    exact RStmts.prefix pre (RStmts.suffix post (FCtx.plug_rel h c))
  | .block c => .cons (.block (FCtx.plug_rel h c)) .nil
  | .ifBranch before cond c later els =>
    .cons (.ifs (RBranches.mid (RExpr.refl cond) (FCtx.plug_rel h c) before later) (ROptStmts.refl els)) .nil
  | .ifElse bs c => .cons (.ifs (RBranches.refl bs) (.some (FCtx.plug_rel h c))) .nil
  | .whileBody cond c => .cons (.whileS (RExpr.refl cond) (FCtx.plug_rel h c)) .nil
  | .forBody lhs iter c => .cons (.forS (RExpr.refl lhs) (RExpr.refl iter) (FCtx.plug_rel h c)) .nil
  | .fnBody name nl args collect c => .cons (.func name nl collect (RExprs.refl args) (FCtx.plug_rel h c)) .nil
  | .exprStmt e => .cons (.expr (ECtx.plug_rel h e)) .nil
  | .declare lhs e => .cons (.declare (RExpr.refl lhs) (ECtx.plug_rel h e)) .nil
  | .assign lhs e => .cons (.assign (RExpr.refl lhs) (ECtx.plug_rel h e)) .nil
  | .opAssign lhs op ol e => .cons (.opAssign op ol (RExpr.refl lhs) (ECtx.plug_rel h e)) .nil
  | .declareLhs e rhs => .cons (.declare (ECtx.plug_rel h e) (RExpr.refl rhs)) .nil
  | .assignLhs e rhs => .cons (.assign (ECtx.plug_rel h e) (RExpr.refl rhs)) .nil
  | .opAssignLhs e op ol rhs => .cons (.opAssign op ol (ECtx.plug_rel h e) (RExpr.refl rhs)) .nil
  | .forLhs e iter body => .cons (.forS (ECtx.plug_rel h e) (RExpr.refl iter) (RStmts.refl body)) .nil
  | .fnArg name nl before e after collect body =>
    .cons (.func name nl collect (RExprs.mid (ECtx.plug_rel h e) before after) (RStmts.refl body)) .nil
  | .ret l e => .cons (.ret l (ECtx.plug_rel h e)) .nil
  | .ifCond before e body later els =>
    .cons (.ifs (RBranches.mid (ECtx.plug_rel h e) (RStmts.refl body) before later) (ROptStmts.refl els)) .nil
  | .whileCond e body => .cons (.whileS (ECtx.plug_rel h e) (RStmts.refl body)) .nil
  | .forIter lhs e body => .cons (.forS (RExpr.refl lhs) (ECtx.plug_rel h e) (RStmts.refl body)) .nil
theorem ECtx.plug_rel {s t : List Stmt} (h : Refines s t) : (E : ECtx) → RExpr (E.plug s) (E.plug t)
  | .fn args collect c loc => .mk loc (.func collect (RExprs.refl args) (FCtx.plug_rel h c))
  | .fnArg before e after collect body loc =>
    .mk loc (.func collect (RExprs.mid (ECtx.plug_rel h e) before after) (RStmts.refl body))
  | .binL op ol e rhs loc => .mk loc (.binop op ol (ECtx.plug_rel h e) (RExpr.refl rhs))
  | .binR op ol lhs e loc => .mk loc (.binop op ol (RExpr.refl lhs) (ECtx.plug_rel h e))
  | .listItem before e spread after collect loc => .mk loc (.list collect (RItems.mid (ECtx.plug_rel h e) spread before after))
  | .indexE e i loc => .mk loc (.index (ECtx.plug_rel h e) (RExpr.refl i))
  | .indexI x e loc => .mk loc (.index (RExpr.refl x) (ECtx.plug_rel h e))
  | .rangeIndexE e start stop loc => .mk loc (.rangeIndex (ECtx.plug_rel h e) (ROpt.refl start) (ROpt.refl stop))
  | .rangeIndexStart x e stop loc => .mk loc (.rangeIndex (RExpr.refl x) (.some (ECtx.plug_rel h e)) (ROpt.refl stop))
  | .rangeIndexStop x start e loc => .mk loc (.rangeIndex (RExpr.refl x) (ROpt.refl start) (.some (ECtx.plug_rel h e)))
  | .rangeStart e stop loc => .mk loc (.range (ECtx.plug_rel h e) (RExpr.refl stop))
  | .rangeStop start e loc => .mk loc (.range (RExpr.refl start) (ECtx.plug_rel h e))
  | .objKey before e value after loc =>
    .mk loc (.object (RProps.mid before after (fun hr => .pair (ECtx.plug_rel h e) (RExpr.refl value) hr)))
  | .objVal before key e after loc =>
    .mk loc (.object (RProps.mid before after (fun hr => .pair (RExpr.refl key) (ECtx.plug_rel h e) hr)))
  | .objSingle before e spread collect after loc =>
    .mk loc (.object (RProps.mid before after (fun hr => .single spread collect (ECtx.plug_rel h e) hr)))
  | .prop e name tp loc => .mk loc (.prop name tp (ECtx.plug_rel h e))
  | .callee e args loc => .mk loc (.call (ECtx.plug_rel h e) (RItems.refl args))
  | .callArg f before e spread after loc => .mk loc (.call (RExpr.refl f) (RItems.mid (ECtx.plug_rel h e) spread before after))
end

/-! ### congruence through function bodies -/

/-- **Refinement is preserved by every context, function bodies included** (statement level, one state): whatever
    `K[s]` yields, `K[t]` yields at some fuel, up to related function bodies in the resulting heap.  For a context
    without function bodies (`SCtx`) this is `C01.stmt_ctx_refines` (there the resulting states are equal). -/
theorem fn_ctx_refines_stmts (K : FCtx) {s t : List Stmt} (h : Refines s t) (n : Nat) (σ : State) (sc : List Addr)
    (hne : evalStmts n σ sc (K.plug s) ≠ .timeout) :
    ∃ β' m, GoodRes β' (evalStmts n σ sc (K.plug s)) ∧ evalStmts m σ sc (K.plug t) = wbRes β' (evalStmts n σ sc (K.plug s)) :=
  stmts_sim_same (K.plug_rel h) n σ sc hne

/-- the same between two states that already differ in related function bodies (e.g. because `K[s]` / `K[t]` ran before) -/
theorem fn_ctx_refines_stmts_rel (K : FCtx) {s t : List Stmt} (h : Refines s t) {β : Repl} {σ : State} (hg : Good β σ)
    (sc : List Addr) (n : Nat) (hne : evalStmts n σ sc (K.plug s) ≠ .timeout) :
    ∃ β' m₀, GoodRes β' (evalStmts n σ sc (K.plug s)) ∧
      ∀ m, m₀ ≤ m → evalStmts m (wb β σ) sc (K.plug t) = wbRes β' (evalStmts n σ sc (K.plug s)) :=
  stmts_sim (K.plug_rel h) hg sc n hne

/-- **Refinement of whole programs, function bodies included**: every outcome of the program `K[s]` (exit status,
    printed lines, text on stderr), other than running out of fuel, is an outcome of `K[t]` -/
theorem fn_ctx_refines (K : FCtx) {s t : List Stmt} (h : Refines s t) (path : List Char) (n : Nat)
    (hne : (progOutcome n path (K.plug s)).status ≠ .timeout) :
    ∃ m, progOutcome m path (K.plug t) = progOutcome n path (K.plug s) :=
  prog_outcome_refines (K.plug_rel h) path n hne

/-- **Observational congruence up to fuel, function bodies included.**  If `s` and `t` are equivalent up to fuel in
    every state and scope chain (the hypothesis of `C01.stmt_ctx_congr_upto`), the programs `K[s]` and `K[t]` have the
    same outcomes, for every context `K` — sequences, blocks, `if` / `while` / `for` bodies, bodies of `fn` statements
    and of function literals at any expression position, nested to any depth. -/
theorem fn_ctx_congr_upto (K : FCtx) {s t : List Stmt} (h : UptoEq s t) : OutcomeEq (K.plug s) (K.plug t) :=
  outcomeEq_of_rel (K.plug_rel (uptoEq_iff.1 h).1) (K.plug_rel (uptoEq_iff.1 h).2)

/-- the same for `run` (source text in, exit status / stdout / stderr out): two scripts whose parse trees are `K[s]` and
    `K[t]` have the same outcomes -/
theorem fn_ctx_run (K : FCtx) {s t : List Stmt} (h : UptoEq s t) (path src src' : List Char)
    (hs : parseProg src = .ok (K.plug s)) (hs' : parseProg src' = .ok (K.plug t)) (o : Outcome) (ho : o.status ≠ .timeout) :
    (∃ n, run n path src = o) ↔ (∃ n, run n path src' = o) := by
  have := fn_ctx_congr_upto K h path o ho
  simpa only [run_eq_progOutcome _ path src _ hs, run_eq_progOutcome _ path src' _ hs'] using this

end Seed.C01
