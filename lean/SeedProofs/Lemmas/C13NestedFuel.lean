/-
  C13NestedFuel.lean — the nested-pattern theorem at *every* fuel: the engine either runs out of fuel or answers
  as the pure engine `pmatch` does (from `bindNext_pat` and fuel monotonicity `monoAll`).
-/
import SeedProofs.Lemmas.C13Nested
import SeedProofs.Lemmas.EvalMono
namespace Seed.C13N
open Seed Gen

theorem bindNext_stable {k n : Nat} (h : k ≤ n) {σ : State} {sc : List Addr} {names : List (List Char)} {lhs : Expr}
    {rhs : SVal} {op : Option (BinaryOp × Loc)} {decl : Bool} {r : Res (List (List Char))}
    (hr : bindNext k σ sc names lhs rhs op decl = r) (hne : r ≠ .timeout) : bindNext n σ sc names lhs rhs op decl = r := by
  induction h with
  | refl => exact hr
  | step _ ih =>
    rename_i j _
    rcases (monoAll j).bindNext σ sc names lhs rhs op decl with h' | h'
    · rw [ih] at h'; exact absurd h' hne
    · rw [← h', ih]

theorem toRes_ne_timeout (a : Addr) (r : MRes) : r.toRes a ≠ .timeout := by
  cases r <;> (intro h; cases h)

/-- at any fuel: a time-out, or the answer of the pure engine -/
theorem bindNext_pat_any {σ : State} {a : Addr} {m : ScopeMap} (sc : List Addr) (names : List (List Char)) (p : Pat)
    (v : SVal) (hs : σ.getScope a = some m) (fuel : Nat) :
    bindNext fuel σ (a :: sc) names p.toExpr v none true = .timeout ∨
    bindNext fuel σ (a :: sc) names p.toExpr v none true = (pmatch p names m σ v).toRes a := by
  by_cases ht : bindNext fuel σ (a :: sc) names p.toExpr v none true = .timeout
  · exact Or.inl ht
  · right
    have h1 := bindNext_stable (Nat.le_max_left fuel p.size) rfl ht
    have h2 := bindNext_pat a sc p (max fuel p.size) names m σ v (Nat.le_max_right _ _) ⟨m, hs⟩
    rw [set_self hs] at h2
    rw [← h1, h2]

end Seed.C13N
