/-
  Lemmas/C04EquivDefs.lean — consistent renaming of variables: the action of a renaming `π` on syntax, on states
  (same addresses: scope cells get their keys renamed, function cells their stored parameter patterns and bodies), on
  errors (the name a diagnostic mentions) and on results; the syntactic side condition `ok…` (names that double as
  object keys or as the printed name of a function are fixed by `π`; interpolation slots, which are parsed at run time
  from the text of the literal, satisfy a predicate `P` supplied by the user); the invariant `Good` ("every function
  cell holds `ok` code"); the simulation relation `Sim` and its congruence rules.
-/
import SeedProofs.Lemmas.C04Rename
namespace Seed
namespace Eqv
open ScopeL

variable (π : List Char → List Char)

/-! ### the action on syntax: every `Var` name and every `fn` statement name is renamed -/

mutual
def rRaw : RawExpr → RawExpr
  | .Null => .Null
  | .Bool b => .Bool b
  | .Int n => .Int n
  | .Str s sl => .Str s sl
  | .Var n => .Var (π n)
  | .BinaryOp op l a b => .BinaryOp op l (rExpr a) (rExpr b)
  | .List items c => .List (rItems items) c
  | .Index e i => .Index (rExpr e) (rExpr i)
  | .RangeIndex e a b => .RangeIndex (rExpr e) (rOpt a) (rOpt b)
  | .Range a b => .Range (rExpr a) (rExpr b)
  | .Object ps => .Object (rProps ps)
  | .Prop e n t => .Prop (rExpr e) n t
  | .Func args c ss => .Func (rExprs args) c (rStmts ss)
  | .Call f args => .Call (rExpr f) (rItems args)
def rExpr : Expr → Expr
  | .mk r l => .mk (rRaw r) l
def rOpt : Option Expr → Option Expr
  | none => none
  | some e => some (rExpr e)
def rExprs : List Expr → List Expr
  | [] => []
  | e :: r => rExpr e :: rExprs r
def rItem : ListItem → ListItem
  | .mk e s => .mk (rExpr e) s
def rItems : List ListItem → List ListItem
  | [] => []
  | i :: r => rItem i :: rItems r
def rProp : PropItem → PropItem
  | .Pair n v => .Pair (rExpr n) (rExpr v)
  | .Single e s c => .Single (rExpr e) s c
def rProps : List PropItem → List PropItem
  | [] => []
  | p :: r => rProp p :: rProps r
def rStmt : Stmt → Stmt
  | .Block b => .Block (rStmts b)
  | .Expr e => .Expr (rExpr e)
  | .Declare l r => .Declare (rExpr l) (rExpr r)
  | .Assign l r => .Assign (rExpr l) (rExpr r)
  | .OpAssign l op ol r => .OpAssign (rExpr l) op ol (rExpr r)
  | .If bs els => .If (rBranches bs) (rOptStmts els)
  | .While c ss => .While (rExpr c) (rStmts ss)
  | .For l i ss => .For (rExpr l) (rExpr i) (rStmts ss)
  | .Break l => .Break l
  | .Continue l => .Continue l
  | .Func name nl args c ss => .Func (π name) nl (rExprs args) c (rStmts ss)
  | .Return l e => .Return l (rExpr e)
def rStmts : List Stmt → List Stmt
  | [] => []
  | s :: r => rStmt s :: rStmts r
def rOptStmts : Option (List Stmt) → Option (List Stmt)
  | none => none
  | some ss => some (rStmts ss)
def rBranch : Branch → Branch
  | .mk c ss => .mk (rExpr c) (rStmts ss)
def rBranches : List Branch → List Branch
  | [] => []
  | b :: r => rBranch b :: rBranches r
end

def rBinds (bs : List (Expr × SVal)) : List (Expr × SVal) := bs.map fun b => (rExpr π b.1, b.2)

/-! ### the side condition -/

/-- if the expression is a variable, `π` fixes its name -/
def FixVar (e : Expr) : Prop := ∀ a, e.raw = .Var a → π a = a

variable (P : Expr → Prop)

/-- every interpolation slot of the literal parses to an expression satisfying `P` -/
def SlotsP (s : List Char) (slots : List (Nat × Nat)) : Prop :=
  ∀ p, p ∈ slots → ∀ ast, parseExprTop (sliceChars s (p.1 + 2) (p.2 - 1)) = .ok ast → P ast

mutual
def okRaw : RawExpr → Prop
  | .Null => True
  | .Bool _ => True
  | .Int _ => True
  | .Str _ none => True
  | .Str s (some slots) => SlotsP P s slots
  | .Var _ => True
  | .BinaryOp _ _ a b => okExpr a ∧ okExpr b
  | .List items _ => okItems items
  | .Index e i => okExpr e ∧ okExpr i
  | .RangeIndex e a b => okExpr e ∧ okOpt a ∧ okOpt b
  | .Range a b => okExpr a ∧ okExpr b
  | .Object ps => okProps ps
  | .Prop e _ _ => okExpr e
  | .Func args _ ss => okExprs args ∧ okStmts ss
  | .Call f args => okExpr f ∧ okItems args
def okExpr : Expr → Prop
  | .mk r _ => okRaw r
def okOpt : Option Expr → Prop
  | none => True
  | some e => okExpr e
def okExprs : List Expr → Prop
  | [] => True
  | e :: r => okExpr e ∧ okExprs r
def okItem : ListItem → Prop
  | .mk e _ => okExpr e
def okItems : List ListItem → Prop
  | [] => True
  | i :: r => okItem i ∧ okItems r
/-- object shorthand `{a}` (expression or pattern) uses the variable's name as the key: `π` must fix it -/
def okProp : PropItem → Prop
  | .Pair n v => okExpr n ∧ okExpr v
  | .Single e s c => okExpr e ∧ (s = false → c = false → FixVar π e)
def okProps : List PropItem → Prop
  | [] => True
  | p :: r => okProp p ∧ okProps r
/-- the name of a `fn` statement is shown by `print` and by stack traces: `π` must fix it -/
def okStmt : Stmt → Prop
  | .Block b => okStmts b
  | .Expr e => okExpr e
  | .Declare l r => okExpr l ∧ okExpr r
  | .Assign l r => okExpr l ∧ okExpr r
  | .OpAssign l _ _ r => okExpr l ∧ okExpr r
  | .If bs els => okBranches bs ∧ okOptStmts els
  | .While c ss => okExpr c ∧ okStmts ss
  | .For l i ss => okExpr l ∧ okExpr i ∧ okStmts ss
  | .Break _ => True
  | .Continue _ => True
  | .Func name _ args _ ss => π name = name ∧ okExprs args ∧ okStmts ss
  | .Return _ e => okExpr e
def okStmts : List Stmt → Prop
  | [] => True
  | s :: r => okStmt s ∧ okStmts r
def okOptStmts : Option (List Stmt) → Prop
  | none => True
  | some ss => okStmts ss
def okBranch : Branch → Prop
  | .mk c ss => okExpr c ∧ okStmts ss
def okBranches : List Branch → Prop
  | [] => True
  | b :: r => okBranch b ∧ okBranches r
end

def okBinds (bs : List (Expr × SVal)) : Prop := ∀ b, b ∈ bs → okExpr π P b.1

/-! ### the action on states, errors and results -/

def rFr (fr : FuncRec) : FuncRec := ⟨fr.name, rExprs π fr.args, fr.collect, rStmts π fr.stmts, fr.closure⟩

def rCell : Cell → Cell
  | .scope m => .scope (Ren.map π m)
  | .func f => .func (rFr π f)
  | .list xs => .list xs
  | .obj m => .obj m

def rSt (σ : State) : State := ⟨σ.heap.map (rCell π), σ.out⟩

/-- the diagnostics that mention a variable name -/
def rLeaf : Gen.Leaf → Gen.Leaf
  | .Undefined n => .Undefined (π n)
  | .AlreadyInBinding n => .AlreadyInBinding (π n)
  | .AlreadyInScope n l c => .AlreadyInScope (π n) l c
  | .DupParamName n l c => .DupParamName (π n) l c
  | l => l

def rErr : Err → Err
  | .leaf l => .leaf (rLeaf π l)
  | .atLoc l c e => .atLoc l c (rErr e)
  | .funcCall n cl e => .funcCall n cl (rErr e)
  | .builtinCall n cl e => .builtinCall n cl (rErr e)

def rRes {α} (fa : α → α) : Res α → Res α
  | .ok a σ => .ok (fa a) (rSt π σ)
  | .err e σ => .err (rErr π e) (rSt π σ)
  | .crash w σ => .crash w (rSt π σ)
  | .timeout => .timeout

/-- every function cell holds code satisfying the side condition -/
def Good (σ : State) : Prop := ∀ a fr, σ.getFunc a = some fr → okExprs π P fr.args ∧ okStmts π P fr.stmts

def GoodRes {α} : Res α → Prop
  | .ok _ σ => Good π P σ
  | _ => True

/-- `r'` (the run of the renamed program from the renamed state) is the renaming of `r`, and `r` ends in a good state -/
def Sim {α} (fa : α → α) (r' r : Res α) : Prop := r' = rRes π fa r ∧ GoodRes π P r

/-! ### reading the renamed state -/

@[simp] theorem size_rSt (σ : State) : (rSt π σ).heap.size = σ.heap.size := by simp [rSt]
@[simp] theorem out_rSt (σ : State) : (rSt π σ).out = σ.out := rfl

theorem heap_rSt (σ : State) (a : Addr) : (rSt π σ).heap[a]? = (σ.heap[a]?).map (rCell π) := by
  simp [rSt]

@[simp] theorem getList_rSt (σ : State) (a : Addr) : (rSt π σ).getList a = σ.getList a := by
  unfold State.getList; rw [heap_rSt]
  cases σ.heap[a]? with
  | none => rfl
  | some c => cases c <;> rfl

@[simp] theorem getObj_rSt (σ : State) (a : Addr) : (rSt π σ).getObj a = σ.getObj a := by
  unfold State.getObj; rw [heap_rSt]
  cases σ.heap[a]? with
  | none => rfl
  | some c => cases c <;> rfl

theorem getScope_rSt (σ : State) (a : Addr) : (rSt π σ).getScope a = (σ.getScope a).map (Ren.map π) := by
  unfold State.getScope; rw [heap_rSt]
  cases σ.heap[a]? with
  | none => rfl
  | some c => cases c <;> rfl

theorem getFunc_rSt (σ : State) (a : Addr) : (rSt π σ).getFunc a = (σ.getFunc a).map (rFr π) := by
  unfold State.getFunc; rw [heap_rSt]
  cases σ.heap[a]? with
  | none => rfl
  | some c => cases c <;> rfl

/-! ### writing the renamed state -/

/-- the state after an allocation (so that `σ.alloc c` is the explicit pair `(σ.heap.size, allocS σ c)`) -/
def allocS (σ : State) (c : Cell) : State := (σ.alloc c).2

theorem alloc_pair (σ : State) (c : Cell) : σ.alloc c = (σ.heap.size, allocS σ c) := rfl

theorem allocS_rSt (σ : State) (c : Cell) : allocS (rSt π σ) (rCell π c) = rSt π (allocS σ c) := by
  simp [allocS, State.alloc, rSt]

@[simp] theorem allocS_rSt_list (σ : State) (xs : List SVal) : allocS (rSt π σ) (.list xs) = rSt π (allocS σ (.list xs)) :=
  allocS_rSt π σ (.list xs)
@[simp] theorem allocS_rSt_obj (σ : State) (m : ObjMap) : allocS (rSt π σ) (.obj m) = rSt π (allocS σ (.obj m)) :=
  allocS_rSt π σ (.obj m)
@[simp] theorem allocS_rSt_scope (σ : State) : allocS (rSt π σ) (.scope []) = rSt π (allocS σ (.scope [])) :=
  allocS_rSt π σ (.scope [])
theorem allocS_rSt_func (σ : State) (fr : FuncRec) : allocS (rSt π σ) (.func (rFr π fr)) = rSt π (allocS σ (.func fr)) :=
  allocS_rSt π σ (.func fr)

theorem set_rSt (σ : State) (a : Addr) (c : Cell) : (rSt π σ).set a (rCell π c) = rSt π (σ.set a c) := by
  simp [State.set, rSt, Array.map_setIfInBounds]

@[simp] theorem set_rSt_list (σ : State) (a : Addr) (xs : List SVal) : (rSt π σ).set a (.list xs) = rSt π (σ.set a (.list xs)) :=
  set_rSt π σ a (.list xs)
@[simp] theorem set_rSt_obj (σ : State) (a : Addr) (m : ObjMap) : (rSt π σ).set a (.obj m) = rSt π (σ.set a (.obj m)) :=
  set_rSt π σ a (.obj m)
theorem set_rSt_scope (σ : State) (a : Addr) (m : ScopeMap) :
    (rSt π σ).set a (.scope (Ren.map π m)) = rSt π (σ.set a (.scope m)) :=
  set_rSt π σ a (.scope m)

@[simp] theorem print_rSt (σ : State) (l : List Char) : (rSt π σ).print l = rSt π (σ.print l) := rfl

/-! ### `Good` is kept by every write -/

variable {π P}

theorem getFunc_heap {σ : State} {a : Addr} {fr : FuncRec} : σ.getFunc a = some fr ↔ σ.heap[a]? = some (.func fr) := by
  unfold State.getFunc
  cases hc : σ.heap[a]? with
  | none => simp
  | some c => cases c <;> simp

theorem good_init : Good π P State.init := by
  intro a fr h
  simp [State.getFunc, State.init] at h

theorem good_allocS {σ : State} (h : Good π P σ) (c : Cell)
    (hc : ∀ fr, c = .func fr → okExprs π P fr.args ∧ okStmts π P fr.stmts) : Good π P (allocS σ c) := by
  intro a fr ha
  have ha' := getFunc_heap.mp ha
  by_cases hlt : a < σ.heap.size
  · rw [allocS, alloc_old σ c hlt] at ha'
    exact h a fr (getFunc_heap.mpr ha')
  · by_cases heq : a = σ.heap.size
    · subst heq
      rw [allocS, alloc_new] at ha'
      exact hc fr (by cases ha'; rfl)
    · have hlt2 : a < (allocS σ c).heap.size := (Array.getElem?_eq_some_iff.mp ha').1
      rw [allocS, alloc_size] at hlt2
      rcases Nat.lt_or_eq_of_le (Nat.le_of_lt_succ hlt2) with h1 | h1
      · exact (hlt h1).elim
      · exact (heq h1).elim

theorem good_allocS_list {σ : State} (xs : List SVal) (h : Good π P σ) : Good π P (allocS σ (.list xs)) :=
  good_allocS h _ (fun _ e => by cases e)
theorem good_allocS_obj {σ : State} (m : ObjMap) (h : Good π P σ) : Good π P (allocS σ (.obj m)) :=
  good_allocS h _ (fun _ e => by cases e)
theorem good_allocS_scope {σ : State} (m : ScopeMap) (h : Good π P σ) : Good π P (allocS σ (.scope m)) :=
  good_allocS h _ (fun _ e => by cases e)
theorem good_allocS_func {σ : State} (fr : FuncRec) (h : Good π P σ) (h1 : okExprs π P fr.args) (h2 : okStmts π P fr.stmts) :
    Good π P (allocS σ (.func fr)) :=
  good_allocS h _ (fun _ e => by cases e; exact ⟨h1, h2⟩)

theorem good_set {σ : State} (h : Good π P σ) (a : Addr) (c : Cell) (hc : ∀ fr, c ≠ .func fr) : Good π P (σ.set a c) := by
  intro b fr hb
  have hb' := getFunc_heap.mp hb
  by_cases hba : b = a
  · subst hba
    by_cases hlt : b < σ.heap.size
    · rw [set_same σ b c hlt] at hb'
      exact absurd (by cases hb'; rfl) (hc fr)
    · rw [set_same_oob σ b c hlt] at hb; exact h b fr hb
  · rw [set_other σ a c hba] at hb'
    exact h b fr (getFunc_heap.mpr hb')

theorem good_set_list {σ : State} (a : Addr) (xs : List SVal) (h : Good π P σ) : Good π P (σ.set a (.list xs)) :=
  good_set h a _ (fun _ e => by cases e)
theorem good_set_obj {σ : State} (a : Addr) (m : ObjMap) (h : Good π P σ) : Good π P (σ.set a (.obj m)) :=
  good_set h a _ (fun _ e => by cases e)
theorem good_set_scope {σ : State} (a : Addr) (m : ScopeMap) (h : Good π P σ) : Good π P (σ.set a (.scope m)) :=
  good_set h a _ (fun _ e => by cases e)
theorem good_print {σ : State} (l : List Char) (h : Good π P σ) : Good π P (σ.print l) := h

/-! ### congruence rules for `Sim` -/

namespace Sim
variable {α β : Type} {fa : α → α} {fb : β → β}

theorem of_eq {r' r : Res α} (h : r' = rRes π fa r) (g : GoodRes π P r) : Sim π P fa r' r := ⟨h, g⟩

theorem timeout : Sim π P fa (.timeout : Res α) .timeout := ⟨rfl, trivial⟩

theorem ok {a : α} {σ : State} (g : Good π P σ) : Sim π P fa (.ok (fa a) (rSt π σ)) (.ok a σ) := ⟨rfl, g⟩

theorem bind {r' r : Res α} {g' g : α → State → Res β} (h : Sim π P fa r' r)
    (hg : ∀ a σ1, Good π P σ1 → Sim π P fb (g' (fa a) (rSt π σ1)) (g a σ1)) :
    Sim π P fb (r'.bind g') (r.bind g) := by
  obtain ⟨h1, h2⟩ := h
  subst h1
  cases r with
  | ok a σ1 => exact hg a σ1 h2
  | err e σ1 => exact ⟨rfl, trivial⟩
  | crash w σ1 => exact ⟨rfl, trivial⟩
  | timeout => exact ⟨rfl, trivial⟩

theorem map {r' r : Res α} {f : α → β} (h : Sim π P fa r' r) (hf : ∀ a, f (fa a) = fb (f a)) :
    Sim π P fb (r'.map f) (r.map f) := by
  obtain ⟨h1, h2⟩ := h
  subst h1
  cases r with
  | ok a σ1 => exact ⟨by simp [Res.map, rRes, hf], h2⟩
  | err e σ1 => exact ⟨rfl, trivial⟩
  | crash w σ1 => exact ⟨rfl, trivial⟩
  | timeout => exact ⟨rfl, trivial⟩

theorem mapErr {r' r : Res α} {f : Err → Err} (h : Sim π P fa r' r) (hf : ∀ e, f (rErr π e) = rErr π (f e)) :
    Sim π P fa (r'.mapErr f) (r.mapErr f) := by
  obtain ⟨h1, h2⟩ := h
  subst h1
  cases r with
  | ok a σ1 => exact ⟨rfl, h2⟩
  | err e σ1 => exact ⟨by simp [Res.mapErr, rRes, hf], trivial⟩
  | crash w σ1 => exact ⟨rfl, trivial⟩
  | timeout => exact ⟨rfl, trivial⟩

end Sim

end Eqv
end Seed
