/-
  Lemmas/C09Int.lean — integer literals: the token of a run of digits and `_` (starting with a digit,
  followed by something that is neither) is the value of its digits; `_` separators do not matter.
-/
import SeedModel.Lex
import SeedProofs.Lemmas.Scan
import SeedProofs.Lemmas.C09Pos
import SeedProofs.Lemmas.C09Layout
import SeedProofs.Lemmas.C09Local
namespace Seed.C09
open Seed

theorem digit_not_blank {d : Char} (h : isAsciiDigit d = true) : ¬ isBlank d := by
  intro hb
  rcases hb with rfl | rfl | rfl | hb
  · revert h; decide
  · revert h; decide
  · revert h; decide
  · unfold isAsciiDigit at h
    simp only [Bool.and_eq_true, decide_eq_true_eq, hb] at h
    exact absurd h.1 (by decide)

theorem digit_ne {d e : Char} (h : isAsciiDigit d = true) (he : isAsciiDigit e = false) : d ≠ e := by
  rintro rfl; rw [h] at he; cases he

theorem digit_not_alpha {d : Char} (h : isAsciiDigit d = true) : isAsciiAlpha d = false := by
  unfold isAsciiDigit at h
  unfold isAsciiAlpha
  simp only [Bool.and_eq_true, decide_eq_true_eq, Char.reduceToNat] at h
  simp only [Char.reduceToNat, Bool.or_eq_false_iff, Bool.and_eq_false_imp, decide_eq_true_eq,
    decide_eq_false_iff_not]
  omega

/-- on a digit, `nextToken` reads an integer literal -/
theorem tokBody_digit {d : Char} (h : isAsciiDigit d = true) (s : Scanner) : tokBody d s = lexInt s := by
  have h1 : (d = '\n' || d = ';') = false := by
    have a := digit_ne (e := '\n') h (by decide)
    have b := digit_ne (e := ';') h (by decide)
    simp [a, b]
  have h2 : (isAsciiAlpha d || d = '_') = false := by
    have a := digit_ne (e := '_') h (by decide)
    simp [a, digit_not_alpha h]
  unfold tokBody
  simp only [h1, h2, h, Bool.false_eq_true, if_false, if_true]

/-- the result of `lexInt` on a maximal run `raw` of digits and `_` -/
theorem lexInt_run (raw x : List Char) (l c : Nat) (hall : ∀ ch ∈ raw, isIntChar ch = true)
    (hx : ∀ e, x.head? = some e → isIntChar e = false) :
    exK (lexInt ⟨raw ++ x, l, c⟩) =
      if decimalValue (raw.filter (fun ch => ch ≠ '_')) ≤ i64Max then
        .ok (Token.IntLiteral (Int.ofNat (decimalValue (raw.filter (fun ch => ch ≠ '_')))), x)
      else .error (LexError.IntOverflow (0, 0) raw) := by
  unfold lexInt
  simp only [takeWhile_of_boundary hall hx]
  split
  · simp only [exK, Scanner.advance_rest, List.drop_left]
  · simp only [exK, eraseLoc]

/-- one token: a run starting with a digit -/
theorem nextToken_int (d : Char) (raw x : List Char) (l c : Nat) (hd : isAsciiDigit d = true)
    (hall : ∀ ch ∈ d :: raw, isIntChar ch = true) (hx : ∀ e, x.head? = some e → isIntChar e = false) :
    kind (nextToken ⟨d :: raw ++ x, l, c⟩) =
      if decimalValue ((d :: raw).filter (fun ch => ch ≠ '_')) ≤ i64Max then
        .tok (Token.IntLiteral (Int.ofNat (decimalValue ((d :: raw).filter (fun ch => ch ≠ '_'))))) x
      else .err (LexError.IntOverflow (0, 0) (d :: raw)) := by
  have hsk : Scanner.skipWs ⟨d :: raw ++ x, l, c⟩ = ⟨d :: raw ++ x, l, c⟩ := by
    simp only [Scanner.skipWs, List.cons_append]
    exact skipWs_stop (digit_not_blank hd) (digit_ne hd (by decide)) _ _ _
  rw [kind_of_tokBody, hsk]
  simp only [List.cons_append]
  rw [tokBody_digit hd]
  have := lexInt_run (d :: raw) x l c hall hx
  simp only [List.cons_append] at this
  rw [this]
  by_cases hle : decimalValue ((d :: raw).filter (fun ch => ch ≠ '_')) ≤ i64Max
  · simp only [hle, if_true]
  · simp only [hle, if_false]

/-- digits are not `_`: filtering a digit string changes nothing -/
theorem filter_digits {ds : List Char} (h : ∀ ch ∈ ds, isAsciiDigit ch = true) :
    ds.filter (fun ch => ch ≠ '_') = ds := by
  apply List.filter_eq_self.mpr
  intro ch hc
  have := digit_ne (e := '_') (h ch hc) (by decide)
  simpa using this

end Seed.C09
