/-
  ParseRT2Rel.lean — fuel-free view of the rest of the expression grammar (extends ParseRel.lean):
  relations `PLoop` (postfixLoop), `PPost` (parsePostfix), `PIdx`, `PREnd`, `PExpr`, `PArgs`, `PList`,
  `PParams`, `PProps`, `PPropTail`, and one constructor lemma per production.
-/
import SeedProofs.Lemmas.ParseRT2Defs
set_option linter.unusedSimpArgs false
namespace Seed

/-! ### success is stable in the fuel, for every function of the parser -/

theorem PRes.ok_of_step {α} {g : Nat → PRes α} (hm : ∀ n, PRes.Le (g n) (g (n + 1))) {m n : Nat} (h : m ≤ n)
    {a : α} {r : List Span} (hok : g m = .ok a r) : g n = .ok a r :=
  (PRes.Le.of_step g hm h).ok hok

/-- a fuel-free success is the result at every fuel that does not time out -/
theorem PRes.at_fuel_of_step {α} {g : Nat → PRes α} (hm : ∀ n, PRes.Le (g n) (g (n + 1))) {a : α} {r : List Span}
    (h : ∃ f, g f = .ok a r) (fuel : Nat) (hnt : g fuel ≠ .timeout) : g fuel = .ok a r := by
  obtain ⟨f, hok⟩ := h
  rcases Nat.le_total f fuel with hle | hle
  · exact PRes.ok_of_step hm hle hok
  · rcases PRes.Le.of_step g hm hle with h1 | h1
    · exact absurd h1 hnt
    · rw [h1]; exact hok

theorem postfixLoop_ok_mono {m n l acc ts e r} (h : m ≤ n) (hok : postfixLoop m l acc ts = .ok e r) :
    postfixLoop n l acc ts = .ok e r :=
  PRes.ok_of_step (g := fun n => postfixLoop n l acc ts) (fun n => (pmonoAll n).postfixLoop l acc ts) h hok
theorem parsePostfix_ok_mono {m n l pre ts e r} (h : m ≤ n) (hok : parsePostfix m l pre ts = .ok e r) :
    parsePostfix n l pre ts = .ok e r :=
  PRes.ok_of_step (g := fun n => parsePostfix n l pre ts) (fun n => (pmonoAll n).parsePostfix l pre ts) h hok
theorem parseIndexTail_ok_mono {m n e ts x r} (h : m ≤ n) (hok : parseIndexTail m e ts = .ok x r) :
    parseIndexTail n e ts = .ok x r :=
  PRes.ok_of_step (g := fun n => parseIndexTail n e ts) (fun n => (pmonoAll n).parseIndexTail e ts) h hok
theorem parseRangeEnd_ok_mono {m n e s ts x r} (h : m ≤ n) (hok : parseRangeEnd m e s ts = .ok x r) :
    parseRangeEnd n e s ts = .ok x r :=
  PRes.ok_of_step (g := fun n => parseRangeEnd n e s ts) (fun n => (pmonoAll n).parseRangeEnd e s ts) h hok
theorem parseExpr_ok_mono {m n s ts x r} (h : m ≤ n) (hok : parseExpr m s ts = .ok x r) :
    parseExpr n s ts = .ok x r :=
  PRes.ok_of_step (g := fun n => parseExpr n s ts) (fun n => (pmonoAll n).parseExpr s ts) h hok
theorem parseArgs_ok_mono {m n acc ts x r} (h : m ≤ n) (hok : parseArgs m acc ts = .ok x r) :
    parseArgs n acc ts = .ok x r :=
  PRes.ok_of_step (g := fun n => parseArgs n acc ts) (fun n => (pmonoAll n).parseArgs acc ts) h hok
theorem parseExprList_ok_mono {m n acc ts x r} (h : m ≤ n) (hok : parseExprList m acc ts = .ok x r) :
    parseExprList n acc ts = .ok x r :=
  PRes.ok_of_step (g := fun n => parseExprList n acc ts) (fun n => (pmonoAll n).parseExprList acc ts) h hok
theorem parseParams_ok_mono {m n acc ts x r} (h : m ≤ n) (hok : parseParams m acc ts = .ok x r) :
    parseParams n acc ts = .ok x r :=
  PRes.ok_of_step (g := fun n => parseParams n acc ts) (fun n => (pmonoAll n).parseParams acc ts) h hok
theorem parsePropItems_ok_mono {m n acc ts x r} (h : m ≤ n) (hok : parsePropItems m acc ts = .ok x r) :
    parsePropItems n acc ts = .ok x r :=
  PRes.ok_of_step (g := fun n => parsePropItems n acc ts) (fun n => (pmonoAll n).parsePropItems acc ts) h hok
theorem parsePropTail_ok_mono {m n acc ts x r} (h : m ≤ n) (hok : parsePropTail m acc ts = .ok x r) :
    parsePropTail n acc ts = .ok x r :=
  PRes.ok_of_step (g := fun n => parsePropTail n acc ts) (fun n => (pmonoAll n).parsePropTail acc ts) h hok
theorem parseBlock_ok_mono {m n ts x r} (h : m ≤ n) (hok : parseBlock m ts = .ok x r) :
    parseBlock n ts = .ok x r :=
  PRes.ok_of_step (g := fun n => parseBlock n ts) (fun n => (pmonoAll n).parseBlock ts) h hok
theorem parseStmts_ok_mono {m n c acc ts x r} (h : m ≤ n) (hok : parseStmts m c acc ts = .ok x r) :
    parseStmts n c acc ts = .ok x r :=
  PRes.ok_of_step (g := fun n => parseStmts n c acc ts) (fun n => (pmonoAll n).parseStmts c acc ts) h hok
theorem parseIf_ok_mono {m n ts x r} (h : m ≤ n) (hok : parseIf m ts = .ok x r) :
    parseIf n ts = .ok x r :=
  PRes.ok_of_step (g := fun n => parseIf n ts) (fun n => (pmonoAll n).parseIf ts) h hok
theorem parseStmtTail_ok_mono {m n lhs ts x r} (h : m ≤ n) (hok : parseStmtTail m lhs ts = .ok x r) :
    parseStmtTail n lhs ts = .ok x r :=
  PRes.ok_of_step (g := fun n => parseStmtTail n lhs ts) (fun n => (pmonoAll n).parseStmtTail lhs ts) h hok
theorem parseExprStmt_ok_mono {m n amb l pre ts x r} (h : m ≤ n) (hok : parseExprStmt m amb l pre ts = .ok x r) :
    parseExprStmt n amb l pre ts = .ok x r :=
  PRes.ok_of_step (g := fun n => parseExprStmt n amb l pre ts) (fun n => (pmonoAll n).parseExprStmt amb l pre ts) h hok
theorem parseRawStmt_ok_mono {m n amb ts x r} (h : m ≤ n) (hok : parseRawStmt m amb ts = .ok x r) :
    parseRawStmt n amb ts = .ok x r :=
  PRes.ok_of_step (g := fun n => parseRawStmt n amb ts) (fun n => (pmonoAll n).parseRawStmt amb ts) h hok
theorem parseBraceStmt_ok_mono {m n amb l ts x r} (h : m ≤ n) (hok : parseBraceStmt m amb l ts = .ok x r) :
    parseBraceStmt n amb l ts = .ok x r :=
  PRes.ok_of_step (g := fun n => parseBraceStmt n amb l ts) (fun n => (pmonoAll n).parseBraceStmt amb l ts) h hok

/-! ### relations -/

def PLoop (loc : Loc) (acc : RawExpr) (ts : List Span) (e : RawExpr) (r : List Span) : Prop :=
  ∃ f, postfixLoop f loc acc ts = .ok e r
def PPost (loc : Loc) (pre : Option RawExpr) (ts : List Span) (e : RawExpr) (r : List Span) : Prop :=
  ∃ f, parsePostfix f loc pre ts = .ok e r
def PIdx (e : Expr) (ts : List Span) (x : RawExpr) (r : List Span) : Prop :=
  ∃ f, parseIndexTail f e ts = .ok x r
def PREnd (e : Expr) (start : Option Expr) (ts : List Span) (x : RawExpr) (r : List Span) : Prop :=
  ∃ f, parseRangeEnd f e start ts = .ok x r
def PExpr (s : Bool) (ts : List Span) (e : Expr) (r : List Span) : Prop :=
  ∃ f, parseExpr f s ts = .ok e r
def PArgs (acc : List ListItem) (ts : List Span) (items : List ListItem) (r : List Span) : Prop :=
  ∃ f, parseArgs f acc ts = .ok items r
def PList (acc : List ListItem) (ts : List Span) (res : List ListItem × Bool) (r : List Span) : Prop :=
  ∃ f, parseExprList f acc ts = .ok res r
def PParams (acc : List Expr) (ts : List Span) (res : List Expr × Bool) (r : List Span) : Prop :=
  ∃ f, parseParams f acc ts = .ok res r
def PProps (acc : List PropItem) (ts : List Span) (res : List PropItem) (r : List Span) : Prop :=
  ∃ f, parsePropItems f acc ts = .ok res r
def PPropTail (acc : List PropItem) (ts : List Span) (res : List PropItem) (r : List Span) : Prop :=
  ∃ f, parsePropTail f acc ts = .ok res r
def PBlock (ts : List Span) (stmts : List Stmt) (r : List Span) : Prop :=
  ∃ f, parseBlock f ts = .ok stmts r

/-! ### expressions with a position -/

theorem PExpr.mk {s : Bool} {ts r : List Span} {e : RawExpr} (h : PExpr1 s (headLoc ts) none ts e r) :
    PExpr s ts (.mk e (headLoc ts)) r := by
  obtain ⟨f, hf⟩ := h
  refine ⟨f + 1, ?_⟩
  unfold parseExpr
  simp only [hf, PRes.map]

theorem PExpr.at_fuel {s : Bool} {ts r : List Span} {e : Expr} (h : PExpr s ts e r) (fuel : Nat)
    (hf : 10 * ts.length + 8 ≤ fuel) : parseExpr fuel s ts = .ok e r :=
  PRes.at_fuel_of_step (g := fun n => parseExpr n s ts) (fun n => (pmonoAll n).parseExpr s ts) h fuel
    ((ptotAll fuel).parseExpr s ts hf)

/-! ### postfix forms -/

theorem PLoop.stop {loc : Loc} {acc : RawExpr} {ts : List Span} (h : noPostfix ts) : PLoop loc acc ts acc ts :=
  ⟨1, postfixLoop_stop 0 loc acc ts h⟩

/-- `acc ( args )` -/
theorem PLoop.call {loc : Loc} {acc X : RawExpr} {sp : Span} {r r2 r' : List Span} {args : List ListItem}
    (h : sp.tok = .ParenOpen) (h1 : PArgs [] r args r2) (h2 : PLoop loc (.Call (.mk acc loc) args) r2 X r') :
    PLoop loc acc (sp :: r) X r' := by
  obtain ⟨f1, hf1⟩ := h1
  obtain ⟨f2, hf2⟩ := h2
  refine ⟨f1 + f2 + 1, ?_⟩
  unfold postfixLoop
  simp only [h, parseArgs_ok_mono (Nat.le_add_right f1 f2) hf1, PRes.bind,
    postfixLoop_ok_mono (Nat.le_add_left f2 f1) hf2]

/-- `acc [ … ]` -/
theorem PLoop.index {loc : Loc} {acc e X : RawExpr} {sp : Span} {r r2 r' : List Span}
    (h : sp.tok = .BracketOpen) (h1 : PIdx (.mk acc loc) r e r2) (h2 : PLoop loc e r2 X r') :
    PLoop loc acc (sp :: r) X r' := by
  obtain ⟨f1, hf1⟩ := h1
  obtain ⟨f2, hf2⟩ := h2
  refine ⟨f1 + f2 + 1, ?_⟩
  unfold postfixLoop
  simp only [h, parseIndexTail_ok_mono (Nat.le_add_right f1 f2) hf1, PRes.bind,
    postfixLoop_ok_mono (Nat.le_add_left f2 f1) hf2]

/-- `acc . name` and `acc -> name` -/
theorem PLoop.prop {loc : Loc} {acc X : RawExpr} {sp sp2 : Span} {r r' : List Span} {name : List Char} (tp : Bool)
    (h : sp.tok = if tp then .DashGreaterThan else .Dot) (hn : sp2.tok = .Ident name)
    (h2 : PLoop loc (.Prop (.mk acc loc) name tp) r X r') : PLoop loc acc (sp :: sp2 :: r) X r' := by
  obtain ⟨f2, hf2⟩ := h2
  refine ⟨f2 + 1, ?_⟩
  unfold postfixLoop
  cases tp <;> simp [h, hn, expectIdent, PRes.bind, hf2]

theorem PPost.mk {loc : Loc} {pre : Option RawExpr} {ts r r' : List Span} {a X : RawExpr}
    (h1 : PAtom pre ts a r) (h2 : PLoop loc a r X r') : PPost loc pre ts X r' := by
  obtain ⟨f1, hf1⟩ := h1
  obtain ⟨f2, hf2⟩ := h2
  refine ⟨f1 + f2 + 1, ?_⟩
  unfold parsePostfix
  simp only [parseAtom_ok_mono (Nat.le_add_right f1 f2) hf1, PRes.bind,
    postfixLoop_ok_mono (Nat.le_add_left f2 f1) hf2]

/-- the tightest tier is the postfix level -/
theorem PTier.post {k : Nat} {loc : Loc} {pre : Option RawExpr} {ts r : List Span} {e : RawExpr}
    (hk : Gen.postfixTier ≤ k) (h : PPost loc pre ts e r) : PTier k loc pre ts e r := by
  obtain ⟨f, hf⟩ := h
  refine ⟨f + 1, ?_⟩
  unfold parseTier
  have hk' : k ≥ Gen.postfixTier := hk
  simp only [hk', if_true, hf]

/-! ### index and range index -/

/-- `e [ i ]` -/
theorem PIdx.index {e i : Expr} {sp sp2 : Span} {r r3 : List Span} (hc : sp.tok ≠ .Colon)
    (h1 : PExpr false (sp :: r) i (sp2 :: r3)) (h2 : sp2.tok = .BracketClose) :
    PIdx e (sp :: r) (.Index e i) r3 := by
  obtain ⟨f1, hf1⟩ := h1
  refine ⟨f1 + 1, ?_⟩
  unfold parseIndexTail
  simp only [hc, if_false, hf1, PRes.bind, h2, if_true]

/-- `e [ : …` -/
theorem PIdx.colon {e : Expr} {x : RawExpr} {sp : Span} {r r' : List Span} (hc : sp.tok = .Colon)
    (h1 : PREnd e none r x r') : PIdx e (sp :: r) x r' := by
  obtain ⟨f1, hf1⟩ := h1
  refine ⟨f1 + 1, ?_⟩
  unfold parseIndexTail
  simp only [hc, if_true, hf1]

/-- `e [ i : …` -/
theorem PIdx.range {e i : Expr} {x : RawExpr} {sp sp2 : Span} {r r3 r' : List Span} (hc : sp.tok ≠ .Colon)
    (h1 : PExpr false (sp :: r) i (sp2 :: r3)) (h2 : sp2.tok = .Colon) (h3 : PREnd e (some i) r3 x r') :
    PIdx e (sp :: r) x r' := by
  obtain ⟨f1, hf1⟩ := h1
  obtain ⟨f3, hf3⟩ := h3
  refine ⟨f1 + f3 + 1, ?_⟩
  unfold parseIndexTail
  simp [hc, parseExpr_ok_mono (Nat.le_add_right f1 f3) hf1, PRes.bind, h2,
    parseRangeEnd_ok_mono (Nat.le_add_left f3 f1) hf3]

/-- `… : ]` -/
theorem PREnd.none {e : Expr} {st : Option Expr} {sp : Span} {r : List Span} (h : sp.tok = .BracketClose) :
    PREnd e st (sp :: r) (.RangeIndex e st none) r := by
  refine ⟨1, ?_⟩
  unfold parseRangeEnd
  simp only [h, if_true]

/-- `… : j ]` -/
theorem PREnd.some {e j : Expr} {st : Option Expr} {sp sp2 : Span} {r r3 : List Span} (hc : sp.tok ≠ .BracketClose)
    (h1 : PExpr false (sp :: r) j (sp2 :: r3)) (h2 : sp2.tok = .BracketClose) :
    PREnd e st (sp :: r) (.RangeIndex e st (some j)) r3 := by
  obtain ⟨f1, hf1⟩ := h1
  refine ⟨f1 + 1, ?_⟩
  unfold parseRangeEnd
  simp only [hc, if_false, hf1, PRes.bind, expectTok, h2, if_true]

/-! ### call arguments -/

theorem PArgs.nil {acc : List ListItem} {sp : Span} {r : List Span} (h : sp.tok = .ParenClose) :
    PArgs acc (sp :: r) acc.reverse r := by
  refine ⟨1, ?_⟩
  unfold parseArgs
  simp only [h, if_true]

/-- the last argument, `e )` or `e .. )` -/
theorem PArgs.last {acc : List ListItem} {e : Expr} {sp sp2 sp3 : Span} {r r2 r3 : List Span} (s : Bool)
    (hc : sp.tok ≠ .ParenClose) (h1 : PExpr true (sp :: r) e r2)
    (hr2 : r2 = (if s then [sp2] else []) ++ sp3 :: r3) (hs : sp2.tok = .DotDot) (h3 : sp3.tok = .ParenClose) :
    PArgs acc (sp :: r) (ListItem.mk e s :: acc).reverse r3 := by
  obtain ⟨f1, hf1⟩ := h1
  refine ⟨f1 + 1, ?_⟩
  unfold parseArgs
  have hnd : sp3.tok ≠ .DotDot := by rw [h3]; decide
  have hnc : sp3.tok ≠ .Comma := by rw [h3]; decide
  subst hr2
  cases s <;> simp [hc, hf1, PRes.bind, hs, h3, hnd, hnc]

/-- an argument followed by a comma, `e , …` or `e .. , …` -/
theorem PArgs.more {acc items : List ListItem} {e : Expr} {sp sp2 sp3 : Span} {r r2 r3 r' : List Span} (s : Bool)
    (hc : sp.tok ≠ .ParenClose) (h1 : PExpr true (sp :: r) e r2)
    (hr2 : r2 = (if s then [sp2] else []) ++ sp3 :: r3) (hs : sp2.tok = .DotDot) (h3 : sp3.tok = .Comma)
    (h4 : PArgs (ListItem.mk e s :: acc) r3 items r') : PArgs acc (sp :: r) items r' := by
  obtain ⟨f1, hf1⟩ := h1
  obtain ⟨f4, hf4⟩ := h4
  refine ⟨f1 + f4 + 1, ?_⟩
  unfold parseArgs
  have hnd : sp3.tok ≠ .DotDot := by rw [h3]; decide
  subst hr2
  cases s <;>
    simp [hc, parseExpr_ok_mono (Nat.le_add_right f1 f4) hf1, PRes.bind, hs, h3, hnd,
      parseArgs_ok_mono (Nat.le_add_left f4 f1) hf4]

/-! ### list literals -/

theorem PList.nil {acc : List ListItem} {sp : Span} {r : List Span} (h : sp.tok = .BracketClose) :
    PList acc (sp :: r) (acc.reverse, false) r := by
  refine ⟨1, ?_⟩
  unfold parseExprList
  simp only [h, if_true]

/-- the collecting last item, `.. e ]` or `.. e .. ]` -/
theorem PList.collect {acc : List ListItem} {e : Expr} {sp sp2 sp3 : Span} {r r2 r3 : List Span} (s : Bool)
    (hd : sp.tok = .DotDot) (h1 : PExpr true r e r2)
    (hr2 : r2 = (if s then [sp2] else []) ++ sp3 :: r3) (hs : sp2.tok = .DotDot) (h3 : sp3.tok = .BracketClose) :
    PList acc (sp :: r) ((ListItem.mk e s :: acc).reverse, true) r3 := by
  obtain ⟨f1, hf1⟩ := h1
  refine ⟨f1 + 1, ?_⟩
  unfold parseExprList
  subst hr2
  cases s <;> simp [hd, hf1, PRes.bind, hs, h3, expectTok]

/-- the last item, `e ]` or `e .. ]` -/
theorem PList.last {acc : List ListItem} {e : Expr} {sp sp2 sp3 : Span} {r r2 r3 : List Span} (s : Bool)
    (hc : sp.tok ≠ .BracketClose) (hd : sp.tok ≠ .DotDot) (h1 : PExpr true (sp :: r) e r2)
    (hr2 : r2 = (if s then [sp2] else []) ++ sp3 :: r3) (hs : sp2.tok = .DotDot) (h3 : sp3.tok = .BracketClose) :
    PList acc (sp :: r) ((ListItem.mk e s :: acc).reverse, false) r3 := by
  obtain ⟨f1, hf1⟩ := h1
  refine ⟨f1 + 1, ?_⟩
  unfold parseExprList
  subst hr2
  cases s <;> simp [hc, hd, hf1, PRes.bind, hs, h3]

/-- an item followed by a comma -/
theorem PList.more {acc : List ListItem} {res : List ListItem × Bool} {e : Expr} {sp sp2 sp3 : Span}
    {r r2 r3 r' : List Span} (s : Bool)
    (hc : sp.tok ≠ .BracketClose) (hd : sp.tok ≠ .DotDot) (h1 : PExpr true (sp :: r) e r2)
    (hr2 : r2 = (if s then [sp2] else []) ++ sp3 :: r3) (hs : sp2.tok = .DotDot) (h3 : sp3.tok = .Comma)
    (h4 : PList (ListItem.mk e s :: acc) r3 res r') : PList acc (sp :: r) res r' := by
  obtain ⟨f1, hf1⟩ := h1
  obtain ⟨f4, hf4⟩ := h4
  refine ⟨f1 + f4 + 1, ?_⟩
  unfold parseExprList
  subst hr2
  cases s <;>
    simp [hc, hd, parseExpr_ok_mono (Nat.le_add_right f1 f4) hf1, PRes.bind, hs, h3,
      parseExprList_ok_mono (Nat.le_add_left f4 f1) hf4]

/-- `[ … ]` -/
theorem PAtom.list {sp : Span} {r r2 : List Span} {items : List ListItem} {c : Bool} (h : sp.tok = .BracketOpen)
    (h1 : PList [] r (items, c) r2) : PAtom none (sp :: r) (.List items c) r2 := by
  obtain ⟨f1, hf1⟩ := h1
  refine ⟨f1 + 1, ?_⟩
  unfold parseAtom
  simp only [h, hf1, PRes.bind]

/-! ### parameter lists -/

theorem PParams.nil {acc : List Expr} {sp : Span} {r : List Span} (h : sp.tok = .ParenClose) :
    PParams acc (sp :: r) (acc.reverse, false) r := by
  refine ⟨1, ?_⟩
  unfold parseParams
  simp only [h, if_true]

/-- the collecting last parameter, `.. e )` -/
theorem PParams.collect {acc : List Expr} {e : Expr} {sp sp2 : Span} {r r3 : List Span}
    (hd : sp.tok = .DotDot) (h1 : PExpr false r e (sp2 :: r3)) (h2 : sp2.tok = .ParenClose) :
    PParams acc (sp :: r) ((e :: acc).reverse, true) r3 := by
  obtain ⟨f1, hf1⟩ := h1
  refine ⟨f1 + 1, ?_⟩
  unfold parseParams
  simp [hd, hf1, PRes.bind, h2, expectTok]

theorem PParams.last {acc : List Expr} {e : Expr} {sp sp2 : Span} {r r3 : List Span}
    (hc : sp.tok ≠ .ParenClose) (hd : sp.tok ≠ .DotDot) (h1 : PExpr false (sp :: r) e (sp2 :: r3))
    (h2 : sp2.tok = .ParenClose) : PParams acc (sp :: r) ((e :: acc).reverse, false) r3 := by
  obtain ⟨f1, hf1⟩ := h1
  refine ⟨f1 + 1, ?_⟩
  unfold parseParams
  simp [hc, hd, hf1, PRes.bind, h2]

theorem PParams.more {acc : List Expr} {res : List Expr × Bool} {e : Expr} {sp sp2 : Span} {r r3 r' : List Span}
    (hc : sp.tok ≠ .ParenClose) (hd : sp.tok ≠ .DotDot) (h1 : PExpr false (sp :: r) e (sp2 :: r3))
    (h2 : sp2.tok = .Comma) (h4 : PParams (e :: acc) r3 res r') : PParams acc (sp :: r) res r' := by
  obtain ⟨f1, hf1⟩ := h1
  obtain ⟨f4, hf4⟩ := h4
  refine ⟨f1 + f4 + 1, ?_⟩
  unfold parseParams
  simp [hc, hd, parseExpr_ok_mono (Nat.le_add_right f1 f4) hf1, PRes.bind, h2,
    parseParams_ok_mono (Nat.le_add_left f4 f1) hf4]

/-! ### object literals -/

theorem PProps.nil {acc : List PropItem} {sp : Span} {r : List Span} (h : sp.tok = .BraceClose) :
    PProps acc (sp :: r) acc.reverse r := by
  refine ⟨1, ?_⟩
  unfold parsePropItems
  simp only [h, if_true]

theorem PPropTail.close {acc : List PropItem} {sp : Span} {r : List Span} (h : sp.tok = .BraceClose) :
    PPropTail acc (sp :: r) acc.reverse r := by
  refine ⟨1, ?_⟩
  unfold parsePropTail
  simp [h]

theorem PPropTail.comma {acc res : List PropItem} {sp : Span} {r r' : List Span} (h : sp.tok = .Comma)
    (h1 : PProps acc r res r') : PPropTail acc (sp :: r) res r' := by
  obtain ⟨f1, hf1⟩ := h1
  refine ⟨f1 + 1, ?_⟩
  unfold parsePropTail
  simp only [h, if_true, hf1]

/-- `.. e` or `.. e ..` -/
theorem PProps.collect {acc res : List PropItem} {e : Expr} {sp sp2 sp3 : Span} {r r2 r3 r' : List Span} (s : Bool)
    (hd : sp.tok = .DotDot) (h1 : PExpr true r e r2)
    (hr2 : r2 = (if s then [sp2] else []) ++ sp3 :: r3) (hs : sp2.tok = .DotDot) (h3 : sp3.tok ≠ .DotDot)
    (h4 : PPropTail (PropItem.Single e s true :: acc) (sp3 :: r3) res r') : PProps acc (sp :: r) res r' := by
  obtain ⟨f1, hf1⟩ := h1
  obtain ⟨f4, hf4⟩ := h4
  refine ⟨f1 + f4 + 1, ?_⟩
  unfold parsePropItems
  subst hr2
  cases s <;>
    simp [hd, parseExpr_ok_mono (Nat.le_add_right f1 f4) hf1, PRes.bind, hs, h3,
      parsePropTail_ok_mono (Nat.le_add_left f4 f1) hf4]

/-- `k : v` -/
theorem PProps.pair {acc res : List PropItem} {k v : Expr} {sp sp2 : Span} {r r3 r4 r' : List Span}
    (hc : sp.tok ≠ .BraceClose) (hd : sp.tok ≠ .DotDot) (h1 : PExpr true (sp :: r) k (sp2 :: r3))
    (h2 : sp2.tok = .Colon) (h3 : PExpr false r3 v r4) (h4 : PPropTail (PropItem.Pair k v :: acc) r4 res r') :
    PProps acc (sp :: r) res r' := by
  obtain ⟨f1, hf1⟩ := h1
  obtain ⟨f3, hf3⟩ := h3
  obtain ⟨f4, hf4⟩ := h4
  refine ⟨f1 + f3 + f4 + 1, ?_⟩
  unfold parsePropItems
  simp [hc, hd, parseExpr_ok_mono (by omega : f1 ≤ f1 + f3 + f4) hf1, PRes.bind, h2,
    parseExpr_ok_mono (by omega : f3 ≤ f1 + f3 + f4) hf3, parsePropTail_ok_mono (by omega : f4 ≤ f1 + f3 + f4) hf4]

/-- `e` or `e ..` -/
theorem PProps.single {acc res : List PropItem} {e : Expr} {sp sp2 sp3 : Span} {r r2 r3 r' : List Span} (s : Bool)
    (hc : sp.tok ≠ .BraceClose) (hd : sp.tok ≠ .DotDot) (h1 : PExpr true (sp :: r) e r2)
    (hr2 : r2 = (if s then [sp2] else []) ++ sp3 :: r3) (hs : sp2.tok = .DotDot)
    (h3 : sp3.tok ≠ .DotDot) (h3' : sp3.tok ≠ .Colon)
    (h4 : PPropTail (PropItem.Single e s false :: acc) (sp3 :: r3) res r') : PProps acc (sp :: r) res r' := by
  obtain ⟨f1, hf1⟩ := h1
  obtain ⟨f4, hf4⟩ := h4
  refine ⟨f1 + f4 + 1, ?_⟩
  unfold parsePropItems
  subst hr2
  cases s <;>
    simp [hc, hd, parseExpr_ok_mono (Nat.le_add_right f1 f4) hf1, PRes.bind, hs, h3, h3',
      parsePropTail_ok_mono (Nat.le_add_left f4 f1) hf4]

/-- `{ … }` in expression position -/
theorem PAtom.object {sp : Span} {r r2 : List Span} {props : List PropItem} (h : sp.tok = .BraceOpen)
    (h1 : PProps [] r props r2) : PAtom none (sp :: r) (.Object props) r2 := by
  obtain ⟨f1, hf1⟩ := h1
  refine ⟨f1 + 1, ?_⟩
  unfold parseAtom
  simp only [h, hf1, PRes.bind]

/-- `fn ( params ) { stmts }` -/
theorem PAtom.func {sp sp2 : Span} {r r3 r4 : List Span} {args : List Expr} {c : Bool} {stmts : List Stmt}
    (h : sp.tok = .Fn) (h2 : sp2.tok = .ParenOpen) (h3 : PParams [] r (args, c) r3) (h4 : PBlock r3 stmts r4) :
    PAtom none (sp :: sp2 :: r) (.Func args c stmts) r4 := by
  obtain ⟨f3, hf3⟩ := h3
  obtain ⟨f4, hf4⟩ := h4
  refine ⟨f3 + f4 + 1, ?_⟩
  unfold parseAtom
  simp [h, h2, expectTok, PRes.bind, parseParams_ok_mono (Nat.le_add_right f3 f4) hf3,
    parseBlock_ok_mono (Nat.le_add_left f4 f3) hf4]

end Seed
