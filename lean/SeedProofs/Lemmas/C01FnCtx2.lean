/-
  C01FnCtx2.lean — congruence through function bodies, part 2: the two-run simulation for all 23 functions of the
  evaluator, by induction on the fuel of the left run (`SimAll n`, `simAll`).
-/
import SeedProofs.Lemmas.C01FnCtx
namespace Seed.C01
open Seed Seed.C07 Seed.ScopeL
open Seed.Eqv (allocS alloc_pair getFunc_heap)

/-- at fuel `n` on the left: running related code in states that are identical up to related function bodies gives, on
    the right, eventually the same result in such a state again -/
structure SimAll (n : Nat) : Prop where
  evalExpr : ∀ β σ sc e e', Good β σ → RExpr e e' → Ev (evalExpr n σ sc e) (fun m => evalExpr m (wb β σ) sc e')
  evalOptIndex : ∀ β σ sc e e', Good β σ → ROpt e e' → Ev (evalOptIndex n σ sc e) (fun m => evalOptIndex m (wb β σ) sc e')
  evalListItems : ∀ β σ sc items items' acc, Good β σ → RItems items items' →
    Ev (evalListItems n σ sc items acc) (fun m => evalListItems m (wb β σ) sc items' acc)
  evalProps : ∀ β σ sc l props props' acc, Good β σ → RProps props props' →
    Ev (evalProps n σ sc l props acc) (fun m => evalProps m (wb β σ) sc l props' acc)
  evalCall : ∀ β σ sc f f' args args' loc, Good β σ → RExpr f f' → RItems args args' →
    Ev (evalCall n σ sc f args loc) (fun m => evalCall m (wb β σ) sc f' args' loc)
  evalToStr : ∀ β σ sc d e e', Good β σ → RExpr e e' → Ev (evalToStr n σ sc d e) (fun m => evalToStr m (wb β σ) sc d e')
  evalToBool : ∀ β σ sc d e e', Good β σ → RExpr e e' → Ev (evalToBool n σ sc d e) (fun m => evalToBool m (wb β σ) sc d e')
  evalToInt : ∀ β σ sc d e e', Good β σ → RExpr e e' → Ev (evalToInt n σ sc d e) (fun m => evalToInt m (wb β σ) sc d e')
  evalToIndex : ∀ β σ sc e e', Good β σ → RExpr e e' → Ev (evalToIndex n σ sc e) (fun m => evalToIndex m (wb β σ) sc e')
  interpolate : ∀ β σ sc s slots loc last acc, Good β σ →
    Ev (interpolate n σ sc s slots loc last acc) (fun m => interpolate m (wb β σ) sc s slots loc last acc)
  evalBlock : ∀ β σ sc bs bs' stmts stmts', Good β σ → RBinds bs bs' → RStmts stmts stmts' →
    Ev (evalBlock n σ sc bs stmts) (fun m => evalBlock m (wb β σ) sc bs' stmts')
  declareAll : ∀ β σ sc bs bs', Good β σ → RBinds bs bs' → Ev (declareAll n σ sc bs) (fun m => declareAll m (wb β σ) sc bs')
  evalStmts : ∀ β σ sc stmts stmts', Good β σ → RStmts stmts stmts' →
    Ev (evalStmts n σ sc stmts) (fun m => evalStmts m (wb β σ) sc stmts')
  evalStmt : ∀ β σ sc st st', Good β σ → RStmt st st' → Ev (evalStmt n σ sc st) (fun m => evalStmt m (wb β σ) sc st')
  evalIf : ∀ β σ sc bs bs' els els', Good β σ → RBranches bs bs' → ROptStmts els els' →
    Ev (evalIf n σ sc bs els) (fun m => evalIf m (wb β σ) sc bs' els')
  evalWhile : ∀ β σ sc c c' stmts stmts', Good β σ → RExpr c c' → RStmts stmts stmts' →
    Ev (evalWhile n σ sc c stmts) (fun m => evalWhile m (wb β σ) sc c' stmts')
  evalFor : ∀ β σ sc lhs lhs' pairs stmts stmts', Good β σ → RExpr lhs lhs' → RStmts stmts stmts' →
    Ev (evalFor n σ sc lhs pairs stmts) (fun m => evalFor m (wb β σ) sc lhs' pairs stmts')
  bindNext : ∀ β σ sc names lhs lhs' rhs op decl, Good β σ → RExpr lhs lhs' →
    Ev (bindNext n σ sc names lhs rhs op decl) (fun m => bindNext m (wb β σ) sc names lhs' rhs op decl)
  bindProp : ∀ β σ a name loc rhs op names vi, Good β σ →
    Ev (bindProp n σ a name loc rhs op names vi) (fun m => bindProp m (wb β σ) a name loc rhs op names vi)
  bindRangeIndex : ∀ β σ sc a start start' stop stop' loc rhsItems names, Good β σ → ROpt start start' → ROpt stop stop' →
    Ev (bindRangeIndex n σ sc a start stop loc rhsItems names)
      (fun m => bindRangeIndex m (wb β σ) sc a start' stop' loc rhsItems names)
  bindList : ∀ β σ sc names items items' collect lhsLoc b decl i lhsLen, Good β σ → RItems items items' →
    Ev (bindList n σ sc names items collect lhsLoc b decl i lhsLen)
      (fun m => bindList m (wb β σ) sc names items' collect lhsLoc b decl i lhsLen)
  bindObject : ∀ β σ sc names props props' b decl i total remaining, Good β σ → RProps props props' →
    Ev (bindObject n σ sc names props b decl i total remaining)
      (fun m => bindObject m (wb β σ) sc names props' b decl i total remaining)
  bindObjectProp : ∀ β σ sc names lhs lhs' b pname ploc decl, Good β σ → RExpr lhs lhs' →
    Ev (bindObjectProp n σ sc names lhs b pname ploc decl) (fun m => bindObjectProp m (wb β σ) sc names lhs' b pname ploc decl)

theorem RItems.length_eq : ∀ {a a' : List ListItem}, RItems a a' → a'.length = a.length := by
  intro a
  induction a with
  | nil => intro a' h; cases h; rfl
  | cons e r ih => intro a' h; cases h with | cons s he hr => simp [ih hr]

theorem RProps.length_eq : ∀ {a a' : List PropItem}, RProps a a' → a'.length = a.length := by
  intro a
  induction a with
  | nil => intro a' h; cases h; rfl
  | cons e r ih =>
    intro a' h
    cases h with
    | pair hn hv hr => simp [ih hr]
    | single s c he hr => simp [ih hr]

theorem mk_push (σ : State) (c : Cell) : (⟨σ.heap.push c, σ.out⟩ : State) = allocS σ c := rfl

/-- side goals of the recursive-call leaves: a good state, or a piece of the relation on the code -/
macro "ev_side" : tactic =>
  `(tactic| first
    | assumption
    | (apply good_allocS_list; assumption)
    | (apply good_allocS_obj; assumption)
    | (apply good_allocS_scope; assumption)
    | (apply good_set_list; assumption)
    | (apply good_set_obj; assumption)
    | exact RExpr.refl _
    | exact ROpt.refl _
    | exact RItems.refl _
    | exact RProps.refl _
    | exact RStmts.refl _
    | exact RExprs.refl _
    | exact RBinds.nil
    | exact RBinds.refl _
    | (refine RBinds.cons _ ?_ RBinds.nil; assumption)
    | (apply RBinds.zip; assumption)
    | (refine RBinds.append (RBinds.zip ?_ _) (RBinds.refl _); assumption))

macro "ev_leaf " ih:ident : tactic =>
  `(tactic| first
    | exact Ev.timeout
    | (apply SimAll.evalExpr $ih <;> ev_side) | (apply SimAll.evalOptIndex $ih <;> ev_side)
    | (apply SimAll.evalListItems $ih <;> ev_side) | (apply SimAll.evalProps $ih <;> ev_side)
    | (apply SimAll.evalCall $ih <;> ev_side) | (apply SimAll.evalToStr $ih <;> ev_side)
    | (apply SimAll.evalToBool $ih <;> ev_side) | (apply SimAll.evalToInt $ih <;> ev_side)
    | (apply SimAll.evalToIndex $ih <;> ev_side) | (apply SimAll.interpolate $ih <;> ev_side)
    | (apply SimAll.evalBlock $ih <;> ev_side) | (apply SimAll.declareAll $ih <;> ev_side)
    | (apply SimAll.evalStmts $ih <;> ev_side) | (apply SimAll.evalStmt $ih <;> ev_side)
    | (apply SimAll.evalIf $ih <;> ev_side) | (apply SimAll.evalWhile $ih <;> ev_side)
    | (apply SimAll.evalFor $ih <;> ev_side) | (apply SimAll.bindNext $ih <;> ev_side)
    | (apply SimAll.bindProp $ih <;> ev_side) | (apply SimAll.bindRangeIndex $ih <;> ev_side)
    | (apply SimAll.bindList $ih <;> ev_side) | (apply SimAll.bindObject $ih <;> ev_side)
    | (apply SimAll.bindObjectProp $ih <;> ev_side)
    | (apply applyBinOp_ev; ev_side) | (apply callBuiltin_ev; ev_side)
    | (apply opAssignValue_ev; ev_side) | (apply bindNextName_ev; ev_side)
    | (refine Ev.of_eq (fun _ => rfl) ?_; first | trivial | (show Good _ _; ev_side)))

macro "ev_auto " ih:ident : tactic =>
  `(tactic| repeat' first
    | ev_leaf $ih
    | apply Ev.bind
    | intro _ _ _ _
    | (refine Ev.map _ ?_)
    | (refine Ev.mapErr _ ?_)
    | (simp only [getList_wb, getObj_wb, getScope_wb, scopeGet_wb, size_wb, alloc_pair, allocS_wb_list, allocS_wb_obj,
        allocS_wb_scope, set_wb_list, set_wb_obj, toPairs_wb, mk_push])
    | (dsimp only [])
    | split)

theorem simAll_zero : SimAll 0 := by
  constructor <;> intros
  · unfold evalExpr; exact Ev.timeout
  · unfold evalOptIndex; exact Ev.timeout
  · unfold evalListItems; exact Ev.timeout
  · unfold evalProps; exact Ev.timeout
  · unfold evalCall; exact Ev.timeout
  · unfold evalToStr; exact Ev.timeout
  · unfold evalToBool; exact Ev.timeout
  · unfold evalToInt; exact Ev.timeout
  · unfold evalToIndex; exact Ev.timeout
  · unfold interpolate; exact Ev.timeout
  · unfold evalBlock; exact Ev.timeout
  · unfold declareAll; exact Ev.timeout
  · unfold evalStmts; exact Ev.timeout
  · unfold evalStmt; exact Ev.timeout
  · unfold evalIf; exact Ev.timeout
  · unfold evalWhile; exact Ev.timeout
  · unfold evalFor; exact Ev.timeout
  · unfold bindNext; exact Ev.timeout
  · unfold bindProp; exact Ev.timeout
  · unfold bindRangeIndex; exact Ev.timeout
  · unfold bindList; exact Ev.timeout
  · unfold bindObject; exact Ev.timeout
  · unfold bindObjectProp; exact Ev.timeout

theorem evalToStr_succ (n : Nat) (ih : SimAll n) (β : Repl) (σ : State) (sc : List Addr) (d : List Char) (e e' : Expr)
    (hg : Good β σ) (hr : RExpr e e') : Ev (evalToStr (n + 1) σ sc d e) (fun m => evalToStr m (wb β σ) sc d e') := by
  apply Ev.shift
  unfold evalToStr
  have hr' := hr
  cases hr'
  ev_auto ih

theorem evalToBool_succ (n : Nat) (ih : SimAll n) (β : Repl) (σ : State) (sc : List Addr) (d : List Char) (e e' : Expr)
    (hg : Good β σ) (hr : RExpr e e') : Ev (evalToBool (n + 1) σ sc d e) (fun m => evalToBool m (wb β σ) sc d e') := by
  apply Ev.shift
  unfold evalToBool
  have hr' := hr
  cases hr'
  ev_auto ih

theorem evalToInt_succ (n : Nat) (ih : SimAll n) (β : Repl) (σ : State) (sc : List Addr) (d : List Char) (e e' : Expr)
    (hg : Good β σ) (hr : RExpr e e') : Ev (evalToInt (n + 1) σ sc d e) (fun m => evalToInt m (wb β σ) sc d e') := by
  apply Ev.shift
  unfold evalToInt
  have hr' := hr
  cases hr'
  ev_auto ih

theorem evalToIndex_succ (n : Nat) (ih : SimAll n) (β : Repl) (σ : State) (sc : List Addr) (e e' : Expr)
    (hg : Good β σ) (hr : RExpr e e') : Ev (evalToIndex (n + 1) σ sc e) (fun m => evalToIndex m (wb β σ) sc e') := by
  apply Ev.shift
  unfold evalToIndex
  have hr' := hr
  cases hr'
  ev_auto ih

theorem evalOptIndex_succ (n : Nat) (ih : SimAll n) (β : Repl) (σ : State) (sc : List Addr) (e e' : Option Expr)
    (hg : Good β σ) (hr : ROpt e e') : Ev (evalOptIndex (n + 1) σ sc e) (fun m => evalOptIndex m (wb β σ) sc e') := by
  apply Ev.shift
  cases hr with
  | none => unfold evalOptIndex; exact Ev.ok hg
  | some he => unfold evalOptIndex; ev_auto ih

theorem evalListItems_succ (n : Nat) (ih : SimAll n) (β : Repl) (σ : State) (sc : List Addr) (items items' : List ListItem)
    (acc : List SVal) (hg : Good β σ) (hr : RItems items items') :
    Ev (evalListItems (n + 1) σ sc items acc) (fun m => evalListItems m (wb β σ) sc items' acc) := by
  apply Ev.shift
  cases hr with
  | nil => unfold evalListItems; exact Ev.ok hg
  | cons s he hrest =>
    have he' := he
    cases he'
    unfold evalListItems
    ev_auto ih

theorem evalExpr_succ (n : Nat) (ih : SimAll n) (β : Repl) (σ : State) (sc : List Addr) (e e' : Expr)
    (hg : Good β σ) (hr : RExpr e e') : Ev (evalExpr (n + 1) σ sc e) (fun m => evalExpr m (wb β σ) sc e') := by
  apply Ev.shift
  cases hr with
  | mk loc hraw =>
    cases hraw with
    | func c hargs hss =>
      unfold evalExpr
      rename_i args args' ss ss'
      show Ev (Res.ok (SVal.plain (.func σ.heap.size)) (allocS σ (.func ⟨none, args, c, ss, sc⟩)))
        (fun _ => Res.ok (SVal.plain (.func (wb β σ).heap.size))
          (allocS (wb β σ) (.func (setCode (args', ss') ⟨none, args, c, ss, sc⟩))))
      simp only [allocS_wb_func, size_wb]
      exact Ev.ok (good_allocS_func _ hg hargs hss)
    | str s sl =>
      cases sl with
      | none => unfold evalExpr; exact Ev.ok hg
      | some slots => unfold evalExpr; ev_auto ih
    | _ =>
      unfold evalExpr
      ev_auto ih

theorem evalProps_succ (n : Nat) (ih : SimAll n) (β : Repl) (σ : State) (sc : List Addr) (l : Loc)
    (props props' : List PropItem) (acc : ObjMap) (hg : Good β σ) (hr : RProps props props') :
    Ev (evalProps (n + 1) σ sc l props acc) (fun m => evalProps m (wb β σ) sc l props' acc) := by
  apply Ev.shift
  cases hr with
  | nil => unfold evalProps; exact Ev.ok hg
  | pair hn hv hrest => unfold evalProps; ev_auto ih
  | single s c he hrest =>
    have he' := he
    cases he' with
    | mk el hraw =>
      cases hraw <;> (unfold evalProps; simp only [Expr.raw, Expr.loc]; ev_auto ih)

theorem interpolate_succ (n : Nat) (ih : SimAll n) (β : Repl) (σ : State) (sc : List Addr) (s : List Char)
    (slots : List (Nat × Nat)) (loc : Loc) (last : Nat) (acc : List Char) (hg : Good β σ) :
    Ev (interpolate (n + 1) σ sc s slots loc last acc) (fun m => interpolate m (wb β σ) sc s slots loc last acc) := by
  apply Ev.shift
  cases slots with
  | nil => unfold interpolate; exact Ev.ok hg
  | cons p r =>
    obtain ⟨start, stop⟩ := p
    unfold interpolate
    ev_auto ih

theorem evalBlock_succ (n : Nat) (ih : SimAll n) (β : Repl) (σ : State) (sc : List Addr) (bs bs' : List (Expr × SVal))
    (stmts stmts' : List Stmt) (hg : Good β σ) (hb : RBinds bs bs') (hr : RStmts stmts stmts') :
    Ev (evalBlock (n + 1) σ sc bs stmts) (fun m => evalBlock m (wb β σ) sc bs' stmts') := by
  apply Ev.shift
  unfold evalBlock
  ev_auto ih

theorem declareAll_succ (n : Nat) (ih : SimAll n) (β : Repl) (σ : State) (sc : List Addr) (bs bs' : List (Expr × SVal))
    (hg : Good β σ) (hb : RBinds bs bs') : Ev (declareAll (n + 1) σ sc bs) (fun m => declareAll m (wb β σ) sc bs') := by
  apply Ev.shift
  cases hb with
  | nil => unfold declareAll; exact Ev.ok hg
  | cons v he hr =>
    unfold declareAll
    ev_auto ih

theorem evalIf_succ (n : Nat) (ih : SimAll n) (β : Repl) (σ : State) (sc : List Addr) (bs bs' : List Branch)
    (els els' : Option (List Stmt)) (hg : Good β σ) (hb : RBranches bs bs') (he : ROptStmts els els') :
    Ev (evalIf (n + 1) σ sc bs els) (fun m => evalIf m (wb β σ) sc bs' els') := by
  apply Ev.shift
  cases hb with
  | nil =>
    cases he with
    | none => unfold evalIf; exact Ev.ok hg
    | some hss => unfold evalIf; ev_auto ih
  | cons hc hss hrest => unfold evalIf; ev_auto ih

theorem evalWhile_succ (n : Nat) (ih : SimAll n) (β : Repl) (σ : State) (sc : List Addr) (c c' : Expr)
    (stmts stmts' : List Stmt) (hg : Good β σ) (hc : RExpr c c') (hr : RStmts stmts stmts') :
    Ev (evalWhile (n + 1) σ sc c stmts) (fun m => evalWhile m (wb β σ) sc c' stmts') := by
  apply Ev.shift
  unfold evalWhile
  ev_auto ih

theorem evalFor_succ (n : Nat) (ih : SimAll n) (β : Repl) (σ : State) (sc : List Addr) (lhs lhs' : Expr)
    (pairs : List (SVal × SVal)) (stmts stmts' : List Stmt) (hg : Good β σ) (hl : RExpr lhs lhs') (hr : RStmts stmts stmts') :
    Ev (evalFor (n + 1) σ sc lhs pairs stmts) (fun m => evalFor m (wb β σ) sc lhs' pairs stmts') := by
  apply Ev.shift
  cases pairs with
  | nil => unfold evalFor; exact Ev.ok hg
  | cons p r =>
    obtain ⟨k, v⟩ := p
    unfold evalFor
    ev_auto ih

theorem bindProp_succ (n : Nat) (_ih : SimAll n) (β : Repl) (σ : State) (a : Addr) (name : List Char) (loc : Loc)
    (rhs : SVal) (op : Option (BinaryOp × Loc)) (names : List (List Char)) (vi : Bool) (hg : Good β σ) :
    Ev (bindProp (n + 1) σ a name loc rhs op names vi) (fun m => bindProp m (wb β σ) a name loc rhs op names vi) := by
  apply Ev.shift
  unfold bindProp
  ev_auto _ih

theorem bindRangeIndex_succ (n : Nat) (ih : SimAll n) (β : Repl) (σ : State) (sc : List Addr) (a : Addr)
    (start start' stop stop' : Option Expr) (loc : Loc) (rhsItems : List SVal) (names : List (List Char)) (hg : Good β σ)
    (h1 : ROpt start start') (h2 : ROpt stop stop') :
    Ev (bindRangeIndex (n + 1) σ sc a start stop loc rhsItems names)
      (fun m => bindRangeIndex m (wb β σ) sc a start' stop' loc rhsItems names) := by
  apply Ev.shift
  unfold bindRangeIndex
  ev_auto ih

theorem bindObjectProp_succ (n : Nat) (ih : SimAll n) (β : Repl) (σ : State) (sc : List Addr)
    (names : List (List Char)) (lhs lhs' : Expr) (b : Addr) (pname : List Char) (ploc : Loc) (decl : Bool) (hg : Good β σ)
    (hl : RExpr lhs lhs') :
    Ev (bindObjectProp (n + 1) σ sc names lhs b pname ploc decl)
      (fun m => bindObjectProp m (wb β σ) sc names lhs' b pname ploc decl) := by
  apply Ev.shift
  unfold bindObjectProp
  ev_auto ih

theorem bindList_succ (n : Nat) (ih : SimAll n) (β : Repl) (σ : State) (sc : List Addr) (names : List (List Char))
    (items items' : List ListItem) (collect : Bool) (lhsLoc : Loc) (b : Addr) (decl : Bool) (i lhsLen : Nat) (hg : Good β σ)
    (hr : RItems items items') :
    Ev (bindList (n + 1) σ sc names items collect lhsLoc b decl i lhsLen)
      (fun m => bindList m (wb β σ) sc names items' collect lhsLoc b decl i lhsLen) := by
  apply Ev.shift
  cases hr with
  | nil => unfold bindList; exact Ev.ok hg
  | cons s he hrest =>
    unfold bindList
    ev_auto ih

theorem bindObject_succ (n : Nat) (ih : SimAll n) (β : Repl) (σ : State) (sc : List Addr) (names : List (List Char))
    (props props' : List PropItem) (b : Addr) (decl : Bool) (i total : Nat) (remaining : List (List Char)) (hg : Good β σ)
    (hr : RProps props props') :
    Ev (bindObject (n + 1) σ sc names props b decl i total remaining)
      (fun m => bindObject m (wb β σ) sc names props' b decl i total remaining) := by
  apply Ev.shift
  cases hr with
  | nil => unfold bindObject; exact Ev.ok hg
  | pair hn hv hrest =>
    have hn' := hn
    cases hn'
    unfold bindObject
    ev_auto ih
  | single s c he hrest =>
    have he' := he
    cases he' with
    | mk el hraw =>
      cases hraw <;> (unfold bindObject; simp only [Expr.raw, Expr.loc]; ev_auto ih)

theorem bindNext_succ (n : Nat) (ih : SimAll n) (β : Repl) (σ : State) (sc : List Addr) (names : List (List Char))
    (lhs lhs' : Expr) (rhs : SVal) (op : Option (BinaryOp × Loc)) (decl : Bool) (hg : Good β σ) (hl : RExpr lhs lhs') :
    Ev (bindNext (n + 1) σ sc names lhs rhs op decl) (fun m => bindNext m (wb β σ) sc names lhs' rhs op decl) := by
  apply Ev.shift
  cases hl with
  | mk loc hraw =>
    cases hraw with
    | list c his =>
      have hlen := his.length_eq
      unfold bindNext
      simp only [hlen]
      ev_auto ih
    | object hps =>
      have hlen := hps.length_eq
      unfold bindNext
      simp only [hlen]
      ev_auto ih
    | _ => (unfold bindNext; try simp only [invalidBindDescr]) <;> ev_auto ih

theorem wbRes_ne_timeout {α} (β : Repl) {r : Res α} (h : r ≠ .timeout) : wbRes β r ≠ .timeout := by
  cases r <;> first | exact absurd rfl h | (intro h'; cases h')

theorem evalStmts_cons_succ (n : Nat) (ih : SimAll n) (β : Repl) (σ : State) (sc : List Addr) (st st' : Stmt)
    (r r' : List Stmt) (hg : Good β σ) (hs : RStmt st st') (hr : RStmts r r') :
    Ev (evalStmts (n + 1) σ sc (st :: r)) (fun m => evalStmts m (wb β σ) sc (st' :: r')) := by
  apply Ev.shift
  unfold evalStmts
  ev_auto ih

/-- the same statement list on both sides -/
theorem evalStmts_refl_succ (n : Nat) (ih : SimAll n) (β : Repl) (σ : State) (sc : List Addr) (ss : List Stmt)
    (hg : Good β σ) : Ev (evalStmts (n + 1) σ sc ss) (fun m => evalStmts m (wb β σ) sc ss) := by
  cases ss with
  | nil => apply Ev.shift; unfold evalStmts; exact Ev.ok hg
  | cons st r => exact evalStmts_cons_succ n ih β σ sc st st r r hg (RStmt.refl st) (RStmts.refl r)

/-- the hole: the left run of `x` is matched by the right run of `x` (same code, states identical up to function
    bodies), which — in that one state — `y` refines -/
theorem evalStmts_succ (n : Nat) (ih : SimAll n) (β : Repl) (σ : State) (sc : List Addr) (ss ss' : List Stmt)
    (hg : Good β σ) (hr : RStmts ss ss') : Ev (evalStmts (n + 1) σ sc ss) (fun m => evalStmts m (wb β σ) sc ss') := by
  cases hr with
  | nil => apply Ev.shift; unfold evalStmts; exact Ev.ok hg
  | cons hs hrest => exact evalStmts_cons_succ n ih β σ sc _ _ _ _ hg hs hrest
  | hole hxy =>
    intro hne
    obtain ⟨β', hg', m₀, hm⟩ := evalStmts_refl_succ n ih β σ sc ss hg hne
    have h0 : evalStmts m₀ (wb β σ) sc ss = wbRes β' (evalStmts (n + 1) σ sc ss) := hm m₀ (Nat.le_refl _)
    have hne' : evalStmts m₀ (wb β σ) sc ss ≠ .timeout := by rw [h0]; exact wbRes_ne_timeout β' hne
    obtain ⟨m₁, hm₁⟩ := hxy m₀ (wb β σ) sc hne'
    refine ⟨β', hg', m₁, fun m hmm => ?_⟩
    show evalStmts m (wb β σ) sc ss' = _
    rw [← h0, ← hm₁]
    exact fuel_stable (mono_stmts _ _ _) rfl (by rw [hm₁]; exact hne') hmm

theorem evalStmt_succ (n : Nat) (ih : SimAll n) (β : Repl) (σ : State) (sc : List Addr) (st st' : Stmt)
    (hg : Good β σ) (hr : RStmt st st') : Ev (evalStmt (n + 1) σ sc st) (fun m => evalStmt m (wb β σ) sc st') := by
  apply Ev.shift
  cases hr with
  | func name nl c hargs hss =>
    rename_i args args' ss ss'
    unfold evalStmt
    dsimp only []
    apply Ev.bind (validateArgsRes_ev n hargs hg)
    intro β0 _ σ0 hg0
    show Ev ((bindNextName n (allocS σ0 (.func ⟨some name, args, c, ss, sc⟩)) sc [] name nl (SVal.plain (.func σ0.heap.size)) none
          true).bind fun _ σ2 => Res.ok Escape.none σ2)
      (fun m => (bindNextName m (allocS (wb β0 σ0) (.func (setCode (args', ss') ⟨some name, args, c, ss, sc⟩))) sc [] name nl
          (SVal.plain (.func (wb β0 σ0).heap.size)) none true).bind fun _ σ2 => Res.ok Escape.none σ2)
    simp only [allocS_wb_func, size_wb]
    apply Ev.bind (bindNextName_ev n sc [] name nl _ none true (good_allocS_func _ hg0 hargs hss))
    intro _ _ σ2 hg2
    exact Ev.ok hg2
  | forS hl hi hss =>
    have hi' := hi
    cases hi'
    unfold evalStmt
    ev_auto ih
  | _ =>
    unfold evalStmt
    ev_auto ih

theorem evalCall_succ (n : Nat) (ih : SimAll n) (β : Repl) (σ : State) (sc : List Addr) (f f' : Expr)
    (args args' : List ListItem) (loc : Loc) (hg : Good β σ) (hf : RExpr f f') (ha : RItems args args') :
    Ev (evalCall (n + 1) σ sc f args loc) (fun m => evalCall m (wb β σ) sc f' args' loc) := by
  apply Ev.shift
  unfold evalCall
  apply Ev.bind (ih.evalListItems β σ sc args args' [] hg ha)
  intro β1 argVals σ1 hg1
  apply Ev.bind (ih.evalExpr β1 σ1 sc f f' hg1 hf)
  intro β2 fv σ2 hg2
  dsimp only []
  cases hv : fv.v with
  | builtin name bid =>
    simp only []
    exact Ev.mapErr _ (callBuiltin_ev n _ _ _ hg2)
  | func a =>
    simp only [getFunc_wb]
    cases hfr : σ2.getFunc a with
    | none => exact Ev.of_eq (fun _ => rfl) trivial
    | some fr =>
      obtain ⟨hargs, hbody⟩ := hg2 a fr hfr
      have hlen : (β2 a).1.length = fr.args.length := hargs.length_eq
      simp only [Option.map, setCode, hlen]
      split
      · exact Ev.of_eq (fun _ => rfl) trivial
      · split
        · exact Ev.of_eq (fun _ => rfl) trivial
        · cases hc : fr.collect with
          | true =>
            simp only [if_true, alloc_pair, size_wb, allocS_wb_list]
            cases hs : fv.src <;> ev_auto ih
          | false =>
            simp only [Bool.false_eq_true, if_false]
            cases hs : fv.src <;> ev_auto ih
  | _ => exact Ev.of_eq (fun _ => rfl) trivial

theorem simAll_succ (n : Nat) (ih : SimAll n) : SimAll (n + 1) where
  evalExpr := evalExpr_succ n ih
  evalOptIndex := evalOptIndex_succ n ih
  evalListItems := evalListItems_succ n ih
  evalProps := evalProps_succ n ih
  evalCall := evalCall_succ n ih
  evalToStr := evalToStr_succ n ih
  evalToBool := evalToBool_succ n ih
  evalToInt := evalToInt_succ n ih
  evalToIndex := evalToIndex_succ n ih
  interpolate := interpolate_succ n ih
  evalBlock := evalBlock_succ n ih
  declareAll := declareAll_succ n ih
  evalStmts := evalStmts_succ n ih
  evalStmt := evalStmt_succ n ih
  evalIf := evalIf_succ n ih
  evalWhile := evalWhile_succ n ih
  evalFor := evalFor_succ n ih
  bindNext := bindNext_succ n ih
  bindProp := bindProp_succ n ih
  bindRangeIndex := bindRangeIndex_succ n ih
  bindList := bindList_succ n ih
  bindObject := bindObject_succ n ih
  bindObjectProp := bindObjectProp_succ n ih

/-- the simulation, for every function of the evaluator and every fuel of the left run -/
theorem simAll (n : Nat) : SimAll n := by
  induction n with
  | zero => exact simAll_zero
  | succ n ih => exact simAll_succ n ih

end Seed.C01
