/-
  C15Utf8.lean — the UTF-8 encoder (`String.utf8EncodeChar`, core) and the model's strict decoder
  (`utf8DecodeAux`, SeedModel/Value.lean) are inverse on every `List Char`.
-/
import SeedModel.Value
namespace Seed.C15U
open Seed

theorem toNat_ofNat_lt {x : Nat} (h : x < 256) : (UInt8.ofNat x).toNat = x := by
  simp [UInt8.toNat_ofNat']; omega

/-- the scalar-value range of a `Char` -/
theorem char_valid (c : Char) : c.val.toNat < 0xD800 ∨ (0xDFFF < c.val.toNat ∧ c.val.toNat < 0x110000) :=
  c.valid

theorem ofNat_val (c : Char) : Char.ofNat c.val.toNat = c := Char.ofNat_toNat c

theorem decode1 (fuel i : Nat) (b0 : UInt8) (rest : Bytes) (acc : List Char) (h : b0.toNat < 0x80) :
    utf8DecodeAux (fuel + 1) i (b0 :: rest) acc = utf8DecodeAux fuel (i + 1) rest (Char.ofNat b0.toNat :: acc) := by
  rw [utf8DecodeAux.eq_def]; simp [h]

theorem decode2 (fuel i : Nat) (b0 b1 : UInt8) (rest : Bytes) (acc : List Char)
    (h0a : 0xC2 ≤ b0.toNat) (h0b : b0.toNat ≤ 0xDF) (h1a : 0x80 ≤ b1.toNat) (h1b : b1.toNat ≤ 0xBF) :
    utf8DecodeAux (fuel + 1) i (b0 :: b1 :: rest) acc =
      utf8DecodeAux fuel (i + 2) rest (Char.ofNat ((b0.toNat - 0xC0) * 64 + (b1.toNat - 0x80)) :: acc) := by
  have n1 : ¬ b0.toNat < 0x80 := by omega
  rw [utf8DecodeAux]; simp [isCont, *]

theorem decode3 (fuel i : Nat) (b0 b1 b2 : UInt8) (rest : Bytes) (acc : List Char)
    (h0a : 0xE0 ≤ b0.toNat) (h0b : b0.toNat ≤ 0xEF) (h1a : 0x80 ≤ b1.toNat) (h1b : b1.toNat ≤ 0xBF)
    (hE0 : b0.toNat = 0xE0 → 0xA0 ≤ b1.toNat) (hED : b0.toNat = 0xED → b1.toNat ≤ 0x9F)
    (h2a : 0x80 ≤ b2.toNat) (h2b : b2.toNat ≤ 0xBF) :
    utf8DecodeAux (fuel + 1) i (b0 :: b1 :: b2 :: rest) acc =
      utf8DecodeAux fuel (i + 3) rest
        (Char.ofNat ((b0.toNat - 0xE0) * 4096 + (b1.toNat - 0x80) * 64 + (b2.toNat - 0x80)) :: acc) := by
  have n1 : ¬ b0.toNat < 0x80 := by omega
  have n2 : ¬ b0.toNat ≤ 0xDF := by omega
  rw [utf8DecodeAux]
  simp only [n1, n2, h0a, h0b, isCont, h1a, h1b, h2a, h2b]
  by_cases e0 : b0.toNat = 0xE0
  · have := hE0 e0; simp [*]
  · by_cases ed : b0.toNat = 0xED
    · have := hED ed; simp [*]
    · simp [*]

theorem decode4 (fuel i : Nat) (b0 b1 b2 b3 : UInt8) (rest : Bytes) (acc : List Char)
    (h0a : 0xF0 ≤ b0.toNat) (h0b : b0.toNat ≤ 0xF4) (h1a : 0x80 ≤ b1.toNat) (h1b : b1.toNat ≤ 0xBF)
    (hF0 : b0.toNat = 0xF0 → 0x90 ≤ b1.toNat) (hF4 : b0.toNat = 0xF4 → b1.toNat ≤ 0x8F)
    (h2a : 0x80 ≤ b2.toNat) (h2b : b2.toNat ≤ 0xBF) (h3a : 0x80 ≤ b3.toNat) (h3b : b3.toNat ≤ 0xBF) :
    utf8DecodeAux (fuel + 1) i (b0 :: b1 :: b2 :: b3 :: rest) acc =
      utf8DecodeAux fuel (i + 4) rest
        (Char.ofNat ((b0.toNat - 0xF0) * 262144 + (b1.toNat - 0x80) * 4096 + (b2.toNat - 0x80) * 64
          + (b3.toNat - 0x80)) :: acc) := by
  have n1 : ¬ b0.toNat < 0x80 := by omega
  have n2 : ¬ b0.toNat ≤ 0xDF := by omega
  have n3 : ¬ b0.toNat ≤ 0xEF := by omega
  rw [utf8DecodeAux]
  simp only [n1, n2, n3, h0a, h0b, isCont, h1a, h1b, h2a, h2b, h3a, h3b]
  by_cases e0 : b0.toNat = 0xF0
  · have := hF0 e0; simp [*]
  · by_cases ed : b0.toNat = 0xF4
    · have := hF4 ed; simp [*]
    · simp [*]

/-- one decoding step consumes exactly the bytes of one encoded character -/
theorem decode_step (fuel i : Nat) (c : Char) (rest : Bytes) (acc : List Char) :
    ∃ k, utf8DecodeAux (fuel + 1) i (String.utf8EncodeChar c ++ rest) acc =
      utf8DecodeAux fuel (i + k) rest (c :: acc) := by
  have hv := char_valid c
  have hc := ofNat_val c
  unfold String.utf8EncodeChar
  generalize c.val.toNat = v at hv hc
  simp only []
  split
  · refine ⟨1, ?_⟩
    have h0 : (UInt8.ofNat v).toNat = v := toNat_ofNat_lt (by omega)
    rw [List.cons_append, List.nil_append, decode1 _ _ _ _ _ (by omega), h0, hc]
  · split
    · refine ⟨2, ?_⟩
      have h0 := toNat_ofNat_lt (x := v / 64 % 32 + 192) (by omega)
      have h1 := toNat_ofNat_lt (x := v % 64 + 128) (by omega)
      simp only [List.cons_append, List.nil_append]
      rw [decode2 _ _ _ _ _ _ (by omega) (by omega) (by omega) (by omega), h0, h1]
      rw [show (v / 64 % 32 + 192 - 192) * 64 + (v % 64 + 128 - 128) = v by omega, hc]
    · split
      · refine ⟨3, ?_⟩
        have h0 := toNat_ofNat_lt (x := v / 4096 % 16 + 224) (by omega)
        have h1 := toNat_ofNat_lt (x := v / 64 % 64 + 128) (by omega)
        have h2 := toNat_ofNat_lt (x := v % 64 + 128) (by omega)
        simp only [List.cons_append, List.nil_append]
        rw [decode3 _ _ _ _ _ _ _ (by omega) (by omega) (by omega) (by omega) (by omega) (by omega)
          (by omega) (by omega), h0, h1, h2]
        rw [show (v / 4096 % 16 + 224 - 224) * 4096 + (v / 64 % 64 + 128 - 128) * 64 + (v % 64 + 128 - 128) = v
          by omega, hc]
      · refine ⟨4, ?_⟩
        have h0 := toNat_ofNat_lt (x := v / 262144 % 8 + 240) (by omega)
        have h1 := toNat_ofNat_lt (x := v / 4096 % 64 + 128) (by omega)
        have h2 := toNat_ofNat_lt (x := v / 64 % 64 + 128) (by omega)
        have h3 := toNat_ofNat_lt (x := v % 64 + 128) (by omega)
        simp only [List.cons_append, List.nil_append]
        rw [decode4 _ _ _ _ _ _ _ _ (by omega) (by omega) (by omega) (by omega) (by omega) (by omega)
          (by omega) (by omega) (by omega) (by omega), h0, h1, h2, h3]
        rw [show (v / 262144 % 8 + 240 - 240) * 262144 + (v / 4096 % 64 + 128 - 128) * 4096
          + (v / 64 % 64 + 128 - 128) * 64 + (v % 64 + 128 - 128) = v by omega, hc]

/-- decoding the encoding of `cs` with enough fuel appends `cs` to what was decoded before -/
theorem decode_encode_aux (cs : List Char) : ∀ (fuel i : Nat) (acc : List Char), cs.length ≤ fuel →
    utf8DecodeAux fuel i (utf8Encode cs) acc = .ok (acc.reverse ++ cs) := by
  induction cs with
  | nil =>
    intro fuel i acc _
    cases fuel <;> simp [utf8Encode, utf8DecodeAux]
  | cons c cs ih =>
    intro fuel i acc h
    obtain ⟨f, rfl⟩ : ∃ f, fuel = f + 1 := ⟨fuel - 1, by simp at h; omega⟩
    obtain ⟨k, hk⟩ := decode_step f i c (utf8Encode cs) acc
    have : utf8Encode (c :: cs) = String.utf8EncodeChar c ++ utf8Encode cs := by simp [utf8Encode]
    rw [this, hk, ih f (i + k) (c :: acc) (by simp at h; omega)]
    simp

theorem length_le_encode (cs : List Char) : cs.length ≤ (utf8Encode cs).length := by
  induction cs with
  | nil => simp
  | cons c cs ih =>
    have : utf8Encode (c :: cs) = String.utf8EncodeChar c ++ utf8Encode cs := by simp [utf8Encode]
    have h1 : 0 < (String.utf8EncodeChar c).length := by
      unfold String.utf8EncodeChar; simp only []; repeat' split
      all_goals simp
    rw [this, List.length_append, List.length_cons]; omega

end Seed.C15U
