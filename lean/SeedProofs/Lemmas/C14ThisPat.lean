/-
  C14ThisPat.lean — parameter *patterns* and `this`: binding a pattern declares, in the innermost scope cell, only
  names that occur in the pattern as variables (`patVars`).  Proved as an invariant over all 23 evaluator functions:
  for a scope cell `A` that does not have the name `k`, no evaluation gives it `k` — except a statement run with `A`
  as its innermost scope, or a pattern bound there that mentions `k`.  (Statements only ever run on a chain whose head
  was allocated for them by `evalBlock`, so evaluating the expressions inside a pattern never declares into `A`.)
-/
import SeedProofs.Lemmas.C14This
namespace Seed
open Gen (Leaf)

/-! ### the names a pattern binds -/

mutual
/-- the names a declaration / parameter pattern binds: its variables, through list and object patterns -/
def patVars : Expr → List (List Char)
  | .mk raw _ => rawPatVars raw
def rawPatVars : RawExpr → List (List Char)
  | .Var x => [x]
  | .List items _ => itemsVars items
  | .Object props => propsVars props
  | _ => []
def itemsVars : List ListItem → List (List Char)
  | [] => []
  | .mk e _ :: r => patVars e ++ itemsVars r
def propsVars : List PropItem → List (List Char)
  | [] => []
  | .Single e _ _ :: r => patVars e ++ propsVars r
  | .Pair _ v :: r => patVars v ++ propsVars r
end

/-- the names a binding list binds -/
def bindingsVars : List (Expr × SVal) → List (List Char)
  | [] => []
  | (lhs, _) :: r => patVars lhs ++ bindingsVars r

theorem patVars_var (x : List Char) (l : Loc) : patVars (.mk (.Var x) l) = [x] := by simp [patVars, rawPatVars]
theorem patVars_list (items : List ListItem) (c : Bool) (l : Loc) : patVars (.mk (.List items c) l) = itemsVars items := by
  simp [patVars, rawPatVars]
theorem patVars_object (props : List PropItem) (l : Loc) : patVars (.mk (.Object props) l) = propsVars props := by
  simp [patVars, rawPatVars]
theorem patVars_of_raw_var {e : Expr} {x : List Char} (h : e.raw = .Var x) : patVars e = [x] := by
  obtain ⟨raw, l⟩ := e
  simp only [Expr.raw] at h
  subst h
  exact patVars_var x l
theorem itemsVars_cons (e : Expr) (sp : Bool) (r : List ListItem) : itemsVars (.mk e sp :: r) = patVars e ++ itemsVars r := by
  simp [itemsVars]
theorem propsVars_single (e : Expr) (sp c : Bool) (r : List PropItem) :
    propsVars (.Single e sp c :: r) = patVars e ++ propsVars r := by
  simp [propsVars]
theorem propsVars_pair (ne v : Expr) (r : List PropItem) : propsVars (.Pair ne v :: r) = patVars v ++ propsVars r := by
  simp [propsVars]

theorem bindingsVars_zip_varExprs (vars : List (List Char × Loc)) (vals : List SVal) (k : List Char)
    (h : ∀ p ∈ vars, p.1 ≠ k) : k ∉ bindingsVars ((varExprs vars).zip vals) := by
  induction vars generalizing vals with
  | nil => simp [varExprs, bindingsVars]
  | cons p r ih =>
    cases vals with
    | nil => simp [bindingsVars]
    | cons v vs =>
      have h1 : p.1 ≠ k := h p List.mem_cons_self
      have h2 := ih vs (fun q hq => h q (List.mem_cons_of_mem _ hq))
      simp only [varExprs, List.map_cons, List.zip_cons_cons, bindingsVars, patVars_var, List.mem_append,
        List.mem_singleton, not_or]
      exact ⟨fun e => h1 e.symm, h2⟩

/-! ### the invariant -/

/-- the scope cell `A` exists and does not have the name `k` -/
def Free (A : Addr) (k : List Char) (σ : State) : Prop := ∃ m, σ.getScope A = some m ∧ scopeLookup k m = none

/-- a successful result leaves `A` without `k` -/
def OkF (A : Addr) (k : List Char) {α} : Res α → Prop
  | .ok _ σ' => Free A k σ'
  | _ => True

/-- either the innermost scope is not `A`, or `k` is not among the names being bound -/
def Side (A : Addr) (k : List Char) (sc : List Addr) (names : List (List Char)) : Prop :=
  sc.head? ≠ some A ∨ k ∉ names

section
variable {A : Addr} {k : List Char}

theorem Free.lt {σ : State} (h : Free A k σ) : A < σ.heap.size := by
  obtain ⟨m, hm, _⟩ := h; exact getScope_lt hm

theorem Free.alloc {σ : State} (c : Cell) (h : Free A k σ) : Free A k (σ.alloc c).2 := by
  obtain ⟨m, hm, hl⟩ := h
  refine ⟨m, ?_, hl⟩
  rw [getScope_eq_some] at hm ⊢
  rw [σ.alloc_heap_old _ (heap_lt_of_some hm)]; exact hm

theorem Free.alloc_eq {σ σ' : State} {c : Cell} {a : Addr} (he : σ.alloc c = (a, σ')) (h : Free A k σ) : Free A k σ' := by
  have := h.alloc c; rw [he] at this; exact this

theorem Free.print {σ : State} (l : List Char) (h : Free A k σ) : Free A k (σ.print l) := h

theorem Free.set_other {σ : State} {a : Addr} (c : Cell) (hne : A ≠ a) (h : Free A k σ) : Free A k (σ.set a c) := by
  obtain ⟨m, hm, hl⟩ := h
  exact ⟨m, by rw [getScope_set_other _ hne]; exact hm, hl⟩

theorem Free.setList {σ : State} {a : Addr} {xs : List SVal} (ys : List SVal) (hg : σ.getList a = some xs)
    (h : Free A k σ) : Free A k (σ.set a (.list ys)) := by
  refine h.set_other _ ?_
  rintro rfl
  obtain ⟨m, hm, _⟩ := h
  rw [getScope_eq_some] at hm
  rw [getList_eq_some, hm] at hg
  cases hg

theorem Free.setObj {σ : State} {a : Addr} {m0 : ObjMap} (m' : ObjMap) (hg : σ.getObj a = some m0)
    (h : Free A k σ) : Free A k (σ.set a (.obj m')) := by
  refine h.set_other _ ?_
  rintro rfl
  obtain ⟨m, hm, _⟩ := h
  rw [getScope_eq_some] at hm
  rw [getObj_eq_some, hm] at hg
  cases hg

namespace OkF
theorem bind {α β} {r : Res α} {f : α → State → Res β} (h : OkF A k r)
    (hf : ∀ a σ1, Free A k σ1 → OkF A k (f a σ1)) : OkF A k (r.bind f) := by
  cases r with
  | ok a σ1 => exact hf a σ1 h
  | err e σ1 => trivial
  | crash w σ1 => trivial
  | timeout => trivial
theorem map {α β} {r : Res α} (f : α → β) (h : OkF A k r) : OkF A k (r.map f) := by
  cases r <;> first | exact h | trivial
theorem mapErr {α} {r : Res α} (f : Err → Err) (h : OkF A k r) : OkF A k (r.mapErr f) := by
  cases r <;> first | exact h | trivial
theorem ok {α} {a : α} {σ : State} (h : Free A k σ) : OkF A k (.ok a σ) := h
end OkF

namespace Side
theorem head {sc : List Addr} {names : List (List Char)} (h : sc.head? ≠ some A) : Side A k sc names := Or.inl h
theorem app_left {sc : List Addr} {l1 l2 : List (List Char)} (h : Side A k sc (l1 ++ l2)) : Side A k sc l1 :=
  h.imp id fun hn hm => hn (List.mem_append_left _ hm)
theorem app_right {sc : List Addr} {l1 l2 : List (List Char)} (h : Side A k sc (l1 ++ l2)) : Side A k sc l2 :=
  h.imp id fun hn hm => hn (List.mem_append_right _ hm)
theorem pat_var {sc : List Addr} {x : List Char} {l : Loc} (h : Side A k sc (patVars (.mk (.Var x) l))) : Side A k sc [x] := by
  rw [patVars_var] at h; exact h
theorem pat_list {sc : List Addr} {items : List ListItem} {c : Bool} {l : Loc}
    (h : Side A k sc (patVars (.mk (.List items c) l))) : Side A k sc (itemsVars items) := by
  rw [patVars_list] at h; exact h
theorem pat_object {sc : List Addr} {props : List PropItem} {l : Loc}
    (h : Side A k sc (patVars (.mk (.Object props) l))) : Side A k sc (propsVars props) := by
  rw [patVars_object] at h; exact h
theorem items_head {sc : List Addr} {e : Expr} {sp : Bool} {r : List ListItem}
    (h : Side A k sc (itemsVars (.mk e sp :: r))) : Side A k sc (patVars e) := by
  rw [itemsVars_cons] at h; exact h.app_left
theorem items_tail {sc : List Addr} {e : Expr} {sp : Bool} {r : List ListItem}
    (h : Side A k sc (itemsVars (.mk e sp :: r))) : Side A k sc (itemsVars r) := by
  rw [itemsVars_cons] at h; exact h.app_right
theorem single_head {sc : List Addr} {e : Expr} {sp c : Bool} {r : List PropItem}
    (h : Side A k sc (propsVars (.Single e sp c :: r))) : Side A k sc (patVars e) := by
  rw [propsVars_single] at h; exact h.app_left
theorem single_var {sc : List Addr} {e : Expr} {sp c : Bool} {r : List PropItem} {x : List Char} (he : e.raw = .Var x)
    (h : Side A k sc (propsVars (.Single e sp c :: r))) : Side A k sc [x] := by
  have := h.single_head; rw [patVars_of_raw_var he] at this; exact this
theorem single_tail {sc : List Addr} {e : Expr} {sp c : Bool} {r : List PropItem}
    (h : Side A k sc (propsVars (.Single e sp c :: r))) : Side A k sc (propsVars r) := by
  rw [propsVars_single] at h; exact h.app_right
theorem pair_head {sc : List Addr} {ne v : Expr} {r : List PropItem}
    (h : Side A k sc (propsVars (.Pair ne v :: r))) : Side A k sc (patVars v) := by
  rw [propsVars_pair] at h; exact h.app_left
theorem pair_tail {sc : List Addr} {ne v : Expr} {r : List PropItem}
    (h : Side A k sc (propsVars (.Pair ne v :: r))) : Side A k sc (propsVars r) := by
  rw [propsVars_pair] at h; exact h.app_right
theorem bindings_head {sc : List Addr} {lhs : Expr} {rhs : SVal} {r : List (Expr × SVal)}
    (h : Side A k sc (bindingsVars ((lhs, rhs) :: r))) : Side A k sc (patVars lhs) := h.app_left
theorem bindings_tail {sc : List Addr} {lhs : Expr} {rhs : SVal} {r : List (Expr × SVal)}
    (h : Side A k sc (bindingsVars ((lhs, rhs) :: r))) : Side A k sc (bindingsVars r) := h.app_right
end Side

/-! ### the primitives -/

theorem applyBinOp_free (n : Nat) {σ : State} (op : BinaryOp) (loc : Loc) (a b : Val) (h : Free A k σ) :
    OkF A k (applyBinOp n σ op loc a b) := by
  unfold applyBinOp
  cases op <;> simp only [] <;> (repeat' split) <;>
    first
      | exact h
      | trivial
      | (unfold arith; simp only []; (repeat' split) <;> first | exact h | trivial)
      | exact h.alloc _

theorem callBuiltin_free (n : Nat) {σ : State} (f : BuiltinId) (this : Option SVal) (args : List SVal) (h : Free A k σ) :
    OkF A k (callBuiltin n σ f this args) := by
  unfold callBuiltin
  cases f <;> simp only [] <;> (repeat' split) <;>
    first
      | exact h
      | trivial
      | exact h.print _

theorem opAssignValue_free (n : Nat) {σ : State} (cur rhs : SVal) (op : Option (BinaryOp × Loc)) (h : Free A k σ) :
    OkF A k (opAssignValue n σ cur rhs op) := by
  unfold opAssignValue
  split
  · exact h
  · exact OkF.map _ (applyBinOp_free n _ _ _ _ h)

theorem validateArgsRes_free (n : Nat) {σ : State} (args : List Expr) (h : Free A k σ) :
    OkF A k (validateArgsRes n args σ) := by
  unfold validateArgsRes
  split <;> first | exact h | trivial

/-- an assignment through the chain never gives a cell a name it did not have -/
theorem scopeAssign_free {σ σ' : State} {sc : List Addr} {name : List Char} {v : SVal}
    (he : scopeAssign σ sc name v = some σ') (h : Free A k σ) : Free A k σ' := by
  obtain ⟨a, m, p, _, hs, hl, e⟩ := scopeAssign_hit he
  subst e
  by_cases hA : A = a
  · subst hA
    obtain ⟨m0, hm0, hl0⟩ := h
    rw [hs] at hm0
    cases hm0
    refine ⟨_, getScope_set_same (getScope_lt hs) _, ?_⟩
    by_cases hk : k = name
    · subst hk; rw [hl0] at hl; cases hl
    · rw [scopeLookup_setVal_other _ _ hk]; exact hl0
  · exact h.set_other _ hA

theorem bindNextName_free (n : Nat) {σ : State} (sc : List Addr) (names : List (List Char)) (name : List Char) (loc : Loc)
    (rhs : SVal) (op : Option (BinaryOp × Loc)) (decl : Bool) (h : Free A k σ) (hs : Side A k sc [name]) :
    OkF A k (bindNextName n σ sc names name loc rhs op decl) := by
  unfold bindNextName
  split
  · exact h
  split
  · trivial
  cases decl with
  | true =>
    simp only [if_true]
    cases op with
    | some o => trivial
    | none =>
      try dsimp only []
      unfold scopeDeclare
      cases sc with
      | nil => trivial
      | cons a r =>
        try dsimp only []
        cases hsa : σ.getScope a with
        | none => trivial
        | some m =>
          try dsimp only []
          cases hl : scopeLookup name m with
          | some p => trivial
          | none =>
            try dsimp only []
            show Free A k _
            by_cases hA : A = a
            · subst hA
              have hk : k ≠ name := by
                rcases hs with hs | hs
                · exact absurd rfl hs
                · intro e; exact hs (by simp [e])
              obtain ⟨m0, hm0, hl0⟩ := h
              rw [hsa] at hm0
              cases hm0
              exact ⟨_, getScope_set_same (getScope_lt hsa) _, by rw [scopeLookup_cons_ne hk]; exact hl0⟩
            · exact h.set_other _ hA
  | false =>
    simp only [Bool.false_eq_true, if_false]
    cases op with
    | none =>
      try dsimp only []
      cases he : scopeAssign σ sc name rhs with
      | none => trivial
      | some σ2 => exact scopeAssign_free he h
    | some o =>
      obtain ⟨o, oloc⟩ := o
      try dsimp only []
      cases hg : scopeGet σ sc name with
      | none => trivial
      | some cur =>
        try dsimp only []
        apply OkF.bind (applyBinOp_free n _ _ _ _ h)
        intro v σ1 h1
        try dsimp only []
        cases he : scopeAssign σ1 sc name (SVal.plain v) with
        | none => trivial
        | some σ2 => exact scopeAssign_free he h1

/-! ### all evaluator functions -/

structure FreeAll (A : Addr) (k : List Char) (n : Nat) : Prop where
  evalExpr : ∀ σ sc e, Free A k σ → OkF A k (evalExpr n σ sc e)
  evalOptIndex : ∀ σ sc e, Free A k σ → OkF A k (evalOptIndex n σ sc e)
  evalListItems : ∀ σ sc items acc, Free A k σ → OkF A k (evalListItems n σ sc items acc)
  evalProps : ∀ σ sc l props acc, Free A k σ → OkF A k (evalProps n σ sc l props acc)
  evalCall : ∀ σ sc f args loc, Free A k σ → OkF A k (evalCall n σ sc f args loc)
  evalToStr : ∀ σ sc d e, Free A k σ → OkF A k (evalToStr n σ sc d e)
  evalToBool : ∀ σ sc d e, Free A k σ → OkF A k (evalToBool n σ sc d e)
  evalToInt : ∀ σ sc d e, Free A k σ → OkF A k (evalToInt n σ sc d e)
  evalToIndex : ∀ σ sc e, Free A k σ → OkF A k (evalToIndex n σ sc e)
  interpolate : ∀ σ sc s slots loc last acc, Free A k σ → OkF A k (interpolate n σ sc s slots loc last acc)
  evalBlock : ∀ σ sc bs stmts, Free A k σ → OkF A k (evalBlock n σ sc bs stmts)
  declareAll : ∀ σ sc bs, Free A k σ → Side A k sc (bindingsVars bs) → OkF A k (declareAll n σ sc bs)
  evalStmts : ∀ σ sc stmts, Free A k σ → sc.head? ≠ some A → OkF A k (evalStmts n σ sc stmts)
  evalStmt : ∀ σ sc st, Free A k σ → sc.head? ≠ some A → OkF A k (evalStmt n σ sc st)
  evalIf : ∀ σ sc bs els, Free A k σ → OkF A k (evalIf n σ sc bs els)
  evalWhile : ∀ σ sc c stmts, Free A k σ → OkF A k (evalWhile n σ sc c stmts)
  evalFor : ∀ σ sc lhs pairs stmts, Free A k σ → OkF A k (evalFor n σ sc lhs pairs stmts)
  bindNext : ∀ σ sc names lhs rhs op decl, Free A k σ → Side A k sc (patVars lhs) →
    OkF A k (bindNext n σ sc names lhs rhs op decl)
  bindProp : ∀ σ a name loc rhs op names vi, Free A k σ → OkF A k (bindProp n σ a name loc rhs op names vi)
  bindRangeIndex : ∀ σ sc a start stop loc rhsItems names, Free A k σ →
    OkF A k (bindRangeIndex n σ sc a start stop loc rhsItems names)
  bindList : ∀ σ sc names items collect lhsLoc b decl i lhsLen, Free A k σ → Side A k sc (itemsVars items) →
    OkF A k (bindList n σ sc names items collect lhsLoc b decl i lhsLen)
  bindObject : ∀ σ sc names props b decl i total remaining, Free A k σ → Side A k sc (propsVars props) →
    OkF A k (bindObject n σ sc names props b decl i total remaining)
  bindObjectProp : ∀ σ sc names lhs b pname ploc decl, Free A k σ → Side A k sc (patVars lhs) →
    OkF A k (bindObjectProp n σ sc names lhs b pname ploc decl)

end

/-- `Free A k σ'` for a state obtained from one already known to be free -/
macro "free_state" : tactic =>
  `(tactic| first
    | assumption
    | (apply Free.alloc; assumption)
    | (apply Free.alloc_eq (by assumption); assumption)
    | (apply Free.print; assumption)
    | (apply Free.setList _ (by assumption); assumption)
    | (apply Free.setObj _ (by assumption); assumption))

/-- the side condition of a recursive call from the one in the context -/
macro "side_tac" : tactic =>
  `(tactic| first
    | assumption
    | (with_reducible apply Side.head; assumption)
    | (with_reducible apply Side.pat_var; assumption)
    | (with_reducible apply Side.pat_list; assumption)
    | (with_reducible apply Side.pat_object; assumption)
    | (with_reducible apply Side.items_head; assumption)
    | (with_reducible apply Side.items_tail; assumption)
    | (with_reducible apply Side.single_head; assumption)
    | (with_reducible apply Side.single_var (by assumption); assumption)
    | (with_reducible apply Side.single_tail; assumption)
    | (with_reducible apply Side.pair_head; assumption)
    | (with_reducible apply Side.pair_tail; assumption)
    | (with_reducible apply Side.bindings_head; assumption)
    | (with_reducible apply Side.bindings_tail; assumption))

macro "free_leaf " ih:ident : tactic =>
  `(tactic| first
    | trivial
    | (with_reducible apply OkF.ok; free_state)
    | (with_reducible apply FreeAll.evalExpr $ih; free_state) | (with_reducible apply FreeAll.evalOptIndex $ih; free_state)
    | (with_reducible apply FreeAll.evalListItems $ih; free_state) | (with_reducible apply FreeAll.evalProps $ih; free_state)
    | (with_reducible apply FreeAll.evalCall $ih; free_state) | (with_reducible apply FreeAll.evalToStr $ih; free_state)
    | (with_reducible apply FreeAll.evalToBool $ih; free_state) | (with_reducible apply FreeAll.evalToInt $ih; free_state)
    | (with_reducible apply FreeAll.evalToIndex $ih; free_state) | (with_reducible apply FreeAll.interpolate $ih; free_state)
    | (with_reducible apply FreeAll.evalBlock $ih; free_state)
    | (with_reducible apply FreeAll.declareAll $ih <;> first | free_state | side_tac)
    | (with_reducible apply FreeAll.evalStmts $ih <;> first | free_state | assumption)
    | (with_reducible apply FreeAll.evalStmt $ih <;> first | free_state | assumption)
    | (with_reducible apply FreeAll.evalIf $ih; free_state) | (with_reducible apply FreeAll.evalWhile $ih; free_state)
    | (with_reducible apply FreeAll.evalFor $ih; free_state)
    | (with_reducible apply FreeAll.bindNext $ih <;> first | free_state | side_tac)
    | (with_reducible apply FreeAll.bindProp $ih; free_state) | (with_reducible apply FreeAll.bindRangeIndex $ih; free_state)
    | (with_reducible apply FreeAll.bindList $ih <;> first | free_state | side_tac)
    | (with_reducible apply FreeAll.bindObject $ih <;> first | free_state | side_tac)
    | (with_reducible apply FreeAll.bindObjectProp $ih <;> first | free_state | side_tac)
    | (with_reducible apply applyBinOp_free; free_state) | (with_reducible apply callBuiltin_free; free_state)
    | (with_reducible apply opAssignValue_free; free_state)
    | (with_reducible apply bindNextName_free <;> first | free_state | side_tac)
    | (with_reducible apply validateArgsRes_free; free_state))

macro "free_auto " ih:ident : tactic =>
  `(tactic| repeat' first
    | (cases ‹(_, _) = (_, _)›)
    | free_leaf $ih
    | with_reducible apply OkF.bind
    | intro _ _ _
    | with_reducible apply OkF.map
    | with_reducible apply OkF.mapErr
    | split
    | (dsimp only []))

theorem freeAll_zero {A : Addr} {k : List Char} : FreeAll A k 0 := by
  constructor <;> intros
  · unfold evalExpr; trivial
  · unfold evalOptIndex; trivial
  · unfold evalListItems; trivial
  · unfold evalProps; trivial
  · unfold evalCall; trivial
  · unfold evalToStr; trivial
  · unfold evalToBool; trivial
  · unfold evalToInt; trivial
  · unfold evalToIndex; trivial
  · unfold interpolate; trivial
  · unfold evalBlock; trivial
  · unfold declareAll; trivial
  · unfold evalStmts; trivial
  · unfold evalStmt; trivial
  · unfold evalIf; trivial
  · unfold evalWhile; trivial
  · unfold evalFor; trivial
  · unfold bindNext; trivial
  · unfold bindProp; trivial
  · unfold bindRangeIndex; trivial
  · unfold bindList; trivial
  · unfold bindObject; trivial
  · unfold bindObjectProp; trivial

theorem freeAll_succ {A : Addr} {k : List Char} (n : Nat) (ih : FreeAll A k n) : FreeAll A k (n + 1) := by
  constructor
  · intro σ sc e h; unfold evalExpr; free_auto ih
  · intro σ sc e h; unfold evalOptIndex; free_auto ih
  · intro σ sc items acc h; unfold evalListItems; free_auto ih
  · intro σ sc l props acc h; unfold evalProps; free_auto ih
  · intro σ sc f args loc h; unfold evalCall; free_auto ih
  · intro σ sc d e h; unfold evalToStr; free_auto ih
  · intro σ sc d e h; unfold evalToBool; free_auto ih
  · intro σ sc d e h; unfold evalToInt; free_auto ih
  · intro σ sc e h; unfold evalToIndex; free_auto ih
  · intro σ sc s slots loc last acc h; unfold interpolate; free_auto ih
  · intro σ sc bs stmts h
    rw [evalBlock_succ]
    have hd : (σ.heap.size :: sc).head? ≠ some A := by
      have := h.lt
      simp only [List.head?_cons, ne_eq, Option.some.injEq]
      intro e
      exact Nat.lt_irrefl _ (e ▸ this)
    apply OkF.bind (ih.declareAll _ _ _ (h.alloc _) (Side.head hd))
    intro _ σ2 h2
    exact ih.evalStmts _ _ _ h2 hd
  · intro σ sc bs h hs; unfold declareAll; free_auto ih
  · intro σ sc stmts h hd; unfold evalStmts; free_auto ih
  · intro σ sc st h hd; unfold evalStmt; free_auto ih
  · intro σ sc bs els h; unfold evalIf; free_auto ih
  · intro σ sc c stmts h; unfold evalWhile; free_auto ih
  · intro σ sc lhs pairs stmts h; unfold evalFor; free_auto ih
  · intro σ sc names lhs rhs op decl h hs; unfold bindNext; free_auto ih
  · intro σ a name loc rhs op names vi h; unfold bindProp; free_auto ih
  · intro σ sc a start stop loc rhsItems names h; unfold bindRangeIndex; free_auto ih
  · intro σ sc names items collect lhsLoc b decl i lhsLen h hs; unfold bindList; free_auto ih
  · intro σ sc names props b decl i total remaining h hs; unfold bindObject; free_auto ih
  · intro σ sc names lhs b pname ploc decl h hs; unfold bindObjectProp; free_auto ih

theorem freeAll (A : Addr) (k : List Char) (n : Nat) : FreeAll A k n := by
  induction n with
  | zero => exact freeAll_zero
  | succ n ih => exact freeAll_succ n ih

/-- **Binding parameter patterns that do not mention `k` never declares `k`.**  If the bindings can be declared into
    the cell `a` (which had no `k`), the cell still has no `k` — whatever the patterns' target expressions evaluate. -/
theorem declareAll_keeps_free {n : Nat} {σ σ' : State} {a : Addr} {sc : List Addr} {bs : List (Expr × SVal)} {k : List Char}
    {m : ScopeMap} (hs : σ.getScope a = some m) (hl : scopeLookup k m = none) (hk : k ∉ bindingsVars bs)
    (h : declareAll n σ (a :: sc) bs = .ok () σ') :
    ∃ m', σ'.getScope a = some m' ∧ scopeLookup k m' = none := by
  have := (freeAll a k n).declareAll σ (a :: sc) bs ⟨m, hs, hl⟩ (Or.inr hk)
  rw [h] at this
  exact this

theorem not_mem_bindingsVars_zip {k : List Char} (params : List Expr) (vals : List SVal)
    (h : ∀ p ∈ params, k ∉ patVars p) : k ∉ bindingsVars (params.zip vals) := by
  induction params generalizing vals with
  | nil => simp [bindingsVars]
  | cons p r ih =>
    cases vals with
    | nil => simp [bindingsVars]
    | cons v vs =>
      simp only [List.zip_cons_cons, bindingsVars, List.mem_append, not_or]
      exact ⟨h p List.mem_cons_self, ih vs fun q hq => h q (List.mem_cons_of_mem _ hq)⟩

/-- **A body entered without a `this` binding.**  Parameters `params` (arbitrary patterns, none of which binds the name
    `this`) bound to `pv` in the fresh cell `σ3.heap.size` on top of `closure`: whenever that succeeds, `this` resolves
    through the closure chain only in the state the body starts in. -/
theorem body_without_this {σ3 σb : State} {closure : List Addr} {params : List Expr} {pv : List SVal} {n : Nat}
    (hno : ∀ p ∈ params, c!"this" ∉ patVars p)
    (h : declareAll n (σ3.alloc (.scope [])).2 (σ3.heap.size :: closure) (params.zip pv) = .ok () σb) :
    scopeGet σb (σ3.heap.size :: closure) c!"this" = scopeGet σb closure c!"this" ∧
    (scopeGet σb closure c!"this" = none → ∀ j l,
      evalExpr (j + 1) σb (σ3.heap.size :: closure) (.mk (.Var c!"this") l) = errAt l (Leaf.Undefined c!"this") σb) ∧
    (∀ w, scopeGet σb closure c!"this" = some w → ∀ j l,
      evalExpr (j + 1) σb (σ3.heap.size :: closure) (.mk (.Var c!"this") l) = .ok w σb) := by
  have hsA : (σ3.alloc (.scope [])).2.getScope σ3.heap.size = some [] := getScope_eq_some.mpr (σ3.alloc_heap_new _)
  obtain ⟨m', hs', hl'⟩ := declareAll_keeps_free hsA (by rfl) (not_mem_bindingsVars_zip params pv hno) h
  have hget := scopeGet_head_miss closure hs' hl'
  refine ⟨hget, fun hnone j l => ?_, fun w hw j l => ?_⟩
  · rw [evalExpr, hget, hnone]
  · rw [evalExpr, hget, hw]

end Seed
