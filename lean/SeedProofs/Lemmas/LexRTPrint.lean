/-
  Lemmas/LexRTPrint.lean — the printer of C08 (`prStmts`, Lemmas/ParseRT2Defs.lean) never puts a statement
  terminator where the lexer's terminator suppression would drop it: no `StmtEnd` of `prStmts p` is first or
  follows a `StmtEnd` or a continuation token (`prStmts_keepAll`, for every program, well-formed or not).
  Reason: a printed statement is never empty and ends with a name, a literal, a keyword or a closing
  bracket — never with a continuation token — and a block `{ … }` begins with a statement, not with `;`.

  Consequently the source text `renderToks (prStmts p)` is lexed to a token stream whose `.tok` projection
  is `prStmts p` (`lexAll_printed`), which is what C08's `parse_print_prog` needs.
-/
import SeedProofs.Lemmas.LexRT
import SeedProofs.Lemmas.ParseRT2Defs
namespace Seed.LexRT
open Seed

/-- a non-empty piece of printed text that does not begin with a terminator, contains no droppable
    terminator, and ends with a token that is not a continuation token: whatever the context before it, after
    it a terminator is kept -/
def Good (ts : List Token) : Prop := ∀ d rest, keepAll d (ts ++ rest) = keepAll false rest

/-- possibly empty -/
def Opt (ts : List Token) : Prop := ts = [] ∨ Good ts

/-- a statement list: no droppable terminator in any context (it ends with a terminator, or is empty) -/
def Semi (ts : List Token) : Prop := ∀ d rest, ∃ d', keepAll d (ts ++ rest) = keepAll d' rest

theorem ne_stmtEnd_of_not_cont {t : Token} (h : isContinuation t = false) : t ≠ Token.StmtEnd := by
  rintro rfl
  exact absurd h (by decide)

theorem keepAll_cons_ne (d : Bool) (t : Token) (r : List Token) (h : t ≠ Token.StmtEnd) :
    keepAll d (t :: r) = keepAll (isContinuation t) r := by
  simp only [keepAll, bne_iff_ne.mpr h, Bool.true_or, Bool.true_and]

theorem Good.single {t : Token} (h : isContinuation t = false) : Good [t] := by
  intro d rest
  rw [List.singleton_append, keepAll_cons_ne d t rest (ne_stmtEnd_of_not_cont h), h]

theorem Good.append {a b : List Token} (ha : Good a) (hb : Good b) : Good (a ++ b) := by
  intro d rest
  rw [List.append_assoc, ha, hb]

theorem Good.cons {t : Token} {b : List Token} (ht : t ≠ Token.StmtEnd) (hb : Good b) : Good (t :: b) := by
  intro d rest
  rw [List.cons_append, keepAll_cons_ne d t _ ht, hb]

theorem Good.opt {a : List Token} (h : Good a) : Opt a := Or.inr h

theorem Good.append_opt {a b : List Token} (ha : Good a) (hb : Opt b) : Good (a ++ b) := by
  rcases hb with rfl | hb
  · rw [List.append_nil]; exact ha
  · exact ha.append hb

theorem Opt.append_good {a b : List Token} (ha : Opt a) (hb : Good b) : Good (a ++ b) := by
  rcases ha with rfl | ha
  · exact hb
  · exact ha.append hb

/-- `{ stmts }` -/
theorem Good.block {x : List Token} (h : Semi x) : Good (Token.BraceOpen :: (x ++ [Token.BraceClose])) := by
  intro d rest
  rw [List.cons_append, keepAll_cons_ne d _ _ (by decide), List.append_assoc]
  obtain ⟨d', e⟩ := h (isContinuation Token.BraceOpen) ([Token.BraceClose] ++ rest)
  rw [e, List.singleton_append, keepAll_cons_ne d' _ _ (by decide)]
  rfl

theorem Good.parens {x : List Token} (b : Bool) (h : Good x) : Good (Seed.paren b x) := by
  unfold Seed.paren
  split
  · exact Good.cons (by decide) (h.append (Good.single rfl))
  · exact h

theorem spreadMark_opt (s : Bool) : Opt (spreadMark s) := by
  cases s
  · exact Or.inl rfl
  · exact Or.inr (Good.single rfl)

theorem tokOf_ne (op : BinaryOp) : tokOf op ≠ Token.StmtEnd := by cases op <;> decide

theorem assignTok_ne (op : BinaryOp) : (assignTokOf op).getD Token.Equals ≠ Token.StmtEnd := by
  cases op <;> decide

/-- comma-separated items and the closing bracket -/
theorem sepBody_good {close : Token} (hc : isContinuation close = false) (c : Bool) :
    ∀ (l : List (List Token)), (∀ x ∈ l, Good x) → Good (sepBody close c l)
  | [], _ => Good.single hc
  | [t], h => by
    have ht : Good (t ++ [close]) := (h t (List.mem_cons_self ..)).append (Good.single hc)
    unfold sepBody
    cases c
    · exact ht
    · exact (Good.single rfl).append ht
  | t :: u :: r, h => by
    have ih := sepBody_good hc c (u :: r) (fun x hx => h x (List.mem_cons_of_mem _ hx))
    unfold sepBody
    exact (h t (List.mem_cons_self ..)).append (Good.cons (by decide) ih)

/-- `b₁ else if b₂ … (else e)?` -/
theorem ifTail_opt : ∀ (bs : List (List Token)) (els : Option (List Token)),
    (∀ x ∈ bs, Good x) → (∀ e, els = some e → Good e) → Opt (ifTail bs els)
  | [], none, _, _ => Or.inl rfl
  | [], some e, _, he => Or.inr (Good.cons (by decide) (he e rfl))
  | [b], none, hb, _ => Or.inr (hb b (List.mem_cons_self ..))
  | [b], some e, hb, he => Or.inr ((hb b (List.mem_cons_self ..)).append (Good.cons (by decide) (he e rfl)))
  | b :: b2 :: bs, els, hb, he => by
    have ih := ifTail_opt (b2 :: bs) els (fun x hx => hb x (List.mem_cons_of_mem _ hx)) he
    unfold ifTail
    exact Or.inr ((hb b (List.mem_cons_self ..)).append
      (Good.cons (by decide) ((Good.single (t := Token.If) rfl).append_opt ih)))

theorem ifBody_good (bs : List (List Token)) (els : Option (List Token))
    (hb : ∀ x ∈ bs, Good x) (he : ∀ e, els = some e → Good e) : Good (ifBody bs els) :=
  (Good.single (t := Token.If) rfl).append_opt (ifTail_opt bs els hb he)

/-! ### the printer -/

mutual
theorem prR_good : (r : RawExpr) → (k : Nat) → Good (prR k r)
  | .Null, _ => Good.single rfl
  | .Bool true, _ => Good.single rfl
  | .Bool false, _ => Good.single rfl
  | .Int (.ofNat _), _ => Good.single rfl
  | .Int (.negSucc _), _ => Good.cons (by decide) (Good.single rfl)
  | .Str _ none, _ => Good.single rfl
  | .Str _ (some _), _ => Good.single rfl
  | .Var _, _ => Good.single rfl
  | .BinaryOp op _ l r, k => by
    simp only [prR]
    exact Good.parens _ ((prE_good l _).append (Good.cons (tokOf_ne op) (prE_good r _)))
  | .Range l r, k => by
    simp only [prR]
    exact Good.parens _ ((prE_good l _).append (Good.cons (by decide) (prE_good r _)))
  | .List items c, _ => by
    simp only [prR]
    exact Good.cons (by decide) (sepBody_good rfl c _ (prItems_good items))
  | .Index e i, _ => by
    simp only [prR]
    exact (prE_good e _).append (Good.cons (by decide) ((prE_good i _).append (Good.single rfl)))
  | .RangeIndex e a b, _ => by
    simp only [prR]
    exact (prE_good e _).append (Good.cons (by decide)
      ((prO_opt a).append_good (Good.cons (by decide) ((prO_opt b).append_good (Good.single rfl)))))
  | .Prop e name tp, _ => by
    simp only [prR]
    refine (prE_good e _).append (Good.cons ?_ (Good.single rfl))
    cases tp <;> decide
  | .Call f args, _ => by
    simp only [prR]
    exact (prE_good f _).append (Good.cons (by decide) (sepBody_good rfl false _ (prItems_good args)))
  | .Object props, _ => by
    simp only [prR]
    exact Good.cons (by decide) (sepBody_good rfl false _ (prProps_good props))
  | .Func args c stmts, _ => by
    simp only [prR]
    exact Good.cons (by decide) (Good.cons (by decide)
      ((sepBody_good rfl c _ (prEs_good args)).append (Good.block (prStmts_semi stmts))))
theorem prE_good : (e : Expr) → (k : Nat) → Good (prE k e)
  | .mk r _, k => by simp only [prE]; exact prR_good r k
theorem prO_opt : (o : Option Expr) → Opt (prO o)
  | none => Or.inl rfl
  | some e => by simp only [prO]; exact Or.inr (prE_good e 1)
theorem prItems_good : (l : List ListItem) → ∀ x ∈ prItems l, Good x
  | [], x, hx => by simp [prItems] at hx
  | .mk e s :: r, x, hx => by
    simp only [prItems, List.mem_cons] at hx
    rcases hx with rfl | hx
    · exact (prE_good e 1).append_opt (spreadMark_opt s)
    · exact prItems_good r x hx
theorem prProps_good : (l : List PropItem) → ∀ x ∈ prProps l, Good x
  | [], x, hx => by simp [prProps] at hx
  | .Pair k v :: r, x, hx => by
    simp only [prProps, List.mem_cons] at hx
    rcases hx with rfl | hx
    · exact (prE_good k 1).append (Good.cons (by decide) (prE_good v 1))
    · exact prProps_good r x hx
  | .Single e s c :: r, x, hx => by
    simp only [prProps, List.mem_cons] at hx
    rcases hx with rfl | hx
    · exact (spreadMark_opt c).append_good ((prE_good e 1).append_opt (spreadMark_opt s))
    · exact prProps_good r x hx
theorem prEs_good : (l : List Expr) → ∀ x ∈ prEs l, Good x
  | [], x, hx => by simp [prEs] at hx
  | e :: r, x, hx => by
    simp only [prEs, List.mem_cons] at hx
    rcases hx with rfl | hx
    · exact prE_good e 1
    · exact prEs_good r x hx
theorem prStmts_semi : (l : List Stmt) → Semi (prStmts l)
  | [] => fun d rest => ⟨d, rfl⟩
  | s :: r => by
    intro d rest
    obtain ⟨d', e⟩ := prStmts_semi r true rest
    refine ⟨d', ?_⟩
    simp only [prStmts, List.append_assoc, List.cons_append]
    rw [prStmt_good s]
    simp only [keepAll]
    exact e
theorem prStmt_good : (s : Stmt) → Good (prStmt s)
  | .Block b => by simp only [prStmt]; exact Good.block (prStmts_semi b)
  | .Expr e => by simp only [prStmt]; exact prE_good e 1
  | .Declare l r => by
    simp only [prStmt]; exact (prE_good l 1).append (Good.cons (by decide) (prE_good r 1))
  | .Assign l r => by
    simp only [prStmt]; exact (prE_good l 1).append (Good.cons (by decide) (prE_good r 1))
  | .OpAssign l op _ r => by
    simp only [prStmt]; exact (prE_good l 1).append (Good.cons (assignTok_ne op) (prE_good r 1))
  | .If bs none => by
    simp only [prStmt]
    exact ifBody_good _ _ (prBs_good bs) (fun e h => by cases h)
  | .If bs (some els) => by
    simp only [prStmt]
    refine ifBody_good _ _ (prBs_good bs) (fun e h => ?_)
    injection h with h
    subst h
    exact Good.block (prStmts_semi els)
  | .While c s => by
    simp only [prStmt]
    exact Good.cons (by decide) ((prE_good c 1).append (Good.block (prStmts_semi s)))
  | .For l i s => by
    simp only [prStmt]
    exact Good.cons (by decide) ((prE_good l 1).append (Good.cons (by decide)
      ((prE_good i 1).append (Good.block (prStmts_semi s)))))
  | .Break _ => Good.single rfl
  | .Continue _ => Good.single rfl
  | .Func n _ args c s => by
    simp only [prStmt]
    exact Good.cons (by decide) (Good.cons (by intro h; cases h) (Good.cons (by decide)
      ((sepBody_good rfl c _ (prEs_good args)).append (Good.block (prStmts_semi s)))))
  | .Return _ e => by simp only [prStmt]; exact Good.cons (by decide) (prE_good e 1)
theorem prBs_good : (l : List Branch) → ∀ x ∈ prBs l, Good x
  | [], x, hx => by simp [prBs] at hx
  | .mk c s :: r, x, hx => by
    simp only [prBs, List.mem_cons] at hx
    rcases hx with rfl | hx
    · exact (prE_good c 1).append (Good.block (prStmts_semi s))
    · exact prBs_good r x hx
end

/-- **no terminator of a printed program is droppable**: none is first, none follows a terminator or a
    continuation token — for every program -/
theorem prStmts_keepAll (p : List Stmt) : keepAll true (prStmts p) = true := by
  obtain ⟨d', e⟩ := prStmts_semi p true []
  rw [List.append_nil] at e
  rw [e]
  rfl

/-- … and of a printed expression -/
theorem prE_keepAll (e : Expr) (k : Nat) : keepAll true (prE k e) = true := by
  have := prE_good e k true []
  rw [List.append_nil] at this
  rw [this]
  rfl

/-- the printed source text of a program whose tokens are well-formed is lexed without error to a token
    stream spelling `prStmts p`: suppression removes nothing -/
theorem lexAll_printed (p : List Stmt) (h : ∀ t ∈ prStmts p, TokWF t) :
    (lexAll (renderToks (prStmts p))).2 = none ∧
    (lexAll (renderToks (prStmts p))).1.map Span.tok = prStmts p :=
  lexAll_render_keepAll _ h (prStmts_keepAll p)

end Seed.LexRT
