/-
  C14This.lean — what a call's body sees as `this`: the binding list of a call (`callBindings`) run through
  `evalBlock` / `declareAll`, the scope-chain facts needed to follow a function value from the place it was read to
  the place it is called, and the single steps (`o.k` / `o[k]` reads, `x := …`, `x = …`, `fn x(…) {…}`) with their
  exact fuel.  Used by the end-to-end theorems of C14.
-/
import SeedProofs.Lemmas.C13Call
import SeedProofs.Lemmas.C13Bind
import SeedProofs.Lemmas.C14Scope
import SeedProofs.Lemmas.Instances
import SeedProofs.Lemmas.C07Loops
namespace Seed
open Gen (Leaf)

/-! ### one unfolding of the block functions -/

theorem evalBlock_succ (n : Nat) (σ : State) (sc : List Addr) (bs : List (Expr × SVal)) (stmts : List Stmt) :
    evalBlock (n + 1) σ sc bs stmts =
      (declareAll n (σ.alloc (.scope [])).2 (σ.heap.size :: sc) bs).bind fun _ σ2 =>
        evalStmts n σ2 (σ.heap.size :: sc) stmts := by
  rw [evalBlock]; rfl

theorem declareAll_nil (n : Nat) (σ : State) (sc : List Addr) : declareAll (n + 1) σ sc [] = .ok () σ := by
  rw [declareAll]

theorem declareAll_cons (n : Nat) (σ : State) (sc : List Addr) (lhs : Expr) (rhs : SVal) (r : List (Expr × SVal)) :
    declareAll (n + 1) σ sc ((lhs, rhs) :: r) =
      (bindNext n σ sc [] lhs rhs none true).bind fun _ σ1 => declareAll n σ1 sc r := by
  rw [declareAll]

theorem evalStmts_nil (n : Nat) (σ : State) (sc : List Addr) : evalStmts (n + 1) σ sc [] = .ok .none σ := by
  rw [evalStmts]

theorem evalStmts_cons (n : Nat) (σ : State) (sc : List Addr) (st : Stmt) (r : List Stmt) :
    evalStmts (n + 1) σ sc (st :: r) =
      (evalStmt n σ sc st).bind fun esc σ1 =>
        match esc with
        | .none => evalStmts n σ1 sc r
        | other => .ok other σ1 := by
  rw [evalStmts]; rfl

/-- a statement that completes normally hands over to the rest of the list -/
theorem evalStmts_cons_ok {n : Nat} {σ σ1 : State} {sc : List Addr} {st : Stmt} (r : List Stmt)
    (h : evalStmt n σ sc st = .ok .none σ1) : evalStmts (n + 1) σ sc (st :: r) = evalStmts n σ1 sc r := by
  rw [evalStmts_cons, h]; rfl

theorem evalStmt_mono {n m : Nat} {σ sc st} {r : Res Escape} (h : evalStmt n σ sc st = r) (hr : r ≠ .timeout) (hnm : n ≤ m) :
    evalStmt m σ sc st = r :=
  C07.fuel_stable (f := fun k => evalStmt k σ sc st) (fun k => (monoAll k).evalStmt σ sc st) h hr hnm

theorem evalToStr_mono {n m : Nat} {σ sc d e} {r : Res (List Char)} (h : evalToStr n σ sc d e = r) (hr : r ≠ .timeout)
    (hnm : n ≤ m) : evalToStr m σ sc d e = r :=
  C07.fuel_stable (f := fun k => evalToStr k σ sc d e) (fun k => (monoAll k).evalToStr σ sc d e) h hr hnm

theorem evalToIndex_mono {n m : Nat} {σ sc e} {r : Res Nat} (h : evalToIndex n σ sc e = r) (hr : r ≠ .timeout)
    (hnm : n ≤ m) : evalToIndex m σ sc e = r :=
  C07.fuel_stable (f := fun k => evalToIndex k σ sc e) (fun k => (monoAll k).evalToIndex σ sc e) h hr hnm

/-- an answer needs fuel -/
theorem evalExpr_ok_pos {n : Nat} {σ σ' : State} {sc : List Addr} {e : Expr} {v : SVal}
    (h : evalExpr n σ sc e = .ok v σ') : ∃ k, n = k + 1 := by
  cases n with
  | zero => rw [evalExpr] at h; cases h
  | succ k => exact ⟨k, rfl⟩

/-! ### scope chains -/

/-- a lookup depends only on the cells of the chain -/
theorem scopeGet_congr {σ σ' : State} {sc : List Addr} (h : ∀ b ∈ sc, σ'.heap[b]? = σ.heap[b]?) (k : List Char) :
    scopeGet σ' sc k = scopeGet σ sc k := by
  induction sc with
  | nil => rfl
  | cons a r ih =>
    have ha : σ'.getScope a = σ.getScope a := by unfold State.getScope; rw [h a List.mem_cons_self]
    simp only [scopeGet, ha, ih (fun b hb => h b (List.mem_cons_of_mem _ hb))]

/-- `scopeAssign` rewrites the entry of the nearest cell of the chain that has the name -/
theorem scopeAssign_hit {σ σ' : State} {sc : List Addr} {k : List Char} {v : SVal}
    (h : scopeAssign σ sc k v = some σ') :
    ∃ a m p, a ∈ sc ∧ σ.getScope a = some m ∧ scopeLookup k m = some p ∧
      σ' = σ.set a (.scope (scopeSetVal k v m)) := by
  induction sc with
  | nil => simp [scopeAssign] at h
  | cons a r ih =>
    simp only [scopeAssign] at h
    cases hs : σ.getScope a with
    | none => simp [hs] at h
    | some m =>
      simp only [hs] at h
      cases hl : scopeLookup k m with
      | some p =>
        simp only [hl] at h
        cases h
        exact ⟨a, m, p, List.mem_cons_self, hs, hl, rfl⟩
      | none =>
        simp only [hl] at h
        obtain ⟨a', m', p', ha, hs', hl', e⟩ := ih h
        exact ⟨a', m', p', List.mem_cons_of_mem _ ha, hs', hl', e⟩

/-- after an assignment the chain resolves the name to the assigned value (source included) -/
theorem scopeAssign_get {σ σ' : State} {sc : List Addr} {k : List Char} {v : SVal}
    (h : scopeAssign σ sc k v = some σ') : scopeGet σ' sc k = some v := by
  induction sc with
  | nil => simp [scopeAssign] at h
  | cons a r ih =>
    simp only [scopeAssign] at h
    cases hs : σ.getScope a with
    | none => simp [hs] at h
    | some m =>
      simp only [hs] at h
      cases hl : scopeLookup k m with
      | some p =>
        simp only [hl] at h
        cases h
        exact scopeGet_head_hit r (getScope_set_same (getScope_lt hs) _) (scopeLookup_setVal_same hl)
      | none =>
        simp only [hl] at h
        obtain ⟨a', m', p', _, hs', hl', e⟩ := scopeAssign_hit h
        have hne : a ≠ a' := by
          intro e'
          subst e'
          rw [hs] at hs'
          cases hs'
          rw [hl] at hl'
          cases hl'
        have hs2 : σ'.getScope a = some m := by rw [e, getScope_set_other _ hne]; exact hs
        rw [scopeGet_head_miss r hs2 hl]
        exact ih h

/-- a name the chain resolves can be assigned -/
theorem scopeAssign_of_get {σ : State} {sc : List Addr} {k : List Char} {w : SVal} (v : SVal)
    (h : scopeGet σ sc k = some w) : ∃ σ', scopeAssign σ sc k v = some σ' := by
  induction sc with
  | nil => simp [scopeGet] at h
  | cons a r ih =>
    simp only [scopeGet] at h
    cases hs : σ.getScope a with
    | none => simp [hs] at h
    | some m =>
      simp only [hs] at h
      cases hl : scopeLookup k m with
      | some p => exact ⟨σ.set a (.scope (scopeSetVal k v m)), by simp only [scopeAssign, hs, hl]⟩
      | none =>
        simp only [hl] at h
        obtain ⟨σ', h'⟩ := ih h
        exact ⟨σ', by simp only [scopeAssign, hs, hl, h']⟩

/-- the chain resolves a name just declared in its innermost cell to the declared value -/
theorem scopeGet_declared {σ : State} {a : Addr} {m : ScopeMap} (r : List Addr) (k : List Char) (v : SVal) (l : Loc)
    (hs : σ.getScope a = some m) :
    scopeGet (σ.set a (.scope ((k, v, l) :: m))) (a :: r) k = some v :=
  scopeGet_head_hit (l := l) r (getScope_set_same (getScope_lt hs) _) (by simp [scopeLookup])

/-! ### the binding list of a call ends with `this` -/

/-- if the bindings `bs ++ [this := v]` can all be declared, the innermost cell ends up with `this ↦ v` -/
theorem declareAll_this_last {n : Nat} {σ σ' : State} {a : Addr} {sc : List Addr} {bs : List (Expr × SVal)} {loc : Loc}
    {v : SVal} (h : declareAll n σ (a :: sc) (bs ++ [(Expr.mk (.Var c!"this") loc, v)]) = .ok () σ') :
    ∃ m, σ'.getScope a = some m ∧ scopeLookup c!"this" m = some (v, loc) := by
  induction bs generalizing n σ with
  | nil =>
    match n with
    | 0 => rw [declareAll] at h; cases h
    | 1 =>
      rw [List.nil_append, declareAll_cons, bindNext] at h; cases h
    | k + 2 =>
      rw [List.nil_append, declareAll_cons, bindNext_var] at h
      cases hs : σ.getScope a with
      | none =>
        simp [bindNextName, scopeDeclare, hs, Res.bind] at h
      | some m =>
        cases hl : scopeLookup c!"this" m with
        | some p =>
          obtain ⟨w, prev⟩ := p
          rw [bindNextName_redeclare loc v (by decide) (by simp) hs hl] at h
          cases h
        | none =>
          rw [bindNextName_declare loc v (by decide) (by simp) hs hl] at h
          simp only [Res.bind] at h
          rw [declareAll_nil] at h
          cases h
          exact ⟨_, getScope_set_same (getScope_lt hs) _, by simp [scopeLookup]⟩
  | cons b r ih =>
    obtain ⟨lhs, rhs⟩ := b
    match n with
    | 0 => rw [declareAll] at h; cases h
    | k + 1 =>
      rw [List.cons_append, declareAll_cons] at h
      cases hb : bindNext k σ (a :: sc) [] lhs rhs none true with
      | ok x σ1 => rw [hb] at h; exact ih h
      | err e σ1 => rw [hb] at h; cases h
      | crash w σ1 => rw [hb] at h; cases h
      | timeout => rw [hb] at h; cases h

/-- **What the body of a call sees.**  `BodyThis σ3 fr pv src loc t`: running `fr`'s body as a call at `loc` from
    state `σ3` with parameter values `pv` and callee source `src` (that is `evalBlock _ σ3 fr.closure
    (callBindings fr pv src loc) fr.stmts`, the instance `evalCall` reduces to) allocates the fresh scope cell
    `σ3.heap.size`, declares the bindings there, and runs the statements on the chain `σ3.heap.size :: fr.closure`;
    and whenever the bindings can be declared, that chain resolves `this` to `t` in the state the statements start
    in — so the expression `this` evaluates to `t` there, at every position and fuel. -/
def BodyThis (σ3 : State) (fr : FuncRec) (pv : List SVal) (src : Option Val) (loc : Loc) (t : Val) : Prop :=
  ∀ k,
    evalBlock (k + 1) σ3 fr.closure (callBindings fr pv src loc) fr.stmts =
      ((declareAll k (σ3.alloc (.scope [])).2 (σ3.heap.size :: fr.closure) (callBindings fr pv src loc)).bind
        fun _ σb => evalStmts k σb (σ3.heap.size :: fr.closure) fr.stmts) ∧
    ∀ σb, declareAll k (σ3.alloc (.scope [])).2 (σ3.heap.size :: fr.closure) (callBindings fr pv src loc) = .ok () σb →
      scopeGet σb (σ3.heap.size :: fr.closure) c!"this" = some (SVal.plain t) ∧
      ∀ j l, evalExpr (j + 1) σb (σ3.heap.size :: fr.closure) (.mk (.Var c!"this") l) = .ok (SVal.plain t) σb

/-- a callee value with source `t` makes the body see `this = t`, whatever the function, its closure, its
    parameters and the arguments are -/
theorem bodyThis (σ3 : State) (fr : FuncRec) (pv : List SVal) (loc : Loc) (t : Val) :
    BodyThis σ3 fr pv (some t) loc t := by
  intro k
  refine ⟨evalBlock_succ k σ3 fr.closure _ fr.stmts, fun σb hb => ?_⟩
  obtain ⟨m, hs, hl⟩ := declareAll_this_last (bs := fr.args.zip pv) hb
  have hg := scopeGet_head_hit fr.closure hs hl
  refine ⟨hg, fun j l => ?_⟩
  rw [evalExpr, hg]

/-! ### rows of plain parameters -/

/-- the parameter list `x₀, x₁, …` -/
def varExprs (vars : List (List Char × Loc)) : List Expr := vars.map fun p => Expr.mk (.Var p.1) p.2

theorem FreshRow.nil_names {m : ScopeMap} {names : List (List Char)} {r : List (List Char × Loc)}
    (h : FreshRow m names r) : FreshRow m [] r := by
  induction r with
  | nil => trivial
  | cons p r ih =>
    obtain ⟨y, ly⟩ := p
    obtain ⟨h1, _, h3, h4, h5⟩ := h
    exact ⟨h1, by simp, h3, h4, ih h5⟩

/-- declaring a row of fresh, pairwise different plain parameters succeeds at every fuel `≥ length + 2`; the cell then
    maps each name to its value, other names are as before, no other cell has changed -/
theorem declareAll_vars {σ : State} {a : Addr} {m : ScopeMap} (sc : List Addr)
    (vars : List (List Char × Loc)) (vals : List SVal) (d : Nat)
    (hs : σ.getScope a = some m) (hf : FreshRow m [] vars) (hl : vars.length = vals.length) :
    ∃ σ' m', declareAll (vars.length + 2 + d) σ (a :: sc) ((varExprs vars).zip vals) = .ok () σ' ∧
      σ'.getScope a = some m' ∧
      (∀ j (h1 : j < vars.length) (h2 : j < vals.length), (scopeLookup vars[j].1 m').map Prod.fst = some vals[j]) ∧
      (∀ k, (∀ p ∈ vars, p.1 ≠ k) → scopeLookup k m' = scopeLookup k m) ∧
      (∀ b, b ≠ a → σ'.heap[b]? = σ.heap[b]?) := by
  induction vars generalizing σ m vals with
  | nil =>
    refine ⟨σ, m, ?_, hs, fun j h1 => absurd h1 (Nat.not_lt_zero _), fun _ _ => rfl, fun _ _ => rfl⟩
    have e : ([] : List (List Char × Loc)).length + 2 + d = (d + 1) + 1 := by simp only [List.length_nil]; omega
    rw [e, varExprs, List.map_nil, List.zip_nil_left, declareAll_nil]
  | cons p r ih =>
    obtain ⟨x, l⟩ := p
    cases vals with
    | nil => simp at hl
    | cons v vs =>
      obtain ⟨h1, h2, h3, h4, h5⟩ := hf
      have hs1 : (σ.set a (.scope ((x, v, l) :: m))).getScope a = some ((x, v, l) :: m) :=
        getScope_set_same (getScope_lt hs) _
      obtain ⟨σ', m', hres, hsc, hlook, hother, hheap⟩ :=
        ih vs hs1 ((h5.step h4).nil_names) (by simpa using hl)
      refine ⟨σ', m', ?_, hsc, ?_, ?_, ?_⟩
      · have e : ((x, l) :: r).length + 2 + d = ((r.length + 1 + d) + 1) + 1 := by
          simp only [List.length_cons]; omega
        rw [e, varExprs, List.map_cons, List.zip_cons_cons, declareAll_cons, bindNext_var,
          bindNextName_declare l v h1 h2 hs h3]
        simp only [Res.bind]
        have e2 : r.length + 1 + d + 1 = r.length + 2 + d := by omega
        rw [e2]
        exact hres
      · intro j hj1 hj2
        cases j with
        | zero =>
          simp only [List.getElem_cons_zero]
          rw [hother x h4]
          simp [scopeLookup]
        | succ j =>
          simp only [List.getElem_cons_succ]
          exact hlook j (by simpa using hj1) (by simpa using hj2)
      · intro k hk
        rw [hother k fun p hp => hk p (List.mem_cons_of_mem _ hp)]
        exact scopeLookup_cons_ne (Ne.symm (hk (x, l) List.mem_cons_self))
      · intro b hb
        rw [hheap b hb, State.heap_set_other _ _ hb]

/-! ### reads that attach the source -/

/-- `e[k]` on an object, with any key expression: the stored value with `src :=` that object -/
theorem index_read_src {n : Nat} {σ σ1 σ2 : State} {sc : List Addr} {ex ke : Expr} (loc : Loc) {name : List Char}
    {ov : SVal} {a : Addr} {m : ObjMap} {v : SVal}
    (h : evalExpr n σ sc ex = .ok ov σ1) (hov : ov.v = .obj a)
    (hke : evalToStr n σ1 sc c!"property" ke = .ok name σ2)
    (hm : σ2.getObj a = some m) (hk : objGet name m = some v) :
    evalExpr (n + 1) σ sc (.mk (.Index ex ke) loc) = .ok ⟨v.v, some (.obj a)⟩ σ2 := by
  rw [evalExpr, h]
  simp only [Res.bind, hov, hke, hm, hk]

/-- `e.k` on an object: the stored value with `src :=` that object -/
theorem prop_read_src {n : Nat} {σ σ1 : State} {sc : List Addr} {ex : Expr} (loc : Loc) {name : List Char}
    {ov : SVal} {a : Addr} {m : ObjMap} {v : SVal}
    (h : evalExpr n σ sc ex = .ok ov σ1) (hov : ov.v = .obj a)
    (hm : σ1.getObj a = some m) (hk : objGet name m = some v) :
    evalExpr (n + 1) σ sc (.mk (.Prop ex name false) loc) = .ok ⟨v.v, some (.obj a)⟩ σ1 := by
  rw [evalExpr, h]
  simp only [Res.bind, Bool.false_eq_true, if_false, hov, hm, hk]

/-! ### single statements -/

/-- `x := rhs` with a fresh name: the innermost cell gets `x ↦` the value of `rhs`, source included -/
theorem declare_var_stmt {n : Nat} {σ σ1 : State} {a : Addr} {sc : List Addr} {x : List Char} {rhs : Expr} {v : SVal}
    {m : ScopeMap} (lx : Loc)
    (hr : evalExpr (n + 1) σ (a :: sc) rhs = .ok v σ1) (hx : x ≠ c!"_")
    (hs : σ1.getScope a = some m) (hf : scopeLookup x m = none) :
    evalStmt (n + 2) σ (a :: sc) (.Declare (.mk (.Var x) lx) rhs) =
      .ok .none (σ1.set a (.scope ((x, v, lx) :: m))) := by
  rw [evalStmt, hr]
  simp only [Res.bind]
  rw [bindNext_var, bindNextName_declare lx v hx (by simp) hs hf]

/-- `x = rhs` for a defined name: afterwards the chain resolves `x` to the value of `rhs`, source included — the
    previous value and its source are gone -/
theorem assign_var_stmt {n : Nat} {σ σ1 : State} {sc : List Addr} {x : List Char} {rhs : Expr} {v old : SVal} (lx : Loc)
    (hr : evalExpr (n + 1) σ sc rhs = .ok v σ1) (hx : x ≠ c!"_") (hold : scopeGet σ1 sc x = some old) :
    ∃ σ2, scopeAssign σ1 sc x v = some σ2 ∧
      evalStmt (n + 2) σ sc (.Assign (.mk (.Var x) lx) rhs) = .ok .none σ2 ∧
      scopeGet σ2 sc x = some v := by
  obtain ⟨σ2, h2⟩ := scopeAssign_of_get v hold
  refine ⟨σ2, h2, ?_, scopeAssign_get h2⟩
  rw [evalStmt, hr]
  simp only [Res.bind]
  rw [bindNext_var]
  simp [bindNextName, hx, h2]

/-- `fn x(params) { body }` with a fresh name and valid parameters: `x ↦` a new function cell closed over the
    current chain, with no source -/
theorem func_stmt {n : Nat} {σ : State} {a : Addr} {sc : List Addr} {x : List Char} {m : ScopeMap} (lx : Loc)
    (args : List Expr) (collect : Bool) (stmts : List Stmt)
    (hv : validateArgs (n + 1) args [] = some none) (hx : x ≠ c!"_")
    (hs : σ.getScope a = some m) (hf : scopeLookup x m = none) :
    evalStmt (n + 2) σ (a :: sc) (.Func x lx args collect stmts) =
      .ok .none ((σ.alloc (.func ⟨some x, args, collect, stmts, a :: sc⟩)).2.set a
        (.scope ((x, ⟨.func σ.heap.size, none⟩, lx) :: m))) := by
  have hs' : (σ.alloc (.func ⟨some x, args, collect, stmts, a :: sc⟩)).2.getScope a = some m := by
    rw [getScope_eq_some] at hs ⊢
    rw [σ.alloc_heap_old _ (heap_lt_of_some hs)]; exact hs
  rw [evalStmt]
  simp only [validateArgsRes, hv, Res.bind]
  rw [bindNextName_declare lx _ hx (by simp) hs' hf]
  rfl

/-! ### parameter values of a call -/

theorem zip_take_left {α β} (l1 : List α) (l2 : List β) : l1.zip l2 = l1.zip (l2.take l1.length) := by
  induction l1 generalizing l2 with
  | nil => simp
  | cons x r ih =>
    cases l2 with
    | nil => simp
    | cons y t => simp only [List.zip_cons_cons, List.length_cons, List.take_succ_cons]; rw [← ih]

theorem callPlainVals_length_ge {σ : State} {fr : FuncRec} {argVals : List SVal}
    (hok : arityOk fr.collect fr.args.length argVals.length = true) :
    fr.args.length ≤ (callPlainVals σ fr argVals).1.length := by
  cases hc : fr.collect with
  | true =>
    rw [callPlainVals_rest argVals hc]
    simp only [arityOk, hc, if_true, decide_eq_true_eq] at hok
    simp only [List.length_append, List.length_take, List.length_cons, List.length_nil]
    omega
  | false =>
    rw [callPlainVals_no_rest argVals hc]
    simp only [arityOk, hc, Bool.false_eq_true, if_false, decide_eq_true_eq] at hok
    show fr.args.length ≤ argVals.length
    omega

theorem callPlainVals_heap_old {σ : State} {fr : FuncRec} (argVals : List SVal) {b : Addr} (hb : b < σ.heap.size) :
    (callPlainVals σ fr argVals).2.heap[b]? = σ.heap[b]? ∧ σ.heap.size ≤ (callPlainVals σ fr argVals).2.heap.size := by
  cases hc : fr.collect with
  | true =>
    rw [callPlainVals_rest argVals hc]
    exact ⟨σ.alloc_heap_old _ hb, by rw [State.alloc_size]; omega⟩
  | false =>
    rw [callPlainVals_no_rest argVals hc]
    exact ⟨rfl, Nat.le_refl _⟩

/-! ### the call site with a known source -/

theorem evalCall_func_ok {n : Nat} {σ σ1 σ2 : State} {sc : List Addr} {f : Expr} {args : List ListItem} (loc : Loc)
    {argVals : List SVal} {fv : SVal} {a : Addr} {fr : FuncRec}
    (hargs : evalListItems n σ sc args [] = .ok argVals σ1)
    (hf : evalExpr n σ1 sc f = .ok fv σ2) (hv : fv.v = .func a) (hfr : σ2.getFunc a = some fr)
    (hok : arityOk fr.collect fr.args.length argVals.length = true) :
    evalCall (n + 1) σ sc f args loc =
      ((evalBlock n (callPlainVals σ2 fr argVals).2 fr.closure
          (callBindings fr (callPlainVals σ2 fr argVals).1 fv.src loc) fr.stmts).mapErr
        (Err.funcCall fr.name loc)).bind finishCall := by
  rw [evalCall_func hargs hf hv hfr, if_pos hok]

/-- a call statement `f(args);` followed by more statements -/
theorem call_stmt_then {n : Nat} (σ : State) (sc : List Addr) (f : Expr) (args : List ListItem) (lc : Loc)
    (rest : List Stmt) :
    evalStmts (n + 3) σ sc (.Expr (.mk (.Call f args) lc) :: rest) =
      (evalCall n σ sc f args lc).bind fun _ σ5 => evalStmts (n + 2) σ5 sc rest := by
  rw [evalStmts_cons, evalStmt, evalExpr]
  cases evalCall n σ sc f args lc <;> rfl

/-- function cells are never written: a function known before an evaluation is the same function after it -/
theorem getFunc_after_items {n : Nat} {σ σ' : State} {sc : List Addr} {items : List ListItem} {acc vals : List SVal}
    (h : evalListItems n σ sc items acc = .ok vals σ') {a : Addr} {fr : FuncRec} (hf : σ.getFunc a = some fr) :
    σ'.getFunc a = some fr := by
  have := (relAll funcsStable_good n).evalListItems σ σ sc items acc (funcsStable_good.refl σ)
  rw [h] at this
  exact this a fr hf

theorem getFunc_after_expr {n : Nat} {σ σ' : State} {sc : List Addr} {e : Expr} {v : SVal}
    (h : evalExpr n σ sc e = .ok v σ') {a : Addr} {fr : FuncRec} (hf : σ.getFunc a = some fr) :
    σ'.getFunc a = some fr := by
  have := (relAll funcsStable_good n).evalExpr σ σ sc e (funcsStable_good.refl σ)
  rw [h] at this
  exact this a fr hf

end Seed
