/-
  C14Scope.lean — scope chains: lookups and assignments against writes to other cells.
-/
import SeedProofs.Lemmas.C12Heap
namespace Seed

/-- writing a cell that is not on the chain does not change any lookup through the chain -/
theorem scopeGet_set_other {σ : State} {a : Addr} (c : Cell) {sc : List Addr} (h : a ∉ sc) (k : List Char) :
    scopeGet (σ.set a c) sc k = scopeGet σ sc k := by
  induction sc with
  | nil => rfl
  | cons b r ih =>
    have hb : b ≠ a := fun e => h (e ▸ List.mem_cons_self)
    have hr : a ∉ r := fun e => h (List.mem_cons_of_mem _ e)
    simp only [scopeGet, getScope_set_other c hb, ih hr]

/-- writing a list cell changes no lookup at all (a list cell is never a scope) -/
theorem scopeGet_set_list {σ : State} {b : Addr} {xs : List SVal} (ys : List SVal) (h : σ.getList b = some xs)
    (sc : List Addr) (k : List Char) : scopeGet (σ.set b (.list ys)) sc k = scopeGet σ sc k := by
  induction sc with
  | nil => rfl
  | cons a r ih =>
    by_cases e : a = b
    · subst e
      have h1 : σ.getScope a = none := by
        unfold State.getScope; rw [getList_eq_some.mp h]
      have h2 : (σ.set a (.list ys)).getScope a = none := by
        unfold State.getScope; rw [σ.heap_set_same _ (getList_lt h)]
      simp only [scopeGet, h1, h2]
    · simp only [scopeGet, getScope_set_other _ e, ih]

theorem scopeGet_set_obj {σ : State} {b : Addr} {m : ObjMap} (m' : ObjMap) (h : σ.getObj b = some m)
    (sc : List Addr) (k : List Char) : scopeGet (σ.set b (.obj m')) sc k = scopeGet σ sc k := by
  induction sc with
  | nil => rfl
  | cons a r ih =>
    by_cases e : a = b
    · subst e
      have h1 : σ.getScope a = none := by
        unfold State.getScope; rw [getObj_eq_some.mp h]
      have h2 : (σ.set a (.obj m')).getScope a = none := by
        unfold State.getScope; rw [σ.heap_set_same _ (getObj_lt h)]
      simp only [scopeGet, h1, h2]
    · simp only [scopeGet, getScope_set_other _ e, ih]

/-- a name the innermost scope has is assigned there -/
theorem scopeAssign_head {σ : State} {a : Addr} {m : ScopeMap} {name : List Char} {p : SVal × Loc} (r : List Addr) (v : SVal)
    (hs : σ.getScope a = some m) (hl : scopeLookup name m = some p) :
    scopeAssign σ (a :: r) name v = some (σ.set a (.scope (scopeSetVal name v m))) := by
  simp only [scopeAssign, hs, hl]

/-- a name the innermost scope does not have is looked up further out -/
theorem scopeGet_head_miss {σ : State} {a : Addr} {m : ScopeMap} {name : List Char} (r : List Addr)
    (hs : σ.getScope a = some m) (hl : scopeLookup name m = none) :
    scopeGet σ (a :: r) name = scopeGet σ r name := by
  simp only [scopeGet, hs, hl]

theorem scopeGet_head_hit {σ : State} {a : Addr} {m : ScopeMap} {name : List Char} {v : SVal} {l : Loc} (r : List Addr)
    (hs : σ.getScope a = some m) (hl : scopeLookup name m = some (v, l)) :
    scopeGet σ (a :: r) name = some v := by
  simp only [scopeGet, hs, hl]

theorem scopeLookup_setVal_same {name : List Char} {v : SVal} {m : ScopeMap} {p : SVal × Loc}
    (h : scopeLookup name m = some p) : scopeLookup name (scopeSetVal name v m) = some (v, p.2) := by
  induction m with
  | nil => simp [scopeLookup] at h
  | cons q r ih =>
    obtain ⟨k, w, l⟩ := q
    by_cases e : name = k
    · subst e
      simp only [scopeLookup, if_true] at h
      cases h
      simp [scopeSetVal, scopeLookup]
    · simp only [scopeLookup, e, if_false] at h
      simp [scopeSetVal, scopeLookup, e, ih h]

theorem scopeLookup_setVal_other {name k : List Char} (v : SVal) (m : ScopeMap) (h : k ≠ name) :
    scopeLookup k (scopeSetVal name v m) = scopeLookup k m := by
  induction m with
  | nil => rfl
  | cons q r ih =>
    obtain ⟨k', w, l⟩ := q
    by_cases e : name = k'
    · subst e
      simp [scopeSetVal, scopeLookup, h]
    · by_cases e2 : k = k'
      · subst e2; simp [scopeSetVal, scopeLookup, e]
      · simp [scopeSetVal, scopeLookup, e, e2, ih]

end Seed
