/-
  Lemmas/C18EvalPos.lean — `eval_uses_node_pos`: every position in an error returned by the evaluator is a position
  stored in the program.  Fuel induction over the 23 mutually recursive evaluator functions: from a state whose function
  cells and scope cells satisfy `PosInv M`, on program fragments all of whose marks satisfy `M` (`M` closed under what
  `interpolate` does with a marked string literal), every returned error has all its positions in `M` and the invariant
  holds in every result state.
-/
import SeedProofs.Lemmas.C18EvalPosPrim
namespace Seed
open Gen (Leaf)

def GoodBinds (M : Mark → Prop) (bs : List (Expr × SVal)) : Prop := ∀ b, b ∈ bs → Marked M b.1.marks

theorem GoodBinds.nil {M : Mark → Prop} : GoodBinds M [] := fun _ h => by cases h
theorem GoodBinds.cons {M : Mark → Prop} {e : Expr} {v : SVal} {bs : List (Expr × SVal)} (he : Marked M e.marks)
    (h : GoodBinds M bs) : GoodBinds M ((e, v) :: bs) := by
  intro b hb
  rcases List.mem_cons.mp hb with rfl | hb
  · exact he
  · exact h b hb
theorem GoodBinds.append {M : Mark → Prop} {xs ys : List (Expr × SVal)} (hx : GoodBinds M xs) (hy : GoodBinds M ys) :
    GoodBinds M (xs ++ ys) := by
  intro b hb
  rcases List.mem_append.mp hb with h | h
  · exact hx b h
  · exact hy b h
theorem GoodBinds.zip {M : Mark → Prop} {es : List Expr} (vs : List SVal) (h : Marked M (Expr.marksL es)) :
    GoodBinds M (es.zip vs) :=
  fun b hb => Marked.ofL h b.1 (List.of_mem_zip (a := b.1) (b := b.2) hb).1
theorem GoodBinds.head {M : Mark → Prop} {e : Expr} {v : SVal} {bs : List (Expr × SVal)} (h : GoodBinds M ((e, v) :: bs)) :
    Marked M e.marks := h (e, v) List.mem_cons_self
theorem GoodBinds.tail {M : Mark → Prop} {b : Expr × SVal} {bs : List (Expr × SVal)} (h : GoodBinds M (b :: bs)) :
    GoodBinds M bs := fun x hx => h x (List.mem_cons_of_mem _ hx)

def SlotsOK (M : Mark → Prop) (s : List Char) (loc : Loc) (slots : List (Nat × Nat)) : Prop :=
  ∀ sl, sl ∈ slots → SlotOK M s loc sl

structure EvalPosAll (M : Mark → Prop) (n : Nat) : Prop where
  evalExpr : ∀ σ sc e, PosInv M σ → Marked M e.marks → Res.Pos M PTriv (evalExpr n σ sc e)
  evalOptIndex : ∀ σ sc e, PosInv M σ → Marked M (Expr.marksO e) → Res.Pos M PTriv (evalOptIndex n σ sc e)
  evalListItems : ∀ σ sc items acc, PosInv M σ → Marked M (ListItem.marksL items) →
    Res.Pos M PTriv (evalListItems n σ sc items acc)
  evalProps : ∀ σ sc l props acc, PosInv M σ → M (.loc l) → Marked M (PropItem.marksL props) →
    Res.Pos M PTriv (evalProps n σ sc l props acc)
  evalCall : ∀ σ sc f args loc, PosInv M σ → Marked M f.marks → Marked M (ListItem.marksL args) → M (.loc loc) →
    Res.Pos M PTriv (evalCall n σ sc f args loc)
  evalToStr : ∀ σ sc d e, PosInv M σ → Marked M e.marks → Res.Pos M PTriv (evalToStr n σ sc d e)
  evalToBool : ∀ σ sc d e, PosInv M σ → Marked M e.marks → Res.Pos M PTriv (evalToBool n σ sc d e)
  evalToInt : ∀ σ sc d e, PosInv M σ → Marked M e.marks → Res.Pos M PTriv (evalToInt n σ sc d e)
  evalToIndex : ∀ σ sc e, PosInv M σ → Marked M e.marks → Res.Pos M PTriv (evalToIndex n σ sc e)
  interpolate : ∀ σ sc s slots loc last acc, PosInv M σ → SlotsOK M s loc slots →
    Res.Pos M PTriv (interpolate n σ sc s slots loc last acc)
  evalBlock : ∀ σ sc bs stmts, PosInv M σ → GoodBinds M bs → Marked M (Stmt.marksL stmts) →
    Res.Pos M (EscGood M) (evalBlock n σ sc bs stmts)
  declareAll : ∀ σ sc bs, PosInv M σ → GoodBinds M bs → Res.Pos M PTriv (declareAll n σ sc bs)
  evalStmts : ∀ σ sc stmts, PosInv M σ → Marked M (Stmt.marksL stmts) → Res.Pos M (EscGood M) (evalStmts n σ sc stmts)
  evalStmt : ∀ σ sc st, PosInv M σ → Marked M st.marks → Res.Pos M (EscGood M) (evalStmt n σ sc st)
  evalIf : ∀ σ sc bs els, PosInv M σ → Marked M (Branch.marksL bs) → Marked M (Stmt.marksLO els) →
    Res.Pos M (EscGood M) (evalIf n σ sc bs els)
  evalWhile : ∀ σ sc c stmts, PosInv M σ → Marked M c.marks → Marked M (Stmt.marksL stmts) →
    Res.Pos M (EscGood M) (evalWhile n σ sc c stmts)
  evalFor : ∀ σ sc lhs pairs stmts, PosInv M σ → Marked M lhs.marks → Marked M (Stmt.marksL stmts) →
    Res.Pos M (EscGood M) (evalFor n σ sc lhs pairs stmts)
  bindNext : ∀ σ sc names lhs rhs op decl, PosInv M σ → Marked M lhs.marks → OpGood M op →
    Res.Pos M PTriv (bindNext n σ sc names lhs rhs op decl)
  bindProp : ∀ σ a name loc rhs op names vi, PosInv M σ → M (.loc loc) → OpGood M op →
    Res.Pos M PTriv (bindProp n σ a name loc rhs op names vi)
  bindRangeIndex : ∀ σ sc a start stop loc rhsItems names, PosInv M σ → Marked M (Expr.marksO start) →
    Marked M (Expr.marksO stop) → M (.loc loc) → Res.Pos M PTriv (bindRangeIndex n σ sc a start stop loc rhsItems names)
  bindList : ∀ σ sc names items collect lhsLoc b decl i lhsLen, PosInv M σ → Marked M (ListItem.marksL items) →
    M (.loc lhsLoc) → Res.Pos M PTriv (bindList n σ sc names items collect lhsLoc b decl i lhsLen)
  bindObject : ∀ σ sc names props b decl i total remaining, PosInv M σ → Marked M (PropItem.marksL props) →
    Res.Pos M PTriv (bindObject n σ sc names props b decl i total remaining)
  bindObjectProp : ∀ σ sc names lhs b pname ploc decl, PosInv M σ → Marked M lhs.marks → M (.loc ploc) →
    Res.Pos M PTriv (bindObjectProp n σ sc names lhs b pname ploc decl)

theorem evalPosAll_zero {M : Mark → Prop} : EvalPosAll M 0 := by
  constructor <;> intros
  · unfold evalExpr; trivial
  · unfold evalOptIndex; trivial
  · unfold evalListItems; trivial
  · unfold evalProps; trivial
  · unfold evalCall; trivial
  · unfold evalToStr; trivial
  · unfold evalToBool; trivial
  · unfold evalToInt; trivial
  · unfold evalToIndex; trivial
  · unfold interpolate; trivial
  · unfold evalBlock; trivial
  · unfold declareAll; trivial
  · unfold evalStmts; trivial
  · unfold evalStmt; trivial
  · unfold evalIf; trivial
  · unfold evalWhile; trivial
  · unfold evalFor; trivial
  · unfold bindNext; trivial
  · unfold bindProp; trivial
  · unfold bindRangeIndex; trivial
  · unfold bindList; trivial
  · unfold bindObject; trivial
  · unfold bindObjectProp; trivial

theorem cellGood_scope_nil {M : Mark → Prop} : CellGood M (.scope []) := fun _ h => by cases h

/-! ## automation -/

/-- split every conjunction in the context -/
macro "ep_and" : tactic => `(tactic| repeat (cases ‹_ ∧ _›))

/-- bring every `Marked M (… a constructor …)` hypothesis into the form of facts about the sub-trees -/
macro "ep_norm" : tactic =>
  `(tactic| ((try simp only [RawExpr.marks, Expr.marks, Expr.marksO, Expr.marksL, ListItem.marks, ListItem.marksL,
      PropItem.marks, PropItem.marksL, Stmt.marks, Stmt.marksL, Stmt.marksLO, Branch.marks, Branch.marksL,
      RawExpr.strMark, marked_cons, marked_append, marked_nil_iff, and_true, true_and, List.nil_append] at *); ep_and))

/-- side conditions -/
syntax "ep_side" : tactic
macro_rules
  | `(tactic| ep_side) => `(tactic| first
    | assumption
    | trivial
    | exact Marked.loc (by assumption)
    | exact OpGood.none
    | exact OpGood.some (by assumption)
    | exact GoodBinds.nil
    | exact GoodBinds.cons (by assumption) GoodBinds.nil
    | exact marked_nil
    | exact leafOK_of_nil rfl
    | (refine PosInv.alloc_eq (by assumption) ?_ ?_ <;> ep_side)
    | (refine PosInv.alloc ?_ ?_ <;> ep_side)
    | (refine PosInv.set _ ?_ ?_ <;> ep_side)
    | (refine PosInv.print _ ?_; ep_side)
    | exact cellGood_scope_nil
    | exact ⟨by assumption, by assumption⟩)

macro "ep_call " ih:ident : tactic =>
  `(tactic| ((with_reducible first
    | apply EvalPosAll.evalExpr $ih | apply EvalPosAll.evalOptIndex $ih | apply EvalPosAll.evalListItems $ih
    | apply EvalPosAll.evalProps $ih | apply EvalPosAll.evalCall $ih | apply EvalPosAll.evalToStr $ih
    | apply EvalPosAll.evalToBool $ih | apply EvalPosAll.evalToInt $ih | apply EvalPosAll.evalToIndex $ih
    | apply EvalPosAll.interpolate $ih | apply EvalPosAll.evalBlock $ih | apply EvalPosAll.declareAll $ih
    | apply EvalPosAll.evalStmts $ih | apply EvalPosAll.evalStmt $ih | apply EvalPosAll.evalIf $ih
    | apply EvalPosAll.evalWhile $ih | apply EvalPosAll.evalFor $ih | apply EvalPosAll.bindNext $ih
    | apply EvalPosAll.bindProp $ih | apply EvalPosAll.bindRangeIndex $ih | apply EvalPosAll.bindList $ih
    | apply EvalPosAll.bindObject $ih | apply EvalPosAll.bindObjectProp $ih
    | apply applyBinOp_pos | apply callBuiltin_pos | apply opAssignValue_pos | apply bindNextName_pos
    | apply validateArgsRes_pos) <;> ep_side))

macro "ep_leaf " ih:ident : tactic =>
  `(tactic| first
    | trivial
    | ep_call $ih
    | (refine Res.Pos.ok ?_ ?_ <;> ep_side)
    | (refine Res.Pos.errAt ?_ ?_ ?_ <;> ep_side)
    | (refine Res.Pos.crashHeap ?_; ep_side)
    | (refine Res.Pos.crash ?_; ep_side))

macro "ep_auto " ih:ident : tactic =>
  `(tactic| repeat' first
    | ep_leaf $ih
    | (apply Res.Pos.bind (by ep_call $ih))
    | (apply Res.Pos.map (by ep_call $ih) (fun _ _ => trivial))
    | intro _ _ _ _
    | (split <;> ep_norm)
    | (dsimp only []))

section
variable {M : Mark → Prop} (hM : SlotClosed M) {n : Nat} (ih : EvalPosAll M n)
include ih

theorem ep_evalOptIndex (σ : State) (sc : List Addr) (e : Option Expr) (hi : PosInv M σ) (hg : Marked M (Expr.marksO e)) :
    Res.Pos M PTriv (evalOptIndex (n + 1) σ sc e) := by
  unfold evalOptIndex; ep_auto ih

theorem ep_evalListItems (σ : State) (sc : List Addr) (items : List ListItem) (acc : List SVal) (hi : PosInv M σ)
    (hg : Marked M (ListItem.marksL items)) : Res.Pos M PTriv (evalListItems (n + 1) σ sc items acc) := by
  unfold evalListItems; ep_auto ih

theorem ep_evalProps (σ : State) (sc : List Addr) (l : Loc) (props : List PropItem) (acc : ObjMap) (hi : PosInv M σ)
    (hl : M (.loc l)) (hg : Marked M (PropItem.marksL props)) : Res.Pos M PTriv (evalProps (n + 1) σ sc l props acc) := by
  unfold evalProps; ep_auto ih

theorem ep_evalToStr (σ : State) (sc : List Addr) (d : List Char) (e : Expr) (hi : PosInv M σ) (hg : Marked M e.marks) :
    Res.Pos M PTriv (evalToStr (n + 1) σ sc d e) := by
  unfold evalToStr; ep_auto ih

theorem ep_evalToBool (σ : State) (sc : List Addr) (d : List Char) (e : Expr) (hi : PosInv M σ) (hg : Marked M e.marks) :
    Res.Pos M PTriv (evalToBool (n + 1) σ sc d e) := by
  unfold evalToBool; ep_auto ih

theorem ep_evalToInt (σ : State) (sc : List Addr) (d : List Char) (e : Expr) (hi : PosInv M σ) (hg : Marked M e.marks) :
    Res.Pos M PTriv (evalToInt (n + 1) σ sc d e) := by
  unfold evalToInt; ep_auto ih

theorem ep_evalToIndex (σ : State) (sc : List Addr) (e : Expr) (hi : PosInv M σ) (hg : Marked M e.marks) :
    Res.Pos M PTriv (evalToIndex (n + 1) σ sc e) := by
  unfold evalToIndex; ep_auto ih

theorem ep_evalBlock (σ : State) (sc : List Addr) (bs : List (Expr × SVal)) (stmts : List Stmt) (hi : PosInv M σ)
    (hb : GoodBinds M bs) (hg : Marked M (Stmt.marksL stmts)) : Res.Pos M (EscGood M) (evalBlock (n + 1) σ sc bs stmts) := by
  unfold evalBlock; ep_auto ih

theorem ep_declareAll (σ : State) (sc : List Addr) (bs : List (Expr × SVal)) (hi : PosInv M σ) (hb : GoodBinds M bs) :
    Res.Pos M PTriv (declareAll (n + 1) σ sc bs) := by
  unfold declareAll
  cases bs with
  | nil => ep_auto ih
  | cons b r =>
    obtain ⟨lhs, rhs⟩ := b
    have h1 := hb.head
    have h2 := hb.tail
    ep_auto ih

theorem ep_evalStmts (σ : State) (sc : List Addr) (stmts : List Stmt) (hi : PosInv M σ) (hg : Marked M (Stmt.marksL stmts)) :
    Res.Pos M (EscGood M) (evalStmts (n + 1) σ sc stmts) := by
  unfold evalStmts; ep_auto ih

theorem ep_evalStmt (σ : State) (sc : List Addr) (st : Stmt) (hi : PosInv M σ) (hg : Marked M st.marks) :
    Res.Pos M (EscGood M) (evalStmt (n + 1) σ sc st) := by
  unfold evalStmt; ep_auto ih

theorem ep_evalIf (σ : State) (sc : List Addr) (bs : List Branch) (els : Option (List Stmt)) (hi : PosInv M σ)
    (hg : Marked M (Branch.marksL bs)) (he : Marked M (Stmt.marksLO els)) :
    Res.Pos M (EscGood M) (evalIf (n + 1) σ sc bs els) := by
  unfold evalIf; ep_auto ih

theorem ep_evalWhile (σ : State) (sc : List Addr) (c : Expr) (stmts : List Stmt) (hi : PosInv M σ)
    (hc : Marked M c.marks) (hg : Marked M (Stmt.marksL stmts)) : Res.Pos M (EscGood M) (evalWhile (n + 1) σ sc c stmts) := by
  unfold evalWhile; ep_auto ih

theorem ep_evalFor (σ : State) (sc : List Addr) (lhs : Expr) (pairs : List (SVal × SVal)) (stmts : List Stmt)
    (hi : PosInv M σ) (hl : Marked M lhs.marks) (hg : Marked M (Stmt.marksL stmts)) :
    Res.Pos M (EscGood M) (evalFor (n + 1) σ sc lhs pairs stmts) := by
  unfold evalFor; ep_auto ih

theorem ep_bindNext (σ : State) (sc : List Addr) (names : List (List Char)) (lhs : Expr) (rhs : SVal)
    (op : Option (BinaryOp × Loc)) (decl : Bool) (hi : PosInv M σ) (hg : Marked M lhs.marks) (ho : OpGood M op) :
    Res.Pos M PTriv (bindNext (n + 1) σ sc names lhs rhs op decl) := by
  unfold bindNext; ep_auto ih

omit ih in
theorem ep_bindProp (σ : State) (a : Addr) (name : List Char) (loc : Loc) (rhs : SVal) (op : Option (BinaryOp × Loc))
    (names : List (List Char)) (vi : Bool) (hi : PosInv M σ) (hl : M (.loc loc)) (ho : OpGood M op) :
    Res.Pos M PTriv (bindProp (n + 1) σ a name loc rhs op names vi) := by
  unfold bindProp; ep_auto ih

theorem ep_bindRangeIndex (σ : State) (sc : List Addr) (a : Addr) (start stop : Option Expr) (loc : Loc)
    (rhsItems : List SVal) (names : List (List Char)) (hi : PosInv M σ) (h1 : Marked M (Expr.marksO start))
    (h2 : Marked M (Expr.marksO stop)) (hl : M (.loc loc)) :
    Res.Pos M PTriv (bindRangeIndex (n + 1) σ sc a start stop loc rhsItems names) := by
  unfold bindRangeIndex; ep_auto ih

theorem ep_bindList (σ : State) (sc : List Addr) (names : List (List Char)) (items : List ListItem) (collect : Bool)
    (lhsLoc : Loc) (b : Addr) (decl : Bool) (i lhsLen : Nat) (hi : PosInv M σ) (hg : Marked M (ListItem.marksL items))
    (hl : M (.loc lhsLoc)) : Res.Pos M PTriv (bindList (n + 1) σ sc names items collect lhsLoc b decl i lhsLen) := by
  unfold bindList; ep_auto ih

theorem ep_bindObject (σ : State) (sc : List Addr) (names : List (List Char)) (props : List PropItem) (b : Addr)
    (decl : Bool) (i total : Nat) (remaining : List (List Char)) (hi : PosInv M σ) (hg : Marked M (PropItem.marksL props)) :
    Res.Pos M PTriv (bindObject (n + 1) σ sc names props b decl i total remaining) := by
  unfold bindObject; ep_auto ih

theorem ep_bindObjectProp (σ : State) (sc : List Addr) (names : List (List Char)) (lhs : Expr) (b : Addr)
    (pname : List Char) (ploc : Loc) (decl : Bool) (hi : PosInv M σ) (hg : Marked M lhs.marks) (hl : M (.loc ploc)) :
    Res.Pos M PTriv (bindObjectProp (n + 1) σ sc names lhs b pname ploc decl) := by
  unfold bindObjectProp; ep_auto ih

include hM in
theorem ep_evalExpr (σ : State) (sc : List Addr) (e : Expr) (hi : PosInv M σ) (hg : Marked M e.marks) :
    Res.Pos M PTriv (evalExpr (n + 1) σ sc e) := by
  unfold evalExpr
  obtain ⟨raw, loc⟩ := e
  cases raw with
  | Str s slots =>
    cases slots with
    | none => ep_auto ih
    | some slots =>
      ep_norm
      have hs : SlotsOK M s loc slots := hM s slots loc (by assumption)
      ep_auto ih
  | _ => ep_norm; ep_auto ih

theorem ep_interpolate (σ : State) (sc : List Addr) (s : List Char) (slots : List (Nat × Nat)) (loc : Loc) (last : Nat)
    (acc : List Char) (hi : PosInv M σ) (hs : SlotsOK M s loc slots) :
    Res.Pos M PTriv (interpolate (n + 1) σ sc s slots loc last acc) := by
  unfold interpolate
  cases slots with
  | nil => ep_auto ih
  | cons sl r =>
    obtain ⟨start, stop⟩ := sl
    obtain ⟨hcol, hast⟩ := hs (start, stop) List.mem_cons_self
    have hr : SlotsOK M s loc r := fun x hx => hs x (List.mem_cons_of_mem _ hx)
    dsimp only [] at hcol hast ⊢
    split
    · trivial
    · exact Res.Pos.err ⟨hcol, leafOK_of_nil rfl⟩ hi
    · rename_i ast hp
      apply Res.Pos.bind (Res.Pos.mapErr (f := Err.atLoc loc.1 (loc.2 + start + 4)) (ih.evalExpr _ _ _ hi (hast ast hp))
        (fun e he => ⟨hcol, he⟩))
      intro v σ1 hi1 _
      repeat' first
        | exact Res.Pos.err ⟨hcol, leafOK_of_nil rfl⟩ hi1
        | exact ih.interpolate _ _ _ _ _ _ _ hi1 hr
        | split

theorem ep_evalCall (σ : State) (sc : List Addr) (f : Expr) (args : List ListItem) (loc : Loc) (hi : PosInv M σ)
    (hf : Marked M f.marks) (ha : Marked M (ListItem.marksL args)) (hl : M (.loc loc)) :
    Res.Pos M PTriv (evalCall (n + 1) σ sc f args loc) := by
  unfold evalCall
  apply Res.Pos.bind (ih.evalListItems _ _ _ _ hi ha); intro argVals σ1 hi1 _
  apply Res.Pos.bind (ih.evalExpr _ _ _ hi1 hf); intro fv σ2 hi2 _
  obtain ⟨fvv, fsrc⟩ := fv
  dsimp only []
  split
  · exact Res.Pos.mapErr (callBuiltin_pos _ _ _ _ hi2) (fun e he => ⟨hl, he⟩)
  · split
    · exact Res.Pos.crashHeap hi2
    · rename_i a fr hfr
      obtain ⟨hargs, hbody⟩ := hi2.func hfr
      have hthis : Marked M (Expr.mk (.Var c!"this") loc).marks := by
        simp only [Expr.marks, RawExpr.marks, RawExpr.strMark, marked_cons, List.nil_append]
        exact ⟨hl, marked_nil⟩
      have fin : ∀ {σ3 : State} {bs : List (Expr × SVal)}, PosInv M σ3 → GoodBinds M bs →
          Res.Pos M PTriv (((evalBlock n σ3 fr.closure bs fr.stmts).mapErr (Err.funcCall fr.name loc)).bind fun esc σ4 =>
            match esc with
            | .none => .ok (SVal.plain .null) σ4
            | .brk l => errAt l Leaf.BreakOutsideLoop σ4
            | .cont l => errAt l Leaf.ContinueOutsideLoop σ4
            | .ret v _ => .ok v σ4) := by
        intro σ3 bs hi3 hb
        apply Res.Pos.bind (Res.Pos.mapErr (f := Err.funcCall fr.name loc) (ih.evalBlock _ _ _ _ hi3 hb hbody)
          (fun e he => ⟨hl, he⟩))
        intro esc σ4 hi4 hesc
        cases esc with
        | none => exact Res.Pos.ok hi4 trivial
        | brk l => exact Res.Pos.errAt hesc (leafOK_of_nil rfl) hi4
        | cont l => exact Res.Pos.errAt hesc (leafOK_of_nil rfl) hi4
        | ret v l => exact Res.Pos.ok hi4 trivial
      split
      · exact Res.Pos.errAt hl (leafOK_of_nil rfl) hi2
      split
      · exact Res.Pos.errAt hl (leafOK_of_nil rfl) hi2
      cases fsrc with
      | none =>
        cases hc : fr.collect with
        | false =>
          simp only [Bool.false_eq_true, ↓reduceIte]
          exact fin hi2 (GoodBinds.zip _ hargs)
        | true =>
          simp only [↓reduceIte]
          exact fin (hi2.alloc (c := .list _) trivial) (GoodBinds.zip _ hargs)
      | some this =>
        cases hc : fr.collect with
        | false =>
          simp only [Bool.false_eq_true, ↓reduceIte]
          exact fin hi2 (GoodBinds.append (GoodBinds.zip _ hargs) (GoodBinds.cons hthis GoodBinds.nil))
        | true =>
          simp only [↓reduceIte]
          exact fin (hi2.alloc (c := .list _) trivial) (GoodBinds.append (GoodBinds.zip _ hargs) (GoodBinds.cons hthis GoodBinds.nil))
  · exact Res.Pos.errAt hl (leafOK_of_nil rfl) hi2

end

theorem evalPosAll_succ {M : Mark → Prop} (hM : SlotClosed M) (n : Nat) (ih : EvalPosAll M n) : EvalPosAll M (n + 1) where
  evalExpr := ep_evalExpr hM ih
  evalOptIndex := ep_evalOptIndex ih
  evalListItems := ep_evalListItems ih
  evalProps := ep_evalProps ih
  evalCall := ep_evalCall ih
  evalToStr := ep_evalToStr ih
  evalToBool := ep_evalToBool ih
  evalToInt := ep_evalToInt ih
  evalToIndex := ep_evalToIndex ih
  interpolate := ep_interpolate ih
  evalBlock := ep_evalBlock ih
  declareAll := ep_declareAll ih
  evalStmts := ep_evalStmts ih
  evalStmt := ep_evalStmt ih
  evalIf := ep_evalIf ih
  evalWhile := ep_evalWhile ih
  evalFor := ep_evalFor ih
  bindNext := ep_bindNext ih
  bindProp := ep_bindProp
  bindRangeIndex := ep_bindRangeIndex ih
  bindList := ep_bindList ih
  bindObject := ep_bindObject ih
  bindObjectProp := ep_bindObjectProp ih

/-- the fuel induction: at every fuel, every evaluator function maps marked fragments and an invariant state to a result
    whose error (if any) has all its positions in `M`, in a state that satisfies the invariant again -/
theorem evalPosAll {M : Mark → Prop} (hM : SlotClosed M) (n : Nat) : EvalPosAll M n := by
  induction n with
  | zero => exact evalPosAll_zero
  | succ n ih => exact evalPosAll_succ hM n ih

end Seed
