/-
  C13Nested.lean — the evaluator's binding engine on a nested declaration pattern *is* the pure engine `pmatch`:
  with fuel at least the size of the pattern,
      bindNext fuel (σ with scope cell a = m) (a :: sc) names p.toExpr v none true = (pmatch p names m σ v).toRes a
  for patterns of any depth, on every outcome (ok, each located error, crash), partial bindings included.
  Induction over the pattern tree; the only heap facts needed are that writing the scope cell `a` commutes with
  allocation and is invisible to list and object reads.
-/
import SeedProofs.Lemmas.C13NestedSpec
namespace Seed.C13N
open Seed Gen

/-! ### the scope cell and the rest of the heap -/

/-- `a` is a scope cell -/
def IsScope (σ : State) (a : Addr) : Prop := ∃ m0, σ.getScope a = some m0

theorem IsScope.lt {σ : State} {a : Addr} (h : IsScope σ a) : a < σ.heap.size := by
  obtain ⟨m0, h⟩ := h; exact getScope_lt h

theorem IsScope.ext {σ σ' : State} {a : Addr} (h : IsScope σ a) (he : PExt σ σ') : IsScope σ' a := by
  obtain ⟨m0, h⟩ := h; exact ⟨m0, he.getScope h⟩

theorem IsScope.alloc {σ : State} {a : Addr} (h : IsScope σ a) (c : Cell) : IsScope (σ.alloc c).2 a :=
  h.ext (PExt.alloc σ c)

theorem set_set (σ : State) (a : Addr) (c c' : Cell) : (σ.set a c).set a c' = σ.set a c' := by
  simp [State.set]

theorem set_self {σ : State} {a : Addr} {m : ScopeMap} (h : σ.getScope a = some m) : σ.set a (.scope m) = σ := by
  have h1 := getScope_eq_some.mp h
  have hlt := heap_lt_of_some h1
  cases σ with
  | mk heap out =>
    simp only [State.set]
    congr 1
    apply Array.ext_getElem?
    intro i
    rw [Array.getElem?_setIfInBounds]
    split
    · rename_i e; subst e
      simp only at hlt h1
      rw [h1]
    · rfl

/-- writing cell `a` and pushing a new cell commute -/
theorem alloc_set (σ : State) {a : Addr} (c c' : Cell) (h : a < σ.heap.size) :
    (σ.set a c).alloc c' = (σ.heap.size, (σ.alloc c').2.set a c) := by
  simp only [State.alloc, State.set, Array.size_setIfInBounds]
  congr 2
  apply Array.ext_getElem?
  intro i
  simp only [Array.getElem?_push, Array.getElem?_setIfInBounds, Array.size_setIfInBounds, Array.size_push]
  by_cases hi : i = σ.heap.size
  · subst hi
    have : a ≠ σ.heap.size := Nat.ne_of_lt h
    simp [this]
  · by_cases ha : a = i
    · subst ha; simp [hi, h, Nat.lt_succ_of_lt h]
    · simp [hi, ha]

theorem getList_setScope {σ : State} {a : Addr} (h : IsScope σ a) (m : ScopeMap) (b : Addr) :
    (σ.set a (.scope m)).getList b = σ.getList b := by
  obtain ⟨m0, h⟩ := h; exact getList_set_scope h

theorem getObj_setScope {σ : State} {a : Addr} (h : IsScope σ a) (m : ScopeMap) (b : Addr) :
    (σ.set a (.scope m)).getObj b = σ.getObj b := by
  obtain ⟨m0, h⟩ := h; exact getObj_set_scope h

theorem getScope_setScope {σ : State} {a : Addr} (h : IsScope σ a) (m : ScopeMap) :
    (σ.set a (.scope m)).getScope a = some m := getScope_set_same h.lt m

/-- declaring a name in the scope cell `a` is `mName` on the cell's contents -/
theorem bindNextName_set {f : Nat} {σ : State} {a : Addr} (sc : List Addr) (names : List (List Char)) (m : ScopeMap)
    (x : List Char) (l : Loc) (v : SVal) (hs : IsScope σ a) :
    bindNextName f (σ.set a (.scope m)) (a :: sc) names x l v none true = (mName names m σ x l v).toRes a := by
  unfold bindNextName mName
  by_cases hx : x = c!"_"
  · rw [if_pos hx, if_pos hx]; rfl
  · rw [if_neg hx, if_neg hx]
    by_cases hc : names.contains x = true
    · rw [if_pos hc, if_pos hc]; rfl
    · rw [if_neg hc, if_neg hc]
      simp only [if_true, scopeDeclare, getScope_setScope hs]
      cases scopeLookup x m with
      | some pr => rfl
      | none => simp only [MRes.toRes, set_set]

/-- sequencing on both sides -/
theorem toRes_bind {a : Addr} {R : Res (List (List Char))} {r : MRes} {β : Type}
    {F : List (List Char) → State → Res β} {f : List (List Char) → ScopeMap → State → MRes}
    {G : MRes → Res β} (hG : ∀ loc leaf m σ, G (.err loc leaf m σ) = errAt loc leaf (σ.set a (.scope m)))
    (hG' : ∀ w m σ, G (.crash w m σ) = .crash w (σ.set a (.scope m)))
    (h1 : R = r.toRes a) (h2 : ∀ N M S, r = .ok N M S → F N (S.set a (.scope M)) = G (f N M S)) :
    R.bind F = G (r.bind f) := by
  subst h1
  cases r with
  | ok N M S => exact h2 N M S rfl
  | err loc leaf m σ => rw [MRes.bind, hG]; rfl
  | crash w m σ => rw [MRes.bind, hG']; rfl

theorem toRes_bind' {a : Addr} {R : Res (List (List Char))} {r : MRes}
    {F : List (List Char) → State → Res (List (List Char))} {f : List (List Char) → ScopeMap → State → MRes}
    (h1 : R = r.toRes a) (h2 : ∀ N M S, r = .ok N M S → F N (S.set a (.scope M)) = (f N M S).toRes a) :
    R.bind F = (r.bind f).toRes a :=
  toRes_bind (G := MRes.toRes a) (fun _ _ _ _ => rfl) (fun _ _ _ => rfl) h1 h2

theorem utf8_roundtrip' (cs : List Char) : utf8Decode (utf8Encode cs) = .ok cs := by
  unfold utf8Decode
  rw [C15U.decode_encode_aux cs _ 0 [] (by have := C15U.length_le_encode cs; omega)]
  simp

theorem Pat.size_pos : (p : Pat) → 1 ≤ p.size
  | .var _ _ => by simp [Pat.size]
  | .list _ _ _ => by simp [Pat.size]
  | .obj _ _ => by simp [Pat.size]

theorem PatProps.size_pos : (p : PatProps) → 1 ≤ p.size
  | .nil => by simp [PatProps.size]
  | .short _ _ _ => by simp [PatProps.size]
  | .pair _ _ _ _ => by simp [PatProps.size]
  | .rest _ _ _ => by simp [PatProps.size]

/-! ### the engine on nested patterns -/

mutual
theorem bindNext_pat (a : Addr) (sc : List Addr) : (p : Pat) → ∀ (fuel : Nat) (names : List (List Char)) (m : ScopeMap)
    (σ : State) (v : SVal), p.size ≤ fuel → IsScope σ a →
    bindNext fuel (σ.set a (.scope m)) (a :: sc) names p.toExpr v none true = (pmatch p names m σ v).toRes a
  | .var x l, fuel, names, m, σ, v, hf, hs => by
    obtain ⟨n, rfl⟩ : ∃ n, fuel = n + 1 := ⟨fuel - 1, by simp only [Pat.size] at hf; omega⟩
    rw [Pat.toExpr, bindNext_var, pmatch]
    exact bindNextName_set sc names m x l v hs
  | .list ps c l, fuel, names, m, σ, v, hf, hs => by
    simp only [Pat.size] at hf
    obtain ⟨n, rfl⟩ : ∃ n, fuel = n + 1 := ⟨fuel - 1, by omega⟩
    rw [Pat.toExpr, bindNext, pmatch]
    cases v.v <;> try rfl
    rename_i b
    dsimp only
    rw [getList_setScope hs]
    cases hb : σ.getList b with
    | none => rfl
    | some xs =>
      dsimp only
      rw [PatList.toItems_length]
      by_cases h1 : (c && decide (ps.length - 1 > xs.length)) = true
      · rw [if_pos h1, if_pos h1]; rfl
      · rw [if_neg h1, if_neg h1]
        by_cases h2 : (!c && decide (ps.length ≠ xs.length)) = true
        · rw [if_pos h2, if_pos h2]; rfl
        · rw [if_neg h2, if_neg h2]
          exact bindList_pat a sc ps n c l b xs 0 ps.length names m σ (by omega) hs hb
  | .obj pr l, fuel, names, m, σ, v, hf, hs => by
    simp only [Pat.size] at hf
    obtain ⟨n, rfl⟩ : ∃ n, fuel = n + 1 := ⟨fuel - 1, by omega⟩
    rw [Pat.toExpr, bindNext, pmatch]
    cases v.v <;> try rfl
    rename_i b
    dsimp only
    rw [getObj_setScope hs]
    cases hb : σ.getObj b with
    | none => rfl
    | some o =>
      dsimp only
      rw [PatProps.toProps_length]
      exact bindObject_pat a sc pr n o b 0 pr.length (o.map Prod.fst) names m σ (by omega) hs hb
theorem bindList_pat (a : Addr) (sc : List Addr) : (ps : PatList) → ∀ (fuel : Nat) (c : Bool) (l : Loc) (b : Addr)
    (xs : List SVal) (i len : Nat) (names : List (List Char)) (m : ScopeMap) (σ : State),
    ps.size ≤ fuel → IsScope σ a → σ.getList b = some xs →
    bindList fuel (σ.set a (.scope m)) (a :: sc) names ps.toItems c l b true i len =
      (pmatchList ps c l xs i len names m σ).toRes a
  | .nil, fuel, c, l, b, xs, i, len, names, m, σ, hf, hs, hb => by
    obtain ⟨n, rfl⟩ : ∃ n, fuel = n + 1 := ⟨fuel - 1, by simp only [PatList.size] at hf; omega⟩
    rw [PatList.toItems, bindList, pmatchList]; rfl
  | .cons p r, fuel, c, l, b, xs, i, len, names, m, σ, hf, hs, hb => by
    simp only [PatList.size] at hf
    obtain ⟨n, rfl⟩ : ∃ n, fuel = n + 1 := ⟨fuel - 1, by omega⟩
    rw [PatList.toItems, bindList, pmatchList]
    simp only [Bool.false_eq_true, if_false]
    rw [getList_setScope hs, hb]
    dsimp only
    by_cases h1 : (c && decide (i = len - 1)) = true
    · rw [if_pos h1, if_pos h1, alloc_set σ _ _ hs.lt]
      dsimp only
      refine toRes_bind' (bindNext_pat a sc p n names m _ _ (by omega) (hs.alloc _)) ?_
      intro N M S hres
      have he := (PExt.alloc σ (.list (xs.drop (len - 1)))).trans (pmatch_ok_ext hres)
      exact bindList_pat a sc r n c l b xs (i + 1) len N M S (by omega) (hs.ext he) (he.getList hb)
    · rw [if_neg h1, if_neg h1]
      cases xs[i]? with
      | none => rfl
      | some v =>
        dsimp only
        refine toRes_bind' (bindNext_pat a sc p n names m σ v (by omega) hs) ?_
        intro N M S hres
        have he := pmatch_ok_ext hres
        exact bindList_pat a sc r n c l b xs (i + 1) len N M S (by omega) (hs.ext he) (he.getList hb)
theorem bindObject_pat (a : Addr) (sc : List Addr) : (pr : PatProps) → ∀ (fuel : Nat) (o : ObjMap) (b : Addr)
    (i total : Nat) (rem : List (List Char)) (names : List (List Char)) (m : ScopeMap) (σ : State),
    pr.size ≤ fuel → IsScope σ a → σ.getObj b = some o →
    bindObject fuel (σ.set a (.scope m)) (a :: sc) names pr.toProps b true i total rem =
      (pmatchProps pr o i total rem names m σ).toRes a
  | .nil, fuel, o, b, i, total, rem, names, m, σ, hf, hs, hb => by
    obtain ⟨n, rfl⟩ : ∃ n, fuel = n + 1 := ⟨fuel - 1, by simp only [PatProps.size] at hf; omega⟩
    rw [PatProps.toProps, bindObject, pmatchProps]; rfl
  | .short x l r, fuel, o, b, i, total, rem, names, m, σ, hf, hs, hb => by
    simp only [PatProps.size] at hf
    obtain ⟨n, rfl⟩ : ∃ n, fuel = n + 3 := ⟨fuel - 3, by omega⟩
    rw [PatProps.toProps, bindObject, pmatchProps]
    simp only [Bool.false_eq_true, if_false, Expr.raw, Expr.loc]
    by_cases hx : x = c!"_"
    · rw [if_pos hx, if_pos hx]
      simp only [MRes.bind]
      exact bindObject_pat a sc r (n + 2) o b (i + 1) total _ names m σ (by omega) hs hb
    · rw [if_neg hx, if_neg hx]
      refine toRes_bind' ?_ ?_
      · rw [bindObjectProp, getObj_setScope hs, hb]
        dsimp only
        cases objGet x o with
        | none => rfl
        | some v =>
          dsimp only
          rw [bindNext_var]
          exact bindNextName_set sc names m x l v hs
      · intro N M S hres
        have hS : S = σ := by
          cases ho : objGet x o with
          | none => rw [ho] at hres; cases hres
          | some v => rw [ho] at hres; exact mName_ok_state hres
        subst hS
        exact bindObject_pat a sc r (n + 2) o b (i + 1) total _ N M S (by omega) hs hb
  | .pair k lk p r, fuel, o, b, i, total, rem, names, m, σ, hf, hs, hb => by
    simp only [PatProps.size] at hf
    have hp := Pat.size_pos p
    have hr := PatProps.size_pos r
    obtain ⟨n, rfl⟩ : ∃ n, fuel = n + 3 := ⟨fuel - 3, by omega⟩
    rw [PatProps.toProps, bindObject, pmatchProps, evalToStr_lit _ _ _ _ _ _ (utf8_roundtrip' k)]
    simp only [Res.bind, Expr.loc]
    refine toRes_bind' ?_ ?_
    · rw [bindObjectProp, getObj_setScope hs, hb]
      dsimp only
      cases objGet k o with
      | none => rfl
      | some v =>
        dsimp only
        exact bindNext_pat a sc p (n + 1) names m σ v (by omega) hs
    · intro N M S hres
      have he : PExt σ S := by
        cases ho : objGet k o with
        | none => rw [ho] at hres; cases hres
        | some v => rw [ho] at hres; exact pmatch_ok_ext hres
      exact bindObject_pat a sc r (n + 2) o b (i + 1) total _ N M S (by omega) (hs.ext he) (he.getObj hb)
  | .rest x l r, fuel, o, b, i, total, rem, names, m, σ, hf, hs, hb => by
    simp only [PatProps.size] at hf
    obtain ⟨n, rfl⟩ : ∃ n, fuel = n + 1 := ⟨fuel - 1, by omega⟩
    rw [PatProps.toProps, bindObject, pmatchProps]
    simp only [Bool.false_eq_true, if_false, Expr.raw, Expr.loc, if_true]
    by_cases h1 : i ≠ total - 1
    · rw [if_pos h1, if_pos h1]; rfl
    · rw [if_neg h1, if_neg h1, getObj_setScope hs, hb]
      dsimp only
      rw [alloc_set σ _ _ hs.lt]
      dsimp only
      refine toRes_bind' (bindNextName_set sc names m x l _ (hs.alloc _)) ?_
      intro N M S hres
      have hS := mName_ok_state hres
      subst hS
      have he := PExt.alloc σ (.obj (o.filter fun kv => rem.contains kv.1))
      exact bindObject_pat a sc r n o b i total rem N M _ (by omega) (hs.ext he) (he.getObj hb)
end

end Seed.C13N
