/-
  Lemmas/C19Held.lean — (1) the `held` set of the renderer matters only through the addresses reachable from the value
  being rendered, so rendering under a `held` set that is not reachable is rendering under the empty one;
  (2) in a heap whose object cells are key-sorted every unfolding is canonical (`C10.Tree.Canon`).
-/
import SeedProofs.Lemmas.C19Render
namespace Seed.C19
open Seed Seed.C10

/-! ## reachable containers -/

/-- `Reach σ v a`: the container at `a` is `v` itself or is reachable from `v` through list items / property values -/
inductive Reach (σ : State) : Val → Addr → Prop
  | listSelf (a : Addr) : Reach σ (.list a) a
  | objSelf (a : Addr) : Reach σ (.obj a) a
  | listItem {a : Addr} {items : List SVal} {x : SVal} {b : Addr} :
      σ.getList a = some items → x ∈ items → Reach σ x.v b → Reach σ (.list a) b
  | objProp {a : Addr} {props : ObjMap} {k : List Char} {x : SVal} {b : Addr} :
      σ.getObj a = some props → (k, x) ∈ props → Reach σ x.v b → Reach σ (.obj a) b

/-- no held container is reachable from `v` -/
def NoHeld (σ : State) (held : List Addr) (v : Val) : Prop := ∀ a ∈ held, ¬ Reach σ v a

theorem contains_congr {h1 h2 : List Addr} {a : Addr} (h : a ∈ h1 ↔ a ∈ h2) : h1.contains a = h2.contains a := by
  cases c1 : h1.contains a <;> cases c2 : h2.contains a <;> simp_all

/-- two `held` sets that agree on the containers reachable from the value give the same rendering, at every fuel -/
theorem render_held_frame (σ : State) : ∀ m : Nat,
    (∀ h1 h2 v, (∀ b, Reach σ v b → (b ∈ h1 ↔ b ∈ h2)) → render m σ h1 v = render m σ h2 v) ∧
    (∀ h1 h2 items, (∀ x ∈ items, ∀ b, Reach σ x.v b → (b ∈ h1 ↔ b ∈ h2)) →
      renderItems m σ h1 items = renderItems m σ h2 items) ∧
    (∀ h1 h2 props, (∀ k x, (k, x) ∈ props → ∀ b, Reach σ x.v b → (b ∈ h1 ↔ b ∈ h2)) →
      renderProps m σ h1 props = renderProps m σ h2 props) := by
  intro m
  induction m with
  | zero =>
    refine ⟨?_, ?_, ?_⟩ <;> intros
    · simp only [render]
    · simp only [renderItems]
    · simp only [renderProps]
  | succ m ih =>
    obtain ⟨ihV, ihI, ihP⟩ := ih
    refine ⟨?_, ?_, ?_⟩
    · intro h1 h2 v H
      cases v with
      | list a =>
        simp only [render]
        rw [contains_congr (H a (.listSelf a))]
        cases hg : σ.getList a with
        | none => rfl
        | some items =>
          simp only
          rw [ihI (a :: h1) (a :: h2) items fun x hx b hb => by
            simp only [List.mem_cons, H b (.listItem hg hx hb)]]
      | obj a =>
        simp only [render]
        rw [contains_congr (H a (.objSelf a))]
        cases hg : σ.getObj a with
        | none => rfl
        | some props =>
          simp only
          rw [ihP (a :: h1) (a :: h2) props fun k x hx b hb => by
            simp only [List.mem_cons, H b (.objProp hg hx hb)]]
      | _ => simp only [render]
    · intro h1 h2 items H
      cases items with
      | nil => simp only [renderItems]
      | cons x r =>
        simp only [renderItems]
        rw [ihV h1 h2 x.v (H x List.mem_cons_self),
          ihI h1 h2 r fun y hy => H y (List.mem_cons_of_mem _ hy)]
    · intro h1 h2 props H
      cases props with
      | nil => simp only [renderProps]
      | cons p r =>
        obtain ⟨k, x⟩ := p
        simp only [renderProps]
        rw [ihV h1 h2 x.v (H k x List.mem_cons_self),
          ihP h1 h2 r fun k' y hy => H k' y (List.mem_cons_of_mem _ hy)]

/-- held containers that are not reachable from the value are irrelevant -/
theorem render_noheld {σ : State} {held : List Addr} {v : Val} (h : NoHeld σ held v) (m : Nat) :
    render m σ held v = render m σ [] v :=
  (render_held_frame σ m).1 held [] v fun b hb =>
    ⟨fun hm => absurd hb (h b hm), fun hm => by cases hm⟩

/-- R1 over an arbitrary `held` set none of whose addresses is reachable from the value -/
theorem render_unfold_noheld {σ : State} {held : List Addr} {v : Val} {t : Tree} (h : Unf σ v t)
    (hn : NoHeld σ held v) : ∃ n, ∀ m, n ≤ m → render m σ held v = renderTree σ t := by
  obtain ⟨n, hn'⟩ := render_unfold h
  exact ⟨n, fun m hm => by rw [render_noheld hn, hn' m hm]⟩

/-! ## acyclicity: in an unfoldable value no container is reachable from its own contents -/

/-- the unfolding of an item is one of the children (so it is smaller) -/
theorem UnfL.child {σ : State} : ∀ {items : List SVal} {ts : Trees}, UnfL σ items ts → ∀ x ∈ items,
    ∃ tx, Unf σ x.v tx ∧ tsize tx < tssize ts + 1
  | _, _, .nil => fun x hx => by cases hx
  | _, _, .cons h0 hu => fun x hx => by
    rcases List.mem_cons.mp hx with rfl | hx
    · exact ⟨_, h0, by simp only [tssize]; omega⟩
    · obtain ⟨tx, h1, h2⟩ := UnfL.child hu x hx
      exact ⟨tx, h1, by simp only [tssize]; omega⟩

theorem UnfP.child {σ : State} : ∀ {props : ObjMap} {ps : Props}, UnfP σ props ps → ∀ k x, (k, x) ∈ props →
    ∃ tx, Unf σ x.v tx ∧ tsize tx < pssize ps + 1
  | _, _, .nil => fun k x hx => by cases hx
  | _, _, .cons h0 hu => fun k x hx => by
    rcases List.mem_cons.mp hx with he | hx
    · cases he
      exact ⟨_, h0, by simp only [pssize]; omega⟩
    · obtain ⟨tx, h1, h2⟩ := UnfP.child hu k x hx
      exact ⟨tx, h1, by simp only [pssize]; omega⟩

/-- everything reachable from an unfoldable value is unfoldable, to a tree that is no larger -/
theorem Reach.unf {σ : State} {v : Val} {b : Addr} (hr : Reach σ v b) :
    ∀ t, Unf σ v t → ∃ t', (Unf σ (.list b) t' ∨ Unf σ (.obj b) t') ∧ tsize t' ≤ tsize t := by
  induction hr with
  | listSelf a => exact fun t h => ⟨t, Or.inl h, Nat.le_refl _⟩
  | objSelf a => exact fun t h => ⟨t, Or.inr h, Nat.le_refl _⟩
  | listItem hg hx _ ih =>
    intro t h
    cases h with
    | list hg' hu =>
      rw [hg] at hg'; cases hg'
      obtain ⟨tx, h1, h2⟩ := UnfL.child hu _ hx
      obtain ⟨t', h3, h4⟩ := ih tx h1
      exact ⟨t', h3, by simp only [tsize]; omega⟩
  | objProp hg hx _ ih =>
    intro t h
    cases h with
    | obj hg' hu =>
      rw [hg] at hg'; cases hg'
      obtain ⟨tx, h1, h2⟩ := UnfP.child hu _ _ hx
      obtain ⟨t', h3, h4⟩ := ih tx h1
      exact ⟨t', h3, by simp only [tsize]; omega⟩

/-- **acyclicity.** a list that has an unfolding is not reachable from any of its own items … -/
theorem unf_acyclic_list {σ : State} {a : Addr} {items : List SVal} {x : SVal} {t : Tree}
    (h : Unf σ (.list a) t) (hg : σ.getList a = some items) (hx : x ∈ items) : ¬ Reach σ x.v a := by
  intro hr
  cases h with
  | list hg' hu =>
    rw [hg] at hg'; cases hg'
    obtain ⟨tx, h1, h2⟩ := UnfL.child hu x hx
    obtain ⟨t', h3, h4⟩ := hr.unf tx h1
    rcases h3 with h3 | h3
    · have := Unf.det _ _ _ h3 (.list hg hu)
      subst this
      simp only [tsize] at h4; omega
    · cases h3 with
      | obj hg'' _ => exact getList_getObj_excl hg hg''

/-- … and an object that has an unfolding is not reachable from any of its own property values -/
theorem unf_acyclic_obj {σ : State} {a : Addr} {props : ObjMap} {k : List Char} {x : SVal} {t : Tree}
    (h : Unf σ (.obj a) t) (hg : σ.getObj a = some props) (hx : (k, x) ∈ props) : ¬ Reach σ x.v a := by
  intro hr
  cases h with
  | obj hg' hu =>
    rw [hg] at hg'; cases hg'
    obtain ⟨tx, h1, h2⟩ := UnfP.child hu k x hx
    obtain ⟨t', h3, h4⟩ := hr.unf tx h1
    rcases h3 with h3 | h3
    · cases h3 with
      | list hg'' _ => exact getList_getObj_excl hg'' hg
    · have := Unf.det _ _ _ h3 (.obj hg hu)
      subst this
      simp only [tsize] at h4; omega

/-! ## canonical unfoldings -/

/-- every object cell of the heap is strictly sorted by key (the invariant of `BTreeMap`; `objInsert` keeps it) -/
def HeapSorted (σ : State) : Prop :=
  ∀ a props, σ.getObj a = some props → props.Pairwise fun p q => keyLt p.1 q.1 = true

theorem UnfP.keys {σ : State} : ∀ {props : ObjMap} {ps : Props}, UnfP σ props ps →
    keysOf ps.toList = props.map Prod.fst
  | _, _, .nil => rfl
  | _, _, .cons _ h => by
    simp only [Props.toList, keysOf, List.map_cons, List.cons.injEq, true_and]
    exact UnfP.keys h

/-- in a key-sorted heap every unfolding is canonical -/
theorem Unf.canon {σ : State} (hs : HeapSorted σ) (t : Tree) : ∀ v, Unf σ v t → t.Canon := by
  refine Tree.rec (motive_1 := fun t => ∀ v, Unf σ v t → t.Canon)
    (motive_2 := fun ts => ∀ items, UnfL σ items ts → ts.Canon)
    (motive_3 := fun ps => ∀ props, UnfP σ props ps → ps.Canon) ?_ ?_ ?_ ?_ ?_ ?_ ?_ ?_ ?_ ?_ ?_ ?_ t
  · intros; trivial
  · intros; trivial
  · intros; trivial
  · intros; trivial
  · intro xs ih v h
    cases h with
    | list _ hu => simp only [Tree.Canon]; exact ih _ hu
  · intro ps ih v h
    cases h with
    | obj hg hu =>
      simp only [Tree.Canon, KeysSorted, UnfP.keys hu]
      exact ⟨List.pairwise_map.mpr (hs _ _ hg), ih _ hu⟩
  · intros; trivial
  · intros; trivial
  · intros; trivial
  · intro t r iht ihr items h
    cases h with
    | cons hx hxs => exact ⟨iht _ hx, ihr _ hxs⟩
  · intros; trivial
  · intro k t r iht ihr props h
    cases h with
    | cons hx hxs => exact ⟨iht _ hx, ihr _ hxs⟩

end Seed.C19
