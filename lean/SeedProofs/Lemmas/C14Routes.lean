/-
  C14Routes.lean — more routes along which a function value keeps (and a container does NOT lend) its `this`
  provenance (`SVal.src`):

    (1) `xs[i]` on a LIST returns the stored `SVal` — value and `src` — whatever `src` the list value itself carries
        (`b.handlers[0]`: the list was read from `b`, its items get nothing from that);
    (2) a spread item `xs..` of a list literal / an argument list appends the stored items unchanged;
    (4) a range read `xs[a:b]` builds a fresh list of the stored items unchanged;
    `toPairs` on a list pairs every index with the stored item unchanged (used by (3), C14Routes2.lean).

  Each with the call that follows (`callBindings … s …` where `s` is the `src` the item was STORED with: `this := t`
  for `s = some t`, no `this` binding for `s = none`).  The `for` route (3) is in C14Routes2.lean, the composed statements
  (5) and the whole-program examples in C14Routes3.lean.
-/
import SeedProofs.Lemmas.C14This
import SeedProofs.Lemmas.C14ThisPat
import SeedProofs.Lemmas.C11Prog3
import SeedProofs.C11
import SeedProofs.Global
namespace Seed.C14R
open Seed Gen

/-! ## example state -/

/-- `fn who() { return this.name; }` closed over the global scope -/
def frWho : FuncRec :=
  ⟨some c!"who", [], false,
    [.Return (1, 11) (.mk (.Prop (.mk (.Var c!"this") (1, 18)) c!"name" false) (1, 22))], [0]⟩

/-- `fn ap(f) { return f(); }` -/
def frAp : FuncRec :=
  ⟨some c!"ap", [.mk (.Var c!"f") (2, 6)], false,
    [.Return (2, 11) (.mk (.Call (.mk (.Var c!"f") (2, 18)) []) (2, 19))], [0]⟩

def msR : ScopeMap :=
  [(c!"who", SVal.plain (.func 1), (1, 3)), (c!"a", SVal.plain (.obj 2), (3, 0)),
   (c!"queue", SVal.plain (.list 3), (4, 0)), (c!"b", SVal.plain (.obj 4), (5, 0)),
   (c!"ap", SVal.plain (.func 5), (2, 3))]

/-- scope 0: `who ↦ func 1`, `a ↦ object 2`, `queue ↦ list 3`, `b ↦ object 4`, `ap ↦ func 5`;
    object 2 = `a = {"name": "a", "who": who}`;
    list 3 = `queue = [a.who, who]` — the first item was read from `a` (stored with `src = a`), the second never from an
    object (`src = none`);
    object 4 = `b = {"handlers": queue, "name": "b"}` -/
def σr : State :=
  ⟨#[.scope msR,
     .func frWho,
     .obj [(c!"name", SVal.plain (.str (utf8Encode c!"a"))), (c!"who", ⟨.func 1, none⟩)],
     .list [⟨.func 1, some (.obj 2)⟩, ⟨.func 1, none⟩],
     .obj [(c!"handlers", SVal.plain (.list 3)), (c!"name", SVal.plain (.str (utf8Encode c!"b")))],
     .func frAp], []⟩

def eB : Expr := .mk (.Var c!"b") (6, 0)
def eQ : Expr := .mk (.Var c!"queue") (6, 0)
def eHandlers : Expr := .mk (.Prop eB c!"handlers" false) (6, 1)
def eInt (k : Int) : Expr := .mk (.Int k) (6, 11)

theorem σr_b (n : Nat) : evalExpr (n + 1) σr [0] eB = .ok (SVal.plain (.obj 4)) σr := by
  rw [eB, evalExpr]; rfl
theorem σr_q (n : Nat) : evalExpr (n + 1) σr [0] eQ = .ok (SVal.plain (.list 3)) σr := by
  rw [eQ, evalExpr]; rfl
theorem σr_list : σr.getList 3 = some [⟨.func 1, some (.obj 2)⟩, ⟨.func 1, none⟩] := by rfl
theorem σr_obj4 : σr.getObj 4 =
    some [(c!"handlers", SVal.plain (.list 3)), (c!"name", SVal.plain (.str (utf8Encode c!"b")))] := by rfl
theorem σr_who : σr.getFunc 1 = some frWho := by rfl
theorem eInt_index (n : Nat) (σ : State) (sc : List Addr) (k : Nat) :
    evalToIndex (n + 3) σ sc (eInt (Int.ofNat k)) = .ok k σ := by
  rw [evalToIndex, evalToInt, eInt, evalExpr]
  simp [Res.bind, SVal.plain]
  intro h; omega

/-! ## (1) `xs[i]` on a list -/

/-- **`e[ix]` on a list**, as one equation: the stored item itself — the `SVal` with the `src` it was stored with — or
    the bounds error.  The list VALUE `lv` enters only through its address: its own `src` (`some b` when the list was
    read as `b.handlers`) is not attached to the item, and the item's `src` is not cleared. -/
theorem index_list_spec {n : Nat} {σ σ1 σ2 : State} {sc : List Addr} {ex ix : Expr} (loc : Loc) {lv : SVal} {a : Addr}
    {items : List SVal} {i : Nat}
    (h : evalExpr n σ sc ex = .ok lv σ1) (hlv : lv.v = .list a)
    (hi : evalToIndex n σ1 sc ix = .ok i σ2) (hl : σ2.getList a = some items) :
    evalExpr (n + 1) σ sc (.mk (.Index ex ix) loc) =
      match items[i]? with
      | some v => .ok v σ2
      | none => errAt loc (Leaf.OutOfListBounds i) σ2 := by
  rw [evalExpr, h]
  simp only [Res.bind, hlv, hi, hl]
  cases items[i]? <;> rfl

/-- **(1) reading `xs[i]` from a list returns exactly the stored `SVal`**: value AND `src` -/
theorem index_list_returns_stored_item {n : Nat} {σ σ1 σ2 : State} {sc : List Addr} {ex ix : Expr} (loc : Loc) {lv : SVal}
    {a : Addr} {items : List SVal} {i : Nat} {v : SVal}
    (h : evalExpr n σ sc ex = .ok lv σ1) (hlv : lv.v = .list a)
    (hi : evalToIndex n σ1 sc ix = .ok i σ2) (hl : σ2.getList a = some items) (hv : items[i]? = some v) :
    evalExpr (n + 1) σ sc (.mk (.Index ex ix) loc) = .ok v σ2 := by
  rw [index_list_spec loc h hlv hi hl, hv]

/-- `queue[0]` is the item stored with source `a`; `queue[1]` the one stored without a source -/
example : evalExpr 5 σr [0] (.mk (.Index eQ (eInt 0)) (6, 5)) = .ok ⟨.func 1, some (.obj 2)⟩ σr ∧
    evalExpr 5 σr [0] (.mk (.Index eQ (eInt 1)) (6, 5)) = .ok ⟨.func 1, none⟩ σr :=
  ⟨index_list_returns_stored_item (6, 5) (σr_q 3) rfl (eInt_index 1 σr [0] 0) σr_list rfl,
   index_list_returns_stored_item (6, 5) (σr_q 3) rfl (eInt_index 1 σr [0] 1) σr_list rfl⟩

/-- **`b.name[ix]`, end to end**: `b.name` is a list cell `a` held by the object `ob`.  The intermediate value — the
    list — carries `src = some ob` (first conjunct), and the item read from it is nevertheless the stored `SVal` `v`,
    with the `src` it was stored with: `some t` for a method read from `t` before it was put in the list, `none` for a
    function that was never read from an object.  The object `ob` is NOT the item's source. -/
theorem index_list_through_prop {n : Nat} {σ σ1 σ2 : State} {sc : List Addr} {eb ix : Expr} (lp loc : Loc) {bv hv : SVal}
    {ob a : Addr} {m : ObjMap} {name : List Char} {items : List SVal} {i : Nat} {v : SVal}
    (hb : evalExpr n σ sc eb = .ok bv σ1) (hbv : bv.v = .obj ob) (hm : σ1.getObj ob = some m)
    (hk : objGet name m = some hv) (hhv : hv.v = .list a)
    (hi : evalToIndex (n + 1) σ1 sc ix = .ok i σ2) (hl : σ2.getList a = some items) (hit : items[i]? = some v) :
    evalExpr (n + 1) σ sc (.mk (.Prop eb name false) lp) = .ok ⟨.list a, some (.obj ob)⟩ σ1 ∧
    evalExpr (n + 2) σ sc (.mk (.Index (.mk (.Prop eb name false) lp) ix) loc) = .ok v σ2 := by
  have hp : evalExpr (n + 1) σ sc (.mk (.Prop eb name false) lp) = .ok ⟨.list a, some (.obj ob)⟩ σ1 := by
    rw [prop_read_src lp hb hbv hm hk, hhv]
  exact ⟨hp, index_list_returns_stored_item loc hp rfl hi hl hit⟩

/-- `b.handlers` has source `b` (object 4); `b.handlers[0]` has source `a` (object 2), `b.handlers[1]` none -/
example : evalExpr 4 σr [0] eHandlers = .ok ⟨.list 3, some (.obj 4)⟩ σr ∧
    evalExpr 5 σr [0] (.mk (.Index eHandlers (eInt 0)) (6, 10)) = .ok ⟨.func 1, some (.obj 2)⟩ σr ∧
    evalExpr 5 σr [0] (.mk (.Index eHandlers (eInt 1)) (6, 10)) = .ok ⟨.func 1, none⟩ σr := by
  have h0 := index_list_through_prop (name := c!"handlers") (hv := SVal.plain (.list 3)) (6, 1) (6, 10) (σr_b 2) rfl σr_obj4 (by decide) rfl (eInt_index 1 σr [0] 0) σr_list rfl
  have h1 := index_list_through_prop (name := c!"handlers") (hv := SVal.plain (.list 3)) (6, 1) (6, 10) (σr_b 2) rfl σr_obj4 (by decide) rfl (eInt_index 1 σr [0] 1) σr_list rfl
  exact ⟨h0.1, h0.2, h1.2⟩

/-! ### … and the call of the item -/

/-- what the body of a call sees for a callee value whose source is `s`: `this = t` for `s = some t` (`BodyThis`);
    for `s = none` the binding list is parameters × values only, and — unless a parameter pattern binds the name
    `this` — `this` resolves through the closure chain alone in the state the body starts in -/
def CalleeThis (σ3 : State) (fr : FuncRec) (pv : List SVal) (s : Option Val) (loc : Loc) : Prop :=
  (∀ t, s = some t → BodyThis σ3 fr pv (some t) loc t) ∧
  (s = none →
    callBindings fr pv s loc = fr.args.zip pv ∧
    ((∀ p ∈ fr.args, c!"this" ∉ patVars p) → ∀ k σb,
      declareAll k (σ3.alloc (.scope [])).2 (σ3.heap.size :: fr.closure) (fr.args.zip pv) = .ok () σb →
      scopeGet σb (σ3.heap.size :: fr.closure) c!"this" = scopeGet σb fr.closure c!"this" ∧
      (scopeGet σb fr.closure c!"this" = none → ∀ j l,
        evalExpr (j + 1) σb (σ3.heap.size :: fr.closure) (.mk (.Var c!"this") l) =
          errAt l (Leaf.Undefined c!"this") σb)))

theorem calleeThis (σ3 : State) (fr : FuncRec) (pv : List SVal) (s : Option Val) (loc : Loc) :
    CalleeThis σ3 fr pv s loc := by
  refine ⟨fun t ht => ht ▸ bodyThis σ3 fr pv loc t, fun hs => ?_⟩
  subst hs
  exact ⟨rfl, fun hno k σb hd => ⟨(body_without_this hno hd).1, (body_without_this hno hd).2.1⟩⟩

/-- **`e[ix](args)` with `e` a list.**  Arguments first (`σ → σ1`), then `e` (`σ1 → σ2`, a list cell `a`, carrying ANY
    source), then the index (`σ2 → σ3`).  If position `i` of the list holds a user function stored with source `s`, the
    call runs that function's body with `callBindings … s …`: `this` is the object the function had been read from
    before it was put in the list (`s = some t`), or there is no `this` binding (`s = none`).  The list's own source
    plays no role. -/
theorem call_list_item {n : Nat} {σ σ1 σ2 σ3 : State} {sc : List Addr} {ex ix : Expr} {args : List ListItem}
    {argVals : List SVal} {lv : SVal} {a fa : Addr} {items : List SVal} {i : Nat} {s : Option Val} {fr : FuncRec}
    (l loc : Loc)
    (hargs : evalListItems (n + 1) σ sc args [] = .ok argVals σ1)
    (hx : evalExpr n σ1 sc ex = .ok lv σ2) (hlv : lv.v = .list a)
    (hi : evalToIndex n σ2 sc ix = .ok i σ3) (hl : σ3.getList a = some items) (hit : items[i]? = some ⟨.func fa, s⟩)
    (hfr : σ3.getFunc fa = some fr) (hok : arityOk fr.collect fr.args.length argVals.length = true) :
    evalCall (n + 2) σ sc (.mk (.Index ex ix) l) args loc =
      ((evalBlock (n + 1) (callPlainVals σ3 fr argVals).2 fr.closure
          (callBindings fr (callPlainVals σ3 fr argVals).1 s loc) fr.stmts).mapErr
        (Err.funcCall fr.name loc)).bind finishCall ∧
    CalleeThis (callPlainVals σ3 fr argVals).2 fr (callPlainVals σ3 fr argVals).1 s loc :=
  ⟨evalCall_func_ok loc hargs (index_list_returns_stored_item l hx hlv hi hl hit) rfl hfr hok, calleeThis _ _ _ _ _⟩

/-- **`b.name[ix](args)`**: `this` is NOT `b` — it is what the item was stored with -/
theorem call_handlers_item {n : Nat} {σ σ1 σ2 σ3 : State} {sc : List Addr} {eb ix : Expr} {args : List ListItem}
    {argVals : List SVal} {bv hv : SVal} {ob a fa : Addr} {m : ObjMap} {name : List Char} {items : List SVal} {i : Nat}
    {s : Option Val} {fr : FuncRec} (lp l loc : Loc)
    (hargs : evalListItems (n + 2) σ sc args [] = .ok argVals σ1)
    (hb : evalExpr n σ1 sc eb = .ok bv σ2) (hbv : bv.v = .obj ob) (hm : σ2.getObj ob = some m)
    (hk : objGet name m = some hv) (hhv : hv.v = .list a)
    (hi : evalToIndex (n + 1) σ2 sc ix = .ok i σ3) (hl : σ3.getList a = some items)
    (hit : items[i]? = some ⟨.func fa, s⟩)
    (hfr : σ3.getFunc fa = some fr) (hok : arityOk fr.collect fr.args.length argVals.length = true) :
    evalCall (n + 3) σ sc (.mk (.Index (.mk (.Prop eb name false) lp) ix) l) args loc =
      ((evalBlock (n + 2) (callPlainVals σ3 fr argVals).2 fr.closure
          (callBindings fr (callPlainVals σ3 fr argVals).1 s loc) fr.stmts).mapErr
        (Err.funcCall fr.name loc)).bind finishCall ∧
    CalleeThis (callPlainVals σ3 fr argVals).2 fr (callPlainVals σ3 fr argVals).1 s loc :=
  call_list_item l loc hargs (index_list_through_prop lp l hb hbv hm hk hhv hi hl hit).1 rfl hi hl hit hfr hok

/-- `b.handlers[0]()` runs `who` with `this := a` (object 2); `b.handlers[1]()` runs it with no binding at all -/
example :
    evalCall 6 σr [0] (.mk (.Index eHandlers (eInt 0)) (6, 10)) [] (6, 13) =
      ((evalBlock 5 σr [0] [(.mk (.Var c!"this") (6, 13), SVal.plain (.obj 2))] frWho.stmts).mapErr
        (Err.funcCall (some c!"who") (6, 13))).bind finishCall ∧
    evalCall 6 σr [0] (.mk (.Index eHandlers (eInt 1)) (6, 10)) [] (6, 13) =
      ((evalBlock 5 σr [0] [] frWho.stmts).mapErr (Err.funcCall (some c!"who") (6, 13))).bind finishCall :=
  ⟨(call_handlers_item (n := 3) (argVals := []) (hv := SVal.plain (.list 3)) (6, 1) (6, 10) (6, 13) (evalListItems_nil 4 σr [0] []) (σr_b 2) rfl σr_obj4
      (by decide) rfl (eInt_index 1 σr [0] 0) σr_list rfl σr_who (by decide)).1,
   (call_handlers_item (n := 3) (argVals := []) (hv := SVal.plain (.list 3)) (6, 1) (6, 10) (6, 13) (evalListItems_nil 4 σr [0] []) (σr_b 2) rfl σr_obj4
      (by decide) rfl (eInt_index 1 σr [0] 1) σr_list rfl σr_who (by decide)).1⟩

/-- … and the results: `"a"` (with source `a`), and `'this' is not defined` -/
example : evalCall 9 σr [0] (.mk (.Index eHandlers (eInt 0)) (6, 10)) [] (6, 13) =
      .ok ⟨.str (utf8Encode c!"a"), some (.obj 2)⟩
        (((σr.alloc (.scope [])).2).set 6 (.scope [(c!"this", SVal.plain (.obj 2), (6, 13))])) ∧
    ∃ σ', evalCall 9 σr [0] (.mk (.Index eHandlers (eInt 1)) (6, 10)) [] (6, 13) =
      .err (.funcCall (some c!"who") (6, 13) (Err.at (1, 18) (Leaf.Undefined c!"this"))) σ' :=
  ⟨by with_unfolding_all rfl, _, by with_unfolding_all rfl⟩

/-! ## (2) spread items -/

/-- **(2) a spread item `e..` appends the stored items of the list `e` denotes, unchanged** — the `SVal`s themselves,
    value and `src`; nothing is re-wrapped, the list's own source is not attached -/
theorem spread_keeps_item_src {n : Nat} {σ σ1 : State} {sc : List Addr} {e : Expr} {lv : SVal} {a : Addr}
    {xs : List SVal} (r : List ListItem) (acc : List SVal)
    (h : evalExpr n σ sc e = .ok lv σ1) (hlv : lv.v = .list a) (hl : σ1.getList a = some xs) :
    evalListItems (n + 1) σ sc (.mk e true :: r) acc = evalListItems n σ1 sc r (acc ++ xs) ∧
    ∀ j, (acc ++ xs)[acc.length + j]? = xs[j]? :=
  ⟨evalListItems_cons_spread r acc h hlv hl, fun j => by rw [List.getElem?_append_right (by omega)]; congr 1; omega⟩

/-- a spread in last position: the values are `acc ++ xs` -/
theorem spread_last {n : Nat} {σ σ1 : State} {sc : List Addr} {e : Expr} {lv : SVal} {a : Addr}
    {xs : List SVal} (acc : List SVal)
    (h : evalExpr n σ sc e = .ok lv σ1) (hlv : lv.v = .list a) (hl : σ1.getList a = some xs) :
    evalListItems (n + 1) σ sc [.mk e true] acc = .ok (acc ++ xs) σ1 := by
  obtain ⟨k, rfl⟩ := evalExpr_ok_pos h
  rw [(spread_keeps_item_src [] acc h hlv hl).1, evalListItems_nil]

/-- `[queue..]` evaluates its items to the two stored values, sources included -/
example : evalListItems 5 σr [0] [.mk eQ true] [] = .ok [⟨.func 1, some (.obj 2)⟩, ⟨.func 1, none⟩] σr :=
  spread_last [] (σr_q 3) rfl σr_list

/-- **`[e..]`**: a fresh list cell holding the stored items of `e`'s list unchanged -/
theorem list_literal_spread {n : Nat} {σ σ1 : State} {sc : List Addr} {e : Expr} {lv : SVal} {a : Addr}
    {xs : List SVal} (loc : Loc)
    (h : evalExpr n σ sc e = .ok lv σ1) (hlv : lv.v = .list a) (hl : σ1.getList a = some xs) :
    evalExpr (n + 2) σ sc (.mk (.List [.mk e true] false) loc) =
      .ok (SVal.plain (.list σ1.heap.size)) (σ1.alloc (.list xs)).2 ∧
    (σ1.alloc (.list xs)).2.getList σ1.heap.size = some xs := by
  refine ⟨?_, getList_alloc_new σ1 xs⟩
  rw [evalExpr]
  simp only [Bool.false_eq_true, if_false]
  rw [spread_last [] h hlv hl]
  rfl

example : evalExpr 6 σr [0] (.mk (.List [.mk eQ true] false) (7, 0)) =
    .ok (SVal.plain (.list 6)) (σr.alloc (.list [⟨.func 1, some (.obj 2)⟩, ⟨.func 1, none⟩])).2 :=
  (list_literal_spread (7, 0) (σr_q 3) rfl σr_list).1

/-- the argument lists `x[0], …, x[c-1]` for a variable `x` (as in C13) -/
def indexArgs (x : List Char) (l : Loc) : Nat → Nat → List ListItem
  | _, 0 => []
  | i, c + 1 => .mk (.mk (.Index (.mk (.Var x) l) (.mk (.Int (Int.ofNat i)) l)) l) false :: indexArgs x l (i + 1) c

theorem indexArgs_eval {σ : State} {sc : List Addr} {x : List Char} {vx : SVal} {ax : Addr} {xs : List SVal} (l : Loc)
    (hx : scopeGet σ sc x = some vx) (hvx : vx.v = .list ax) (hax : σ.getList ax = some xs) (c i d : Nat)
    (hic : i + c ≤ xs.length) (acc : List SVal) :
    evalListItems (c + 5 + d) σ sc (indexArgs x l i c) acc = .ok (acc ++ (xs.drop i).take c) σ := by
  induction c generalizing i acc with
  | zero =>
    have e : 0 + 5 + d = (d + 4) + 1 := by omega
    rw [e, indexArgs, evalListItems_nil]; simp
  | succ c ih =>
    have hi : i < xs.length := by omega
    have e : c + 1 + 5 + d = (c + 5 + d) + 1 := by omega
    have e2 : c + 5 + d = (c + d + 1 + 3) + 1 := by omega
    have hidx : evalToIndex (c + d + 1 + 3) σ sc (.mk (.Int (Int.ofNat i)) l) = .ok i σ := by
      rw [evalToIndex, evalToInt, evalExpr]
      simp [Res.bind, SVal.plain]
      intro h; omega
    have hvar : evalExpr (c + d + 1 + 3) σ sc (.mk (.Var x) l) = .ok vx σ := by rw [evalExpr, hx]
    rw [e, indexArgs, evalListItems_cons_plain]
    conv => lhs; arg 1; rw [e2]
    rw [index_list_returns_stored_item l hvar hvx hidx hax (List.getElem?_eq_getElem hi)]
    simp only [Res.bind]
    rw [ih (i + 1) (by omega), List.append_assoc]
    congr 2
    rw [List.drop_eq_getElem_cons hi, List.take_succ_cons]
    rfl

/-- **`f(x..)` receives the same argument values — the same `SVal`s, `src` included — as `f(x[0], …, x[n-1])`**, for a
    list variable `x`; the state is unchanged by both, so the two calls proceed identically from there.  (This is
    `C13.call_spread` — whose argument values are `SVal`s, hence already include `src` — restated here with the
    per-position reading: argument `j` IS the stored item `j`.) -/
theorem spread_args_eq_index_args {σ : State} {sc : List Addr} {x : List Char} {vx : SVal} {ax : Addr} {xs : List SVal}
    (l : Loc) (d : Nat)
    (hx : scopeGet σ sc x = some vx) (hvx : vx.v = .list ax) (hax : σ.getList ax = some xs) :
    evalListItems (d + 3) σ sc [.mk (.mk (.Var x) l) true] [] = .ok xs σ ∧
    evalListItems (xs.length + 5 + d) σ sc (indexArgs x l 0 xs.length) [] = .ok xs σ := by
  constructor
  · have hvar : evalExpr (d + 2) σ sc (.mk (.Var x) l) = .ok vx σ := by rw [evalExpr, hx]
    simpa using spread_last [] hvar hvx hax
  · simpa using indexArgs_eval l hx hvx hax xs.length 0 d (by omega) []

/-- `f(queue..)` and `f(queue[0], queue[1])` get the same two argument values: the first with source `a`, the second
    with none -/
example :
    evalListItems 3 σr [0] [.mk (.mk (.Var c!"queue") (8, 2)) true] [] =
      .ok [⟨.func 1, some (.obj 2)⟩, ⟨.func 1, none⟩] σr ∧
    evalListItems 7 σr [0] (indexArgs c!"queue" (8, 2) 0 2) [] = .ok [⟨.func 1, some (.obj 2)⟩, ⟨.func 1, none⟩] σr :=
  spread_args_eq_index_args (vx := SVal.plain (.list 3)) (8, 2) 0 (by rfl) rfl σr_list

/-- **`f(e..)`** (a single spread argument): the callee gets the stored items as its argument values, so a parameter
    bound to item `j` holds the `SVal` item `j` was stored as.  Stated for the call as a whole: with `e` a list of
    items `xs`, `f` a user function taking `xs.length` plain parameters (no rest parameter), the body runs with the
    binding list `params × xs`. -/
theorem call_spread_args {n : Nat} {σ σ1 σ2 : State} {sc : List Addr} {f e : Expr} {lv fv : SVal} {a pa : Addr}
    {xs : List SVal} {fr : FuncRec} (loc : Loc)
    (he : evalExpr n σ sc e = .ok lv σ1) (hlv : lv.v = .list a) (hl : σ1.getList a = some xs)
    (hf : evalExpr (n + 1) σ1 sc f = .ok fv σ2) (hfv : fv.v = .func pa) (hfr : σ2.getFunc pa = some fr)
    (hc : fr.collect = false) (hlen : fr.args.length = xs.length) :
    evalCall (n + 2) σ sc f [.mk e true] loc =
      ((evalBlock (n + 1) σ2 fr.closure (callBindings fr xs fv.src loc) fr.stmts).mapErr
        (Err.funcCall fr.name loc)).bind finishCall := by
  have hargs := spread_last [] he hlv hl
  rw [List.nil_append] at hargs
  rw [evalCall_func_ok loc hargs hf hfv hfr (by simp [arityOk, hc, hlen]), callPlainVals_no_rest xs hc]

example : evalCall 7 σr [0] (.mk (.Var c!"ap") (8, 0)) [.mk (.mk (.RangeIndex eQ none (some (eInt 1))) (8, 3)) true] (8, 2) =
    ((evalBlock 6 (σr.alloc (.list [⟨.func 1, some (.obj 2)⟩])).2 [0]
        [(.mk (.Var c!"f") (2, 6), ⟨.func 1, some (.obj 2)⟩)] frAp.stmts).mapErr
      (Err.funcCall (some c!"ap") (8, 2))).bind finishCall :=
  call_spread_args (n := 5) (σ1 := (σr.alloc (.list [⟨.func 1, some (.obj 2)⟩])).2)
    (lv := SVal.plain (.list 6)) (a := 6) (xs := [⟨.func 1, some (.obj 2)⟩]) (fv := SVal.plain (.func 5)) (pa := 5)
    (fr := frAp) (8, 2) (by with_unfolding_all rfl) rfl (by rfl) (by with_unfolding_all rfl) rfl (by rfl) rfl rfl

/-! ## (4) range reads -/

/-- item `j` of a slice is item `lo + j` of the source — the same `SVal` -/
theorem slice_item (xs : List SVal) (lo len j : Nat) (hj : j < len) :
    ((xs.drop lo).take len)[j]? = xs[lo + j]? := by
  rw [List.getElem?_take_of_lt hj, List.getElem?_drop]

/-- **(4) `e[a:b]` on a list builds a fresh list whose items are the stored items unchanged** (value and `src`).
    This is `C11.eval_slice` — its items are the `SVal`s `(xs.drop lo).take (hi - lo)` — with the per-item reading:
    position `j` of the new cell is position `lo + j` of the source cell. -/
theorem slice_keeps_item_src {n : Nat} {σ σ1 σ2 σ3 : State} {sc : List Addr} {e : Expr} {start stop : Option Expr}
    (loc : Loc) {ra rb : Option Int} {a : Addr} {s : Option Val} {xs : List SVal}
    (hA : Bound n sc σ start ra σ1) (hB : Bound n sc σ1 stop rb σ2) (hra : NonNeg ra) (hrb : NonNeg rb)
    (he : evalExpr n σ2 sc e = .ok ⟨.list a, s⟩ σ3) (hxs : σ3.getList a = some xs)
    (hin : rangeLo ra ≤ rangeHi rb xs.length ∧ rangeHi rb xs.length ≤ xs.length) :
    evalExpr (n + 4) σ sc (.mk (.RangeIndex e start stop) loc) =
      .ok (SVal.plain (.list σ3.heap.size))
        (σ3.alloc (.list ((xs.drop (rangeLo ra)).take (rangeHi rb xs.length - rangeLo ra)))).2 ∧
    (σ3.alloc (.list ((xs.drop (rangeLo ra)).take (rangeHi rb xs.length - rangeLo ra)))).2.getList
        σ3.heap.size =
      some ((xs.drop (rangeLo ra)).take (rangeHi rb xs.length - rangeLo ra)) ∧
    ∀ j, j < rangeHi rb xs.length - rangeLo ra →
      ((xs.drop (rangeLo ra)).take (rangeHi rb xs.length - rangeLo ra))[j]? = xs[rangeLo ra + j]? := by
  have h := C11.eval_slice loc hA hB hra hrb he hxs
  refine ⟨by rw [h.1, if_pos hin], (h.2.2 _).1, fun j hj => slice_item xs _ _ j hj⟩

theorem eInt_eval (n : Nat) (σ : State) (sc : List Addr) (k : Int) :
    evalExpr (n + 1) σ sc (eInt k) = .ok ⟨.int k, none⟩ σ := by rw [eInt, evalExpr]; rfl

/-- `queue[0:1]` is a new cell 6 holding the first stored item, source `a` included; `queue[1:]` one holding the second,
    which has none -/
example :
    evalExpr 7 σr [0] (.mk (.RangeIndex eQ (some (eInt 0)) (some (eInt 1))) (8, 3)) =
      .ok (SVal.plain (.list 6)) (σr.alloc (.list [⟨.func 1, some (.obj 2)⟩])).2 ∧
    evalExpr 7 σr [0] (.mk (.RangeIndex eQ (some (eInt 1)) none) (8, 3)) =
      .ok (SVal.plain (.list 6)) (σr.alloc (.list [⟨.func 1, none⟩])).2 :=
  ⟨(slice_keeps_item_src (n := 3) (s := none) (8, 3) (.given (eInt_eval 2 σr [0] 0)) (.given (eInt_eval 2 σr [0] 1))
      (by decide) (by decide) (σr_q 2) σr_list (by decide)).1,
   (slice_keeps_item_src (n := 3) (s := none) (8, 3) (.given (eInt_eval 2 σr [0] 1)) (.omitted σr)
      (by decide) (by decide) (σr_q 2) σr_list (by decide)).1⟩

/-! ## `toPairs` on a list -/

/-- the pairs a `for` loop walks for a list: `(i, stored item i)` — the item is the stored `SVal` -/
def listPairs (items : List SVal) : List (SVal × SVal) :=
  (enumFrom 0 items).map fun (i, x) => (SVal.plain (.int (Int.ofNat i)), x)

theorem enumFrom_length {α} (k : Nat) (xs : List α) : (enumFrom k xs).length = xs.length := by
  induction xs generalizing k with
  | nil => rfl
  | cons x r ih => simp [enumFrom, ih]

theorem enumFrom_get {α} (k : Nat) (xs : List α) (j : Nat) : (enumFrom k xs)[j]? = xs[j]?.map fun x => (k + j, x) := by
  induction xs generalizing k j with
  | nil => rfl
  | cons x r ih =>
    cases j with
    | zero => simp [enumFrom]
    | succ j =>
      simp only [enumFrom, List.getElem?_cons_succ]
      rw [ih]
      have : k + 1 + j = k + (j + 1) := by omega
      rw [this]

/-- **`toPairs` on a list pairs every index with the stored item unchanged**: as many pairs as items, pair `j` is
    `(j, items[j])` with the key a plain integer and the value the stored `SVal` (value and `src`) -/
theorem toPairs_list_keeps_items {σ : State} {a : Addr} {items : List SVal} (h : σ.getList a = some items) :
    toPairs σ (.list a) = some (some (listPairs items)) ∧
    (listPairs items).length = items.length ∧
    (listPairs items).map Prod.snd = items ∧
    ∀ j, (listPairs items)[j]? = items[j]?.map fun x => (SVal.plain (.int (Int.ofNat j)), x) := by
  have hget : ∀ j, (listPairs items)[j]? = items[j]?.map fun x => (SVal.plain (.int (Int.ofNat j)), x) := by
    intro j
    unfold listPairs
    rw [List.getElem?_map, enumFrom_get]
    cases items[j]? <;> simp
  refine ⟨by simp [toPairs, h, listPairs], by simp [listPairs, enumFrom_length], ?_, hget⟩
  apply List.ext_getElem?
  intro j
  rw [List.getElem?_map, hget]
  cases items[j]? <;> rfl

example : toPairs σr (.list 3) =
    some (some [(SVal.plain (.int 0), ⟨.func 1, some (.obj 2)⟩), (SVal.plain (.int 1), ⟨.func 1, none⟩)]) :=
  (toPairs_list_keeps_items σr_list).1

theorem listPairs_cons (x : SVal) (xs : List SVal) :
    ∃ r, listPairs (x :: xs) = (SVal.plain (.int 0), x) :: r ∧ r.map Prod.snd = xs := by
  refine ⟨(enumFrom 1 xs).map fun (i, x) => (SVal.plain (.int (Int.ofNat i)), x), rfl, ?_⟩
  have h := (toPairs_list_keeps_items (σ := (State.init.alloc (.list (x :: xs))).2) (a := State.init.heap.size)
    (items := x :: xs) (getList_alloc_new _ _)).2.2.1
  simpa [listPairs, enumFrom] using h

example : listPairs [⟨.func 1, some (.obj 2)⟩, ⟨.func 1, none⟩] =
    [(SVal.plain (.int 0), ⟨.func 1, some (.obj 2)⟩), (SVal.plain (.int 1), ⟨.func 1, none⟩)] := by decide

end Seed.C14R
