/-
  Lemmas/C10Tree.lean — the inductive unfolding of acyclic values (`Tree`), the structural comparison `eqT` on
  unfoldings (the algorithm of `eq` without heap, fuel and identity short-cut), and its laws.
-/
import SeedModel.Prim
import SeedModel.Run
namespace Seed.C10
open Seed

/-! ## trees -/

mutual
/-- the unfolding of a value: containers are replaced by their contents -/
inductive Tree where
  | null | bool (b : Bool) | int (n : Int) | str (bs : Bytes)
  | list (xs : Trees) | obj (ps : Props)
  | fn (a : Addr) | builtin (name : List Char) (f : BuiltinId)
inductive Trees where
  | nil | cons (t : Tree) (r : Trees)
inductive Props where
  | nil | cons (k : List Char) (t : Tree) (r : Props)
end

def Tree.kind : Tree → Kind
  | .null => .Null | .bool _ => .Bool | .int _ => .Int | .str _ => .Str | .list _ => .List
  | .obj _ => .Object | .builtin _ _ => .BuiltinFunc | .fn _ => .Func

def Trees.toList : Trees → List Tree
  | .nil => []
  | .cons t r => t :: r.toList
def Props.toList : Props → List (List Char × Tree)
  | .nil => []
  | .cons k t r => (k, t) :: r.toList
def Trees.length (xs : Trees) : Nat := xs.toList.length
def Props.length (xs : Props) : Nat := xs.toList.length

/-- first entry with the key (what `BTreeMap::get` finds; keys are distinct in every real object) -/
def getP (k : List Char) : List (List Char × Tree) → Option Tree
  | [] => none
  | (k', v) :: r => if k = k' then some v else getP k r
def Props.get (k : List Char) (ps : Props) : Option Tree := getP k ps.toList

mutual
/-- `eq` on unfoldings: the same traversal, length checks, key look-ups and paths; no identity short-cut -/
def eqT : Tree → Tree → EqRes
  | .null, .null => .ok true
  | .bool x, .bool y => .ok (x == y)
  | .int x, .int y => .ok (x == y)
  | .str x, .str y => .ok (x == y)
  | .list xs, .list ys => if xs.length ≠ ys.length then .ok false else eqTs 0 xs ys
  | .obj xs, .obj ys => if xs.length ≠ ys.length then .ok false else eqPs xs ys
  | a, b => .mismatch [] (Gen.typeNameDiag a.kind) (Gen.typeNameDiag b.kind)
def eqTs (i : Nat) : Trees → Trees → EqRes
  | .cons x xs, .cons y ys =>
    match eqT x y with
    | .ok true => eqTs (i + 1) xs ys
    | .ok false => .ok false
    | r => r.prefixPath (c!"[" ++ natToChars i ++ c!"]")
  | _, _ => .ok true
def eqPs : Props → Props → EqRes
  | .nil, _ => .ok true
  | .cons k x xs, ys =>
    match ys.get k with
    | none => .ok false
    | some y =>
      match eqT x y with
      | .ok true => eqPs xs ys
      | .ok false => .ok false
      | r => r.prefixPath (c!".'" ++ k ++ c!"'")
end

/-! ### the same loops on plain lists (so that list lemmas apply) -/

def eqL (i : Nat) : List Tree → List Tree → EqRes
  | x :: xs, y :: ys =>
    match eqT x y with
    | .ok true => eqL (i + 1) xs ys
    | .ok false => .ok false
    | r => r.prefixPath (c!"[" ++ natToChars i ++ c!"]")
  | _, _ => .ok true

def eqPL : List (List Char × Tree) → List (List Char × Tree) → EqRes
  | [], _ => .ok true
  | (k, x) :: xs, ys =>
    match getP k ys with
    | none => .ok false
    | some y =>
      match eqT x y with
      | .ok true => eqPL xs ys
      | .ok false => .ok false
      | r => r.prefixPath (c!".'" ++ k ++ c!"'")

theorem eqTs_eq : ∀ (xs ys : Trees) (i : Nat), eqTs i xs ys = eqL i xs.toList ys.toList
  | .nil, ys, i => by cases ys <;> simp [eqTs, eqL, Trees.toList]
  | .cons x xs, .nil, i => by simp [eqTs, eqL, Trees.toList]
  | .cons x xs, .cons y ys, i => by
    simp only [eqTs, eqL, Trees.toList]
    rw [eqTs_eq xs ys (i + 1)]

theorem eqPs_eq : ∀ (xs ys : Props), eqPs xs ys = eqPL xs.toList ys.toList
  | .nil, ys => by simp [eqPs, eqPL, Props.toList]
  | .cons k x xs, ys => by
    simp only [eqPs, eqPL, Props.toList, Props.get]
    rw [eqPs_eq xs ys]

theorem eqT_list (xs ys : Trees) :
    eqT (.list xs) (.list ys) = if xs.toList.length ≠ ys.toList.length then .ok false else eqL 0 xs.toList ys.toList := by
  simp only [eqT, Trees.length, eqTs_eq]

theorem eqT_obj (xs ys : Props) :
    eqT (.obj xs) (.obj ys) = if xs.toList.length ≠ ys.toList.length then .ok false else eqPL xs.toList ys.toList := by
  simp only [eqT, Props.length, eqPs_eq]

/-- on different kinds, or two functions, the answer is the mismatch naming both kinds -/
theorem eqT_mismatch (s t : Tree) (h : s.kind ≠ t.kind ∨ s.kind = .Func ∨ s.kind = .BuiltinFunc) :
    eqT s t = .mismatch [] (Gen.typeNameDiag s.kind) (Gen.typeNameDiag t.kind) := by
  cases s <;> cases t <;> simp_all [eqT, Tree.kind]

/-- a boolean answer needs operands of the same non-function kind -/
theorem eqT_ok_kind {s t : Tree} {b : Bool} (h : eqT s t = .ok b) : s.kind = t.kind := by
  cases s <;> cases t <;> first | rfl | (simp [eqT] at h)

/-! ### induction over trees with list-shaped hypotheses -/

theorem Tree.induct {P : Tree → Prop}
    (null : P .null) (bool : ∀ b, P (.bool b)) (int : ∀ n, P (.int n)) (str : ∀ b, P (.str b))
    (list : ∀ xs : Trees, (∀ t ∈ xs.toList, P t) → P (.list xs))
    (obj : ∀ ps : Props, (∀ k t, (k, t) ∈ ps.toList → P t) → P (.obj ps))
    (fn : ∀ a, P (.fn a)) (builtin : ∀ n f, P (.builtin n f)) : ∀ t, P t := by
  intro t
  refine Tree.rec (motive_1 := P) (motive_2 := fun xs => ∀ t ∈ xs.toList, P t)
    (motive_3 := fun ps => ∀ k t, (k, t) ∈ ps.toList → P t) null bool int str list obj fn builtin ?_ ?_ ?_ ?_ t
  · intro t h; simp [Trees.toList] at h
  · intro t r ht hr u hu
    simp only [Trees.toList, List.mem_cons] at hu
    rcases hu with rfl | hu
    · exact ht
    · exact hr u hu
  · intro k t h; simp [Props.toList] at h
  · intro k t r ht hr k' u hu
    simp only [Props.toList, List.mem_cons, Prod.mk.injEq] at hu
    rcases hu with ⟨_, rfl⟩ | hu
    · exact ht
    · exact hr k' u hu

/-! ### `prefixPath` keeps booleans -/

theorem prefixPath_ok {r : EqRes} {p : List Char} {b : Bool} (h : r.prefixPath p = .ok b) : r = .ok b := by
  cases r <;> simp_all [EqRes.prefixPath]

/-! ### look-ups -/

def keysOf (ps : List (List Char × Tree)) : List (List Char) := ps.map Prod.fst

theorem getP_none {k : List Char} {ps : List (List Char × Tree)} : getP k ps = none ↔ k ∉ keysOf ps := by
  induction ps with
  | nil => simp [getP, keysOf]
  | cons p r ih =>
    obtain ⟨k', v⟩ := p
    by_cases hk : k = k'
    · simp [getP, keysOf, hk]
    · simp only [getP, hk, if_false, ih, keysOf, List.map_cons, List.mem_cons, false_or]

theorem getP_mem {k : List Char} {ps : List (List Char × Tree)} {v : Tree} (h : getP k ps = some v) : (k, v) ∈ ps := by
  induction ps with
  | nil => simp [getP] at h
  | cons p r ih =>
    obtain ⟨k', v'⟩ := p
    by_cases hk : k = k'
    · simp only [getP, hk, if_true, Option.some.injEq] at h
      subst h; subst hk
      exact List.mem_cons_self
    · simp only [getP, hk, if_false] at h
      exact List.mem_cons_of_mem _ (ih h)

theorem getP_of_mem {k : List Char} {ps : List (List Char × Tree)} {v : Tree} (hn : (keysOf ps).Nodup)
    (h : (k, v) ∈ ps) : getP k ps = some v := by
  induction ps with
  | nil => simp at h
  | cons p r ih =>
    obtain ⟨k', v'⟩ := p
    simp only [keysOf, List.map_cons, List.nodup_cons] at hn
    simp only [List.mem_cons, Prod.mk.injEq] at h
    rcases h with ⟨rfl, rfl⟩ | h
    · simp [getP]
    · have : k ≠ k' := by
        rintro rfl
        exact hn.1 (List.mem_map.mpr ⟨(k, v), h, rfl⟩)
      simp only [getP, this, if_false]
      exact ih hn.2 h

/-- pigeonhole: a duplicate-free list included in a list that is no longer contains all of it -/
theorem subset_of_nodup_of_length_le {α} [DecidableEq α] :
    ∀ (xs ys : List α), xs.Nodup → (∀ a ∈ xs, a ∈ ys) → ys.length ≤ xs.length → ∀ b ∈ ys, b ∈ xs
  | [], ys, _, _, hl => by
    intro b hb
    have : ys = [] := List.eq_nil_of_length_eq_zero (by simpa using hl)
    subst this; simp at hb
  | a :: xs, ys, hn, hsub, hl => by
    intro b hb
    have ha : a ∈ ys := hsub a List.mem_cons_self
    obtain ⟨l1, l2, rfl⟩ := List.append_of_mem ha
    rw [List.nodup_cons] at hn
    have hsub' : ∀ c ∈ xs, c ∈ l1 ++ l2 := by
      intro c hc
      have hca : c ≠ a := fun h => hn.1 (h ▸ hc)
      have := hsub c (List.mem_cons_of_mem _ hc)
      simp only [List.mem_append, List.mem_cons] at this ⊢
      rcases this with h | h | h
      · exact Or.inl h
      · exact absurd h hca
      · exact Or.inr h
    have hl' : (l1 ++ l2).length ≤ xs.length := by
      simp only [List.length_append, List.length_cons] at hl ⊢
      omega
    have ih := subset_of_nodup_of_length_le xs (l1 ++ l2) hn.2 hsub' hl'
    simp only [List.mem_append, List.mem_cons] at hb
    rcases hb with h | h | h
    · exact List.mem_cons_of_mem _ (ih b (List.mem_append.mpr (Or.inl h)))
    · subst h; exact List.mem_cons_self
    · exact List.mem_cons_of_mem _ (ih b (List.mem_append.mpr (Or.inr h)))

/-! ### what the property loop says -/

theorem eqPL_true {xs ys : List (List Char × Tree)} :
    eqPL xs ys = .ok true ↔ ∀ k x, (k, x) ∈ xs → ∃ y, getP k ys = some y ∧ eqT x y = .ok true := by
  induction xs with
  | nil => simp [eqPL]
  | cons p r ih =>
    obtain ⟨k, x⟩ := p
    constructor
    · intro h k' x' hm
      simp only [eqPL] at h
      cases hg : getP k ys with
      | none => simp [hg] at h
      | some y =>
        simp only [hg] at h
        cases he : eqT x y with
        | ok b =>
          cases b with
          | true =>
            simp only [he] at h
            simp only [List.mem_cons, Prod.mk.injEq] at hm
            rcases hm with ⟨rfl, rfl⟩ | hm
            · exact ⟨y, hg, he⟩
            · exact ih.mp h k' x' hm
          | false => simp [he] at h
        | mismatch p lt rt => simp [he, EqRes.prefixPath] at h
        | bad => simp [he, EqRes.prefixPath] at h
        | timeout => simp [he, EqRes.prefixPath] at h
    · intro h
      obtain ⟨y, hg, he⟩ := h k x List.mem_cons_self
      simp only [eqPL, hg, he]
      exact ih.mpr fun k' x' hm => h k' x' (List.mem_cons_of_mem _ hm)

theorem eqPL_false {xs ys : List (List Char × Tree)} (h : eqPL xs ys = .ok false) :
    ∃ k x, (k, x) ∈ xs ∧ (getP k ys = none ∨ ∃ y, getP k ys = some y ∧ eqT x y = .ok false) := by
  induction xs with
  | nil => simp [eqPL] at h
  | cons p r ih =>
    obtain ⟨k, x⟩ := p
    simp only [eqPL] at h
    cases hg : getP k ys with
    | none => exact ⟨k, x, List.mem_cons_self, Or.inl hg⟩
    | some y =>
      simp only [hg] at h
      cases he : eqT x y with
      | ok b =>
        cases b with
        | true =>
          simp only [he] at h
          obtain ⟨k', x', hm, hh⟩ := ih h
          exact ⟨k', x', List.mem_cons_of_mem _ hm, hh⟩
        | false => exact ⟨k, x, List.mem_cons_self, Or.inr ⟨y, hg, he⟩⟩
      | mismatch p lt rt => simp [he, EqRes.prefixPath] at h
      | bad => simp [he, EqRes.prefixPath] at h
      | timeout => simp [he, EqRes.prefixPath] at h

/-! ### well-formed trees: distinct keys in every object (the invariant of `BTreeMap`); function-free trees -/

mutual
def Tree.KO : Tree → Prop
  | .list xs => xs.KO
  | .obj ps => (keysOf ps.toList).Nodup ∧ ps.KO
  | _ => True
def Trees.KO : Trees → Prop
  | .nil => True
  | .cons t r => t.KO ∧ r.KO
def Props.KO : Props → Prop
  | .nil => True
  | .cons _ t r => t.KO ∧ r.KO
end

mutual
def Tree.FnFree : Tree → Prop
  | .list xs => xs.FnFree
  | .obj ps => ps.FnFree
  | .fn _ => False
  | .builtin _ _ => False
  | _ => True
def Trees.FnFree : Trees → Prop
  | .nil => True
  | .cons t r => t.FnFree ∧ r.FnFree
def Props.FnFree : Props → Prop
  | .nil => True
  | .cons _ t r => t.FnFree ∧ r.FnFree
end

theorem Trees.KO_iff : ∀ xs : Trees, xs.KO ↔ ∀ t ∈ xs.toList, t.KO
  | .nil => by simp [Trees.KO, Trees.toList]
  | .cons t r => by simp [Trees.KO, Trees.toList, Trees.KO_iff r]

theorem Props.KO_iff : ∀ ps : Props, ps.KO ↔ ∀ k t, (k, t) ∈ ps.toList → t.KO
  | .nil => by simp [Props.KO, Props.toList]
  | .cons k t r => by
    simp only [Props.KO, Props.toList, Props.KO_iff r, List.mem_cons, Prod.mk.injEq]
    constructor
    · rintro ⟨h1, h2⟩ k' t' (⟨_, rfl⟩ | h)
      · exact h1
      · exact h2 k' t' h
    · intro h
      exact ⟨h k t (Or.inl ⟨rfl, rfl⟩), fun k' t' hm => h k' t' (Or.inr hm)⟩

theorem Trees.FnFree_iff : ∀ xs : Trees, xs.FnFree ↔ ∀ t ∈ xs.toList, t.FnFree
  | .nil => by simp [Trees.FnFree, Trees.toList]
  | .cons t r => by simp [Trees.FnFree, Trees.toList, Trees.FnFree_iff r]

theorem Props.FnFree_iff : ∀ ps : Props, ps.FnFree ↔ ∀ k t, (k, t) ∈ ps.toList → t.FnFree
  | .nil => by simp [Props.FnFree, Props.toList]
  | .cons k t r => by
    simp only [Props.FnFree, Props.toList, Props.FnFree_iff r, List.mem_cons, Prod.mk.injEq]
    constructor
    · rintro ⟨h1, h2⟩ k' t' (⟨_, rfl⟩ | h)
      · exact h1
      · exact h2 k' t' h
    · intro h
      exact ⟨h k t (Or.inl ⟨rfl, rfl⟩), fun k' t' hm => h k' t' (Or.inr hm)⟩

/-! ## the laws -/

/-- never two different booleans for the two operand orders -/
def SymAt (s : Tree) : Prop := ∀ t x y, s.KO → t.KO → eqT s t = .ok x → eqT t s = .ok y → x = y

theorem symL : ∀ (xs ys : List Tree) (i j : Nat) (x y : Bool),
    (∀ a ∈ xs, SymAt a) → (∀ a ∈ xs, a.KO) → (∀ b ∈ ys, b.KO) →
    eqL i xs ys = .ok x → eqL j ys xs = .ok y → x = y
  | [], ys, i, j, x, y, _, _, _, h1, h2 => by
    cases ys <;> simp [eqL] at h1 h2 <;> (subst h1; subst h2; rfl)
  | a :: xs, [], i, j, x, y, _, _, _, h1, h2 => by
    simp [eqL] at h1 h2; subst h1; subst h2; rfl
  | a :: xs, b :: ys, i, j, x, y, hs, hx, hy, h1, h2 => by
    simp only [eqL] at h1 h2
    have hsa := hs a List.mem_cons_self
    have ha := hx a List.mem_cons_self
    have hb := hy b List.mem_cons_self
    cases hab : eqT a b with
    | ok u =>
      cases hba : eqT b a with
      | ok v =>
        have huv : u = v := hsa b u v ha hb hab hba
        subst huv
        cases u with
        | true =>
          simp only [hab, hba] at h1 h2
          exact symL xs ys (i + 1) (j + 1) x y (fun c hc => hs c (List.mem_cons_of_mem _ hc))
            (fun c hc => hx c (List.mem_cons_of_mem _ hc)) (fun c hc => hy c (List.mem_cons_of_mem _ hc)) h1 h2
        | false =>
          simp only [hab, hba] at h1 h2
          cases h1; cases h2; rfl
      | mismatch p lt rt => simp [hba, EqRes.prefixPath] at h2
      | bad => simp [hba, EqRes.prefixPath] at h2
      | timeout => simp [hba, EqRes.prefixPath] at h2
    | mismatch p lt rt => simp [hab, EqRes.prefixPath] at h1
    | bad => simp [hab, EqRes.prefixPath] at h1
    | timeout => simp [hab, EqRes.prefixPath] at h1

/-- one direction of the object case: everything on the left is found equal on the right ⇒ the other order cannot
    answer `false` -/
theorem symPL_dir {xs ys : List (List Char × Tree)} {y : Bool}
    (hrel : ∀ k a b, (k, a) ∈ xs → (k, b) ∈ ys → ∀ u v, eqT a b = .ok u → eqT b a = .ok v → u = v)
    (hnx : (keysOf xs).Nodup) (hny : (keysOf ys).Nodup) (hlen : xs.length = ys.length)
    (h1 : eqPL xs ys = .ok true) (h2 : eqPL ys xs = .ok y) : y = true := by
  cases y with
  | true => rfl
  | false =>
    exfalso
    obtain ⟨k, b, hm, hh⟩ := eqPL_false h2
    have hall := eqPL_true.mp h1
    rcases hh with hnone | ⟨a, hg, he⟩
    · -- a key of ys missing in xs: impossible by counting
      have hsub : ∀ c ∈ keysOf xs, c ∈ keysOf ys := by
        intro c hc
        obtain ⟨⟨c', a'⟩, hm', rfl⟩ := List.mem_map.mp hc
        obtain ⟨b', hg', _⟩ := hall c' a' hm'
        exact List.mem_map.mpr ⟨(c', b'), getP_mem hg', rfl⟩
      have := subset_of_nodup_of_length_le (keysOf xs) (keysOf ys) hnx hsub (by simp [keysOf, hlen]) k
        (List.mem_map.mpr ⟨(k, b), hm, rfl⟩)
      exact (getP_none.mp hnone) this
    · have hma := getP_mem hg
      obtain ⟨b', hg', he'⟩ := hall k a hma
      have : b' = b := by
        have := getP_of_mem hny hm
        rw [this] at hg'
        exact (Option.some.inj hg').symm
      subst this
      have := hrel k a b' hma hm true false he' he
      exact Bool.noConfusion this

theorem eqT_sym_bool : ∀ s, SymAt s := by
  apply Tree.induct
  · intro t x y _ _ h1 h2
    cases t <;> simp [eqT] at h1 h2
    subst h1; subst h2; rfl
  · intro b t x y _ _ h1 h2
    cases t <;> simp [eqT] at h1 h2
    rw [← h1, ← h2, Bool.beq_comm]
  · intro n t x y _ _ h1 h2
    cases t <;> simp [eqT] at h1 h2
    rw [← h1, ← h2]
    exact BEq.comm
  · intro bs t x y _ _ h1 h2
    cases t <;> simp [eqT] at h1 h2
    rw [← h1, ← h2]
    exact BEq.comm
  · intro xs ih t x y hks hkt h1 h2
    cases t with
    | list ys =>
      rw [eqT_list] at h1 h2
      by_cases hl : xs.toList.length = ys.toList.length
      · simp only [hl, ne_eq, not_true_eq_false, if_false] at h1 h2
        simp only [Tree.KO] at hks hkt
        exact symL xs.toList ys.toList 0 0 x y ih ((Trees.KO_iff xs).mp hks) ((Trees.KO_iff ys).mp hkt) h1 h2
      · have hl' : ¬ ys.toList.length = xs.toList.length := fun h => hl h.symm
        simp only [hl, hl', ne_eq, not_false_eq_true, if_true] at h1 h2
        cases h1; cases h2; rfl
    | _ => simp [eqT] at h1
  · intro ps ih t x y hks hkt h1 h2
    cases t with
    | obj qs =>
      rw [eqT_obj] at h1 h2
      by_cases hl : ps.toList.length = qs.toList.length
      · simp only [hl, ne_eq, not_true_eq_false, if_false] at h1 h2
        simp only [Tree.KO] at hks hkt
        have hkp := (Props.KO_iff ps).mp hks.2
        have hkq := (Props.KO_iff qs).mp hkt.2
        have hrel : ∀ k a b, (k, a) ∈ ps.toList → (k, b) ∈ qs.toList → ∀ u v, eqT a b = .ok u → eqT b a = .ok v → u = v :=
          fun k a b ha hb u v hu hv => ih k a ha b u v (hkp k a ha) (hkq k b hb) hu hv
        have hrel' : ∀ k b a, (k, b) ∈ qs.toList → (k, a) ∈ ps.toList → ∀ u v, eqT b a = .ok u → eqT a b = .ok v → u = v :=
          fun k b a hb ha u v hu hv => (hrel k a b ha hb v u hv hu).symm
        cases x with
        | true =>
          have := symPL_dir hrel hks.1 hkt.1 hl h1 h2
          exact this.symm
        | false =>
          cases y with
          | false => rfl
          | true =>
            have := symPL_dir hrel' hkt.1 hks.1 hl.symm h2 h1
            exact this
      · have hl' : ¬ qs.toList.length = ps.toList.length := fun h => hl h.symm
        simp only [hl, hl', ne_eq, not_false_eq_true, if_true] at h1 h2
        cases h1; cases h2; rfl
    | _ => simp [eqT] at h1
  · intro a t x y _ _ h1 h2
    cases t <;> simp [eqT] at h1
  · intro n f t x y _ _ h1 h2
    cases t <;> simp [eqT] at h1

/-- reflexive on function-free trees -/
theorem reflL : ∀ (xs : List Tree) (i : Nat), (∀ a ∈ xs, eqT a a = .ok true) → eqL i xs xs = .ok true
  | [], i, _ => by simp [eqL]
  | a :: xs, i, h => by
    simp only [eqL, h a List.mem_cons_self]
    exact reflL xs (i + 1) fun c hc => h c (List.mem_cons_of_mem _ hc)

theorem eqT_refl : ∀ s : Tree, s.FnFree → s.KO → eqT s s = .ok true := by
  apply Tree.induct
  · intros; simp [eqT]
  · intros; simp [eqT]
  · intros; simp [eqT]
  · intros; simp [eqT]
  · intro xs ih hf hk
    rw [eqT_list]
    simp only [ne_eq, not_true_eq_false, if_false]
    simp only [Tree.FnFree, Tree.KO] at hf hk
    exact reflL xs.toList 0 fun a ha => ih a ha ((Trees.FnFree_iff xs).mp hf a ha) ((Trees.KO_iff xs).mp hk a ha)
  · intro ps ih hf hk
    rw [eqT_obj]
    simp only [ne_eq, not_true_eq_false, if_false]
    simp only [Tree.FnFree, Tree.KO] at hf hk
    exact eqPL_true.mpr fun k x hm =>
      ⟨x, getP_of_mem hk.1 hm, ih k x hm ((Props.FnFree_iff ps).mp hf k x hm) ((Props.KO_iff ps).mp hk.2 k x hm)⟩
  · intro a hf; simp [Tree.FnFree] at hf
  · intro n f hf; simp [Tree.FnFree] at hf

/-- transitive -/
def TransAt (s : Tree) : Prop := ∀ t u, eqT s t = .ok true → eqT t u = .ok true → eqT s u = .ok true

theorem eqL_true_cons {i : Nat} {a b : Tree} {xs ys : List Tree} (h : eqL i (a :: xs) (b :: ys) = .ok true) :
    eqT a b = .ok true ∧ eqL (i + 1) xs ys = .ok true := by
  simp only [eqL] at h
  cases hab : eqT a b with
  | ok u =>
    cases u with
    | true => simp only [hab] at h; exact ⟨rfl, h⟩
    | false => simp [hab] at h
  | mismatch p lt rt => simp [hab, EqRes.prefixPath] at h
  | bad => simp [hab, EqRes.prefixPath] at h
  | timeout => simp [hab, EqRes.prefixPath] at h

theorem transL : ∀ (xs ys zs : List Tree) (i j k : Nat), (∀ a ∈ xs, TransAt a) →
    xs.length = ys.length → ys.length = zs.length →
    eqL i xs ys = .ok true → eqL j ys zs = .ok true → eqL k xs zs = .ok true
  | [], _, _, _, _, _, _, _, _, _, _ => by simp [eqL]
  | a :: xs, [], _, _, _, _, _, h, _, _, _ => by simp at h
  | a :: xs, b :: ys, [], _, _, _, _, _, h, _, _ => by simp at h
  | a :: xs, b :: ys, c :: zs, i, j, k, ih, hl1, hl2, h1, h2 => by
    obtain ⟨hab, h1'⟩ := eqL_true_cons h1
    obtain ⟨hbc, h2'⟩ := eqL_true_cons h2
    simp only [eqL, ih a List.mem_cons_self b c hab hbc]
    exact transL xs ys zs (i + 1) (j + 1) (k + 1) (fun d hd => ih d (List.mem_cons_of_mem _ hd))
      (by simpa using hl1) (by simpa using hl2) h1' h2'

theorem eqT_list_true {xs ys : Trees} (h : eqT (.list xs) (.list ys) = .ok true) :
    xs.toList.length = ys.toList.length ∧ eqL 0 xs.toList ys.toList = .ok true := by
  rw [eqT_list] at h
  by_cases hl : xs.toList.length = ys.toList.length
  · simp only [hl, ne_eq, not_true_eq_false, if_false] at h; exact ⟨hl, h⟩
  · simp [hl] at h

theorem eqT_obj_true {xs ys : Props} (h : eqT (.obj xs) (.obj ys) = .ok true) :
    xs.toList.length = ys.toList.length ∧ eqPL xs.toList ys.toList = .ok true := by
  rw [eqT_obj] at h
  by_cases hl : xs.toList.length = ys.toList.length
  · simp only [hl, ne_eq, not_true_eq_false, if_false] at h; exact ⟨hl, h⟩
  · simp [hl] at h

theorem eqT_trans : ∀ s, TransAt s := by
  apply Tree.induct
  · intro t u h1 h2
    cases t <;> simp [eqT] at h1
    exact h2
  · intro b t u h1 h2
    cases t <;> simp [eqT] at h1
    subst h1; exact h2
  · intro n t u h1 h2
    cases t <;> simp [eqT] at h1
    subst h1; exact h2
  · intro bs t u h1 h2
    cases t <;> simp [eqT] at h1
    subst h1; exact h2
  · intro xs ih t u h1 h2
    cases t with
    | list ys =>
      cases u with
      | list zs =>
        obtain ⟨l1, e1⟩ := eqT_list_true h1
        obtain ⟨l2, e2⟩ := eqT_list_true h2
        rw [eqT_list]
        simp only [l1.trans l2, ne_eq, not_true_eq_false, if_false]
        exact transL xs.toList ys.toList zs.toList 0 0 0 ih l1 l2 e1 e2
      | _ => simp [eqT] at h2
    | _ => simp [eqT] at h1
  · intro ps ih t u h1 h2
    cases t with
    | obj qs =>
      cases u with
      | obj rs =>
        obtain ⟨l1, e1⟩ := eqT_obj_true h1
        obtain ⟨l2, e2⟩ := eqT_obj_true h2
        rw [eqT_obj]
        simp only [l1.trans l2, ne_eq, not_true_eq_false, if_false]
        refine eqPL_true.mpr fun k x hm => ?_
        obtain ⟨y, hg, he⟩ := eqPL_true.mp e1 k x hm
        obtain ⟨z, hg', he'⟩ := eqPL_true.mp e2 k y (getP_mem hg)
        exact ⟨z, hg', ih k x hm y z he he'⟩
      | _ => simp [eqT] at h2
    | _ => simp [eqT] at h1
  · intro a t u h1 _
    cases t <;> simp [eqT] at h1
  · intro n f t u h1 _
    cases t <;> simp [eqT] at h1

/-! ## values on the heap and their unfoldings -/

mutual
/-- `Unf σ v s`: `s` is the unfolding of `v` in the heap of `σ`.  A value has an unfolding iff no container is
    reachable from itself (the derivation is finite). -/
inductive Unf (σ : State) : Val → Tree → Prop
  | null : Unf σ .null .null
  | bool (b : Bool) : Unf σ (.bool b) (.bool b)
  | int (n : Int) : Unf σ (.int n) (.int n)
  | str (bs : Bytes) : Unf σ (.str bs) (.str bs)
  | list {a : Addr} {items : List SVal} {ts : Trees} : σ.getList a = some items → UnfL σ items ts → Unf σ (.list a) (.list ts)
  | obj {a : Addr} {props : ObjMap} {ps : Props} : σ.getObj a = some props → UnfP σ props ps → Unf σ (.obj a) (.obj ps)
  | fn (a : Addr) : Unf σ (.func a) (.fn a)
  | builtin (name : List Char) (f : BuiltinId) : Unf σ (.builtin name f) (.builtin name f)
inductive UnfL (σ : State) : List SVal → Trees → Prop
  | nil : UnfL σ [] .nil
  | cons {x : SVal} {xs : List SVal} {t : Tree} {ts : Trees} : Unf σ x.v t → UnfL σ xs ts → UnfL σ (x :: xs) (.cons t ts)
inductive UnfP (σ : State) : ObjMap → Props → Prop
  | nil : UnfP σ [] .nil
  | cons {k : List Char} {x : SVal} {xs : ObjMap} {t : Tree} {ts : Props} :
      Unf σ x.v t → UnfP σ xs ts → UnfP σ ((k, x) :: xs) (.cons k t ts)
end

theorem UnfL.length {σ : State} : ∀ {items : List SVal} {ts : Trees}, UnfL σ items ts → items.length = ts.toList.length
  | _, _, .nil => rfl
  | _, _, .cons _ h => by simp [Trees.toList, UnfL.length h]

theorem UnfP.length {σ : State} : ∀ {props : ObjMap} {ps : Props}, UnfP σ props ps → props.length = ps.toList.length
  | _, _, .nil => rfl
  | _, _, .cons _ h => by simp [Props.toList, UnfP.length h]

theorem UnfP.get {σ : State} (k : List Char) : ∀ {props : ObjMap} {ps : Props}, UnfP σ props ps →
    (objGet k props = none → getP k ps.toList = none) ∧
    (∀ y, objGet k props = some y → ∃ t, getP k ps.toList = some t ∧ Unf σ y.v t)
  | _, _, .nil => by simp [objGet, getP, Props.toList]
  | _, _, .cons (k := k') (x := x) (t := t) hx h => by
    have ih := UnfP.get k h
    by_cases hk : k = k'
    · subst hk
      simp only [objGet, getP, Props.toList, if_true]
      refine ⟨fun hn => (by cases hn), fun y hy => ?_⟩
      cases hy
      exact ⟨t, rfl, hx⟩
    · simp only [objGet, getP, Props.toList, hk, if_false]
      exact ih

/-- the unfolding is unique -/
theorem Unf.det {σ : State} : ∀ (s : Tree) (v : Val) (t : Tree), Unf σ v s → Unf σ v t → s = t := by
  intro s
  refine Tree.rec (motive_1 := fun s => ∀ v t, Unf σ v s → Unf σ v t → s = t)
    (motive_2 := fun ss => ∀ items ts, UnfL σ items ss → UnfL σ items ts → ss = ts)
    (motive_3 := fun ps => ∀ props qs, UnfP σ props ps → UnfP σ props qs → ps = qs)
    ?_ ?_ ?_ ?_ ?_ ?_ ?_ ?_ ?_ ?_ ?_ ?_ s
  · intro v t h1 h2; cases h1; cases h2; rfl
  · intro b v t h1 h2; cases h1; cases h2; rfl
  · intro n v t h1 h2; cases h1; cases h2; rfl
  · intro bs v t h1 h2; cases h1; cases h2; rfl
  · intro xs ih v t h1 h2
    cases h1 with
    | list hg hu =>
      cases h2 with
      | list hg' hu' =>
        rw [hg] at hg'
        cases hg'
        rw [ih _ _ hu hu']
  · intro ps ih v t h1 h2
    cases h1 with
    | obj hg hu =>
      cases h2 with
      | obj hg' hu' =>
        rw [hg] at hg'
        cases hg'
        rw [ih _ _ hu hu']
  · intro a v t h1 h2; cases h1; cases h2; rfl
  · intro n f v t h1 h2; cases h1; cases h2; rfl
  · intro items ts h1 h2; cases h1; cases h2; rfl
  · intro t r iht ihr items ts h1 h2
    cases h1 with
    | cons hx hxs =>
      cases h2 with
      | cons hx' hxs' => rw [iht _ _ hx hx', ihr _ _ hxs hxs']
  · intro props qs h1 h2; cases h1; cases h2; rfl
  · intro k t r iht ihr props qs h1 h2
    cases h1 with
    | cons hx hxs =>
      cases h2 with
      | cons hx' hxs' => rw [iht _ _ hx hx', ihr _ _ hxs hxs']

/-- `r` is a time-out or equals `r'` -/
def LeT (r r' : EqRes) : Prop := r = .timeout ∨ r = r'

theorem LeT.prefix {r r' : EqRes} (p : List Char) (h : LeT r r') : LeT (r.prefixPath p) (r'.prefixPath p) := by
  rcases h with h | h
  · subst h; exact Or.inl rfl
  · subst h; exact Or.inr rfl

/-- **the tie between `eq` on the heap and `eqT` on unfoldings**: with any fuel, `eqVal` either runs out of fuel
    or answers exactly what the structural comparison of the unfoldings answers — in particular the identity and
    length short-cuts, the addresses and the way the values were built do not change the answer. -/
theorem eq_link (σ : State) : ∀ n : Nat,
    (∀ a b s t, Unf σ a s → Unf σ b t → s.FnFree → s.KO → LeT (eqVal n σ a b) (eqT s t)) ∧
    (∀ i xs ys ss ts, UnfL σ xs ss → UnfL σ ys ts → ss.FnFree → ss.KO →
      LeT (eqItems n σ i xs ys) (eqL i ss.toList ts.toList)) ∧
    (∀ xs ys ps qs, UnfP σ xs ps → UnfP σ ys qs → ps.FnFree → ps.KO →
      LeT (eqProps n σ xs ys) (eqPL ps.toList qs.toList)) := by
  intro n
  induction n with
  | zero =>
    refine ⟨?_, ?_, ?_⟩
    · intros; left; simp [eqVal]
    · intros; left; simp [eqItems]
    · intros; left; simp [eqProps]
  | succ n ih =>
    obtain ⟨ihV, ihI, ihP⟩ := ih
    refine ⟨?_, ?_, ?_⟩
    · intro a b s t ha hb hf hk
      cases ha <;> cases hb
      all_goals first
        | (right; simp [eqVal, eqT, Val.kind, Tree.kind]; done)
        | skip
      · -- list / list
        rename_i x items ss hga hua y items' ts hgb hub
        by_cases hxy : x = y
        · subst hxy
          right
          rw [hga] at hgb; cases hgb
          have hdet := Unf.det (σ := σ) (.list ss) (.list x) (.list ts) (.list hga hua) (.list hga hub)
          cases hdet
          simp only [eqVal, if_true]
          exact (eqT_refl _ hf hk).symm
        · have hl1 := hua.length
          have hl2 := hub.length
          simp only [eqVal, hxy, if_false, hga, hgb]
          rw [eqT_list, ← hl1, ← hl2]
          by_cases hl : items.length = items'.length
          · simp only [hl, ne_eq, not_true_eq_false, if_false]
            simp only [Tree.FnFree, Tree.KO] at hf hk
            exact ihI 0 items items' ss ts hua hub hf hk
          · right; simp [hl]
      · -- object / object
        rename_i x props ps hga hua y props' qs hgb hub
        by_cases hxy : x = y
        · subst hxy
          right
          rw [hga] at hgb; cases hgb
          have hdet := Unf.det (σ := σ) (.obj ps) (.obj x) (.obj qs) (.obj hga hua) (.obj hga hub)
          cases hdet
          simp only [eqVal, if_true]
          exact (eqT_refl _ hf hk).symm
        · have hl1 := hua.length
          have hl2 := hub.length
          simp only [eqVal, hxy, if_false, hga, hgb]
          rw [eqT_obj, ← hl1, ← hl2]
          by_cases hl : props.length = props'.length
          · simp only [hl, ne_eq, not_true_eq_false, if_false]
            simp only [Tree.FnFree, Tree.KO] at hf hk
            exact ihP props props' ps qs hua hub hf hk.2
          · right; simp [hl]
    · intro i xs ys ss ts hx hy hf hk
      cases hx with
      | nil => right; simp [eqItems, eqL, Trees.toList]
      | cons hx0 hxs =>
        cases hy with
        | nil => right; simp [eqItems, eqL, Trees.toList]
        | cons hy0 hys =>
          rename_i x xs' t0 ts0 y ys' u0 us0
          simp only [Trees.FnFree, Trees.KO] at hf hk
          simp only [eqItems, eqL, Trees.toList]
          rcases ihV x.v y.v t0 u0 hx0 hy0 hf.1 hk.1 with h | h
          · left; rw [h]; rfl
          · rw [h]
            cases he : eqT t0 u0 with
            | ok b =>
              cases b with
              | true => exact ihI (i + 1) xs' ys' ts0 us0 hxs hys hf.2 hk.2
              | false => right; rfl
            | mismatch p lt rt => right; rfl
            | bad => right; rfl
            | timeout => right; rfl
    · intro xs ys ps qs hx hy hf hk
      cases hx with
      | nil => right; simp [eqProps, eqPL, Props.toList]
      | cons hx0 hxs =>
        rename_i k x xs' t0 ps0
        simp only [Props.FnFree, Props.KO] at hf hk
        simp only [eqProps, eqPL, Props.toList]
        have hget := UnfP.get k hy
        cases hg : objGet k ys with
        | none =>
          rw [hget.1 hg]
          right; rfl
        | some y =>
          obtain ⟨u, hgu, hyu⟩ := hget.2 y hg
          rw [hgu]
          simp only
          rcases ihV x.v y.v t0 u hx0 hyu hf.1 hk.1 with h | h
          · left; rw [h]; rfl
          · rw [h]
            cases he : eqT t0 u with
            | ok b =>
              cases b with
              | true => exact ihP xs' ys ps0 qs hxs hy hf.2 hk.2
              | false => right; rfl
            | mismatch p lt rt => right; rfl
            | bad => right; rfl
            | timeout => right; rfl

/-! ### totality: a boolean or a mismatch naming two kinds, nothing else -/

/-- an answer that is a boolean, or a mismatch naming two different kinds (or two functions) -/
def Good (r : EqRes) : Prop :=
  (∃ b, r = .ok b) ∨
  (∃ p k1 k2, r = .mismatch p (Gen.typeNameDiag k1) (Gen.typeNameDiag k2) ∧ (k1 ≠ k2 ∨ k1 = .Func ∨ k1 = .BuiltinFunc))

theorem Good.prefix {r : EqRes} (p : List Char) (h : Good r) : Good (r.prefixPath p) := by
  rcases h with ⟨b, rfl⟩ | ⟨q, k1, k2, rfl, hk⟩
  · exact Or.inl ⟨b, rfl⟩
  · exact Or.inr ⟨p ++ q, k1, k2, rfl, hk⟩

theorem goodL : ∀ (xs ys : List Tree) (i : Nat), (∀ a ∈ xs, ∀ t, Good (eqT a t)) → Good (eqL i xs ys)
  | [], ys, i, _ => by cases ys <;> exact Or.inl ⟨true, by simp [eqL]⟩
  | a :: xs, [], i, _ => Or.inl ⟨true, by simp [eqL]⟩
  | a :: xs, b :: ys, i, h => by
    simp only [eqL]
    have hab := h a List.mem_cons_self b
    cases he : eqT a b with
    | ok u =>
      cases u with
      | true => exact goodL xs ys (i + 1) fun c hc => h c (List.mem_cons_of_mem _ hc)
      | false => exact Or.inl ⟨false, rfl⟩
    | mismatch p lt rt => rw [he] at hab; exact hab.prefix _
    | bad => rw [he] at hab; exact hab.prefix _
    | timeout => rw [he] at hab; exact hab.prefix _

theorem goodPL : ∀ (xs ys : List (List Char × Tree)), (∀ k a, (k, a) ∈ xs → ∀ t, Good (eqT a t)) → Good (eqPL xs ys)
  | [], ys, _ => Or.inl ⟨true, by simp [eqPL]⟩
  | (k, a) :: xs, ys, h => by
    simp only [eqPL]
    cases hg : getP k ys with
    | none => exact Or.inl ⟨false, rfl⟩
    | some b =>
      have hab := h k a List.mem_cons_self b
      simp only
      cases he : eqT a b with
      | ok u =>
        cases u with
        | true => exact goodPL xs ys fun k' c hc => h k' c (List.mem_cons_of_mem _ hc)
        | false => exact Or.inl ⟨false, rfl⟩
      | mismatch p lt rt => rw [he] at hab; exact hab.prefix _
      | bad => rw [he] at hab; exact hab.prefix _
      | timeout => rw [he] at hab; exact hab.prefix _

theorem eqT_good : ∀ s t : Tree, Good (eqT s t) := by
  have mm : ∀ s t : Tree, (s.kind ≠ t.kind ∨ s.kind = .Func ∨ s.kind = .BuiltinFunc) → Good (eqT s t) := by
    intro s t h
    rw [eqT_mismatch s t h]
    exact Or.inr ⟨[], s.kind, t.kind, rfl, h⟩
  apply Tree.induct
  · intro t; cases t <;> first | exact Or.inl ⟨_, by simp [eqT]; rfl⟩ | exact mm _ _ (by simp [Tree.kind])
  · intro b t; cases t <;> first | exact Or.inl ⟨_, by simp [eqT]; rfl⟩ | exact mm _ _ (by simp [Tree.kind])
  · intro n t; cases t <;> first | exact Or.inl ⟨_, by simp [eqT]; rfl⟩ | exact mm _ _ (by simp [Tree.kind])
  · intro bs t; cases t <;> first | exact Or.inl ⟨_, by simp [eqT]; rfl⟩ | exact mm _ _ (by simp [Tree.kind])
  · intro xs ih t
    cases t with
    | list ys =>
      rw [eqT_list]
      split
      · exact Or.inl ⟨false, rfl⟩
      · exact goodL _ _ 0 ih
    | _ => exact mm _ _ (by simp [Tree.kind])
  · intro ps ih t
    cases t with
    | obj qs =>
      rw [eqT_obj]
      split
      · exact Or.inl ⟨false, rfl⟩
      · exact goodPL _ _ ih
    | _ => exact mm _ _ (by simp [Tree.kind])
  · intro a t; exact mm _ _ (by simp [Tree.kind])
  · intro n f t; exact mm _ _ (by simp [Tree.kind])

/-! ### `true` only on equal trees (objects in canonical key order, as `BTreeMap` keeps them) -/

theorem keyLt_irrefl : ∀ a : List Char, keyLt a a = false
  | [] => rfl
  | c :: r => by simp [keyLt, keyLt_irrefl r]

theorem keyLt_asymm : ∀ a b : List Char, keyLt a b = true → keyLt b a = false
  | [], [], h => by simp [keyLt] at h
  | [], _ :: _, _ => rfl
  | _ :: _, [], h => by simp [keyLt] at h
  | c :: r, d :: q, h => by
    simp only [keyLt] at h ⊢
    by_cases h1 : c.toNat < d.toNat
    · have : ¬ d.toNat < c.toNat := by omega
      simp [this, h1]
    · by_cases h2 : d.toNat < c.toNat
      · simp [h1, h2] at h
      · simp only [h1, h2, if_false] at h ⊢
        exact keyLt_asymm r q h

/-- the keys of a list of entries are strictly increasing -/
def KeysSorted (ps : List (List Char × Tree)) : Prop := (keysOf ps).Pairwise (fun a b => keyLt a b = true)

theorem KeysSorted.nodup {ps : List (List Char × Tree)} (h : KeysSorted ps) : (keysOf ps).Nodup := by
  unfold KeysSorted at h
  refine List.Pairwise.imp ?_ h
  intro a b hab he
  subst he
  rw [keyLt_irrefl] at hab
  cases hab

mutual
def Tree.Canon : Tree → Prop
  | .list xs => xs.Canon
  | .obj ps => KeysSorted ps.toList ∧ ps.Canon
  | _ => True
def Trees.Canon : Trees → Prop
  | .nil => True
  | .cons t r => t.Canon ∧ r.Canon
def Props.Canon : Props → Prop
  | .nil => True
  | .cons _ t r => t.Canon ∧ r.Canon
end

theorem Trees.Canon_iff : ∀ xs : Trees, xs.Canon ↔ ∀ t ∈ xs.toList, t.Canon
  | .nil => by simp [Trees.Canon, Trees.toList]
  | .cons t r => by simp [Trees.Canon, Trees.toList, Trees.Canon_iff r]

theorem Props.Canon_iff : ∀ ps : Props, ps.Canon ↔ ∀ k t, (k, t) ∈ ps.toList → t.Canon
  | .nil => by simp [Props.Canon, Props.toList]
  | .cons k t r => by
    simp only [Props.Canon, Props.toList, Props.Canon_iff r, List.mem_cons, Prod.mk.injEq]
    constructor
    · rintro ⟨h1, h2⟩ k' t' (⟨_, rfl⟩ | h)
      · exact h1
      · exact h2 k' t' h
    · intro h
      exact ⟨h k t (Or.inl ⟨rfl, rfl⟩), fun k' t' hm => h k' t' (Or.inr hm)⟩

theorem Trees.toList_inj : ∀ xs ys : Trees, xs.toList = ys.toList → xs = ys
  | .nil, .nil, _ => rfl
  | .nil, .cons _ _, h => by simp [Trees.toList] at h
  | .cons _ _, .nil, h => by simp [Trees.toList] at h
  | .cons a xs, .cons b ys, h => by
    simp only [Trees.toList, List.cons.injEq] at h
    rw [h.1, Trees.toList_inj xs ys h.2]

theorem Props.toList_inj : ∀ xs ys : Props, xs.toList = ys.toList → xs = ys
  | .nil, .nil, _ => rfl
  | .nil, .cons _ _ _, h => by simp [Props.toList] at h
  | .cons _ _ _, .nil, h => by simp [Props.toList] at h
  | .cons k a xs, .cons l b ys, h => by
    simp only [Props.toList, List.cons.injEq, Prod.mk.injEq] at h
    rw [h.1.1, h.1.2, Props.toList_inj xs ys h.2]

/-- two key-sorted entry lists with the same members are the same list -/
theorem sorted_ext : ∀ (xs ys : List (List Char × Tree)), KeysSorted xs → KeysSorted ys →
    (∀ p ∈ xs, p ∈ ys) → (∀ p ∈ ys, p ∈ xs) → xs = ys
  | [], [], _, _, _, _ => rfl
  | [], q :: ys, _, _, _, h => by have := h q List.mem_cons_self; simp at this
  | p :: xs, [], _, _, h, _ => by have := h p List.mem_cons_self; simp at this
  | p :: xs, q :: ys, hx, hy, h1, h2 => by
    simp only [KeysSorted, keysOf, List.map_cons, List.pairwise_cons] at hx hy
    have hpq : p = q := by
      have hp := h1 p List.mem_cons_self
      have hq := h2 q List.mem_cons_self
      simp only [List.mem_cons] at hp hq
      rcases hp with hp | hp
      · exact hp
      · rcases hq with hq | hq
        · exact hq.symm
        · have a1 := hy.1 p.1 (List.mem_map.mpr ⟨p, hp, rfl⟩)
          have a2 := hx.1 q.1 (List.mem_map.mpr ⟨q, hq, rfl⟩)
          rw [keyLt_asymm _ _ a1] at a2
          cases a2
    subst hpq
    have tl : ∀ (zs ws : List (List Char × Tree)),
        (∀ a' ∈ List.map Prod.fst zs, keyLt p.1 a' = true) → (∀ r ∈ p :: zs, r ∈ p :: ws) → ∀ r ∈ zs, r ∈ ws := by
      intro zs ws hz hsub r hr
      have := hsub r (List.mem_cons_of_mem _ hr)
      simp only [List.mem_cons] at this
      rcases this with rfl | h
      · have := hz r.1 (List.mem_map.mpr ⟨r, hr, rfl⟩)
        rw [keyLt_irrefl] at this
        cases this
      · exact h
    rw [sorted_ext xs ys hx.2 hy.2 (tl xs ys hx.1 h1) (tl ys xs hy.1 h2)]

/-- `eqT s t = true` on canonical trees forces `s = t` -/
def TrueEqAt (s : Tree) : Prop := ∀ t, s.Canon → t.Canon → eqT s t = .ok true → s = t

theorem trueEqL : ∀ (xs ys : List Tree) (i : Nat), (∀ a ∈ xs, TrueEqAt a) → (∀ a ∈ xs, a.Canon) → (∀ b ∈ ys, b.Canon) →
    xs.length = ys.length → eqL i xs ys = .ok true → xs = ys
  | [], [], _, _, _, _, _, _ => rfl
  | [], _ :: _, _, _, _, _, h, _ => by simp at h
  | _ :: _, [], _, _, _, _, h, _ => by simp at h
  | a :: xs, b :: ys, i, ih, hx, hy, hl, h => by
    obtain ⟨hab, h'⟩ := eqL_true_cons h
    have := ih a List.mem_cons_self b (hx a List.mem_cons_self) (hy b List.mem_cons_self) hab
    subst this
    rw [trueEqL xs ys (i + 1) (fun c hc => ih c (List.mem_cons_of_mem _ hc)) (fun c hc => hx c (List.mem_cons_of_mem _ hc))
      (fun c hc => hy c (List.mem_cons_of_mem _ hc)) (by simpa using hl) h']

theorem eqT_true_eq : ∀ s, TrueEqAt s := by
  apply Tree.induct
  · intro t _ _ h; cases t <;> simp [eqT] at h; rfl
  · intro b t _ _ h; cases t <;> simp [eqT] at h; rw [h]
  · intro n t _ _ h; cases t <;> simp [eqT] at h; rw [h]
  · intro bs t _ _ h; cases t <;> simp [eqT] at h; rw [h]
  · intro xs ih t hs ht h
    cases t with
    | list ys =>
      obtain ⟨hl, he⟩ := eqT_list_true h
      simp only [Tree.Canon] at hs ht
      rw [Trees.toList_inj xs ys (trueEqL _ _ 0 ih ((Trees.Canon_iff xs).mp hs) ((Trees.Canon_iff ys).mp ht) hl he)]
    | _ => simp [eqT] at h
  · intro ps ih t hs ht h
    cases t with
    | obj qs =>
      obtain ⟨hl, he⟩ := eqT_obj_true h
      simp only [Tree.Canon] at hs ht
      have hall := eqPL_true.mp he
      have hsub : ∀ p ∈ ps.toList, p ∈ qs.toList := by
        intro p hp
        obtain ⟨k, x⟩ := p
        obtain ⟨y, hg, hxy⟩ := hall k x hp
        have hm := getP_mem hg
        have := ih k x hp y ((Props.Canon_iff ps).mp hs.2 k x hp) ((Props.Canon_iff qs).mp ht.2 k y hm) hxy
        subst this
        exact hm
      have hsub' : ∀ p ∈ qs.toList, p ∈ ps.toList := by
        -- by counting on the keys, then the value found under the key is the one in `ps`
        intro p hp
        obtain ⟨k, y⟩ := p
        have hk : k ∈ keysOf ps.toList :=
          subset_of_nodup_of_length_le (keysOf ps.toList) (keysOf qs.toList) hs.1.nodup
            (fun c hc => by
              obtain ⟨p', hp', rfl⟩ := List.mem_map.mp hc
              exact List.mem_map.mpr ⟨p', hsub p' hp', rfl⟩)
            (by simp [keysOf, hl]) k (List.mem_map.mpr ⟨(k, y), hp, rfl⟩)
        obtain ⟨⟨k', x⟩, hx, hkx⟩ := List.mem_map.mp hk
        simp only at hkx
        subst hkx
        have hxq := hsub _ hx
        have e1 := getP_of_mem ht.1.nodup hxq
        have e2 := getP_of_mem ht.1.nodup hp
        rw [e1] at e2
        cases e2
        exact hx
      rw [Props.toList_inj ps qs (sorted_ext _ _ hs.1 ht.1 hsub hsub')]
    | _ => simp [eqT] at h
  · intro a t _ _ h; cases t <;> simp [eqT] at h
  · intro n f t _ _ h; cases t <;> simp [eqT] at h

theorem Tree.Canon.KO : ∀ s : Tree, s.Canon → s.KO := by
  apply Tree.induct
  · intros; trivial
  · intros; trivial
  · intros; trivial
  · intros; trivial
  · intro xs ih h
    simp only [Tree.Canon, Tree.KO] at h ⊢
    exact (Trees.KO_iff xs).mpr fun t ht => ih t ht ((Trees.Canon_iff xs).mp h t ht)
  · intro ps ih h
    simp only [Tree.Canon, Tree.KO] at h ⊢
    exact ⟨h.1.nodup, (Props.KO_iff ps).mpr fun k t ht => ih k t ht ((Props.Canon_iff ps).mp h.2 k t ht)⟩
  · intros; trivial
  · intros; trivial

end Seed.C10
