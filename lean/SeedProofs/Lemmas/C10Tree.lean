/-
  Lemmas/C10Tree.lean — the inductive unfolding of acyclic values and the laws of `==` on unfoldings.
-/
import SeedModel.Prim
import SeedModel.Run
namespace Seed.C10
open Seed

end Seed.C10
