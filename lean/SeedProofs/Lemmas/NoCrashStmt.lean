/-
  NoCrashStmt.lean — G4, part 3c: the induction step of `SafeAll` for the statement-level functions
  (`evalBlock`, `declareAll`, `evalStmts`, `evalStmt`, `evalIf`, `evalWhile`, `evalFor`).
-/
import SeedProofs.Lemmas.NoCrashDefs
namespace Seed

theorem ScOK.push {σ : State} {a : Addr} {sc : List Addr} (ha : σ.tagAt a = some .scope) (hs : ScTags σ sc) : ScOK σ (a :: sc) := by
  refine ⟨by simp, fun x hx => ?_⟩
  rcases List.mem_cons.1 hx with rfl | hx
  · exact ha
  · exact hs x hx

theorem safe_evalBlock {n : Nat} (ih : SafeAll n) (σ : State) (sc : List Addr) (bs : List (Expr × SVal)) (stmts : List Stmt)
    (hw : WF σ) (hs : ScTags σ sc) (hb : BindsOK σ bs) : Safe EscOK σ (evalBlock (n + 1) σ sc bs stmts) := by
  unfold evalBlock
  rcases h : σ.alloc (.scope []) with ⟨a, σ1⟩
  obtain ⟨hw1, he1, ht1⟩ := alloc_spec h hw (c := .scope []) (fun _ h => by cases h)
  have hs1 : ScOK σ1 (a :: sc) := ScOK.push ht1 (hs.mono he1)
  dsimp only []
  refine Safe.weaken ?_ he1
  apply Safe.bind (ih.declareAll _ _ _ hw1 hs1 (hb.mono he1)); intro _ σ2 hw2 he2 _
  exact ih.evalStmts _ _ _ hw2 (hs1.mono he2)

theorem safe_declareAll {n : Nat} (ih : SafeAll n) (σ : State) (sc : List Addr) (bs : List (Expr × SVal))
    (hw : WF σ) (hs : ScOK σ sc) (hb : BindsOK σ bs) : Safe Triv σ (declareAll (n + 1) σ sc bs) := by
  unfold declareAll
  cases bs with
  | nil => exact Safe.ok_same hw trivial
  | cons b r =>
    obtain ⟨lhs, rhs⟩ := b
    dsimp only []
    apply Safe.bind (ih.bindNext _ _ _ _ _ _ _ hw hs hb.head); intro _ σ1 hw1 he1 _
    exact ih.declareAll _ _ _ hw1 (hs.mono he1) (hb.tail.mono he1)

theorem safe_evalStmts {n : Nat} (ih : SafeAll n) (σ : State) (sc : List Addr) (stmts : List Stmt)
    (hw : WF σ) (hs : ScOK σ sc) : Safe EscOK σ (evalStmts (n + 1) σ sc stmts) := by
  unfold evalStmts
  cases stmts with
  | nil => exact Safe.ok_same hw trivial
  | cons st r =>
    dsimp only []
    apply Safe.bind (ih.evalStmt _ _ _ hw hs); intro esc σ1 hw1 he1 hesc
    split
    · exact ih.evalStmts _ _ _ hw1 (hs.mono he1)
    · exact Safe.ok_same hw1 hesc

theorem safe_evalStmt {n : Nat} (ih : SafeAll n) (σ : State) (sc : List Addr) (st : Stmt)
    (hw : WF σ) (hs : ScOK σ sc) : Safe EscOK σ (evalStmt (n + 1) σ sc st) := by
  unfold evalStmt
  cases st with
  | Block b => exact ih.evalBlock _ _ _ _ hw hs.2 BindsOK.nil
  | Expr e =>
    dsimp only []
    apply Safe.bind (ih.evalExpr _ _ _ hw hs); intro _ σ1 hw1 he1 _
    exact Safe.ok_same hw1 trivial
  | Declare lhs rhs =>
    dsimp only []
    apply Safe.bind (ih.evalExpr _ _ _ hw hs); intro v σ1 hw1 he1 hv
    apply Safe.bind (ih.bindNext _ _ _ _ _ _ _ hw1 (hs.mono he1) hv); intro _ σ2 hw2 he2 _
    exact Safe.ok_same hw2 trivial
  | Assign lhs rhs =>
    dsimp only []
    apply Safe.bind (ih.evalExpr _ _ _ hw hs); intro v σ1 hw1 he1 hv
    apply Safe.bind (ih.bindNext _ _ _ _ _ _ _ hw1 (hs.mono he1) hv); intro _ σ2 hw2 he2 _
    exact Safe.ok_same hw2 trivial
  | OpAssign lhs op opLoc rhs =>
    dsimp only []
    apply Safe.bind (ih.evalExpr _ _ _ hw hs); intro v σ1 hw1 he1 hv
    apply Safe.bind (ih.bindNext _ _ _ _ _ _ _ hw1 (hs.mono he1) hv); intro _ σ2 hw2 he2 _
    exact Safe.ok_same hw2 trivial
  | If branches els => exact ih.evalIf _ _ _ _ hw hs
  | While cond stmts => exact ih.evalWhile _ _ _ _ hw hs
  | For lhs iter stmts =>
    dsimp only []
    apply Safe.bind (ih.evalExpr _ _ _ hw hs); intro it σ1 hw1 he1 hit
    split
    · exact absurd (by assumption) (toPairs_ne_none hit.1)
    · exact Safe.errAt
    · exact ih.evalFor _ _ _ _ _ hw1 (hs.mono he1) (toPairs_ok hw1 (by assumption))
  | Break l => exact Safe.ok_same hw trivial
  | Continue l => exact Safe.ok_same hw trivial
  | Func name nameLoc args collect stmts =>
    dsimp only []
    apply Safe.bind (validateArgsRes_safe n args hw); intro _ σ0 hw0 he0 _
    rcases h : σ0.alloc (.func ⟨some name, args, collect, stmts, sc⟩) with ⟨a, σ1⟩
    obtain ⟨hw1, he1, ht1⟩ := alloc_spec h hw0 (c := .func _) (hs.mono he0)
    dsimp only []
    refine Safe.weaken ?_ he1
    apply Safe.bind (bindNextName_safe n _ _ _ _ _ hw1 (hs.mono (he0.trans he1)) (SValOK.plain (v := .func a) ht1)); intro _ σ2 hw2 he2 _
    exact Safe.ok_same hw2 trivial
  | Return l e =>
    dsimp only []
    apply Safe.bind (ih.evalExpr _ _ _ hw hs); intro v σ1 hw1 he1 hv
    exact Safe.ok_same hw1 hv

theorem safe_evalIf {n : Nat} (ih : SafeAll n) (σ : State) (sc : List Addr) (branches : List Branch) (els : Option (List Stmt))
    (hw : WF σ) (hs : ScOK σ sc) : Safe EscOK σ (evalIf (n + 1) σ sc branches els) := by
  unfold evalIf
  cases branches with
  | nil =>
    cases els with
    | none => exact Safe.ok_same hw trivial
    | some stmts => exact ih.evalBlock _ _ _ _ hw hs.2 BindsOK.nil
  | cons br r =>
    obtain ⟨cond, stmts⟩ := br
    dsimp only []
    apply Safe.bind (ih.evalToBool _ _ _ _ hw hs); intro b σ1 hw1 he1 _
    split
    · exact ih.evalBlock _ _ _ _ hw1 (hs.mono he1).2 BindsOK.nil
    · exact ih.evalIf _ _ _ _ hw1 (hs.mono he1)

theorem safe_evalWhile {n : Nat} (ih : SafeAll n) (σ : State) (sc : List Addr) (cond : Expr) (stmts : List Stmt)
    (hw : WF σ) (hs : ScOK σ sc) : Safe EscOK σ (evalWhile (n + 1) σ sc cond stmts) := by
  unfold evalWhile
  apply Safe.bind (ih.evalToBool _ _ _ _ hw hs); intro b σ1 hw1 he1 _
  split
  · exact Safe.ok_same hw1 trivial
  · apply Safe.bind (ih.evalBlock _ _ _ _ hw1 (hs.mono he1).2 BindsOK.nil); intro esc σ2 hw2 he2 hesc
    have hs2 := hs.mono (he1.trans he2)
    cases esc with
    | none => exact ih.evalWhile _ _ _ _ hw2 hs2
    | brk l => exact Safe.ok_same hw2 trivial
    | cont l => exact ih.evalWhile _ _ _ _ hw2 hs2
    | ret v l => exact Safe.ok_same hw2 hesc

theorem PairsOK.head {σ : State} {p : SVal × SVal} {ps : List (SVal × SVal)} (h : PairsOK σ (p :: ps)) :
    SValOK σ p.1 ∧ SValOK σ p.2 := h p List.mem_cons_self
theorem PairsOK.tail {σ : State} {p : SVal × SVal} {ps : List (SVal × SVal)} (h : PairsOK σ (p :: ps)) : PairsOK σ ps :=
  fun x hx => h x (List.mem_cons_of_mem _ hx)

theorem safe_evalFor {n : Nat} (ih : SafeAll n) (σ : State) (sc : List Addr) (lhs : Expr) (pairs : List (SVal × SVal))
    (stmts : List Stmt) (hw : WF σ) (hs : ScOK σ sc) (hp : PairsOK σ pairs) :
    Safe EscOK σ (evalFor (n + 1) σ sc lhs pairs stmts) := by
  unfold evalFor
  cases pairs with
  | nil => exact Safe.ok_same hw trivial
  | cons p r =>
    obtain ⟨k, v⟩ := p
    dsimp only []
    rcases h : σ.alloc (.list [k, v]) with ⟨pa, σ1⟩
    obtain ⟨hw1, he1, ht1⟩ := alloc_spec h hw (c := .list [k, v]) (ListOK.cons hp.head.1 (ListOK.cons hp.head.2 ListOK.nil))
    dsimp only []
    refine Safe.weaken ?_ he1
    apply Safe.bind (ih.evalBlock _ _ _ _ hw1 (hs.mono he1).2 (BindsOK.cons (SValOK.plain (v := .list pa) ht1) BindsOK.nil))
    intro esc σ2 hw2 he2 hesc
    have hs2 := hs.mono (he1.trans he2)
    have hp2 := hp.tail.mono (he1.trans he2)
    cases esc with
    | none => exact ih.evalFor _ _ _ _ _ hw2 hs2 hp2
    | brk l => exact Safe.ok_same hw2 trivial
    | cont l => exact ih.evalFor _ _ _ _ _ hw2 hs2 hp2
    | ret v l => exact Safe.ok_same hw2 hesc

end Seed
