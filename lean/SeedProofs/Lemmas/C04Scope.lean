/-
  Lemmas/C04Scope.lean — heap and scope-chain lemmas shared by C04, C05 and C20:
  `State.alloc` / `State.set` frame facts, `scopeLookup` / `scopeSetVal`, and the three chain walks
  `scopeGet`, `scopeAssign`, `scopeDeclare`.
-/
import SeedModel.Eval
namespace Seed
namespace ScopeL

/-! ### heap: alloc / set -/

@[simp] theorem alloc_fst (σ : State) (c : Cell) : (σ.alloc c).1 = σ.heap.size := rfl
@[simp] theorem alloc_out (σ : State) (c : Cell) : (σ.alloc c).2.out = σ.out := rfl
@[simp] theorem alloc_size (σ : State) (c : Cell) : (σ.alloc c).2.heap.size = σ.heap.size + 1 := by
  simp [State.alloc]

theorem alloc_old (σ : State) (c : Cell) {b : Addr} (h : b < σ.heap.size) :
    (σ.alloc c).2.heap[b]? = σ.heap[b]? := by
  simp only [State.alloc, Array.getElem?_push]
  rw [if_neg (Nat.ne_of_lt h)]

theorem alloc_new (σ : State) (c : Cell) : (σ.alloc c).2.heap[σ.heap.size]? = some c := by
  simp [State.alloc]

@[simp] theorem set_out (σ : State) (a : Addr) (c : Cell) : (σ.set a c).out = σ.out := rfl
@[simp] theorem set_size (σ : State) (a : Addr) (c : Cell) : (σ.set a c).heap.size = σ.heap.size := by
  simp [State.set]

theorem set_other (σ : State) (a : Addr) (c : Cell) {b : Addr} (h : b ≠ a) :
    (σ.set a c).heap[b]? = σ.heap[b]? := by
  simp [State.set, Ne.symm h]

theorem set_same (σ : State) (a : Addr) (c : Cell) (h : a < σ.heap.size) :
    (σ.set a c).heap[a]? = some c := by
  simp [State.set, h]

theorem set_same_oob (σ : State) (a : Addr) (c : Cell) (h : ¬ a < σ.heap.size) : σ.set a c = σ := by
  simp [State.set, Array.setIfInBounds, h]

theorem getScope_lt {σ : State} {a : Addr} {m : ScopeMap} (h : σ.getScope a = some m) : a < σ.heap.size := by
  unfold State.getScope at h
  cases hc : σ.heap[a]? with
  | none => simp [hc] at h
  | some c => exact (Array.getElem?_eq_some_iff.mp hc).1

theorem getScope_heap {σ : State} {a : Addr} {m : ScopeMap} :
    σ.getScope a = some m ↔ σ.heap[a]? = some (.scope m) := by
  unfold State.getScope
  cases hc : σ.heap[a]? with
  | none => simp
  | some c => cases c <;> simp

theorem getList_heap {σ : State} {a : Addr} {xs : List SVal} :
    σ.getList a = some xs ↔ σ.heap[a]? = some (.list xs) := by
  unfold State.getList
  cases hc : σ.heap[a]? with
  | none => simp
  | some c => cases c <;> simp

theorem getObj_heap {σ : State} {a : Addr} {m : ObjMap} :
    σ.getObj a = some m ↔ σ.heap[a]? = some (.obj m) := by
  unfold State.getObj
  cases hc : σ.heap[a]? with
  | none => simp
  | some c => cases c <;> simp

/-- the four cell readers only look at `heap[a]?` -/
theorem getScope_congr {σ σ' : State} {a : Addr} (h : σ'.heap[a]? = σ.heap[a]?) : σ'.getScope a = σ.getScope a := by
  unfold State.getScope; rw [h]
theorem getList_congr {σ σ' : State} {a : Addr} (h : σ'.heap[a]? = σ.heap[a]?) : σ'.getList a = σ.getList a := by
  unfold State.getList; rw [h]
theorem getObj_congr {σ σ' : State} {a : Addr} (h : σ'.heap[a]? = σ.heap[a]?) : σ'.getObj a = σ.getObj a := by
  unfold State.getObj; rw [h]
theorem getFunc_congr {σ σ' : State} {a : Addr} (h : σ'.heap[a]? = σ.heap[a]?) : σ'.getFunc a = σ.getFunc a := by
  unfold State.getFunc; rw [h]

theorem getScope_set_same {σ : State} {a : Addr} (m : ScopeMap) (h : a < σ.heap.size) :
    (σ.set a (.scope m)).getScope a = some m :=
  getScope_heap.mpr (set_same σ a _ h)

theorem getScope_set_other {σ : State} {a b : Addr} (c : Cell) (h : b ≠ a) :
    (σ.set a c).getScope b = σ.getScope b :=
  getScope_congr (set_other σ a c h)

/-! ### one scope map -/

theorem lookup_setVal_same {k : List Char} {v w : SVal} {l : Loc} :
    ∀ {m : ScopeMap}, scopeLookup k m = some (w, l) → scopeLookup k (scopeSetVal k v m) = some (v, l)
  | [], h => by simp [scopeLookup] at h
  | (k', v', l') :: r, h => by
    unfold scopeLookup at h
    unfold scopeSetVal
    by_cases hk : k = k'
    · simp only [hk, if_true] at h ⊢
      unfold scopeLookup; simp only [if_true]
      cases h; rfl
    · simp only [hk, if_false] at h ⊢
      unfold scopeLookup; simp only [hk, if_false]
      exact lookup_setVal_same h

theorem lookup_setVal_other {k y : List Char} {v : SVal} (hy : y ≠ k) :
    ∀ (m : ScopeMap), scopeLookup y (scopeSetVal k v m) = scopeLookup y m
  | [] => rfl
  | (k', v', l') :: r => by
    unfold scopeSetVal
    by_cases hk : k = k'
    · simp only [hk, if_true]
      unfold scopeLookup
      have : y ≠ k' := hk ▸ hy
      simp only [this, if_false]
    · simp only [hk, if_false]
      unfold scopeLookup
      by_cases hy' : y = k'
      · simp only [hy', if_true]
      · simp only [hy', if_false]; exact lookup_setVal_other hy r

/-- assignment never adds or removes a name -/
theorem lookup_setVal_isSome (k y : List Char) (v : SVal) (m : ScopeMap) :
    (scopeLookup y (scopeSetVal k v m)).isSome = (scopeLookup y m).isSome := by
  by_cases hy : y = k
  · subst hy
    cases h : scopeLookup y m with
    | none =>
      have : ∀ m : ScopeMap, scopeLookup y m = none → scopeLookup y (scopeSetVal y v m) = none := by
        intro m
        induction m with
        | nil => intro _; rfl
        | cons p r ih =>
          obtain ⟨k', v', l'⟩ := p
          intro h
          unfold scopeLookup at h
          by_cases hk : y = k'
          · simp [hk] at h
          · simp only [hk, if_false] at h
            unfold scopeSetVal; simp only [hk, if_false]
            unfold scopeLookup; simp only [hk, if_false]
            exact ih h
      rw [this m h]
    | some p => obtain ⟨w, l⟩ := p; rw [lookup_setVal_same h]; rfl
  · rw [lookup_setVal_other hy]

theorem lookup_cons_same (k : List Char) (v : SVal) (l : Loc) (m : ScopeMap) :
    scopeLookup k ((k, v, l) :: m) = some (v, l) := by
  unfold scopeLookup; simp

theorem lookup_cons_other {k y : List Char} (hy : y ≠ k) (v : SVal) (l : Loc) (m : ScopeMap) :
    scopeLookup y ((k, v, l) :: m) = scopeLookup y m := by
  conv => lhs; unfold scopeLookup
  simp [hy]

/-! ### `scopeGet` -/

/-- the scopes in `pre` are scope cells that do not hold `k` -/
def Skips (σ : State) (pre : List Addr) (k : List Char) : Prop :=
  ∀ b ∈ pre, ∃ mb, σ.getScope b = some mb ∧ scopeLookup k mb = none

theorem scopeGet_cons (σ : State) (a : Addr) (r : List Addr) (k : List Char) :
    scopeGet σ (a :: r) k =
      match σ.getScope a with
      | none => none
      | some m => match scopeLookup k m with
        | some (v, _) => some v
        | none => scopeGet σ r k := by
  rw [scopeGet]; rfl

theorem scopeGet_skip {σ : State} {pre : List Addr} {k : List Char} (h : Skips σ pre k) (r : List Addr) :
    scopeGet σ (pre ++ r) k = scopeGet σ r k := by
  induction pre with
  | nil => rfl
  | cons b pre ih =>
    obtain ⟨mb, h1, h2⟩ := h b List.mem_cons_self
    rw [List.cons_append, scopeGet_cons, h1]; simp only [h2]
    exact ih (fun c hc => h c (List.mem_cons_of_mem _ hc))

theorem scopeGet_hit {σ : State} {a : Addr} {m : ScopeMap} {k : List Char} {v : SVal} {l : Loc}
    (h1 : σ.getScope a = some m) (h2 : scopeLookup k m = some (v, l)) (r : List Addr) :
    scopeGet σ (a :: r) k = some v := by
  rw [scopeGet_cons, h1]; simp only [h2]

/-- `scopeGet` returns exactly the value of the innermost scope that holds the name -/
theorem scopeGet_some_iff {σ : State} {sc : List Addr} {k : List Char} {v : SVal} :
    scopeGet σ sc k = some v ↔
      ∃ pre a post m l, sc = pre ++ a :: post ∧ Skips σ pre k ∧ σ.getScope a = some m ∧ scopeLookup k m = some (v, l) := by
  constructor
  · induction sc with
    | nil => intro h; simp [scopeGet] at h
    | cons a r ih =>
      intro h
      rw [scopeGet_cons] at h
      cases hm : σ.getScope a with
      | none => simp [hm] at h
      | some m =>
        simp only [hm] at h
        cases hl : scopeLookup k m with
        | some p =>
          obtain ⟨w, l⟩ := p
          simp only [hl] at h
          cases h
          exact ⟨[], a, r, m, l, rfl, (fun _ hb => by cases hb), hm, hl⟩
        | none =>
          simp only [hl] at h
          obtain ⟨pre, a', post, m', l, e, hs, h1, h2⟩ := ih h
          refine ⟨a :: pre, a', post, m', l, by rw [e]; rfl, ?_, h1, h2⟩
          intro b hb
          rcases List.mem_cons.mp hb with rfl | hb
          · exact ⟨m, hm, hl⟩
          · exact hs b hb
  · rintro ⟨pre, a, post, m, l, rfl, hs, h1, h2⟩
    rw [scopeGet_skip hs]; exact scopeGet_hit h1 h2 post

/-- if two states agree, at every address of the chain, on whether the cell is a scope and on what the scope
    says about `k`, then `scopeGet … k` agrees -/
theorem scopeGet_congr {σ σ' : State} {sc : List Addr} {k : List Char}
    (h : ∀ a ∈ sc, (σ'.getScope a).map (scopeLookup k ·|>.map Prod.fst) = (σ.getScope a).map (scopeLookup k ·|>.map Prod.fst)) :
    scopeGet σ' sc k = scopeGet σ sc k := by
  induction sc with
  | nil => rfl
  | cons a r ih =>
    have ha := h a List.mem_cons_self
    have ih' := ih (fun b hb => h b (List.mem_cons_of_mem _ hb))
    rw [scopeGet_cons, scopeGet_cons]
    cases h1 : σ'.getScope a <;> cases h2 : σ.getScope a <;> simp only [h1, h2, Option.map] at ha ⊢
    · cases ha
    · cases ha
    · rename_i m' m
      cases h3 : scopeLookup k m' <;> cases h4 : scopeLookup k m <;> simp only [h3, h4] at ha ⊢
      · exact ih'
      · simp at ha
      · simp at ha
      · rename_i p' p; obtain ⟨v', l'⟩ := p'; obtain ⟨v, l⟩ := p
        simp at ha; simp [ha]

/-- states that agree on every cell of the chain give the same `scopeGet` -/
theorem scopeGet_frame {σ σ' : State} {sc : List Addr} (k : List Char)
    (h : ∀ a ∈ sc, σ'.heap[a]? = σ.heap[a]?) : scopeGet σ' sc k = scopeGet σ sc k :=
  scopeGet_congr (fun a ha => by rw [getScope_congr (h a ha)])

/-! ### `scopeAssign` -/

theorem scopeAssign_cons (σ : State) (a : Addr) (r : List Addr) (k : List Char) (v : SVal) :
    scopeAssign σ (a :: r) k v =
      match σ.getScope a with
      | none => none
      | some m => match scopeLookup k m with
        | some _ => some (σ.set a (.scope (scopeSetVal k v m)))
        | none => scopeAssign σ r k v := by
  rw [scopeAssign]; rfl

theorem scopeAssign_skip {σ : State} {pre : List Addr} {k : List Char} (h : Skips σ pre k) (r : List Addr) (v : SVal) :
    scopeAssign σ (pre ++ r) k v = scopeAssign σ r k v := by
  induction pre with
  | nil => rfl
  | cons b pre ih =>
    obtain ⟨mb, h1, h2⟩ := h b List.mem_cons_self
    rw [List.cons_append, scopeAssign_cons, h1]; simp only [h2]
    exact ih (fun c hc => h c (List.mem_cons_of_mem _ hc))

/-- `scopeAssign` rewrites exactly the innermost scope cell that holds the name -/
theorem scopeAssign_some_iff {σ σ' : State} {sc : List Addr} {k : List Char} {v : SVal} :
    scopeAssign σ sc k v = some σ' ↔
      ∃ pre a post m w l, sc = pre ++ a :: post ∧ Skips σ pre k ∧ σ.getScope a = some m ∧ scopeLookup k m = some (w, l) ∧
        σ' = σ.set a (.scope (scopeSetVal k v m)) := by
  constructor
  · induction sc with
    | nil => intro h; simp [scopeAssign] at h
    | cons a r ih =>
      intro h
      rw [scopeAssign_cons] at h
      cases hm : σ.getScope a with
      | none => simp [hm] at h
      | some m =>
        simp only [hm] at h
        cases hl : scopeLookup k m with
        | some p =>
          obtain ⟨w, l⟩ := p
          simp only [hl] at h
          cases h
          exact ⟨[], a, r, m, w, l, rfl, (fun _ hb => by cases hb), hm, hl, rfl⟩
        | none =>
          simp only [hl] at h
          obtain ⟨pre, a', post, m', w, l, e, hs, h1, h2, h3⟩ := ih h
          refine ⟨a :: pre, a', post, m', w, l, by rw [e]; rfl, ?_, h1, h2, h3⟩
          intro b hb
          rcases List.mem_cons.mp hb with rfl | hb
          · exact ⟨m, hm, hl⟩
          · exact hs b hb
  · rintro ⟨pre, a, post, m, w, l, rfl, hs, h1, h2, rfl⟩
    rw [scopeAssign_skip hs, scopeAssign_cons, h1]; simp only [h2]

/-- assignment succeeds exactly when the name can be read -/
theorem scopeAssign_isSome (σ : State) (sc : List Addr) (k : List Char) (v : SVal) :
    (scopeAssign σ sc k v).isSome = (scopeGet σ sc k).isSome := by
  induction sc with
  | nil => rfl
  | cons a r ih =>
    rw [scopeAssign_cons, scopeGet_cons]
    cases σ.getScope a with
    | none => rfl
    | some m =>
      dsimp only
      cases scopeLookup k m with
      | none => exact ih
      | some p => obtain ⟨w, l⟩ := p; rfl

theorem scopeAssign_none_iff (σ : State) (sc : List Addr) (k : List Char) (v : SVal) :
    scopeAssign σ sc k v = none ↔ scopeGet σ sc k = none := by
  have := scopeAssign_isSome σ sc k v
  cases h1 : scopeAssign σ sc k v <;> cases h2 : scopeGet σ sc k <;> simp_all

/-! ### `scopeDeclare` -/

theorem scopeDeclare_cons (σ : State) (a : Addr) (r : List Addr) (k : List Char) (loc : Loc) (v : SVal) :
    scopeDeclare σ (a :: r) k loc v =
      match σ.getScope a with
      | none => .bad
      | some m => match scopeLookup k m with
        | some (_, prev) => .dup prev
        | none => .ok (σ.set a (.scope ((k, v, loc) :: m))) := rfl

theorem scopeDeclare_ok_iff {σ σ' : State} {a : Addr} {r : List Addr} {k : List Char} {loc : Loc} {v : SVal} :
    scopeDeclare σ (a :: r) k loc v = .ok σ' ↔
      ∃ m, σ.getScope a = some m ∧ scopeLookup k m = none ∧ σ' = σ.set a (.scope ((k, v, loc) :: m)) := by
  rw [scopeDeclare_cons]
  cases hm : σ.getScope a with
  | none => simp
  | some m =>
    cases hl : scopeLookup k m with
    | none =>
      simp only [Option.some.injEq, exists_eq_left', hl, true_and]
      constructor
      · intro h; cases h; rfl
      · intro h; rw [h]
    | some p => obtain ⟨w, l⟩ := p; simp [hl]

theorem scopeDeclare_dup_iff {σ : State} {a : Addr} {r : List Addr} {k : List Char} {loc prev : Loc} {v : SVal} :
    scopeDeclare σ (a :: r) k loc v = .dup prev ↔
      ∃ m w, σ.getScope a = some m ∧ scopeLookup k m = some (w, prev) := by
  rw [scopeDeclare_cons]
  cases hm : σ.getScope a with
  | none => simp
  | some m =>
    cases hl : scopeLookup k m with
    | none => simp [hl]
    | some p =>
      obtain ⟨w, l⟩ := p
      simp only [hl]
      constructor
      · intro h; cases h; exact ⟨m, w, rfl, hl⟩
      · rintro ⟨m', w', h1, h2⟩; cases h1; rw [hl] at h2; cases h2; rfl

end ScopeL
end Seed
