/-
  C15Lex.lean — the string-literal scanner (`strLoop`, SeedModel/Lex.lean) run over whole segments of
  source text.

  `Seg interp src out sl` says: started in the `None` state on source text `src` (followed by anything),
  the loop consumes exactly `src`, appends `out` to the decoded characters and `sl n` to the slot list
  (`n` = number of characters decoded before), and is in the `None` state again.  Segments compose
  (`Seg.append`); the basic ones are an escaped piece of text, a `\xHH` escape, a raw character and a
  brace-balanced `${…}` slot.  `Seg.lexStr` closes a literal.
-/
import SeedModel.Lex
import SeedProofs.Lemmas.Scan
namespace Seed.C15
open Seed

/-! ### escaping -/

/-- the source spelling of one character of a string literal -/
def escapeChar (c : Char) : List Char :=
  if c = '\\' then ['\\', '\\']
  else if c = '"' then ['\\', '"']
  else if c = '$' then ['\\', '$']
  else if c = '\n' then ['\\', 'n']
  else if c = '\r' then ['\\', 'r']
  else [c]

/-- the source spelling of a text: `\ " $ LF CR` become `\\ \" \$ \n \r`, everything else is itself -/
def escapeChars : List Char → List Char
  | [] => []
  | c :: cs => escapeChar c ++ escapeChars cs

theorem escapeChars_append (a b : List Char) : escapeChars (a ++ b) = escapeChars a ++ escapeChars b := by
  induction a with
  | nil => rfl
  | cons c a ih => simp [escapeChars, ih]

/-! ### the loop on scanners -/

def strLoopS (interp : Bool) (s : Scanner) (a : StrAcc) : Except LexError (StrAcc × Scanner) :=
  strLoop interp s.rest s.line s.col a

theorem strLoopS_cont {interp : Bool} {s : Scanner} {a a' : StrAcc} {ch : Char} {r : List Char}
    (hr : s.rest = ch :: r) (hs : strStep interp a ch (s.line, s.col) = .cont a') :
    strLoopS interp s a = strLoopS interp s.next a' := by
  obtain ⟨rest, l, c⟩ := s
  simp only at hr hs
  subst hr
  simp only [strLoopS, Scanner.next_mk_cons]
  rw [strLoop]
  simp only [hs]

theorem strLoopS_done {interp : Bool} {s : Scanner} {a a' : StrAcc} {ch : Char} {r : List Char}
    (hr : s.rest = ch :: r) (hs : strStep interp a ch (s.line, s.col) = .done a') :
    strLoopS interp s a = .ok (a', s.next) := by
  obtain ⟨rest, l, c⟩ := s
  simp only at hr hs
  subst hr
  simp only [strLoopS, Scanner.next_mk_cons]
  rw [strLoop]
  simp only [hs]

theorem strLoopS_fail {interp : Bool} {s : Scanner} {a : StrAcc} {ch : Char} {r : List Char} {e : LexError}
    (hr : s.rest = ch :: r) (hs : strStep interp a ch (s.line, s.col) = .fail e) :
    strLoopS interp s a = .error e := by
  obtain ⟨rest, l, c⟩ := s
  simp only at hr hs
  subst hr
  simp only [strLoopS]
  rw [strLoop]
  simp only [hs]

theorem next_rest_of_cons {s : Scanner} {ch : Char} {r : List Char} (hr : s.rest = ch :: r) : s.next.rest = r := by
  rw [Scanner.next_rest, hr]; rfl

/-! ### one-step facts -/

theorem step_plain (interp : Bool) (a : StrAcc) (c : Char) (loc : Loc) (h : a.state = .None)
    (h1 : c ≠ '\\') (h2 : c ≠ '"') (h3 : c ≠ '$') : strStep interp a c loc = .cont (a.push c) := by
  simp [strStep, h, h1, h2, h3]

theorem step_backslash (interp : Bool) (a : StrAcc) (loc : Loc) (h : a.state = .None) :
    strStep interp a '\\' loc = .cont { a with state := .Escape } := by
  simp [strStep, h]

theorem step_quote (interp : Bool) (a : StrAcc) (loc : Loc) (h : a.state = .None) :
    strStep interp a '"' loc = .done a := by
  simp [strStep, h]

theorem unescape_push (a : StrAcc) (c : Char) (h : a.state = .None) :
    ({ ({ a with state := .Escape } : StrAcc) with state := .None } : StrAcc).push c = a.push c := by
  obtain ⟨_, _, st, _, _, _, _⟩ := a
  simp only at h; subst h; rfl

/-- every character is either spelled as itself (and is then none of `\ " $`) or as a two-character
    escape that the `Escape` state decodes to it -/
theorem escapeChar_cases (c : Char) :
    (escapeChar c = [c] ∧ c ≠ '\\' ∧ c ≠ '"' ∧ c ≠ '$') ∨
    (∃ e, escapeChar c = ['\\', e] ∧ ∀ (interp : Bool) (a : StrAcc) (loc : Loc), a.state = .Escape →
      strStep interp a e loc = .cont ({ a with state := .None }.push c)) := by
  by_cases h1 : c = '\\'
  · subst h1; exact .inr ⟨'\\', by decide, fun i a loc h => by simp [strStep, h]⟩
  by_cases h2 : c = '"'
  · subst h2; exact .inr ⟨'"', by decide, fun i a loc h => by simp [strStep, h]⟩
  by_cases h3 : c = '$'
  · subst h3; exact .inr ⟨'$', by decide, fun i a loc h => by simp [strStep, h]⟩
  by_cases h4 : c = '\n'
  · subst h4; exact .inr ⟨'n', by decide, fun i a loc h => by simp [strStep, h]⟩
  by_cases h5 : c = '\r'
  · subst h5; exact .inr ⟨'r', by decide, fun i a loc h => by simp [strStep, h]⟩
  exact .inl ⟨by simp [escapeChar, *], h1, h2, h3⟩

/-! ### an escaped piece of text (any accumulator in the `None` state) -/

def _root_.Seed.StrAcc.pushAll (a : StrAcc) (cs : List Char) : StrAcc :=
  { a with chars := cs.reverse ++ a.chars, n := a.n + cs.length }

theorem pushAll_nil (a : StrAcc) : a.pushAll [] = a := by
  obtain ⟨_, _, _, _, _, _, _⟩ := a; simp [StrAcc.pushAll]

theorem push_pushAll (a : StrAcc) (c : Char) (cs : List Char) : (a.push c).pushAll cs = a.pushAll (c :: cs) := by
  obtain ⟨_, _, _, _, _, _, _⟩ := a
  simp [StrAcc.pushAll, StrAcc.push]; omega

/-- T1, generalised over the accumulator: the loop decodes `escapeChars cs` to `cs` -/
theorem piece_run (interp : Bool) (cs : List Char) : ∀ (s : Scanner) (tail : List Char) (a : StrAcc),
    s.rest = escapeChars cs ++ tail → a.state = .None →
    strLoopS interp s a = strLoopS interp (s.advance (escapeChars cs).length) (a.pushAll cs) := by
  induction cs with
  | nil => intro s tail a _ _; simp [escapeChars, pushAll_nil, Scanner.advance]
  | cons c cs ih =>
    intro s tail a hr hst
    rcases escapeChar_cases c with ⟨he, h1, h2, h3⟩ | ⟨e, he, hstep⟩
    · simp only [escapeChars, he, List.cons_append, List.nil_append] at hr ⊢
      rw [strLoopS_cont hr (step_plain interp a c _ hst h1 h2 h3),
        ih s.next tail (a.push c) (next_rest_of_cons hr) hst, push_pushAll, List.length_cons,
        Scanner.advance_succ]
    · simp only [escapeChars, he, List.cons_append, List.nil_append] at hr ⊢
      have hr2 := next_rest_of_cons hr
      rw [strLoopS_cont hr (step_backslash interp a _ hst),
        strLoopS_cont hr2 (hstep interp _ _ rfl), unescape_push a c hst,
        ih s.next.next tail (a.push c) (next_rest_of_cons hr2) hst, push_pushAll]
      simp only [List.length_cons, Scanner.advance_succ]

/-! ### segments -/

/-- the accumulator is between items: `None` state, no pending hex digit, no open brace -/
structure Clean (a : StrAcc) : Prop where
  st : a.state = .None
  hex : a.firstHex = none
  br : a.braces = 0

theorem clean_init : Clean StrAcc.init := ⟨rfl, rfl, rfl⟩

def Seg (interp : Bool) (src out : List Char) (sl : Nat → List (Nat × Nat)) : Prop :=
  ∀ (s : Scanner) (tail : List Char) (a : StrAcc), s.rest = src ++ tail → Clean a →
    ∃ a', strLoopS interp s a = strLoopS interp (s.advance src.length) a' ∧ Clean a' ∧
      a'.chars = out.reverse ++ a.chars ∧ a'.n = a.n + out.length ∧ a'.slots = (sl a.n).reverse ++ a.slots

theorem Seg.nil (interp : Bool) : Seg interp [] [] (fun _ => []) := by
  intro s tail a _ hc
  exact ⟨a, rfl, hc, by simp, by simp, by simp⟩

theorem Seg.append {interp : Bool} {src1 out1 src2 out2 : List Char} {sl1 sl2 : Nat → List (Nat × Nat)}
    (h1 : Seg interp src1 out1 sl1) (h2 : Seg interp src2 out2 sl2) :
    Seg interp (src1 ++ src2) (out1 ++ out2) (fun n => sl1 n ++ sl2 (n + out1.length)) := by
  intro s tail a hr hc
  obtain ⟨a1, e1, c1, ch1, n1, s1⟩ := h1 s (src2 ++ tail) a (by simp [hr]) hc
  obtain ⟨a2, e2, c2, ch2, n2, s2⟩ := h2 (s.advance src1.length) tail a1
    (by rw [Scanner.advance_rest, hr]; simp) c1
  refine ⟨a2, ?_, c2, ?_, ?_, ?_⟩
  · rw [e1, e2, Scanner.advance_add, List.length_append]
  · rw [ch2, ch1]; simp
  · rw [n2, n1, List.length_append]; omega
  · rw [s2, s1, n1]; simp

theorem Seg.congr {interp : Bool} {src out : List Char} {sl sl' : Nat → List (Nat × Nat)}
    (h : Seg interp src out sl) (e : ∀ n, sl n = sl' n) : Seg interp src out sl' := by
  have : sl = sl' := funext e
  exact this ▸ h

/-- an escaped piece of text -/
theorem Seg.piece (interp : Bool) (cs : List Char) : Seg interp (escapeChars cs) cs (fun _ => []) := by
  intro s tail a hr hc
  refine ⟨a.pushAll cs, piece_run interp cs s tail a hr hc.st, ⟨hc.st, hc.hex, hc.br⟩, rfl, rfl, by simp [StrAcc.pushAll]⟩

/-- a raw character other than `\ " $` (a raw line break, for example) -/
theorem Seg.raw (interp : Bool) (c : Char) (h1 : c ≠ '\\') (h2 : c ≠ '"') (h3 : c ≠ '$') :
    Seg interp [c] [c] (fun _ => []) := by
  intro s tail a hr hc
  refine ⟨a.push c, ?_, ⟨hc.st, hc.hex, hc.br⟩, rfl, rfl, by simp [StrAcc.push]⟩
  rw [strLoopS_cont hr (step_plain interp a c _ hc.st h1 h2 h3)]; rfl

/-- T2: a `\xHH` escape contributes the character with that code -/
theorem Seg.hex (interp : Bool) (h1 h2 : Char) (x y : Nat) (e1 : hexVal h1 = some x) (e2 : hexVal h2 = some y) :
    Seg interp ['\\', 'x', h1, h2] [Char.ofNat (x * 16 + y)] (fun _ => []) := by
  intro s tail a hr hc
  simp only [List.cons_append, List.nil_append] at hr
  have hr1 := next_rest_of_cons hr
  have hr2 := next_rest_of_cons hr1
  have hr3 := next_rest_of_cons hr2
  obtain ⟨chars, n, st, fh, cur, slots, br⟩ := a
  obtain ⟨hst, hfh, hbr⟩ := hc
  simp only at hst hfh hbr; subst hst hfh hbr
  refine ⟨⟨Char.ofNat (x * 16 + y) :: chars, n + 1, .None, none, cur, slots, 0⟩, ?_, ⟨rfl, rfl, rfl⟩, rfl, rfl, rfl⟩
  rw [strLoopS_cont hr (step_backslash interp _ _ rfl),
    strLoopS_cont hr1 (a' := ⟨chars, n, .Hex, none, cur, slots, 0⟩) (by simp [strStep]),
    strLoopS_cont hr2 (a' := ⟨chars, n, .Hex, some x, cur, slots, 0⟩) (by simp [strStep, e1]),
    strLoopS_cont hr3 (a' := ⟨Char.ofNat (x * 16 + y) :: chars, n + 1, .None, none, cur, slots, 0⟩)
      (by simp [strStep, e2, StrAcc.push])]
  rfl

/-! ### slots -/

/-- a brace-balanced text: no prefix closes more braces than it opened, and all braces are closed -/
def Balanced (e : List Char) : Prop :=
  (∀ k, (e.take k).count '}' ≤ (e.take k).count '{') ∧ e.count '{' = e.count '}'

theorem balanced_iff_bounded (e : List Char) :
    Balanced e ↔ (∀ k, k ≤ e.length → (e.take k).count '}' ≤ (e.take k).count '{') ∧ e.count '{' = e.count '}' := by
  constructor
  · exact fun ⟨h1, h2⟩ => ⟨fun k _ => h1 k, h2⟩
  · refine fun ⟨h1, h2⟩ => ⟨fun k => ?_, h2⟩
    by_cases hk : k ≤ e.length
    · exact h1 k hk
    · rw [List.take_of_length_le (by omega)]; omega

instance (e : List Char) : Decidable (Balanced e) := decidable_of_iff _ (balanced_iff_bounded e).symm

/-- inside a slot at brace depth `d + 1`, text that never brings the depth to 0 is copied raw -/
theorem interp_run (e : List Char) : ∀ (d : Nat) (s : Scanner) (tail : List Char)
    (chars : List Char) (n cur : Nat) (fh : Option Nat) (slots : List (Nat × Nat)),
    s.rest = e ++ tail → cur + 1 < n →
    (∀ k, (e.take k).count '}' ≤ d + (e.take k).count '{') →
    strLoopS true s ⟨chars, n, .Interpolate, fh, cur, slots, d + 1⟩ =
      strLoopS true (s.advance e.length)
        ⟨e.reverse ++ chars, n + e.length, .Interpolate, fh, cur, slots, d + 1 + e.count '{' - e.count '}'⟩ := by
  induction e with
  | nil => intro d s tail chars n cur fh slots _ _ _; simp [Scanner.advance]
  | cons ch e ih =>
    intro d s tail chars n cur fh slots hr hcur hbal
    simp only [List.cons_append] at hr
    have hne : ¬ (cur + 1 = n) := by omega
    have hb1 := hbal 1
    have hbk : ∀ k, ((ch :: e).take (k + 1)).count '}' ≤ d + ((ch :: e).take (k + 1)).count '{' := fun k => hbal (k + 1)
    have hfin := hbal (ch :: e).length
    simp only [List.take_succ_cons, List.take_zero, List.take_length, List.count_cons, List.count_nil] at hb1 hbk hfin
    by_cases ho : ch = '{'
    · subst ho
      simp only [show ('{' == '}') = false by decide, show ('{' == '{') = true by decide] at hb1 hbk hfin
      rw [strLoopS_cont hr (a' := ⟨'{' :: chars, n + 1, .Interpolate, fh, cur, slots, (d + 1) + 1⟩)
          (by simp [strStep, hne, StrAcc.push]),
        ih (d + 1) s.next tail _ _ _ _ _ (next_rest_of_cons hr) (by omega) (fun k => by have := hbk k; simp at this ⊢; omega)]
      simp only [List.length_cons, Scanner.advance_succ, List.reverse_cons, List.append_assoc, List.singleton_append,
        List.count_cons, show ('{' == '}') = false by decide, show ('{' == '{') = true by decide]
      congr 2 <;> first | omega | (simp at hfin ⊢; omega)
    · by_cases hcl : ch = '}'
      · subst hcl
        simp only [show ('}' == '}') = true by decide, show ('}' == '{') = false by decide] at hb1 hbk hfin
        obtain ⟨d', rfl⟩ : ∃ d', d = d' + 1 := ⟨d - 1, by simp at hb1; omega⟩
        rw [strLoopS_cont hr (a' := ⟨'}' :: chars, n + 1, .Interpolate, fh, cur, slots, d' + 1⟩)
            (by simp [strStep, hne, StrAcc.push]),
          ih d' s.next tail _ _ _ _ _ (next_rest_of_cons hr) (by omega) (fun k => by have := hbk k; simp at this ⊢; omega)]
        simp only [List.length_cons, Scanner.advance_succ, List.reverse_cons, List.append_assoc, List.singleton_append,
          List.count_cons, show ('}' == '}') = true by decide, show ('}' == '{') = false by decide]
        congr 2 <;> first | omega | (simp at hfin ⊢; omega)
      · have e1 : (ch == '{') = false := by simp [ho]
        have e2 : (ch == '}') = false := by simp [hcl]
        simp only [e1, e2] at hb1 hbk hfin
        rw [strLoopS_cont hr (a' := ⟨ch :: chars, n + 1, .Interpolate, fh, cur, slots, d + 1⟩)
            (by simp [strStep, hne, StrAcc.push, ho, hcl]),
          ih d s.next tail _ _ _ _ _ (next_rest_of_cons hr) (by omega) (fun k => by have := hbk k; simp at this ⊢; omega)]
        simp only [List.length_cons, Scanner.advance_succ, List.reverse_cons, List.append_assoc, List.singleton_append,
          List.count_cons, e1, e2]
        congr 2 <;> first | omega | (simp at hfin ⊢; omega)

/-- T3, one slot: `${e}` with `e` brace-balanced is copied raw and recorded as the slot
    `(offset of "$", offset just past "}")` -/
theorem Seg.slot (e : List Char) (hb : Balanced e) :
    Seg true ('$' :: '{' :: e ++ ['}']) ('$' :: '{' :: e ++ ['}']) (fun n => [(n, n + e.length + 3)]) := by
  intro s tail a hr hc
  simp only [List.cons_append, List.append_assoc, List.nil_append] at hr
  have hr1 := next_rest_of_cons hr
  have hr2 := next_rest_of_cons hr1
  obtain ⟨chars, n, st, fh, cur, slots, br⟩ := a
  obtain ⟨hst, hfh, hbr⟩ := hc
  simp only at hst hfh hbr; subst hst hfh hbr
  have hr3 : (s.next.next.advance e.length).rest = '}' :: tail := by
    rw [Scanner.advance_rest, hr2]; simp
  refine ⟨⟨'}' :: (e.reverse ++ '{' :: '$' :: chars), n + e.length + 3, .None, none, n, (n, n + e.length + 3) :: slots, 0⟩,
    ?_, ⟨rfl, rfl, rfl⟩, by simp, by simp; omega, by simp⟩
  rw [strLoopS_cont hr (a' := ⟨'$' :: chars, n + 1, .Interpolate, none, n, slots, 0⟩) (by simp [strStep, StrAcc.push]),
    strLoopS_cont hr1 (a' := ⟨'{' :: '$' :: chars, n + 1 + 1, .Interpolate, none, n, slots, 0 + 1⟩)
      (by simp [strStep, StrAcc.push]),
    interp_run e 0 s.next.next ('}' :: tail) _ _ _ _ _ hr2 (by omega) (fun k => by have := hb.1 k; omega),
    strLoopS_cont hr3 (a' := ⟨'}' :: (e.reverse ++ '{' :: '$' :: chars), n + e.length + 3, .None, none, n,
      (n, n + e.length + 3) :: slots, 0⟩)
      (by
        have := hb.2
        simp [strStep, StrAcc.push, this]
        rw [if_neg (by omega)]
        have e1 : n + 1 + 1 + e.length + 1 = n + e.length + 3 := by omega
        rw [e1])]
  congr 1
  rw [← Scanner.advance_succ', ← Scanner.advance_succ, ← Scanner.advance_succ]
  congr 1
  simp

/-! ### closing the literal -/

def strTok (interp : Bool) (out : List Char) (slots : List (Nat × Nat)) : Token :=
  if interp then Token.InterpStrLiteral out slots else Token.StrLiteral out

/-- a literal whose body is a segment: opening character `q` (the scanner is on it), body, closing quote -/
theorem Seg.lexStr {interp : Bool} {src out : List Char} {sl : Nat → List (Nat × Nat)} (h : Seg interp src out sl)
    (q : Char) (rest : List Char) (l c : Nat) :
    lexStr interp ⟨q :: (src ++ '"' :: rest), l, c⟩ =
      .ok (strTok interp out (sl 0), (Scanner.mk (q :: (src ++ '"' :: rest)) l c).advance (src.length + 2)) := by
  generalize hs : Scanner.mk (q :: (src ++ '"' :: rest)) l c = s
  have hr : s.rest = q :: (src ++ '"' :: rest) := by rw [← hs]
  have hr1 := next_rest_of_cons hr
  obtain ⟨a', e1, c1, ch1, n1, s1⟩ := h s.next ('"' :: rest) StrAcc.init hr1 clean_init
  have hr2 : (s.next.advance src.length).rest = '"' :: rest := by rw [Scanner.advance_rest, hr1]; simp
  have e2 := strLoopS_done hr2 (step_quote interp a' _ c1.st)
  unfold Seed.lexStr
  simp only []
  change (match strLoopS interp s.next StrAcc.init with | .error e => _ | .ok (a, s') => _) = _
  rw [e1, e2]
  simp only [ch1, s1, StrAcc.init, List.append_nil, List.reverse_reverse]
  have : (s.next.advance src.length).next = s.advance (src.length + 2) := by
    rw [← Scanner.advance_succ', ← Scanner.advance_succ]
  rw [this]
  cases interp <;> simp [strTok]

/-! ### literals built from pieces and slots -/

/-- source text of a literal body: piece `p0`, then for every `(e, p)` the slot `${e}` and the piece `p` -/
def render : List Char → List (List Char × List Char) → List Char
  | p0, [] => escapeChars p0
  | p0, (e, p) :: r => escapeChars p0 ++ ('$' :: '{' :: e ++ ['}']) ++ render p r

/-- the text the lexer reports for it: decoded pieces, raw slots -/
def decoded : List Char → List (List Char × List Char) → List Char
  | p0, [] => p0
  | p0, (e, p) :: r => p0 ++ ('$' :: '{' :: e ++ ['}']) ++ decoded p r

/-- the slot list: `(offset of "${", offset just past "}")`, in characters of `decoded`, counted from `off` -/
def slotsOf : Nat → List Char → List (List Char × List Char) → List (Nat × Nat)
  | _, _, [] => []
  | off, p0, (e, p) :: r =>
    (off + p0.length, off + p0.length + e.length + 3) :: slotsOf (off + p0.length + e.length + 3) p r

theorem Seg.render (segs : List (List Char × List Char)) : ∀ (p0 : List Char), (∀ x ∈ segs, Balanced x.1) →
    Seg true (render p0 segs) (decoded p0 segs) (fun n => slotsOf n p0 segs) := by
  induction segs with
  | nil => intro p0 _; exact Seg.piece true p0
  | cons x r ih =>
    obtain ⟨e, p⟩ := x
    intro p0 hb
    have h1 := ((Seg.piece true p0).append (Seg.slot e (hb (e, p) (by simp)))).append
      (ih p (fun x hx => hb x (by simp [hx])))
    refine Seg.congr h1 (fun n => ?_)
    simp only [slotsOf, List.nil_append, List.singleton_append, List.length_append, List.length_cons,
      List.length_nil]
    congr 2 <;> omega

/-! ### the whole token stream of a source that is one literal -/

theorem nextToken_plain_str {body : List Char} {l c : Nat} {t : Token} {s' : Scanner}
    (h : lexStr false ⟨'"' :: body, l, c⟩ = .ok (t, s')) :
    nextToken ⟨'"' :: body, l, c⟩ = .tok ⟨(l, c), t, endLoc s'⟩ s' := by
  have hsk : (Scanner.mk ('"' :: body) l c).skipWs = ⟨'"' :: body, l, c⟩ := by
    simp [Scanner.skipWs, skipWs, isAsciiWs]
  unfold nextToken
  simp only [hsk]
  simp [isAsciiAlpha, isAsciiDigit, Scanner.loc, h]

theorem nextToken_interp_str {body : List Char} {l c : Nat} {t : Token} {s' : Scanner}
    (h : lexStr true (Scanner.mk ('$' :: body) l c).next = .ok (t, s')) :
    nextToken ⟨'$' :: body, l, c⟩ = .tok ⟨(l, c), t, endLoc s'⟩ s' := by
  have hsk : (Scanner.mk ('$' :: body) l c).skipWs = ⟨'$' :: body, l, c⟩ := by
    simp [Scanner.skipWs, skipWs, isAsciiWs]
  unfold nextToken
  simp only [hsk]
  simp [isAsciiAlpha, isAsciiDigit, Scanner.loc, h]

theorem nextToken_end (s : Scanner) (h : s.rest = []) : nextToken s = .eof := by
  obtain ⟨r, l, c⟩ := s
  simp only at h; subst h
  simp [nextToken, Scanner.skipWs, skipWs]

theorem lexRaw_single {s s' : Scanner} {sp : Span} (k : Nat) (h : nextToken s = .tok sp s') (he : s'.rest = []) :
    lexRaw (k + 2) s = ([sp], none) := by
  simp [lexRaw, h, nextToken_end s' he]

/-- the source `"…"` with a segment as body is the single token `StrLiteral out` -/
theorem Seg.lexAll_plain {src out : List Char} {sl : Nat → List (Nat × Nat)} (h : Seg false src out sl) :
    (lexAll ('"' :: (src ++ ['"']))).1.map (·.tok) = [Token.StrLiteral out] ∧
    (lexAll ('"' :: (src ++ ['"']))).2 = none := by
  have h1 := h.lexStr '"' [] 1 1
  have h2 := nextToken_plain_str h1
  have he : ((Scanner.mk ('"' :: (src ++ ['"'])) 1 1).advance (src.length + 2)).rest = [] := by
    rw [Scanner.advance_rest]; simp
  have hn : Scanner.new ('"' :: (src ++ ['"'])) = ⟨'"' :: (src ++ ['"']), 1, 1⟩ := rfl
  unfold lexAll
  simp only [hn]
  rw [show ('"' :: (src ++ ['"'])).length + 1 = src.length + 1 + 2 by simp]
  rw [lexRaw_single (src.length + 1) h2 he]
  simp [suppress, strTok]

/-- the source `$"…"` with a segment as body is the single token `InterpStrLiteral out slots` -/
theorem Seg.lexAll_interp {src out : List Char} {sl : Nat → List (Nat × Nat)} (h : Seg true src out sl) :
    (lexAll ('$' :: '"' :: (src ++ ['"']))).1.map (·.tok) = [Token.InterpStrLiteral out (sl 0)] ∧
    (lexAll ('$' :: '"' :: (src ++ ['"']))).2 = none := by
  have h1 := h.lexStr '"' [] 1 2
  have hnx : (Scanner.mk ('$' :: '"' :: (src ++ ['"'])) 1 1).next = ⟨'"' :: (src ++ ['"']), 1, 2⟩ := rfl
  have h2 := nextToken_interp_str (hnx ▸ h1)
  have he : ((Scanner.mk ('"' :: (src ++ ['"'])) 1 2).advance (src.length + 2)).rest = [] := by
    rw [Scanner.advance_rest]; simp
  have hn : Scanner.new ('$' :: '"' :: (src ++ ['"'])) = ⟨'$' :: '"' :: (src ++ ['"']), 1, 1⟩ := rfl
  unfold lexAll
  simp only [hn]
  rw [show ('$' :: '"' :: (src ++ ['"'])).length + 1 = src.length + 2 + 2 by simp]
  rw [lexRaw_single (src.length + 2) h2 he]
  simp [suppress, strTok]

end Seed.C15
