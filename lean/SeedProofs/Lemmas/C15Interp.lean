/-
  C15Interp.lean — `interpolate` (SeedModel/Eval.lean) equals concatenation of the pieces of the literal and
  the slot values, in order; and the pieces/slot texts that the evaluator cuts out of a lexed literal with
  `sliceChars` are exactly the ones it was written with (`SlotsOK`).
-/
import SeedModel.Eval
import SeedProofs.Global
import SeedProofs.Lemmas.C15Lex
namespace Seed.C15
open Seed

/-! ### slicing the lexed text -/

theorem sliceChars_mid (a b c : List Char) (i j : Nat) (hi : i = a.length) (hj : j = a.length + b.length) :
    sliceChars (a ++ b ++ c) i j = b := by
  subst hi hj
  simp [sliceChars, List.append_assoc]

/-- how `interpolate` reads a literal: starting at `last`, the text up to the first slot is the piece `p0`,
    the text inside the braces of the slot is `e`, and so on from the end of the slot -/
def SlotsOK (s : List Char) : Nat → List Char → List (List Char × List Char) → List (Nat × Nat) → Prop
  | last, p0, [], slots => slots = [] ∧ s.drop last = p0
  | last, p0, (e, p) :: r, slots =>
    ∃ start stop rest, slots = (start, stop) :: rest ∧ sliceChars s last start = p0 ∧
      sliceChars s (start + 2) (stop - 1) = e ∧ SlotsOK s stop p r rest

theorem slotsOK_decoded (segs : List (List Char × List Char)) : ∀ (pre p0 : List Char),
    SlotsOK (pre ++ decoded p0 segs) pre.length p0 segs (slotsOf pre.length p0 segs) := by
  induction segs with
  | nil => intro pre p0; simp [SlotsOK, slotsOf, decoded]
  | cons x r ih =>
    obtain ⟨e, p⟩ := x
    intro pre p0
    refine ⟨pre.length + p0.length, pre.length + p0.length + e.length + 3, _, rfl, ?_, ?_, ?_⟩
    · have : pre ++ decoded p0 ((e, p) :: r) = pre ++ p0 ++ (('$' :: '{' :: e ++ ['}']) ++ decoded p r) := by
        simp [decoded]
      rw [this]; exact sliceChars_mid _ _ _ _ _ rfl rfl
    · have : pre ++ decoded p0 ((e, p) :: r) = (pre ++ p0 ++ ['$', '{']) ++ e ++ ('}' :: decoded p r) := by
        simp [decoded]
      rw [this]; exact sliceChars_mid _ _ _ _ _ (by simp; omega) (by simp; omega)
    · have h := ih (pre ++ p0 ++ ('$' :: '{' :: e ++ ['}'])) p
      have e1 : (pre ++ p0 ++ ('$' :: '{' :: e ++ ['}'])).length = pre.length + p0.length + e.length + 3 := by
        simp; omega
      have e2 : pre ++ p0 ++ ('$' :: '{' :: e ++ ['}']) ++ decoded p r = pre ++ decoded p0 ((e, p) :: r) := by
        simp [decoded]
      rw [e1, e2] at h
      exact h

/-! ### the evaluation of the slots, in order -/

/-- slots are evaluated left to right in the caller's scope chain `sc`, threading the state; the `i`-th slot
    gets fuel `n - i - 1`, exactly as `interpolate n` hands it out; `vs` are the decoded slot values -/
inductive SlotsEval (sc : List Addr) (s : List Char) :
    Nat → State → List (Nat × Nat) → List (List Char) → State → Prop where
  | nil (n : Nat) (σ : State) : SlotsEval sc s n σ [] [] σ
  | cons {n : Nat} {σ σ1 σ2 : State} {start stop : Nat} {r : List (Nat × Nat)} {ast : Expr} {v : SVal}
      {bs : Bytes} {cs : List Char} {vs : List (List Char)} :
      parseExprTop (sliceChars s (start + 2) (stop - 1)) = .ok ast →
      evalExpr n σ sc ast = .ok v σ1 → v.v = .str bs → utf8Decode bs = .ok cs →
      SlotsEval sc s n σ1 r vs σ2 →
      SlotsEval sc s (n + 1) σ ((start, stop) :: r) (cs :: vs) σ2

/-- the same with one fuel `m` for every slot -/
inductive SlotsEvalU (sc : List Addr) (s : List Char) (m : Nat) :
    State → List (Nat × Nat) → List (List Char) → State → Prop where
  | nil (σ : State) : SlotsEvalU sc s m σ [] [] σ
  | cons {σ σ1 σ2 : State} {start stop : Nat} {r : List (Nat × Nat)} {ast : Expr} {v : SVal}
      {bs : Bytes} {cs : List Char} {vs : List (List Char)} :
      parseExprTop (sliceChars s (start + 2) (stop - 1)) = .ok ast →
      evalExpr m σ sc ast = .ok v σ1 → v.v = .str bs → utf8Decode bs = .ok cs →
      SlotsEvalU sc s m σ1 r vs σ2 →
      SlotsEvalU sc s m σ ((start, stop) :: r) (cs :: vs) σ2

theorem SlotsEvalU.toEval {sc : List Addr} {s : List Char} {m : Nat} {σ σ' : State} {slots : List (Nat × Nat)}
    {vs : List (List Char)} (h : SlotsEvalU sc s m σ slots vs σ') :
    ∀ n, m + slots.length ≤ n → SlotsEval sc s n σ slots vs σ' := by
  induction h with
  | nil σ => intro n _; exact .nil n σ
  | cons hp he hv hd _ ih =>
    intro n hn
    obtain ⟨k, rfl⟩ : ∃ k, n = k + 1 := ⟨n - 1, by simp at hn; omega⟩
    exact .cons hp (evalExpr_fuel_mono he (by simp) (by simp at hn; omega)) hv hd (ih k (by simp at hn; omega))

/-- pieces before and between the first slots, with the slot values in between -/
def joinPre (s : List Char) : Nat → List (Nat × Nat) → List (List Char) → List Char
  | _, [], _ => []
  | _, _ :: _, [] => []
  | last, (start, stop) :: r, v :: vs => sliceChars s last start ++ v ++ joinPre s stop r vs

/-- `last_slot_end` after the given slots -/
def lastAfter : Nat → List (Nat × Nat) → Nat
  | last, [] => last
  | _, (_, stop) :: r => lastAfter stop r

/-- the whole result: `piece_0 ++ v_1 ++ piece_1 ++ … ++ v_k ++ piece_k` -/
def joinPieces (s : List Char) (last : Nat) (slots : List (Nat × Nat)) (vs : List (List Char)) : List Char :=
  joinPre s last slots vs ++ s.drop (lastAfter last slots)

theorem interpolate_nil (n : Nat) (σ : State) (sc : List Addr) (s : List Char) (loc : Loc) (last : Nat)
    (acc : List Char) : interpolate (n + 1) σ sc s [] loc last acc = .ok (acc ++ s.drop last) σ := by
  rw [interpolate]

/-- one successful slot -/
theorem interpolate_cons_ok {n : Nat} {σ σ1 : State} {sc : List Addr} {s : List Char} {start stop : Nat}
    {r : List (Nat × Nat)} {loc : Loc} {last : Nat} {acc : List Char} {ast : Expr} {v : SVal} {bs : Bytes}
    {cs : List Char}
    (hp : parseExprTop (sliceChars s (start + 2) (stop - 1)) = .ok ast)
    (he : evalExpr n σ sc ast = .ok v σ1) (hv : v.v = .str bs) (hd : utf8Decode bs = .ok cs) :
    interpolate (n + 1) σ sc s ((start, stop) :: r) loc last acc =
      interpolate n σ1 sc s r loc stop (acc ++ sliceChars s last start ++ cs) := by
  rw [interpolate]
  simp only [hp, he, Res.mapErr, Res.bind, hv, hd]

/-- a slot whose value is not a string: the error is reported at the slot -/
theorem interpolate_cons_not_string {n : Nat} {σ σ1 : State} {sc : List Addr} {s : List Char} {start stop : Nat}
    {r : List (Nat × Nat)} {loc : Loc} {last : Nat} {acc : List Char} {ast : Expr} {v : SVal}
    (hp : parseExprTop (sliceChars s (start + 2) (stop - 1)) = .ok ast)
    (he : evalExpr n σ sc ast = .ok v σ1) (hv : ∀ bs, v.v ≠ .str bs) :
    interpolate (n + 1) σ sc s ((start, stop) :: r) loc last acc =
      .err (.atLoc loc.1 (loc.2 + start + 4) (.leaf (Gen.Leaf.InterpolatedValueNotString v.v.kind))) σ1 := by
  rw [interpolate]
  simp only [hp, he, Res.mapErr, Res.bind]

/-- a slot whose evaluation fails: its error, located at the slot -/
theorem interpolate_cons_err {n : Nat} {σ σ1 : State} {sc : List Addr} {s : List Char} {start stop : Nat}
    {r : List (Nat × Nat)} {loc : Loc} {last : Nat} {acc : List Char} {ast : Expr} {e : Err}
    (hp : parseExprTop (sliceChars s (start + 2) (stop - 1)) = .ok ast)
    (he : evalExpr n σ sc ast = .err e σ1) :
    interpolate (n + 1) σ sc s ((start, stop) :: r) loc last acc = .err (.atLoc loc.1 (loc.2 + start + 4) e) σ1 := by
  rw [interpolate]
  simp only [hp, he, Res.mapErr, Res.bind]

/-- after the slots `pre` have been evaluated, `interpolate` continues with the remaining slots, the remaining
    fuel, the state the slots left, and the text built so far -/
theorem interpolate_prefix {sc : List Addr} {s : List Char} {n : Nat} {σ σ1 : State} {pre : List (Nat × Nat)}
    {vs : List (List Char)} (h : SlotsEval sc s n σ pre vs σ1) :
    ∀ (rest : List (Nat × Nat)) (loc : Loc) (last : Nat) (acc : List Char),
      interpolate n σ sc s (pre ++ rest) loc last acc =
        interpolate (n - pre.length) σ1 sc s rest loc (lastAfter last pre) (acc ++ joinPre s last pre vs) := by
  induction h with
  | nil n σ => intro rest loc last acc; simp [lastAfter, joinPre]
  | cons hp he hv hd _ ih =>
    intro rest loc last acc
    rw [List.cons_append, interpolate_cons_ok hp he hv hd, ih]
    simp [lastAfter, joinPre, List.append_assoc]

theorem SlotsEval.length_le {sc : List Addr} {s : List Char} {n : Nat} {σ σ1 : State} {pre : List (Nat × Nat)}
    {vs : List (List Char)} (h : SlotsEval sc s n σ pre vs σ1) : pre.length ≤ n ∧ vs.length = pre.length := by
  induction h with
  | nil => simp
  | cons _ _ _ _ _ ih => simp; omega

/-- pieces and slot values, alternating: `p0 ++ v1 ++ p1 ++ … ++ vk ++ pk` -/
def weave : List Char → List (List Char × List Char) → List (List Char) → List Char
  | p0, [], _ => p0
  | p0, _ :: _, [] => p0
  | p0, (_, p) :: r, v :: vs => p0 ++ v ++ weave p r vs

theorem joinPieces_cons (s : List Char) (last start stop : Nat) (r : List (Nat × Nat)) (v : List Char)
    (vs : List (List Char)) :
    joinPieces s last ((start, stop) :: r) (v :: vs) = sliceChars s last start ++ v ++ joinPieces s stop r vs := by
  simp [joinPieces, joinPre, lastAfter, List.append_assoc]

/-- for a literal read as `SlotsOK` describes, the pieces `interpolate` cuts out are the written ones -/
theorem joinPieces_of_slotsOK (s : List Char) (segs : List (List Char × List Char)) :
    ∀ (last : Nat) (p0 : List Char) (slots : List (Nat × Nat)) (vs : List (List Char)),
      SlotsOK s last p0 segs slots → vs.length = segs.length → joinPieces s last slots vs = weave p0 segs vs := by
  induction segs with
  | nil =>
    intro last p0 slots vs h _
    obtain ⟨rfl, h2⟩ := h
    simp [joinPieces, joinPre, lastAfter, weave, h2]
  | cons x r ih =>
    obtain ⟨e, p⟩ := x
    intro last p0 slots vs h hl
    obtain ⟨start, stop, rest, rfl, h1, _, h3⟩ := h
    obtain ⟨v, vs', rfl⟩ : ∃ v vs', vs = v :: vs' := by
      cases vs with
      | nil => simp at hl
      | cons v vs' => exact ⟨v, vs', rfl⟩
    rw [joinPieces_cons, h1, ih stop p rest vs' h3 (by simpa using hl)]
    simp [weave]

end Seed.C15
