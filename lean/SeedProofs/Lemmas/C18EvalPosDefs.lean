/-
  Lemmas/C18EvalPosDefs.lean — vocabulary for "every position of a run-time diagnostic is a position stored in the
  program": the *marks* of a syntax tree (every stored position, and every interpolated string literal with its own
  position — its slots are parsed at run time, `interpolate` of Eval.lean), the positions of an error (`Err.LocsIn`),
  the heap invariant (`PosInv`: function cells hold only marked code, scope cells hold only marked binding positions or the
  `(0,0)` of the built-in `print` binding) and the result predicate `Res.Pos` of the fuel induction of C18EvalPos.lean.
-/
import SeedModel.Eval
namespace Seed

/-- what a syntax tree stores that can end up in a diagnostic: a position, or an interpolated string literal `s` with
    slot table `slots` located at `l` (the positions of what its slots evaluate are computed from these at run time) -/
inductive Mark where
  | loc (l : Loc)
  | str (s : List Char) (slots : List (Nat × Nat)) (l : Loc)
  deriving DecidableEq, Repr

def Mark.loc? : Mark → Option Loc
  | .loc l => some l
  | .str _ _ _ => none

/-- the mark of an interpolated string literal located at `l` -/
def RawExpr.strMark (l : Loc) : RawExpr → _root_.List Mark
  | .Str s (some slots) => [.str s slots l]
  | _ => []

mutual
def RawExpr.marks : RawExpr → _root_.List Mark
  | .Null => [] | .Bool _ => [] | .Int _ => [] | .Str _ _ => [] | .Var _ => []
  | .BinaryOp _ ol l r => .loc ol :: (l.marks ++ r.marks)
  | .List items _ => ListItem.marksL items
  | .Index e i => e.marks ++ i.marks
  | .RangeIndex e a b => e.marks ++ (Expr.marksO a ++ Expr.marksO b)
  | .Range a b => a.marks ++ b.marks
  | .Object props => PropItem.marksL props
  | .Prop e _ _ => e.marks
  | .Func args _ stmts => Expr.marksL args ++ Stmt.marksL stmts
  | .Call f args => f.marks ++ ListItem.marksL args
def Expr.marks : Expr → List Mark
  | .mk raw l => .loc l :: (raw.strMark l ++ raw.marks)
def Expr.marksO : Option Expr → List Mark
  | none => []
  | some e => e.marks
def Expr.marksL : List Expr → List Mark
  | [] => []
  | e :: r => e.marks ++ Expr.marksL r
def ListItem.marks : ListItem → List Mark
  | .mk e _ => e.marks
def ListItem.marksL : List ListItem → List Mark
  | [] => []
  | x :: r => x.marks ++ ListItem.marksL r
def PropItem.marks : PropItem → List Mark
  | .Pair n v => n.marks ++ v.marks
  | .Single e _ _ => e.marks
def PropItem.marksL : List PropItem → List Mark
  | [] => []
  | x :: r => x.marks ++ PropItem.marksL r
def Stmt.marks : Stmt → List Mark
  | .Block b => Stmt.marksL b
  | .Expr e => e.marks
  | .Declare l r => l.marks ++ r.marks
  | .Assign l r => l.marks ++ r.marks
  | .OpAssign l _ ol r => .loc ol :: (l.marks ++ r.marks)
  | .If bs els => Branch.marksL bs ++ Stmt.marksLO els
  | .While c s => c.marks ++ Stmt.marksL s
  | .For l i s => l.marks ++ (i.marks ++ Stmt.marksL s)
  | .Break l => [.loc l]
  | .Continue l => [.loc l]
  | .Func _ nl args _ s => .loc nl :: (Expr.marksL args ++ Stmt.marksL s)
  | .Return l e => .loc l :: e.marks
def Stmt.marksL : List Stmt → List Mark
  | [] => []
  | x :: r => x.marks ++ Stmt.marksL r
def Stmt.marksLO : Option (List Stmt) → List Mark
  | none => []
  | some s => Stmt.marksL s
def Branch.marks : Branch → List Mark
  | .mk c s => c.marks ++ Stmt.marksL s
def Branch.marksL : List Branch → List Mark
  | [] => []
  | x :: r => x.marks ++ Branch.marksL r
end

/-- every position stored in a statement list: the `loc` of every expression node, the `opLoc` of binary operations and
    op-assignments, the `nameLoc` of function statements, the positions of `break` / `continue` / `return` — at any
    depth, including function bodies, branch lists, list / property items and parameter patterns -/
def Stmt.locsL (stmts : List Stmt) : List Loc := (Stmt.marksL stmts).filterMap Mark.loc?

def Expr.locs (e : Expr) : List Loc := e.marks.filterMap Mark.loc?

theorem mem_locs_iff {ms : List Mark} {l : Loc} : l ∈ ms.filterMap Mark.loc? ↔ Mark.loc l ∈ ms := by
  rw [List.mem_filterMap]
  constructor
  · rintro ⟨m, hm, he⟩
    cases m with
    | loc l' => cases he; exact hm
    | str s sl l' => cases he
  · intro h; exact ⟨_, h, rfl⟩

/-! ## `Marked M ms`: all marks satisfy `M` -/

def Marked (M : Mark → Prop) (ms : List Mark) : Prop := ∀ m, m ∈ ms → M m

theorem marked_nil {M : Mark → Prop} : Marked M [] := fun _ h => by cases h
theorem marked_cons {M : Mark → Prop} {m : Mark} {ms : List Mark} : Marked M (m :: ms) ↔ M m ∧ Marked M ms := by
  unfold Marked
  constructor
  · intro h; exact ⟨h m List.mem_cons_self, fun x hx => h x (List.mem_cons_of_mem _ hx)⟩
  · rintro ⟨h1, h2⟩ x hx
    rcases List.mem_cons.mp hx with rfl | hx
    · exact h1
    · exact h2 x hx
theorem marked_append {M : Mark → Prop} {xs ys : List Mark} : Marked M (xs ++ ys) ↔ Marked M xs ∧ Marked M ys := by
  unfold Marked
  constructor
  · intro h; exact ⟨fun x hx => h x (List.mem_append_left _ hx), fun x hx => h x (List.mem_append_right _ hx)⟩
  · rintro ⟨h1, h2⟩ x hx
    rcases List.mem_append.mp hx with hx | hx
    · exact h1 x hx
    · exact h2 x hx
theorem marked_nil_iff {M : Mark → Prop} : Marked M [] ↔ True := ⟨fun _ => trivial, fun _ => marked_nil⟩

theorem Marked.mono {M M' : Mark → Prop} {ms : List Mark} (h : Marked M ms) (hm : ∀ m, M m → M' m) : Marked M' ms :=
  fun m hx => hm m (h m hx)

theorem Marked.loc {M : Mark → Prop} {e : Expr} (h : Marked M e.marks) : M (.loc e.loc) := by
  cases e with
  | mk raw l => exact h _ (by simp [Expr.marks, Expr.loc])

theorem Marked.ofL {M : Mark → Prop} : ∀ {es : List Expr}, Marked M (Expr.marksL es) → ∀ e, e ∈ es → Marked M e.marks
  | [], _, _, h => by cases h
  | x :: r, hg, e, h => by
    rw [Expr.marksL, marked_append] at hg
    rcases List.mem_cons.mp h with rfl | h
    · exact hg.1
    · exact Marked.ofL hg.2 e h

/-- the slot `(start, stop)` of the interpolated literal `s` at `loc` only yields marked positions: the position the
    evaluator attaches to the slot, and everything stored in the slot's expression once parsed -/
def SlotOK (M : Mark → Prop) (s : List Char) (loc : Loc) (sl : Nat × Nat) : Prop :=
  M (.loc (loc.1, loc.2 + sl.1 + 4)) ∧
  ∀ ast, parseExprTop (sliceChars s (sl.1 + 2) (sl.2 - 1)) = .ok ast → Marked M ast.marks

/-- `M` is closed under what `interpolate` does with a marked string literal -/
def SlotClosed (M : Mark → Prop) : Prop :=
  ∀ s slots loc, M (.str s slots loc) → ∀ sl, sl ∈ slots → SlotOK M s loc sl

/-! ## positions of an error -/

/-- positions carried inside a leaf payload (they are rendered into the message) -/
def Gen.Leaf.locs : Gen.Leaf → List Loc
  | .AlreadyInScope _ l c => [(l, c)]
  | .DupParamName _ l c => [(l, c)]
  | _ => []

/-- a binding position: marked, or the `(0,0)` the global `print` binding is declared at -/
def BindLoc (M : Mark → Prop) (l : Loc) : Prop := M (.loc l) ∨ l = (0, 0)

def LeafOK (M : Mark → Prop) (l : Gen.Leaf) : Prop := ∀ p, p ∈ l.locs → BindLoc M p

/-- every position anywhere in the error: the `line:col` of every `atLoc`, the call position of every user-function
    and builtin call frame satisfy `M`; a position inside the leaf's payload satisfies `M` or is `(0,0)` -/
def Err.LocsIn (M : Mark → Prop) : Err → Prop
  | .leaf l => LeafOK M l
  | .atLoc line col e => M (.loc (line, col)) ∧ Err.LocsIn M e
  | .funcCall _ cl e => M (.loc cl) ∧ Err.LocsIn M e
  | .builtinCall _ cl e => M (.loc cl) ∧ Err.LocsIn M e

theorem Err.LocsIn.mono {M M' : Mark → Prop} (hm : ∀ l, M (.loc l) → M' (.loc l)) :
    ∀ {e : Err}, Err.LocsIn M e → Err.LocsIn M' e
  | .leaf _, h => fun p hp => (h p hp).imp (hm p) id
  | .atLoc _ _ _, h => ⟨hm _ h.1, Err.LocsIn.mono hm h.2⟩
  | .funcCall _ _ _, h => ⟨hm _ h.1, Err.LocsIn.mono hm h.2⟩
  | .builtinCall _ _ _, h => ⟨hm _ h.1, Err.LocsIn.mono hm h.2⟩

theorem locsIn_at {M : Mark → Prop} {loc : Loc} {l : Gen.Leaf} (h : M (.loc loc)) (hl : LeafOK M l) :
    Err.LocsIn M (Err.at loc l) := ⟨h, hl⟩

/-! ## the heap invariant -/

def CellGood (M : Mark → Prop) : Cell → Prop
  | .list _ => True
  | .obj _ => True
  | .func f => Marked M (Expr.marksL f.args) ∧ Marked M (Stmt.marksL f.stmts)
  | .scope m => ∀ x, x ∈ m → BindLoc M x.2.2

/-- function cells hold only marked parameter patterns and bodies; scope cells only marked binding positions -/
def PosInv (M : Mark → Prop) (σ : State) : Prop := ∀ (a : Nat) (c : Cell), σ.heap[a]? = some c → CellGood M c

theorem inv_init (M : Mark → Prop) : PosInv M State.init := by
  intro a c h
  simp [State.init] at h

theorem PosInv.alloc {M : Mark → Prop} {σ : State} {c : Cell} (h : PosInv M σ) (hc : CellGood M c) : PosInv M (σ.alloc c).2 := by
  intro a c' ha
  simp only [State.alloc, Array.getElem?_push] at ha
  split at ha
  · cases ha; exact hc
  · exact h a c' ha

theorem PosInv.alloc_eq {M : Mark → Prop} {σ σ' : State} {c : Cell} {a : Addr} (he : σ.alloc c = (a, σ')) (h : PosInv M σ)
    (hc : CellGood M c) : PosInv M σ' := by
  have := h.alloc hc
  rw [he] at this; exact this

theorem PosInv.set {M : Mark → Prop} {σ : State} {c : Cell} (a : Addr) (h : PosInv M σ) (hc : CellGood M c) : PosInv M (σ.set a c) := by
  intro b c' hb
  simp only [State.set, Array.getElem?_setIfInBounds] at hb
  split at hb
  · split at hb
    · cases hb; exact hc
    · cases hb
  · exact h b c' hb

theorem PosInv.print {M : Mark → Prop} {σ : State} (l : List Char) (h : PosInv M σ) : PosInv M (σ.print l) := h

theorem PosInv.func {M : Mark → Prop} {σ : State} {a : Addr} {f : FuncRec} (h : PosInv M σ) (hf : σ.getFunc a = some f) :
    Marked M (Expr.marksL f.args) ∧ Marked M (Stmt.marksL f.stmts) := by
  unfold State.getFunc at hf
  split at hf
  · cases hf; exact h a _ (by assumption)
  · cases hf

theorem PosInv.scope {M : Mark → Prop} {σ : State} {a : Addr} {m : ScopeMap} (h : PosInv M σ) (hm : σ.getScope a = some m) :
    ∀ x, x ∈ m → BindLoc M x.2.2 := by
  unfold State.getScope at hm
  split at hm
  · cases hm; exact h a _ (by assumption)
  · cases hm

/-! ## results -/

/-- an `ok` result satisfies `Q` in a state satisfying the invariant; an error has all its positions in `M`, again in
    a state satisfying the invariant; so does a crash -/
def Res.Pos {α} (M : Mark → Prop) (Q : α → Prop) : Res α → Prop
  | .ok a σ => PosInv M σ ∧ Q a
  | .err e σ => Err.LocsIn M e ∧ PosInv M σ
  | .crash _ σ => PosInv M σ
  | .timeout => True

def PTriv {α} : α → Prop := fun _ => True

def EscGood (M : Mark → Prop) : Escape → Prop
  | .none => True
  | .brk l => M (.loc l)
  | .cont l => M (.loc l)
  | .ret _ l => M (.loc l)

namespace Res.Pos
variable {M : Mark → Prop}

theorem bind {α β} {Q : α → Prop} {Q' : β → Prop} {r : Res α} {f : α → State → Res β} (h : Res.Pos M Q r)
    (hf : ∀ a σ, PosInv M σ → Q a → Res.Pos M Q' (f a σ)) : Res.Pos M Q' (r.bind f) := by
  cases r with
  | ok a σ => exact hf a σ h.1 h.2
  | err e σ => exact h
  | crash w σ => exact h
  | timeout => trivial

theorem map {α β} {Q : α → Prop} {Q' : β → Prop} {r : Res α} {f : α → β} (h : Res.Pos M Q r) (hq : ∀ a, Q a → Q' (f a)) :
    Res.Pos M Q' (r.map f) := by
  cases r with
  | ok a σ => exact ⟨h.1, hq a h.2⟩
  | err e σ => exact h
  | crash w σ => exact h
  | timeout => trivial

theorem mapErr {α} {Q : α → Prop} {r : Res α} {f : Err → Err} (h : Res.Pos M Q r)
    (hf : ∀ e, Err.LocsIn M e → Err.LocsIn M (f e)) : Res.Pos M Q (r.mapErr f) := by
  cases r with
  | ok a σ => exact h
  | err e σ => exact ⟨hf e h.1, h.2⟩
  | crash w σ => exact h
  | timeout => trivial

theorem weaken {α} {Q Q' : α → Prop} {r : Res α} (h : Res.Pos M Q r) (hq : ∀ a, Q a → Q' a) : Res.Pos M Q' r := by
  cases r with
  | ok a σ => exact ⟨h.1, hq a h.2⟩
  | err e σ => exact h
  | crash w σ => exact h
  | timeout => trivial

theorem ok {α} {Q : α → Prop} {a : α} {σ : State} (h : PosInv M σ) (hq : Q a) : Res.Pos M Q (.ok a σ) := ⟨h, hq⟩
theorem err {α} {Q : α → Prop} {e : Err} {σ : State} (he : Err.LocsIn M e) (h : PosInv M σ) : Res.Pos M Q (.err e σ : Res α) :=
  ⟨he, h⟩
theorem errAt {α} {Q : α → Prop} {loc : Loc} {l : Gen.Leaf} {σ : State} (hl : M (.loc loc)) (hp : LeafOK M l) (h : PosInv M σ) :
    Res.Pos M Q (Seed.errAt loc l σ : Res α) := ⟨locsIn_at hl hp, h⟩
theorem crash {α} {Q : α → Prop} {w : List Char} {σ : State} (h : PosInv M σ) : Res.Pos M Q (.crash w σ : Res α) := h
theorem crashHeap {α} {Q : α → Prop} {σ : State} (h : PosInv M σ) : Res.Pos M Q (Seed.crashHeap σ : Res α) := h
end Res.Pos

end Seed
