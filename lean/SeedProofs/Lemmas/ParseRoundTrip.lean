/-
  ParseRoundTrip.lean — P5: a minimal-parenthesis printer for the binary-operator fragment (atoms, the 15
  binary operators of `Gen.binOps`, and `..`) and the proof that parsing a printed tree gives the tree back
  (positions erased).

  Architecture: fuel-free relations (ParseRel.lean); by induction on the tree, for every level `k`,
    Key (e, k): parsing `pr k e ++ rest` at tier `k` = continuing the tier-`k` loop on `rest` with `e` accumulated
  (from which the plain round trip at level `k` follows by stopping the loop), and the same for the range
  level (`parseExpr1` / `rangeLoop`).
-/
import SeedProofs.Lemmas.ParseRel
namespace Seed

/-! ### trees, erasure, printer -/

/-- expressions of the binary-operator fragment, without positions; atoms are arbitrary `RawExpr`s -/
inductive BE where
  | atom (a : RawExpr)
  | bin (op : BinaryOp) (l r : BE)
  | range (l r : BE)

mutual
/-- forget the positions along the binary-operator / range spine -/
def eraseR : RawExpr → BE
  | .BinaryOp op _ l r => .bin op (eraseE l) (eraseE r)
  | .Range l r => .range (eraseE l) (eraseE r)
  | a => .atom a
def eraseE : Expr → BE
  | .mk r _ => eraseR r
end

/-- spelling and tier of an operator, read off the generated table -/
def tokOf (op : BinaryOp) : Token :=
  match Gen.binOps.find? (fun x => x.2.1 = op) with
  | some x => x.1
  | none => Token.Null
def tierOf (op : BinaryOp) : Nat :=
  match Gen.binOps.find? (fun x => x.2.1 = op) with
  | some x => x.2.2
  | none => 0

/-- every operator has a row in the table, and the parser's lookup finds that row -/
theorem lookup_tokOf (op : BinaryOp) : lookupAssoc (tokOf op) Gen.binOps = some (op, tierOf op) := by
  cases op <;> decide

/-- the tokens of a printable atom: single-token atoms and negative integer literals -/
def atomToks : RawExpr → Option (List Token)
  | .Null => some [.Null]
  | .Bool true => some [.True]
  | .Bool false => some [.False]
  | .Var x => some [.Ident x]
  | .Int (.ofNat n) => some [.IntLiteral (.ofNat n)]
  | .Int (.negSucc n) => some [.Sub, .IntLiteral (.ofNat (n + 1))]
  | .Str s none => some [.StrLiteral s]
  | .Str s (some sl) => some [.InterpStrLiteral s sl]
  | _ => none

/-- all atoms of the tree are printable -/
def BE.WF : BE → Prop
  | .atom a => ∃ toks, atomToks a = some toks
  | .bin _ l r => l.WF ∧ r.WF
  | .range l r => l.WF ∧ r.WF

def paren (b : Bool) (ts : List Token) : List Token :=
  if b then Token.ParenOpen :: (ts ++ [Token.ParenClose]) else ts

/-- print `e` in a context that accepts level `k` and tighter (1 = range, 2–4 = operator tiers,
    5 = atoms); parentheses exactly when the level of `e` is looser than `k` -/
def pr (k : Nat) : BE → List Token
  | .atom a => (atomToks a).getD []
  | .bin op l r => paren (decide (tierOf op < k)) (pr (tierOf op) l ++ tokOf op :: pr (tierOf op + 1) r)
  | .range l r => paren (decide (1 < k)) (pr 1 l ++ Token.DotDot :: pr Gen.firstTier r)

/-! ### token-list bookkeeping -/

theorem map_tok_nil {ts : List Span} (h : ts.map Span.tok = []) : ts = [] := by
  cases ts with
  | nil => rfl
  | cons a l => cases h

theorem map_tok_cons {ts : List Span} {t : Token} {l : List Token} (h : ts.map Span.tok = t :: l) :
    ∃ sp ts', ts = sp :: ts' ∧ sp.tok = t ∧ ts'.map Span.tok = l := by
  cases ts with
  | nil => cases h
  | cons sp ts' =>
    simp only [List.map_cons, List.cons.injEq] at h
    exact ⟨sp, ts', rfl, h.1, h.2⟩

theorem map_tok_append {ts : List Span} {l1 l2 : List Token} (h : ts.map Span.tok = l1 ++ l2) :
    ∃ t1 t2, ts = t1 ++ t2 ∧ t1.map Span.tok = l1 ∧ t2.map Span.tok = l2 := by
  induction l1 generalizing ts with
  | nil => exact ⟨[], ts, rfl, rfl, h⟩
  | cons t l1 ih =>
    obtain ⟨sp, ts', rfl, hsp, h'⟩ := map_tok_cons h
    obtain ⟨t1, t2, rfl, h1, h2⟩ := ih h'
    exact ⟨sp :: t1, t2, rfl, by simp only [List.map_cons, hsp, h1], h2⟩

/-! ### atoms -/

theorem eraseR_atom {a : RawExpr} {toks : List Token} (h : atomToks a = some toks) : eraseR a = .atom a := by
  cases a <;> first | rfl | simp [atomToks] at h

theorem PAtom.single {ts rest : List Span} {t : Token} {a : RawExpr} (hts : ts.map Span.tok = [t])
    (ha : atomOf t = some a) : PAtom none (ts ++ rest) a rest := by
  obtain ⟨sp, ts', rfl, hsp, h'⟩ := map_tok_cons hts
  rw [map_tok_nil h']
  exact PAtom.tok (by rw [hsp]; exact ha)

theorem PAtom.ofToks {a : RawExpr} {toks : List Token} {ts rest : List Span} (h : atomToks a = some toks)
    (hts : ts.map Span.tok = toks) : PAtom none (ts ++ rest) a rest := by
  cases a with
  | Null => simp only [atomToks, Option.some.injEq] at h; subst h; exact PAtom.single hts rfl
  | Bool b =>
    cases b <;> (simp only [atomToks, Option.some.injEq] at h; subst h; exact PAtom.single hts rfl)
  | Var x => simp only [atomToks, Option.some.injEq] at h; subst h; exact PAtom.single hts rfl
  | Int n =>
    cases n with
    | ofNat n => simp only [atomToks, Option.some.injEq] at h; subst h; exact PAtom.single hts rfl
    | negSucc n =>
      simp only [atomToks, Option.some.injEq] at h; subst h
      obtain ⟨sm, ts1, rfl, hsm, h1⟩ := map_tok_cons hts
      obtain ⟨sn, ts2, rfl, hsn, h2⟩ := map_tok_cons h1
      rw [map_tok_nil h2]
      exact PAtom.neg hsm hsn
  | Str s o =>
    cases o <;> (simp only [atomToks, Option.some.injEq] at h; subst h; exact PAtom.single hts rfl)
  | _ => simp [atomToks] at h

/-! ### the tightest tiers -/

private theorem hP : Gen.postfixTier = 5 := rfl
private theorem hF : Gen.firstTier = 2 := rfl

/-- at tiers `≥ postfixTier` the operator loop does nothing -/
theorem TLoop.high {k : Nat} {loc : Loc} {acc X : RawExpr} {ts r' : List Span} (hk : Gen.postfixTier ≤ k)
    (h : TLoop k loc acc ts X r') : X = acc ∧ r' = ts := by
  obtain ⟨f, hf⟩ := h
  cases f with
  | zero => unfold tierLoop at hf; cases hf
  | succ n =>
    have hne : headTier ts ≠ k := by have := headTier_le ts; have := hP; omega
    rw [tierLoop_stop n k loc acc ts hne] at hf
    cases hf; exact ⟨rfl, rfl⟩

/-- an atomic form at level `k`, followed by the tier-`k` loop -/
theorem PTier.atomLoop {k : Nat} {loc : Loc} {ts rest r' : List Span} {raw X : RawExpr}
    (ha : PAtom none ts raw rest) (hp : noPostfix rest) (hh : headTier rest ≤ k)
    (hX : TLoop k loc raw rest X r') : PTier k loc none ts X r' := by
  by_cases hk : k < Gen.postfixTier
  · exact PTier.step hk (PTier.ofAtom ha hp (by omega)) hX
  · obtain ⟨rfl, rfl⟩ := TLoop.high (by omega) hX
    exact PTier.atom (by omega) ha hp

/-! ### the invariants -/

/-- parsing `pr k e ++ rest` at tier `k` is continuing the tier-`k` loop on `rest` with `e` accumulated -/
def KeyT (e : BE) (k : Nat) : Prop :=
  ∀ (loc : Loc) (ts rest : List Span), ts.map Span.tok = pr k e → noPostfix rest → headTier rest ≤ k →
    ∃ raw, eraseR raw = e ∧ ∀ X r', TLoop k loc raw rest X r' → PTier k loc none (ts ++ rest) X r'

/-- round trip at tier `k` -/
def FT (e : BE) (k : Nat) : Prop :=
  ∀ (loc : Loc) (ts rest : List Span), ts.map Span.tok = pr k e → noPostfix rest → headTier rest < k →
    ∃ raw, eraseR raw = e ∧ PTier k loc none (ts ++ rest) raw rest

/-- the same at the range level -/
def Key1 (e : BE) : Prop :=
  ∀ (loc : Loc) (ts rest : List Span), ts.map Span.tok = pr 1 e → noPostfix rest → headTier rest = 0 →
    ∃ raw, eraseR raw = e ∧ ∀ X r', RLoop false loc raw rest X r' → PExpr1 false loc none (ts ++ rest) X r'

def F1 (e : BE) : Prop :=
  ∀ (loc : Loc) (ts rest : List Span), ts.map Span.tok = pr 1 e → noPostfix rest → headTier rest = 0 →
    noDotDot rest → ∃ raw, eraseR raw = e ∧ PExpr1 false loc none (ts ++ rest) raw rest

/-- `e` printed as `toks` is an atom of the grammar -/
def Atomic (e : BE) (toks : List Token) : Prop :=
  ∀ (ts rest : List Span), ts.map Span.tok = toks → ∃ raw, eraseR raw = e ∧ PAtom none (ts ++ rest) raw rest

theorem FT_of_KeyT {e : BE} {k : Nat} (h : KeyT e k) : FT e k := by
  intro loc ts rest hts hp hh
  obtain ⟨raw, he, hk⟩ := h loc ts rest hts hp (by omega)
  exact ⟨raw, he, hk raw rest (TLoop.stop (by omega))⟩

theorem F1_of_Key1 {e : BE} (h : Key1 e) : F1 e := by
  intro loc ts rest hts hp hh hdd
  obtain ⟨raw, he, hk⟩ := h loc ts rest hts hp hh
  exact ⟨raw, he, hk raw rest (RLoop.stop hdd)⟩

theorem KeyT_of_Atomic {e : BE} {k : Nat} {toks : List Token} (hpr : pr k e = toks) (h : Atomic e toks) :
    KeyT e k := by
  intro loc ts rest hts hp hh
  obtain ⟨raw, he, ha⟩ := h ts rest (hpr ▸ hts)
  exact ⟨raw, he, fun X r' hX => PTier.atomLoop ha hp hh hX⟩

/-- a looser level than the one at which `e` round-trips, printed the same way -/
theorem KeyT_of_FT {e : BE} {k j : Nat} (hpr : pr k e = pr j e) (hkj : k < j) (hj : j ≤ Gen.postfixTier)
    (h : FT e j) : KeyT e k := by
  intro loc ts rest hts hp hh
  obtain ⟨raw, he, hPj⟩ := h loc ts rest (hpr ▸ hts) hp (by omega)
  refine ⟨raw, he, fun X r' hX => ?_⟩
  exact PTier.step (by omega) (hPj.descend hj (k + 1) (by omega) (Or.inl (by omega))) hX

theorem Key1_of_FT {e : BE} (hpr : pr 1 e = pr Gen.firstTier e) (h : FT e Gen.firstTier) : Key1 e := by
  intro loc ts rest hts hp hh
  obtain ⟨raw, he, hP2⟩ := h loc ts rest (hpr ▸ hts) hp (by have := hF; omega)
  exact ⟨raw, he, fun X r' hX => PExpr1.mk hP2 hX⟩

/-- a parenthesised expression is an atom -/
theorem Atomic_paren {e : BE} (h : F1 e) : Atomic e (Token.ParenOpen :: (pr 1 e ++ [Token.ParenClose])) := by
  intro ts rest hts
  obtain ⟨sl, ts1, rfl, hsl, h1⟩ := map_tok_cons hts
  obtain ⟨tsi, ts2, rfl, hi, h2⟩ := map_tok_append h1
  obtain ⟨sr, ts3, rfl, hsr, h3⟩ := map_tok_cons h2
  rw [map_tok_nil h3]
  have hnp : noPostfix (sr :: rest) := by simp [noPostfix, hsr, isPostfixOpen]
  have hht : headTier (sr :: rest) = 0 := by simp [headTier, hsr, lookupAssoc, Gen.binOps]
  have hdd : noDotDot (sr :: rest) := by simp [noDotDot, hsr]
  obtain ⟨raw, he, hpe⟩ := h (headLoc (tsi ++ sr :: rest)) tsi (sr :: rest) hi hnp hht hdd
  refine ⟨raw, he, ?_⟩
  have := PAtom.paren (sp := sl) hsl hpe hsr
  simpa [List.append_assoc] using this

/-- the production `tier t ::= tier t  op  tier (t+1)` -/
theorem KeyT_bin {op : BinaryOp} {l r : BE} (hl : KeyT l (tierOf op)) (hr : FT r (tierOf op + 1)) :
    KeyT (.bin op l r) (tierOf op) := by
  intro loc ts rest hts hp hh
  have hlook := lookup_tokOf op
  simp only [pr, paren, Nat.lt_irrefl, decide_false, Bool.false_eq_true, if_false] at hts
  obtain ⟨tsl, ts2, rfl, htl, h2⟩ := map_tok_append hts
  obtain ⟨sop, tsr, rfl, hsop, htr⟩ := map_tok_cons h2
  have hlook' : lookupAssoc sop.tok Gen.binOps = some (op, tierOf op) := by rw [hsop]; exact hlook
  obtain ⟨rawr, her, hpr⟩ := hr (headLoc (tsr ++ rest)) tsr rest htr hp (by omega)
  obtain ⟨rawl, hel, hkl⟩ := hl loc tsl (sop :: (tsr ++ rest)) htl (noPostfix_op hlook')
    (by rw [headTier_op hlook']; exact Nat.le_refl _)
  refine ⟨.BinaryOp op sop.start (.mk rawl loc) (.mk rawr (headLoc (tsr ++ rest))), ?_, ?_⟩
  · simp only [eraseR, eraseE, hel, her]
  · intro X r' hX
    have := hkl X r' (TLoop.step hlook' hpr hX)
    simpa [List.append_assoc] using this

/-- the production `range ::= range  ..  tier 2` -/
theorem Key1_range {l r : BE} (hl : Key1 l) (hr : FT r Gen.firstTier) : Key1 (.range l r) := by
  intro loc ts rest hts hp hh
  simp only [pr, paren, Nat.lt_irrefl, decide_false, Bool.false_eq_true, if_false] at hts
  obtain ⟨tsl, ts2, rfl, htl, h2⟩ := map_tok_append hts
  obtain ⟨sd, tsr, rfl, hsd, htr⟩ := map_tok_cons h2
  have hnp : noPostfix (sd :: (tsr ++ rest)) := by simp [noPostfix, hsd, isPostfixOpen]
  have hht : headTier (sd :: (tsr ++ rest)) = 0 := by simp [headTier, hsd, lookupAssoc, Gen.binOps]
  obtain ⟨rawr, her, hpr⟩ := hr (headLoc (tsr ++ rest)) tsr rest htr hp (by have := hF; omega)
  obtain ⟨rawl, hel, hkl⟩ := hl loc tsl (sd :: (tsr ++ rest)) htl hnp hht
  refine ⟨.Range (.mk rawl loc) (.mk rawr (headLoc (tsr ++ rest))), ?_, ?_⟩
  · simp only [eraseR, eraseE, hel, her]
  · intro X r' hX
    have := hkl X r' (RLoop.step hsd rfl hpr hX)
    simpa [List.append_assoc] using this

/-! ### the induction -/

theorem keyAll (e : BE) (hwf : e.WF) : (∀ k, 2 ≤ k → k ≤ 5 → KeyT e k) ∧ Key1 e := by
  induction e with
  | atom a =>
    obtain ⟨toks, ha⟩ := hwf
    have hat : Atomic (.atom a) toks := fun ts rest hts => ⟨a, eraseR_atom ha, PAtom.ofToks ha hts⟩
    have hpr : ∀ k, pr k (.atom a) = toks := fun k => by simp only [pr, ha, Option.getD_some]
    have hk : ∀ k, KeyT (.atom a) k := fun k => KeyT_of_Atomic (hpr k) hat
    exact ⟨fun k _ _ => hk k, Key1_of_FT (by rw [hpr, hpr]) (FT_of_KeyT (hk _))⟩
  | bin op l r ihl ihr =>
    obtain ⟨ihlT, _⟩ := ihl hwf.1
    obtain ⟨ihrT, _⟩ := ihr hwf.2
    have f := binOp_facts (lookup_tokOf op)
    -- at its own tier
    have hown : KeyT (.bin op l r) (tierOf op) :=
      KeyT_bin (ihlT _ f.1 (by omega)) (FT_of_KeyT (ihrT _ (by omega) (by omega)))
    -- printed without parentheses at every level up to its own tier
    have hbare : ∀ k, k ≤ tierOf op → pr k (.bin op l r) = pr (tierOf op) (.bin op l r) := by
      intro k hk
      have h1 : ¬ tierOf op < k := by omega
      simp only [pr, paren, h1, Nat.lt_irrefl, decide_false]
    have hloose : ∀ k, 1 ≤ k → k ≤ tierOf op → KeyT (.bin op l r) k := by
      intro k _ hk
      by_cases hkt : k = tierOf op
      · rw [hkt]; exact hown
      · exact KeyT_of_FT (hbare k hk) (by omega) (by have := hP; omega) (FT_of_KeyT hown)
    have h1 : Key1 (.bin op l r) :=
      Key1_of_FT (by rw [hbare 1 (by omega), hbare Gen.firstTier (by have := hF; omega)])
        (FT_of_KeyT (hloose _ (by have := hF; omega) (by have := hF; omega)))
    refine ⟨fun k hk2 hk5 => ?_, h1⟩
    by_cases hk : k ≤ tierOf op
    · exact hloose k (by omega) hk
    · refine KeyT_of_Atomic ?_ (Atomic_paren (F1_of_Key1 h1))
      have h2 : tierOf op < k := by omega
      have h3 : ¬ tierOf op < 1 := by omega
      simp only [pr, paren, h2, h3, decide_true, decide_false, if_true, Bool.false_eq_true, if_false]
  | range l r ihl ihr =>
    obtain ⟨_, ihl1⟩ := ihl hwf.1
    obtain ⟨ihrT, _⟩ := ihr hwf.2
    have h1 : Key1 (.range l r) := Key1_range ihl1 (FT_of_KeyT (ihrT _ (by have := hF; omega) (by have := hF; omega)))
    refine ⟨fun k hk2 hk5 => ?_, h1⟩
    refine KeyT_of_Atomic ?_ (Atomic_paren (F1_of_Key1 h1))
    have h2 : 1 < k := by omega
    simp only [pr, paren, h2, Nat.lt_irrefl, decide_true, decide_false, if_true, Bool.false_eq_true, if_false]

/-! ### round trip -/

/-- fuel-free round trip, with an arbitrary continuation `rest` that cannot extend the expression -/
theorem roundtrip_rel (e : BE) (hwf : e.WF) (loc : Loc) (ts rest : List Span) (hts : ts.map Span.tok = pr 1 e)
    (hp : noPostfix rest) (hh : headTier rest = 0) (hdd : noDotDot rest) :
    ∃ raw, eraseR raw = e ∧ PExpr1 false loc none (ts ++ rest) raw rest :=
  F1_of_Key1 (keyAll e hwf).2 loc ts rest hts hp hh hdd

/-- P5: `parse (print e) = e` up to positions, for every fuel `≥ 10 * (number of tokens) + 7` and every
    assignment of positions to the printed tokens -/
theorem roundtrip_parseExpr1 (e : BE) (hwf : e.WF) (loc : Loc) (ts : List Span) (hts : ts.map Span.tok = pr 1 e)
    (fuel : Nat) (hf : 10 * ts.length + 7 ≤ fuel) :
    ∃ raw, parseExpr1 fuel false loc none ts = .ok raw [] ∧ eraseR raw = e := by
  obtain ⟨raw, he, hpe⟩ := roundtrip_rel e hwf loc ts [] hts True.intro rfl True.intro
  rw [List.append_nil] at hpe
  exact ⟨raw, hpe.at_fuel fuel hf, he⟩

theorem roundtrip_parseExpr (e : BE) (hwf : e.WF) (ts : List Span) (hts : ts.map Span.tok = pr 1 e)
    (fuel : Nat) (hf : 10 * ts.length + 8 ≤ fuel) :
    ∃ ex, parseExpr fuel false ts = .ok ex [] ∧ eraseE ex = e := by
  obtain ⟨raw, he, hpe⟩ := roundtrip_rel e hwf (headLoc ts) ts [] hts True.intro rfl True.intro
  rw [List.append_nil] at hpe
  exact ⟨.mk raw (headLoc ts), hpe.parseExpr_at_fuel fuel hf, by simp only [eraseE, he]⟩

/-- the driver's fuel -/
theorem roundtrip_parseFuel (e : BE) (hwf : e.WF) (ts : List Span) (hts : ts.map Span.tok = pr 1 e) :
    ∃ ex, parseExpr (parseFuel ts) false ts = .ok ex [] ∧ eraseE ex = e :=
  roundtrip_parseExpr e hwf ts hts _ (by unfold parseFuel; omega)

end Seed
