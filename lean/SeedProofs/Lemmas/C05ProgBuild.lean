/-
  Lemmas/C05ProgBuild.lean — the building operations as statements of a program (`b := [a..]`, `b := a + []`,
  `b := a[0:k]`, `[..b] := a`: each declares `b` as a NEW list cell holding copies of the element values), the
  one-element list literal, `+=` on scalars, and a call of a one-parameter function down to its body.
  For the program-level theorems of C05.
-/
import SeedProofs.Lemmas.C05ProgFrame
namespace Seed
namespace C05P
open ScopeL HeapL
open Gen (Leaf)

/-! ### heap bookkeeping -/

theorem set_set (σ : State) (a : Addr) (c c' : Cell) : (σ.set a c).set a c' = σ.set a c' := by
  simp [State.set]

/-- a successful operation whose left operand is a scalar changes nothing -/
theorem applyBinOp_scalar_state {fuel : Nat} {σ σ' : State} {op : BinaryOp} {loc : Loc} {a b v : Val}
    (hk : a.kind = .Null ∨ a.kind = .Bool ∨ a.kind = .Int ∨ a.kind = .Str)
    (h : applyBinOp fuel σ op loc a b = .ok v σ') : σ' = σ := by
  unfold applyBinOp at h
  cases a <;> simp [Val.kind] at hk <;> cases op <;> simp only at h <;>
    first
      | (cases h; done)
      | (cases b <;> simp only at h <;> first | (cases h; done) | exact BindL.arith_state h | (cases h; rfl))
      | (split at h <;> first | (cases h; rfl) | (cases h; done))

/-- `x + y` on ints within range -/
theorem sum_ints (fuel : Nat) (σ : State) (loc : Loc) (x y : Int) (h : inI64 (x + y) = true) :
    applyBinOp fuel σ .Sum loc (.int x) (.int y) = .ok (.int (x + y)) σ := by
  simp [applyBinOp, arith, h]

/-! ### literals -/

/-- `[x]` -/
theorem list1_literal {n : Nat} {σ σ1 : State} {sc : List Addr} {x : Expr} {vx : SVal} (l : Loc)
    (hx : evalExpr n σ sc x = .ok vx σ1) :
    evalExpr (n + 2) σ sc (.mk (.List [.mk x false] false) l) =
      .ok (SVal.plain (.list σ1.heap.size)) (σ1.alloc (.list [vx])).2 := by
  obtain ⟨k, rfl⟩ : ∃ k, n = k + 1 := by
    cases n with
    | zero => rw [evalExpr] at hx; cases hx
    | succ k => exact ⟨k, rfl⟩
  rw [evalExpr]
  simp only [Bool.false_eq_true, if_false]
  rw [evalListItems, hx]
  simp only [Res.bind, Bool.not_false, if_true]
  rw [evalListItems]
  rfl

/-! ### the four copying forms, as expressions -/

/-- `[a..]` -/
theorem spread_copy {σ : State} {sc : List Addr} {a : List Char} {A : Addr} {s : Option Val} {items : List SVal} (n : Nat)
    (la l : Loc) (ha : scopeGet σ sc a = some ⟨.list A, s⟩) (hl : σ.getList A = some items) :
    evalExpr (n + 3) σ sc (.mk (.List [.mk (.mk (.Var a) la) true] false) l) =
      .ok (SVal.plain (.list σ.heap.size)) (σ.alloc (.list items)).2 := by
  rw [evalExpr]
  simp only [Bool.false_eq_true, if_false]
  rw [evalListItems, var_read n la ha]
  simp only [Res.bind, Bool.not_true, Bool.false_eq_true, if_false, hl]
  rw [evalListItems]
  rfl

/-- `a + []` : the empty literal is one new cell, the sum another -/
theorem sum_copy {σ : State} {sc : List Addr} {a : List Char} {A : Addr} {s : Option Val} {items : List SVal} (n : Nat)
    (la ol le l : Loc) (ha : scopeGet σ sc a = some ⟨.list A, s⟩) (hl : σ.getList A = some items) :
    evalExpr (n + 3) σ sc (.mk (.BinaryOp .Sum ol (.mk (.Var a) la) (.mk (.List [] false) le)) l) =
      .ok (SVal.plain (.list (σ.heap.size + 1))) ((σ.alloc (.list [])).2.alloc (.list items)).2 := by
  rw [evalExpr, var_read (n + 1) la ha]
  simp only [Res.bind]
  rw [evalExpr]
  simp only [Bool.false_eq_true, if_false]
  rw [evalListItems]
  simp only [Res.bind]
  have h1 : (σ.alloc (.list [])).2.getList A = some items := getList_alloc _ hl
  have h2 : (σ.alloc (.list [])).2.getList σ.heap.size = some [] := getList_alloc_new σ []
  simp only [applyBinOp, SVal.plain, alloc_fst, h1, h2, List.append_nil, alloc_size]

/-- `a[0:k]` for `k ≤ length`: a new cell holding the first `k` element values (all of them for `k = length`) -/
theorem range_copy {σ : State} {sc : List Addr} {a : List Char} {A : Addr} {s : Option Val} {items : List SVal} (n : Nat)
    (k : Nat) (la l0 lk l : Loc) (ha : scopeGet σ sc a = some ⟨.list A, s⟩) (hl : σ.getList A = some items)
    (hk : k ≤ items.length) :
    evalExpr (n + 5) σ sc (.mk (.RangeIndex (.mk (.Var a) la) (some (.mk (.Int (Int.ofNat 0)) l0))
        (some (.mk (.Int (Int.ofNat k)) lk))) l) =
      .ok (SVal.plain (.list σ.heap.size)) (σ.alloc (.list (items.take k))).2 := by
  rw [evalExpr, evalOptIndex, toIndex_lit n]
  simp only [Res.map, Res.bind]
  rw [evalOptIndex, toIndex_lit n]
  simp only [Res.map]
  rw [var_read (n + 3) la ha]
  simp only [hl, Option.getD_some, Nat.zero_le, hk, decide_true, Bool.and_self, if_true, List.drop_zero, Nat.sub_zero]
  rfl

theorem take_length_self {α} (xs : List α) : xs.take xs.length = xs := List.take_length

/-! ### a statement that declares `b` as a fresh copy -/

/-- running `st` from `σ` declares `b` in the innermost cell `A0` (which held `ms`) as the list cell `B` — an address
    that did not exist — holding `ys`; `σ1` is the state just before the declaration: every cell that existed is as
    it was -/
structure FreshCopy (k : Nat) (σ : State) (A0 : Addr) (sc' : List Addr) (ms : ScopeMap) (st : Stmt) (b : List Char)
    (lb : Loc) (B : Addr) (ys : List SVal) (σ1 : State) : Prop where
  run : evalStmt k σ (A0 :: sc') st = .ok .none (σ1.set A0 (.scope ((b, SVal.plain (.list B), lb) :: ms)))
  fresh : σ.heap.size ≤ B
  cell : σ1.getList B = some ys
  old : ∀ c, c < σ.heap.size → σ1.heap[c]? = σ.heap[c]?
  out : σ1.out = σ.out

/-- `b := rhs` where `rhs` evaluates to a new cell -/
theorem freshCopy_declare {n : Nat} {σ σ1 : State} {A0 : Addr} {sc' : List Addr} {ms : ScopeMap} {b : List Char} {rhs : Expr}
    {B : Addr} {ys : List SVal} (lb : Loc)
    (hr : evalExpr (n + 1) σ (A0 :: sc') rhs = .ok (SVal.plain (.list B)) σ1)
    (hb : b ≠ c!"_") (hs : σ.getScope A0 = some ms) (hfresh : scopeLookup b ms = none)
    (hB : σ.heap.size ≤ B) (hcell : σ1.getList B = some ys)
    (hold : ∀ c, c < σ.heap.size → σ1.heap[c]? = σ.heap[c]?) (hout : σ1.out = σ.out) :
    FreshCopy (n + 2) σ A0 sc' ms (.Declare (.mk (.Var b) lb) rhs) b lb B ys σ1 := by
  have hs1 : σ1.getScope A0 = some ms := by rw [getScope_congr (hold A0 (getScope_lt hs))]; exact hs
  exact ⟨declare_var_stmt lb hr hb hs1 hfresh, hB, hcell, hold, hout⟩

/-- **`b := [a..]`** -/
theorem copy_by_spread {σ : State} {A0 : Addr} {sc' : List Addr} {ms : ScopeMap} {a b : List Char} {A : Addr}
    {s : Option Val} {items : List SVal} (n : Nat) (lb la l : Loc)
    (hs : σ.getScope A0 = some ms) (ha : scopeGet σ (A0 :: sc') a = some ⟨.list A, s⟩) (hl : σ.getList A = some items)
    (hb : b ≠ c!"_") (hfresh : scopeLookup b ms = none) :
    FreshCopy (n + 4) σ A0 sc' ms (.Declare (.mk (.Var b) lb) (.mk (.List [.mk (.mk (.Var a) la) true] false) l))
      b lb σ.heap.size items (σ.alloc (.list items)).2 :=
  freshCopy_declare lb (spread_copy n la l ha hl) hb hs hfresh (Nat.le_refl _) (getList_alloc_new σ items)
    (fun _ hc => alloc_old σ _ hc) rfl

/-- **`b := a + []`** -/
theorem copy_by_sum {σ : State} {A0 : Addr} {sc' : List Addr} {ms : ScopeMap} {a b : List Char} {A : Addr}
    {s : Option Val} {items : List SVal} (n : Nat) (lb la ol le l : Loc)
    (hs : σ.getScope A0 = some ms) (ha : scopeGet σ (A0 :: sc') a = some ⟨.list A, s⟩) (hl : σ.getList A = some items)
    (hb : b ≠ c!"_") (hfresh : scopeLookup b ms = none) :
    FreshCopy (n + 4) σ A0 sc' ms
      (.Declare (.mk (.Var b) lb) (.mk (.BinaryOp .Sum ol (.mk (.Var a) la) (.mk (.List [] false) le)) l))
      b lb (σ.heap.size + 1) items ((σ.alloc (.list [])).2.alloc (.list items)).2 := by
  refine freshCopy_declare lb (sum_copy n la ol le l ha hl) hb hs hfresh (Nat.le_succ _) ?_ (fun c hc => ?_) rfl
  · have := getList_alloc_new (σ.alloc (.list [])).2 items
    rwa [alloc_size] at this
  · have hc1 : c < (σ.alloc (.list [])).2.heap.size := by rw [alloc_size]; omega
    rw [alloc_old _ _ hc1, alloc_old σ _ hc]

/-- **`b := a[0:k]`** (`k ≤` length; the whole list for `k =` length) -/
theorem copy_by_range {σ : State} {A0 : Addr} {sc' : List Addr} {ms : ScopeMap} {a b : List Char} {A : Addr}
    {s : Option Val} {items : List SVal} (n k : Nat) (lb la l0 lk l : Loc)
    (hs : σ.getScope A0 = some ms) (ha : scopeGet σ (A0 :: sc') a = some ⟨.list A, s⟩) (hl : σ.getList A = some items)
    (hk : k ≤ items.length) (hb : b ≠ c!"_") (hfresh : scopeLookup b ms = none) :
    FreshCopy (n + 6) σ A0 sc' ms
      (.Declare (.mk (.Var b) lb) (.mk (.RangeIndex (.mk (.Var a) la) (some (.mk (.Int (Int.ofNat 0)) l0))
        (some (.mk (.Int (Int.ofNat k)) lk))) l))
      b lb σ.heap.size (items.take k) (σ.alloc (.list (items.take k))).2 :=
  freshCopy_declare lb (range_copy n k la l0 lk l ha hl hk) hb hs hfresh (Nat.le_refl _) (getList_alloc_new σ _)
    (fun _ hc => alloc_old σ _ hc) rfl

/-- **`[..b] := a`**: the collected rest of a destructuring with no other item is a copy of the whole list -/
theorem copy_by_collect {σ : State} {A0 : Addr} {sc' : List Addr} {ms : ScopeMap} {a b : List Char} {A : Addr}
    {s : Option Val} {items : List SVal} (n : Nat) (lb la lp : Loc)
    (hs : σ.getScope A0 = some ms) (ha : scopeGet σ (A0 :: sc') a = some ⟨.list A, s⟩) (hl : σ.getList A = some items)
    (hb : b ≠ c!"_") (hfresh : scopeLookup b ms = none) :
    FreshCopy (n + 5) σ A0 sc' ms
      (.Declare (.mk (.List [.mk (.mk (.Var b) lb) false] true) lp) (.mk (.Var a) la))
      b lb σ.heap.size items (σ.alloc (.list items)).2 := by
  refine ⟨?_, Nat.le_refl _, getList_alloc_new σ items, fun _ hc => alloc_old σ _ hc, rfl⟩
  rw [evalStmt, var_read (n + 3) la ha]
  simp only [Res.bind]
  rw [bindNext]
  simp only [hl, List.length_cons, List.length_nil, Nat.zero_add, Nat.sub_self, Bool.true_and, Bool.not_true,
    Bool.false_and, Bool.false_eq_true, if_false, gt_iff_lt, Nat.not_lt_zero, decide_false]
  rw [bindList]
  simp only [Bool.false_eq_true, if_false, hl, Bool.true_and, Nat.sub_self, decide_true, if_true, List.drop_zero]
  simp only [alloc_fst]
  rw [bindNext_var, bindName_declare lb _ hb (getScope_alloc _ hs) hfresh]
  simp only [Res.bind]
  rw [bindList]

/-! ### a call of a one-parameter function, down to its body -/

/-- what `evalCall` does with the way the body ended -/
def finishCall (esc : Escape) (σ4 : State) : Res SVal :=
  match esc with
  | .none => .ok (SVal.plain .null) σ4
  | .brk l => errAt l Leaf.BreakOutsideLoop σ4
  | .cont l => errAt l Leaf.ContinueOutsideLoop σ4
  | .ret v _ => .ok v σ4

/-- the state in which the body of `fn f(p) { … }` starts when called from `σ` with the argument value `arg`: a
    fresh scope cell (address `σ.heap.size`) holding `p ↦ arg` — the `SVal` of the argument itself -/
def paramEntry (σ : State) (p : List Char) (lp : Loc) (arg : SVal) : State :=
  (σ.alloc (.scope [])).2.set σ.heap.size (.scope [(p, arg, lp)])

/-- **`f(a)`** for variables `f` (a plain function value `fn (p) { body }`, no source) and `a`: the body runs on
    the chain `fresh cell :: closure` from `paramEntry` -/
theorem call1_spec {σ : State} {sc clo : List Addr} {f a p : List Char} {F : Addr} {name : Option (List Char)}
    {body : List Stmt} {arg : SVal} (m : Nat) (lf la lp loc : Loc)
    (hf : scopeGet σ sc f = some ⟨.func F, none⟩)
    (hfr : σ.getFunc F = some ⟨name, [.mk (.Var p) lp], false, body, clo⟩) (hp : p ≠ c!"_")
    (ha : scopeGet σ sc a = some arg) :
    evalCall (m + 4) σ sc (.mk (.Var f) lf) [.mk (.mk (.Var a) la) false] loc =
      ((evalStmts (m + 2) (paramEntry σ p lp arg) (σ.heap.size :: clo) body).mapErr (Err.funcCall name loc)).bind
        finishCall := by
  rw [evalCall, evalListItems, var_read (m + 1) la ha]
  simp only [Res.bind, Bool.not_false, if_true]
  rw [evalListItems]
  simp only [List.nil_append, var_read (m + 2) lf hf, hfr, Bool.false_and, Bool.false_eq_true, if_false,
    Bool.not_false, Bool.true_and, List.length_cons, List.length_nil, ne_eq, not_true_eq_false, decide_false,
    List.zip_cons_cons, List.zip_nil_left]
  rw [evalBlock]
  simp only [alloc_fst]
  rw [declareAll, bindNext_var, bindName_declare lp arg hp (getScope_alloc_new σ []) (by rfl)]
  simp only [Res.bind]
  rw [declareAll]
  rfl

/-- in the body, the parameter is the argument -/
theorem paramEntry_param (σ : State) (clo : List Addr) (p : List Char) (lp : Loc) (arg : SVal) :
    scopeGet (paramEntry σ p lp arg) (σ.heap.size :: clo) p = some arg :=
  scopeGet_declared clo p arg lp (getScope_alloc_new σ [])

theorem paramEntry_scope (σ : State) (p : List Char) (lp : Loc) (arg : SVal) :
    (paramEntry σ p lp arg).getScope σ.heap.size = some [(p, arg, lp)] :=
  getScope_set_same _ (getScope_lt (getScope_alloc_new σ []))

/-- … and every cell that existed is as it was -/
theorem paramEntry_old (σ : State) (p : List Char) (lp : Loc) (arg : SVal) {c : Addr} (hc : c < σ.heap.size) :
    (paramEntry σ p lp arg).heap[c]? = σ.heap[c]? := by
  unfold paramEntry
  rw [set_other _ _ _ (Nat.ne_of_lt hc), alloc_old σ _ hc]

end C05P
end Seed
