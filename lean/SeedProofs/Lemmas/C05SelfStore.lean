/-
  Lemmas/C05SelfStore.lean — two facts of C05 that no theorem stated yet.

  (A1) `self_store_is_alias`: storing a container into one of its OWN slots (`x[i] = x`, `o.k = o`, `o["k"] = o`) stores the
       container itself — the slot holds the same address, no cell is allocated — so `x[i] === x` is true and a later
       write `x[j] = w` is read back through `x[i][j]`.
  (A2) `builders_fresh_even_when_empty`: every building operation allocates a NEW cell at `heap.size`, whatever the size of
       the result, in particular when the result is empty: `xs[k:k]`, `xs[len:]`, `[]`, `[ys..]` with `ys` empty, the collector
       of `[h, ..t] := [1]`, the rest parameter of a call without surplus arguments, `a .. b` with `b ≤ a`, `xs + ys` with
       both empty.  Since the heap never shrinks (G2), two evaluations never give the same address.

  Everything is over the `ScopeL` / `HeapL` lemma family of C05.lean; `Seed.set_size`, `Seed.getFunc_congr`, `Seed.getFunc_lt`
  of Lemmas/Instances.lean (imported for `heapGrows_good`) have namesakes there, so those three are written qualified.
-/
import SeedProofs.C05
import SeedProofs.Lemmas.Instances
import SeedProofs.Lemmas.C15Utf8
namespace Seed
namespace C05S
open ScopeL HeapL C05P
open Gen (Leaf)

/-! # (A1) a container stored into its own slot -/

/-! ### reads two levels deep -/

/-- `x[i][j]` where `x` holds the list `A` whose position `i` holds the list `B` -/
theorem var_index2_read {σ : State} {sc : List Addr} {x : List Char} {A B : Addr} {s sB : Option Val}
    {items itemsB : List SVal} {i j : Nat} {v : SVal} (n : Nat) (lx li l lj l' : Loc)
    (hx : scopeGet σ sc x = some ⟨.list A, s⟩) (hl : σ.getList A = some items) (hi : items[i]? = some ⟨.list B, sB⟩)
    (hB : σ.getList B = some itemsB) (hv : itemsB[j]? = some v) :
    evalExpr (n + 5) σ sc
      (.mk (.Index (.mk (.Index (.mk (.Var x) lx) (.mk (.Int (Int.ofNat i)) li)) l) (.mk (.Int (Int.ofNat j)) lj)) l') = .ok v σ := by
  rw [evalExpr, var_index_read n lx li l hx hl hi]
  simp only [Res.bind, toIndex_lit (n + 1), hB, hv]

/-- `o.k.j` where `o` holds the object `A` whose property `k` holds the object `B` -/
theorem var_prop2_read {σ : State} {sc : List Addr} {o k j : List Char} {A B : Addr} {s sB : Option Val}
    {m mB : ObjMap} {v : SVal} (n : Nat) (lo l l' : Loc)
    (ho : scopeGet σ sc o = some ⟨.obj A, s⟩) (hm : σ.getObj A = some m) (hk : objGet k m = some ⟨.obj B, sB⟩)
    (hB : σ.getObj B = some mB) (hv : objGet j mB = some v) :
    evalExpr (n + 3) σ sc (.mk (.Prop (.mk (.Prop (.mk (.Var o) lo) k false) l) j false) l') = .ok ⟨v.v, some (.obj B)⟩ σ := by
  rw [evalExpr, var_prop_read n lo l ho hm hk]
  simp only [Res.bind, Bool.false_eq_true, if_false, hB, hv]

example : scopeGet C05.σP [0] c!"a" = some ⟨.list 1, none⟩ ∧ C05.σP.getList 1 = some [C05.sl 2, C05.sv 5] ∧
    [C05.sl 2, C05.sv 5][0]? = some ⟨.list 2, none⟩ ∧ C05.σP.getList 2 = some [C05.sv 1] ∧ [C05.sv 1][0]? = some (C05.sv 1) := by
  decide

/-! ### lists -/

/-- **`x[i] = x`.**  The statement rewrites the one cell `A` that `x` denotes: position `i` now holds the value of `x`
    itself — the address `A`, not the address of a copy — every other position and every other cell is as it was, the heap
    has the same size (nothing was allocated), nothing was printed; `x` still denotes `A`, `x[i]` reads the list `A`, and
    `x[i] === x` is `true`. -/
theorem self_store_is_alias {σ : State} {sc : List Addr} {x : List Char} {A : Addr} {s : Option Val} {items : List SVal}
    {i : Nat} (n : Nat) (lx li ls lr : Loc)
    (hx : scopeGet σ sc x = some ⟨.list A, s⟩) (hl : σ.getList A = some items) (hi : i < items.length) :
    let σ' := σ.set A (.list (listSet items i ⟨.list A, s⟩))
    evalStmt (n + 5) σ sc
        (.Assign (.mk (.Index (.mk (.Var x) lx) (.mk (.Int (Int.ofNat i)) li)) ls) (.mk (.Var x) lr)) = .ok .none σ' ∧
    σ'.getList A = some (listSet items i ⟨.list A, s⟩) ∧
    (listSet items i ⟨.list A, s⟩)[i]? = some ⟨.list A, s⟩ ∧
    (∀ j, j ≠ i → (listSet items i ⟨.list A, s⟩)[j]? = items[j]?) ∧
    σ'.heap.size = σ.heap.size ∧ (∀ c, c ≠ A → σ'.heap[c]? = σ.heap[c]?) ∧ σ'.out = σ.out ∧
    scopeGet σ' sc x = some ⟨.list A, s⟩ ∧
    (∀ f l1 l2 l3, evalExpr (f + 4) σ' sc
        (.mk (.Index (.mk (.Var x) l1) (.mk (.Int (Int.ofNat i)) l2)) l3) = .ok ⟨.list A, s⟩ σ') ∧
    (∀ f l1 l2 l3 l4 l5 l6, evalExpr (f + 5) σ' sc
        (.mk (.BinaryOp .RefEq l5 (.mk (.Index (.mk (.Var x) l1) (.mk (.Int (Int.ofNat i)) l2)) l3) (.mk (.Var x) l4)) l6) =
      .ok (SVal.plain (.bool true)) σ') := by
  intro σ'
  obtain ⟨cur, hcur⟩ := getElem?_of_lt hi
  have hx' : scopeGet σ' sc x = some ⟨.list A, s⟩ := by rw [scopeGet_set_list _ hl]; exact hx
  have hl' : σ'.getList A = some (listSet items i ⟨.list A, s⟩) := getList_set_same _ hl
  have hself := listSet_get_same items i (⟨.list A, s⟩ : SVal) hi
  have hread : ∀ f l1 l2 l3, evalExpr (f + 4) σ' sc
      (.mk (.Index (.mk (.Var x) l1) (.mk (.Int (Int.ofNat i)) l2)) l3) = .ok ⟨.list A, s⟩ σ' :=
    fun f l1 l2 l3 => var_index_read f l1 l2 l3 hx' hl' hself
  refine ⟨?_, hl', hself, fun j hj => listSet_get_other items i j _ hj, ScopeL.set_size _ _ _, fun c hc => set_other _ _ _ hc, rfl,
    hx', hread, fun f l1 l2 l3 l4 l5 l6 => ?_⟩
  · exact index_assign_stmt (n := n + 2) lx ls (var_read (n + 3) lr hx) hx (toIndex_lit n σ sc i li) hl hcur
  · exact refeq_read l5 l6 (hread f l1 l2 l3) (var_read (f + 3) l4 hx') (by simp [refEq])

/-- **`x[i] = x; x[j] = e; rest`** (`j ≠ i`; `e` without effects, as in `C05.alias_mutation_visible`): the later write
    goes to the same one cell, and is read back through the stored self-reference — `x[i][j]` is the value written — while
    `x[i] === x` stays true; still no cell was allocated. -/
theorem self_store_then_write {σ : State} {sc : List Addr} {x : List Char} {A : Addr} {s : Option Val} {items : List SVal}
    {i j : Nat} {e : Expr} {w : SVal} (n : Nat) (lx li ls lr lx2 lj ls2 : Loc)
    (hx : scopeGet σ sc x = some ⟨.list A, s⟩) (hl : σ.getList A = some items) (hi : i < items.length)
    (hj : j < items.length) (hji : j ≠ i)
    (he : evalExpr n (σ.set A (.list (listSet items i ⟨.list A, s⟩))) sc e =
      .ok w (σ.set A (.list (listSet items i ⟨.list A, s⟩)))) :
    let σ'' := σ.set A (.list (listSet (listSet items i ⟨.list A, s⟩) j w))
    (∀ rest, evalStmts (n + 7) σ sc
        (.Assign (.mk (.Index (.mk (.Var x) lx) (.mk (.Int (Int.ofNat i)) li)) ls) (.mk (.Var x) lr) ::
         .Assign (.mk (.Index (.mk (.Var x) lx2) (.mk (.Int (Int.ofNat j)) lj)) ls2) e :: rest) =
      evalStmts (n + 5) σ'' sc rest) ∧
    σ''.getList A = some (listSet (listSet items i ⟨.list A, s⟩) j w) ∧
    (∀ f l1 l2 l3 l4 l5, evalExpr (f + 5) σ'' sc
        (.mk (.Index (.mk (.Index (.mk (.Var x) l1) (.mk (.Int (Int.ofNat i)) l2)) l3) (.mk (.Int (Int.ofNat j)) l4)) l5) =
      .ok w σ'') ∧
    (∀ f l1 l2 l3, evalExpr (f + 4) σ'' sc
        (.mk (.Index (.mk (.Var x) l1) (.mk (.Int (Int.ofNat j)) l2)) l3) = .ok w σ'') ∧
    (∀ f l1 l2 l3 l4 l5 l6, evalExpr (f + 5) σ'' sc
        (.mk (.BinaryOp .RefEq l5 (.mk (.Index (.mk (.Var x) l1) (.mk (.Int (Int.ofNat i)) l2)) l3) (.mk (.Var x) l4)) l6) =
      .ok (SVal.plain (.bool true)) σ'') ∧
    σ''.heap.size = σ.heap.size ∧ (∀ c, c ≠ A → σ''.heap[c]? = σ.heap[c]?) ∧ σ''.out = σ.out := by
  intro σ''
  have h1 := self_store_is_alias (i := i) 0 lx li ls lr hx hl hi
  simp only at h1
  generalize hσ' : σ.set A (.list (listSet items i ⟨.list A, s⟩)) = σ' at h1 he
  have e'' : σ'' = σ'.set A (.list (listSet (listSet items i ⟨.list A, s⟩) j w)) := by rw [← hσ', set_set]
  obtain ⟨hst1, hl', hself, _, hsz', hfr', hout', hx', _, _⟩ := h1
  have hj' : j < (listSet items i (⟨.list A, s⟩ : SVal)).length := by rw [listSet_length]; exact hj
  obtain ⟨cur, hcur⟩ := getElem?_of_lt hj'
  have hx'' : scopeGet σ'' sc x = some ⟨.list A, s⟩ := by rw [e'', scopeGet_set_list _ hl']; exact hx'
  have hl'' : σ''.getList A = some (listSet (listSet items i ⟨.list A, s⟩) j w) := by rw [e'']; exact getList_set_same _ hl'
  have hself'' : (listSet (listSet items i ⟨.list A, s⟩) j w)[i]? = some ⟨.list A, s⟩ := by
    rw [listSet_get_other _ j i w (Ne.symm hji)]; exact hself
  have hw : (listSet (listSet items i ⟨.list A, s⟩) j w)[j]? = some w := listSet_get_same _ j w hj'
  have hread : ∀ f l1 l2 l3, evalExpr (f + 4) σ'' sc
      (.mk (.Index (.mk (.Var x) l1) (.mk (.Int (Int.ofNat i)) l2)) l3) = .ok ⟨.list A, s⟩ σ'' :=
    fun f l1 l2 l3 => var_index_read f l1 l2 l3 hx'' hl'' hself''
  refine ⟨fun rest => ?_, hl'', fun f l1 l2 l3 l4 l5 => ?_, fun f l1 l2 l3 => ?_, fun f l1 l2 l3 l4 l5 l6 => ?_, ?_,
    fun c hc => set_other _ _ _ hc, rfl⟩
  · rw [stmts_step _ hst1 (by omega)]
    have hst2 := index_assign_stmt (n := n + 2) lx2 ls2
      (evalExpr_fuel_mono he ok_ne_timeout (by omega : n ≤ n + 2 + 2)) hx' (toIndex_lit n σ' sc j lj) hl' hcur
    rw [stmts_step _ hst2 (by omega), e'']
  · exact var_index2_read f l1 l2 l3 l4 l5 hx'' hl'' hself'' hl'' hw
  · exact var_index_read f l1 l2 l3 hx'' hl'' hw
  · exact refeq_read l5 l6 (hread f l1 l2 l3) (var_read (f + 3) l4 hx'') (by simp [refEq])
  · exact ScopeL.set_size _ _ _

/-! ### objects -/

theorem utf8_rt (cs : List Char) : utf8Decode (utf8Encode cs) = .ok cs := by
  unfold utf8Decode
  rw [C15U.decode_encode_aux cs _ 0 [] (by have := C15U.length_le_encode cs; omega)]
  simp

/-- **`o.k = o`** and **`o["k"] = o`.**  Both statements rewrite the one cell `A` that `o` denotes so that it maps `k` to the
    value of `o` itself — the address `A` — and leave every other key, every other cell, the heap size and the output as
    they were; `o.k` then reads the object `A` and `o.k === o` is `true`. -/
theorem self_store_is_alias_obj {σ : State} {sc : List Addr} {o k : List Char} {A : Addr} {s : Option Val} {m : ObjMap}
    (n : Nat) (lo ls lr lk : Loc)
    (ho : scopeGet σ sc o = some ⟨.obj A, s⟩) (hm : σ.getObj A = some m) :
    let σ' := σ.set A (.obj (objInsert k ⟨.obj A, s⟩ m))
    evalStmt (n + 3) σ sc (.Assign (.mk (.Prop (.mk (.Var o) lo) k false) ls) (.mk (.Var o) lr)) = .ok .none σ' ∧
    evalStmt (n + 4) σ sc (.Assign (.mk (.Index (.mk (.Var o) lo) (.mk (.Str k none) lk)) ls) (.mk (.Var o) lr)) =
      .ok .none σ' ∧
    σ'.getObj A = some (objInsert k ⟨.obj A, s⟩ m) ∧
    objGet k (objInsert k ⟨.obj A, s⟩ m) = some ⟨.obj A, s⟩ ∧
    (∀ k', k' ≠ k → objGet k' (objInsert k ⟨.obj A, s⟩ m) = objGet k' m) ∧
    σ'.heap.size = σ.heap.size ∧ (∀ c, c ≠ A → σ'.heap[c]? = σ.heap[c]?) ∧ σ'.out = σ.out ∧
    scopeGet σ' sc o = some ⟨.obj A, s⟩ ∧
    (∀ f l1 l2, evalExpr (f + 2) σ' sc (.mk (.Prop (.mk (.Var o) l1) k false) l2) = .ok ⟨.obj A, some (.obj A)⟩ σ') ∧
    (∀ f l1 l2 l3 l4 l5, evalExpr (f + 3) σ' sc
        (.mk (.BinaryOp .RefEq l4 (.mk (.Prop (.mk (.Var o) l1) k false) l2) (.mk (.Var o) l3)) l5) =
      .ok (SVal.plain (.bool true)) σ') := by
  intro σ'
  have ho' : scopeGet σ' sc o = some ⟨.obj A, s⟩ := by rw [scopeGet_set_obj _ hm]; exact ho
  have hm' : σ'.getObj A = some (objInsert k ⟨.obj A, s⟩ m) := getObj_set_same _ hm
  have hself := objGet_objInsert_same k (⟨.obj A, s⟩ : SVal) m
  have hread : ∀ f l1 l2, evalExpr (f + 2) σ' sc (.mk (.Prop (.mk (.Var o) l1) k false) l2) =
      .ok ⟨.obj A, some (.obj A)⟩ σ' := fun f l1 l2 => var_prop_read f l1 l2 ho' hm' hself
  refine ⟨?_, ?_, hm', hself, fun k' hk' => objGet_objInsert_other hk' _ m, ScopeL.set_size _ _ _,
    fun c hc => set_other _ _ _ hc, rfl, ho', hread, fun f l1 l2 l3 l4 l5 => ?_⟩
  · exact prop_assign_stmt (n := n) lo ls (var_read (n + 1) lr ho) ho hm
  · exact key_assign_stmt (n := n + 1) lo ls (var_read (n + 2) lr ho) ho (toStr_lit n σ sc _ k lk (utf8_rt k)) hm
  · exact refeq_read l4 l5 (hread f l1 l2) (var_read (f + 1) l3 ho') (by simp [refEq])

/-- **`o.k = o; o.j = e; rest`** (`j ≠ k`, `e` without effects): the later write is read back through the stored
    self-reference, `o.k.j` -/
theorem self_store_then_write_obj {σ : State} {sc : List Addr} {o k j : List Char} {A : Addr} {s : Option Val} {m : ObjMap}
    {e : Expr} {w : SVal} (n : Nat) (lo ls lr lo2 ls2 : Loc)
    (ho : scopeGet σ sc o = some ⟨.obj A, s⟩) (hm : σ.getObj A = some m) (hjk : j ≠ k)
    (he : evalExpr n (σ.set A (.obj (objInsert k ⟨.obj A, s⟩ m))) sc e =
      .ok w (σ.set A (.obj (objInsert k ⟨.obj A, s⟩ m)))) :
    let σ'' := σ.set A (.obj (objInsert j w (objInsert k ⟨.obj A, s⟩ m)))
    (∀ rest, evalStmts (n + 5) σ sc
        (.Assign (.mk (.Prop (.mk (.Var o) lo) k false) ls) (.mk (.Var o) lr) ::
         .Assign (.mk (.Prop (.mk (.Var o) lo2) j false) ls2) e :: rest) =
      evalStmts (n + 3) σ'' sc rest) ∧
    σ''.getObj A = some (objInsert j w (objInsert k ⟨.obj A, s⟩ m)) ∧
    (∀ f l1 l2 l3, evalExpr (f + 3) σ'' sc
        (.mk (.Prop (.mk (.Prop (.mk (.Var o) l1) k false) l2) j false) l3) = .ok ⟨w.v, some (.obj A)⟩ σ'') ∧
    (∀ f l1 l2 l3 l4 l5, evalExpr (f + 3) σ'' sc
        (.mk (.BinaryOp .RefEq l4 (.mk (.Prop (.mk (.Var o) l1) k false) l2) (.mk (.Var o) l3)) l5) =
      .ok (SVal.plain (.bool true)) σ'') ∧
    σ''.heap.size = σ.heap.size ∧ (∀ c, c ≠ A → σ''.heap[c]? = σ.heap[c]?) ∧ σ''.out = σ.out := by
  intro σ''
  have h1 := self_store_is_alias_obj (k := k) 0 lo ls lr lo ho hm
  simp only at h1
  generalize hσ' : σ.set A (.obj (objInsert k ⟨.obj A, s⟩ m)) = σ' at h1 he
  have e'' : σ'' = σ'.set A (.obj (objInsert j w (objInsert k ⟨.obj A, s⟩ m))) := by rw [← hσ', set_set]
  obtain ⟨hst1, _, hm', hself, _, _, _, _, ho', _, _⟩ := h1
  have ho'' : scopeGet σ'' sc o = some ⟨.obj A, s⟩ := by rw [e'', scopeGet_set_obj _ hm']; exact ho'
  have hm'' : σ''.getObj A = some (objInsert j w (objInsert k ⟨.obj A, s⟩ m)) := by rw [e'']; exact getObj_set_same _ hm'
  have hself'' : objGet k (objInsert j w (objInsert k ⟨.obj A, s⟩ m)) = some ⟨.obj A, s⟩ := by
    rw [objGet_objInsert_other (Ne.symm hjk)]; exact hself
  have hw : objGet j (objInsert j w (objInsert k ⟨.obj A, s⟩ m)) = some w := objGet_objInsert_same j w _
  refine ⟨fun rest => ?_, hm'', fun f l1 l2 l3 => ?_, fun f l1 l2 l3 l4 l5 => ?_, ScopeL.set_size _ _ _,
    fun c hc => set_other _ _ _ hc, rfl⟩
  · rw [stmts_step _ hst1 (by omega)]
    have hst2 := prop_assign_stmt (n := n) (k := j) lo2 ls2
      (evalExpr_fuel_mono he ok_ne_timeout (by omega : n ≤ n + 2)) ho' hm'
    rw [stmts_step _ hst2 (by omega), e'']
  · exact var_prop2_read f l1 l2 l3 ho'' hm'' hself'' hm'' hw
  · exact refeq_read l4 l5 (var_prop_read f l1 l2 ho'' hm'' hself'') (var_read (f + 1) l3 ho'') (by simp [refEq])

/-! ### instances of the hypotheses, and the same through the whole pipeline -/

/-- scope 0: `v ↦ list 1`, `o ↦ object 2`; list 1 = `[1, 2, 3]`, object 2 = `{"a": 1}` -/
def σS : State :=
  ⟨#[.scope [(c!"v", SVal.plain (.list 1), (1, 0)), (c!"o", SVal.plain (.obj 2), (2, 0))],
     .list [C05.sv 1, C05.sv 2, C05.sv 3], .obj [(c!"a", C05.sv 1)]], []⟩

example : scopeGet σS [0] c!"v" = some ⟨.list 1, none⟩ ∧ σS.getList 1 = some [C05.sv 1, C05.sv 2, C05.sv 3] ∧
    0 < [C05.sv 1, C05.sv 2, C05.sv 3].length ∧ scopeGet σS [0] c!"o" = some ⟨.obj 2, none⟩ ∧
    σS.getObj 2 = some [(c!"a", C05.sv 1)] := by decide

/-- `v[0] = v;` in `σS`: cell 1 becomes `[list 1, 2, 3]` -/
example :
    evalStmt 5 σS [0] (.Assign (.mk (.Index (.mk (.Var c!"v") (3, 0)) (.mk (.Int (Int.ofNat 0)) (3, 2))) (3, 1)) (.mk (.Var c!"v") (3, 7))) =
      .ok .none (σS.set 1 (.list [SVal.plain (.list 1), C05.sv 2, C05.sv 3])) :=
  (self_store_is_alias (σ := σS) (sc := [0]) (x := c!"v") (A := 1) (s := none) (items := [C05.sv 1, C05.sv 2, C05.sv 3])
    (i := 0) 0 (3, 0) (3, 2) (3, 1) (3, 7) (by rfl) (by rfl) (by decide)).1

/-- `v[0] = v; v[1] = 9;` in `σS`: cell 1 becomes `[list 1, 9, 3]` -/
example :
    evalStmts 8 σS [0]
      [.Assign (.mk (.Index (.mk (.Var c!"v") (3, 0)) (.mk (.Int (Int.ofNat 0)) (3, 2))) (3, 1)) (.mk (.Var c!"v") (3, 7)),
       .Assign (.mk (.Index (.mk (.Var c!"v") (4, 0)) (.mk (.Int (Int.ofNat 1)) (4, 2))) (4, 1)) C05.e9] =
      evalStmts 6 (σS.set 1 (.list [SVal.plain (.list 1), C05.sv 9, C05.sv 3])) [0] [] :=
  (self_store_then_write (σ := σS) (sc := [0]) (x := c!"v") (A := 1) (s := none) (items := [C05.sv 1, C05.sv 2, C05.sv 3])
    (i := 0) (j := 1) (e := C05.e9) (w := C05.sv 9) 1 (3, 0) (3, 2) (3, 1) (3, 7) (4, 0) (4, 2) (4, 1)
    (by rfl) (by rfl) (by decide) (by decide) (by decide) (C05.e9_pure 0 _ _)).1 []

/-- `o.k = o;` in `σS`: cell 2 becomes `{"a": 1, "k": object 2}` -/
example :
    evalStmt 3 σS [0] (.Assign (.mk (.Prop (.mk (.Var c!"o") (3, 0)) c!"k" false) (3, 1)) (.mk (.Var c!"o") (3, 6))) =
      .ok .none (σS.set 2 (.obj [(c!"a", C05.sv 1), (c!"k", SVal.plain (.obj 2))])) :=
  (self_store_is_alias_obj (σ := σS) (sc := [0]) (o := c!"o") (k := c!"k") (A := 2) (s := none) (m := [(c!"a", C05.sv 1)])
    0 (3, 0) (3, 1) (3, 6) (3, 2) (by rfl) (by rfl)).1

/-- `o.k = o; o.a = 9;` in `σS`: cell 2 becomes `{"a": 9, "k": object 2}` -/
example :
    evalStmts 6 σS [0]
      [.Assign (.mk (.Prop (.mk (.Var c!"o") (3, 0)) c!"k" false) (3, 1)) (.mk (.Var c!"o") (3, 6)),
       .Assign (.mk (.Prop (.mk (.Var c!"o") (4, 0)) c!"a" false) (4, 1)) C05.e9] =
      evalStmts 4 (σS.set 2 (.obj [(c!"a", C05.sv 9), (c!"k", SVal.plain (.obj 2))])) [0] [] :=
  (self_store_then_write_obj (σ := σS) (sc := [0]) (o := c!"o") (k := c!"k") (j := c!"a") (A := 2) (s := none)
    (m := [(c!"a", C05.sv 1)]) (e := C05.e9) (w := C05.sv 9) 1 (3, 0) (3, 1) (3, 6) (4, 0) (4, 1)
    (by rfl) (by rfl) (by decide) (C05.e9_pure 0 _ _)).1 []

example : (run 100 c!"t.sd" c!"v := [1, 2, 3];\nv[0] = v;\nprint(v[0] === v);\nv[1] = 5;\nprint(v[0][1]);\n").out =
    [c!"true", c!"5"] := by decide +kernel

example : (run 100 c!"t.sd"
    c!"o := {\"a\": 1};\no.k = o;\nprint(o.k === o);\no[\"j\"] = o;\nprint(o.j === o.k);\no.a = 7;\nprint(o.k.j.a);\n").out =
    [c!"true", c!"true", c!"7"] := by decide +kernel

/-- the self-reference survives any depth: `v[0][0][0]` is still `v` -/
example : (run 100 c!"t.sd" c!"v := [1, 2];\nv[0] = v;\nprint(v[0][0][0] === v);\nv[0][0][1] = 8;\nprint(v[1]);\n").out =
    [c!"true", c!"8"] := by decide +kernel

/-! # (A2) building operations allocate a new cell also when the result is empty -/

/-- the instance of the hypotheses used for the theorems of this part (a variable holding a list, a variable holding an
    empty list): `a ↦ list 1 = [1, 2]`, `e ↦ list 2 = []` -/
def σE : State :=
  ⟨#[.scope [(c!"a", SVal.plain (.list 1), (1, 0)), (c!"e", SVal.plain (.list 2), (2, 0))],
     .list [C05.sv 1, C05.sv 2], .list []], []⟩

example : scopeGet σE [0] c!"a" = some ⟨.list 1, none⟩ ∧ σE.getList 1 = some [C05.sv 1, C05.sv 2] ∧
    scopeGet σE [0] c!"e" = some ⟨.list 2, none⟩ ∧ σE.getList 2 = some [] := by decide

/-! ### the heap never shrinks, so a later allocation never returns an earlier address -/

theorem evalExpr_size_le {n : Nat} {σ σ' : State} {sc : List Addr} {e : Expr} {v : SVal}
    (h : evalExpr n σ sc e = .ok v σ') : σ.heap.size ≤ σ'.heap.size := by
  have := (relAll heapGrows_good n).evalExpr σ σ sc e (heapGrows_good.refl σ)
  rw [h] at this
  exact this.1

theorem evalStmt_size_le {n : Nat} {σ σ' : State} {sc : List Addr} {st : Stmt} {esc : Escape}
    (h : evalStmt n σ sc st = .ok esc σ') : σ.heap.size ≤ σ'.heap.size := by
  have := (relAll heapGrows_good n).evalStmt σ σ sc st (heapGrows_good.refl σ)
  rw [h] at this
  exact this.1

theorem evalStmts_size_le {n : Nat} {σ σ' : State} {sc : List Addr} {ss : List Stmt} {esc : Escape}
    (h : evalStmts n σ sc ss = .ok esc σ') : σ.heap.size ≤ σ'.heap.size := by
  have := (relAll heapGrows_good n).evalStmts σ σ sc ss (heapGrows_good.refl σ)
  rw [h] at this
  exact this.1

/-- two allocations, the second in any state at least as large as the one the first left: different addresses, so `===` is
    `false` between the two results (either order), and `true` between a result and itself -/
theorem later_build_differs {σ σ' : State} (c : Cell) (h : (σ.alloc c).2.heap.size ≤ σ'.heap.size) (c' : Cell) :
    (σ.alloc c).1 ≠ (σ'.alloc c').1 ∧
    refEq (.list (σ.alloc c).1) (.list (σ'.alloc c').1) = some false ∧
    refEq (.list (σ'.alloc c').1) (.list (σ.alloc c).1) = some false ∧
    refEq (.list (σ.alloc c).1) (.list (σ.alloc c).1) = some true := by
  rw [alloc_size] at h
  have hlt : σ.heap.size < σ'.heap.size := by omega
  have h1 : σ.heap.size ≠ σ'.heap.size := Nat.ne_of_lt hlt
  have h2 : σ'.heap.size ≠ σ.heap.size := Nat.ne_of_gt hlt
  simp only [alloc_fst, refEq]
  exact ⟨h1, by simp [h1], by simp [h2], by simp⟩

example : evalExpr 2 State.init [] (.mk (.List [] false) (1, 0)) =
    .ok (SVal.plain (.list 0)) (State.init.alloc (.list [])).2 := by rw [evalExpr, evalListItems]; rfl

example : ((State.init.alloc (.list [])).2.alloc (.obj [])).2.heap.size ≤ ((State.init.alloc (.list [])).2.alloc (.obj [])).2.heap.size ∧
    (State.init.alloc (.list [])).2.heap.size ≤ ((State.init.alloc (.list [])).2.alloc (.obj [])).2.heap.size := by decide

/-- whatever runs between two building operations (here: any statement list that completes), the second result is not
    the first -/
theorem builds_around_stmts_differ {n : Nat} {σ σ' : State} {sc : List Addr} {ss : List Stmt} {esc : Escape} (c c' : Cell)
    (h : evalStmts n (σ.alloc c).2 sc ss = .ok esc σ') :
    refEq (.list (σ.alloc c).1) (.list (σ'.alloc c').1) = some false :=
  (later_build_differs c (evalStmts_size_le h) c').2.1

example : evalStmts 1 (State.init.alloc (.list [])).2 [] [] = .ok .none (State.init.alloc (.list [])).2 := by rw [evalStmts]

/-! ### range reads -/

/-- `x[i:j]` with literal bounds `i ≤ j ≤ length` -/
theorem range_lit {σ : State} {sc : List Addr} {a : List Char} {A : Addr} {s : Option Val} {items : List SVal} (n : Nat)
    (i j : Nat) (la li lj l : Loc) (ha : scopeGet σ sc a = some ⟨.list A, s⟩) (hl : σ.getList A = some items)
    (hij : i ≤ j) (hj : j ≤ items.length) :
    evalExpr (n + 5) σ sc (.mk (.RangeIndex (.mk (.Var a) la) (some (.mk (.Int (Int.ofNat i)) li))
        (some (.mk (.Int (Int.ofNat j)) lj))) l) =
      .ok (SVal.plain (.list σ.heap.size)) (σ.alloc (.list ((items.drop i).take (j - i)))).2 := by
  rw [evalExpr, evalOptIndex, toIndex_lit n]
  simp only [Res.map, Res.bind]
  rw [evalOptIndex, toIndex_lit n]
  simp only [Res.map]
  rw [var_read (n + 3) la ha]
  simp only [hl, Option.getD_some, hij, hj, decide_true, Bool.and_self, if_true]
  rfl

/-- `x[i:]` with a literal start `i ≤ length` -/
theorem range_lit_tail {σ : State} {sc : List Addr} {a : List Char} {A : Addr} {s : Option Val} {items : List SVal} (n : Nat)
    (i : Nat) (la li l : Loc) (ha : scopeGet σ sc a = some ⟨.list A, s⟩) (hl : σ.getList A = some items)
    (hi : i ≤ items.length) :
    evalExpr (n + 5) σ sc (.mk (.RangeIndex (.mk (.Var a) la) (some (.mk (.Int (Int.ofNat i)) li)) none) l) =
      .ok (SVal.plain (.list σ.heap.size)) (σ.alloc (.list ((items.drop i).take (items.length - i)))).2 := by
  rw [evalExpr, evalOptIndex, toIndex_lit n]
  simp only [Res.map, Res.bind]
  rw [evalOptIndex]
  simp only
  rw [var_read (n + 3) la ha]
  simp only [hl, Option.getD_some, Option.getD_none, hi, Nat.le_refl, decide_true, Bool.and_self, if_true]
  rfl

/-- **`xs[k:k]`**: a new cell at `heap.size` holding `[]` -/
theorem range_empty_fresh {σ : State} {sc : List Addr} {a : List Char} {A : Addr} {s : Option Val} {items : List SVal} (n : Nat)
    (k : Nat) (la li lj l : Loc) (ha : scopeGet σ sc a = some ⟨.list A, s⟩) (hl : σ.getList A = some items)
    (hk : k ≤ items.length) :
    evalExpr (n + 5) σ sc (.mk (.RangeIndex (.mk (.Var a) la) (some (.mk (.Int (Int.ofNat k)) li))
        (some (.mk (.Int (Int.ofNat k)) lj))) l) =
      .ok (SVal.plain (.list σ.heap.size)) (σ.alloc (.list [])).2 := by
  rw [range_lit n k k la li lj l ha hl (Nat.le_refl _) hk]; simp

/-- **`xs[len:]`**: a new cell holding `[]` -/
theorem range_tail_empty_fresh {σ : State} {sc : List Addr} {a : List Char} {A : Addr} {s : Option Val} {items : List SVal}
    (n : Nat) (la li l : Loc) (ha : scopeGet σ sc a = some ⟨.list A, s⟩) (hl : σ.getList A = some items) :
    evalExpr (n + 5) σ sc (.mk (.RangeIndex (.mk (.Var a) la) (some (.mk (.Int (Int.ofNat items.length)) li)) none) l) =
      .ok (SVal.plain (.list σ.heap.size)) (σ.alloc (.list [])).2 := by
  rw [range_lit_tail n items.length la li l ha hl (Nat.le_refl _)]; simp

/-- the corollary of `C05.range_read_fresh` (arbitrary bound expressions): when the two bounds are equal the new cell
    holds `[]` — and it is still a new cell -/
theorem range_read_fresh_empty (n : Nat) (σ σ1 σ2 σ3 : State) (sc : List Addr) (ex : Expr) (start stop : Option Expr) (loc : Loc)
    (a b : Option Nat) (addr : Addr) (s : Option Val) (items : List SVal)
    (h1 : evalOptIndex n σ sc start = .ok a σ1) (h2 : evalOptIndex n σ1 sc stop = .ok b σ2)
    (h3 : evalExpr n σ2 sc ex = .ok ⟨.list addr, s⟩ σ3) (h4 : σ3.getList addr = some items)
    (hab : a.getD 0 = b.getD items.length) (hb : b.getD items.length ≤ items.length) :
    evalExpr (n + 1) σ sc (.mk (.RangeIndex ex start stop) loc) =
      .ok (SVal.plain (.list σ3.heap.size)) (σ3.alloc (.list [])).2 ∧ σ3.heap.size ≠ addr := by
  refine ⟨?_, C05.fresh_ne_live σ3 (.list []) addr items h4⟩
  rw [C05.range_read_fresh n σ σ1 σ2 σ3 sc ex start stop loc a b addr s items h1 h2 h3 h4 ⟨Nat.le_of_eq hab, hb⟩, hab]; simp

example : evalOptIndex 4 C05.σ₀ [0] (some (.mk (.Int (Int.ofNat 1)) (1, 1))) = .ok (some 1) C05.σ₀ ∧
    evalExpr 4 C05.σ₀ [0] (.mk (.Var c!"a") (1, 0)) = .ok ⟨.list 1, none⟩ C05.σ₀ ∧
    C05.σ₀.getList 1 = some [C05.sv 1, C05.sv 2] ∧ (some 1 : Option Nat).getD 0 = (some 1 : Option Nat).getD 2 := by
  refine ⟨?_, by rw [evalExpr]; rfl, by decide, rfl⟩
  rw [evalOptIndex, toIndex_lit 0]; rfl

/-! ### literals, spread, `..`, `+` -/

/-- **`[]`** (instance of `C05.list_literal_fresh`) -/
theorem empty_literal_fresh (n : Nat) (σ : State) (sc : List Addr) (loc : Loc) :
    evalExpr (n + 2) σ sc (.mk (.List [] false) loc) = .ok (SVal.plain (.list σ.heap.size)) (σ.alloc (.list [])).2 :=
  C05.list_literal_fresh (n + 1) σ σ sc [] loc [] (by rw [evalListItems])

/-- **`{}`** (instance of `C05.object_literal_fresh`) -/
theorem empty_object_fresh (n : Nat) (σ : State) (sc : List Addr) (loc : Loc) :
    evalExpr (n + 2) σ sc (.mk (.Object []) loc) = .ok (SVal.plain (.obj σ.heap.size)) (σ.alloc (.obj [])).2 :=
  C05.object_literal_fresh (n + 1) σ σ sc [] loc [] (by rw [evalProps])

/-- **`[ys..]`** with `ys` empty (instance of `C05P.spread_copy`, which is stated for arbitrary contents): a new cell, not
    the cell of `ys` -/
theorem spread_empty_fresh {σ : State} {sc : List Addr} {y : List Char} {Y : Addr} {s : Option Val} (n : Nat) (ly l : Loc)
    (hy : scopeGet σ sc y = some ⟨.list Y, s⟩) (hl : σ.getList Y = some []) :
    evalExpr (n + 3) σ sc (.mk (.List [.mk (.mk (.Var y) ly) true] false) l) =
      .ok (SVal.plain (.list σ.heap.size)) (σ.alloc (.list [])).2 ∧ σ.heap.size ≠ Y :=
  ⟨spread_copy n ly l hy hl, C05.fresh_ne_live σ (.list []) Y [] hl⟩

example : evalExpr 3 σE [0] (.mk (.List [.mk (.mk (.Var c!"e") (3, 1)) true] false) (3, 0)) =
    .ok (SVal.plain (.list 3)) (σE.alloc (.list [])).2 :=
  (spread_empty_fresh (σ := σE) (Y := 2) (s := none) 0 (3, 1) (3, 0) (by rfl) (by rfl)).1

theorem intRange_empty (a b : Int) (h : b ≤ a) : intRange a b = [] := by
  have : (b - a).toNat = 0 := by omega
  simp [intRange, this]

/-- **`a .. b`** with `b ≤ a` (in particular `0 .. 0`), from `C05.range_fresh` -/
theorem int_range_empty_fresh (n : Nat) (σ : State) (sc : List Addr) (a b : Int) (la lb loc : Loc) (h : b ≤ a) :
    evalExpr (n + 3) σ sc (.mk (.Range (.mk (.Int a) la) (.mk (.Int b) lb)) loc) =
      .ok (SVal.plain (.list σ.heap.size)) (σ.alloc (.list [])).2 := by
  have e1 : ∀ (d : List Char) (i : Int) (li : Loc), evalToInt (n + 2) σ sc d (.mk (.Int i) li) = .ok i σ := by
    intro d i li; rw [evalToInt, evalExpr]; rfl
  rw [C05.range_fresh (n + 2) σ σ σ sc _ _ loc a b (e1 _ a la) (e1 _ b lb), intRange_empty a b h]

/-- **`xs + ys`** with both empty (instance of `C05.sum_fresh`): a new cell, different from both operands — also for
    `xs + xs` -/
theorem sum_empty_fresh (fuel : Nat) (σ : State) (loc : Loc) (x y : Addr) (hx : σ.getList x = some []) (hy : σ.getList y = some []) :
    applyBinOp fuel σ .Sum loc (.list x) (.list y) = .ok (.list σ.heap.size) (σ.alloc (.list [])).2 ∧
    σ.heap.size ≠ x ∧ σ.heap.size ≠ y :=
  let h := C05.sum_fresh fuel σ loc x y [] [] hx hy
  ⟨h.1, h.2.1, h.2.2.1⟩

/-- the same as an expression over variables -/
theorem sum_empty_vars {σ : State} {sc : List Addr} {x y : List Char} {X Y : Addr} {sx sy : Option Val} (n : Nat) (lx ly ol l : Loc)
    (hx : scopeGet σ sc x = some ⟨.list X, sx⟩) (hy : scopeGet σ sc y = some ⟨.list Y, sy⟩)
    (hlx : σ.getList X = some []) (hly : σ.getList Y = some []) :
    evalExpr (n + 2) σ sc (.mk (.BinaryOp .Sum ol (.mk (.Var x) lx) (.mk (.Var y) ly)) l) =
      .ok (SVal.plain (.list σ.heap.size)) (σ.alloc (.list [])).2 := by
  rw [evalExpr, var_read n lx hx]
  simp only [Res.bind, var_read n ly hy, (sum_empty_fresh (n + 1) σ ol X Y hlx hly).1]

/-- `e + e` in `σE` is the new cell 3 -/
example : evalExpr 2 σE [0] (.mk (.BinaryOp .Sum (3, 2) (.mk (.Var c!"e") (3, 0)) (.mk (.Var c!"e") (3, 4))) (3, 2)) =
    .ok (SVal.plain (.list 3)) (σE.alloc (.list [])).2 :=
  sum_empty_vars (σ := σE) (X := 2) (Y := 2) (sx := none) (sy := none) 0 (3, 0) (3, 4) (3, 2) (3, 2) (by rfl) (by rfl) (by rfl) (by rfl)

example : (0 : Int) ≤ 0 ∧ (-3 : Int) ≤ 2 := by decide

/-! ### the collector of a list pattern -/

/-- corollary of `C05.collect_fresh` (stated for arbitrary contents): when the source has no item left for the collector
    (`length ≤ lhsLen - 1`) the collector is still bound to a NEW cell, holding `[]` -/
theorem collect_fresh_empty (n : Nat) (σ : State) (sc : List Addr) (names : List (List Char)) (e : Expr) (lhsLoc : Loc) (b : Addr)
    (decl : Bool) (lhsLen : Nat) (rhsItems : List SVal) (hb : σ.getList b = some rhsItems) (hlen : rhsItems.length ≤ lhsLen - 1) :
    bindList (n + 1) σ sc names [.mk e false] true lhsLoc b decl (lhsLen - 1) lhsLen =
      (bindNext n (σ.alloc (.list [])).2 sc names e (SVal.plain (.list σ.heap.size)) none decl).bind
        fun names' σ2 => bindList n σ2 sc names' [] true lhsLoc b decl (lhsLen - 1 + 1) lhsLen := by
  rw [C05.collect_fresh n σ sc names e lhsLoc b decl lhsLen rhsItems hb, List.drop_eq_nil_of_le hlen]

example : C05.σ₀.getList 1 = some [C05.sv 1, C05.sv 2] ∧ [C05.sv 1, C05.sv 2].length ≤ 3 - 1 := by decide

/-- **`[..t] := a`** with `a` empty (instance of `C05P.copy_by_collect`) -/
theorem collect_all_empty {σ : State} {A0 : Addr} {sc' : List Addr} {ms : ScopeMap} {a t : List Char} {A : Addr}
    {s : Option Val} (n : Nat) (lt la lp : Loc)
    (hs : σ.getScope A0 = some ms) (ha : scopeGet σ (A0 :: sc') a = some ⟨.list A, s⟩) (hl : σ.getList A = some [])
    (ht : t ≠ c!"_") (hfresh : scopeLookup t ms = none) :
    FreshCopy (n + 5) σ A0 sc' ms (.Declare (.mk (.List [.mk (.mk (.Var t) lt) false] true) lp) (.mk (.Var a) la))
      t lt σ.heap.size [] (σ.alloc (.list [])).2 :=
  copy_by_collect n lt la lp hs ha hl ht hfresh

example : FreshCopy 5 σE 0 [] [(c!"a", SVal.plain (.list 1), (1, 0)), (c!"e", SVal.plain (.list 2), (2, 0))]
    (.Declare (.mk (.List [.mk (.mk (.Var c!"t") (3, 3)) false] true) (3, 0)) (.mk (.Var c!"e") (3, 8)))
    c!"t" (3, 3) 3 [] (σE.alloc (.list [])).2 :=
  collect_all_empty (a := c!"e") (A := 2) (s := none) 0 (3, 3) (3, 8) (3, 0) (by rfl) (by rfl) (by rfl) (by decide) (by decide)

/-- **`[h, ..t] := a`** where `a` holds a one-element list (the statement `[h, ..t] := [1]` after its right-hand side):
    `h` is bound to the element, and `t` to a NEW cell — address `heap.size` — holding `[]` -/
theorem collect_rest_empty {σ : State} {A0 : Addr} {sc' : List Addr} {ms : ScopeMap} {a h t : List Char} {A : Addr}
    {s : Option Val} {v0 : SVal} (n : Nat) (lh lt la lp : Loc)
    (hs : σ.getScope A0 = some ms) (ha : scopeGet σ (A0 :: sc') a = some ⟨.list A, s⟩) (hl : σ.getList A = some [v0])
    (hh : h ≠ c!"_") (ht : t ≠ c!"_") (hth : t ≠ h) (hfh : scopeLookup h ms = none) (hft : scopeLookup t ms = none) :
    let σ1 := σ.set A0 (.scope ((h, v0, lh) :: ms))
    let σ3 := (σ1.alloc (.list [])).2.set A0 (.scope ((t, SVal.plain (.list σ.heap.size), lt) :: (h, v0, lh) :: ms))
    evalStmt (n + 6) σ (A0 :: sc')
        (.Declare (.mk (.List [.mk (.mk (.Var h) lh) false, .mk (.mk (.Var t) lt) false] true) lp) (.mk (.Var a) la)) =
      .ok .none σ3 ∧
    scopeGet σ3 (A0 :: sc') t = some (SVal.plain (.list σ.heap.size)) ∧ scopeGet σ3 (A0 :: sc') h = some v0 ∧
    σ3.getList σ.heap.size = some [] ∧ σ.heap[σ.heap.size]? = none ∧ σ.heap.size ≠ A ∧ σ3.getList A = some [v0] ∧
    σ3.heap.size = σ.heap.size + 1 := by
  intro σ1 σ3
  have e1 : σ1 = σ.set A0 (.scope ((h, v0, lh) :: ms)) := rfl
  have e3 : σ3 = (σ1.alloc (.list [])).2.set A0 (.scope ((t, SVal.plain (.list σ.heap.size), lt) :: (h, v0, lh) :: ms)) := rfl
  clear_value σ3
  clear_value σ1
  have hA0 : A0 < σ.heap.size := getScope_lt hs
  have hs1 : σ1.getScope A0 = some ((h, v0, lh) :: ms) := by rw [e1]; exact getScope_set_same _ hA0
  have hl1 : σ1.getList A = some [v0] := by rw [e1, getList_set_scope σ A0 _ A hs]; exact hl
  have hsz1 : σ1.heap.size = σ.heap.size := by rw [e1]; exact ScopeL.set_size _ _ _
  have hs2 : (σ1.alloc (.list [])).2.getScope A0 = some ((h, v0, lh) :: ms) := getScope_alloc _ hs1
  have hAne : σ.heap.size ≠ A := C05.fresh_ne_live σ (.list []) A [v0] hl
  refine ⟨?_, ?_, ?_, ?_, by simp, hAne, ?_, ?_⟩
  · rw [evalStmt, var_read (n + 4) la ha]
    simp only [Res.bind]
    rw [bindNext]
    simp only [hl, List.length_cons, List.length_nil, Nat.zero_add, Bool.true_and, Bool.not_true, Bool.false_and,
      Bool.false_eq_true, if_false, gt_iff_lt, Nat.lt_irrefl, decide_false, Nat.reduceAdd, Nat.reduceSub]
    rw [bindList]
    simp only [Bool.false_eq_true, if_false, hl, Bool.true_and, Nat.reduceSub, Nat.zero_ne_one, decide_false,
      List.getElem?_cons_zero]
    rw [bindNext_var, bindName_declare lh v0 hh hs hfh, ← e1]
    simp only [Res.bind]
    rw [bindList]
    simp only [Bool.false_eq_true, if_false, hl1, Bool.true_and, Nat.reduceSub, Nat.reduceAdd, decide_true, if_true,
      List.drop_succ_cons, List.drop_nil, alloc_fst, hsz1]
    rw [bindNext_var]
    have hc : [h].contains t = false := by simp [hth]
    have hlk : scopeLookup t ((h, v0, lh) :: ms) = none := by rw [lookup_cons_other hth]; exact hft
    simp only [bindNextName, ht, hc, if_false, if_true, Bool.false_eq_true, scopeDeclare, hs2, hlk, Res.bind]
    rw [bindList, e3]
  · rw [e3]; exact scopeGet_declared sc' t _ lt hs2
  · rw [e3]; exact scopeGet_declared_other sc' _ lt hs2 (Ne.symm hth) (lookup_cons_same h v0 lh ms)
  · rw [e3, getList_set_scope _ A0 _ _ hs2, ← hsz1]; exact getList_alloc_new σ1 []
  · rw [e3, getList_set_scope _ A0 _ _ hs2]; exact getList_alloc _ hl1
  · rw [e3, ScopeL.set_size, alloc_size, hsz1]

/-- `[h, ..t] := a;` where `a ↦ list 1 = [1]`: `t` is the new cell 2 -/
def σC : State := ⟨#[.scope [(c!"a", SVal.plain (.list 1), (1, 0))], .list [C05.sv 1]], []⟩

example :
    evalStmt 6 σC [0]
        (.Declare (.mk (.List [.mk (.mk (.Var c!"h") (2, 1)) false, .mk (.mk (.Var c!"t") (2, 6)) false] true) (2, 0))
          (.mk (.Var c!"a") (2, 12))) =
      .ok .none (((σC.set 0 (.scope [(c!"h", C05.sv 1, (2, 1)), (c!"a", SVal.plain (.list 1), (1, 0))])).alloc (.list [])).2.set 0
        (.scope [(c!"t", SVal.plain (.list 2), (2, 6)), (c!"h", C05.sv 1, (2, 1)), (c!"a", SVal.plain (.list 1), (1, 0))])) :=
  (collect_rest_empty (σ := σC) (A0 := 0) (sc' := []) (ms := [(c!"a", SVal.plain (.list 1), (1, 0))]) (a := c!"a") (h := c!"h")
    (t := c!"t") (A := 1) (s := none) (v0 := C05.sv 1) 0 (2, 1) (2, 6) (2, 12) (2, 0)
    (by rfl) (by rfl) (by rfl) (by decide) (by decide) (by decide) (by decide) (by decide)).1

/-! ### the rest parameter of a call -/

/-- the parameter bindings of a call (`evalCall`): parameters zipped with the values, plus `this` for a method call -/
def callBindings (fr : FuncRec) (fv : SVal) (loc : Loc) (vals : List SVal) : List (Expr × SVal) :=
  match fv.src with
  | some this => fr.args.zip vals ++ [(Expr.mk (.Var c!"this") loc, SVal.plain this)]
  | none => fr.args.zip vals

/-- **the rest parameter is a new cell.**  A call of a function with a collector `fn f(p₁, …, pₖ, ..r)` that receives at
    least `k` arguments: after the arguments and the callee are evaluated (state `σ2`), a NEW list cell — address
    `σ2.heap.size` — receives the surplus argument values `argVals.drop k`, and the body runs with the last parameter
    bound to that address.  Stated for arbitrary surplus. -/
theorem rest_param_fresh {n : Nat} {σ σ1 σ2 : State} {sc : List Addr} {f : Expr} {args : List ListItem} {loc : Loc}
    {argVals : List SVal} {fv : SVal} {a : Addr} {fr : FuncRec}
    (ha : evalListItems n σ sc args [] = .ok argVals σ1) (hf : evalExpr n σ1 sc f = .ok fv σ2) (hv : fv.v = .func a)
    (hfr : σ2.getFunc a = some fr) (hc : fr.collect = true) (hn : fr.args.length - 1 ≤ argVals.length) :
    evalCall (n + 1) σ sc f args loc =
      ((evalBlock n (σ2.alloc (.list (argVals.drop (fr.args.length - 1)))).2 fr.closure
          (callBindings fr fv loc (argVals.take (fr.args.length - 1) ++ [SVal.plain (.list σ2.heap.size)])) fr.stmts).mapErr
        (Err.funcCall fr.name loc)).bind finishCall := by
  have hn' : ¬ (fr.args.length - 1 > argVals.length) := by omega
  rw [evalCall]
  simp only [ha, hf, Res.bind, hv, hfr, hc, Bool.true_and, hn', decide_false, Bool.false_eq_true, if_false, Bool.not_true,
    Bool.false_and, if_true]
  unfold callBindings finishCall
  rfl

/-- … in particular with NO surplus argument (`argVals.length = k`): the rest parameter is still a NEW cell, holding `[]`,
    and the other parameters get exactly the arguments -/
theorem rest_param_fresh_empty {n : Nat} {σ σ1 σ2 : State} {sc : List Addr} {f : Expr} {args : List ListItem} {loc : Loc}
    {argVals : List SVal} {fv : SVal} {a : Addr} {fr : FuncRec}
    (ha : evalListItems n σ sc args [] = .ok argVals σ1) (hf : evalExpr n σ1 sc f = .ok fv σ2) (hv : fv.v = .func a)
    (hfr : σ2.getFunc a = some fr) (hc : fr.collect = true) (hn : argVals.length = fr.args.length - 1) :
    evalCall (n + 1) σ sc f args loc =
      ((evalBlock n (σ2.alloc (.list [])).2 fr.closure
          (callBindings fr fv loc (argVals ++ [SVal.plain (.list σ2.heap.size)])) fr.stmts).mapErr
        (Err.funcCall fr.name loc)).bind finishCall := by
  rw [rest_param_fresh ha hf hv hfr hc (Nat.le_of_eq hn.symm), ← hn, List.drop_length, List.take_length]

/-- scope 0: `f ↦ func 1`, cell 1 = `fn f(..r) { return r; }` closed over the global scope -/
def σF : State :=
  ⟨#[.scope [(c!"f", SVal.plain (.func 1), (1, 3))],
     .func ⟨some c!"f", [.mk (.Var c!"r") (1, 7)], true, [.Return (1, 12) (.mk (.Var c!"r") (1, 19))], [0]⟩], []⟩

/-- an instance of the hypotheses of `rest_param_fresh` / `rest_param_fresh_empty`: `f()` in `σF` — one parameter (the
    collector), no argument -/
example : evalListItems 1 σF [0] [] [] = .ok [] σF ∧
    evalExpr 1 σF [0] (.mk (.Var c!"f") (2, 0)) = .ok ⟨.func 1, none⟩ σF ∧
    σF.getFunc 1 = some ⟨some c!"f", [.mk (.Var c!"r") (1, 7)], true, [.Return (1, 12) (.mk (.Var c!"r") (1, 19))], [0]⟩ ∧
    ([] : List SVal).length = [Expr.mk (.Var c!"r") (1, 7)].length - 1 :=
  ⟨by rw [evalListItems], by rw [evalExpr]; rfl, rfl, rfl⟩

/-- the state in which the body of `fn f(..r) { … }` starts when called as `f()` from `σ`: a new list cell (address
    `σ.heap.size`) holding `[]`, and a new scope cell (the next address) holding `r ↦` that list -/
def restEntry (σ : State) (r : List Char) (lr : Loc) : State :=
  ((σ.alloc (.list [])).2.alloc (.scope [])).2.set (σ.heap.size + 1) (.scope [(r, SVal.plain (.list σ.heap.size), lr)])

/-- **`f()`** for a variable `f` holding `fn (..r) { body }`: down to the body -/
theorem call_rest0_spec {σ : State} {sc clo : List Addr} {f r : List Char} {F : Addr} {name : Option (List Char)}
    {body : List Stmt} (m : Nat) (lf lr loc : Loc)
    (hf : scopeGet σ sc f = some ⟨.func F, none⟩)
    (hfr : σ.getFunc F = some ⟨name, [.mk (.Var r) lr], true, body, clo⟩) (hr : r ≠ c!"_") :
    evalCall (m + 4) σ sc (.mk (.Var f) lf) [] loc =
      ((evalStmts (m + 2) (restEntry σ r lr) ((σ.heap.size + 1) :: clo) body).mapErr (Err.funcCall name loc)).bind finishCall := by
  rw [rest_param_fresh_empty (n := m + 3) (σ1 := σ) (σ2 := σ) (argVals := []) (fv := ⟨.func F, none⟩)
    (by rw [evalListItems]) (var_read (m + 2) lf hf) rfl hfr rfl rfl]
  simp only [callBindings, List.nil_append, List.zip_cons_cons, List.zip_nil_left]
  rw [evalBlock]
  simp only [alloc_fst, alloc_size]
  have hs : ((σ.alloc (.list [])).2.alloc (.scope [])).2.getScope (σ.heap.size + 1) = some [] := by
    have := getScope_alloc_new (σ.alloc (.list [])).2 []
    rwa [alloc_size] at this
  rw [declareAll, bindNext_var, bindName_declare lr _ hr hs (by rfl)]
  simp only [Res.bind]
  rw [declareAll]
  rfl

/-- `f()` in `σF` returns the new list cell 2 (cell 3 is the scope of the call); a second call, from the state the first
    left, returns the new cell 4 -/
example :
    evalCall 5 σF [0] (.mk (.Var c!"f") (2, 0)) [] (2, 1) = .ok (SVal.plain (.list 2)) (restEntry σF c!"r" (1, 7)) ∧
    evalCall 5 (restEntry σF c!"r" (1, 7)) [0] (.mk (.Var c!"f") (3, 0)) [] (3, 1) =
      .ok (SVal.plain (.list 4)) (restEntry (restEntry σF c!"r" (1, 7)) c!"r" (1, 7)) := by
  constructor
  · rw [call_rest0_spec (σ := σF) (F := 1) (name := some c!"f") (clo := [0]) 1 (2, 0) (1, 7) (2, 1) (by rfl) (by rfl) (by decide)]
    with_unfolding_all rfl
  · rw [call_rest0_spec (σ := restEntry σF c!"r" (1, 7)) (F := 1) (name := some c!"f") (clo := [0]) 1 (3, 0) (1, 7) (3, 1)
      (by rfl) (by rfl) (by decide)]
    with_unfolding_all rfl

/-- in the body, `r` is a list cell that did not exist before the call and holds `[]`; every cell that existed is as it
    was -/
theorem restEntry_spec (σ : State) (clo : List Addr) (r : List Char) (lr : Loc) :
    scopeGet (restEntry σ r lr) ((σ.heap.size + 1) :: clo) r = some (SVal.plain (.list σ.heap.size)) ∧
    (restEntry σ r lr).getList σ.heap.size = some [] ∧ σ.heap[σ.heap.size]? = none ∧
    (∀ c, c < σ.heap.size → (restEntry σ r lr).heap[c]? = σ.heap[c]?) ∧ (restEntry σ r lr).heap.size = σ.heap.size + 2 := by
  have hs : ((σ.alloc (.list [])).2.alloc (.scope [])).2.getScope (σ.heap.size + 1) = some [] := by
    have := getScope_alloc_new (σ.alloc (.list [])).2 []
    rwa [alloc_size] at this
  refine ⟨scopeGet_declared clo r _ lr hs, ?_, by simp, fun c hc => ?_, ?_⟩
  · unfold restEntry
    rw [getList_set_scope _ _ _ _ hs]
    exact getList_alloc _ (getList_alloc_new σ [])
  · unfold restEntry
    have h1 : c < (σ.alloc (.list [])).2.heap.size := by rw [alloc_size]; omega
    rw [set_other _ _ _ (Nat.ne_of_lt (by omega)), alloc_old _ _ h1, alloc_old σ _ hc]
  · unfold restEntry
    rw [ScopeL.set_size, alloc_size, alloc_size]

/-! ### all of them together -/

/-- **`builders_fresh_even_when_empty`.**  In a state `σ` where `x` holds a list `X` (contents `items`) and `y` an EMPTY list
    `Y`, each of the building operations below evaluates to the list value whose address is `σ.heap.size` — an address at
    which `σ` has no cell — in the state `σ` extended by one cell `.list []` (for the two binding forms: the state in which
    the collector / rest parameter is bound to that address).  The address differs from `X` and from `Y`; and evaluating any
    second building operation afterwards, in any state reached from there, gives yet another address, so `===` between
    the two results is `false`. -/
theorem builders_fresh_even_when_empty {σ : State} {sc : List Addr} {x y : List Char} {X Y : Addr} {sx sy : Option Val}
    {items : List SVal}
    (hx : scopeGet σ sc x = some ⟨.list X, sx⟩) (hlx : σ.getList X = some items)
    (hy : scopeGet σ sc y = some ⟨.list Y, sy⟩) (hly : σ.getList Y = some []) :
    let fresh : Res SVal := .ok (SVal.plain (.list σ.heap.size)) (σ.alloc (.list [])).2
    -- `x[k:k]`
    (∀ n k la li lj l, k ≤ items.length → evalExpr (n + 5) σ sc (.mk (.RangeIndex (.mk (.Var x) la)
        (some (.mk (.Int (Int.ofNat k)) li)) (some (.mk (.Int (Int.ofNat k)) lj))) l) = fresh) ∧
    -- `x[len:]`
    (∀ n la li l, evalExpr (n + 5) σ sc (.mk (.RangeIndex (.mk (.Var x) la)
        (some (.mk (.Int (Int.ofNat items.length)) li)) none) l) = fresh) ∧
    -- `[]`
    (∀ n l, evalExpr (n + 2) σ sc (.mk (.List [] false) l) = fresh) ∧
    -- `[y..]`
    (∀ n ly l, evalExpr (n + 3) σ sc (.mk (.List [.mk (.mk (.Var y) ly) true] false) l) = fresh) ∧
    -- `a .. b` with `b ≤ a`
    (∀ n (a b : Int) la lb l, b ≤ a → evalExpr (n + 3) σ sc (.mk (.Range (.mk (.Int a) la) (.mk (.Int b) lb)) l) = fresh) ∧
    -- `y + y`
    (∀ n l1 l2 ol l, evalExpr (n + 2) σ sc (.mk (.BinaryOp .Sum ol (.mk (.Var y) l1) (.mk (.Var y) l2)) l) = fresh) ∧
    -- the collector of a pattern with `lhsLen - 1` leading items, reached with no item of `x` left (`bindList` at the
    -- collector position; the statement `[h, ..t] := x` as a whole is `collect_rest_empty`)
    (∀ n names e lhsLoc decl lhsLen, items.length ≤ lhsLen - 1 →
      bindList (n + 1) σ sc names [.mk e false] true lhsLoc X decl (lhsLen - 1) lhsLen =
        (bindNext n (σ.alloc (.list [])).2 sc names e (SVal.plain (.list σ.heap.size)) none decl).bind
          fun names' σ2 => bindList n σ2 sc names' [] true lhsLoc X decl (lhsLen - 1 + 1) lhsLen) ∧
    -- the rest parameter of `f()` for `f` holding `fn (..r) { body }`
    (∀ m f r F name body clo lf lr loc, scopeGet σ sc f = some ⟨.func F, none⟩ →
      σ.getFunc F = some ⟨name, [.mk (.Var r) lr], true, body, clo⟩ → r ≠ c!"_" →
      evalCall (m + 4) σ sc (.mk (.Var f) lf) [] loc =
        ((evalStmts (m + 2) (restEntry σ r lr) ((σ.heap.size + 1) :: clo) body).mapErr (Err.funcCall name loc)).bind finishCall ∧
      scopeGet (restEntry σ r lr) ((σ.heap.size + 1) :: clo) r = some (SVal.plain (.list σ.heap.size)) ∧
      (restEntry σ r lr).getList σ.heap.size = some []) ∧
    -- the address is new, the cell is empty, the operands are untouched
    σ.heap[σ.heap.size]? = none ∧ (σ.alloc (.list [])).2.getList σ.heap.size = some [] ∧
    σ.heap.size ≠ X ∧ σ.heap.size ≠ Y ∧
    (σ.alloc (.list [])).2.getList X = some items ∧ (σ.alloc (.list [])).2.getList Y = some [] ∧
    -- a second build, in any later state, is a different container
    (∀ σ' : State, (σ.alloc (.list [])).2.heap.size ≤ σ'.heap.size → ∀ c',
      refEq (.list σ.heap.size) (.list (σ'.alloc c').1) = some false ∧
      refEq (.list (σ'.alloc c').1) (.list σ.heap.size) = some false) := by
  intro fresh
  refine ⟨fun n k la li lj l hk => range_empty_fresh n k la li lj l hx hlx hk,
    fun n la li l => range_tail_empty_fresh n la li l hx hlx,
    fun n l => empty_literal_fresh n σ sc l,
    fun n ly l => (spread_empty_fresh n ly l hy hly).1,
    fun n a b la lb l h => int_range_empty_fresh n σ sc a b la lb l h,
    fun n l1 l2 ol l => sum_empty_vars n l1 l2 ol l hy hy hly hly,
    fun n names e lhsLoc decl lhsLen h1 => collect_fresh_empty n σ sc names e lhsLoc X decl lhsLen items hlx h1,
    fun m f r F name body clo lf lr loc hf hfr hr =>
      ⟨call_rest0_spec m lf lr loc hf hfr hr, (restEntry_spec σ clo r lr).1, (restEntry_spec σ clo r lr).2.1⟩,
    by simp, getList_alloc_new σ [], C05.fresh_ne_live σ (.list []) X items hlx, C05.fresh_ne_live σ (.list []) Y [] hly,
    getList_alloc _ hlx, getList_alloc _ hly, fun σ' h c' => ?_⟩
  have := later_build_differs (σ := σ) (.list []) h c'
  exact ⟨this.2.1, this.2.2.1⟩

/-- `a[1:1]` in `σE` is the new cell 3, and then `a[2:]` the new cell 4 -/
example :
    evalExpr 5 σE [0] (.mk (.RangeIndex (.mk (.Var c!"a") (3, 0)) (some (.mk (.Int (Int.ofNat 1)) (3, 2)))
        (some (.mk (.Int (Int.ofNat 1)) (3, 4)))) (3, 1)) = .ok (SVal.plain (.list 3)) (σE.alloc (.list [])).2 ∧
    evalExpr 5 (σE.alloc (.list [])).2 [0] (.mk (.RangeIndex (.mk (.Var c!"a") (4, 0)) (some (.mk (.Int (Int.ofNat 2)) (4, 2)))
        none) (4, 1)) = .ok (SVal.plain (.list 4)) ((σE.alloc (.list [])).2.alloc (.list [])).2 :=
  ⟨range_empty_fresh (σ := σE) (A := 1) (s := none) (items := [C05.sv 1, C05.sv 2]) 0 1 (3, 0) (3, 2) (3, 4) (3, 1)
      (by rfl) (by rfl) (by decide),
   range_tail_empty_fresh (σ := (σE.alloc (.list [])).2) (A := 1) (s := none) (items := [C05.sv 1, C05.sv 2]) 0 (4, 0) (4, 2) (4, 1)
      (by rfl) (by rfl)⟩

/-! ### the same through the whole pipeline -/

/-- two empty slices of the same list are two containers -/
example : (run 100 c!"t.sd" c!"xs := [1, 2];\na := xs[1:1];\nb := xs[2:];\nprint(a === b);\nprint(a === a);\n").out =
    [c!"false", c!"true"] := by decide +kernel

/-- every builder, evaluated twice with an empty result: never the same container, never the operand -/
example : (run 100 c!"t.sd"
    c!"e := [];\nprint([] === []);\nprint([e..] === [e..]);\nprint((0 .. 0) === (0 .. 0));\nprint((e + e) === (e + e));\nprint((e + e) === e);\nprint([e..] === e);\nprint(e[0:0] === e);\nprint(e[0:] === e[:0]);\n").out =
    [c!"false", c!"false", c!"false", c!"false", c!"false", c!"false", c!"false", c!"false"] := by decide +kernel

/-- the collector with nothing left, and the rest parameter with no surplus argument -/
example : (run 100 c!"t.sd"
    c!"[h, ..t] := [1];\n[k, ..u] := [1];\nprint(t === u);\nprint(t == u);\nfn f(..r) { return r; }\na := f();\nb := f();\nprint(a === b);\nprint(a === a);\nfn g(p, ..r) { return r; }\nprint(g(1) === g(1));\n").out =
    [c!"false", c!"true", c!"false", c!"true", c!"false"] := by decide +kernel

/-- an empty result is a container of its own: growing one does not grow the other -/
example : (run 100 c!"t.sd"
    c!"xs := [1, 2];\na := xs[1:1];\nb := xs[1:1];\na += [7];\nprint(b == []);\nprint(a == [7]);\nprint(xs == [1, 2]);\n").out =
    [c!"true", c!"true", c!"true"] := by decide +kernel

end C05S
end Seed
