/-
  ParseRT2Sound.lean — the parser only produces well-formed trees: `parse_sound`
  (`parseStmts … = .ok p r → wfStmts true p`), `parseExpr_sound`.  Together with `parse_print_prog`
  (ParseRT2Prog.lean) this makes `parse ∘ print` the identity (up to positions) exactly on the parser's
  image: the printer is a section of the parser.

  One induction on the fuel over all 22 functions of the mutual block (`PSoundAll`), with the post-condition
  calculus `PRes.Sat`.
-/
import SeedProofs.Lemmas.ParseRT2Prog
set_option linter.unusedSimpArgs false
set_option linter.unusedVariables false
namespace Seed

/-- a successful result satisfies `P` -/
def PRes.Sat {α} (P : α → Prop) : PRes α → Prop
  | .ok a _ => P a
  | _ => True

namespace PRes.Sat
theorem ok {α} {P : α → Prop} {a : α} {r : List Span} (h : P a) : PRes.Sat P (.ok a r) := h
theorem err {α} {P : α → Prop} {e : PErr} : PRes.Sat P (.err e : PRes α) := True.intro
theorem timeout {α} {P : α → Prop} : PRes.Sat P (.timeout : PRes α) := True.intro

theorem bind {α β} {P : α → Prop} {Q : β → Prop} {r : PRes α} {f : α → List Span → PRes β} (h : PRes.Sat P r)
    (hf : ∀ a ts, P a → PRes.Sat Q (f a ts)) : PRes.Sat Q (r.bind f) := by
  cases r with
  | ok a rest => exact hf a rest h
  | err e => exact True.intro
  | timeout => exact True.intro

theorem map {α β} {Q : β → Prop} {r : PRes α} {f : α → β} (h : PRes.Sat (fun a => Q (f a)) r) :
    PRes.Sat Q (r.map f) := by
  cases r with
  | ok a rest => exact h
  | err e => exact True.intro
  | timeout => exact True.intro

theorem elim {α} {P : α → Prop} {r : PRes α} {a : α} {rest : List Span} (h : PRes.Sat P r) (hr : r = .ok a rest) :
    P a := by
  subst hr; exact h
end PRes.Sat

theorem expectTok_sat (t : Token) (ts : List Span) : PRes.Sat (fun _ => True) (expectTok t ts) := by
  unfold expectTok
  split
  · exact True.intro
  · split <;> exact True.intro

theorem expectIdent_sat (ts : List Span) : PRes.Sat (fun _ => True) (expectIdent ts) := by
  unfold expectIdent
  split
  · exact True.intro
  · split <;> exact True.intro

/-! ### well-formedness of reversed accumulators -/

theorem wfItems_iff {fn : Bool} {l : List ListItem} : wfItems fn l = true ↔ ∀ i ∈ l, wfE fn i.e = true := by
  induction l with
  | nil => simp [wfItems]
  | cons a l ih => obtain ⟨e, s⟩ := a; simp [wfItems, ih, ListItem.e]

theorem wfProps_iff {fn : Bool} {l : List PropItem} : wfProps fn l = true ↔ ∀ p ∈ l, wfProp fn p = true := by
  induction l with
  | nil => simp [wfProps]
  | cons a l ih => cases a <;> simp [wfProps, ih, wfProp, and_assoc]

theorem wfEs_iff {fn : Bool} {l : List Expr} : wfEs fn l = true ↔ ∀ e ∈ l, wfE fn e = true := by
  induction l with
  | nil => simp [wfEs]
  | cons a l ih => simp [wfEs, ih]

theorem wfStmts_iff {fn : Bool} {l : List Stmt} : wfStmts fn l = true ↔ ∀ s ∈ l, wfStmt fn s = true := by
  induction l with
  | nil => simp [wfStmts]
  | cons a l ih => simp [wfStmts, ih]

theorem wfItems_reverse (l : List ListItem) : wfItems true l.reverse = wfItems true l := by
  rw [Bool.eq_iff_iff, wfItems_iff, wfItems_iff]
  exact ⟨fun h i hi => h i (List.mem_reverse.mpr hi), fun h i hi => h i (List.mem_reverse.mp hi)⟩

theorem wfProps_reverse (l : List PropItem) : wfProps true l.reverse = wfProps true l := by
  rw [Bool.eq_iff_iff, wfProps_iff, wfProps_iff]
  exact ⟨fun h i hi => h i (List.mem_reverse.mpr hi), fun h i hi => h i (List.mem_reverse.mp hi)⟩

theorem wfEs_reverse (l : List Expr) : wfEs true l.reverse = wfEs true l := by
  rw [Bool.eq_iff_iff, wfEs_iff, wfEs_iff]
  exact ⟨fun h i hi => h i (List.mem_reverse.mpr hi), fun h i hi => h i (List.mem_reverse.mp hi)⟩

theorem wfStmts_reverse (l : List Stmt) : wfStmts true l.reverse = wfStmts true l := by
  rw [Bool.eq_iff_iff, wfStmts_iff, wfStmts_iff]
  exact ⟨fun h i hi => h i (List.mem_reverse.mpr hi), fun h i hi => h i (List.mem_reverse.mp hi)⟩

/-- the shapes in which the parser returns its accumulators -/
theorem wfItems_rev_cons {e : Expr} {s : Bool} {acc : List ListItem} (he : wfE true e = true)
    (hacc : wfItems true acc = true) : wfItems true (ListItem.mk e s :: acc).reverse = true := by
  rw [wfItems_reverse]; simp only [wfItems, he, hacc, Bool.and_self]

theorem wfEs_rev_cons {e : Expr} {acc : List Expr} (he : wfE true e = true)
    (hacc : wfEs true acc = true) : wfEs true (e :: acc).reverse = true := by
  rw [wfEs_reverse]; simp only [wfEs, he, hacc, Bool.and_self]

theorem wfStmts_rev {acc : List Stmt} (hacc : wfStmts true acc = true) : wfStmts true acc.reverse = true := by
  rw [wfStmts_reverse]; exact hacc

theorem wfItems_rev {acc : List ListItem} (hacc : wfItems true acc = true) : wfItems true acc.reverse = true := by
  rw [wfItems_reverse]; exact hacc

theorem wfEs_rev {acc : List Expr} (hacc : wfEs true acc = true) : wfEs true acc.reverse = true := by
  rw [wfEs_reverse]; exact hacc

theorem wfProps_rev {acc : List PropItem} (hacc : wfProps true acc = true) : wfProps true acc.reverse = true := by
  rw [wfProps_reverse]; exact hacc

theorem collect_ok {α} {c : Bool} {l : List α} (h : c = true → l ≠ []) : (!c || !l.isEmpty) = true := by
  cases c with
  | false => rfl
  | true => cases l with
    | nil => exact absurd rfl (h rfl)
    | cons a l => rfl

theorem assignOp_sound {t : Token} {op : BinaryOp} (h : assignOpOf t = some op) : (assignTokOf op).isSome = true := by
  cases t <;> simp [assignOpOf, lookupAssoc, Gen.assignOps] at h <;> subst h <;> rfl

theorem wfIf_ok {bs : List Branch} {els : Option (List Stmt)}
    (h : bs ≠ [] ∧ wfBs true bs = true ∧ ∀ e, els = some e → wfStmts true e = true) :
    wfStmt true (.If bs els) = true := by
  have hne : (!bs.isEmpty) = true := by
    cases bs with
    | nil => exact absurd rfl h.1
    | cons a l => rfl
  cases els with
  | none => simp only [wfStmt, hne, h.2.1, Bool.and_self]
  | some e => simp only [wfStmt, hne, h.2.1, h.2.2 e rfl, Bool.and_self]

theorem wfOpAssign_ok {t : Token} {op : BinaryOp} {l r : Expr} {ol : Loc} (h : assignOpOf t = some op)
    (hl : wfE true l = true) (hr : wfE true r = true) : wfStmt true (.OpAssign l op ol r) = true := by
  simp only [wfStmt, assignOp_sound h, hl, hr, Bool.and_self]

theorem rev_cons_ne_nil {α} (a : α) (l : List α) : (a :: l).reverse ≠ [] := by
  simp

theorem PRes.Sat.mono {α} {P Q : α → Prop} {r : PRes α} (h : PRes.Sat P r) (hpq : ∀ a, P a → Q a) : PRes.Sat Q r := by
  cases r with
  | ok a rest => exact hpq a h
  | err e => exact True.intro
  | timeout => exact True.intro

/-- an already parsed atom handed to the expression parser is well-formed -/
def wfPre : Option RawExpr → Bool
  | none => true
  | some a => wfR true a

/-! ### the invariant -/

structure PSoundAll (n : Nat) : Prop where
  parseAtom : ∀ pre ts, wfPre pre = true → PRes.Sat (fun a => wfR true a = true) (parseAtom n pre ts)
  parsePostfix : ∀ l pre ts, wfPre pre = true → PRes.Sat (fun a => wfR true a = true) (parsePostfix n l pre ts)
  postfixLoop : ∀ l acc ts, wfR true acc = true → PRes.Sat (fun a => wfR true a = true) (postfixLoop n l acc ts)
  parseIndexTail : ∀ e ts, wfE true e = true → PRes.Sat (fun a => wfR true a = true) (parseIndexTail n e ts)
  parseRangeEnd : ∀ e s ts, wfE true e = true → wfO true s = true →
    PRes.Sat (fun a => wfR true a = true) (parseRangeEnd n e s ts)
  parseTier : ∀ k l pre ts, wfPre pre = true → PRes.Sat (fun a => wfR true a = true) (parseTier n k l pre ts)
  tierLoop : ∀ k l acc ts, wfR true acc = true → PRes.Sat (fun a => wfR true a = true) (tierLoop n k l acc ts)
  parseExpr1 : ∀ s l pre ts, wfPre pre = true → PRes.Sat (fun a => wfR true a = true) (parseExpr1 n s l pre ts)
  rangeLoop : ∀ s l acc ts, wfR true acc = true → PRes.Sat (fun a => wfR true a = true) (rangeLoop n s l acc ts)
  parseExpr : ∀ s ts, PRes.Sat (fun e => wfE true e = true) (parseExpr n s ts)
  parseArgs : ∀ acc ts, wfItems true acc = true → PRes.Sat (fun l => wfItems true l = true) (parseArgs n acc ts)
  parseExprList : ∀ acc ts, wfItems true acc = true →
    PRes.Sat (fun p => wfItems true p.1 = true ∧ (p.2 = true → p.1 ≠ [])) (parseExprList n acc ts)
  parseParams : ∀ acc ts, wfEs true acc = true →
    PRes.Sat (fun p => wfEs true p.1 = true ∧ (p.2 = true → p.1 ≠ [])) (parseParams n acc ts)
  parsePropItems : ∀ acc ts, wfProps true acc = true →
    PRes.Sat (fun l => wfProps true l = true) (parsePropItems n acc ts)
  parsePropTail : ∀ acc ts, wfProps true acc = true →
    PRes.Sat (fun l => wfProps true l = true) (parsePropTail n acc ts)
  parseBlock : ∀ ts, PRes.Sat (fun l => wfStmts true l = true) (parseBlock n ts)
  parseStmts : ∀ c acc ts, wfStmts true acc = true →
    PRes.Sat (fun l => wfStmts true l = true ∧ (acc ≠ [] → l ≠ [])) (parseStmts n c acc ts)
  parseIf : ∀ ts, PRes.Sat (fun p => p.1 ≠ [] ∧ wfBs true p.1 = true ∧ ∀ e, p.2 = some e → wfStmts true e = true)
    (parseIf n ts)
  parseStmtTail : ∀ lhs ts, wfE true lhs = true → PRes.Sat (fun s => wfStmt true s = true) (parseStmtTail n lhs ts)
  parseExprStmt : ∀ amb l pre ts, wfPre pre = true →
    PRes.Sat (fun s => wfStmt true s = true) (parseExprStmt n amb l pre ts)
  parseRawStmt : ∀ amb ts, PRes.Sat (fun s => wfStmt true s = true) (parseRawStmt n amb ts)
  parseBraceStmt : ∀ amb l ts, PRes.Sat (fun s => wfStmt true s = true) (parseBraceStmt n amb l ts)

theorem wfPre_none : wfPre none = true := rfl
theorem wfPre_some (a : RawExpr) : wfPre (some a) = wfR true a := rfl

/-- close a side condition or a final post-condition from the facts collected so far -/
macro "ps_side" : tactic =>
  `(tactic| first
    | assumption
    | rfl
    | exact wfItems_rev_cons ‹_› ‹_›
    | exact wfEs_rev_cons ‹_› ‹_›
    | exact wfItems_rev ‹_› | exact wfEs_rev ‹_› | exact wfProps_rev ‹_›
    | exact ⟨wfItems_rev_cons ‹_› ‹_›, fun _ => rev_cons_ne_nil _ _⟩
    | exact ⟨wfEs_rev_cons ‹_› ‹_›, fun _ => rev_cons_ne_nil _ _⟩
    | exact ⟨wfItems_rev ‹_›, fun h => by cases h⟩
    | exact ⟨wfEs_rev ‹_›, fun h => by cases h⟩
    | exact wfIf_ok ‹_›
    | exact wfOpAssign_ok ‹_› ‹_› ‹_›
    | (focus (simp_all [wfPre_none, wfPre_some, wfR, wfE, wfO, wfItems, wfProps, wfEs, wfStmts, wfStmt, wfBs,
        wfItems_reverse, wfProps_reverse, wfEs_reverse, wfStmts_reverse, assignOp_sound, collect_ok]; done)))

/-- a (sub-)call satisfies its post-condition, by the induction hypothesis -/
macro "ps_call " ih:ident : tactic =>
  `(tactic| first
    | exact expectTok_sat _ _ | exact expectIdent_sat _
    | ((with_reducible refine PSoundAll.parseAtom $ih _ _ ?_); ps_side)
    | ((with_reducible refine PSoundAll.parsePostfix $ih _ _ _ ?_); ps_side)
    | ((with_reducible refine PSoundAll.postfixLoop $ih _ _ _ ?_); ps_side)
    | ((with_reducible refine PSoundAll.parseIndexTail $ih _ _ ?_); ps_side)
    | ((with_reducible refine PSoundAll.parseRangeEnd $ih _ _ _ ?_ ?_) <;> ps_side)
    | ((with_reducible refine PSoundAll.parseTier $ih _ _ _ _ ?_); ps_side)
    | ((with_reducible refine PSoundAll.tierLoop $ih _ _ _ _ ?_); ps_side)
    | ((with_reducible refine PSoundAll.parseExpr1 $ih _ _ _ _ ?_); ps_side)
    | ((with_reducible refine PSoundAll.rangeLoop $ih _ _ _ _ ?_); ps_side)
    | (with_reducible exact PSoundAll.parseExpr $ih _ _)
    | ((with_reducible refine PSoundAll.parseArgs $ih _ _ ?_); ps_side)
    | ((with_reducible refine PSoundAll.parseExprList $ih _ _ ?_); ps_side)
    | ((with_reducible refine PSoundAll.parseParams $ih _ _ ?_); ps_side)
    | ((with_reducible refine PSoundAll.parsePropItems $ih _ _ ?_); ps_side)
    | ((with_reducible refine PSoundAll.parsePropTail $ih _ _ ?_); ps_side)
    | (with_reducible exact PSoundAll.parseBlock $ih _)
    | ((with_reducible refine PSoundAll.parseStmts $ih _ _ _ ?_); ps_side)
    | ((with_reducible refine PRes.Sat.mono (PSoundAll.parseStmts $ih _ _ _ ?_) ?_) <;>
        first | ps_side | (intro l h; exact ⟨h.1, fun _ => h.2 (List.cons_ne_nil _ _)⟩) | (intro l h; exact h.1))
    | (with_reducible exact PSoundAll.parseIf $ih _)
    | ((with_reducible refine PSoundAll.parseStmtTail $ih _ _ ?_); ps_side)
    | ((with_reducible refine PSoundAll.parseExprStmt $ih _ _ _ _ ?_); ps_side)
    | (with_reducible exact PSoundAll.parseRawStmt $ih _ _)
    | (with_reducible exact PSoundAll.parseBraceStmt $ih _ _ _))

macro "ps_auto " ih:ident : tactic =>
  `(tactic| repeat' first
    | (with_reducible exact PRes.Sat.err)
    | (with_reducible exact PRes.Sat.timeout)
    | ((with_reducible apply PRes.Sat.bind); (ps_call $ih))
    | ps_call $ih
    | ((with_reducible apply PRes.Sat.map); ps_call $ih)
    | intro _ _ _
    | ((with_reducible apply PRes.Sat.ok); ps_side)
    | split)

theorem psoundAll_zero : PSoundAll 0 := by
  constructor <;> intros
  · unfold parseAtom; exact True.intro
  · unfold parsePostfix; exact True.intro
  · unfold postfixLoop; exact True.intro
  · unfold parseIndexTail; exact True.intro
  · unfold parseRangeEnd; exact True.intro
  · unfold parseTier; exact True.intro
  · unfold tierLoop; exact True.intro
  · unfold parseExpr1; exact True.intro
  · unfold rangeLoop; exact True.intro
  · unfold parseExpr; exact True.intro
  · unfold parseArgs; exact True.intro
  · unfold parseExprList; exact True.intro
  · unfold parseParams; exact True.intro
  · unfold parsePropItems; exact True.intro
  · unfold parsePropTail; exact True.intro
  · unfold parseBlock; exact True.intro
  · unfold parseStmts; exact True.intro
  · unfold parseIf; exact True.intro
  · unfold parseStmtTail; exact True.intro
  · unfold parseExprStmt; exact True.intro
  · unfold parseRawStmt; exact True.intro
  · unfold parseBraceStmt; exact True.intro

theorem psoundAll_succ (n : Nat) (ih : PSoundAll n) : PSoundAll (n + 1) := by
  constructor
  · intro pre ts hpre; (conv => arg 2; unfold parseAtom); ps_auto ih
  · intro l pre ts hpre; (conv => arg 2; unfold parsePostfix); ps_auto ih
  · intro l acc ts hacc; (conv => arg 2; unfold postfixLoop); ps_auto ih
  · intro e ts he; (conv => arg 2; unfold parseIndexTail); ps_auto ih
  · intro e s ts he hs; (conv => arg 2; unfold parseRangeEnd); ps_auto ih
  · intro k l pre ts hpre; (conv => arg 2; unfold parseTier); ps_auto ih
  · intro k l acc ts hacc; (conv => arg 2; unfold tierLoop); ps_auto ih
  · intro s l pre ts hpre; (conv => arg 2; unfold parseExpr1); ps_auto ih
  · intro s l acc ts hacc; (conv => arg 2; unfold rangeLoop); ps_auto ih
  · intro s ts
    (conv => arg 2; unfold parseExpr)
    exact PRes.Sat.map ((ih.parseExpr1 s (headLoc ts) none ts rfl).mono (fun a h => by simpa [wfE] using h))
  · intro acc ts hacc; (conv => arg 2; unfold parseArgs); ps_auto ih
  · intro acc ts hacc; (conv => arg 2; unfold parseExprList); ps_auto ih
  · intro acc ts hacc; (conv => arg 2; unfold parseParams); ps_auto ih
  · intro acc ts hacc; (conv => arg 2; unfold parsePropItems); ps_auto ih
  · intro acc ts hacc; (conv => arg 2; unfold parsePropTail); ps_auto ih
  · intro ts; (conv => arg 2; unfold parseBlock); ps_auto ih
  · intro c acc ts hacc; (conv => arg 2; unfold parseStmts); ps_auto ih
  · intro ts; (conv => arg 2; unfold parseIf); ps_auto ih
  · intro lhs ts hl; (conv => arg 2; unfold parseStmtTail); ps_auto ih
  · intro amb l pre ts hpre; (conv => arg 2; unfold parseExprStmt); ps_auto ih
  · intro amb ts; (conv => arg 2; unfold parseRawStmt); ps_auto ih
  · intro amb l ts; (conv => arg 2; unfold parseBraceStmt); ps_auto ih

theorem psoundAll (n : Nat) : PSoundAll n := by
  induction n with
  | zero => exact psoundAll_zero
  | succ n ih => exact psoundAll_succ n ih

/-! ### the parser's image is well-formed -/

/-- every statement list the parser returns (from any state of its accumulator that is well-formed, in
    particular from the empty one) is well-formed -/
theorem parse_sound {fuel : Nat} {c : Bool} {ts r : List Span} {p : List Stmt}
    (h : parseStmts fuel c [] ts = .ok p r) : wfStmts true p = true :=
  ((psoundAll fuel).parseStmts c [] ts rfl).elim h |>.1

theorem parseExpr_sound {fuel : Nat} {s : Bool} {ts r : List Span} {e : Expr}
    (h : parseExpr fuel s ts = .ok e r) : wfE true e = true :=
  ((psoundAll fuel).parseExpr s ts).elim h

/-- the front end only produces well-formed programs -/
theorem parseProg_sound {src : List Char} {p : List Stmt} (h : parseProg src = .ok p) : wfStmts true p = true := by
  unfold parseProg at h
  generalize lexAll src = lx at h
  obtain ⟨ts, le⟩ := lx
  dsimp only at h
  split at h
  · cases h
  · cases h
  · rename_i stmts rest heq
    split at h
    · cases h
    · cases h; exact parse_sound heq

theorem parseExprTop_sound {src : List Char} {e : Expr} (h : parseExprTop src = .ok e) : wfE true e = true := by
  unfold parseExprTop at h
  generalize lexAll src = lx at h
  obtain ⟨ts, le⟩ := lx
  dsimp only at h
  split at h
  · cases h
  · cases h
  · rename_i e' rest heq
    split at h
    · cases h
    · split at h
      · cases h
      · cases h; exact parseExpr_sound heq

/-- `parse ∘ print` is the identity (up to positions) on the parser's image: a program that the front end
    produced from some source text is given back by parsing its printed tokens -/
theorem print_parse_section {src : List Char} {p : List Stmt} (h : parseProg src = .ok p) (ts : List Span)
    (hts : ts.map Span.tok = prStmts p) :
    ∃ p', parseStmts (parseFuel ts) false [] ts = .ok p' [] ∧ stripStmts p' = stripStmts p :=
  parse_print_prog p (parseProg_sound h) ts hts

theorem print_parse_section_expr {src : List Char} {e : Expr} (h : parseExprTop src = .ok e) (ts : List Span)
    (hts : ts.map Span.tok = prE 1 e) :
    ∃ e', parseExpr (parseFuel ts) false ts = .ok e' [] ∧ stripE e' = stripE e :=
  parse_print_expr e (parseExprTop_sound h) ts hts

end Seed
