/-
  IdiomsProofs2.lean — idioms, part 2.

    range_assign_from_own_slice (C11)   `xs[i:j] = xs[k:l]` (the same variable on both sides): the right-hand side is
                                        built first, as a FRESH list (a snapshot of `(items.drop k).take (l - k)`), and
                                        then spliced into the cell of `xs`; so overlapping ranges copy the OLD items.
                                        (`Seed.evalExpr_range_list` is the equation `C11.eval_slice` states,
                                        `Seed.assign_range_stmt` the one `C11.range_assign_program` states.)
    opassign_key_evaluated_once (C12)   `o[ke] op= rhs`: right-hand side, target, then ONE evaluation of the key `ke`,
                                        then `bindProp` reads and writes under that one name.
-/
import SeedProofs.Lemmas.IdiomsProofs
import SeedProofs.Lemmas.C20Bind
import SeedProofs.Lemmas.C12Map
namespace Seed.Idioms
open Seed Gen

/-! ### T2: `xs[i:j] = xs[k:l]` -/

/-- an integer literal -/
def intLit (k : Nat) (l : Loc) : Expr := .mk (.Int (k : Int)) l

theorem intLit_eval (m : Nat) (σ : State) (sc : List Addr) (k : Nat) (l : Loc) :
    evalExpr (m + 1) σ sc (intLit k l) = .ok ⟨.int (k : Int), none⟩ σ := by
  rw [intLit, evalExpr]; rfl

theorem intLit_bound (m : Nat) (σ : State) (sc : List Addr) (k : Nat) (l : Loc) :
    Bound (m + 1) sc σ (some (intLit k l)) (some (k : Int)) σ := .given (intLit_eval m σ sc k l)

theorem nonNeg_nat (k : Nat) : NonNeg (some (k : Int)) := by
  intro z hz; cases hz; exact Int.natCast_nonneg k

theorem rangeLo_nat (k : Nat) : rangeLo (some (k : Int)) = k := by simp [rangeLo]
theorem rangeHi_nat (k len : Nat) : rangeHi (some (k : Int)) len = k := by simp [rangeHi]

/-- the statement `x[i:j] = x[k:l];` with literal bounds (positions: `lx li lj lr` on the left, `lx' lk ll lr'` on the
    right) -/
def ownSliceStmt (x : List Char) (i j k l : Nat) (lx li lj lr lx' lk ll lr' : Loc) : Stmt :=
  .Assign (.mk (.RangeIndex (.mk (.Var x) lx) (some (intLit i li)) (some (intLit j lj))) lr)
          (.mk (.RangeIndex (.mk (.Var x) lx') (some (intLit k lk)) (some (intLit l ll))) lr')

/-- this is what the parser builds -/
example : parseProg c!"xs[1:4] = xs[0:3];" =
    .ok [ownSliceStmt c!"xs" 1 4 0 3 (1, 1) (1, 4) (1, 6) (1, 1) (1, 11) (1, 14) (1, 16) (1, 11)] := by
  with_unfolding_all rfl

/-- item `t` of the slice `(xs.drop k).take n` is item `k + t` of `xs` -/
theorem snapshot_get {α} (xs : List α) (k n t : Nat) (h : t < n) : ((xs.drop k).take n)[t]? = xs[k + t]? := by
  rw [List.getElem?_take_of_lt h, List.getElem?_drop]

/-- **range_assign_from_own_slice.**  The variable `x` holds the list cell `A` with items `items`; `k ≤ l ≤ len`,
    `i < j ≤ len` and `j - i = l - k`.  With fuel 11 or more `x[i:j] = x[k:l];` completes: first the slice
    `snap = (items.drop k).take (l - k)` is built as a FRESH cell (address: the old heap size — a snapshot, taken before
    anything is written), then it is spliced into `A`.  So
    * `A` holds `listSplice items i snap = items.take i ++ snap ++ items.drop j`, i.e. position `t` holds the OLD
      `items[k + (t - i)]` for `i ≤ t < j` and `items[t]` elsewhere — also when the two ranges overlap;
    * the snapshot cell still holds `snap`; it is the only new cell; nothing was printed; no cell other than `A` changed. -/
theorem range_assign_from_own_slice {σ : State} {sc : List Addr} {x : List Char} {A : Addr} {s : Option Val}
    {items : List SVal} (i j k l : Nat) (lx li lj lr lx' lk ll lr' : Loc)
    (hx : scopeGet σ sc x = some ⟨.list A, s⟩) (hA : σ.getList A = some items)
    (hkl : k ≤ l) (hl : l ≤ items.length) (hij : i < j) (hj : j ≤ items.length) (hlen : j - i = l - k) :
    let snap := (items.drop k).take (l - k)
    let σ' := (σ.alloc (.list snap)).2.set A (.list (listSplice items i snap))
    (∀ n, 11 ≤ n → evalStmt n σ sc (ownSliceStmt x i j k l lx li lj lr lx' lk ll lr') = .ok .none σ') ∧
    σ'.getList A = some (listSplice items i snap) ∧
    listSplice items i snap = items.take i ++ snap ++ items.drop j ∧
    (∀ t, (listSplice items i snap)[t]? =
      if t < i then items[t]? else if t < j then items[k + (t - i)]? else items[t]?) ∧
    (listSplice items i snap).length = items.length ∧
    A ≠ σ.heap.size ∧ σ'.getList σ.heap.size = some snap ∧
    σ'.heap.size = σ.heap.size + 1 ∧ σ'.out = σ.out ∧
    (∀ b, b ≠ A → b < σ.heap.size → σ'.heap[b]? = σ.heap[b]?) := by
  intro snap σ'
  have hsl : snap.length = l - k := by
    simp only [snap, List.length_take, List.length_drop]; omega
  have hAlt : A < σ.heap.size := getList_lt hA
  -- the right-hand side: a fresh cell
  have hr : evalExpr 5 σ sc (.mk (.RangeIndex (.mk (.Var x) lx') (some (intLit k lk)) (some (intLit l ll))) lr') =
      .ok (SVal.plain (.list σ.heap.size)) (σ.alloc (.list snap)).2 := by
    rw [evalExpr_range_list lr' (intLit_bound 0 σ sc k lk) (intLit_bound 0 σ sc l ll) (nonNeg_nat k) (nonNeg_nat l)
      (evalExpr_var 0 lx' hx) hA, rangeLo_nat, rangeHi_nat, if_pos ⟨hkl, hl⟩]
  -- the splice
  have hst := assign_range_stmt (x := x) (a := A) (s := s) (ys := snap) (xs := items) lx lr hr
    (getList_alloc_new σ snap) (scopeGet_alloc _ hx) (intLit_bound 4 _ sc i li) (intLit_bound 4 _ sc j lj)
    (nonNeg_nat i) (nonNeg_nat j) (getList_alloc_old _ hA)
  rw [rangeLo_nat, rangeHi_nat, if_neg (by omega), if_neg (by omega), if_neg (by omega), if_neg (by omega)] at hst
  have hA1 : (σ.alloc (.list snap)).2.getList A = some items := getList_alloc_old _ hA
  obtain ⟨g1, g2, g3, g4, _⟩ := set_list_facts (listSplice items i snap) hA1
  have hne : A ≠ σ.heap.size := Nat.ne_of_lt hAlt
  have hfit : i + snap.length ≤ items.length := by omega
  refine ⟨fun n hn => evalStmt_stable hn hst (fun e => by cases e), g1, ?_, fun t => ?_, listSplice_len _ _ _ hfit, hne,
    ?_, ?_, g4, fun b hb hlt => ?_⟩
  · unfold listSplice
    congr 2; omega
  · rw [listSplice_getElem? _ _ _ _ hfit]
    by_cases h1 : t < i
    · simp only [h1, if_true]
    · simp only [h1, if_false]
      have e : i + snap.length = j := by omega
      rw [e]
      by_cases h2 : t < j
      · simp only [h2, if_true]
        exact snapshot_get items k (l - k) (t - i) (by omega)
      · simp only [h2, if_false]
  · rw [getList_eq_some, g2 σ.heap.size (Ne.symm hne)]
    exact State.alloc_heap_new σ _
  · rw [g3, State.alloc_size]
  · rw [g2 b hb, State.alloc_heap_old σ _ hlt]

/-- scope 0: `xs ↦ list 1`; cell 1 = `[1, 2, 3, 4, 5]` -/
def σsl : State :=
  ⟨#[.scope [(c!"xs", SVal.plain (.list 1), (1, 1))],
     .list [SVal.plain (.int 1), SVal.plain (.int 2), SVal.plain (.int 3), SVal.plain (.int 4), SVal.plain (.int 5)]], []⟩

/-- the hypotheses hold for `xs[1:4] = xs[0:3]` on `[1, 2, 3, 4, 5]` (overlapping ranges), and the result is
    `[1, 1, 2, 3, 5]` — the old items, not `[1, 1, 1, 1, 5]` — with the snapshot `[1, 2, 3]` in the new cell 2 -/
example :
    evalStmt 11 σsl [0] (ownSliceStmt c!"xs" 1 4 0 3 (1, 1) (1, 4) (1, 6) (1, 1) (1, 11) (1, 14) (1, 16) (1, 11)) =
      .ok .none
        ⟨#[.scope [(c!"xs", SVal.plain (.list 1), (1, 1))],
           .list [SVal.plain (.int 1), SVal.plain (.int 1), SVal.plain (.int 2), SVal.plain (.int 3), SVal.plain (.int 5)],
           .list [SVal.plain (.int 1), SVal.plain (.int 2), SVal.plain (.int 3)]], []⟩ :=
  ((range_assign_from_own_slice (σ := σsl) (sc := [0]) (x := c!"xs") (A := 1) (s := none)
    (items := [SVal.plain (.int 1), SVal.plain (.int 2), SVal.plain (.int 3), SVal.plain (.int 4), SVal.plain (.int 5)])
    1 4 0 3 (1, 1) (1, 4) (1, 6) (1, 1) (1, 11) (1, 14) (1, 16) (1, 11) (by rfl) (by rfl) (by decide) (by decide)
    (by decide) (by decide) (by decide)).1 11 (Nat.le_refl _)).trans (by rfl)

/-- both shift directions on the source text (and the same through an alias: the snapshot is of the CELL) -/
example :
    (run 100 c!"t.sd" c!"xs := [1, 2, 3, 4, 5];\nxs[1:4] = xs[0:3];\nprint(xs == [1, 1, 2, 3, 5]);\nprint(xs[3]);\n").out =
      [c!"true", c!"3"] ∧
    (run 100 c!"t.sd" c!"xs := [1, 2, 3, 4, 5];\nxs[0:3] = xs[1:4];\nprint(xs == [2, 3, 4, 4, 5]);\nprint(xs[0]);\n").out =
      [c!"true", c!"2"] ∧
    (run 100 c!"t.sd" c!"xs := [1, 2, 3, 4, 5];\nys := xs;\nxs[1:5] = ys[0:4];\nprint(xs == [1, 1, 2, 3, 4]);\n").out =
      [c!"true"] := by
  decide +kernel

/-! ### T3: `o[ke] op= rhs` evaluates the key once -/

theorem evalToStr_stable {m n : Nat} (h : m ≤ n) {σ : State} {sc : List Addr} {d : List Char} {e : Expr}
    {r : Res (List Char)} (hr : evalToStr m σ sc d e = r) (hne : r ≠ .timeout) : evalToStr n σ sc d e = r := by
  induction h with
  | refl => exact hr
  | step _ ih =>
    rename_i j _
    rcases (monoAll j).evalToStr σ sc d e with h' | h'
    · rw [ih] at h'; exact absurd h' hne
    · rw [← h', ih]

/-- **opassign_key_evaluated_once.**  `o[ke] op= rhs;` for a variable `o` holding the object cell `A` and ANY key
    expression `ke`.  The order of the model (`evalStmt .OpAssign` → `bindNext .Index` → `bindProp`) is: the right-hand
    side (`σ → σ0`, value `rv`), the target `o`, then the key — ONE evaluation `evalToStr … ke`, `σ0 → σk`, giving the
    name `k`; it may print and allocate and call functions: that is the point — and then, in `σk`, `bindProp` reads the
    current value `cur` of `k` in `A`, computes `cur op rv` (`σk → σ3`: the same state, or one more list cell when `op`
    is `+` on lists) and stores it under the SAME name `k`.  Hence: the statement completes in
    `σ3.set A (.obj (objInsert k (cur op rv) props))` with `props` the properties of `A` after the one key evaluation;
    the key is not evaluated a second time — the final output is exactly `σk.out` (what `rhs` and the ONE evaluation of
    `ke` printed), the heap is `σk`'s (plus the possible concatenation cell) with only the cell `A` rewritten, and the
    value was read and written under the one name `k`. -/
theorem opassign_key_evaluated_once {n : Nat} {σ σ0 σk σ3 : State} {sc : List Addr} {o : List Char} {ke rhs : Expr}
    (lo li : Loc) (op : BinaryOp) (opLoc : Loc) {A : Addr} {s : Option Val} {rv cur : SVal} {k : List Char}
    {props : ObjMap} {w : Val}
    (hr : evalExpr n σ sc rhs = .ok rv σ0)
    (ho : scopeGet σ0 sc o = some ⟨.obj A, s⟩)
    (hk : evalToStr n σ0 sc c!"property" ke = .ok k σk)
    (hp : σk.getObj A = some props) (hc : objGet k props = some cur)
    (hop : applyBinOp n σk op opLoc cur.v rv.v = .ok w σ3) :
    let σ' := σ3.set A (.obj (objInsert k (SVal.plain w) props))
    (∀ m, n + 3 ≤ m → evalStmt m σ sc (.OpAssign (.mk (.Index (.mk (.Var o) lo) ke) li) op opLoc rhs) = .ok .none σ') ∧
    (σ3 = σk ∨ ∃ xs, σ3 = (σk.alloc (.list xs)).2) ∧
    σ'.out = σk.out ∧
    σ'.getObj A = some (objInsert k (SVal.plain w) props) ∧
    (∀ k', objGet k' (objInsert k (SVal.plain w) props) = if k' = k then some (SVal.plain w) else objGet k' props) ∧
    (∀ b, b ≠ A → b < σk.heap.size → σ'.heap[b]? = σk.heap[b]?) ∧
    σk.heap.size ≤ σ'.heap.size ∧ σ'.heap.size ≤ σk.heap.size + 1 := by
  intro σ'
  have hs3 := BindL.applyBinOp_state hop
  have hAlt : A < σk.heap.size := getObj_lt hp
  have hp3 : σ3.getObj A = some props := by
    rcases hs3 with e | ⟨xs, e⟩
    · rw [e]; exact hp
    · rw [e, getObj_eq_some, State.alloc_heap_old _ _ hAlt]; exact getObj_eq_some.mp hp
  have hst : evalStmt (n + 3) σ sc (.OpAssign (.mk (.Index (.mk (.Var o) lo) ke) li) op opLoc rhs) = .ok .none σ' := by
    rw [evalStmt, evalExpr_fuel_mono hr (by simp) (by omega : n ≤ n + 2)]
    simp only [Res.bind]
    rw [bindNext, evalExpr_var n lo ho]
    simp only [Res.bind]
    rw [evalToStr_stable (by omega : n ≤ n + 1) hk (by simp)]
    dsimp only
    rw [bindProp, hp]
    simp only [hc, opAssignValue, hop, Res.map, Res.bind, hp3]
    rfl
  have hlt3 : A < σ3.heap.size := getObj_lt hp3
  refine ⟨fun m hm => evalStmt_stable hm hst (fun e => by cases e), hs3, ?_, getObj_set_same hlt3 _, fun k' => ?_,
    fun b hb hlt => ?_, ?_, ?_⟩
  · show σ3.out = σk.out
    rcases hs3 with e | ⟨xs, e⟩ <;> rw [e] <;> rfl
  · exact objGet_objInsert k k' (SVal.plain w) props
  · rw [State.heap_set_other _ _ hb]
    rcases hs3 with e | ⟨xs, e⟩
    · rw [e]
    · rw [e, State.alloc_heap_old _ _ hlt]
  · rw [State.size_set]
    rcases hs3 with e | ⟨xs, e⟩
    · rw [e]; exact Nat.le_refl _
    · rw [e, State.alloc_size]; omega
  · rw [State.size_set]
    rcases hs3 with e | ⟨xs, e⟩
    · rw [e]; omega
    · rw [e, State.alloc_size]; exact Nat.le_refl _

/-- the missing-key case: when the ONE evaluation of `ke` names a key that the object does not have, the statement is the
    error `OpOnUndefinedIndex k` in the state `σk` that this one evaluation left — nothing is inserted, and the key is not
    evaluated again -/
theorem opassign_key_missing {n : Nat} {σ σ0 σk : State} {sc : List Addr} {o : List Char} {ke rhs : Expr}
    (lo li : Loc) (op : BinaryOp) (opLoc : Loc) {A : Addr} {s : Option Val} {rv : SVal} {k : List Char} {props : ObjMap}
    (hr : evalExpr n σ sc rhs = .ok rv σ0)
    (ho : scopeGet σ0 sc o = some ⟨.obj A, s⟩)
    (hk : evalToStr n σ0 sc c!"property" ke = .ok k σk)
    (hp : σk.getObj A = some props) (hc : objGet k props = none) :
    ∀ m, n + 3 ≤ m → evalStmt m σ sc (.OpAssign (.mk (.Index (.mk (.Var o) lo) ke) li) op opLoc rhs) =
      errAt li (Leaf.OpOnUndefinedIndex k) σk := by
  have hst : evalStmt (n + 3) σ sc (.OpAssign (.mk (.Index (.mk (.Var o) lo) ke) li) op opLoc rhs) =
      errAt li (Leaf.OpOnUndefinedIndex k) σk := by
    rw [evalStmt, evalExpr_fuel_mono hr (by simp) (by omega : n ≤ n + 2)]
    simp only [Res.bind]
    rw [bindNext, evalExpr_var n lo ho]
    simp only [Res.bind]
    rw [evalToStr_stable (by omega : n ≤ n + 1) hk (by simp)]
    dsimp only
    rw [bindProp, hp]
    simp only [hc, if_true]
    rfl
  exact fun m hm => evalStmt_stable hm hst (fun e => by cases e)

/-! #### a concrete instance: the key is a call of a function that prints -/

/-- the body of `fn key() { print("key"); return "a"; }` -/
def keyBody : List Stmt :=
  [.Expr (.mk (.Call (.mk (.Var c!"print") (2, 5)) [.mk (.mk (.Str c!"key" none) (2, 11)) false]) (2, 10)),
   .Return (3, 5) (.mk (.Str c!"a" none) (3, 12))]

/-- scope 0: `print`, `o ↦ obj 1`, `key ↦ func 2`; cell 1 = `{"a": 1, "b": 10}`; cell 2 = the function `key` -/
def σop : State :=
  ⟨#[.scope [(c!"print", SVal.plain (.builtin c!"print" .print), (0, 0)), (c!"o", SVal.plain (.obj 1), (5, 1)),
             (c!"key", SVal.plain (.func 2), (1, 4))],
     .obj [(c!"a", SVal.plain (.int 1)), (c!"b", SVal.plain (.int 10))],
     .func ⟨some c!"key", [], false, keyBody, [0]⟩], []⟩

/-- the state after ONE call of `key()`: its scope cell was pushed and `key` was printed -/
def σopK : State := ⟨σop.heap.push (.scope []), [c!"key"]⟩

/-- `key()` -/
def keyCall : Expr := .mk (.Call (.mk (.Var c!"key") (6, 3)) []) (6, 6)

/-- the hypotheses of `opassign_key_evaluated_once` hold for `o[key()] += 5` in `σop` (the key evaluation prints and
    allocates), and the conclusion: `key` was printed ONCE, one scope cell was pushed, `a` went from `1` to `6` -/
example :
    evalStmt 15 σop [0] (.OpAssign (.mk (.Index (.mk (.Var c!"o") (6, 1)) keyCall) (6, 2)) .Sum (6, 10)
        (.mk (.Int 5) (6, 13))) =
      .ok .none
        ⟨#[.scope [(c!"print", SVal.plain (.builtin c!"print" .print), (0, 0)), (c!"o", SVal.plain (.obj 1), (5, 1)),
                   (c!"key", SVal.plain (.func 2), (1, 4))],
           .obj [(c!"a", SVal.plain (.int 6)), (c!"b", SVal.plain (.int 10))],
           .func ⟨some c!"key", [], false, keyBody, [0]⟩,
           .scope []], [c!"key"]⟩ :=
  ((opassign_key_evaluated_once (n := 12) (σ := σop) (σ0 := σop) (σk := σopK) (σ3 := σopK) (sc := [0]) (o := c!"o")
    (ke := keyCall) (6, 1) (6, 2) .Sum (6, 10) (A := 1) (s := none) (rv := SVal.plain (.int 5))
    (cur := SVal.plain (.int 1)) (k := c!"a") (props := [(c!"a", SVal.plain (.int 1)), (c!"b", SVal.plain (.int 10))])
    (w := .int 6)
    (by with_unfolding_all rfl) (by rfl) (by with_unfolding_all rfl) (by rfl) (by rfl) (by with_unfolding_all rfl)).1 15
      (Nat.le_refl _)).trans (by rfl)

/-- a key function that counts its calls and names a DIFFERENT key at every call: `o[key()] += 5` calls it once
    (`calls` is `1`), reads `a` and writes `a` (`6`); `b` is untouched.  Two evaluations of the key would give `calls = 2`
    and write `1 + 5` under `b`. -/
example :
    (run 200 c!"t.sd"
      c!"calls := 0;\nfn key() {\n    calls = calls + 1;\n    print(\"key\");\n    if calls == 1 {\n        return \"a\";\n    }\n    return \"b\";\n}\no := {\"a\": 1, \"b\": 10};\no[key()] += 5;\nprint(calls);\nprint(o[\"a\"]);\nprint(o[\"b\"]);\n").out =
      [c!"key", c!"1", c!"6", c!"10"] := by
  decide +kernel

end Seed.Idioms
