/-
  Lemmas/C05ProgFrame.lean — which reads survive which writes: declared names in the innermost scope cell, writes
  to list / object cells against scope chains, allocation against everything that existed.  For the program-level
  theorems of C05.
-/
import SeedProofs.Lemmas.C05ProgStep
import SeedProofs.Lemmas.C12Map
namespace Seed
namespace C05P
open ScopeL HeapL

/-! ### the innermost scope cell after a declaration -/

theorem ne_of_lookup {a b : List Char} {m : ScopeMap} {p : SVal × Loc}
    (ha : scopeLookup a m = some p) (hb : scopeLookup b m = none) : a ≠ b := by
  rintro rfl; rw [ha] at hb; cases hb

/-- the chain resolves a name just declared in its innermost cell to the declared value -/
theorem scopeGet_declared {σ : State} {A0 : Addr} {ms : ScopeMap} (r : List Addr) (x : List Char) (v : SVal) (l : Loc)
    (hs : σ.getScope A0 = some ms) :
    scopeGet (σ.set A0 (.scope ((x, v, l) :: ms))) (A0 :: r) x = some v :=
  scopeGet_hit (getScope_set_same _ (getScope_lt hs)) (lookup_cons_same x v l ms) r

/-- … and the other names of that cell to what they held -/
theorem scopeGet_declared_other {σ : State} {A0 : Addr} {ms : ScopeMap} (r : List Addr) {x y : List Char} (v : SVal) (l : Loc)
    {w : SVal} {lw : Loc} (hs : σ.getScope A0 = some ms) (hy : y ≠ x) (hl : scopeLookup y ms = some (w, lw)) :
    scopeGet (σ.set A0 (.scope ((x, v, l) :: ms))) (A0 :: r) y = some w :=
  scopeGet_hit (getScope_set_same _ (getScope_lt hs)) (by rw [lookup_cons_other hy]; exact hl) r

theorem scopeGet_head {σ : State} {A0 : Addr} {ms : ScopeMap} (r : List Addr) {y : List Char}
    {w : SVal} {lw : Loc} (hs : σ.getScope A0 = some ms) (hl : scopeLookup y ms = some (w, lw)) :
    scopeGet σ (A0 :: r) y = some w :=
  scopeGet_hit hs hl r

/-! ### rewriting a scope cell changes no list, object or function -/

theorem getObj_set_scope (σ : State) (c : Addr) (m' : ScopeMap) (b : Addr) {m : ScopeMap} (h : σ.getScope c = some m) :
    (σ.set c (.scope m')).getObj b = σ.getObj b := by
  by_cases hb : b = c
  · subst hb
    unfold State.getObj; rw [set_same σ b _ (getScope_lt h), getScope_heap.mp h]
  · exact getObj_congr (set_other σ c _ hb)

theorem getFunc_set_scope (σ : State) (c : Addr) (m' : ScopeMap) (b : Addr) {m : ScopeMap} (h : σ.getScope c = some m) :
    (σ.set c (.scope m')).getFunc b = σ.getFunc b := by
  by_cases hb : b = c
  · subst hb
    unfold State.getFunc; rw [set_same σ b _ (getScope_lt h), getScope_heap.mp h]
  · exact getFunc_congr (set_other σ c _ hb)

/-! ### rewriting a list / object cell -/

theorem getList_set_same {σ : State} {a : Addr} {xs : List SVal} (ys : List SVal) (h : σ.getList a = some xs) :
    (σ.set a (.list ys)).getList a = some ys :=
  getList_heap.mpr (set_same σ a _ (getList_lt h))

theorem getObj_set_same {σ : State} {a : Addr} {m : ObjMap} (m' : ObjMap) (h : σ.getObj a = some m) :
    (σ.set a (.obj m')).getObj a = some m' :=
  getObj_heap.mpr (set_same σ a _ (getObj_lt h))

theorem getList_set_other {σ : State} {a b : Addr} (c : Cell) (h : b ≠ a) : (σ.set a c).getList b = σ.getList b :=
  getList_congr (set_other σ a c h)

theorem getObj_set_other {σ : State} {a b : Addr} (c : Cell) (h : b ≠ a) : (σ.set a c).getObj b = σ.getObj b :=
  getObj_congr (set_other σ a c h)

/-- no write to a list cell changes what any variable reads, through any chain -/
theorem scopeGet_set_list {σ : State} {a : Addr} {xs : List SVal} (ys : List SVal) (h : σ.getList a = some xs)
    (sc : List Addr) (x : List Char) : scopeGet (σ.set a (.list ys)) sc x = scopeGet σ sc x :=
  scopeGet_congr (fun b _ => by
    rw [getScope_set_nonscope σ a _ b (by rw [getScope_none_of_getList h]) (by intro m e; cases e)])

theorem scopeGet_set_obj {σ : State} {a : Addr} {m : ObjMap} (m' : ObjMap) (h : σ.getObj a = some m)
    (sc : List Addr) (x : List Char) : scopeGet (σ.set a (.obj m')) sc x = scopeGet σ sc x :=
  scopeGet_congr (fun b _ => by
    rw [getScope_set_nonscope σ a _ b (by rw [getScope_none_of_getObj h]) (by intro m e; cases e)])

theorem getScope_set_list {σ : State} {a : Addr} {xs : List SVal} (ys : List SVal) (h : σ.getList a = some xs) (b : Addr) :
    (σ.set a (.list ys)).getScope b = σ.getScope b :=
  getScope_set_nonscope σ a _ b (by rw [getScope_none_of_getList h]) (by intro m e; cases e)

theorem getScope_set_obj {σ : State} {a : Addr} {m : ObjMap} (m' : ObjMap) (h : σ.getObj a = some m) (b : Addr) :
    (σ.set a (.obj m')).getScope b = σ.getScope b :=
  getScope_set_nonscope σ a _ b (by rw [getScope_none_of_getObj h]) (by intro m e; cases e)

/-! ### allocation -/

theorem getScope_alloc {σ : State} {a : Addr} {m : ScopeMap} (c : Cell) (h : σ.getScope a = some m) :
    (σ.alloc c).2.getScope a = some m := by
  rw [getScope_congr (alloc_old σ c (getScope_lt h))]; exact h

theorem getList_alloc {σ : State} {a : Addr} {xs : List SVal} (c : Cell) (h : σ.getList a = some xs) :
    (σ.alloc c).2.getList a = some xs := by
  rw [getList_congr (alloc_old σ c (getList_lt h))]; exact h

theorem getObj_alloc {σ : State} {a : Addr} {m : ObjMap} (c : Cell) (h : σ.getObj a = some m) :
    (σ.alloc c).2.getObj a = some m := by
  rw [getObj_congr (alloc_old σ c (getObj_lt h))]; exact h

theorem getFunc_heap {σ : State} {a : Addr} {f : FuncRec} : σ.getFunc a = some f ↔ σ.heap[a]? = some (.func f) := by
  unfold State.getFunc
  cases hc : σ.heap[a]? with
  | none => simp
  | some c => cases c <;> simp

theorem getFunc_lt {σ : State} {a : Addr} {f : FuncRec} (h : σ.getFunc a = some f) : a < σ.heap.size :=
  (Array.getElem?_eq_some_iff.mp (getFunc_heap.mp h)).1

theorem getFunc_alloc {σ : State} {a : Addr} {f : FuncRec} (c : Cell) (h : σ.getFunc a = some f) :
    (σ.alloc c).2.getFunc a = some f := by
  rw [getFunc_congr (alloc_old σ c (getFunc_lt h))]; exact h

theorem getList_alloc_new (σ : State) (xs : List SVal) : (σ.alloc (.list xs)).2.getList σ.heap.size = some xs :=
  getList_heap.mpr (alloc_new σ _)

theorem getScope_alloc_new (σ : State) (m : ScopeMap) : (σ.alloc (.scope m)).2.getScope σ.heap.size = some m :=
  getScope_heap.mpr (alloc_new σ _)

/-- a lookup that succeeds depends only on cells that exist: it survives every change that keeps the existing cells
    (allocation, writes to fresh cells) -/
theorem scopeGet_some_frame {σ σ' : State} {sc : List Addr} {x : List Char} {v : SVal}
    (hold : ∀ c, c < σ.heap.size → σ'.heap[c]? = σ.heap[c]?) (h : scopeGet σ sc x = some v) :
    scopeGet σ' sc x = some v := by
  obtain ⟨pre, c, post, m, l, e, hs, h1, h2⟩ := scopeGet_some_iff.mp h
  refine scopeGet_some_iff.mpr ⟨pre, c, post, m, l, e, ?_, ?_, h2⟩
  · intro d hd
    obtain ⟨md, hd1, hd2⟩ := hs d hd
    exact ⟨md, by rw [getScope_congr (hold d (getScope_lt hd1))]; exact hd1, hd2⟩
  · rw [getScope_congr (hold c (getScope_lt h1))]; exact h1

theorem scopeGet_alloc {σ : State} {sc : List Addr} {x : List Char} {v : SVal} (c : Cell)
    (h : scopeGet σ sc x = some v) : scopeGet (σ.alloc c).2 sc x = some v :=
  scopeGet_some_frame (fun _ hb => alloc_old σ c hb) h

/-! ### `listSet` at a valid position -/

theorem getElem?_of_lt {α} {xs : List α} {i : Nat} (h : i < xs.length) : ∃ cur, xs[i]? = some cur :=
  ⟨xs[i], List.getElem?_eq_getElem h⟩

end C05P
end Seed
