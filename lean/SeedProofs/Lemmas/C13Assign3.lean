/-
  C13Assign3.lean — nested patterns in ASSIGNMENT mode, part 3: the theorems about the evaluator.

    assign_nested_exact / _any_fuel   the engine `bindNext … none false` on a nested pattern is the fuel-free `amatch`
                                      on every outcome (fuel ≥ size), resp. that or a time-out (any fuel)
    assign_nested                     ok ↔ `proj` defined ∧ leaf names pairwise distinct ∧ not bound earlier in this
                                      pattern ∧ each declared in the scope chain; the final state is `proj`'s with
                                      the leaf assignments made (`assignAll`)
    assign_nested_succeeds            success (some ok answer) ↔ shape ∧ distinct ∧ declared
    assign_nested_sound               the ⇒ half at any fuel;   assign_nested_not_ok   the failing half
    assign_nested_frame               what the final state is, cell by cell
    assign_nested_nearest / _others   the nearest binding of each leaf has the value at its path (declaration
                                      position kept), every other entry of every scope reads as before
    assign_nested_leaves / _eval      read-back through `scopeGet` / `evalExpr`
    assign_stmt_nested                the statement `p = rhs;`
  and the example `[a, [b, ..c]] = [1, [2, 3, 4]]` with `a`, `b`, `c` declared in three different scopes.
-/
import SeedProofs.Lemmas.C13Assign2
import SeedModel.Run
namespace Seed.C13N
open Seed Gen

/-! ### the fuel-free engine never answers `timeout` -/

theorem bind_nt {α β : Type} {r : Res α} {f : α → State → Res β} (h1 : r ≠ .timeout) (h2 : ∀ a σ, f a σ ≠ .timeout) :
    r.bind f ≠ .timeout := by
  cases r with
  | ok a σ => exact h2 a σ
  | err e σ => intro h; cases h
  | crash w σ => intro h; cases h
  | timeout => exact absurd rfl h1

theorem aName_nt (sc : List Addr) (names : List (List Char)) (σ : State) (x : List Char) (l : Loc) (v : SVal) :
    aName sc names σ x l v ≠ .timeout := by
  unfold aName
  split
  · intro h; cases h
  · split
    · intro h; cases h
    · split <;> (intro h; cases h)

mutual
theorem amatch_nt (sc : List Addr) : (p : Pat) → ∀ (names : List (List Char)) (σ : State) (v : SVal),
    amatch sc p names σ v ≠ .timeout
  | .var x l, names, σ, v => by
    rw [amatch]; exact aName_nt sc names σ x l v
  | .list ps c l, names, σ, v => by
    rw [amatch]
    split
    · split
      · intro h; cases h
      · split
        · intro h; cases h
        · split
          · intro h; cases h
          · exact amatchList_nt sc ps _ _ _ _ _ _ _
    · intro h; cases h
  | .obj pr l, names, σ, v => by
    rw [amatch]
    split
    · split
      · intro h; cases h
      · exact amatchProps_nt sc pr _ _ _ _ _ _
    · intro h; cases h
theorem amatchList_nt (sc : List Addr) : (ps : PatList) → ∀ (c : Bool) (l : Loc) (b : Addr) (i len : Nat)
    (names : List (List Char)) (σ : State), amatchList sc ps c l b i len names σ ≠ .timeout
  | .nil, c, l, b, i, len, names, σ => by
    rw [amatchList]; intro h; cases h
  | .cons p r, c, l, b, i, len, names, σ => by
    rw [amatchList]
    split
    · intro h; cases h
    · split
      · exact bind_nt (amatch_nt sc p _ _ _) (fun _ _ => amatchList_nt sc r _ _ _ _ _ _ _)
      · split
        · intro h; cases h
        · exact bind_nt (amatch_nt sc p _ _ _) (fun _ _ => amatchList_nt sc r _ _ _ _ _ _ _)
theorem amatchProps_nt (sc : List Addr) : (pr : PatProps) → ∀ (b : Addr) (i total : Nat) (rem : List (List Char))
    (names : List (List Char)) (σ : State), amatchProps sc pr b i total rem names σ ≠ .timeout
  | .nil, b, i, total, rem, names, σ => by
    rw [amatchProps]; intro h; cases h
  | .short x l r, b, i, total, rem, names, σ => by
    rw [amatchProps]
    refine bind_nt ?_ (fun _ _ => amatchProps_nt sc r _ _ _ _ _ _)
    split
    · intro h; cases h
    · split
      · intro h; cases h
      · split
        · intro h; cases h
        · exact aName_nt sc _ _ _ _ _
  | .pair k lk p r, b, i, total, rem, names, σ => by
    rw [amatchProps]
    refine bind_nt ?_ (fun _ _ => amatchProps_nt sc r _ _ _ _ _ _)
    split
    · intro h; cases h
    · split
      · intro h; cases h
      · exact amatch_nt sc p _ _ _
  | .rest x l r, b, i, total, rem, names, σ => by
    rw [amatchProps]
    split
    · intro h; cases h
    · split
      · intro h; cases h
      · exact bind_nt (aName_nt sc _ _ _ _ _) (fun _ _ => amatchProps_nt sc r _ _ _ _ _ _)
end

/-! ### the engine -/

/-- **every outcome**: with fuel at least the size of the pattern the engine in assignment mode is the fuel-free
    engine `amatch` — success, each located error at whatever depth (with the assignments made before it), crash.
    No hypothesis on the scope chain, the names-in-binding or the state. -/
theorem assign_nested_exact (sc : List Addr) (names : List (List Char)) (p : Pat) (σ : State) (v : SVal) (fuel : Nat)
    (hf : p.size ≤ fuel) : bindNext fuel σ sc names p.toExpr v none false = amatch sc p names σ v :=
  bindNext_apat sc p fuel names σ v hf

/-- … and at any fuel whatsoever it is that answer or a time-out -/
theorem assign_nested_any_fuel (sc : List Addr) (names : List (List Char)) (p : Pat) (σ : State) (v : SVal) (fuel : Nat) :
    bindNext fuel σ sc names p.toExpr v none false = .timeout ∨
    bindNext fuel σ sc names p.toExpr v none false = amatch sc p names σ v :=
  bindNext_apat_any sc names p σ v fuel

/-- **assign_nested**: an assignment through a pattern of any depth succeeds exactly when the value has the shape of
    the pattern (`proj` is defined), the leaf names are pairwise distinct and not already bound in this binding, and
    every leaf name is declared somewhere in the scope chain.  The names-in-binding then grew by the leaf names, and
    the state is `proj`'s (the source plus the fresh rest cells) with the assignments `x = value at its path` made,
    each into the nearest binding of `x` (`assignAll`, i.e. `scopeAssign` leaf by leaf). -/
theorem assign_nested (sc : List Addr) (names : List (List Char)) (p : Pat) (σ : State) (v : SVal) (fuel : Nat)
    (hf : p.size ≤ fuel) (names' : List (List Char)) (σ' : State) :
    bindNext fuel σ sc names p.toExpr v none false = .ok names' σ' ↔
      ∃ bs σ1, proj p σ v = some (bs, σ1) ∧ (bs.map Prod.fst).Nodup ∧
        (∀ x ∈ bs.map Prod.fst, x ∉ names ∧ Declared σ sc x) ∧
        names' = bndNames bs ++ names ∧ assignAll σ1 sc bs = some σ' := by
  rw [assign_nested_exact sc names p σ v fuel hf, amatch_agree sc p names σ v names' σ']
  constructor
  · rintro ⟨bs, σ1, e, ⟨g1, g2⟩, hN, hS⟩; exact ⟨bs, σ1, e, g1, g2, hN, hS⟩
  · rintro ⟨bs, σ1, e, g1, g2, hN, hS⟩; exact ⟨bs, σ1, e, ⟨g1, g2⟩, hN, hS⟩

/-- success, without mention of the final state: shape, distinct, declared -/
theorem assign_nested_succeeds (sc : List Addr) (names : List (List Char)) (p : Pat) (σ : State) (v : SVal) (fuel : Nat)
    (hf : p.size ≤ fuel) :
    (∃ names' σ', bindNext fuel σ sc names p.toExpr v none false = .ok names' σ') ↔
      ∃ bs σ1, proj p σ v = some (bs, σ1) ∧ (bs.map Prod.fst).Nodup ∧
        ∀ x ∈ bs.map Prod.fst, x ∉ names ∧ Declared σ sc x := by
  constructor
  · rintro ⟨names', σ', h⟩
    obtain ⟨bs, σ1, e, g1, g2, _⟩ := (assign_nested sc names p σ v fuel hf names' σ').mp h
    exact ⟨bs, σ1, e, g1, g2⟩
  · rintro ⟨bs, σ1, e, g1, g2⟩
    have hk := (proj_next e).sameKeys
    obtain ⟨S, hS⟩ := assignAll_of_declared sc bs σ1 (fun x hx => (hk.declared sc x).mp (g2 x hx).2)
    exact ⟨_, S, (assign_nested sc names p σ v fuel hf _ S).mpr ⟨bs, σ1, e, g1, g2, rfl, hS⟩⟩

/-- the soundness half needs no fuel bound -/
theorem assign_nested_sound (sc : List Addr) (names : List (List Char)) (p : Pat) (σ : State) (v : SVal) (fuel : Nat)
    {names' : List (List Char)} {σ' : State} (h : bindNext fuel σ sc names p.toExpr v none false = .ok names' σ') :
    ∃ bs σ1, proj p σ v = some (bs, σ1) ∧ (bs.map Prod.fst).Nodup ∧
      (∀ x ∈ bs.map Prod.fst, x ∉ names ∧ Declared σ sc x) ∧
      names' = bndNames bs ++ names ∧ assignAll σ1 sc bs = some σ' := by
  have h' := bindNext_stable (Nat.le_max_left fuel p.size) h (fun e => by cases e)
  exact (assign_nested sc names p σ v _ (Nat.le_max_right _ _) names' σ').mp h'

/-- when the shape does not match, a name repeats, or a name is not declared, the answer is a located error (which
    one: `amatch`, by `assign_nested_exact`; for a leaf, `aName_dup` / `aName_undefined` below) or — on an ill-typed
    heap only — a crash; never ok, never a time-out -/
theorem assign_nested_not_ok (sc : List Addr) (names : List (List Char)) (p : Pat) (σ : State) (v : SVal) (fuel : Nat)
    (hf : p.size ≤ fuel)
    (hno : ∀ bs σ1, proj p σ v = some (bs, σ1) →
      ¬ ((bs.map Prod.fst).Nodup ∧ ∀ x ∈ bs.map Prod.fst, x ∉ names ∧ Declared σ sc x)) :
    (∃ e σ', bindNext fuel σ sc names p.toExpr v none false = .err e σ') ∨
    (∃ w σ', bindNext fuel σ sc names p.toExpr v none false = .crash w σ') := by
  cases hr : bindNext fuel σ sc names p.toExpr v none false with
  | ok N S =>
    obtain ⟨bs, σ1, e, g1, g2, _⟩ := (assign_nested sc names p σ v fuel hf N S).mp hr
    exact absurd ⟨g1, g2⟩ (hno bs σ1 e)
  | err e S => exact Or.inl ⟨e, S, rfl⟩
  | crash w S => exact Or.inr ⟨w, S, rfl⟩
  | timeout =>
    rw [assign_nested_exact sc names p σ v fuel hf] at hr
    exact absurd hr (amatch_nt sc p names σ v)

/-- a leaf whose name was already bound in this binding -/
theorem aName_dup (sc : List Addr) {names : List (List Char)} (σ : State) {x : List Char} (l : Loc) (v : SVal)
    (hx : x ≠ c!"_") (hm : x ∈ names) : aName sc names σ x l v = errAt l (Leaf.AlreadyInBinding x) σ := by
  unfold aName
  rw [if_neg hx, if_pos (List.contains_iff_mem.mpr hm)]

/-- a leaf whose name is not declared anywhere in the chain -/
theorem aName_undefined (sc : List Addr) {names : List (List Char)} (σ : State) {x : List Char} (l : Loc) (v : SVal)
    (hx : x ≠ c!"_") (hm : x ∉ names) (hd : ¬ Declared σ sc x) : aName sc names σ x l v = errAt l (Leaf.Undefined x) σ := by
  unfold aName
  rw [if_neg hx, if_neg (fun h => hm (List.contains_iff_mem.mp h))]
  cases ha : scopeAssign σ sc x v with
  | none => rfl
  | some σ2 => exact absurd ((scopeAssign_isSome_iff v).mp ⟨σ2, ha⟩) hd

/-! ### the frame: what the final state is, cell by cell -/

/-- the assignments of `u`, in order, on the contents of one scope cell -/
def setAll (u : List Bnd) (m : ScopeMap) : ScopeMap := u.foldl (fun m e => scopeSetVal e.1 e.2.1 m) m

theorem setAll_cons (e : Bnd) (r : List Bnd) (m : ScopeMap) : setAll (e :: r) m = setAll r (scopeSetVal e.1 e.2.1 m) := rfl

/-- the leaves whose nearest binding is in cell `b` -/
def owned (σ : State) (sc : List Addr) (b : Addr) (bs : List Bnd) : List Bnd :=
  bs.filter fun e => decide ((nearest σ sc e.1).map Prod.fst = some b)

theorem owned_congr {σ τ : State} (h : SameKeys σ τ) (sc : List Addr) (b : Addr) (bs : List Bnd) :
    owned σ sc b bs = owned τ sc b bs := by
  unfold owned
  congr 1
  funext e
  rw [h.nearest]

/-- names, order and declaration positions of a scope cell are kept -/
theorem setAll_shape : ∀ (u : List Bnd) (m : ScopeMap),
    (setAll u m).map (fun e => (e.1, e.2.2)) = m.map (fun e => (e.1, e.2.2))
  | [], m => rfl
  | e :: r, m => by rw [setAll_cons, setAll_shape r, scopeSetVal_shape]

/-- a name that is not assigned reads as before -/
theorem setAll_lookup_other {y : List Char} : ∀ (u : List Bnd) (m : ScopeMap), (∀ e ∈ u, e.1 ≠ y) →
    scopeLookup y (setAll u m) = scopeLookup y m
  | [], m, _ => rfl
  | e :: r, m, h => by
    rw [setAll_cons, setAll_lookup_other r _ (fun e' he' => h e' (List.mem_cons_of_mem _ he')), scopeLookup_setVal,
      if_neg (fun h' => h e List.mem_cons_self h'.symm)]

/-- an assigned name reads as the assigned value, at its old declaration position -/
theorem setAll_lookup_mem {x : List Char} {w : SVal} {l : Loc} : ∀ (u : List Bnd) (m : ScopeMap),
    (u.map Prod.fst).Nodup → (x, w, l) ∈ u → scopeLookup x (setAll u m) = (scopeLookup x m).map (fun p => (w, p.2))
  | [], m, _, hm => by cases hm
  | e :: r, m, hn, hm => by
    rw [setAll_cons]
    simp only [List.map_cons, List.nodup_cons] at hn
    rcases List.mem_cons.mp hm with h | h
    · subst h
      have hfresh : ∀ e' ∈ r, e'.1 ≠ x := by
        intro e' he' hx
        have := List.mem_map_of_mem (f := Prod.fst) he'
        rw [hx] at this
        exact hn.1 this
      rw [setAll_lookup_other r _ hfresh, scopeLookup_setVal, if_pos rfl]
    · have hne : x ≠ e.1 := by
        intro hx
        have := List.mem_map_of_mem (f := Prod.fst) h
        simp only at this
        rw [hx] at this
        exact hn.1 this
      rw [setAll_lookup_mem r _ hn.2 h, scopeLookup_setVal, if_neg hne]

theorem heap_set_same {σ : State} {a : Addr} (c : Cell) (h : a < σ.heap.size) : (σ.set a c).heap[a]? = some c := by
  simp [State.set, h]

/-- after the assignments every scope cell holds what it held with the values of the leaves it owns replaced;
    every other cell is untouched -/
theorem assignAll_cells (sc : List Addr) : ∀ (bs : List Bnd) {σ σ' : State}, assignAll σ sc bs = some σ' → ∀ b : Addr,
    σ'.heap[b]? =
      match σ.heap[b]? with
      | some (.scope m) => some (.scope (setAll (owned σ sc b bs) m))
      | c => c
  | [], σ, σ', h, b => by
    cases h
    cases σ.heap[b]? with
    | none => rfl
    | some c => cases c <;> rfl
  | (x, v, l) :: r, σ, σ', h, b => by
    simp only [assignAll] at h
    cases ha : scopeAssign σ sc x v with
    | none => rw [ha] at h; cases h
    | some σ1 =>
      rw [ha] at h
      have hk := (scopeAssign_keeps ha).1
      rw [assignAll_cells sc r h b, ← owned_congr hk]
      rw [scopeAssign_eq] at ha
      cases hn : nearest σ sc x with
      | none => rw [hn] at ha; cases ha
      | some am =>
        obtain ⟨a, m⟩ := am
        rw [hn] at ha
        cases ha
        obtain ⟨_, hs, _⟩ := nearest_some hn
        have hcell := getScope_eq_some.mp hs
        by_cases hb : b = a
        · subst hb
          have ho : owned σ sc b ((x, v, l) :: r) = (x, v, l) :: owned σ sc b r := by
            simp [owned, hn]
          rw [heap_set_same _ (getScope_lt hs), hcell, ho]
          rfl
        · have ho : owned σ sc b ((x, v, l) :: r) = owned σ sc b r := by
            simp [owned, hn, Ne.symm hb]
          rw [State.heap_set_other _ _ hb, ho]

/-- **the frame**.  After a successful nested assignment (`σ1` is `proj`'s state: `σ` plus the fresh rest cells):
    the heap has the size of `σ1`'s and nothing was printed; every cell that is not a scope cell of `σ` — the
    source lists and objects, function cells, and the rest cells beyond the old heap — is as in `σ1` (so, inside
    the old heap, as in `σ`); every scope cell of `σ`, in the chain or not, holds its old contents with the values
    of the leaves whose nearest binding it holds replaced (`setAll`, which keeps names, order and positions) -/
theorem assign_nested_frame {sc : List Addr} {p : Pat} {σ σ1 σ' : State} {v : SVal} {bs : List Bnd}
    (hp : proj p σ v = some (bs, σ1)) (ha : assignAll σ1 sc bs = some σ') :
    σ'.heap.size = σ1.heap.size ∧ σ.heap.size ≤ σ'.heap.size ∧ σ'.out = σ.out ∧
    (∀ b, σ.getScope b = none → σ'.heap[b]? = σ1.heap[b]?) ∧
    (∀ b, b < σ.heap.size → σ.getScope b = none → σ'.heap[b]? = σ.heap[b]?) ∧
    (∀ b m, σ.getScope b = some m → σ'.getScope b = some (setAll (owned σ sc b bs) m)) := by
  have hn := proj_next hp
  obtain ⟨_, _, _, kout, ksize⟩ := assignAll_keeps sc bs ha
  have cells := assignAll_cells sc bs ha
  have h4 : ∀ b, σ.getScope b = none → σ'.heap[b]? = σ1.heap[b]? := by
    intro b hb
    rw [cells b]
    have h1 : σ1.getScope b = none := (hn.2 b).trans hb
    cases hc : σ1.heap[b]? with
    | none => rfl
    | some c =>
      cases c with
      | scope m => rw [getScope_eq_some.mpr hc] at h1; cases h1
      | list _ => rfl
      | obj _ => rfl
      | func _ => rfl
  refine ⟨ksize, ?_, kout.trans hn.1.2.2, h4, fun b hlt hb => (h4 b hb).trans (hn.1.2.1 b hlt), fun b m hs => ?_⟩
  · rw [ksize]; exact hn.1.1
  · have hs1 : σ1.getScope b = some m := (hn.2 b).trans hs
    rw [getScope_eq_some, cells b, getScope_eq_some.mp hs1, owned_congr hn.sameKeys]

/-- the walk of the chain for a name ends in the same cell after the assignment, which then holds `setAll …` -/
theorem final_nearest {sc : List Addr} {p : Pat} {σ σ1 σ' : State} {v : SVal} {bs : List Bnd}
    (hp : proj p σ v = some (bs, σ1)) (ha : assignAll σ1 sc bs = some σ') {y : List Char} {a : Addr} {m : ScopeMap}
    (hn : nearest σ sc y = some (a, m)) : nearest σ' sc y = some (a, setAll (owned σ sc a bs) m) := by
  have hk : SameKeys σ σ' := (proj_next hp).sameKeys.trans (assignAll_keeps sc bs ha).1
  have h1 := hk.nearest y sc
  rw [hn] at h1
  obtain ⟨_, hs, _⟩ := nearest_some hn
  have hs' := (assign_nested_frame hp ha).2.2.2.2.2 a m hs
  cases hn' : nearest σ' sc y with
  | none => rw [hn'] at h1; cases h1
  | some am' =>
    obtain ⟨a', m'⟩ := am'
    rw [hn'] at h1
    simp only [Option.map_some, Option.some.injEq] at h1
    subst h1
    obtain ⟨_, hs2, _⟩ := nearest_some hn'
    rw [hs'] at hs2
    cases hs2
    rfl

theorem final_nearest_none {sc : List Addr} {p : Pat} {σ σ1 σ' : State} {v : SVal} {bs : List Bnd}
    (hp : proj p σ v = some (bs, σ1)) (ha : assignAll σ1 sc bs = some σ') {y : List Char}
    (hn : nearest σ sc y = none) : nearest σ' sc y = none := by
  have hk : SameKeys σ σ' := (proj_next hp).sameKeys.trans (assignAll_keeps sc bs ha).1
  have h1 := hk.nearest y sc
  rw [hn] at h1
  cases hn' : nearest σ' sc y with
  | none => rfl
  | some am' => rw [hn'] at h1; cases h1

theorem owned_nodup {σ : State} {sc : List Addr} {b : Addr} {bs : List Bnd} (h : (bs.map Prod.fst).Nodup) :
    ((owned σ sc b bs).map Prod.fst).Nodup :=
  h.sublist (List.filter_sublist.map Prod.fst)

/-- **the nearest binding is the one that is updated**: for a leaf `x` (bound to `w` by `proj`) whose innermost
    binding in the chain is in cell `a`, that cell — still the innermost one that has `x` — afterwards reads `w` for
    `x`, at the position where `x` was declared; the cell keeps its names, their order and their positions -/
theorem assign_nested_nearest {sc : List Addr} {p : Pat} {σ σ1 σ' : State} {v : SVal} {bs : List Bnd}
    (hp : proj p σ v = some (bs, σ1)) (ha : assignAll σ1 sc bs = some σ') (hnd : (bs.map Prod.fst).Nodup)
    {x : List Char} {w : SVal} {l : Loc} (hm : (x, w, l) ∈ bs) {a : Addr} {m : ScopeMap}
    (hn : nearest σ sc x = some (a, m)) :
    ∃ m', σ'.getScope a = some m' ∧ nearest σ' sc x = some (a, m') ∧
      scopeLookup x m' = (scopeLookup x m).map (fun q => (w, q.2)) ∧
      m'.map (fun e => (e.1, e.2.2)) = m.map (fun e => (e.1, e.2.2)) := by
  obtain ⟨_, hs, _⟩ := nearest_some hn
  refine ⟨_, (assign_nested_frame hp ha).2.2.2.2.2 a m hs, final_nearest hp ha hn, ?_, setAll_shape _ _⟩
  refine setAll_lookup_mem (l := l) _ _ (owned_nodup hnd) ?_
  exact List.mem_filter.mpr ⟨hm, by simp [hn]⟩

/-- **nothing else changes in the scopes**: in any scope cell, a name that is not a leaf whose nearest binding is
    this very cell reads as before (shadowed outer bindings of a leaf name, all non-leaf names, all scopes outside
    the chain) -/
theorem assign_nested_others {sc : List Addr} {p : Pat} {σ σ1 σ' : State} {v : SVal} {bs : List Bnd}
    (hp : proj p σ v = some (bs, σ1)) (ha : assignAll σ1 sc bs = some σ') {b : Addr} {m : ScopeMap}
    (hs : σ.getScope b = some m) {y : List Char}
    (hy : ∀ w l, (y, w, l) ∈ bs → (nearest σ sc y).map Prod.fst ≠ some b) :
    ∃ m', σ'.getScope b = some m' ∧ scopeLookup y m' = scopeLookup y m ∧
      m'.map (fun e => (e.1, e.2.2)) = m.map (fun e => (e.1, e.2.2)) := by
  refine ⟨_, (assign_nested_frame hp ha).2.2.2.2.2 b m hs, setAll_lookup_other _ _ ?_, setAll_shape _ _⟩
  rintro ⟨x', w', l'⟩ he hey
  obtain ⟨he1, he2⟩ := List.mem_filter.mp he
  simp only at hey
  subst hey
  exact hy w' l' he1 (of_decide_eq_true he2)

/-! ### read-back -/

/-- after the assignment every leaf name reads as the value at its path, every other name as before -/
theorem assign_nested_leaves {sc : List Addr} {p : Pat} {σ σ1 σ' : State} {v : SVal} {bs : List Bnd}
    (hp : proj p σ v = some (bs, σ1)) (ha : assignAll σ1 sc bs = some σ') (hnd : (bs.map Prod.fst).Nodup) :
    (∀ x w l, (x, w, l) ∈ bs → scopeGet σ' sc x = some w) ∧
    (∀ y, (∀ e ∈ bs, e.1 ≠ y) → scopeGet σ' sc y = scopeGet σ sc y) := by
  constructor
  · intro x w l hm
    have hd1 := declared_of_assignAll sc bs σ1 ha x (List.mem_map_of_mem (f := Prod.fst) hm)
    obtain ⟨⟨a, m⟩, hn⟩ := declared_iff.mp (((proj_next hp).sameKeys.declared sc x).mpr hd1)
    obtain ⟨m', _, hn', hl, _⟩ := assign_nested_nearest hp ha hnd hm hn
    obtain ⟨_, _, w0, l0, hl0⟩ := nearest_some hn
    rw [scopeGet_eq, hn']
    simp [hl, hl0]
  · intro y hy
    rw [scopeGet_eq, scopeGet_eq]
    cases hn : nearest σ sc y with
    | none => rw [final_nearest_none hp ha hn]
    | some am =>
      obtain ⟨a, m⟩ := am
      rw [final_nearest hp ha hn]
      have : scopeLookup y (setAll (owned σ sc a bs) m) = scopeLookup y m :=
        setAll_lookup_other _ _ (fun e he => hy e (List.mem_filter.mp he).1)
      simp [this]

/-- … through the evaluator: the variable `x` evaluates to the value at its path -/
theorem assign_nested_eval {sc : List Addr} {p : Pat} {σ σ1 σ' : State} {v : SVal} {bs : List Bnd}
    (hp : proj p σ v = some (bs, σ1)) (ha : assignAll σ1 sc bs = some σ') (hnd : (bs.map Prod.fst).Nodup)
    {x : List Char} {w : SVal} {l : Loc} (hm : (x, w, l) ∈ bs) (n : Nat) (l' : Loc) :
    evalExpr (n + 1) σ' sc (.mk (.Var x) l') = .ok w σ' := by
  rw [evalExpr, (assign_nested_leaves hp ha hnd).1 x w l hm]

/-- an `=` statement with a nested pattern on the left -/
theorem assign_stmt_nested {n : Nat} {σ σ1 σ2 σ3 : State} {sc : List Addr} {rhs : Expr} {v : SVal} {p : Pat}
    {bs : List Bnd} (he : evalExpr n σ sc rhs = .ok v σ1) (hf : p.size ≤ n) (hp : proj p σ1 v = some (bs, σ2))
    (hnd : (bs.map Prod.fst).Nodup) (hd : ∀ x ∈ bs.map Prod.fst, Declared σ1 sc x)
    (ha : assignAll σ2 sc bs = some σ3) :
    evalStmt (n + 1) σ sc (.Assign p.toExpr rhs) = .ok .none σ3 := by
  rw [evalStmt, he]
  simp only [Res.bind]
  rw [(assign_nested sc [] p σ1 v n hf _ σ3).mpr
    ⟨bs, σ2, hp, hnd, fun x hx => ⟨fun h => (by cases h), hd x hx⟩, rfl, ha⟩]

/-! ### the example `[a, [b, ..c]] = [1, [2, 3, 4]]`, with `a`, `b`, `c` declared in three different scopes -/

/-- `[a, [b, ..c]]`, with the positions the parser gives -/
def pasg : Pat :=
  .list (.cons (.var c!"a" (1, 2))
        (.cons (.list (.cons (.var c!"b" (1, 6)) (.cons (.var c!"c" (1, 11)) .nil)) true (1, 5)) .nil)) false (1, 1)

/-- `Pat.toExpr` is what the parser builds -/
example : parseExprTop c!"[a, [b, ..c]]" = .ok pasg.toExpr := by with_unfolding_all rfl

/-- scope cells 0 (outermost, has `a` and an outer `c`), 1 (has `b` and `xs`, the list of cell 3), 2 (innermost, has `c`); cell 3 =
    `[1, <cell 4>]`, cell 4 = `[2, 3, 4]`; the scope chain is `[2, 1, 0]` -/
def σasg : State :=
  ⟨#[.scope [(c!"a", SVal.plain (.int 0), (1, 1)), (c!"c", SVal.plain (.int 7), (2, 1))],
     .scope [(c!"b", SVal.plain (.int 0), (4, 5)), (c!"xs", SVal.plain (.list 3), (3, 1))],
     .scope [(c!"c", SVal.plain (.int 0), (6, 9))],
     .list [SVal.plain (.int 1), SVal.plain (.list 4)],
     .list [SVal.plain (.int 2), SVal.plain (.int 3), SVal.plain (.int 4)]], []⟩

/-- the leaves, in pattern order; `c` is bound to the fresh cell 5 = `[3, 4]` -/
def bsAsg : List Bnd :=
  [(c!"a", SVal.plain (.int 1), (1, 2)), (c!"b", SVal.plain (.int 2), (1, 6)), (c!"c", SVal.plain (.list 5), (1, 11))]

/-- `proj`'s state: the rest cell pushed -/
def σasg1 : State := ⟨σasg.heap.push (.list [SVal.plain (.int 3), SVal.plain (.int 4)]), []⟩

/-- the final state: each name updated where it is nearest (the outer `c` of cell 0 is shadowed and stays `7`),
    declaration positions kept -/
def σasg2 : State :=
  ⟨#[.scope [(c!"a", SVal.plain (.int 1), (1, 1)), (c!"c", SVal.plain (.int 7), (2, 1))],
     .scope [(c!"b", SVal.plain (.int 2), (4, 5)), (c!"xs", SVal.plain (.list 3), (3, 1))],
     .scope [(c!"c", SVal.plain (.list 5), (6, 9))],
     .list [SVal.plain (.int 1), SVal.plain (.list 4)],
     .list [SVal.plain (.int 2), SVal.plain (.int 3), SVal.plain (.int 4)],
     .list [SVal.plain (.int 3), SVal.plain (.int 4)]], []⟩

/-- the right-hand side of `assign_nested` holds … -/
example : pasg.size = 11 ∧ proj pasg σasg (SVal.plain (.list 3)) = some (bsAsg, σasg1) ∧
    (bsAsg.map Prod.fst).Nodup ∧ (∀ x ∈ bsAsg.map Prod.fst, x ∉ ([] : List (List Char)) ∧ Declared σasg [2, 1, 0] x) ∧
    assignAll σasg1 [2, 1, 0] bsAsg = some σasg2 := by
  refine ⟨by rfl, by rfl, by decide, ?_, by rfl⟩
  intro x hx
  refine ⟨fun h => (by cases h), ?_⟩
  simp only [bsAsg, List.map_cons, List.map_nil, List.mem_cons, List.not_mem_nil, or_false] at hx
  rcases hx with rfl | rfl | rfl
  · exact ⟨SVal.plain (.int 0), by rfl⟩
  · exact ⟨SVal.plain (.int 0), by rfl⟩
  · exact ⟨SVal.plain (.int 0), by rfl⟩

/-- … and this is the engine's answer (the left-hand side), computed by the evaluator itself -/
example : bindNext 11 σasg [2, 1, 0] [] pasg.toExpr (SVal.plain (.list 3)) none false =
    .ok [c!"c", c!"b", c!"a"] σasg2 := by
  with_unfolding_all rfl

/-- hypotheses of `assign_stmt_nested` for the statement `[a, [b, ..c]] = xs;` (the others are those above) … -/
example : evalExpr 11 σasg [2, 1, 0] (.mk (.Var c!"xs") (1, 17)) = .ok (SVal.plain (.list 3)) σasg ∧ pasg.size ≤ 11 :=
  ⟨by with_unfolding_all rfl, by decide⟩

/-- … and its conclusion, computed by the evaluator -/
example : evalStmt 12 σasg [2, 1, 0] (.Assign pasg.toExpr (.mk (.Var c!"xs") (1, 17))) = .ok .none σasg2 := by
  with_unfolding_all rfl

/-- the hypothesis of `assign_nested_not_ok` for `[a, z] = <cell 4>`-like mismatches: here `[a, z]` against the
    two-element list of cell 3 has the right shape, but `z` is declared nowhere in the chain -/
example : ∀ bs σ1,
    proj (.list (.cons (.var c!"a" (1, 2)) (.cons (.var c!"z" (1, 5)) .nil)) false (1, 1)) σasg (SVal.plain (.list 3)) =
      some (bs, σ1) →
    ¬ ((bs.map Prod.fst).Nodup ∧ ∀ x ∈ bs.map Prod.fst, x ∉ ([] : List (List Char)) ∧ Declared σasg [2, 1, 0] x) := by
  intro bs σ1 h
  have h0 : proj (.list (.cons (.var c!"a" (1, 2)) (.cons (.var c!"z" (1, 5)) .nil)) false (1, 1)) σasg
      (SVal.plain (.list 3)) =
      some ([(c!"a", SVal.plain (.int 1), (1, 2)), (c!"z", SVal.plain (.list 4), (1, 5))], σasg) := by rfl
  rw [h0] at h
  cases h
  rintro ⟨_, hall⟩
  obtain ⟨w, hw⟩ := (hall c!"z" (by decide)).2
  cases hw

/-- the nearest bindings: `a` lives in cell 0, `b` in cell 1, `c` in cell 2 (not in cell 0, which also has a `c`) -/
example : (nearest σasg [2, 1, 0] c!"a").map Prod.fst = some 0 ∧ (nearest σasg [2, 1, 0] c!"b").map Prod.fst = some 1 ∧
    (nearest σasg [2, 1, 0] c!"c").map Prod.fst = some 2 := ⟨by rfl, by rfl, by rfl⟩

/-- the whole pipeline on the source text: three nested scopes, one assignment through the nested pattern, and each
    name read back in the scope where it was declared -/
example : (run 100 c!"t.sd"
      c!"a := 0;\n{\n    b := 0;\n    {\n        c := 0;\n        [a, [b, ..c]] = [1, [2, 3, 4]];\n        print(c);\n    }\n    print(b);\n}\nprint(a);\n").out =
    [c!"[\n    3,\n    4,\n]", c!"2", c!"1"] := by
  decide +kernel

/-- a name twice in the pattern, at different depths: `AlreadyInBinding` at the second occurrence; `a` has already
    been assigned when the error is raised (the engine does not roll back) -/
example : amatch [0] (.list (.cons (.var c!"a" (2, 2)) (.cons (.list (.cons (.var c!"a" (2, 6)) .nil) false (2, 5)) .nil)) false (2, 1))
      [] ⟨#[.scope [(c!"a", SVal.plain (.int 0), (1, 1))], .list [SVal.plain (.int 1), SVal.plain (.list 2)],
            .list [SVal.plain (.int 2)]], []⟩ (SVal.plain (.list 1)) =
    errAt (2, 6) (Leaf.AlreadyInBinding c!"a")
      ⟨#[.scope [(c!"a", SVal.plain (.int 1), (1, 1))], .list [SVal.plain (.int 1), SVal.plain (.list 2)],
            .list [SVal.plain (.int 2)]], []⟩ := by
  with_unfolding_all rfl

example : (run 60 c!"e1.sd" c!"a := 0;\n[a, [a]] = [1, [2]];\n").stderr =
    c!"e1.sd:2:6: 'a' is bound multiple times in this binding\n" := by
  decide +kernel

/-- a leaf that is not declared anywhere in the chain: `Undefined` at the leaf -/
example : (run 60 c!"e2.sd" c!"a := 0;\n{\n    [a, z] = [1, 2];\n}\nprint(a);\n").stderr =
    c!"e2.sd:3:9: 'z' is not defined\n" := by
  decide +kernel

/-- hypotheses of `aName_dup` / `aName_undefined` are satisfiable -/
example : c!"a" ≠ c!"_" ∧ c!"a" ∈ [c!"a"] ∧ c!"z" ∉ ([] : List (List Char)) ∧ ¬ Declared σasg [2, 1, 0] c!"z" :=
  ⟨by decide, by decide, by decide, fun ⟨w, h⟩ => by cases h⟩

/-! ### not covered: leaves that are index targets

  Leaves of the form `xs[i]` / `o.k` are outside `Pat` (they evaluate expressions in the middle of the binding), and
  the declarative reading above does not extend to them as it stands: such a leaf writes into a list or object
  cell, and the source cell is read again at every item, so an index leaf can overwrite the very source that later
  items are taken from.  `proj` (all reads on the un-assigned state) would make `[xs[1], xs[0]] = xs` a swap; the
  engine — and the interpreter — produce `[1, 1]`: -/
example : (run 60 c!"s1.sd" c!"xs := [1, 2];\n[xs[1], xs[0]] = xs;\nprint(xs);\n").out = [c!"[\n    1,\n    1,\n]"] := by
  decide +kernel

end Seed.C13N
