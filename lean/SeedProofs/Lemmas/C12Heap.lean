/-
  C12Heap.lean — reading and writing heap cells (`State.set`, `State.alloc`, `getObj`, `getList`, …).
-/
import SeedModel.Eval
namespace Seed

theorem State.heap_set (σ : State) (a b : Addr) (c : Cell) :
    (σ.set a c).heap[b]? = if a = b then (if a < σ.heap.size then some c else none) else σ.heap[b]? := by
  simp only [State.set, Array.getElem?_setIfInBounds]

theorem State.heap_set_other (σ : State) {a b : Addr} (c : Cell) (h : b ≠ a) : (σ.set a c).heap[b]? = σ.heap[b]? := by
  rw [State.heap_set]; simp [Ne.symm h]

theorem State.heap_set_same (σ : State) {a : Addr} (c : Cell) (h : a < σ.heap.size) : (σ.set a c).heap[a]? = some c := by
  rw [State.heap_set]; simp [h]

theorem State.size_set (σ : State) (a : Addr) (c : Cell) : (σ.set a c).heap.size = σ.heap.size := by
  simp [State.set]

theorem State.out_set (σ : State) (a : Addr) (c : Cell) : (σ.set a c).out = σ.out := rfl

theorem heap_lt_of_some {σ : State} {a : Addr} {c : Cell} (h : σ.heap[a]? = some c) : a < σ.heap.size := by
  apply Classical.byContradiction
  intro hn
  rw [Array.getElem?_eq_none (Nat.le_of_not_lt hn)] at h
  cases h

theorem getObj_eq_some {σ : State} {a : Addr} {m : ObjMap} : σ.getObj a = some m ↔ σ.heap[a]? = some (.obj m) := by
  unfold State.getObj
  constructor
  · intro h
    split at h
    · rename_i e; cases h; exact e
    · cases h
  · intro h; rw [h]

theorem getList_eq_some {σ : State} {a : Addr} {xs : List SVal} : σ.getList a = some xs ↔ σ.heap[a]? = some (.list xs) := by
  unfold State.getList
  constructor
  · intro h
    split at h
    · rename_i e; cases h; exact e
    · cases h
  · intro h; rw [h]

theorem getScope_eq_some {σ : State} {a : Addr} {m : ScopeMap} : σ.getScope a = some m ↔ σ.heap[a]? = some (.scope m) := by
  unfold State.getScope
  constructor
  · intro h
    split at h
    · rename_i e; cases h; exact e
    · cases h
  · intro h; rw [h]

theorem getFunc_eq_some {σ : State} {a : Addr} {f : FuncRec} : σ.getFunc a = some f ↔ σ.heap[a]? = some (.func f) := by
  unfold State.getFunc
  constructor
  · intro h
    split at h
    · rename_i e; cases h; exact e
    · cases h
  · intro h; rw [h]

theorem getObj_lt {σ : State} {a : Addr} {m : ObjMap} (h : σ.getObj a = some m) : a < σ.heap.size :=
  heap_lt_of_some (getObj_eq_some.mp h)

theorem getList_lt {σ : State} {a : Addr} {xs : List SVal} (h : σ.getList a = some xs) : a < σ.heap.size :=
  heap_lt_of_some (getList_eq_some.mp h)

theorem getScope_lt {σ : State} {a : Addr} {m : ScopeMap} (h : σ.getScope a = some m) : a < σ.heap.size :=
  heap_lt_of_some (getScope_eq_some.mp h)

theorem getObj_set_same {σ : State} {a : Addr} (h : a < σ.heap.size) (m : ObjMap) : (σ.set a (.obj m)).getObj a = some m :=
  getObj_eq_some.mpr (σ.heap_set_same _ h)

theorem getObj_set_other {σ : State} {a b : Addr} (c : Cell) (h : b ≠ a) : (σ.set a c).getObj b = σ.getObj b := by
  unfold State.getObj; rw [σ.heap_set_other c h]

theorem getList_set_other {σ : State} {a b : Addr} (c : Cell) (h : b ≠ a) : (σ.set a c).getList b = σ.getList b := by
  unfold State.getList; rw [σ.heap_set_other c h]

theorem getFunc_set_other {σ : State} {a b : Addr} (c : Cell) (h : b ≠ a) : (σ.set a c).getFunc b = σ.getFunc b := by
  unfold State.getFunc; rw [σ.heap_set_other c h]

theorem getScope_set_other {σ : State} {a b : Addr} (c : Cell) (h : b ≠ a) : (σ.set a c).getScope b = σ.getScope b := by
  unfold State.getScope; rw [σ.heap_set_other c h]

theorem getScope_set_same {σ : State} {a : Addr} (h : a < σ.heap.size) (m : ScopeMap) :
    (σ.set a (.scope m)).getScope a = some m :=
  getScope_eq_some.mpr (σ.heap_set_same _ h)

theorem getList_set_same {σ : State} {a : Addr} (h : a < σ.heap.size) (xs : List SVal) :
    (σ.set a (.list xs)).getList a = some xs :=
  getList_eq_some.mpr (σ.heap_set_same _ h)

/-- a scope cell is not a list cell: writing a scope cell leaves every list readable as before -/
theorem getList_set_scope {σ : State} {a b : Addr} {m m' : ScopeMap} (h : σ.getScope a = some m) :
    (σ.set a (.scope m')).getList b = σ.getList b := by
  by_cases e : b = a
  · subst e
    have h1 := getScope_eq_some.mp h
    unfold State.getList
    rw [σ.heap_set_same _ (heap_lt_of_some h1), h1]
  · exact getList_set_other _ e

theorem getObj_set_scope {σ : State} {a b : Addr} {m m' : ScopeMap} (h : σ.getScope a = some m) :
    (σ.set a (.scope m')).getObj b = σ.getObj b := by
  by_cases e : b = a
  · subst e
    have h1 := getScope_eq_some.mp h
    unfold State.getObj
    rw [σ.heap_set_same _ (heap_lt_of_some h1), h1]
  · exact getObj_set_other _ e

/-! ### allocation -/

theorem State.alloc_fst (σ : State) (c : Cell) : (σ.alloc c).1 = σ.heap.size := rfl

theorem State.alloc_heap (σ : State) (c : Cell) (b : Addr) :
    (σ.alloc c).2.heap[b]? = if b = σ.heap.size then some c else σ.heap[b]? := by
  simp only [State.alloc, Array.getElem?_push]

theorem State.alloc_heap_old (σ : State) (c : Cell) {b : Addr} (h : b < σ.heap.size) :
    (σ.alloc c).2.heap[b]? = σ.heap[b]? := by
  rw [State.alloc_heap]; simp [Nat.ne_of_lt h]

theorem State.alloc_heap_new (σ : State) (c : Cell) : (σ.alloc c).2.heap[σ.heap.size]? = some c := by
  rw [State.alloc_heap]; simp

theorem State.alloc_size (σ : State) (c : Cell) : (σ.alloc c).2.heap.size = σ.heap.size + 1 := by
  simp [State.alloc]

end Seed
