/-
  C13Assign.lean — nested patterns in ASSIGNMENT mode (`lhs = rhs;`, the engine `bindNext … none false`), part 1:

  * the scope chain: `nearest σ sc x` is the innermost scope of the chain that has `x` (address and contents);
    `scopeAssign` writes that cell (`scopeAssign_eq`), `scopeGet` reads it (`scopeGet_eq`); `SameKeys`: two states
    whose scope cells hold the same names — the walk of the chain ends in the same cell in both;
  * `assignAll σ sc bs`: the leaf assignments `x = v` of `bs` one after the other, left to right;
  * `amatch` / `amatchList` / `amatchProps`: the engine in assignment mode without fuel (a total function, every
    located error, the live re-reads of the source cell included);
  * `bindNext_apat`: with fuel at least the size of the pattern the evaluator's engine *is* `amatch`, on every
    outcome, for every scope chain, names-in-binding set and state — no hypothesis at all.
-/
import SeedProofs.Lemmas.C13NestedFuel
namespace Seed.C13N
open Seed Gen

/-! ### scope maps -/

theorem scopeLookup_isSome_iff (y : List Char) : ∀ (m : ScopeMap), (scopeLookup y m).isSome = true ↔ y ∈ m.map Prod.fst
  | [] => by simp [scopeLookup]
  | (k, w, l) :: r => by
    by_cases h : y = k
    · subst h; simp [scopeLookup]
    · simp [scopeLookup, h, scopeLookup_isSome_iff y r]

/-- reading after `scopeSetVal`: the value of `x` is replaced, its declaration position and every other name kept -/
theorem scopeLookup_setVal (x y : List Char) (v : SVal) : ∀ (m : ScopeMap),
    scopeLookup y (scopeSetVal x v m) = if y = x then (scopeLookup x m).map (fun p => (v, p.2)) else scopeLookup y m
  | [] => by simp [scopeSetVal, scopeLookup]
  | (k, w, l) :: r => by
    have ih := scopeLookup_setVal x y v r
    by_cases hxk : x = k
    · subst hxk
      by_cases hyx : y = x
      · subst hyx; simp [scopeSetVal, scopeLookup]
      · simp [scopeSetVal, scopeLookup, hyx]
    · by_cases hyx : y = x
      · subst hyx
        simp only [scopeSetVal, hxk, if_false, scopeLookup, if_true] at ih ⊢
        exact ih
      · simp only [scopeSetVal, hxk, if_false, scopeLookup, hyx] at ih ⊢
        by_cases hyk : y = k
        · simp [hyk]
        · simp only [hyk, if_false]; exact ih

/-- `scopeSetVal` keeps the names, their order and their declaration positions -/
theorem scopeSetVal_shape (x : List Char) (v : SVal) : ∀ (m : ScopeMap),
    (scopeSetVal x v m).map (fun e => (e.1, e.2.2)) = m.map (fun e => (e.1, e.2.2))
  | [] => rfl
  | (k, w, l) :: r => by
    by_cases hxk : x = k
    · simp [scopeSetVal, hxk]
    · simp [scopeSetVal, hxk, scopeSetVal_shape x v r]

theorem scopeSetVal_keys (x : List Char) (v : SVal) (m : ScopeMap) :
    (scopeSetVal x v m).map Prod.fst = m.map Prod.fst := by
  have h := congrArg (List.map Prod.fst) (scopeSetVal_shape x v m)
  simpa [List.map_map, Function.comp_def] using h

/-! ### the scope chain -/

/-- the innermost scope of the chain that has `x` — its address and its contents; the walk of `ScopeStack::get`
    and `ScopeStack::assign` -/
def nearest (σ : State) : List Addr → List Char → Option (Addr × ScopeMap)
  | [], _ => none
  | a :: r, x =>
    match σ.getScope a with
    | none => none
    | some m =>
      match scopeLookup x m with
      | some _ => some (a, m)
      | none => nearest σ r x

/-- assignment replaces the value of `x` in its nearest binding -/
theorem scopeAssign_eq (σ : State) (x : List Char) (v : SVal) : ∀ (sc : List Addr),
    scopeAssign σ sc x v = (nearest σ sc x).map fun am => σ.set am.1 (.scope (scopeSetVal x v am.2))
  | [] => rfl
  | a :: r => by
    simp only [scopeAssign, nearest]
    cases σ.getScope a with
    | none => rfl
    | some m =>
      dsimp only
      cases scopeLookup x m with
      | none => exact scopeAssign_eq σ x v r
      | some p => rfl

/-- reading a name reads its nearest binding -/
theorem scopeGet_eq (σ : State) (x : List Char) : ∀ (sc : List Addr),
    scopeGet σ sc x = (nearest σ sc x).bind fun am => (scopeLookup x am.2).map Prod.fst
  | [] => rfl
  | a :: r => by
    simp only [scopeGet, nearest]
    cases σ.getScope a with
    | none => rfl
    | some m =>
      dsimp only
      cases h : scopeLookup x m with
      | none => exact scopeGet_eq σ x r
      | some p => simp [h]

theorem nearest_some {σ : State} {x : List Char} {a : Addr} {m : ScopeMap} : ∀ {sc : List Addr},
    nearest σ sc x = some (a, m) → a ∈ sc ∧ σ.getScope a = some m ∧ ∃ w l, scopeLookup x m = some (w, l)
  | [], h => by cases h
  | c :: r, h => by
    simp only [nearest] at h
    cases hc : σ.getScope c with
    | none => rw [hc] at h; cases h
    | some mc =>
      rw [hc] at h
      dsimp only at h
      cases hl : scopeLookup x mc with
      | none =>
        rw [hl] at h
        obtain ⟨h1, h2⟩ := nearest_some (sc := r) h
        exact ⟨List.mem_cons_of_mem _ h1, h2⟩
      | some p =>
        rw [hl] at h
        cases h
        exact ⟨List.mem_cons_self, hc, p.1, p.2, hl⟩

/-- `x` is declared somewhere in the scope chain: reading it is not `Undefined` -/
def Declared (σ : State) (sc : List Addr) (x : List Char) : Prop := ∃ w, scopeGet σ sc x = some w

theorem declared_iff {σ : State} {sc : List Addr} {x : List Char} :
    Declared σ sc x ↔ ∃ am, nearest σ sc x = some am := by
  unfold Declared
  rw [scopeGet_eq]
  constructor
  · rintro ⟨w, h⟩
    cases hn : nearest σ sc x with
    | none => rw [hn] at h; cases h
    | some am => exact ⟨am, rfl⟩
  · rintro ⟨⟨a, m⟩, h⟩
    obtain ⟨_, _, w, l, hl⟩ := nearest_some h
    exact ⟨w, by simp [h, hl]⟩

theorem scopeAssign_isSome_iff {σ : State} {sc : List Addr} {x : List Char} (v : SVal) :
    (∃ σ', scopeAssign σ sc x v = some σ') ↔ Declared σ sc x := by
  rw [declared_iff, scopeAssign_eq]
  constructor
  · rintro ⟨σ', h⟩
    cases hn : nearest σ sc x with
    | none => rw [hn] at h; cases h
    | some am => exact ⟨am, rfl⟩
  · rintro ⟨am, h⟩
    exact ⟨_, by rw [h]; rfl⟩

/-- the scope cells of the two states hold the same names (in particular the same addresses are scope cells) -/
def SameKeys (σ τ : State) : Prop :=
  ∀ b, (σ.getScope b).map (List.map Prod.fst) = (τ.getScope b).map (List.map Prod.fst)

theorem SameKeys.refl (σ : State) : SameKeys σ σ := fun _ => rfl
theorem SameKeys.symm {σ τ : State} (h : SameKeys σ τ) : SameKeys τ σ := fun b => (h b).symm
theorem SameKeys.trans {σ τ υ : State} (h1 : SameKeys σ τ) (h2 : SameKeys τ υ) : SameKeys σ υ :=
  fun b => (h1 b).trans (h2 b)

theorem SameKeys.of_getScope {σ τ : State} (h : ∀ b, τ.getScope b = σ.getScope b) : SameKeys σ τ :=
  fun b => by rw [h b]

/-- writing new values into a scope cell keeps the names -/
theorem SameKeys.set {σ : State} {a : Addr} {m : ScopeMap} (h : σ.getScope a = some m) (x : List Char) (v : SVal) :
    SameKeys σ (σ.set a (.scope (scopeSetVal x v m))) := by
  intro b
  by_cases hb : b = a
  · subst hb
    rw [getScope_set_same (getScope_lt h), h]
    simp [scopeSetVal_keys]
  · rw [getScope_set_other _ hb]

/-- with the same names in the scope cells the walk of the chain ends in the same cell -/
theorem SameKeys.nearest {σ τ : State} (h : SameKeys σ τ) (x : List Char) : ∀ (sc : List Addr),
    (nearest σ sc x).map Prod.fst = (nearest τ sc x).map Prod.fst
  | [] => rfl
  | a :: r => by
    have ha := h a
    simp only [Seed.C13N.nearest]
    cases hs : σ.getScope a with
    | none =>
      rw [hs] at ha
      cases ht : τ.getScope a with
      | none => rfl
      | some m' => rw [ht] at ha; cases ha
    | some m =>
      rw [hs] at ha
      cases ht : τ.getScope a with
      | none => rw [ht] at ha; cases ha
      | some m' =>
        rw [ht] at ha
        simp only [Option.map_some, Option.some.injEq] at ha
        dsimp only
        have hiff : (scopeLookup x m).isSome = (scopeLookup x m').isSome := by
          rw [Bool.eq_iff_iff, scopeLookup_isSome_iff, scopeLookup_isSome_iff, ha]
        cases h1 : scopeLookup x m with
        | none =>
          rw [h1] at hiff
          cases h2 : scopeLookup x m' with
          | none => exact SameKeys.nearest h x r
          | some p => rw [h2] at hiff; cases hiff
        | some p =>
          rw [h1] at hiff
          cases h2 : scopeLookup x m' with
          | none => rw [h2] at hiff; cases hiff
          | some p' => rfl

theorem SameKeys.declared {σ τ : State} (h : SameKeys σ τ) (sc : List Addr) (x : List Char) :
    Declared σ sc x ↔ Declared τ sc x := by
  rw [declared_iff, declared_iff]
  have hn := h.nearest x sc
  constructor
  · rintro ⟨am, e⟩
    rw [e] at hn
    cases ht : Seed.C13N.nearest τ sc x with
    | none => rw [ht] at hn; cases hn
    | some am' => exact ⟨am', rfl⟩
  · rintro ⟨am, e⟩
    rw [e] at hn
    cases ht : Seed.C13N.nearest σ sc x with
    | none => rw [ht] at hn; cases hn
    | some am' => exact ⟨am', rfl⟩

/-! ### the leaf assignments, one after the other -/

/-- `x₁ = v₁; …; xₙ = vₙ` on the scope chain (each into the nearest binding of its name); `none` when a name is
    not declared -/
def assignAll (σ : State) (sc : List Addr) : List Bnd → Option State
  | [] => some σ
  | (x, v, _) :: r =>
    match scopeAssign σ sc x v with
    | none => none
    | some σ1 => assignAll σ1 sc r

theorem assignAll_append (sc : List Addr) (bs2 : List Bnd) : ∀ (bs1 : List Bnd) (σ : State),
    assignAll σ sc (bs1 ++ bs2) =
      match assignAll σ sc bs1 with
      | none => none
      | some σ1 => assignAll σ1 sc bs2
  | [], σ => rfl
  | (x, v, l) :: r, σ => by
    simp only [List.cons_append, assignAll]
    cases scopeAssign σ sc x v with
    | none => rfl
    | some σ1 => exact assignAll_append sc bs2 r σ1

/-- one assignment: a scope cell is rewritten, with the same names; lists, objects and the output are as before -/
theorem scopeAssign_keeps {σ σ' : State} {sc : List Addr} {x : List Char} {v : SVal} (h : scopeAssign σ sc x v = some σ') :
    SameKeys σ σ' ∧ (∀ b, σ'.getList b = σ.getList b) ∧ (∀ b, σ'.getObj b = σ.getObj b) ∧ σ'.out = σ.out ∧
    σ'.heap.size = σ.heap.size := by
  rw [scopeAssign_eq] at h
  cases hn : nearest σ sc x with
  | none => rw [hn] at h; cases h
  | some am =>
    obtain ⟨a, m⟩ := am
    rw [hn] at h
    cases h
    obtain ⟨_, hs, _⟩ := nearest_some hn
    exact ⟨SameKeys.set hs x v, fun b => getList_set_scope hs, fun b => getObj_set_scope hs, rfl, State.size_set _ _ _⟩

theorem assignAll_keeps (sc : List Addr) : ∀ (bs : List Bnd) {σ σ' : State}, assignAll σ sc bs = some σ' →
    SameKeys σ σ' ∧ (∀ b, σ'.getList b = σ.getList b) ∧ (∀ b, σ'.getObj b = σ.getObj b) ∧ σ'.out = σ.out ∧
    σ'.heap.size = σ.heap.size
  | [], σ, σ', h => by cases h; exact ⟨SameKeys.refl _, fun _ => rfl, fun _ => rfl, rfl, rfl⟩
  | (x, v, l) :: r, σ, σ', h => by
    simp only [assignAll] at h
    cases ha : scopeAssign σ sc x v with
    | none => rw [ha] at h; cases h
    | some σ1 =>
      rw [ha] at h
      obtain ⟨k1, l1, o1, p1, s1⟩ := scopeAssign_keeps ha
      obtain ⟨k2, l2, o2, p2, s2⟩ := assignAll_keeps sc r h
      exact ⟨k1.trans k2, fun b => (l2 b).trans (l1 b), fun b => (o2 b).trans (o1 b), p2.trans p1, s2.trans s1⟩

/-! ### the engine in assignment mode, without fuel -/

/-- assigning one name: `_` assigns nothing; a name may appear once per pattern and must be declared -/
def aName (sc : List Addr) (names : List (List Char)) (σ : State) (x : List Char) (l : Loc) (v : SVal) :
    Res (List (List Char)) :=
  if x = c!"_" then .ok names σ
  else if names.contains x then errAt l (Leaf.AlreadyInBinding x) σ
  else
    match scopeAssign σ sc x v with
    | some σ2 => .ok (x :: names) σ2
    | none => errAt l (Leaf.Undefined x) σ

theorem bindNextName_assign (f : Nat) (σ : State) (sc : List Addr) (names : List (List Char)) (x : List Char) (l : Loc)
    (v : SVal) : bindNextName f σ sc names x l v none false = aName sc names σ x l v := by
  unfold bindNextName aName
  by_cases hx : x = c!"_"
  · rw [if_pos hx, if_pos hx]
  · rw [if_neg hx, if_neg hx]
    by_cases hc : names.contains x = true
    · rw [if_pos hc, if_pos hc]
    · rw [if_neg hc, if_neg hc]
      simp only [Bool.false_eq_true, if_false]
      cases scopeAssign σ sc x v <;> rfl

mutual
def amatch (sc : List Addr) : Pat → List (List Char) → State → SVal → Res (List (List Char))
  | .var x l, names, σ, v => aName sc names σ x l v
  | .list ps c l, names, σ, v =>
    match v.v with
    | .list b =>
      match σ.getList b with
      | none => crashHeap σ
      | some xs =>
        if c && ps.length - 1 > xs.length then errAt l (Leaf.ListCollectTooFew ps.length xs.length) σ
        else if !c && ps.length ≠ xs.length then errAt l (Leaf.ListDestructureItemMismatch ps.length xs.length) σ
        else amatchList sc ps c l b 0 ps.length names σ
    | w => errAt l (Leaf.ListDestructureOnNonList w.kind) σ
  | .obj pr l, names, σ, v =>
    match v.v with
    | .obj b =>
      match σ.getObj b with
      | none => crashHeap σ
      | some o => amatchProps sc pr b 0 pr.length (o.map Prod.fst) names σ
    | w => errAt l (Leaf.ObjectDestructureOnNonObject w.kind) σ
/-- the item loop; the source cell `b` is read again at every item, as in the code -/
def amatchList (sc : List Addr) : PatList → Bool → Loc → Addr → Nat → Nat → List (List Char) → State → Res (List (List Char))
  | .nil, _, _, _, _, _, names, σ => .ok names σ
  | .cons p r, c, l, b, i, len, names, σ =>
    match σ.getList b with
    | none => crashHeap σ
    | some xs =>
      if c && i = len - 1 then
        (amatch sc p names (σ.alloc (.list (xs.drop (len - 1)))).2 (SVal.plain (.list σ.heap.size))).bind
          fun names' σ' => amatchList sc r c l b (i + 1) len names' σ'
      else
        match xs[i]? with
        | none => .crash c!"index" σ
        | some v => (amatch sc p names σ v).bind fun names' σ' => amatchList sc r c l b (i + 1) len names' σ'
/-- the property loop; the source cell `b` is read again at every property -/
def amatchProps (sc : List Addr) : PatProps → Addr → Nat → Nat → List (List Char) → List (List Char) → State →
    Res (List (List Char))
  | .nil, _, _, _, _, names, σ => .ok names σ
  | .short x l r, b, i, total, rem, names, σ =>
    Res.bind
      (if x = c!"_" then Res.ok names σ
       else
        match σ.getObj b with
        | none => crashHeap σ
        | some o =>
          match objGet x o with
          | none => errAt l (Leaf.PropNotFound x) σ
          | some v => aName sc names σ x l v)
      fun names' σ' => amatchProps sc r b (i + 1) total (rem.filter fun k => k ≠ x) names' σ'
  | .pair k lk p r, b, i, total, rem, names, σ =>
    Res.bind
      (match σ.getObj b with
       | none => crashHeap σ
       | some o =>
        match objGet k o with
        | none => errAt lk (Leaf.PropNotFound k) σ
        | some v => amatch sc p names σ v)
      fun names' σ' => amatchProps sc r b (i + 1) total (rem.filter fun k' => k' ≠ k) names' σ'
  | .rest x l r, b, i, total, rem, names, σ =>
    if i ≠ total - 1 then errAt l Leaf.ObjectCollectIsNotLast σ
    else
      match σ.getObj b with
      | none => crashHeap σ
      | some o =>
        (aName sc names (σ.alloc (.obj (o.filter fun kv => rem.contains kv.1))).2 x l (SVal.plain (.obj σ.heap.size))).bind
          fun names' σ' => amatchProps sc r b i total rem names' σ'
end

/-! ### the evaluator's engine is `amatch` -/

theorem bind_congr {α β : Type} {r r' : Res α} {f f' : α → State → Res β} (h1 : r = r') (h2 : ∀ a σ, f a σ = f' a σ) :
    r.bind f = r'.bind f' := by
  subst h1
  have : f = f' := funext fun a => funext fun σ => h2 a σ
  rw [this]

mutual
theorem bindNext_apat (sc : List Addr) : (p : Pat) → ∀ (fuel : Nat) (names : List (List Char)) (σ : State) (v : SVal),
    p.size ≤ fuel → bindNext fuel σ sc names p.toExpr v none false = amatch sc p names σ v
  | .var x l, fuel, names, σ, v, hf => by
    obtain ⟨n, rfl⟩ : ∃ n, fuel = n + 1 := ⟨fuel - 1, by simp only [Pat.size] at hf; omega⟩
    rw [Pat.toExpr, bindNext_var, amatch]
    exact bindNextName_assign n σ sc names x l v
  | .list ps c l, fuel, names, σ, v, hf => by
    simp only [Pat.size] at hf
    obtain ⟨n, rfl⟩ : ∃ n, fuel = n + 1 := ⟨fuel - 1, by omega⟩
    rw [Pat.toExpr, bindNext, amatch]
    cases v.v <;> try rfl
    rename_i b
    dsimp only
    cases hb : σ.getList b with
    | none => rfl
    | some xs =>
      dsimp only
      rw [PatList.toItems_length]
      by_cases h1 : (c && decide (ps.length - 1 > xs.length)) = true
      · rw [if_pos h1, if_pos h1]
      · rw [if_neg h1, if_neg h1]
        by_cases h2 : (!c && decide (ps.length ≠ xs.length)) = true
        · rw [if_pos h2, if_pos h2]
        · rw [if_neg h2, if_neg h2]
          exact bindList_apat sc ps n c l b 0 ps.length names σ (by omega)
  | .obj pr l, fuel, names, σ, v, hf => by
    simp only [Pat.size] at hf
    obtain ⟨n, rfl⟩ : ∃ n, fuel = n + 1 := ⟨fuel - 1, by omega⟩
    rw [Pat.toExpr, bindNext, amatch]
    cases v.v <;> try rfl
    rename_i b
    dsimp only
    cases hb : σ.getObj b with
    | none => rfl
    | some o =>
      dsimp only
      rw [PatProps.toProps_length]
      exact bindObject_apat sc pr n b 0 pr.length (o.map Prod.fst) names σ (by omega)
theorem bindList_apat (sc : List Addr) : (ps : PatList) → ∀ (fuel : Nat) (c : Bool) (l : Loc) (b : Addr)
    (i len : Nat) (names : List (List Char)) (σ : State),
    ps.size ≤ fuel → bindList fuel σ sc names ps.toItems c l b false i len = amatchList sc ps c l b i len names σ
  | .nil, fuel, c, l, b, i, len, names, σ, hf => by
    obtain ⟨n, rfl⟩ : ∃ n, fuel = n + 1 := ⟨fuel - 1, by simp only [PatList.size] at hf; omega⟩
    rw [PatList.toItems, bindList, amatchList]
  | .cons p r, fuel, c, l, b, i, len, names, σ, hf => by
    simp only [PatList.size] at hf
    obtain ⟨n, rfl⟩ : ∃ n, fuel = n + 1 := ⟨fuel - 1, by omega⟩
    rw [PatList.toItems, bindList, amatchList]
    simp only [Bool.false_eq_true, if_false]
    cases hb : σ.getList b with
    | none => rfl
    | some xs =>
      dsimp only
      by_cases h1 : (c && decide (i = len - 1)) = true
      · rw [if_pos h1, if_pos h1]
        simp only [State.alloc]
        exact bind_congr (bindNext_apat sc p n names _ _ (by omega))
          (fun N S => bindList_apat sc r n c l b (i + 1) len N S (by omega))
      · rw [if_neg h1, if_neg h1]
        cases xs[i]? with
        | none => rfl
        | some v =>
          dsimp only
          exact bind_congr (bindNext_apat sc p n names σ v (by omega))
            (fun N S => bindList_apat sc r n c l b (i + 1) len N S (by omega))
theorem bindObject_apat (sc : List Addr) : (pr : PatProps) → ∀ (fuel : Nat) (b : Addr)
    (i total : Nat) (rem : List (List Char)) (names : List (List Char)) (σ : State),
    pr.size ≤ fuel → bindObject fuel σ sc names pr.toProps b false i total rem = amatchProps sc pr b i total rem names σ
  | .nil, fuel, b, i, total, rem, names, σ, hf => by
    obtain ⟨n, rfl⟩ : ∃ n, fuel = n + 1 := ⟨fuel - 1, by simp only [PatProps.size] at hf; omega⟩
    rw [PatProps.toProps, bindObject, amatchProps]
  | .short x l r, fuel, b, i, total, rem, names, σ, hf => by
    simp only [PatProps.size] at hf
    obtain ⟨n, rfl⟩ : ∃ n, fuel = n + 3 := ⟨fuel - 3, by omega⟩
    rw [PatProps.toProps, bindObject, amatchProps]
    simp only [Bool.false_eq_true, if_false, Expr.raw, Expr.loc]
    by_cases hx : x = c!"_"
    · rw [if_pos hx, if_pos hx]
      simp only [Res.bind]
      exact bindObject_apat sc r (n + 2) b (i + 1) total _ names σ (by omega)
    · rw [if_neg hx, if_neg hx]
      refine bind_congr ?_ (fun N S => bindObject_apat sc r (n + 2) b (i + 1) total _ N S (by omega))
      rw [bindObjectProp]
      cases σ.getObj b with
      | none => rfl
      | some o =>
        dsimp only
        cases objGet x o with
        | none => rfl
        | some v =>
          dsimp only
          rw [bindNext_var]
          exact bindNextName_assign n σ sc names x l v
  | .pair k lk p r, fuel, b, i, total, rem, names, σ, hf => by
    simp only [PatProps.size] at hf
    have hp := Pat.size_pos p
    have hr := PatProps.size_pos r
    obtain ⟨n, rfl⟩ : ∃ n, fuel = n + 3 := ⟨fuel - 3, by omega⟩
    rw [PatProps.toProps, bindObject, amatchProps, evalToStr_lit _ _ _ _ _ _ (utf8_roundtrip' k)]
    simp only [Res.bind, Expr.loc]
    refine bind_congr ?_ (fun N S => bindObject_apat sc r (n + 2) b (i + 1) total _ N S (by omega))
    rw [bindObjectProp]
    cases σ.getObj b with
    | none => rfl
    | some o =>
      dsimp only
      cases objGet k o with
      | none => rfl
      | some v =>
        dsimp only
        exact bindNext_apat sc p (n + 1) names σ v (by omega)
  | .rest x l r, fuel, b, i, total, rem, names, σ, hf => by
    simp only [PatProps.size] at hf
    obtain ⟨n, rfl⟩ : ∃ n, fuel = n + 1 := ⟨fuel - 1, by omega⟩
    rw [PatProps.toProps, bindObject, amatchProps]
    simp only [Bool.false_eq_true, if_false, Expr.raw, Expr.loc, if_true]
    by_cases h1 : i ≠ total - 1
    · rw [if_pos h1, if_pos h1]
    · rw [if_neg h1, if_neg h1]
      cases σ.getObj b with
      | none => rfl
      | some o =>
        dsimp only
        simp only [State.alloc]
        exact bind_congr (bindNextName_assign n _ sc names x l _)
          (fun N S => bindObject_apat sc r n b i total rem N S (by omega))
end

/-- at any fuel: a time-out, or the answer of the fuel-free engine -/
theorem bindNext_apat_any (sc : List Addr) (names : List (List Char)) (p : Pat) (σ : State) (v : SVal) (fuel : Nat) :
    bindNext fuel σ sc names p.toExpr v none false = .timeout ∨
    bindNext fuel σ sc names p.toExpr v none false = amatch sc p names σ v := by
  by_cases ht : bindNext fuel σ sc names p.toExpr v none false = .timeout
  · exact Or.inl ht
  · right
    have h1 := bindNext_stable (Nat.le_max_left fuel p.size) rfl ht
    rw [← h1]
    exact bindNext_apat sc p (max fuel p.size) names σ v (Nat.le_max_right _ _)

end Seed.C13N
