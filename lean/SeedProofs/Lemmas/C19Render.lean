/-
  Lemmas/C19Render.lean — `render` (what `print` writes) on acyclic values is a function of the unfolding (`C10.Tree`):
  `renderTree` mirrors `render` on trees (no heap for containers, no fuel, no `held` set), and `render_link` ties the two:
  while a subtree is being rendered, every held address unfolds to a strictly larger tree, so the `try_lock` never fails.
-/
import SeedProofs.Lemmas.C10Tree
import SeedProofs.Lemmas.Fuel
namespace Seed

/-- sequencing on rendering results (everything but `.ok` is propagated) -/
def RenderRes.bind (r : RenderRes) (f : List Char → RenderRes) : RenderRes :=
  match r with
  | .ok s => f s
  | .err l => .err l
  | .lock => .lock
  | .bad => .bad
  | .timeout => .timeout

def RenderRes.map (r : RenderRes) (f : List Char → List Char) : RenderRes :=
  match r with
  | .ok s => .ok (f s)
  | .err l => .err l
  | .lock => .lock
  | .bad => .bad
  | .timeout => .timeout

theorem RenderRes.bind_map (r : RenderRes) (g : List Char → List Char) (f : List Char → RenderRes) :
    (r.map g).bind f = r.bind fun s => f (g s) := by cases r <;> rfl

theorem RenderRes.map_bind (r : RenderRes) (f : List Char → RenderRes) (g : List Char → List Char) :
    (r.bind f).map g = r.bind fun s => (f s).map g := by cases r <;> rfl

theorem RenderRes.map_ok (s : List Char) (g : List Char → List Char) : (RenderRes.ok s).map g = .ok (g s) := rfl

theorem RenderRes.map_id (r : RenderRes) : r.map (fun s => s) = r := by cases r <;> rfl

end Seed

namespace Seed.C19
open Seed Seed.C10

/-! ## the renderer on trees -/

mutual
/-- `render` on the unfolding: the same texts, the same re-indentation of children with `indent`; the heap is consulted
    only for the name of a function value (`.fn a`) -/
def renderTree (σ : State) : Tree → RenderRes
  | .null => .ok c!"<null>"
  | .bool b => .ok (if b then c!"true" else c!"false")
  | .int i => .ok (intToChars i)
  | .str bs =>
    match utf8Decode bs with
    | .ok cs => .ok cs
    | .error e => .err (Gen.Leaf.BuiltinFuncErr (c!"couldn't convert error message to UTF-8: " ++ e.msg))
  | .list xs => (renderTrees σ xs).bind fun body => .ok (c!"[\n" ++ body ++ c!"]")
  | .obj ps => (renderPropsT σ ps).bind fun body => .ok (c!"{\n" ++ body ++ c!"}")
  | .fn a =>
    match σ.getFunc a with
    | none => .bad
    | some f => .ok (c!"<function '" ++ debugOptName f.name ++ c!"'>")
  | .builtin name _ => .ok (c!"<built-in function '" ++ name ++ c!"'>")
def renderTrees (σ : State) : Trees → RenderRes
  | .nil => .ok []
  | .cons t r =>
    (renderTree σ t).bind fun s => (renderTrees σ r).bind fun rest => .ok (c!"    " ++ indent s ++ c!",\n" ++ rest)
def renderPropsT (σ : State) : Props → RenderRes
  | .nil => .ok []
  | .cons k t r =>
    (renderTree σ t).bind fun s => (renderPropsT σ r).bind fun rest =>
      .ok (c!"    \"" ++ k ++ c!"\": " ++ indent s ++ c!",\n" ++ rest)
end

/-! ## sizes -/

mutual
def tsize : Tree → Nat
  | .list xs => tssize xs + 1
  | .obj ps => pssize ps + 1
  | _ => 1
def tssize : Trees → Nat
  | .nil => 0
  | .cons t r => tsize t + tssize r + 1
def pssize : Props → Nat
  | .nil => 0
  | .cons _ t r => tsize t + pssize r + 1
end

/-- every held container that has an unfolding at all unfolds to a tree of size greater than `k` (the containers held
    while a subtree of size `k` is rendered are its proper ancestors) -/
def HeldAbove (σ : State) (held : List Addr) (k : Nat) : Prop :=
  ∀ a ∈ held, ∀ t, (Unf σ (.list a) t ∨ Unf σ (.obj a) t) → k < tsize t

theorem HeldAbove.nil (σ : State) (k : Nat) : HeldAbove σ [] k := by
  intro a ha; cases ha

theorem HeldAbove.mono {σ : State} {held : List Addr} {k k' : Nat} (h : HeldAbove σ held k) (hk : k' ≤ k) :
    HeldAbove σ held k' :=
  fun a ha t ht => Nat.lt_of_le_of_lt hk (h a ha t ht)

theorem getList_getObj_excl {σ : State} {a : Addr} {items : List SVal} {props : ObjMap}
    (h1 : σ.getList a = some items) (h2 : σ.getObj a = some props) : False := by
  unfold State.getList at h1
  unfold State.getObj at h2
  cases h : σ.heap[a]? with
  | none => simp [h] at h1
  | some c => cases c <;> simp [h] at h1 h2

/-- entering a container: it joins the held set, and its contents are smaller than it -/
theorem HeldAbove.push {σ : State} {held : List Addr} {a : Addr} {s : Tree} {k : Nat}
    (h : HeldAbove σ held (tsize s)) (hs : Unf σ (.list a) s ∨ Unf σ (.obj a) s) (hk : k < tsize s) :
    HeldAbove σ (a :: held) k := by
  intro b hb t ht
  rcases List.mem_cons.mp hb with rfl | hb
  · have : t = s := by
      rcases hs with hs | hs <;> rcases ht with ht | ht
      · exact Unf.det _ _ _ ht hs
      · cases hs with
        | list hg _ => cases ht with
          | obj hg' _ => exact (getList_getObj_excl hg hg').elim
      · cases hs with
        | obj hg _ => cases ht with
          | list hg' _ => exact (getList_getObj_excl hg' hg).elim
      · exact Unf.det _ _ _ ht hs
    rw [this]; exact hk
  · exact Nat.lt_trans hk (h b hb t ht)

theorem HeldAbove.not_mem {σ : State} {held : List Addr} {a : Addr} {s : Tree}
    (h : HeldAbove σ held (tsize s)) (hs : Unf σ (.list a) s ∨ Unf σ (.obj a) s) : held.contains a = false := by
  cases hc : held.contains a with
  | false => rfl
  | true =>
    have hm : a ∈ held := by simpa using hc
    exact absurd (h a hm s hs) (Nat.lt_irrefl _)

/-! ## `render` on an unfoldable value is `renderTree` of the unfolding -/

/-- with enough fuel (and any larger amount) -/
def Settles (f : Nat → RenderRes) (r : RenderRes) : Prop := ∃ n, ∀ m, n ≤ m → f m = r

theorem render_link (σ : State) (s : Tree) :
    ∀ v held, Unf σ v s → HeldAbove σ held (tsize s) → Settles (fun m => render m σ held v) (renderTree σ s) := by
  refine Tree.rec
    (motive_1 := fun s => ∀ v held, Unf σ v s → HeldAbove σ held (tsize s) →
      Settles (fun m => render m σ held v) (renderTree σ s))
    (motive_2 := fun ss => ∀ items held, UnfL σ items ss → HeldAbove σ held (tssize ss) →
      Settles (fun m => renderItems m σ held items) (renderTrees σ ss))
    (motive_3 := fun ps => ∀ props held, UnfP σ props ps → HeldAbove σ held (pssize ps) →
      Settles (fun m => renderProps m σ held props) (renderPropsT σ ps))
    ?_ ?_ ?_ ?_ ?_ ?_ ?_ ?_ ?_ ?_ ?_ ?_ s
  · intro v held h _; cases h
    exact ⟨1, fun m hm => by obtain ⟨m', rfl⟩ : ∃ m', m = m' + 1 := ⟨m - 1, by omega⟩; simp only [render, renderTree]⟩
  · intro b v held h _; cases h
    exact ⟨1, fun m hm => by obtain ⟨m', rfl⟩ : ∃ m', m = m' + 1 := ⟨m - 1, by omega⟩; simp only [render, renderTree]⟩
  · intro i v held h _; cases h
    exact ⟨1, fun m hm => by obtain ⟨m', rfl⟩ : ∃ m', m = m' + 1 := ⟨m - 1, by omega⟩; simp only [render, renderTree]⟩
  · intro bs v held h _; cases h
    refine ⟨1, fun m hm => ?_⟩
    obtain ⟨m', rfl⟩ : ∃ m', m = m' + 1 := ⟨m - 1, by omega⟩
    simp only [render, renderTree]
    cases utf8Decode bs <;> rfl
  · intro xs ih v held h hab
    cases h with
    | list hg hu =>
      rename_i a items
      have hself : Unf σ (.list a) (.list xs) ∨ Unf σ (.obj a) (.list xs) := Or.inl (.list hg hu)
      have hnc := hab.not_mem hself
      obtain ⟨n, hn⟩ := ih items (a :: held) hu (hab.push hself (by simp [tsize]))
      refine ⟨n + 1, fun m hm => ?_⟩
      obtain ⟨m', rfl⟩ : ∃ m', m = m' + 1 := ⟨m - 1, by omega⟩
      have := hn m' (by omega)
      simp only at this
      simp only [render, hnc, hg, this, renderTree]
      cases renderTrees σ xs <;> rfl
  · intro ps ih v held h hab
    cases h with
    | obj hg hu =>
      rename_i a props
      have hself : Unf σ (.list a) (.obj ps) ∨ Unf σ (.obj a) (.obj ps) := Or.inr (.obj hg hu)
      have hnc := hab.not_mem hself
      obtain ⟨n, hn⟩ := ih props (a :: held) hu (hab.push hself (by simp [tsize]))
      refine ⟨n + 1, fun m hm => ?_⟩
      obtain ⟨m', rfl⟩ : ∃ m', m = m' + 1 := ⟨m - 1, by omega⟩
      have := hn m' (by omega)
      simp only at this
      simp only [render, hnc, hg, this, renderTree]
      cases renderPropsT σ ps <;> rfl
  · intro a v held h _; cases h
    refine ⟨1, fun m hm => ?_⟩
    obtain ⟨m', rfl⟩ : ∃ m', m = m' + 1 := ⟨m - 1, by omega⟩
    simp only [render, renderTree]
    cases σ.getFunc a <;> rfl
  · intro name f v held h _; cases h
    exact ⟨1, fun m hm => by obtain ⟨m', rfl⟩ : ∃ m', m = m' + 1 := ⟨m - 1, by omega⟩; simp only [render, renderTree]⟩
  · intro items held h _; cases h
    exact ⟨1, fun m hm => by
      obtain ⟨m', rfl⟩ : ∃ m', m = m' + 1 := ⟨m - 1, by omega⟩; simp only [renderItems, renderTrees]⟩
  · intro t r iht ihr items held h hab
    cases h with
    | cons hx hxs =>
      rename_i x xs'
      obtain ⟨n1, h1⟩ := iht x.v held hx (hab.mono (by simp only [tssize]; omega))
      obtain ⟨n2, h2⟩ := ihr xs' held hxs (hab.mono (by simp only [tssize]; omega))
      refine ⟨max n1 n2 + 1, fun m hm => ?_⟩
      obtain ⟨m', rfl⟩ : ∃ m', m = m' + 1 := ⟨m - 1, by omega⟩
      have e1 := h1 m' (by omega)
      have e2 := h2 m' (by omega)
      simp only at e1 e2
      simp only [renderItems, e1, e2, renderTrees]
      cases renderTree σ t <;> try rfl
      cases renderTrees σ r <;> rfl
  · intro props held h _; cases h
    exact ⟨1, fun m hm => by
      obtain ⟨m', rfl⟩ : ∃ m', m = m' + 1 := ⟨m - 1, by omega⟩; simp only [renderProps, renderPropsT]⟩
  · intro k t r iht ihr props held h hab
    cases h with
    | cons hx hxs =>
      rename_i x xs'
      obtain ⟨n1, h1⟩ := iht x.v held hx (hab.mono (by simp only [pssize]; omega))
      obtain ⟨n2, h2⟩ := ihr xs' held hxs (hab.mono (by simp only [pssize]; omega))
      refine ⟨max n1 n2 + 1, fun m hm => ?_⟩
      obtain ⟨m', rfl⟩ : ∃ m', m = m' + 1 := ⟨m - 1, by omega⟩
      have e1 := h1 m' (by omega)
      have e2 := h2 m' (by omega)
      simp only at e1 e2
      simp only [renderProps, e1, e2, renderPropsT]
      cases renderTree σ t <;> try rfl
      cases renderPropsT σ r <;> rfl

/-- **R1.** an unfoldable (acyclic) value renders, with enough fuel and any larger amount, to `renderTree` of its
    unfolding: the heap, the addresses, the sharing and the `held` bookkeeping play no role — in particular the
    `try_lock` never fails (`.lock`) and no cell is missing (`.bad`, unless a function value dangles) -/
theorem render_unfold {σ : State} {v : Val} {t : Tree} (h : Unf σ v t) :
    ∃ n, ∀ m, n ≤ m → render m σ [] v = renderTree σ t :=
  render_link σ t v [] h (HeldAbove.nil σ _)

/-- the same for a non-empty `held` set of proper ancestors -/
theorem render_unfold_held {σ : State} {v : Val} {t : Tree} {held : List Addr} (h : Unf σ v t)
    (hab : HeldAbove σ held (tsize t)) : ∃ n, ∀ m, n ≤ m → render m σ held v = renderTree σ t :=
  render_link σ t v held h hab

/-- at every fuel: a time-out or the rendering of the unfolding -/
theorem render_unfold_le {σ : State} {v : Val} {t : Tree} (h : Unf σ v t) (n : Nat) :
    render n σ [] v = .timeout ∨ render n σ [] v = renderTree σ t := by
  obtain ⟨n0, h0⟩ := render_unfold h
  rcases render_mono' (Nat.le_max_left n n0) σ [] v with hl | hl
  · exact Or.inl hl
  · right; rw [hl]; exact h0 _ (Nat.le_max_right n n0)

/-! ## what `renderTree` can answer -/

/-- a text or a reported error -/
def Clean (r : RenderRes) : Prop := (∃ s, r = .ok s) ∨ (∃ l, r = .err l)
/-- … or the internal failure of a dangling function address -/
def CleanB (r : RenderRes) : Prop := Clean r ∨ r = .bad

theorem Clean.bind {r : RenderRes} {f : List Char → RenderRes} (h : Clean r) (hf : ∀ s, Clean (f s)) : Clean (r.bind f) := by
  rcases h with ⟨s, rfl⟩ | ⟨l, rfl⟩
  · exact hf s
  · exact Or.inr ⟨l, rfl⟩

theorem CleanB.bind {r : RenderRes} {f : List Char → RenderRes} (h : CleanB r) (hf : ∀ s, CleanB (f s)) :
    CleanB (r.bind f) := by
  rcases h with (⟨s, rfl⟩ | ⟨l, rfl⟩) | rfl
  · exact hf s
  · exact Or.inl (Or.inr ⟨l, rfl⟩)
  · exact Or.inr rfl

theorem Clean.ok (s : List Char) : Clean (.ok s) := Or.inl ⟨s, rfl⟩

theorem renderTree_cleanB (σ : State) (t : Tree) : CleanB (renderTree σ t) := by
  refine Tree.rec (motive_1 := fun t => CleanB (renderTree σ t)) (motive_2 := fun ts => CleanB (renderTrees σ ts))
    (motive_3 := fun ps => CleanB (renderPropsT σ ps)) ?_ ?_ ?_ ?_ ?_ ?_ ?_ ?_ ?_ ?_ ?_ ?_ t
  · exact Or.inl (Clean.ok _)
  · intro b; exact Or.inl (Clean.ok _)
  · intro i; exact Or.inl (Clean.ok _)
  · intro bs
    simp only [renderTree]
    cases utf8Decode bs with
    | ok cs => exact Or.inl (Clean.ok _)
    | error e => exact Or.inl (Or.inr ⟨_, rfl⟩)
  · intro xs ih
    simp only [renderTree]
    exact ih.bind fun _ => Or.inl (Clean.ok _)
  · intro ps ih
    simp only [renderTree]
    exact ih.bind fun _ => Or.inl (Clean.ok _)
  · intro a
    simp only [renderTree]
    cases σ.getFunc a with
    | none => exact Or.inr rfl
    | some f => exact Or.inl (Clean.ok _)
  · intro n f; exact Or.inl (Clean.ok _)
  · exact Or.inl (Clean.ok _)
  · intro t r iht ihr
    simp only [renderTrees]
    exact iht.bind fun _ => ihr.bind fun _ => Or.inl (Clean.ok _)
  · exact Or.inl (Clean.ok _)
  · intro k t r iht ihr
    simp only [renderPropsT]
    exact iht.bind fun _ => ihr.bind fun _ => Or.inl (Clean.ok _)

/-- never the failed `try_lock`, never a time-out -/
theorem renderTree_no_lock (σ : State) (t : Tree) : renderTree σ t ≠ .lock ∧ renderTree σ t ≠ .timeout := by
  rcases renderTree_cleanB σ t with (⟨s, h⟩ | ⟨l, h⟩) | h <;> rw [h] <;> exact ⟨nofun, nofun⟩

/-- on function-free trees: a text or the UTF-8 error, and the heap is not consulted at all -/
theorem renderTree_fnfree (σ σ' : State) (t : Tree) :
    t.FnFree → Clean (renderTree σ t) ∧ renderTree σ t = renderTree σ' t := by
  refine Tree.rec (motive_1 := fun t => t.FnFree → Clean (renderTree σ t) ∧ renderTree σ t = renderTree σ' t)
    (motive_2 := fun ts => ts.FnFree → Clean (renderTrees σ ts) ∧ renderTrees σ ts = renderTrees σ' ts)
    (motive_3 := fun ps => ps.FnFree → Clean (renderPropsT σ ps) ∧ renderPropsT σ ps = renderPropsT σ' ps)
    ?_ ?_ ?_ ?_ ?_ ?_ ?_ ?_ ?_ ?_ ?_ ?_ t
  · intro _; exact ⟨Clean.ok _, rfl⟩
  · intro b _; exact ⟨Clean.ok _, rfl⟩
  · intro i _; exact ⟨Clean.ok _, rfl⟩
  · intro bs _
    refine ⟨?_, rfl⟩
    simp only [renderTree]
    cases utf8Decode bs with
    | ok cs => exact Clean.ok _
    | error e => exact Or.inr ⟨_, rfl⟩
  · intro xs ih hf
    simp only [Tree.FnFree] at hf
    obtain ⟨h1, h2⟩ := ih hf
    simp only [renderTree, ← h2]
    exact ⟨h1.bind fun _ => Clean.ok _, trivial⟩
  · intro ps ih hf
    simp only [Tree.FnFree] at hf
    obtain ⟨h1, h2⟩ := ih hf
    simp only [renderTree, ← h2]
    exact ⟨h1.bind fun _ => Clean.ok _, trivial⟩
  · intro a hf; simp [Tree.FnFree] at hf
  · intro n f hf; simp [Tree.FnFree] at hf
  · intro _; exact ⟨Clean.ok _, rfl⟩
  · intro t r iht ihr hf
    simp only [Trees.FnFree] at hf
    obtain ⟨h1, h2⟩ := iht hf.1
    obtain ⟨h3, h4⟩ := ihr hf.2
    simp only [renderTrees, ← h2, ← h4]
    exact ⟨h1.bind fun _ => h3.bind fun _ => Clean.ok _, trivial⟩
  · intro _; exact ⟨Clean.ok _, rfl⟩
  · intro k t r iht ihr hf
    simp only [Props.FnFree] at hf
    obtain ⟨h1, h2⟩ := iht hf.1
    obtain ⟨h3, h4⟩ := ihr hf.2
    simp only [renderPropsT, ← h2, ← h4]
    exact ⟨h1.bind fun _ => h3.bind fun _ => Clean.ok _, trivial⟩

end Seed.C19
