/-
  Frame.lean — a generic preservation theorem: any reflexive-transitive relation on states that is closed
  under the five ways the evaluator changes a state (allocate a cell, print a line, replace the contents of a
  list / object / scope cell by contents of the same kind) relates the initial state of every evaluator
  function to its final state.  Instances: G2 (the heap only grows, cells keep their kind) and G3 (the
  output only grows, by the lines printed).
-/
import SeedModel.Eval
namespace Seed

structure GoodRel (R : State → State → Prop) : Prop where
  refl : ∀ σ, R σ σ
  trans : ∀ {a b c}, R a b → R b c → R a c
  alloc : ∀ σ c, R σ (σ.alloc c).2
  print : ∀ σ l, R σ (σ.print l)
  setList : ∀ σ a xs ys, σ.getList a = some xs → R σ (σ.set a (.list ys))
  setObj : ∀ σ a m m', σ.getObj a = some m → R σ (σ.set a (.obj m'))
  setScope : ∀ σ a m m', σ.getScope a = some m → R σ (σ.set a (.scope m'))

/-- the final state of `r` (if any) is `R`-related to `σ0` -/
def Res.Rel {α} (R : State → State → Prop) (σ0 : State) : Res α → Prop
  | .ok _ σ' => R σ0 σ'
  | .err _ σ' => R σ0 σ'
  | .crash _ σ' => R σ0 σ'
  | .timeout => True

namespace Res.Rel
variable {R : State → State → Prop} {σ0 : State}

theorem bind {α β} {r : Res α} {f : α → State → Res β} (h : Res.Rel R σ0 r)
    (hf : ∀ a σ1, R σ0 σ1 → Res.Rel R σ0 (f a σ1)) : Res.Rel R σ0 (r.bind f) := by
  cases r with
  | ok a σ1 => exact hf a σ1 h
  | err e σ1 => exact h
  | crash w σ1 => exact h
  | timeout => trivial

theorem map {α β} {r : Res α} (f : α → β) (h : Res.Rel R σ0 r) : Res.Rel R σ0 (r.map f) := by
  cases r <;> exact h

theorem mapErr {α} {r : Res α} (f : Err → Err) (h : Res.Rel R σ0 r) : Res.Rel R σ0 (r.mapErr f) := by
  cases r <;> exact h

theorem ok {α} {a : α} {σ : State} (h : R σ0 σ) : Res.Rel R σ0 (.ok a σ) := h
theorem err {α} {e : Err} {σ : State} (h : R σ0 σ) : Res.Rel R σ0 (.err e σ : Res α) := h
theorem crash {α} {w : List Char} {σ : State} (h : R σ0 σ) : Res.Rel R σ0 (.crash w σ : Res α) := h
theorem errAt {α} {loc : Loc} {l : Gen.Leaf} {σ : State} (h : R σ0 σ) : Res.Rel R σ0 (Seed.errAt loc l σ : Res α) := h
theorem crashHeap {α} {σ : State} (h : R σ0 σ) : Res.Rel R σ0 (Seed.crashHeap σ : Res α) := h
end Res.Rel

section
variable {R : State → State → Prop} (hR : GoodRel R) {σ0 : State}
include hR

theorem GoodRel.step_alloc {σ : State} (c : Cell) (h : R σ0 σ) : R σ0 (σ.alloc c).2 := hR.trans h (hR.alloc σ c)
theorem GoodRel.step_alloc_eq {σ σ' : State} {c : Cell} {a : Addr} (he : σ.alloc c = (a, σ')) (h : R σ0 σ) : R σ0 σ' := by
  have := hR.step_alloc c h
  rw [he] at this; exact this
theorem GoodRel.step_print {σ : State} (l : List Char) (h : R σ0 σ) : R σ0 (σ.print l) := hR.trans h (hR.print σ l)
theorem GoodRel.step_setList {σ : State} {a : Addr} {xs : List SVal} (ys : List SVal) (hg : σ.getList a = some xs) (h : R σ0 σ) :
    R σ0 (σ.set a (.list ys)) := hR.trans h (hR.setList σ a xs ys hg)
theorem GoodRel.step_setObj {σ : State} {a : Addr} {m : ObjMap} (m' : ObjMap) (hg : σ.getObj a = some m) (h : R σ0 σ) :
    R σ0 (σ.set a (.obj m')) := hR.trans h (hR.setObj σ a m m' hg)
theorem GoodRel.step_setScope {σ : State} {a : Addr} {m : ScopeMap} (m' : ScopeMap) (hg : σ.getScope a = some m) (h : R σ0 σ) :
    R σ0 (σ.set a (.scope m')) := hR.trans h (hR.setScope σ a m m' hg)

theorem scopeAssign_rel {σ σ' : State} {sc : List Addr} {k : List Char} {v : SVal} (he : scopeAssign σ sc k v = some σ')
    (h : R σ0 σ) : R σ0 σ' := by
  induction sc with
  | nil => simp [scopeAssign] at he
  | cons a r ih =>
    unfold scopeAssign at he
    split at he
    · simp at he
    · split at he
      · injection he with he; subst he
        exact hR.step_setScope _ (by assumption) h
      · exact ih he

theorem scopeDeclare_rel {σ σ' : State} {sc : List Addr} {k : List Char} {loc : Loc} {v : SVal}
    (he : scopeDeclare σ sc k loc v = .ok σ') (h : R σ0 σ) : R σ0 σ' := by
  unfold scopeDeclare at he
  split at he
  · simp at he
  · split at he
    · simp at he
    · split at he
      · simp at he
      · injection he with he; subst he
        exact hR.step_setScope _ (by assumption) h

theorem applyBinOp_rel (n : Nat) {σ : State} (op : BinaryOp) (loc : Loc) (a b : Val) (h : R σ0 σ) :
    Res.Rel R σ0 (applyBinOp n σ op loc a b) := by
  unfold applyBinOp
  cases op <;> simp only [] <;> (repeat' split) <;>
    first
      | exact h
      | trivial
      | (unfold arith; simp only []; (repeat' split) <;> exact h)
      | exact hR.step_alloc _ h

theorem callBuiltin_rel (n : Nat) {σ : State} (f : BuiltinId) (this : Option SVal) (args : List SVal) (h : R σ0 σ) :
    Res.Rel R σ0 (callBuiltin n σ f this args) := by
  unfold callBuiltin
  cases f <;> simp only [] <;> (repeat' split) <;>
    first
      | exact h
      | trivial
      | exact hR.step_print _ h

theorem opAssignValue_rel (n : Nat) {σ : State} (cur rhs : SVal) (op : Option (BinaryOp × Loc)) (h : R σ0 σ) :
    Res.Rel R σ0 (opAssignValue n σ cur rhs op) := by
  unfold opAssignValue
  split
  · exact h
  · exact Res.Rel.map _ (applyBinOp_rel hR n _ _ _ _ h)

omit hR in
theorem validateArgsRes_rel (n : Nat) {σ : State} (args : List Expr) (h : R σ0 σ) :
    Res.Rel R σ0 (validateArgsRes n args σ) := by
  unfold validateArgsRes
  split <;> first | exact h | trivial

theorem bindNextName_rel (n : Nat) {σ : State} (sc : List Addr) (names : List (List Char)) (name : List Char) (loc : Loc)
    (rhs : SVal) (op : Option (BinaryOp × Loc)) (decl : Bool) (h : R σ0 σ) :
    Res.Rel R σ0 (bindNextName n σ sc names name loc rhs op decl) := by
  unfold bindNextName
  repeat' first
    | exact h
    | exact Res.Rel.errAt h
    | trivial
    | (rename_i he; exact scopeDeclare_rel hR he h)
    | (rename_i he; exact scopeAssign_rel hR he h)
    | (rename_i he; exact scopeAssign_rel hR he ‹_›)
    | (apply Res.Rel.bind (applyBinOp_rel hR _ _ _ _ _ h); intro _ _ _)
    | split
    | (dsimp only [])

end

/-- the relation holds between the state an evaluator function starts from and the one it ends in -/
structure RelAll (R : State → State → Prop) (n : Nat) : Prop where
  evalExpr : ∀ σ0 σ sc e, R σ0 σ → Res.Rel R σ0 (evalExpr n σ sc e)
  evalOptIndex : ∀ σ0 σ sc e, R σ0 σ → Res.Rel R σ0 (evalOptIndex n σ sc e)
  evalListItems : ∀ σ0 σ sc items acc, R σ0 σ → Res.Rel R σ0 (evalListItems n σ sc items acc)
  evalProps : ∀ σ0 σ sc l props acc, R σ0 σ → Res.Rel R σ0 (evalProps n σ sc l props acc)
  evalCall : ∀ σ0 σ sc f args loc, R σ0 σ → Res.Rel R σ0 (evalCall n σ sc f args loc)
  evalToStr : ∀ σ0 σ sc d e, R σ0 σ → Res.Rel R σ0 (evalToStr n σ sc d e)
  evalToBool : ∀ σ0 σ sc d e, R σ0 σ → Res.Rel R σ0 (evalToBool n σ sc d e)
  evalToInt : ∀ σ0 σ sc d e, R σ0 σ → Res.Rel R σ0 (evalToInt n σ sc d e)
  evalToIndex : ∀ σ0 σ sc e, R σ0 σ → Res.Rel R σ0 (evalToIndex n σ sc e)
  interpolate : ∀ σ0 σ sc s slots loc last acc, R σ0 σ → Res.Rel R σ0 (interpolate n σ sc s slots loc last acc)
  evalBlock : ∀ σ0 σ sc bs stmts, R σ0 σ → Res.Rel R σ0 (evalBlock n σ sc bs stmts)
  declareAll : ∀ σ0 σ sc bs, R σ0 σ → Res.Rel R σ0 (declareAll n σ sc bs)
  evalStmts : ∀ σ0 σ sc stmts, R σ0 σ → Res.Rel R σ0 (evalStmts n σ sc stmts)
  evalStmt : ∀ σ0 σ sc st, R σ0 σ → Res.Rel R σ0 (evalStmt n σ sc st)
  evalIf : ∀ σ0 σ sc bs els, R σ0 σ → Res.Rel R σ0 (evalIf n σ sc bs els)
  evalWhile : ∀ σ0 σ sc c stmts, R σ0 σ → Res.Rel R σ0 (evalWhile n σ sc c stmts)
  evalFor : ∀ σ0 σ sc lhs pairs stmts, R σ0 σ → Res.Rel R σ0 (evalFor n σ sc lhs pairs stmts)
  bindNext : ∀ σ0 σ sc names lhs rhs op decl, R σ0 σ → Res.Rel R σ0 (bindNext n σ sc names lhs rhs op decl)
  bindProp : ∀ σ0 σ a name loc rhs op names vi, R σ0 σ → Res.Rel R σ0 (bindProp n σ a name loc rhs op names vi)
  bindRangeIndex : ∀ σ0 σ sc a start stop loc rhsItems names, R σ0 σ →
    Res.Rel R σ0 (bindRangeIndex n σ sc a start stop loc rhsItems names)
  bindList : ∀ σ0 σ sc names items collect lhsLoc b decl i lhsLen, R σ0 σ →
    Res.Rel R σ0 (bindList n σ sc names items collect lhsLoc b decl i lhsLen)
  bindObject : ∀ σ0 σ sc names props b decl i total remaining, R σ0 σ →
    Res.Rel R σ0 (bindObject n σ sc names props b decl i total remaining)
  bindObjectProp : ∀ σ0 σ sc names lhs b pname ploc decl, R σ0 σ →
    Res.Rel R σ0 (bindObjectProp n σ sc names lhs b pname ploc decl)

/-- proves the side goal `R σ0 σ'` for a state `σ'` obtained from a state already known to be related -/
macro "rel_state " hR:ident : tactic =>
  `(tactic| first
    | assumption
    | (apply GoodRel.step_alloc $hR; assumption)
    | (apply GoodRel.step_alloc_eq $hR (by assumption); assumption)
    | (apply GoodRel.step_print $hR; assumption)
    | (apply GoodRel.step_setList $hR _ (by assumption); assumption)
    | (apply GoodRel.step_setObj $hR _ (by assumption); assumption)
    | (apply GoodRel.step_setScope $hR _ (by assumption); assumption))

macro "rel_leaf " hR:ident ih:ident : tactic =>
  `(tactic| first
    | trivial
    | (apply Res.Rel.ok; rel_state $hR)
    | (apply Res.Rel.errAt; rel_state $hR)
    | (apply Res.Rel.crashHeap; rel_state $hR)
    | (apply Res.Rel.err; rel_state $hR)
    | (apply Res.Rel.crash; rel_state $hR)
    | (apply RelAll.evalExpr $ih; rel_state $hR) | (apply RelAll.evalOptIndex $ih; rel_state $hR)
    | (apply RelAll.evalListItems $ih; rel_state $hR) | (apply RelAll.evalProps $ih; rel_state $hR)
    | (apply RelAll.evalCall $ih; rel_state $hR) | (apply RelAll.evalToStr $ih; rel_state $hR)
    | (apply RelAll.evalToBool $ih; rel_state $hR) | (apply RelAll.evalToInt $ih; rel_state $hR)
    | (apply RelAll.evalToIndex $ih; rel_state $hR) | (apply RelAll.interpolate $ih; rel_state $hR)
    | (apply RelAll.evalBlock $ih; rel_state $hR) | (apply RelAll.declareAll $ih; rel_state $hR)
    | (apply RelAll.evalStmts $ih; rel_state $hR) | (apply RelAll.evalStmt $ih; rel_state $hR)
    | (apply RelAll.evalIf $ih; rel_state $hR) | (apply RelAll.evalWhile $ih; rel_state $hR)
    | (apply RelAll.evalFor $ih; rel_state $hR) | (apply RelAll.bindNext $ih; rel_state $hR)
    | (apply RelAll.bindProp $ih; rel_state $hR) | (apply RelAll.bindRangeIndex $ih; rel_state $hR)
    | (apply RelAll.bindList $ih; rel_state $hR) | (apply RelAll.bindObject $ih; rel_state $hR)
    | (apply RelAll.bindObjectProp $ih; rel_state $hR)
    | (apply applyBinOp_rel $hR; rel_state $hR) | (apply callBuiltin_rel $hR; rel_state $hR)
    | (apply opAssignValue_rel $hR; rel_state $hR) | (apply bindNextName_rel $hR; rel_state $hR)
    | (apply validateArgsRes_rel; rel_state $hR))

macro "rel_auto " hR:ident ih:ident : tactic =>
  `(tactic| repeat' first
    | (cases ‹(_, _) = (_, _)›)
    | rel_leaf $hR $ih
    | apply Res.Rel.bind
    | intro _ _ _
    | apply Res.Rel.map
    | apply Res.Rel.mapErr
    | split
    | (dsimp only []))

theorem relAll_zero {R : State → State → Prop} : RelAll R 0 := by
  constructor <;> intros
  · unfold evalExpr; trivial
  · unfold evalOptIndex; trivial
  · unfold evalListItems; trivial
  · unfold evalProps; trivial
  · unfold evalCall; trivial
  · unfold evalToStr; trivial
  · unfold evalToBool; trivial
  · unfold evalToInt; trivial
  · unfold evalToIndex; trivial
  · unfold interpolate; trivial
  · unfold evalBlock; trivial
  · unfold declareAll; trivial
  · unfold evalStmts; trivial
  · unfold evalStmt; trivial
  · unfold evalIf; trivial
  · unfold evalWhile; trivial
  · unfold evalFor; trivial
  · unfold bindNext; trivial
  · unfold bindProp; trivial
  · unfold bindRangeIndex; trivial
  · unfold bindList; trivial
  · unfold bindObject; trivial
  · unfold bindObjectProp; trivial

theorem relAll_succ {R : State → State → Prop} (hR : GoodRel R) (n : Nat) (ih : RelAll R n) : RelAll R (n + 1) := by
  constructor
  · intro σ0 σ sc e h; unfold evalExpr; rel_auto hR ih
  · intro σ0 σ sc e h; unfold evalOptIndex; rel_auto hR ih
  · intro σ0 σ sc items acc h; unfold evalListItems; rel_auto hR ih
  · intro σ0 σ sc l props acc h; unfold evalProps; rel_auto hR ih
  · intro σ0 σ sc f args loc h; unfold evalCall; rel_auto hR ih
  · intro σ0 σ sc d e h; unfold evalToStr; rel_auto hR ih
  · intro σ0 σ sc d e h; unfold evalToBool; rel_auto hR ih
  · intro σ0 σ sc d e h; unfold evalToInt; rel_auto hR ih
  · intro σ0 σ sc e h; unfold evalToIndex; rel_auto hR ih
  · intro σ0 σ sc s slots loc last acc h; unfold interpolate; rel_auto hR ih
  · intro σ0 σ sc bs stmts h; unfold evalBlock; rel_auto hR ih
  · intro σ0 σ sc bs h; unfold declareAll; rel_auto hR ih
  · intro σ0 σ sc stmts h; unfold evalStmts; rel_auto hR ih
  · intro σ0 σ sc st h; unfold evalStmt; rel_auto hR ih
  · intro σ0 σ sc bs els h; unfold evalIf; rel_auto hR ih
  · intro σ0 σ sc c stmts h; unfold evalWhile; rel_auto hR ih
  · intro σ0 σ sc lhs pairs stmts h; unfold evalFor; rel_auto hR ih
  · intro σ0 σ sc names lhs rhs op decl h; unfold bindNext; rel_auto hR ih
  · intro σ0 σ a name loc rhs op names vi h; unfold bindProp; rel_auto hR ih
  · intro σ0 σ sc a start stop loc rhsItems names h; unfold bindRangeIndex; rel_auto hR ih
  · intro σ0 σ sc names items collect lhsLoc b decl i lhsLen h; unfold bindList; rel_auto hR ih
  · intro σ0 σ sc names props b decl i total remaining h; unfold bindObject; rel_auto hR ih
  · intro σ0 σ sc names lhs b pname ploc decl h; unfold bindObjectProp; rel_auto hR ih

theorem relAll {R : State → State → Prop} (hR : GoodRel R) (n : Nat) : RelAll R n := by
  induction n with
  | zero => exact relAll_zero
  | succ n ih => exact relAll_succ hR n ih

end Seed
