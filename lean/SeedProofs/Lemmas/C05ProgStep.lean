/-
  Lemmas/C05ProgStep.lean — single steps of the evaluator with their exact fuel, for the program-level theorems of
  C05 (aliasing): reads (`x`, `x[i]`, `x.k`, `x["k"]`, `l === r`), the statements `x := e`, `x = e`, `x op= e`,
  `x[i] = e`, `x.k = e`, `x["k"] = e`, `f(args);`, and statement lists.

  The same steps exist in Lemmas/C14This.lean over the `Seed.*` heap lemmas of C12Heap.lean; C05.lean is written
  over the `Seed.ScopeL.*` / `Seed.HeapL.*` family (same short names, different argument orders), so the two cannot be
  imported together into C05.lean.  Everything here lives in `Seed.C05P` and uses the `ScopeL` / `HeapL` family only.
-/
import SeedProofs.Lemmas.C05Heap
import SeedProofs.Global
namespace Seed
namespace C05P
open ScopeL HeapL
open Gen (Leaf)

/-! ### fuel -/

theorem stmt_mono {n m : Nat} {σ sc st} {r : Res Escape} (h : evalStmt n σ sc st = r) (hr : r ≠ .timeout) (hnm : n ≤ m) :
    evalStmt m σ sc st = r := by
  rcases Res.Le.of_step (fun k => evalStmt k σ sc st) (fun k => (monoAll k).evalStmt σ sc st) hnm with h' | h'
  · exact absurd (h ▸ h') hr
  · exact h' ▸ h

theorem toIndex_mono {n m : Nat} {σ sc e} {r : Res Nat} (h : evalToIndex n σ sc e = r) (hr : r ≠ .timeout) (hnm : n ≤ m) :
    evalToIndex m σ sc e = r := by
  rcases Res.Le.of_step (fun k => evalToIndex k σ sc e) (fun k => (monoAll k).evalToIndex σ sc e) hnm with h' | h'
  · exact absurd (h ▸ h') hr
  · exact h' ▸ h

theorem call_mono {n m : Nat} {σ sc f args loc} {r : Res SVal} (h : evalCall n σ sc f args loc = r) (hr : r ≠ .timeout)
    (hnm : n ≤ m) : evalCall m σ sc f args loc = r := by
  rcases Res.Le.of_step (fun k => evalCall k σ sc f args loc) (fun k => (monoAll k).evalCall σ sc f args loc) hnm with h' | h'
  · exact absurd (h ▸ h') hr
  · exact h' ▸ h

theorem ok_ne_timeout {α} {a : α} {σ : State} : (Res.ok a σ : Res α) ≠ .timeout := by intro h; cases h

/-! ### statement lists -/

theorem evalStmts_nil (n : Nat) (σ : State) (sc : List Addr) : evalStmts (n + 1) σ sc [] = .ok .none σ := by
  rw [evalStmts]

/-- a statement that completes normally (at some fuel `k ≤ n`) hands over to the rest of the list -/
theorem stmts_step {n k : Nat} {σ σ1 : State} {sc : List Addr} {st : Stmt} (r : List Stmt)
    (h : evalStmt k σ sc st = .ok .none σ1) (hk : k ≤ n) : evalStmts (n + 1) σ sc (st :: r) = evalStmts n σ1 sc r := by
  rw [evalStmts, stmt_mono h ok_ne_timeout hk]; rfl

/-! ### reads -/

theorem var_read {σ : State} {sc : List Addr} {x : List Char} {v : SVal} (n : Nat) (l : Loc)
    (h : scopeGet σ sc x = some v) : evalExpr (n + 1) σ sc (.mk (.Var x) l) = .ok v σ := by
  rw [evalExpr, h]

/-- a literal index -/
theorem toIndex_lit (n : Nat) (σ : State) (sc : List Addr) (i : Nat) (l : Loc) :
    evalToIndex (n + 3) σ sc (.mk (.Int (Int.ofNat i)) l) = .ok i σ := by
  rw [evalToIndex, evalToInt, evalExpr]
  have : ¬ ((i : Int) < 0) := by omega
  simp [Res.bind, SVal.plain, this]

/-- a literal key -/
theorem toStr_lit (n : Nat) (σ : State) (sc : List Addr) (d k : List Char) (l : Loc)
    (hk : utf8Decode (utf8Encode k) = .ok k) :
    evalToStr (n + 2) σ sc d (.mk (.Str k none) l) = .ok k σ := by
  rw [evalToStr, evalExpr]
  simp only [Res.bind, SVal.plain, hk]

/-- `x[i]` for a variable holding a list -/
theorem var_index_read {σ : State} {sc : List Addr} {x : List Char} {A : Addr} {s : Option Val} {items : List SVal}
    {i : Nat} {v : SVal} (n : Nat) (lx li l : Loc)
    (hx : scopeGet σ sc x = some ⟨.list A, s⟩) (hl : σ.getList A = some items) (hv : items[i]? = some v) :
    evalExpr (n + 4) σ sc (.mk (.Index (.mk (.Var x) lx) (.mk (.Int (Int.ofNat i)) li)) l) = .ok v σ := by
  rw [evalExpr, var_read (n + 2) lx hx]
  simp only [Res.bind, toIndex_lit n, hl, hv]

/-- `x.k` for a variable holding an object: the stored value, with the object as source -/
theorem var_prop_read {σ : State} {sc : List Addr} {x k : List Char} {A : Addr} {s : Option Val} {m : ObjMap}
    {v : SVal} (n : Nat) (lx l : Loc)
    (hx : scopeGet σ sc x = some ⟨.obj A, s⟩) (hm : σ.getObj A = some m) (hv : objGet k m = some v) :
    evalExpr (n + 2) σ sc (.mk (.Prop (.mk (.Var x) lx) k false) l) = .ok ⟨v.v, some (.obj A)⟩ σ := by
  rw [evalExpr, var_read n lx hx]
  simp only [Res.bind, Bool.false_eq_true, if_false, hm, hv]

/-- `x["k"]` for a variable holding an object -/
theorem var_key_read {σ : State} {sc : List Addr} {x k : List Char} {A : Addr} {s : Option Val} {m : ObjMap}
    {v : SVal} (n : Nat) (lx lk l : Loc) (hk : utf8Decode (utf8Encode k) = .ok k)
    (hx : scopeGet σ sc x = some ⟨.obj A, s⟩) (hm : σ.getObj A = some m) (hv : objGet k m = some v) :
    evalExpr (n + 3) σ sc (.mk (.Index (.mk (.Var x) lx) (.mk (.Str k none) lk)) l) = .ok ⟨v.v, some (.obj A)⟩ σ := by
  rw [evalExpr, var_read (n + 1) lx hx]
  simp only [Res.bind, toStr_lit n σ sc _ k lk hk, hm, hv]

/-- `l === r` for two operands without effects -/
theorem refeq_read {n : Nat} {σ : State} {sc : List Addr} {l r : Expr} {vl vr : SVal} {b : Bool} (ol loc : Loc)
    (hl : evalExpr n σ sc l = .ok vl σ) (hr : evalExpr n σ sc r = .ok vr σ) (hb : refEq vl.v vr.v = some b) :
    evalExpr (n + 1) σ sc (.mk (.BinaryOp .RefEq ol l r) loc) = .ok (SVal.plain (.bool b)) σ := by
  rw [evalExpr, hl]
  simp only [Res.bind, hr]
  simp [applyBinOp, hb]

/-- `x === y` for two variables -/
theorem refeq_vars {σ : State} {sc : List Addr} {x y : List Char} {vx vy : SVal} {b : Bool} (n : Nat) (lx ly ol loc : Loc)
    (hx : scopeGet σ sc x = some vx) (hy : scopeGet σ sc y = some vy) (hb : refEq vx.v vy.v = some b) :
    evalExpr (n + 2) σ sc (.mk (.BinaryOp .RefEq ol (.mk (.Var x) lx) (.mk (.Var y) ly)) loc) =
      .ok (SVal.plain (.bool b)) σ :=
  refeq_read ol loc (var_read n lx hx) (var_read n ly hy) hb

/-! ### binding a name in the innermost scope -/

theorem bindNext_var (n : Nat) (σ : State) (sc : List Addr) (names : List (List Char)) (x : List Char) (l : Loc) (rhs : SVal)
    (op : Option (BinaryOp × Loc)) (decl : Bool) :
    bindNext (n + 1) σ sc names (.mk (.Var x) l) rhs op decl = bindNextName n σ sc names x l rhs op decl := by
  rw [bindNext]

theorem bindName_declare {f : Nat} {σ : State} {a : Addr} {sc : List Addr} {name : List Char} {m : ScopeMap} (loc : Loc)
    (rhs : SVal) (h1 : name ≠ c!"_") (hs : σ.getScope a = some m) (hf : scopeLookup name m = none) :
    bindNextName f σ (a :: sc) [] name loc rhs none true = .ok [name] (σ.set a (.scope ((name, rhs, loc) :: m))) := by
  simp [bindNextName, h1, scopeDeclare, hs, hf]

theorem bindName_assign {f : Nat} {σ : State} {a : Addr} {sc : List Addr} {name : List Char} {m : ScopeMap} {p : SVal × Loc}
    (loc : Loc) (rhs : SVal) (h1 : name ≠ c!"_") (hs : σ.getScope a = some m) (hl : scopeLookup name m = some p) :
    bindNextName f σ (a :: sc) [] name loc rhs none false = .ok [name] (σ.set a (.scope (scopeSetVal name rhs m))) := by
  simp [bindNextName, h1, scopeAssign, hs, hl]

theorem bindName_opassign {f : Nat} {σ σ1 : State} {a : Addr} {sc : List Addr} {name : List Char} {m : ScopeMap}
    {cur : SVal} {lc : Loc} {op : BinaryOp} {ol : Loc} {r : Val} (loc : Loc) (rhs : SVal) (h1 : name ≠ c!"_")
    (hs : σ.getScope a = some m) (hl : scopeLookup name m = some (cur, lc))
    (hop : applyBinOp f σ op ol cur.v rhs.v = .ok r σ1) (hs1 : σ1.getScope a = some m) :
    bindNextName f σ (a :: sc) [] name loc rhs (some (op, ol)) false =
      .ok [name] (σ1.set a (.scope (scopeSetVal name (SVal.plain r) m))) := by
  simp [bindNextName, h1, scopeGet, scopeAssign, hs, hl, hop, Res.bind, hs1]

/-- the head entry is the one `scopeSetVal` rewrites -/
theorem setVal_head (x : List Char) (v w : SVal) (l : Loc) (m : ScopeMap) :
    scopeSetVal x v ((x, w, l) :: m) = (x, v, l) :: m := by
  simp [scopeSetVal]

/-! ### statements -/

/-- `x := rhs` with a fresh name: the innermost cell gets `x ↦` the value of `rhs` (the `SVal` itself) -/
theorem declare_var_stmt {n : Nat} {σ σ1 : State} {a : Addr} {sc : List Addr} {x : List Char} {rhs : Expr} {v : SVal}
    {m : ScopeMap} (lx : Loc)
    (hr : evalExpr (n + 1) σ (a :: sc) rhs = .ok v σ1) (hx : x ≠ c!"_")
    (hs : σ1.getScope a = some m) (hf : scopeLookup x m = none) :
    evalStmt (n + 2) σ (a :: sc) (.Declare (.mk (.Var x) lx) rhs) =
      .ok .none (σ1.set a (.scope ((x, v, lx) :: m))) := by
  rw [evalStmt, hr]
  simp only [Res.bind]
  rw [bindNext_var, bindName_declare lx v hx hs hf]

/-- `x = rhs` for a name of the innermost scope -/
theorem assign_var_stmt {n : Nat} {σ σ1 : State} {a : Addr} {sc : List Addr} {x : List Char} {rhs : Expr} {v : SVal}
    {m : ScopeMap} {p : SVal × Loc} (lx : Loc)
    (hr : evalExpr (n + 1) σ (a :: sc) rhs = .ok v σ1) (hx : x ≠ c!"_")
    (hs : σ1.getScope a = some m) (hl : scopeLookup x m = some p) :
    evalStmt (n + 2) σ (a :: sc) (.Assign (.mk (.Var x) lx) rhs) =
      .ok .none (σ1.set a (.scope (scopeSetVal x v m))) := by
  rw [evalStmt, hr]
  simp only [Res.bind]
  rw [bindNext_var, bindName_assign lx v hx hs hl]

/-- `x op= rhs` for a name of the innermost scope: the variable is re-bound to the result of the operation -/
theorem opassign_var_stmt {n : Nat} {σ σ1 σ2 : State} {a : Addr} {sc : List Addr} {x : List Char} {rhs : Expr} {v cur : SVal}
    {m : ScopeMap} {lc : Loc} {op : BinaryOp} {r : Val} (lx ol : Loc)
    (hr : evalExpr (n + 1) σ (a :: sc) rhs = .ok v σ1) (hx : x ≠ c!"_")
    (hs : σ1.getScope a = some m) (hl : scopeLookup x m = some (cur, lc))
    (hop : applyBinOp n σ1 op ol cur.v v.v = .ok r σ2) (hs2 : σ2.getScope a = some m) :
    evalStmt (n + 2) σ (a :: sc) (.OpAssign (.mk (.Var x) lx) op ol rhs) =
      .ok .none (σ2.set a (.scope (scopeSetVal x (SVal.plain r) m))) := by
  rw [evalStmt, hr]
  simp only [Res.bind]
  rw [bindNext_var, bindName_opassign lx v hx hs hl hop hs2]

/-- `x[ix] = rhs` for a variable holding a list: one cell is rewritten -/
theorem index_assign_stmt {n : Nat} {σ σ1 σ2 : State} {sc : List Addr} {x : List Char} {ix rhs : Expr} {v cur : SVal}
    {A : Addr} {s : Option Val} {items : List SVal} {i : Nat} (lx l : Loc)
    (hr : evalExpr (n + 2) σ sc rhs = .ok v σ1) (hx : scopeGet σ1 sc x = some ⟨.list A, s⟩)
    (hix : evalToIndex (n + 1) σ1 sc ix = .ok i σ2) (hl : σ2.getList A = some items) (hc : items[i]? = some cur) :
    evalStmt (n + 3) σ sc (.Assign (.mk (.Index (.mk (.Var x) lx) ix) l) rhs) =
      .ok .none (σ2.set A (.list (listSet items i v))) := by
  rw [evalStmt, hr]
  simp only [Res.bind]
  rw [bindNext, var_read n lx hx]
  simp only [Res.bind, hix, hl, hc, opAssignValue]

/-- `x.k = rhs` for a variable holding an object -/
theorem prop_assign_stmt {n : Nat} {σ σ1 : State} {sc : List Addr} {x k : List Char} {rhs : Expr} {v : SVal}
    {A : Addr} {s : Option Val} {m : ObjMap} (lx l : Loc)
    (hr : evalExpr (n + 2) σ sc rhs = .ok v σ1) (hx : scopeGet σ1 sc x = some ⟨.obj A, s⟩)
    (hm : σ1.getObj A = some m) :
    evalStmt (n + 3) σ sc (.Assign (.mk (.Prop (.mk (.Var x) lx) k false) l) rhs) =
      .ok .none (σ1.set A (.obj (objInsert k v m))) := by
  rw [evalStmt, hr]
  simp only [Res.bind]
  rw [bindNext, var_read n lx hx]
  simp only [Res.bind, Bool.false_eq_true, if_false]
  rw [bindProp]
  cases hg : objGet k m <;> simp only [hm, hg, opAssignValue, Res.bind]

/-- `x[ke] = rhs` for a variable holding an object -/
theorem key_assign_stmt {n : Nat} {σ σ1 σ2 : State} {sc : List Addr} {x k : List Char} {ke rhs : Expr} {v : SVal}
    {A : Addr} {s : Option Val} {m : ObjMap} (lx l : Loc)
    (hr : evalExpr (n + 2) σ sc rhs = .ok v σ1) (hx : scopeGet σ1 sc x = some ⟨.obj A, s⟩)
    (hke : evalToStr (n + 1) σ1 sc c!"property" ke = .ok k σ2) (hm : σ2.getObj A = some m) :
    evalStmt (n + 3) σ sc (.Assign (.mk (.Index (.mk (.Var x) lx) ke) l) rhs) =
      .ok .none (σ2.set A (.obj (objInsert k v m))) := by
  rw [evalStmt, hr]
  simp only [Res.bind]
  rw [bindNext, var_read n lx hx]
  simp only [Res.bind, hke]
  rw [bindProp]
  cases hg : objGet k m <;> simp only [hm, hg, opAssignValue, Res.bind]

/-- a call statement -/
theorem call_stmt (n : Nat) (σ : State) (sc : List Addr) (f : Expr) (args : List ListItem) (lc : Loc) :
    evalStmt (n + 2) σ sc (.Expr (.mk (.Call f args) lc)) = (evalCall n σ sc f args lc).bind fun _ σ1 => .ok .none σ1 := by
  rw [evalStmt, evalExpr]

end C05P
end Seed
