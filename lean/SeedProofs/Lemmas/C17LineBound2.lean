/-
  Lemmas/C17LineBound2.lean — C17, parser part of the line bound for diagnostics that come out of interpolation slots:
  every interpolated string literal `.Str s (some slots)` of a syntax tree the parser model returns is the payload of a
  token `InterpStrLiteral s slots` of the token list the parse started from (`str_tok`, `str_tok_expr`).  With
  `lexAll_slotsIn` (C17LineBound.lean): the text of every slot of every literal of a parsed tree is a contiguous piece
  of the parsed text (`parseProg_strs`, `parseExprTop_strs`).

  Architecture of C18NodePos.lean (one structure field per parser function, `_zero`, `_succ`), whose `Suf`, `PRes.PosSat`,
  `expectTok_pos`, … are reused.
-/
import SeedProofs.Lemmas.C17LineBound
namespace Seed

/-! ## the predicate -/

/-- `T` has a token that is the interpolated literal `s` with slot table `slots` -/
def StrTok (T : List Span) (s : List Char) (slots : List (Nat × Nat)) : Prop :=
  ∃ sp, sp ∈ T ∧ sp.tok = .InterpStrLiteral s slots

mutual
/-- every interpolated string literal in the (raw) expression is a token of `T` -/
inductive RawStrOK (T : List Span) : RawExpr → Prop
  | null : RawStrOK T .Null
  | bool {b : Bool} : RawStrOK T (.Bool b)
  | int {n : Int} : RawStrOK T (.Int n)
  | strPlain {s : List Char} : RawStrOK T (.Str s none)
  | strInterp {s : List Char} {slots : List (Nat × Nat)} : StrTok T s slots → RawStrOK T (.Str s (some slots))
  | var {name : List Char} : RawStrOK T (.Var name)
  | binop {op : BinaryOp} {opLoc : Loc} {lhs rhs : Expr} :
      StrOK T lhs → StrOK T rhs → RawStrOK T (.BinaryOp op opLoc lhs rhs)
  | list {items : List ListItem} {collect : Bool} : (∀ x, x ∈ items → ItemStrOK T x) → RawStrOK T (.List items collect)
  | index {e i : Expr} : StrOK T e → StrOK T i → RawStrOK T (.Index e i)
  | rangeIndex {e : Expr} {start stop : Option Expr} :
      StrOK T e → (∀ x, start = some x → StrOK T x) → (∀ x, stop = some x → StrOK T x) →
      RawStrOK T (.RangeIndex e start stop)
  | range {a b : Expr} : StrOK T a → StrOK T b → RawStrOK T (.Range a b)
  | object {props : List PropItem} : (∀ x, x ∈ props → PropStrOK T x) → RawStrOK T (.Object props)
  | prop {e : Expr} {name : List Char} {tp : Bool} : StrOK T e → RawStrOK T (.Prop e name tp)
  | func {args : List Expr} {collect : Bool} {stmts : List Stmt} :
      (∀ x, x ∈ args → StrOK T x) → (∀ x, x ∈ stmts → StmtStrOK T x) → RawStrOK T (.Func args collect stmts)
  | call {f : Expr} {args : List ListItem} : StrOK T f → (∀ x, x ∈ args → ItemStrOK T x) → RawStrOK T (.Call f args)
inductive StrOK (T : List Span) : Expr → Prop
  | mk {raw : RawExpr} {loc : Loc} : RawStrOK T raw → StrOK T (.mk raw loc)
inductive ItemStrOK (T : List Span) : ListItem → Prop
  | mk {e : Expr} {s : Bool} : StrOK T e → ItemStrOK T (.mk e s)
inductive PropStrOK (T : List Span) : PropItem → Prop
  | pair {n v : Expr} : StrOK T n → StrOK T v → PropStrOK T (.Pair n v)
  | single {e : Expr} {s c : Bool} : StrOK T e → PropStrOK T (.Single e s c)
inductive StmtStrOK (T : List Span) : Stmt → Prop
  | block {b : List Stmt} : (∀ x, x ∈ b → StmtStrOK T x) → StmtStrOK T (.Block b)
  | expr {e : Expr} : StrOK T e → StmtStrOK T (.Expr e)
  | declare {l r : Expr} : StrOK T l → StrOK T r → StmtStrOK T (.Declare l r)
  | assign {l r : Expr} : StrOK T l → StrOK T r → StmtStrOK T (.Assign l r)
  | opAssign {l r : Expr} {op : BinaryOp} {opLoc : Loc} :
      StrOK T l → StrOK T r → StmtStrOK T (.OpAssign l op opLoc r)
  | ifs {bs : List Branch} {els : Option (List Stmt)} :
      (∀ b, b ∈ bs → BranchStrOK T b) → (∀ s, els = some s → ∀ x, x ∈ s → StmtStrOK T x) → StmtStrOK T (.If bs els)
  | whiles {c : Expr} {s : List Stmt} : StrOK T c → (∀ x, x ∈ s → StmtStrOK T x) → StmtStrOK T (.While c s)
  | fors {l i : Expr} {s : List Stmt} : StrOK T l → StrOK T i → (∀ x, x ∈ s → StmtStrOK T x) → StmtStrOK T (.For l i s)
  | brk {loc : Loc} : StmtStrOK T (.Break loc)
  | cont {loc : Loc} : StmtStrOK T (.Continue loc)
  | func {name : List Char} {nameLoc : Loc} {args : List Expr} {collect : Bool} {stmts : List Stmt} :
      (∀ x, x ∈ args → StrOK T x) → (∀ x, x ∈ stmts → StmtStrOK T x) →
      StmtStrOK T (.Func name nameLoc args collect stmts)
  | ret {loc : Loc} {e : Expr} : StrOK T e → StmtStrOK T (.Return loc e)
inductive BranchStrOK (T : List Span) : Branch → Prop
  | mk {c : Expr} {s : List Stmt} : StrOK T c → (∀ x, x ∈ s → StmtStrOK T x) → BranchStrOK T (.mk c s)
end

theorem StmtStrOK.expr_inv {T : List Span} {e : Expr} (h : StmtStrOK T (.Expr e)) : StrOK T e := by
  cases h; assumption

theorem strTok_head {T : List Span} {sp : Span} {r : List Span} {s : List Char} {slots : List (Nat × Nat)}
    (h : Suf T (sp :: r)) (ht : sp.tok = .InterpStrLiteral s slots) : StrTok T s slots := by
  obtain ⟨p, hp⟩ := h
  exact ⟨sp, by simp [← hp], ht⟩

/-! ## the statement, one field per parser function -/

structure StrAll (T : List Span) (n : Nat) : Prop where
  parseAtom : ∀ pre ts, Suf T ts → (∀ x, pre = some x → RawStrOK T x) →
    PRes.PosSat (fun a rest => Suf T rest ∧ RawStrOK T a) (parseAtom n pre ts)
  parsePostfix : ∀ l pre ts, Suf T ts → (∀ x, pre = some x → RawStrOK T x) →
    PRes.PosSat (fun a rest => Suf T rest ∧ RawStrOK T a) (parsePostfix n l pre ts)
  postfixLoop : ∀ l acc ts, Suf T ts → RawStrOK T acc →
    PRes.PosSat (fun a rest => Suf T rest ∧ RawStrOK T a) (postfixLoop n l acc ts)
  parseIndexTail : ∀ e ts, Suf T ts → StrOK T e →
    PRes.PosSat (fun a rest => Suf T rest ∧ RawStrOK T a) (parseIndexTail n e ts)
  parseRangeEnd : ∀ e s ts, Suf T ts → StrOK T e → (∀ x, s = some x → StrOK T x) →
    PRes.PosSat (fun a rest => Suf T rest ∧ RawStrOK T a) (parseRangeEnd n e s ts)
  parseTier : ∀ k l pre ts, Suf T ts → (∀ x, pre = some x → RawStrOK T x) →
    PRes.PosSat (fun a rest => Suf T rest ∧ RawStrOK T a) (parseTier n k l pre ts)
  tierLoop : ∀ k l acc ts, Suf T ts → RawStrOK T acc →
    PRes.PosSat (fun a rest => Suf T rest ∧ RawStrOK T a) (tierLoop n k l acc ts)
  parseExpr1 : ∀ s l pre ts, Suf T ts → (∀ x, pre = some x → RawStrOK T x) →
    PRes.PosSat (fun a rest => Suf T rest ∧ RawStrOK T a) (parseExpr1 n s l pre ts)
  rangeLoop : ∀ s l acc ts, Suf T ts → RawStrOK T acc →
    PRes.PosSat (fun a rest => Suf T rest ∧ RawStrOK T a) (rangeLoop n s l acc ts)
  parseExpr : ∀ s ts, Suf T ts → PRes.PosSat (fun a rest => Suf T rest ∧ StrOK T a) (parseExpr n s ts)
  parseArgs : ∀ acc ts, Suf T ts → (∀ x, x ∈ acc → ItemStrOK T x) →
    PRes.PosSat (fun a rest => Suf T rest ∧ ∀ x, x ∈ a → ItemStrOK T x) (parseArgs n acc ts)
  parseExprList : ∀ acc ts, Suf T ts → (∀ x, x ∈ acc → ItemStrOK T x) →
    PRes.PosSat (fun a rest => Suf T rest ∧ ∀ x, x ∈ a.1 → ItemStrOK T x) (parseExprList n acc ts)
  parseParams : ∀ acc ts, Suf T ts → (∀ x, x ∈ acc → StrOK T x) →
    PRes.PosSat (fun a rest => Suf T rest ∧ ∀ x, x ∈ a.1 → StrOK T x) (parseParams n acc ts)
  parsePropItems : ∀ acc ts, Suf T ts → (∀ x, x ∈ acc → PropStrOK T x) →
    PRes.PosSat (fun a rest => Suf T rest ∧ ∀ x, x ∈ a → PropStrOK T x) (parsePropItems n acc ts)
  parsePropTail : ∀ acc ts, Suf T ts → (∀ x, x ∈ acc → PropStrOK T x) →
    PRes.PosSat (fun a rest => Suf T rest ∧ ∀ x, x ∈ a → PropStrOK T x) (parsePropTail n acc ts)
  parseBlock : ∀ ts, Suf T ts →
    PRes.PosSat (fun a rest => Suf T rest ∧ ∀ x, x ∈ a → StmtStrOK T x) (parseBlock n ts)
  parseStmts : ∀ c acc ts, Suf T ts → (∀ x, x ∈ acc → StmtStrOK T x) →
    PRes.PosSat (fun a rest => Suf T rest ∧ ∀ x, x ∈ a → StmtStrOK T x) (parseStmts n c acc ts)
  parseIf : ∀ ts, Suf T ts →
    PRes.PosSat (fun a rest => Suf T rest ∧ (∀ b, b ∈ a.1 → BranchStrOK T b) ∧
      (∀ s, a.2 = some s → ∀ x, x ∈ s → StmtStrOK T x)) (parseIf n ts)
  parseStmtTail : ∀ lhs ts, Suf T ts → StrOK T lhs →
    PRes.PosSat (fun a rest => Suf T rest ∧ StmtStrOK T a) (parseStmtTail n lhs ts)
  parseExprStmt : ∀ amb l pre ts, Suf T ts → (∀ x, pre = some x → RawStrOK T x) →
    PRes.PosSat (fun a rest => Suf T rest ∧ StmtStrOK T a) (parseExprStmt n amb l pre ts)
  parseRawStmt : ∀ amb ts, Suf T ts →
    PRes.PosSat (fun a rest => Suf T rest ∧ StmtStrOK T a) (parseRawStmt n amb ts)
  parseBraceStmt : ∀ amb l ts, Suf T ts →
    PRes.PosSat (fun a rest => Suf T rest ∧ StmtStrOK T a) (parseBraceStmt n amb l ts)

/-! ## automation -/

/-- side conditions: suffixes, the literal token just matched, the `OK` predicates by their constructors -/
syntax "str_side" : tactic
macro_rules
  | `(tactic| str_side) => `(tactic| first
    | assumption
    | exact Suf.tail (by assumption)
    | exact Suf.tail (Suf.tail (by assumption))
    | exact Suf.tail (Suf.tail (Suf.tail (by assumption)))
    | exact strTok_head (by assumption) (by assumption)
    | exact optOK_none
    | (refine optOK_some ?_; str_side)
    | exact (‹∀ x, some _ = some x → _› _ rfl)
    | exact all_nil
    | (refine all_reverse ?_; str_side)
    | (refine all_cons ?_ ?_ <;> str_side)
    | exact StmtStrOK.expr_inv (by assumption)
    | (constructor <;> str_side))

macro "str_call " ih:ident : tactic =>
  `(tactic| ((with_reducible first
    | apply StrAll.parseAtom $ih | apply StrAll.parsePostfix $ih | apply StrAll.postfixLoop $ih
    | apply StrAll.parseIndexTail $ih | apply StrAll.parseRangeEnd $ih | apply StrAll.parseTier $ih
    | apply StrAll.tierLoop $ih | apply StrAll.parseExpr1 $ih | apply StrAll.rangeLoop $ih
    | apply StrAll.parseExpr $ih | apply StrAll.parseArgs $ih | apply StrAll.parseExprList $ih
    | apply StrAll.parseParams $ih | apply StrAll.parsePropItems $ih | apply StrAll.parsePropTail $ih
    | apply StrAll.parseBlock $ih | apply StrAll.parseStmts $ih | apply StrAll.parseIf $ih
    | apply StrAll.parseStmtTail $ih | apply StrAll.parseExprStmt $ih | apply StrAll.parseRawStmt $ih
    | apply StrAll.parseBraceStmt $ih
    | apply expectTok_pos | apply expectIdent_pos) <;> str_side))

macro "str_leaf" : tactic =>
  `(tactic| ((try apply PRes.PosSat.ok); (try dsimp only []); (repeat' (with_reducible apply And.intro)) <;> str_side))

macro "str_auto " ih:ident : tactic =>
  `(tactic| repeat' first
    | exact True.intro
    | (apply PRes.PosSat.bind (by str_call $ih))
    | (apply PRes.PosSat.map (by str_call $ih))
    | (apply PRes.PosSat.mono ?_ (by str_call $ih))
    | (intro _ _ _; and_split)
    | str_leaf
    | (dsimp only [])
    | split)

theorem strAll_zero (T : List Span) : StrAll T 0 := by
  constructor <;> intros
  · unfold parseAtom; exact True.intro
  · unfold parsePostfix; exact True.intro
  · unfold postfixLoop; exact True.intro
  · unfold parseIndexTail; exact True.intro
  · unfold parseRangeEnd; exact True.intro
  · unfold parseTier; exact True.intro
  · unfold tierLoop; exact True.intro
  · unfold parseExpr1; exact True.intro
  · unfold rangeLoop; exact True.intro
  · unfold parseExpr; exact True.intro
  · unfold parseArgs; exact True.intro
  · unfold parseExprList; exact True.intro
  · unfold parseParams; exact True.intro
  · unfold parsePropItems; exact True.intro
  · unfold parsePropTail; exact True.intro
  · unfold parseBlock; exact True.intro
  · unfold parseStmts; exact True.intro
  · unfold parseIf; exact True.intro
  · unfold parseStmtTail; exact True.intro
  · unfold parseExprStmt; exact True.intro
  · unfold parseRawStmt; exact True.intro
  · unfold parseBraceStmt; exact True.intro

theorem strAll_succ_a (T : List Span) (n : Nat) (ih : StrAll T n) :
    (∀ pre ts, Suf T ts → (∀ x, pre = some x → RawStrOK T x) →
      PRes.PosSat (fun a rest => Suf T rest ∧ RawStrOK T a) (parseAtom (n + 1) pre ts)) := by
  intro pre ts hs hp; (conv => arg 2; unfold parseAtom); str_auto ih

theorem strAll_succ (T : List Span) (n : Nat) (ih : StrAll T n) : StrAll T (n + 1) := by
  constructor
  · exact strAll_succ_a T n ih
  · intro l pre ts hs hp; (conv => arg 2; unfold parsePostfix); str_auto ih
  · intro l acc ts hs ha; (conv => arg 2; unfold postfixLoop); str_auto ih
  · intro e ts hs he; (conv => arg 2; unfold parseIndexTail); str_auto ih
  · intro e s ts hs he hso; (conv => arg 2; unfold parseRangeEnd); str_auto ih
  · intro k l pre ts hs hp; (conv => arg 2; unfold parseTier); str_auto ih
  · intro k l acc ts hs ha; (conv => arg 2; unfold tierLoop); str_auto ih
  · intro s l pre ts hs hp; (conv => arg 2; unfold parseExpr1); str_auto ih
  · intro s l acc ts hs ha; (conv => arg 2; unfold rangeLoop); str_auto ih
  · intro s ts hs; (conv => arg 2; unfold parseExpr); str_auto ih
  · intro acc ts hs ha; (conv => arg 2; unfold parseArgs); str_auto ih
  · intro acc ts hs ha; (conv => arg 2; unfold parseExprList); str_auto ih
  · intro acc ts hs ha; (conv => arg 2; unfold parseParams); str_auto ih
  · intro acc ts hs ha; (conv => arg 2; unfold parsePropItems); str_auto ih
  · intro acc ts hs ha; (conv => arg 2; unfold parsePropTail); str_auto ih
  · intro ts hs; (conv => arg 2; unfold parseBlock); str_auto ih
  · intro c acc ts hs ha; (conv => arg 2; unfold parseStmts); str_auto ih
  · intro ts hs; (conv => arg 2; unfold parseIf); str_auto ih
  · intro lhs ts hs hl; (conv => arg 2; unfold parseStmtTail); str_auto ih
  · intro amb l pre ts hs hp; (conv => arg 2; unfold parseExprStmt); str_auto ih
  · intro amb ts hs; (conv => arg 2; unfold parseRawStmt); str_auto ih
  · intro amb l ts hs; (conv => arg 2; unfold parseBraceStmt); str_auto ih

theorem strAll (T : List Span) (n : Nat) : StrAll T n := by
  induction n with
  | zero => exact strAll_zero T
  | succ n ih => exact strAll_succ T n ih

end Seed
