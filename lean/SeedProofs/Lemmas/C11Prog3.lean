/-
  C11Prog3.lean — writing sequences through the evaluator: the statements `x[i] = e` and `x[a:b] = e` for a list
  variable `x`, with the sub-evaluations as hypotheses and exact fuel, and what `x[j]` reads afterwards.
-/
import SeedProofs.Lemmas.C11Prog2
namespace Seed
open Gen (Leaf)

/-! ### `listSet` / `listSplice` (the laws of C11.lean, needed here for the read-back) -/

theorem listSet_getElem? {α} (xs : List α) (i j : Nat) (v : α) (hi : i < xs.length) :
    (listSet xs i v)[j]? = if j = i then some v else xs[j]? := by
  induction xs generalizing i j with
  | nil => simp at hi
  | cons x r ih =>
    cases i with
    | zero => cases j <;> simp [listSet]
    | succ i =>
      cases j with
      | zero => simp [listSet]
      | succ j =>
        simp only [listSet, List.getElem?_cons_succ, List.length_cons] at hi ⊢
        rw [ih i j (by omega)]
        simp

theorem listSet_len {α} (xs : List α) (i : Nat) (v : α) : (listSet xs i v).length = xs.length := by
  induction xs generalizing i with
  | nil => rfl
  | cons x r ih => cases i <;> simp [listSet, ih]

theorem listSplice_getElem? {α} (xs vals : List α) (start j : Nat) (h : start + vals.length ≤ xs.length) :
    (listSplice xs start vals)[j]? =
      if j < start then xs[j]? else if j < start + vals.length then vals[j - start]? else xs[j]? := by
  unfold listSplice
  by_cases h1 : j < start
  · simp only [h1, if_true]
    rw [List.append_assoc, List.getElem?_append_left (by simp; omega), List.getElem?_take_of_lt h1]
  · simp only [h1, if_false]
    have hlen : (xs.take start).length = start := by simp; omega
    rw [List.append_assoc, List.getElem?_append_right (by omega), hlen]
    by_cases h2 : j < start + vals.length
    · simp only [h2, if_true]
      rw [List.getElem?_append_left (by omega)]
    · simp only [h2, if_false]
      rw [List.getElem?_append_right (by omega), List.getElem?_drop]
      congr 1; omega

theorem listSplice_len {α} (xs vals : List α) (start : Nat) (h : start + vals.length ≤ xs.length) :
    (listSplice xs start vals).length = xs.length := by
  unfold listSplice
  simp only [List.length_append, List.length_take, List.length_drop]
  omega

/-! ### `x[i] = e` -/

/-- **the statement `x[i] = rhs`** for a variable `x` that holds the list cell `a`: the right-hand side first, then the
    index; a negative index and an index `≥ len` are the two errors (nothing is written), otherwise the cell `a` —
    and only that cell — gets `listSet xs i v` -/
theorem assign_index_stmt {n : Nat} {σ σ1 σ2 : State} {sc : List Addr} {x : List Char} {ie rhs : Expr} (lx li : Loc)
    {v : SVal} {a : Addr} {s si : Option Val} {k : Int} {xs : List SVal}
    (hr : evalExpr n σ sc rhs = .ok v σ1) (hx : scopeGet σ1 sc x = some ⟨.list a, s⟩)
    (hi : evalExpr n σ1 sc ie = .ok ⟨.int k, si⟩ σ2) (hxs : σ2.getList a = some xs) :
    evalStmt (n + 4) σ sc (.Assign (.mk (.Index (.mk (.Var x) lx) ie) li) rhs) =
      if k < 0 then errAt ie.loc (Leaf.NegativeIndex k) σ2
      else if k.toNat < xs.length then .ok .none (σ2.set a (.list (listSet xs k.toNat v)))
      else errAt li (Leaf.OutOfListBounds k.toNat) σ2 := by
  rw [evalStmt, evalExpr_fuel_mono hr (by simp) (by omega : n ≤ n + 3)]
  simp only [Res.bind]
  rw [bindNext, evalExpr_var _ lx hx]
  simp only [Res.bind, evalToIndex_int hi]
  by_cases hk : k < 0
  · simp only [hk, if_true, errAt]
  · simp only [hk, if_false, hxs]
    by_cases hlt : k.toNat < xs.length
    · simp only [hlt, if_true, List.getElem?_eq_getElem hlt, opAssignValue, hxs]
    · simp only [hlt, if_false, List.getElem?_eq_none (Nat.le_of_not_lt hlt)]
      rfl

/-- the cell after `x[i] = v` -/
theorem set_list_facts {σ : State} {a : Addr} {xs : List SVal} (ys : List SVal) (hxs : σ.getList a = some xs) :
    (σ.set a (.list ys)).getList a = some ys ∧
    (∀ b, b ≠ a → (σ.set a (.list ys)).heap[b]? = σ.heap[b]?) ∧
    (σ.set a (.list ys)).heap.size = σ.heap.size ∧ (σ.set a (.list ys)).out = σ.out ∧
    (∀ sc x, scopeGet (σ.set a (.list ys)) sc x = scopeGet σ sc x) :=
  ⟨getList_set_same (getList_lt hxs) ys, fun _ hb => σ.heap_set_other _ hb, σ.size_set _ _, rfl,
    fun sc x => scopeGet_set_list ys hxs sc x⟩

/-- **reading back**: in the state after `x[i] = v` (`i < len`), `x[j]` is `v` for `j = i` and the old item otherwise; the
    index expression `je` evaluates to the integer `kj` without effects -/
theorem index_after_assign {m : Nat} {σ2 : State} {sc : List Addr} {x : List Char} {je : Expr} (lx lj : Loc)
    {a : Addr} {s sj : Option Val} {i : Nat} {kj : Int} {xs : List SVal} (v : SVal)
    (hx : scopeGet σ2 sc x = some ⟨.list a, s⟩) (hxs : σ2.getList a = some xs) (hi : i < xs.length)
    (hj : evalExpr m (σ2.set a (.list (listSet xs i v))) sc je = .ok ⟨.int kj, sj⟩ (σ2.set a (.list (listSet xs i v)))) :
    evalExpr (m + 3) (σ2.set a (.list (listSet xs i v))) sc (.mk (.Index (.mk (.Var x) lx) je) lj) =
      if kj < 0 then errAt je.loc (Leaf.NegativeIndex kj) (σ2.set a (.list (listSet xs i v)))
      else match (if kj.toNat = i then some v else xs[kj.toNat]?) with
        | some w => .ok w (σ2.set a (.list (listSet xs i v)))
        | none => errAt lj (Leaf.OutOfListBounds kj.toNat) (σ2.set a (.list (listSet xs i v))) := by
  obtain ⟨m', rfl⟩ := evalExpr_ok_pos hj
  have hx' : scopeGet (σ2.set a (.list (listSet xs i v))) sc x = some ⟨.list a, s⟩ := by
    rw [scopeGet_set_list _ hxs]; exact hx
  rw [evalExpr_index_list lj (evalExpr_var m' lx hx') hj (getList_set_same (getList_lt hxs) _),
    listSet_getElem? xs i _ v hi]
  by_cases hk : kj < 0
  · simp only [hk, if_true]
  · simp only [hk, if_false]
    cases (if kj.toNat = i then some v else xs[kj.toNat]?) <;> rfl

/-! ### `x[a:b] = e` -/

/-- the items a value contributes as the right-hand side of a range assignment: the items of a list, the bytes of a
    string as one-byte strings; nothing else is accepted -/
def rangeRhs (σ : State) : Val → Option (List SVal)
  | .list b => σ.getList b
  | .str bs => some (bs.map fun b => SVal.plain (.str [b]))
  | _ => none

/-- **the statement `x[start:stop] = rhs`** for a variable `x` holding the list cell `a`.  Order: right-hand side, its
    items (read before the bounds are evaluated), start, end, then the target's items `xs`; the omitted end is
    `len xs` — the length of the TARGET.  Succeeds exactly for `lo < hi ≤ len xs` with `hi - lo = len ys`. -/
theorem assign_range_stmt {n : Nat} {σ σ1 σ2 σ3 : State} {sc : List Addr} {x : List Char} {rhs : Expr}
    {start stop : Option Expr} (lx lr : Loc) {rv : SVal} {a : Addr} {s : Option Val} {ra rb : Option Int}
    {xs ys : List SVal}
    (hr : evalExpr n σ sc rhs = .ok rv σ1) (hys : rangeRhs σ1 rv.v = some ys)
    (hx : scopeGet σ1 sc x = some ⟨.list a, s⟩)
    (hA : Bound n sc σ1 start ra σ2) (hB : Bound n sc σ2 stop rb σ3) (hra : NonNeg ra) (hrb : NonNeg rb)
    (hxs : σ3.getList a = some xs) :
    evalStmt (n + 6) σ sc (.Assign (.mk (.RangeIndex (.mk (.Var x) lx) start stop) lr) rhs) =
      if rangeLo ra > xs.length then
        errAt lr (Leaf.RangeStartOutOfListBounds (rangeLo ra) xs.length) σ3
      else if rangeLo ra ≥ rangeHi rb xs.length then
        errAt lr (Leaf.RangeStartNotBeforeEnd (rangeLo ra) (rangeHi rb xs.length)) σ3
      else if rangeHi rb xs.length > xs.length then
        errAt lr (Leaf.RangeEndOutOfListBounds (rangeHi rb xs.length) xs.length) σ3
      else if rangeHi rb xs.length - rangeLo ra ≠ ys.length then
        errAt lr (Leaf.RangeIndexItemMismatch (rangeHi rb xs.length - rangeLo ra) ys.length) σ3
      else .ok .none (σ3.set a (.list (listSplice xs (rangeLo ra) ys))) := by
  have hbr : bindRangeIndex (n + 4) σ1 sc a start stop lr ys [] =
      if rangeLo ra > xs.length then
        errAt lr (Leaf.RangeStartOutOfListBounds (rangeLo ra) xs.length) σ3
      else if rangeLo ra ≥ rangeHi rb xs.length then
        errAt lr (Leaf.RangeStartNotBeforeEnd (rangeLo ra) (rangeHi rb xs.length)) σ3
      else if rangeHi rb xs.length > xs.length then
        errAt lr (Leaf.RangeEndOutOfListBounds (rangeHi rb xs.length) xs.length) σ3
      else if rangeHi rb xs.length - rangeLo ra ≠ ys.length then
        errAt lr (Leaf.RangeIndexItemMismatch (rangeHi rb xs.length - rangeLo ra) ys.length) σ3
      else .ok [] (σ3.set a (.list (listSplice xs (rangeLo ra) ys))) := by
    unfold rangeLo rangeHi
    rw [bindRangeIndex, evalOptIndex_bound hA hra]
    simp only [Res.bind]
    rw [evalOptIndex_bound hB hrb]
    simp only [hxs]
  rw [evalStmt, evalExpr_fuel_mono hr (by simp) (by omega : n ≤ n + 5)]
  simp only [Res.bind]
  rw [bindNext, evalExpr_var _ lx hx]
  simp only [Res.bind]
  have hfin : ∀ r : Res (List (List Char)), r = (if rangeLo ra > xs.length then
        errAt lr (Leaf.RangeStartOutOfListBounds (rangeLo ra) xs.length) σ3
      else if rangeLo ra ≥ rangeHi rb xs.length then
        errAt lr (Leaf.RangeStartNotBeforeEnd (rangeLo ra) (rangeHi rb xs.length)) σ3
      else if rangeHi rb xs.length > xs.length then
        errAt lr (Leaf.RangeEndOutOfListBounds (rangeHi rb xs.length) xs.length) σ3
      else if rangeHi rb xs.length - rangeLo ra ≠ ys.length then
        errAt lr (Leaf.RangeIndexItemMismatch (rangeHi rb xs.length - rangeLo ra) ys.length) σ3
      else .ok [] (σ3.set a (.list (listSplice xs (rangeLo ra) ys)))) →
      (r.bind fun _ σ2 => Res.ok Escape.none σ2) = (if rangeLo ra > xs.length then
        errAt lr (Leaf.RangeStartOutOfListBounds (rangeLo ra) xs.length) σ3
      else if rangeLo ra ≥ rangeHi rb xs.length then
        errAt lr (Leaf.RangeStartNotBeforeEnd (rangeLo ra) (rangeHi rb xs.length)) σ3
      else if rangeHi rb xs.length > xs.length then
        errAt lr (Leaf.RangeEndOutOfListBounds (rangeHi rb xs.length) xs.length) σ3
      else if rangeHi rb xs.length - rangeLo ra ≠ ys.length then
        errAt lr (Leaf.RangeIndexItemMismatch (rangeHi rb xs.length - rangeLo ra) ys.length) σ3
      else .ok .none (σ3.set a (.list (listSplice xs (rangeLo ra) ys)))) := by
    intro r hr
    rw [hr]
    repeat' split
    all_goals rfl
  cases hv : rv.v with
  | list b =>
    rw [hv] at hys
    simp only [rangeRhs] at hys
    simp only [hys]
    exact hfin _ hbr
  | str bs =>
    rw [hv] at hys
    simp only [rangeRhs, Option.some.injEq] at hys
    simp only [hys]
    exact hfin _ hbr
  | null => rw [hv] at hys; cases hys
  | bool _ => rw [hv] at hys; cases hys
  | int _ => rw [hv] at hys; cases hys
  | obj _ => rw [hv] at hys; cases hys
  | builtin _ _ => rw [hv] at hys; cases hys
  | func _ => rw [hv] at hys; cases hys

/-- a right-hand side that is neither a list nor a string: the error at the target, before any bound is evaluated -/
theorem assign_range_bad_rhs {n : Nat} {σ σ1 : State} {sc : List Addr} {x : List Char} {rhs : Expr}
    {start stop : Option Expr} (lx lr : Loc) {rv : SVal} {a : Addr} {s : Option Val}
    (hr : evalExpr (n + 1) σ sc rhs = .ok rv σ1) (hx : scopeGet σ1 sc x = some ⟨.list a, s⟩)
    (hl : ∀ b, rv.v ≠ .list b) (hs : ∀ bs, rv.v ≠ .str bs) :
    evalStmt (n + 3) σ sc (.Assign (.mk (.RangeIndex (.mk (.Var x) lx) start stop) lr) rhs) =
      errAt lr (Leaf.RangeIndexAssignOnNonIndexable rv.v.kind) σ1 := by
  rw [evalStmt, evalExpr_fuel_mono hr (by simp) (by omega : n + 1 ≤ n + 2)]
  simp only [Res.bind]
  rw [bindNext, evalExpr_var _ lx hx]
  simp only [Res.bind]
  cases hv : rv.v with
  | list b => exact absurd hv (hl b)
  | str bs => exact absurd hv (hs bs)
  | _ => rfl

/-- **reading back** after `x[lo:hi] = ys` (`lo + len ys ≤ len xs`): positions `lo ..< lo + len ys` hold `ys`, every other
    position what it held -/
theorem index_after_range_assign {m : Nat} {σ3 : State} {sc : List Addr} {x : List Char} {je : Expr} (lx lj : Loc)
    {a : Addr} {s sj : Option Val} {lo : Nat} {kj : Int} {xs : List SVal} (ys : List SVal)
    (hx : scopeGet σ3 sc x = some ⟨.list a, s⟩) (hxs : σ3.getList a = some xs) (hfit : lo + ys.length ≤ xs.length)
    (hj : evalExpr m (σ3.set a (.list (listSplice xs lo ys))) sc je =
      .ok ⟨.int kj, sj⟩ (σ3.set a (.list (listSplice xs lo ys)))) :
    evalExpr (m + 3) (σ3.set a (.list (listSplice xs lo ys))) sc (.mk (.Index (.mk (.Var x) lx) je) lj) =
      if kj < 0 then errAt je.loc (Leaf.NegativeIndex kj) (σ3.set a (.list (listSplice xs lo ys)))
      else match (if kj.toNat < lo then xs[kj.toNat]?
                  else if kj.toNat < lo + ys.length then ys[kj.toNat - lo]? else xs[kj.toNat]?) with
        | some w => .ok w (σ3.set a (.list (listSplice xs lo ys)))
        | none => errAt lj (Leaf.OutOfListBounds kj.toNat) (σ3.set a (.list (listSplice xs lo ys))) := by
  obtain ⟨m', rfl⟩ := evalExpr_ok_pos hj
  have hx' : scopeGet (σ3.set a (.list (listSplice xs lo ys))) sc x = some ⟨.list a, s⟩ := by
    rw [scopeGet_set_list _ hxs]; exact hx
  rw [evalExpr_index_list lj (evalExpr_var m' lx hx') hj (getList_set_same (getList_lt hxs) _),
    listSplice_getElem? xs ys lo _ hfit]
  by_cases hk : kj < 0
  · simp only [hk, if_true]
  · simp only [hk, if_false]
    cases (if kj.toNat < lo then xs[kj.toNat]?
                  else if kj.toNat < lo + ys.length then ys[kj.toNat - lo]? else xs[kj.toNat]?) <;> rfl

/-! ### a statement followed by the rest of the block -/

theorem evalStmts_after {n : Nat} {σ σ' : State} {sc : List Addr} {st : Stmt} (rest : List Stmt)
    (h : evalStmt n σ sc st = .ok .none σ') : evalStmts (n + 1) σ sc (st :: rest) = evalStmts n σ' sc rest :=
  evalStmts_cons_ok rest h

theorem evalStmts_stmt_err {n : Nat} {σ σ' : State} {sc : List Addr} {st : Stmt} (rest : List Stmt) {e : Err}
    (h : evalStmt n σ sc st = .err e σ') : evalStmts (n + 1) σ sc (st :: rest) = .err e σ' := by
  rw [evalStmts_cons, h]; rfl

end Seed
