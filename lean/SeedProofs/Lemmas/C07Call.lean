/-
  C07Call.lean — the call boundary: what a call of a user function does with the result of the callee's body.
  A call is an expression: its result carries a value, never an `Escape`; the only way a `return` of the callee is
  seen by the caller is as the value of the call expression.
-/
import SeedProofs.Lemmas.C07Loops
import SeedProofs.Lemmas.Located
namespace Seed.C07
open Seed Gen

/-- the arity check of `eval_call` passes: with a collecting last parameter at least `params - 1` arguments, otherwise
    exactly `params` -/
def ArityOK (fr : FuncRec) (got : Nat) : Prop :=
  (fr.collect = true → fr.args.length - 1 ≤ got) ∧ (fr.collect = false → fr.args.length = got)

instance (fr : FuncRec) (got : Nat) : Decidable (ArityOK fr got) := by unfold ArityOK; exact inferInstance

/-- the values bound to the parameters (the surplus collected into a fresh list when the last parameter collects) and the
    state after that allocation -/
def callVals (σ2 : State) (fr : FuncRec) (argVals : List SVal) : List SVal × State :=
  if fr.collect then
    ((argVals.take (fr.args.length - 1) ++ [SVal.plain (.list (σ2.alloc (.list (argVals.drop (fr.args.length - 1)))).1)]),
      (σ2.alloc (.list (argVals.drop (fr.args.length - 1)))).2)
  else (argVals, σ2)

/-- the bindings of the callee's scope: parameters, then `this` for a method call -/
def callBindings (σ2 : State) (fr : FuncRec) (src : Option Val) (argVals : List SVal) (loc : Loc) : List (Expr × SVal) :=
  match src with
  | some this => fr.args.zip (callVals σ2 fr argVals).1 ++ [(Expr.mk (.Var c!"this") loc, SVal.plain this)]
  | none => fr.args.zip (callVals σ2 fr argVals).1

/-- what the call makes of the result of the body: errors get a call frame, the four escapes are consumed -/
def callResult (name : Option (List Char)) (loc : Loc) (rb : Res Escape) : Res SVal :=
  (rb.mapErr (Err.funcCall name loc)).bind fun esc σ4 =>
    match esc with
    | .none => .ok (SVal.plain .null) σ4
    | .brk l => errAt l Leaf.BreakOutsideLoop σ4
    | .cont l => errAt l Leaf.ContinueOutsideLoop σ4
    | .ret v _ => .ok v σ4

/-- **A call of a user function** whose arguments and callee evaluate and whose arity matches is: the body, as a block
    in a fresh scope on the function's closure chain (not the caller's), its result turned into a value by `callResult` -/
theorem call_unfold {n : Nat} {σ σ1 σ2 : State} {sc : List Addr} {f : Expr} {args : List ListItem} (loc : Loc)
    {argVals : List SVal} {fv : SVal} {a : Addr} {fr : FuncRec}
    (hargs : evalListItems n σ sc args [] = .ok argVals σ1) (hf : evalExpr n σ1 sc f = .ok fv σ2)
    (hv : fv.v = .func a) (hfr : σ2.getFunc a = some fr) (har : ArityOK fr argVals.length) :
    evalCall (n + 1) σ sc f args loc =
      callResult fr.name loc
        (evalBlock n (callVals σ2 fr argVals).2 fr.closure (callBindings σ2 fr fv.src argVals loc) fr.stmts) := by
  conv => lhs; unfold evalCall
  simp only [hargs, hf, Res.bind, hv, hfr]
  obtain ⟨h1, h2⟩ := har
  cases hc : fr.collect with
  | false =>
    have := h2 hc
    simp only [callResult, callBindings, callVals, hc, this]
    cases fv.src <;> simp [Res.bind] <;> rfl
  | true =>
    have := h1 hc
    have hlt : ¬ (fr.args.length - 1 > argVals.length) := by omega
    simp only [callResult, callBindings, callVals, hc]
    cases fv.src <;> simp [Res.bind, hlt] <;> rfl

section boundary
variable {n : Nat} {σ σ1 σ2 σ4 : State} {sc : List Addr} {f : Expr} {args : List ListItem} (loc : Loc)
  {argVals : List SVal} {fv : SVal} {a : Addr} {fr : FuncRec}
  (hargs : evalListItems n σ sc args [] = .ok argVals σ1) (hf : evalExpr n σ1 sc f = .ok fv σ2)
  (hv : fv.v = .func a) (hfr : σ2.getFunc a = some fr) (har : ArityOK fr argVals.length)
include hargs hf hv hfr har

/-- `return v` escaping the body: the call expression has the value `v`, in the state at the `return` -/
theorem call_return {v : SVal} {l : Loc}
    (hb : evalBlock n (callVals σ2 fr argVals).2 fr.closure (callBindings σ2 fr fv.src argVals loc) fr.stmts = .ok (.ret v l) σ4) :
    evalCall (n + 1) σ sc f args loc = .ok v σ4 := by
  rw [call_unfold loc hargs hf hv hfr har, hb]; rfl

/-- the body runs to its end: the call is `null` -/
theorem call_falls_off
    (hb : evalBlock n (callVals σ2 fr argVals).2 fr.closure (callBindings σ2 fr fv.src argVals loc) fr.stmts = .ok .none σ4) :
    evalCall (n + 1) σ sc f args loc = .ok (SVal.plain .null) σ4 := by
  rw [call_unfold loc hargs hf hv hfr har, hb]; rfl

/-- a `break` escaping the body is not seen by a loop around the call: it is the error "break outside loop", at the
    position of the `break` -/
theorem call_break_is_error {l : Loc}
    (hb : evalBlock n (callVals σ2 fr argVals).2 fr.closure (callBindings σ2 fr fv.src argVals loc) fr.stmts = .ok (.brk l) σ4) :
    evalCall (n + 1) σ sc f args loc = .err (Err.at l Leaf.BreakOutsideLoop) σ4 := by
  rw [call_unfold loc hargs hf hv hfr har, hb]; rfl

theorem call_continue_is_error {l : Loc}
    (hb : evalBlock n (callVals σ2 fr argVals).2 fr.closure (callBindings σ2 fr fv.src argVals loc) fr.stmts = .ok (.cont l) σ4) :
    evalCall (n + 1) σ sc f args loc = .err (Err.at l Leaf.ContinueOutsideLoop) σ4 := by
  rw [call_unfold loc hargs hf hv hfr har, hb]; rfl

/-- an error of the body gets one call frame (name of the function, position of the call) -/
theorem call_error_framed {e : Err}
    (hb : evalBlock n (callVals σ2 fr argVals).2 fr.closure (callBindings σ2 fr fv.src argVals loc) fr.stmts = .err e σ4) :
    evalCall (n + 1) σ sc f args loc = .err (Err.funcCall fr.name loc e) σ4 := by
  rw [call_unfold loc hargs hf hv hfr har, hb]; rfl

/-- **The call boundary**, all cases at once: the result of the call as a function of the result of the body.  The result
    type of a call is `Res SVal`: there is no way for an `Escape` to leave it. -/
theorem call_boundary :
    evalCall (n + 1) σ sc f args loc =
      match evalBlock n (callVals σ2 fr argVals).2 fr.closure (callBindings σ2 fr fv.src argVals loc) fr.stmts with
      | .ok .none σ4 => .ok (SVal.plain .null) σ4
      | .ok (.ret v _) σ4 => .ok v σ4
      | .ok (.brk l) σ4 => .err (Err.at l Leaf.BreakOutsideLoop) σ4
      | .ok (.cont l) σ4 => .err (Err.at l Leaf.ContinueOutsideLoop) σ4
      | .err e σ4 => .err (Err.funcCall fr.name loc e) σ4
      | .crash w σ4 => .crash w σ4
      | .timeout => .timeout := by
  rw [call_unfold loc hargs hf hv hfr har]
  cases evalBlock n (callVals σ2 fr argVals).2 fr.closure (callBindings σ2 fr fv.src argVals loc) fr.stmts with
  | ok esc σ4 => cases esc <;> rfl
  | err e σ4 => rfl
  | crash w σ4 => rfl
  | timeout => rfl

end boundary

theorem break_error_located (l : Loc) : Located (Err.at l Leaf.BreakOutsideLoop) := trivial
theorem continue_error_located (l : Loc) : Located (Err.at l Leaf.ContinueOutsideLoop) := trivial

/-! ### statements whose only sub-computations are expressions never escape -/

/-- an expression statement (in particular a call statement `f(…)`) completes normally or fails: no escape of a callee
    can reach the caller's statement sequence -/
theorem expr_stmt_never_escapes {n : Nat} {σ σ' : State} {sc : List Addr} {e : Expr} {esc : Escape}
    (h : evalStmt n σ sc (.Expr e) = .ok esc σ') : esc = .none := by
  cases n with
  | zero => unfold evalStmt at h; cases h
  | succ n =>
    unfold evalStmt at h
    cases he : evalExpr n σ sc e <;> simp [he, Res.bind] at h
    exact h.1.symm

theorem declare_never_escapes {n : Nat} {σ σ' : State} {sc : List Addr} {lhs rhs : Expr} {esc : Escape}
    (h : evalStmt n σ sc (.Declare lhs rhs) = .ok esc σ') : esc = .none := by
  cases n with
  | zero => unfold evalStmt at h; cases h
  | succ n =>
    unfold evalStmt at h
    cases he : evalExpr n σ sc rhs with
    | ok v σ1 =>
      cases hb : bindNext n σ1 sc [] lhs v none true <;> simp [he, hb, Res.bind] at h
      exact h.1.symm
    | _ => simp [he, Res.bind] at h

theorem assign_never_escapes {n : Nat} {σ σ' : State} {sc : List Addr} {lhs rhs : Expr} {esc : Escape}
    (h : evalStmt n σ sc (.Assign lhs rhs) = .ok esc σ') : esc = .none := by
  cases n with
  | zero => unfold evalStmt at h; cases h
  | succ n =>
    unfold evalStmt at h
    cases he : evalExpr n σ sc rhs with
    | ok v σ1 =>
      cases hb : bindNext n σ1 sc [] lhs v none false <;> simp [he, hb, Res.bind] at h
      exact h.1.symm
    | _ => simp [he, Res.bind] at h

theorem opassign_never_escapes {n : Nat} {σ σ' : State} {sc : List Addr} {lhs rhs : Expr} {op : BinaryOp} {ol : Loc}
    {esc : Escape} (h : evalStmt n σ sc (.OpAssign lhs op ol rhs) = .ok esc σ') : esc = .none := by
  cases n with
  | zero => unfold evalStmt at h; cases h
  | succ n =>
    unfold evalStmt at h
    cases he : evalExpr n σ sc rhs with
    | ok v σ1 =>
      cases hb : bindNext n σ1 sc [] lhs v (some (op, ol)) false <;> simp [he, hb, Res.bind] at h
      exact h.1.symm
    | _ => simp [he, Res.bind] at h

/-- a `return` statement whose expression is a call escapes with the value of the call: `return f(x)` -/
theorem return_of_call {n : Nat} {σ σ' : State} {sc : List Addr} {l loc : Loc} {f : Expr} {args : List ListItem} {v : SVal}
    (h : evalCall n σ sc f args loc = .ok v σ') :
    evalStmt (n + 2) σ sc (.Return l (.mk (.Call f args) loc)) = .ok (.ret v l) σ' := by
  unfold evalStmt
  have : evalExpr (n + 1) σ sc (.mk (.Call f args) loc) = .ok v σ' := by unfold evalExpr; exact h
  simp only [this, Res.bind]

end Seed.C07
