/-
  ParseRT2Brace.lean — expression statements that begin with `{`.  In statement position `{` opens a block
  or an object literal; `parseBraceStmt` decides by parsing the first item as a statement and looking at the
  token after it, then hands the finished object literal to the expression parser as an already-parsed atom
  (`pre`).  This file shows that a printed expression whose leftmost atom is an object literal is parsed
  through that path to the same tree as through the ordinary expression path — so the printer needs no
  parentheses around such statements.

    `PExpr1.pre_swap`  the expression parser started after its first atom = started before it
    `BL r k`           if `prR k r` begins with `{`, the leading object literal is recognised by both paths
    `SE r`             round trip of `r` as the head of an expression statement (`parseRawStmt`)
-/
import SeedProofs.Lemmas.ParseRT2Main
import SeedProofs.Lemmas.ParseRT2StmtRel
set_option linter.unusedSimpArgs false
namespace Seed

/-! ### starting the expression parser after its first atom -/

theorem parseAtom_some (n : Nat) (a : RawExpr) (ts : List Span) : parseAtom (n + 1) (some a) ts = .ok a ts := by
  unfold parseAtom
  rfl

theorem parsePostfix_pre_eq {n : Nat} {loc : Loc} {ts ts' : List Span} {a : RawExpr}
    (h : parseAtom n none ts = .ok a ts') : parsePostfix (n + 1) loc (some a) ts' = parsePostfix (n + 1) loc none ts := by
  cases n with
  | zero => unfold parseAtom at h; cases h
  | succ m =>
    unfold parsePostfix
    rw [h, parseAtom_some]

theorem parseTier_pre_eq {n : Nat} {loc : Loc} {ts ts' : List Span} {a : RawExpr}
    (h : parseAtom n none ts = .ok a ts') :
    ∀ j k, k + j = 5 → parseTier (n + 2 + j) k loc (some a) ts' = parseTier (n + 2 + j) k loc none ts := by
  intro j
  induction j with
  | zero =>
    intro k hk
    have hk5 : k ≥ Gen.postfixTier := by simp only [Gen.postfixTier]; omega
    show parseTier (n + 1 + 1) k loc (some a) ts' = parseTier (n + 1 + 1) k loc none ts
    unfold parseTier
    simp only [hk5, if_true]
    exact parsePostfix_pre_eq h
  | succ j ih =>
    intro k hk
    have hk5 : ¬ k ≥ Gen.postfixTier := by simp only [Gen.postfixTier]; omega
    show parseTier (n + 2 + j + 1) k loc (some a) ts' = parseTier (n + 2 + j + 1) k loc none ts
    unfold parseTier
    simp only [hk5, if_false]
    rw [ih (k + 1) (by omega)]

theorem parseExpr1_pre_eq {n : Nat} {s : Bool} {loc : Loc} {ts ts' : List Span} {a : RawExpr}
    (h : parseAtom n none ts = .ok a ts') :
    parseExpr1 (n + 6) s loc (some a) ts' = parseExpr1 (n + 6) s loc none ts := by
  show parseExpr1 (n + 2 + 3 + 1) s loc (some a) ts' = parseExpr1 (n + 2 + 3 + 1) s loc none ts
  unfold parseExpr1
  rw [parseTier_pre_eq h 3 Gen.firstTier rfl]

/-- if `ts` begins with an atom `a`, then parsing an expression from `ts` is the same as parsing it from
    what follows the atom with `a` supplied as the already-parsed atom -/
theorem PExpr1.pre_swap {s : Bool} {loc : Loc} {ts ts' r : List Span} {a X : RawExpr}
    (ha : PAtom none ts a ts') (h : PExpr1 s loc none ts X r) : PExpr1 s loc (some a) ts' X r := by
  obtain ⟨f1, h1⟩ := ha
  obtain ⟨f2, h2⟩ := h
  refine ⟨f1 + f2 + 6, ?_⟩
  rw [parseExpr1_pre_eq (parseAtom_ok_mono (Nat.le_add_right f1 f2) h1)]
  exact parseExpr1_ok_mono (by omega) h2

/-! ### more constructors -/

/-- tokens after which an expression statement is just its expression -/
def isTailNone : Token → Bool
  | .StmtEnd | .Colon | .DotDot | .Comma | .BraceClose => true
  | _ => false

theorem PStmtTail.none' {lhs : Expr} {sp : Span} {r : List Span} (h : isTailNone sp.tok = true) :
    PStmtTail lhs (sp :: r) (.Expr lhs) (sp :: r) := by
  refine ⟨1, ?_⟩
  unfold parseStmtTail
  cases ht : sp.tok <;> simp [ht, isTailNone] at h <;> simp [ht, assignOpOf, lookupAssoc, Gen.assignOps]

/-- `{ }` at the start of a statement is the empty object literal -/
theorem PBraceStmt.empty {amb : Bool} {loc : Loc} {sp : Span} {r r' : List Span} {st : Stmt}
    (h : sp.tok = .BraceClose) (h1 : PExprStmt amb loc (some (.Object [])) r st r') :
    PBraceStmt amb loc (sp :: r) st r' := by
  obtain ⟨f1, hf1⟩ := h1
  refine ⟨f1 + 1, ?_⟩
  unfold parseBraceStmt
  simp only [h, if_true, hf1]

/-- `{ .. …` at the start of a statement is an object literal -/
theorem PBraceStmt.dots {amb : Bool} {loc : Loc} {sp : Span} {r r2 r' : List Span} {props : List PropItem} {st : Stmt}
    (h : sp.tok = .DotDot) (h1 : PProps [] (sp :: r) props r2)
    (h2 : PExprStmt amb loc (some (.Object props)) r2 st r') : PBraceStmt amb loc (sp :: r) st r' := by
  obtain ⟨f1, hf1⟩ := h1
  obtain ⟨f2, hf2⟩ := h2
  refine ⟨f1 + f2 + 1, ?_⟩
  unfold parseBraceStmt
  simp [h, parsePropItems_ok_mono (Nat.le_add_right f1 f2) hf1, PRes.bind,
    parseExprStmt_ok_mono (Nat.le_add_left f2 f1) hf2]

/-- `{ k : v …` -/
theorem PBraceStmt.pair {amb : Bool} {loc : Loc} {sp sp2 : Span} {r r3 r4 r5 r' : List Span} {e v : Expr}
    {props : List PropItem} {st : Stmt} (hc : sp.tok ≠ .BraceClose) (hd : sp.tok ≠ .DotDot)
    (h1 : PRawStmt true (sp :: r) (.Expr e) (sp2 :: r3)) (h2 : sp2.tok = .Colon) (h3 : PExpr false r3 v r4)
    (h4 : PPropTail [.Pair e v] r4 props r5) (h5 : PExprStmt amb loc (some (.Object props)) r5 st r') :
    PBraceStmt amb loc (sp :: r) st r' := by
  obtain ⟨f1, hf1⟩ := h1
  obtain ⟨f3, hf3⟩ := h3
  obtain ⟨f4, hf4⟩ := h4
  obtain ⟨f5, hf5⟩ := h5
  refine ⟨f1 + f3 + f4 + f5 + 1, ?_⟩
  unfold parseBraceStmt
  simp [hc, hd, parseRawStmt_ok_mono (by omega : f1 ≤ f1 + f3 + f4 + f5) hf1, PRes.bind, h2,
    parseExpr_ok_mono (by omega : f3 ≤ f1 + f3 + f4 + f5) hf3,
    parsePropTail_ok_mono (by omega : f4 ≤ f1 + f3 + f4 + f5) hf4,
    parseExprStmt_ok_mono (by omega : f5 ≤ f1 + f3 + f4 + f5) hf5]

/-- `{ e .. …` -/
theorem PBraceStmt.spread {amb : Bool} {loc : Loc} {sp sp2 : Span} {r r3 r4 r' : List Span} {e : Expr}
    {props : List PropItem} {st : Stmt} (hc : sp.tok ≠ .BraceClose) (hd : sp.tok ≠ .DotDot)
    (h1 : PRawStmt true (sp :: r) (.Expr e) (sp2 :: r3)) (h2 : sp2.tok = .DotDot)
    (h4 : PPropTail [.Single e true false] r3 props r4) (h5 : PExprStmt amb loc (some (.Object props)) r4 st r') :
    PBraceStmt amb loc (sp :: r) st r' := by
  obtain ⟨f1, hf1⟩ := h1
  obtain ⟨f4, hf4⟩ := h4
  obtain ⟨f5, hf5⟩ := h5
  refine ⟨f1 + f4 + f5 + 1, ?_⟩
  unfold parseBraceStmt
  simp [hc, hd, parseRawStmt_ok_mono (by omega : f1 ≤ f1 + f4 + f5) hf1, PRes.bind, h2,
    parsePropTail_ok_mono (by omega : f4 ≤ f1 + f4 + f5) hf4,
    parseExprStmt_ok_mono (by omega : f5 ≤ f1 + f4 + f5) hf5]

/-- `{ e , …` and `{ e }` -/
theorem PBraceStmt.single {amb : Bool} {loc : Loc} {sp sp2 : Span} {r r3 r4 r' : List Span} {e : Expr}
    {props : List PropItem} {st : Stmt} (hc : sp.tok ≠ .BraceClose) (hd : sp.tok ≠ .DotDot)
    (h1 : PRawStmt true (sp :: r) (.Expr e) (sp2 :: r3)) (h2 : sp2.tok = .Comma ∨ sp2.tok = .BraceClose)
    (h4 : PPropTail [.Single e false false] (sp2 :: r3) props r4)
    (h5 : PExprStmt amb loc (some (.Object props)) r4 st r') : PBraceStmt amb loc (sp :: r) st r' := by
  obtain ⟨f1, hf1⟩ := h1
  obtain ⟨f4, hf4⟩ := h4
  obtain ⟨f5, hf5⟩ := h5
  refine ⟨f1 + f4 + f5 + 1, ?_⟩
  unfold parseBraceStmt
  rcases h2 with h2 | h2 <;>
    simp [hc, hd, parseRawStmt_ok_mono (by omega : f1 ≤ f1 + f4 + f5) hf1, PRes.bind, h2,
      parsePropTail_ok_mono (by omega : f4 ≤ f1 + f4 + f5) hf4,
      parseExprStmt_ok_mono (by omega : f5 ≤ f1 + f4 + f5) hf5]

/-! ### the invariants -/

/-- round trip of `r` as the head of an expression statement: the expression parser gives `raw`, and the
    statement parser `parseRawStmt` continues with the statement tail after it (whatever the first token
    of `r` is — in particular `{`) -/
def SE (r : RawExpr) : Prop :=
  ∀ (amb : Bool) (sp : Span) (tsl rest : List Span), (sp :: tsl).map Span.tok = prR 1 r → stops amb rest →
    ∃ raw, stripR raw = stripR r ∧ PExpr1 amb sp.start none (sp :: (tsl ++ rest)) raw rest ∧
      ∀ st r', PStmtTail (.mk raw sp.start) rest st r' → PRawStmt amb (sp :: (tsl ++ rest)) st r'

/-- if `prR k r` begins with `{`, that brace opens an object literal `a` (the leftmost atom of `r`), which
    both the expression path (`parseAtom`) and the statement path (`parseBraceStmt`) recognise, leaving the
    same tokens `ts0` -/
def BL (r : RawExpr) (k : Nat) : Prop :=
  ∀ (so : Span) (body : List Span), (so :: body).map Span.tok = prR k r → so.tok = .BraceOpen →
    ∃ ts0 : List Span, ∀ rest : List Span, ∃ a : RawExpr,
      PAtom none (so :: (body ++ rest)) a (ts0 ++ rest) ∧
      ∀ (amb : Bool) (loc0 : Loc) (st : Stmt) (r' : List Span),
        PExprStmt amb loc0 (some a) (ts0 ++ rest) st r' → PBraceStmt amb loc0 (body ++ rest) st r'

theorem BL_vacuous {r : RawExpr} {k : Nat} (h : ∀ l, prR k r ≠ Token.BraceOpen :: l) : BL r k := by
  intro so body hts hso
  simp only [List.map_cons, hso] at hts
  exact absurd hts.symm (h _)

/-- along the left spine: `r` is printed as its left operand `e` followed by more tokens -/
theorem BL_append {r e : RawExpr} {k j : Nat} {extra : List Token} (hpr : prR k r = prR j e ++ extra)
    (h : BL e j) : BL r k := by
  intro so body hts hso
  rw [hpr] at hts
  obtain ⟨tse, tsx, hsplit, hte, htx⟩ := map_tok_append hts
  obtain ⟨se, tse', rfl, _⟩ := spans_start hte (prR_starts e j)
  rw [List.cons_append] at hsplit
  obtain ⟨rfl, rfl⟩ := List.cons.inj hsplit
  obtain ⟨ts0, hk⟩ := h so tse' hte hso
  refine ⟨ts0 ++ tsx, fun rest => ?_⟩
  obtain ⟨a, ha, hb⟩ := hk (tsx ++ rest)
  refine ⟨a, by simpa [List.append_assoc] using ha, fun amb loc0 st r' hp => ?_⟩
  have := hb amb loc0 st r' (by simpa [List.append_assoc] using hp)
  simpa [List.append_assoc] using this

/-- the expression of the first item of an object literal, where it matters how the item begins -/
def SEP : PropItem → Prop
  | .Pair k v => SE k.raw ∧ FEE k ∧ FEE v
  | .Single e _ false => SE e.raw ∧ FEE e
  | .Single e _ true => FEE e

theorem sepBody_cons (close : Token) (t : List Token) (rest : List (List Token)) :
    sepBody close false (t :: rest) =
      t ++ (match rest with | [] => [close] | _ :: _ => Token.Comma :: sepBody close false rest) := by
  cases rest with
  | nil => simp [sepBody]
  | cons a l => simp [sepBody]

/-- what follows the first item of an object literal: `}` or `, more }` -/
theorem propTail_rt (ps : List PropItem) (h : ∀ p ∈ ps, FEP p) (p0 : PropItem) (ts2 : List Span)
    (hts2 : ts2.map Span.tok =
      (match ps.map prProp with | [] => [Token.BraceClose] | _ :: _ => Token.Comma :: sepBody .BraceClose false (ps.map prProp))) :
    ∃ sp3 r3, ts2 = sp3 :: r3 ∧ (sp3.tok = .Comma ∨ sp3.tok = .BraceClose) ∧
      ∀ rest, ∃ props', PPropTail [p0] (ts2 ++ rest) props' rest := by
  cases ps with
  | nil =>
    simp only [List.map_nil] at hts2
    obtain ⟨sp3, t', rfl, hsp3, h'⟩ := map_tok_cons hts2
    obtain rfl := map_tok_nil h'
    exact ⟨sp3, [], rfl, Or.inr hsp3, fun rest => ⟨_, PPropTail.close hsp3⟩⟩
  | cons q qs =>
    simp only [List.map_cons] at hts2
    obtain ⟨sp3, ts3, rfl, hsp3, h3⟩ := map_tok_cons hts2
    refine ⟨sp3, ts3, rfl, Or.inl hsp3, fun rest => ?_⟩
    obtain ⟨props', _, hp⟩ := props_rt (q :: qs) h [p0] ts3 rest (by simpa [List.map_cons] using h3)
    exact ⟨_, PPropTail.comma hsp3 hp⟩

/-- an object literal at the start of a statement -/
theorem BL_object {props : List PropItem} {k : Nat} (hall : ∀ p ∈ props, FEP p)
    (hfirst : ∀ p ps, props = p :: ps → SEP p) : BL (.Object props) k := by
  intro so body hts hso
  simp only [prR, prProps_map, List.map_cons, List.cons.injEq] at hts
  obtain ⟨_, hbody⟩ := hts
  refine ⟨[], fun rest => ?_⟩
  simp only [List.nil_append]
  cases props with
  | nil =>
    simp only [List.map_nil, sepBody] at hbody
    obtain ⟨sc, t', rfl, hsc, h'⟩ := map_tok_cons hbody
    obtain rfl := map_tok_nil h'
    exact ⟨.Object [], PAtom.object hso (PProps.nil hsc), fun amb loc0 st r' hp => PBraceStmt.empty hsc hp⟩
  | cons p ps =>
    have hp0 := hfirst p ps rfl
    have hps : ∀ q ∈ ps, FEP q := fun q hq => hall q (List.mem_cons_of_mem _ hq)
    rw [List.map_cons, sepBody_cons] at hbody
    obtain ⟨tsp, ts2, rfl, htp, h2⟩ := map_tok_append hbody
    cases p with
    | Pair k v =>
      obtain ⟨hsek, _, hfv⟩ := hp0
      simp only [prProp] at htp
      obtain ⟨tsk, tsc, rfl, htk, hc2⟩ := map_tok_append htp
      obtain ⟨sc, tsv, rfl, hsc, htv⟩ := map_tok_cons hc2
      obtain ⟨k, kl⟩ := k
      simp only [prE] at htk
      obtain ⟨sk, tsk', rfl, hstk⟩ := spans_start htk (prR_starts k 1)
      obtain ⟨sp3, r3, rfl, hsp3, htail⟩ := propTail_rt ps hps (.Pair (.mk k kl) v) _ h2
      have hs3 : isStopTok sp3.tok = true := by rcases hsp3 with h | h <;> (rw [h]; rfl)
      obtain ⟨rawk, _, hpk, hbk⟩ := hsek true sk tsk' (sc :: (tsv ++ (sp3 :: r3 ++ rest))) htk
        (stops_of_tok (by rw [hsc]; rfl))
      obtain ⟨v', _, hpv⟩ := hfv false tsv (sp3 :: r3 ++ rest) htv (stops_of_tok hs3)
      obtain ⟨sp3', r3', hcons, _, htail'⟩ := propTail_rt ps hps (.Pair (.mk rawk sk.start) v') _ h2
      obtain ⟨rfl, rfl⟩ := List.cons.inj hcons
      obtain ⟨props', hpt⟩ := htail' rest
      have hkE : PExpr true (sk :: (tsk' ++ sc :: (tsv ++ (sp3 :: r3 ++ rest)))) (.mk rawk sk.start)
          (sc :: (tsv ++ (sp3 :: r3 ++ rest))) := PExpr.mk hpk
      have hraw := hbk _ _ (PStmtTail.none' (by rw [hsc]; rfl))
      refine ⟨.Object props', ?_, fun amb loc0 st r' hp => ?_⟩
      · have := PAtom.object hso (PProps.pair (acc := []) (starter_ne hstk rfl) (starter_ne hstk rfl) hkE hsc hpv hpt)
        simpa [List.append_assoc] using this
      · have := PBraceStmt.pair (amb := amb) (loc := loc0) (starter_ne hstk rfl) (starter_ne hstk rfl) hraw hsc hpv hpt hp
        simpa [List.append_assoc] using this
    | Single e s c =>
      cases c with
      | true =>
        -- `.. e`: the object is recognised by its first token
        have hfull : (tsp ++ ts2).map Span.tok = sepBody .BraceClose false ((PropItem.Single e s true :: ps).map prProp) := by
          rw [List.map_cons, sepBody_cons, List.map_append, htp, h2]
        obtain ⟨props', _, hpp⟩ := props_rt (.Single e s true :: ps) hall [] (tsp ++ ts2) rest hfull
        simp only [prProp, spreadMark, if_true] at htp
        obtain ⟨sd, tsp', rfl, hsd, _⟩ := map_tok_cons (by simpa using htp)
        refine ⟨.Object props', PAtom.object hso (by simpa using hpp), fun amb loc0 st r' hp => ?_⟩
        exact PBraceStmt.dots hsd (by simpa using hpp) hp
      | false =>
        obtain ⟨hsee, _⟩ := hp0
        simp only [prProp, spreadMark, Bool.false_eq_true, if_false, List.nil_append] at htp
        obtain ⟨tse, tsm, rfl, hte, htm⟩ := map_tok_append htp
        obtain ⟨sp2, hsp2, rfl⟩ := mark_spans htm
        obtain ⟨e, el⟩ := e
        simp only [prE] at hte
        obtain ⟨se, tse', rfl, hste⟩ := spans_start hte (prR_starts e 1)
        obtain ⟨sp3, r3, rfl, hsp3, _⟩ := propTail_rt ps hps (.Single (.mk e el) s false) _ h2
        have hs3 : isStopTok sp3.tok = true := by rcases hsp3 with h | h <;> (rw [h]; rfl)
        have hf3 : isSpreadFollow (sp3 :: (r3 ++ rest)) = true := by
          rcases hsp3 with h | h <;> simp [isSpreadFollow, h]
        have hnd : sp3.tok ≠ .DotDot := by rcases hsp3 with h | h <;> (rw [h]; decide)
        have hnc : sp3.tok ≠ .Colon := by rcases hsp3 with h | h <;> (rw [h]; decide)
        obtain ⟨rawe, _, hpe, hbe⟩ := hsee true se tse' ((if s then [sp2] else []) ++ sp3 :: (r3 ++ rest)) hte
          (stops_item hsp2 hf3 hs3)
        obtain ⟨sp3', r3', hcons, _, htail'⟩ := propTail_rt ps hps (.Single (.mk rawe se.start) s false) _ h2
        obtain ⟨rfl, rfl⟩ := List.cons.inj hcons
        obtain ⟨props', hpt⟩ := htail' rest
        have heE : PExpr true (se :: (tse' ++ ((if s then [sp2] else []) ++ sp3 :: (r3 ++ rest)))) (.mk rawe se.start)
            ((if s then [sp2] else []) ++ sp3 :: (r3 ++ rest)) := PExpr.mk hpe
        refine ⟨.Object props', ?_, fun amb loc0 st r' hp => ?_⟩
        · have := PAtom.object hso (PProps.single (acc := []) s (starter_ne hste rfl) (starter_ne hste rfl) heE rfl hsp2
            hnd hnc (by simpa using hpt))
          simpa [List.append_assoc] using this
        · cases s with
          | true =>
            have hraw := hbe _ _ (PStmtTail.none' (sp := sp2) (by rw [hsp2]; rfl))
            have := PBraceStmt.spread (amb := amb) (loc := loc0) (starter_ne hste rfl) (starter_ne hste rfl) hraw hsp2
              (by simpa using hpt) hp
            simpa [List.append_assoc] using this
          | false =>
            have hraw := hbe _ _ (PStmtTail.none' (sp := sp3) (by rcases hsp3 with h | h <;> (rw [h]; rfl)))
            have := PBraceStmt.single (amb := amb) (loc := loc0) (starter_ne hste rfl) (starter_ne hste rfl) hraw hsp3
              (by simpa using hpt) hp
            simpa [List.append_assoc] using this

/-- the statement-head round trip from the expression round trip and the leading-brace analysis -/
theorem SE_of_RT_BL {r : RawExpr} (h : RT r) (hb : BL r 1) : SE r := by
  intro amb sp tsl rest hts hst
  obtain ⟨raw, he, hp⟩ := F1R_of_Key1R h.one amb sp.start (sp :: tsl) rest hts hst
  rw [List.cons_append] at hp
  refine ⟨raw, he, hp, fun st r' hT => ?_⟩
  obtain ⟨t, l', htl, hstart, hfn⟩ := prR_starts r 1
  rw [htl] at hts
  simp only [List.map_cons, List.cons.injEq] at hts
  obtain ⟨hsp1, hts'⟩ := hts
  by_cases hbr : sp.tok = Token.BraceOpen
  · obtain ⟨ts0, hk⟩ := hb sp tsl (by rw [htl]; simp only [List.map_cons, hsp1, hts']) hbr
    obtain ⟨a, ha, hbk⟩ := hk rest
    exact PRawStmt.brace hbr (hbk amb sp.start st r' (PExprStmt.mk (PExpr1.pre_swap ha hp) hT))
  · by_cases hf : t = Token.Fn
    · obtain ⟨l'', rfl⟩ := hfn hf
      obtain ⟨sp2, tsl'', rfl, hsp2, _⟩ := map_tok_cons hts'
      exact PRawStmt.exprFn (by rw [hsp1]; exact hf) hsp2 (PExprStmt.mk hp hT)
    · refine PRawStmt.expr ?_ (PExprStmt.mk hp hT)
      rw [hsp1] at hbr ⊢
      cases t <;> simp [isStarter, isExprStmtStart] at hstart hbr hf ⊢

/-! ### the case analysis for `BL` -/

theorem blStep (fn : Bool) (r : RawExpr) (hwf : wfR fn r = true)
    (ihRT : ∀ r', sizeOf r' < sizeOf r → wfR fn r' = true → RT r')
    (ihBL : ∀ r', sizeOf r' < sizeOf r → wfR fn r' = true → ∀ k, BL r' k) : ∀ k, BL r k := by
  have ihE : ∀ e : Expr, sizeOf e.raw < sizeOf r → wfE fn e = true → FEE e := by
    intro e hs hw
    obtain ⟨raw, l⟩ := e
    exact FEE_of_RT (ihRT raw hs (by simpa [wfE] using hw))
  have ihSE : ∀ e : Expr, sizeOf e.raw < sizeOf r → wfE fn e = true → SE e.raw := by
    intro e hs hw
    obtain ⟨raw, l⟩ := e
    have hw' : wfR fn raw = true := by simpa [wfE] using hw
    exact SE_of_RT_BL (ihRT raw hs hw') (ihBL raw hs hw' 1)
  intro k
  cases r with
  | Null => exact BL_vacuous (fun l h => by simp [prR] at h)
  | Bool b => cases b <;> exact BL_vacuous (fun l h => by simp [prR] at h)
  | Int n => cases n <;> exact BL_vacuous (fun l h => by simp [prR] at h)
  | Str s o => cases o <;> exact BL_vacuous (fun l h => by simp [prR] at h)
  | Var x => exact BL_vacuous (fun l h => by simp [prR] at h)
  | List items c => exact BL_vacuous (fun l h => by simp [prR] at h)
  | Func args c stmts => exact BL_vacuous (fun l h => by simp [prR] at h)
  | BinaryOp op ol l r =>
    obtain ⟨l, ll⟩ := l
    obtain ⟨r, rl⟩ := r
    simp only [wfR, wfE, Bool.and_eq_true] at hwf
    by_cases hk : tierOf op < k
    · exact BL_vacuous (fun l' h => by simp [prR, paren, hk] at h)
    · refine BL_append (j := tierOf op) (by simp only [prR, prE, paren, hk, decide_false, Bool.false_eq_true, if_false]; rfl)
        (ihBL l (by simp only [RawExpr.BinaryOp.sizeOf_spec, Expr.mk.sizeOf_spec]; omega) hwf.1 _)
  | Range l r =>
    obtain ⟨l, ll⟩ := l
    obtain ⟨r, rl⟩ := r
    simp only [wfR, wfE, Bool.and_eq_true] at hwf
    by_cases hk : 1 < k
    · exact BL_vacuous (fun l' h => by simp [prR, paren, hk] at h)
    · refine BL_append (j := 1) (by simp only [prR, prE, paren, hk, decide_false, Bool.false_eq_true, if_false]; rfl)
        (ihBL l (by simp only [RawExpr.Range.sizeOf_spec, Expr.mk.sizeOf_spec]; omega) hwf.1 _)
  | Index e i =>
    obtain ⟨e, le⟩ := e
    simp only [wfR, wfE, Bool.and_eq_true] at hwf
    exact BL_append (j := 5) (by simp only [prR, prE]; rfl)
      (ihBL e (by simp only [RawExpr.Index.sizeOf_spec, Expr.mk.sizeOf_spec]; omega) hwf.1 _)
  | RangeIndex e a b =>
    obtain ⟨e, le⟩ := e
    simp only [wfR, wfE, Bool.and_eq_true] at hwf
    exact BL_append (j := 5) (by simp only [prR, prE]; rfl)
      (ihBL e (by simp only [RawExpr.RangeIndex.sizeOf_spec, Expr.mk.sizeOf_spec]; omega) hwf.1.1 _)
  | «Prop» e name tp =>
    obtain ⟨e, le⟩ := e
    simp only [wfR, wfE] at hwf
    exact BL_append (j := 5) (by simp only [prR, prE]; rfl)
      (ihBL e (by simp only [RawExpr.Prop.sizeOf_spec, Expr.mk.sizeOf_spec]; omega) hwf _)
  | Call f args =>
    obtain ⟨f, lf⟩ := f
    simp only [wfR, wfE, Bool.and_eq_true] at hwf
    exact BL_append (j := 5) (by simp only [prR, prE]; rfl)
      (ihBL f (by simp only [RawExpr.Call.sizeOf_spec, Expr.mk.sizeOf_spec]; omega) hwf.1 _)
  | Object props =>
    simp only [wfR] at hwf
    have hall : ∀ p ∈ props, FEP p := by
      intro p hp
      have hw := wfProps_mem hwf p hp
      have hs := List.sizeOf_lt_of_mem hp
      cases p with
      | Pair k v =>
        simp only [wfProp, Bool.and_eq_true] at hw
        simp only [PropItem.Pair.sizeOf_spec] at hs
        have := size_raw k; have := size_raw v
        exact ⟨ihE k (by simp only [RawExpr.Object.sizeOf_spec]; omega) hw.1,
          ihE v (by simp only [RawExpr.Object.sizeOf_spec]; omega) hw.2⟩
      | Single e s c =>
        simp only [wfProp] at hw
        simp only [PropItem.Single.sizeOf_spec] at hs
        have := size_raw e
        exact ihE e (by simp only [RawExpr.Object.sizeOf_spec]; omega) hw
    refine BL_object hall (fun p ps hps => ?_)
    subst hps
    have hp : p ∈ p :: ps := List.mem_cons_self ..
    have hw := wfProps_mem hwf p hp
    have hs := List.sizeOf_lt_of_mem hp
    have hfe := hall p hp
    cases p with
    | Pair k v =>
      simp only [wfProp, Bool.and_eq_true] at hw
      simp only [PropItem.Pair.sizeOf_spec] at hs
      have := size_raw k
      exact ⟨ihSE k (by simp only [RawExpr.Object.sizeOf_spec]; omega) hw.1, hfe.1, hfe.2⟩
    | Single e s c =>
      simp only [wfProp] at hw
      simp only [PropItem.Single.sizeOf_spec] at hs
      have := size_raw e
      cases c with
      | true => exact hfe
      | false => exact ⟨ihSE e (by simp only [RawExpr.Object.sizeOf_spec]; omega) hw, hfe⟩

end Seed
