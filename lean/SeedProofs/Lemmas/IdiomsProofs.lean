/-
  IdiomsProofs.lean — end-to-end theorems, through `evalStmt`, for everyday idioms whose meaning depends on the ORDER in
  which the evaluator does things (each was broken by a "fast path" in a round of seeded interpreter changes).

    swap_by_destructuring (C13)      `[a, b] = [b, a]`: the right-hand side is evaluated completely (one fresh cell
                                     `[vb, va]`) before anything is bound; afterwards `a` reads `vb`, `b` reads `va`
                                     (values with their sources), every other name of every scope reads as before
    rotate_by_destructuring (C13)    `[a, b, c] = [c, a, b]` likewise
    range_assign_from_own_slice (C11) `xs[i:j] = xs[k:l]`: the slice is a snapshot (a fresh cell) taken before the splice
                                     (file IdiomsProofs2.lean)
    opassign_key_evaluated_once (C12) `o[ke] op= rhs`: `ke` is evaluated once (file IdiomsProofs2.lean)
-/
import SeedProofs.Lemmas.C13Assign3
import SeedProofs.Lemmas.C11Prog3
import SeedModel.Run
namespace Seed.Idioms
open Seed Gen Seed.C13N

/-! ### fuel -/

theorem evalStmt_stable {k n : Nat} (h : k ≤ n) {σ : State} {sc : List Addr} {st : Stmt} {r : Res Escape}
    (hr : evalStmt k σ sc st = r) (hne : r ≠ .timeout) : evalStmt n σ sc st = r := by
  induction h with
  | refl => exact hr
  | step _ ih =>
    rename_i j _
    rcases (monoAll j).evalStmt σ sc st with h' | h'
    · rw [ih] at h'; exact absurd h' hne
    · rw [← h', ih]

/-! ### a list literal whose items are variables -/

/-- the item `x` (a variable, not spread) -/
def varItem (x : List Char × Loc) : ListItem := .mk (.mk (.Var x.1) x.2) false

theorem evalListItems_vars {σ : State} {sc : List Addr} : ∀ (xs : List ((List Char × Loc) × SVal)) (acc : List SVal) (n : Nat),
    (∀ p ∈ xs, scopeGet σ sc p.1.1 = some p.2) →
    evalListItems (n + xs.length + 1) σ sc (xs.map fun p => varItem p.1) acc = .ok (acc ++ xs.map Prod.snd) σ
  | [], acc, n, _ => by
    show evalListItems (n + 1) σ sc [] acc = .ok (acc ++ []) σ
    rw [evalListItems, List.append_nil]
  | (x, v) :: r, acc, n, h => by
    show evalListItems ((n + r.length + 1) + 1) σ sc (.mk (.mk (.Var x.1) x.2) false :: r.map fun p => varItem p.1) acc = _
    rw [evalListItems, evalExpr_var (n + r.length) x.2 (h (x, v) List.mem_cons_self)]
    simp only [Res.bind, Bool.not_false, if_true]
    rw [evalListItems_vars r (acc ++ [v]) n (fun p hp => h p (List.mem_cons_of_mem _ hp)), List.append_assoc]
    rfl

/-- `[x₁, …, xₖ]` with every `xᵢ` a declared variable (`xs` pairs each variable and its position with the value it
    holds): ONE fresh cell holding their values — the stored values themselves, sources included — in order; nothing
    else changes -/
theorem evalExpr_varList {σ : State} {sc : List Addr} (xs : List ((List Char × Loc) × SVal)) (lr : Loc) (n : Nat)
    (h : ∀ p ∈ xs, scopeGet σ sc p.1.1 = some p.2) :
    evalExpr (n + xs.length + 2) σ sc (.mk (.List (xs.map fun p => varItem p.1) false) lr) =
      .ok (SVal.plain (.list σ.heap.size)) (σ.alloc (.list (xs.map Prod.snd))).2 := by
  show evalExpr ((n + xs.length + 1) + 1) σ sc _ = _
  rw [evalExpr]
  simp only [Bool.false_eq_true, if_false]
  rw [evalListItems_vars xs [] n h]
  rfl

/-! ### T1: swap by destructuring -/

/-- the pattern `[a, b]` -/
def swapPat (a b : List Char) (la lb lp : Loc) : Pat := .list (.cons (.var a la) (.cons (.var b lb) .nil)) false lp

/-- the statement `[a, b] = [b, a];` (positions: `la lb` of the names on the left, `lp` of the left bracket, `rb ra` of the
    names on the right, `lr` of the right bracket) -/
def swapStmt (a b : List Char) (la lb lp rb ra lr : Loc) : Stmt :=
  .Assign (.mk (.List [.mk (.mk (.Var a) la) false, .mk (.mk (.Var b) lb) false] false) lp)
          (.mk (.List [.mk (.mk (.Var b) rb) false, .mk (.mk (.Var a) ra) false] false) lr)

/-- this is what the parser builds -/
example : parseProg c!"[a, b] = [b, a];" = .ok [swapStmt c!"a" c!"b" (1, 2) (1, 5) (1, 1) (1, 11) (1, 14) (1, 10)] := by
  with_unfolding_all rfl

theorem getScope_allocList {σ : State} (xs : List SVal) (c : Addr) : (σ.alloc (.list xs)).2.getScope c = σ.getScope c :=
  (NExt.allocList σ xs).2 c

/-- **swap_by_destructuring.**  `a`, `b` distinct names (neither is `_`) declared somewhere in the scope chain `sc`, holding
    `va` and `vb`.  With fuel 7 or more, `[a, b] = [b, a];` completes in a state `σ'` where
    * `a` reads `vb` and `b` reads `va` — the stored values, sources included;
    * every other name reads through the chain as before, and in EVERY scope cell (of the chain or not) every entry
      other than the nearest binding of `a` and the nearest binding of `b` reads as before (shadowed outer `a`s too);
      each scope cell keeps its names, their order and their declaration positions;
    * exactly one cell was allocated, the temporary list `[vb, va]` at the old heap size: the right-hand side was
      evaluated COMPLETELY — both reads — before anything was bound; nothing was printed; no other non-scope cell changed. -/
theorem swap_by_destructuring {σ : State} {sc : List Addr} {a b : List Char} {va vb : SVal}
    (la lb lp rb ra lr : Loc) (hab : a ≠ b) (ha_ : a ≠ c!"_") (hb_ : b ≠ c!"_")
    (ha : scopeGet σ sc a = some va) (hb : scopeGet σ sc b = some vb) :
    ∃ σ' : State,
      (∀ n, 7 ≤ n → evalStmt n σ sc (swapStmt a b la lb lp rb ra lr) = .ok .none σ') ∧
      scopeGet σ' sc a = some vb ∧ scopeGet σ' sc b = some va ∧
      (∀ y, y ≠ a → y ≠ b → scopeGet σ' sc y = scopeGet σ sc y) ∧
      (∀ c m y, σ.getScope c = some m →
        (y = a → (nearest σ sc a).map Prod.fst ≠ some c) → (y = b → (nearest σ sc b).map Prod.fst ≠ some c) →
        ∃ m', σ'.getScope c = some m' ∧ scopeLookup y m' = scopeLookup y m ∧
          m'.map (fun e => (e.1, e.2.2)) = m.map (fun e => (e.1, e.2.2))) ∧
      σ'.heap.size = σ.heap.size + 1 ∧ σ'.getList σ.heap.size = some [vb, va] ∧ σ'.out = σ.out ∧
      (∀ c, c < σ.heap.size → σ.getScope c = none → σ'.heap[c]? = σ.heap[c]?) := by
  have hn1 : NExt σ (σ.alloc (.list [vb, va])).2 := NExt.allocList σ _
  have he : evalExpr 6 σ sc (.mk (.List [.mk (.mk (.Var b) rb) false, .mk (.mk (.Var a) ra) false] false) lr) =
      .ok (SVal.plain (.list σ.heap.size)) (σ.alloc (.list [vb, va])).2 :=
    evalExpr_varList [((b, rb), vb), ((a, ra), va)] lr 2 (by
      intro p hp
      simp only [List.mem_cons, List.not_mem_nil, or_false] at hp
      rcases hp with rfl | rfl
      · exact hb
      · exact ha)
  have hg : (σ.alloc (.list [vb, va])).2.getList σ.heap.size = some [vb, va] := getList_alloc_new σ _
  have hp : proj (swapPat a b la lb lp) (σ.alloc (.list [vb, va])).2 (SVal.plain (.list σ.heap.size)) =
      some ([(a, vb, la), (b, va, lb)], (σ.alloc (.list [vb, va])).2) := by
    simp [swapPat, proj, projList, projName, seqP, PatList.length, SVal.plain, hg, ha_, hb_]
  have hnd : (([(a, vb, la), (b, va, lb)] : List Bnd).map Prod.fst).Nodup := by simp [hab]
  have hd : ∀ x ∈ ([(a, vb, la), (b, va, lb)] : List Bnd).map Prod.fst, Declared (σ.alloc (.list [vb, va])).2 sc x := by
    intro x hx
    simp only [List.map_cons, List.map_nil, List.mem_cons, List.not_mem_nil, or_false] at hx
    rcases hx with rfl | rfl
    · exact ⟨va, scopeGet_alloc _ ha⟩
    · exact ⟨vb, scopeGet_alloc _ hb⟩
  obtain ⟨σ', h3⟩ := assignAll_of_declared sc _ _ hd
  have hst : evalStmt 7 σ sc (swapStmt a b la lb lp rb ra lr) = .ok .none σ' :=
    assign_stmt_nested (p := swapPat a b la lb lp) he (by simp [swapPat, Pat.size, PatList.size]) hp hnd hd h3
  obtain ⟨hl1, hl2⟩ := assign_nested_leaves hp h3 hnd
  obtain ⟨f1, _, f3, f4, f5, _⟩ := assign_nested_frame hp h3
  refine ⟨σ', fun n hn => evalStmt_stable hn hst (fun e => by cases e), hl1 a vb la (by simp), hl1 b va lb (by simp),
    fun y hya hyb => ?_, fun c m y hs h1 h2 => ?_, ?_, ?_, ?_, fun c hc hs => ?_⟩
  · rw [hl2 y (by simp [Ne.symm hya, Ne.symm hyb])]
    simp only [scopeGet_eq, hn1.nearest]
  · refine assign_nested_others hp h3 (b := c) (m := m) ((getScope_allocList _ c).trans hs) ?_
    intro w l hm
    simp only [List.mem_cons, List.not_mem_nil, or_false, Prod.mk.injEq] at hm
    rw [hn1.nearest]
    rcases hm with ⟨e, _⟩ | ⟨e, _⟩
    · subst e; exact h1 rfl
    · subst e; exact h2 rfl
  · rw [f1, State.alloc_size]
  · have := f4 σ.heap.size (by
      rw [getScope_allocList]
      cases hsc : σ.getScope σ.heap.size with
      | none => rfl
      | some m => exact absurd (getScope_lt hsc) (Nat.lt_irrefl _))
    rw [getList_eq_some, this]; exact getList_eq_some.mp hg
  · rw [f3]; rfl
  · rw [f4 c ((getScope_allocList _ c).trans hs), State.alloc_heap_old _ _ hc]

/-- the hypotheses hold in a state with `a` and `b` declared in two different scopes (and an outer, shadowed `a`), and the
    conclusion is what the evaluator computes there: the inner `a` and `b` are swapped, the outer `a` keeps `7` -/
example :
    let σ : State := ⟨#[.scope [(c!"a", SVal.plain (.int 7), (1, 1)), (c!"b", SVal.plain (.int 2), (2, 1))],
                       .scope [(c!"a", ⟨.int 1, some (.obj 9)⟩, (3, 1))]], []⟩
    scopeGet σ [1, 0] c!"a" = some ⟨.int 1, some (.obj 9)⟩ ∧ scopeGet σ [1, 0] c!"b" = some (SVal.plain (.int 2)) ∧
    evalStmt 7 σ [1, 0] (swapStmt c!"a" c!"b" (1, 2) (1, 5) (1, 1) (1, 11) (1, 14) (1, 10)) =
      .ok .none ⟨#[.scope [(c!"a", SVal.plain (.int 7), (1, 1)), (c!"b", ⟨.int 1, some (.obj 9)⟩, (2, 1))],
                   .scope [(c!"a", SVal.plain (.int 2), (3, 1))],
                   .list [SVal.plain (.int 2), ⟨.int 1, some (.obj 9)⟩]], []⟩ := by
  refine ⟨by rfl, by rfl, ?_⟩
  with_unfolding_all rfl

/-! ### the three-variable rotation -/

def rotPat (a b c : List Char) (la lb lc lp : Loc) : Pat :=
  .list (.cons (.var a la) (.cons (.var b lb) (.cons (.var c lc) .nil))) false lp

/-- the statement `[a, b, c] = [c, a, b];` -/
def rotStmt (a b c : List Char) (la lb lc lp rc ra rb lr : Loc) : Stmt :=
  .Assign (.mk (.List [.mk (.mk (.Var a) la) false, .mk (.mk (.Var b) lb) false, .mk (.mk (.Var c) lc) false] false) lp)
          (.mk (.List [.mk (.mk (.Var c) rc) false, .mk (.mk (.Var a) ra) false, .mk (.mk (.Var b) rb) false] false) lr)

example : parseProg c!"[a, b, c] = [c, a, b];" =
    .ok [rotStmt c!"a" c!"b" c!"c" (1, 2) (1, 5) (1, 8) (1, 1) (1, 14) (1, 17) (1, 20) (1, 13)] := by
  with_unfolding_all rfl

/-- **rotate_by_destructuring.**  `[a, b, c] = [c, a, b];` for three pairwise distinct declared names: `a` reads the old
    `c`, `b` the old `a`, `c` the old `b`; everything else as in `swap_by_destructuring`; one fresh cell `[vc, va, vb]`. -/
theorem rotate_by_destructuring {σ : State} {sc : List Addr} {a b c : List Char} {va vb vc : SVal}
    (la lb lc lp rc ra rb lr : Loc) (hab : a ≠ b) (hac : a ≠ c) (hbc : b ≠ c)
    (ha_ : a ≠ c!"_") (hb_ : b ≠ c!"_") (hc_ : c ≠ c!"_")
    (ha : scopeGet σ sc a = some va) (hb : scopeGet σ sc b = some vb) (hc : scopeGet σ sc c = some vc) :
    ∃ σ' : State,
      (∀ n, 9 ≤ n → evalStmt n σ sc (rotStmt a b c la lb lc lp rc ra rb lr) = .ok .none σ') ∧
      scopeGet σ' sc a = some vc ∧ scopeGet σ' sc b = some va ∧ scopeGet σ' sc c = some vb ∧
      (∀ y, y ≠ a → y ≠ b → y ≠ c → scopeGet σ' sc y = scopeGet σ sc y) ∧
      (∀ d m y, σ.getScope d = some m →
        (y = a → (nearest σ sc a).map Prod.fst ≠ some d) → (y = b → (nearest σ sc b).map Prod.fst ≠ some d) →
        (y = c → (nearest σ sc c).map Prod.fst ≠ some d) →
        ∃ m', σ'.getScope d = some m' ∧ scopeLookup y m' = scopeLookup y m ∧
          m'.map (fun e => (e.1, e.2.2)) = m.map (fun e => (e.1, e.2.2))) ∧
      σ'.heap.size = σ.heap.size + 1 ∧ σ'.getList σ.heap.size = some [vc, va, vb] ∧ σ'.out = σ.out ∧
      (∀ d, d < σ.heap.size → σ.getScope d = none → σ'.heap[d]? = σ.heap[d]?) := by
  have hn1 : NExt σ (σ.alloc (.list [vc, va, vb])).2 := NExt.allocList σ _
  have he : evalExpr 8 σ sc (.mk (.List [.mk (.mk (.Var c) rc) false, .mk (.mk (.Var a) ra) false,
        .mk (.mk (.Var b) rb) false] false) lr) =
      .ok (SVal.plain (.list σ.heap.size)) (σ.alloc (.list [vc, va, vb])).2 :=
    evalExpr_varList [((c, rc), vc), ((a, ra), va), ((b, rb), vb)] lr 3 (by
      intro p hp
      simp only [List.mem_cons, List.not_mem_nil, or_false] at hp
      rcases hp with rfl | rfl | rfl
      · exact hc
      · exact ha
      · exact hb)
  have hg : (σ.alloc (.list [vc, va, vb])).2.getList σ.heap.size = some [vc, va, vb] := getList_alloc_new σ _
  have hp : proj (rotPat a b c la lb lc lp) (σ.alloc (.list [vc, va, vb])).2 (SVal.plain (.list σ.heap.size)) =
      some ([(a, vc, la), (b, va, lb), (c, vb, lc)], (σ.alloc (.list [vc, va, vb])).2) := by
    simp [rotPat, proj, projList, projName, seqP, PatList.length, SVal.plain, hg, ha_, hb_, hc_]
  have hnd : (([(a, vc, la), (b, va, lb), (c, vb, lc)] : List Bnd).map Prod.fst).Nodup := by simp [hab, hac, hbc]
  have hd : ∀ x ∈ ([(a, vc, la), (b, va, lb), (c, vb, lc)] : List Bnd).map Prod.fst,
      Declared (σ.alloc (.list [vc, va, vb])).2 sc x := by
    intro x hx
    simp only [List.map_cons, List.map_nil, List.mem_cons, List.not_mem_nil, or_false] at hx
    rcases hx with rfl | rfl | rfl
    · exact ⟨va, scopeGet_alloc _ ha⟩
    · exact ⟨vb, scopeGet_alloc _ hb⟩
    · exact ⟨vc, scopeGet_alloc _ hc⟩
  obtain ⟨σ', h3⟩ := assignAll_of_declared sc _ _ hd
  have hst : evalStmt 9 σ sc (rotStmt a b c la lb lc lp rc ra rb lr) = .ok .none σ' :=
    assign_stmt_nested (p := rotPat a b c la lb lc lp) he (by simp [rotPat, Pat.size, PatList.size]) hp hnd hd h3
  obtain ⟨hl1, hl2⟩ := assign_nested_leaves hp h3 hnd
  obtain ⟨f1, _, f3, f4, f5, _⟩ := assign_nested_frame hp h3
  refine ⟨σ', fun n hn => evalStmt_stable hn hst (fun e => by cases e), hl1 a vc la (by simp), hl1 b va lb (by simp),
    hl1 c vb lc (by simp), fun y hya hyb hyc => ?_, fun d m y hs h1 h2 h3' => ?_, ?_, ?_, ?_, fun d hd' hs => ?_⟩
  · rw [hl2 y (by simp [Ne.symm hya, Ne.symm hyb, Ne.symm hyc])]
    simp only [scopeGet_eq, hn1.nearest]
  · refine assign_nested_others hp h3 (b := d) (m := m) ((getScope_allocList _ d).trans hs) ?_
    intro w l hm
    simp only [List.mem_cons, List.not_mem_nil, or_false, Prod.mk.injEq] at hm
    rw [hn1.nearest]
    rcases hm with ⟨e, _⟩ | ⟨e, _⟩ | ⟨e, _⟩
    · subst e; exact h1 rfl
    · subst e; exact h2 rfl
    · subst e; exact h3' rfl
  · rw [f1, State.alloc_size]
  · have := f4 σ.heap.size (by
      rw [getScope_allocList]
      cases hsc : σ.getScope σ.heap.size with
      | none => rfl
      | some m => exact absurd (getScope_lt hsc) (Nat.lt_irrefl _))
    rw [getList_eq_some, this]; exact getList_eq_some.mp hg
  · rw [f3]; rfl
  · rw [f4 d ((getScope_allocList _ d).trans hs), State.alloc_heap_old _ _ hd']

/-! ### whole programs -/

/-- the swap, and the Fibonacci step `[x, y] = [y, x + y]` repeated: `x + y` is computed from the OLD `x` -/
example :
    (run 100 c!"t.sd" c!"a := 1;\nb := 2;\n[a, b] = [b, a];\nprint(a);\nprint(b);\n").out = [c!"2", c!"1"] ∧
    (run 100 c!"t.sd" c!"x := 0;\ny := 1;\n[x, y] = [y, x + y];\n[x, y] = [y, x + y];\n[x, y] = [y, x + y];\n[x, y] = [y, x + y];\n[x, y] = [y, x + y];\nprint(x);\nprint(y);\n").out =
      [c!"5", c!"8"] ∧
    (run 100 c!"t.sd" c!"a := 1;\nb := 2;\nc := 3;\n[a, b, c] = [c, a, b];\nprint(a);\nprint(b);\nprint(c);\n").out =
      [c!"3", c!"1", c!"2"] := by
  decide +kernel

end Seed.Idioms
