/-
  Lemmas/C19Spec.lean — the direct, depth-passing printer `specPrint` of the property text, and the proof that the
  renderer's "render the child, then re-indent its text" scheme computes it: `indent (specPrint d t) = specPrint (d+1) t`.
-/
import SeedProofs.Lemmas.C19Render
namespace Seed.C19
open Seed Seed.C10

/-! ## `indent` -/

theorem indent_append (a b : List Char) : indent (a ++ b) = indent a ++ indent b := by
  induction a with
  | nil => rfl
  | cons c r ih =>
    simp only [List.cons_append, indent]
    split <;> simp [ih]

/-- no line feed in the text -/
def NoNL (s : List Char) : Prop := ∀ c ∈ s, c ≠ '\n'

theorem NoNL.append {a b : List Char} (ha : NoNL a) (hb : NoNL b) : NoNL (a ++ b) := by
  intro c hc
  rcases List.mem_append.mp hc with h | h
  · exact ha c h
  · exact hb c h

theorem NoNL.cons {c : Char} {r : List Char} (hc : c ≠ '\n') (hr : NoNL r) : NoNL (c :: r) := by
  intro x hx
  rcases List.mem_cons.mp hx with rfl | h
  · exact hc
  · exact hr x h

theorem indent_noNL : ∀ {s : List Char}, NoNL s → indent s = s
  | [], _ => rfl
  | c :: r, h => by
    have hc : c ≠ '\n' := h c List.mem_cons_self
    have hr : NoNL r := fun x hx => h x (List.mem_cons_of_mem _ hx)
    simp only [indent, hc, if_false, indent_noNL hr]

/-- `4·d` spaces -/
def pad (d : Nat) : List Char := List.replicate (4 * d) ' '

theorem pad_zero : pad 0 = [] := rfl
theorem pad_succ (d : Nat) : pad (d + 1) = c!"    " ++ pad d := rfl
theorem pad_one : pad 1 = c!"    " := rfl
theorem pad_one' : pad (0 + 1) = c!"    " := rfl

theorem pad_noNL (d : Nat) : NoNL (pad d) := by
  intro c hc
  rw [List.eq_of_mem_replicate hc]
  decide

theorem indent_pad (d : Nat) : indent (pad d) = pad d := indent_noNL (pad_noNL d)

/-- every line feed is followed by `4·d` spaces (what `d` enclosing containers make of a text) -/
def reindent (d : Nat) : List Char → List Char
  | [] => []
  | c :: r => if c = '\n' then '\n' :: (pad d ++ reindent d r) else c :: reindent d r

theorem reindent_zero : ∀ s : List Char, reindent 0 s = s
  | [] => rfl
  | c :: r => by
    by_cases hc : c = '\n'
    · subst hc; simp [reindent, pad_zero, reindent_zero r]
    · simp [reindent, hc, reindent_zero r]

theorem reindent_noNL (d : Nat) : ∀ {s : List Char}, NoNL s → reindent d s = s
  | [], _ => rfl
  | c :: r, h => by
    have hc : c ≠ '\n' := h c List.mem_cons_self
    have hr : NoNL r := fun x hx => h x (List.mem_cons_of_mem _ hx)
    simp only [reindent, hc, if_false, reindent_noNL d hr]

/-- one more enclosing container: four more spaces after every line feed -/
theorem indent_reindent (d : Nat) : ∀ s : List Char, indent (reindent d s) = reindent (d + 1) s
  | [] => rfl
  | c :: r => by
    by_cases hc : c = '\n'
    · subst hc
      simp only [reindent, if_true, indent, indent_append, indent_pad, indent_reindent d r, pad_succ]
      simp
    · simp only [reindent, hc, if_false, indent, indent_reindent d r]

theorem indent_eq_reindent (s : List Char) : indent s = reindent 1 s := by
  rw [← indent_reindent 0 s, reindent_zero]

/-- `indent` applied `d` times -/
theorem iterate_indent : ∀ (d : Nat) (s : List Char), (Nat.repeat indent d s) = reindent d s
  | 0, s => (reindent_zero s).symm
  | d + 1, s => by
    show indent (Nat.repeat indent d s) = _
    rw [iterate_indent d s, indent_reindent]

/-! ### decimal texts have no line feed -/

theorem digitChar_ne_nl (n : Nat) : digitChar n ≠ '\n' := by
  have key : ∀ k, k < 10 → Char.ofNat (48 + k) ≠ '\n' := by decide
  exact key (n % 10) (Nat.mod_lt _ (by decide))

theorem natToCharsAux_noNL : ∀ (fuel n : Nat) (acc : List Char), NoNL acc → NoNL (natToCharsAux fuel n acc)
  | 0, _, _, h => h
  | fuel + 1, n, acc, h => by
    simp only [natToCharsAux]
    split
    · exact NoNL.cons (digitChar_ne_nl n) h
    · exact natToCharsAux_noNL fuel _ _ (NoNL.cons (digitChar_ne_nl n) h)

theorem natToChars_noNL (n : Nat) : NoNL (natToChars n) :=
  natToCharsAux_noNL _ _ _ (fun _ h => by cases h)

theorem intToChars_noNL (i : Int) : NoNL (intToChars i) := by
  cases i with
  | ofNat n => exact natToChars_noNL n
  | negSucc n => exact NoNL.cons (by decide) (natToChars_noNL _)

/-! ## the direct printer -/

mutual
/-- `specPrint σ d t`: the text of `t` when it stands at nesting depth `d` — every line of a container's items starts
    with `4·(d+1)` spaces, the closing bracket with `4·d`; a line feed inside a string (or inside a key or a function
    name) is followed by `4·d` spaces.  The only failures: a string that is not UTF-8 (the first one, in order), a
    dangling function address. -/
def specPrint (σ : State) : Nat → Tree → RenderRes
  | _, .null => .ok c!"<null>"
  | _, .bool b => .ok (if b then c!"true" else c!"false")
  | _, .int i => .ok (intToChars i)
  | d, .str bs =>
    match utf8Decode bs with
    | .ok cs => .ok (reindent d cs)
    | .error e => .err (Gen.Leaf.BuiltinFuncErr (c!"couldn't convert error message to UTF-8: " ++ e.msg))
  | d, .list xs => (specItems σ d xs).bind fun body => .ok (c!"[\n" ++ body ++ pad d ++ c!"]")
  | d, .obj ps => (specProps σ d ps).bind fun body => .ok (c!"{\n" ++ body ++ pad d ++ c!"}")
  | d, .fn a =>
    match σ.getFunc a with
    | none => .bad
    | some f => .ok (reindent d (c!"<function '" ++ debugOptName f.name ++ c!"'>"))
  | d, .builtin name _ => .ok (reindent d (c!"<built-in function '" ++ name ++ c!"'>"))
/-- one `item,` line per element, at depth `d + 1` -/
def specItems (σ : State) : Nat → Trees → RenderRes
  | _, .nil => .ok []
  | d, .cons t r =>
    (specPrint σ (d + 1) t).bind fun s => (specItems σ d r).bind fun rest =>
      .ok (pad (d + 1) ++ s ++ c!",\n" ++ rest)
/-- one `"key": value,` line per property, in the stored order, at depth `d + 1` -/
def specProps (σ : State) : Nat → Props → RenderRes
  | _, .nil => .ok []
  | d, .cons k t r =>
    (specPrint σ (d + 1) t).bind fun s => (specProps σ d r).bind fun rest =>
      .ok (pad (d + 1) ++ c!"\"" ++ reindent d k ++ c!"\": " ++ s ++ c!",\n" ++ rest)
end

/-- the key lemma: re-indenting the text at depth `d` gives the text at depth `d + 1`; for the lines of a container
    the four spaces that `indent` puts after each line's final line feed belong to the next line -/
theorem spec_indent (σ : State) (t : Tree) : ∀ d, (specPrint σ d t).map indent = specPrint σ (d + 1) t := by
  refine Tree.rec
    (motive_1 := fun t => ∀ d, (specPrint σ d t).map indent = specPrint σ (d + 1) t)
    (motive_2 := fun xs => ∀ d, (specItems σ d xs).map (fun b => c!"    " ++ indent b)
      = (specItems σ (d + 1) xs).map (fun b => b ++ c!"    "))
    (motive_3 := fun ps => ∀ d, (specProps σ d ps).map (fun b => c!"    " ++ indent b)
      = (specProps σ (d + 1) ps).map (fun b => b ++ c!"    "))
    ?_ ?_ ?_ ?_ ?_ ?_ ?_ ?_ ?_ ?_ ?_ ?_ t
  · intro d; simp [specPrint, RenderRes.map, indent]
  · intro b d; cases b <;> simp [specPrint, RenderRes.map, indent]
  · intro i d; simp only [specPrint, RenderRes.map, indent_noNL (intToChars_noNL i)]
  · intro bs d
    simp only [specPrint]
    cases utf8Decode bs with
    | ok cs => simp only [RenderRes.map, indent_reindent]
    | error e => rfl
  · intro xs ih d
    calc (specPrint σ d (.list xs)).map indent
        = ((specItems σ d xs).map fun b => c!"    " ++ indent b).bind
            fun x => .ok (c!"[\n" ++ x ++ pad d ++ c!"]") := by
          simp only [specPrint, RenderRes.map_bind, RenderRes.bind_map]
          congr 1; funext s
          simp [RenderRes.map, indent_append, indent_pad, indent]
      _ = ((specItems σ (d + 1) xs).map fun b => b ++ c!"    ").bind
            fun x => .ok (c!"[\n" ++ x ++ pad d ++ c!"]") := by rw [ih d]
      _ = specPrint σ (d + 1) (.list xs) := by
          simp only [specPrint, RenderRes.bind_map, pad_succ, List.append_assoc]
  · intro ps ih d
    calc (specPrint σ d (.obj ps)).map indent
        = ((specProps σ d ps).map fun b => c!"    " ++ indent b).bind
            fun x => .ok (c!"{\n" ++ x ++ pad d ++ c!"}") := by
          simp only [specPrint, RenderRes.map_bind, RenderRes.bind_map]
          congr 1; funext s
          simp [RenderRes.map, indent_append, indent_pad, indent]
      _ = ((specProps σ (d + 1) ps).map fun b => b ++ c!"    ").bind
            fun x => .ok (c!"{\n" ++ x ++ pad d ++ c!"}") := by rw [ih d]
      _ = specPrint σ (d + 1) (.obj ps) := by
          simp only [specPrint, RenderRes.bind_map, pad_succ, List.append_assoc]
  · intro a d
    simp only [specPrint]
    cases σ.getFunc a with
    | none => rfl
    | some f => simp only [RenderRes.map, indent_reindent]
  · intro name f d
    simp only [specPrint, RenderRes.map, indent_reindent]
  · intro d; rfl
  · intro t r iht ihr d
    calc (specItems σ d (.cons t r)).map (fun b => c!"    " ++ indent b)
        = (specPrint σ (d + 1) t).bind fun s =>
            ((specItems σ d r).map fun b => c!"    " ++ indent b).bind fun x =>
              .ok (pad (d + 1 + 1) ++ indent s ++ c!",\n" ++ x) := by
          simp only [specItems, RenderRes.map_bind, RenderRes.bind_map]
          congr 1; funext s; congr 1; funext rest
          simp [RenderRes.map, indent_append, indent_pad, indent, pad_succ]
      _ = (specPrint σ (d + 1) t).bind fun s =>
            ((specItems σ (d + 1) r).map fun b => b ++ c!"    ").bind fun x =>
              .ok (pad (d + 1 + 1) ++ indent s ++ c!",\n" ++ x) := by rw [ihr d]
      _ = ((specPrint σ (d + 1) t).map indent).bind fun s' =>
            (specItems σ (d + 1) r).bind fun rest' => .ok ((pad (d + 1 + 1) ++ s' ++ c!",\n" ++ rest') ++ c!"    ") := by
          simp only [RenderRes.bind_map, List.append_assoc]
      _ = (specItems σ (d + 1) (.cons t r)).map (fun b => b ++ c!"    ") := by
          rw [iht (d + 1)]
          simp only [specItems, RenderRes.map_bind, RenderRes.map_ok]
  · intro d; rfl
  · intro k t r iht ihr d
    calc (specProps σ d (.cons k t r)).map (fun b => c!"    " ++ indent b)
        = (specPrint σ (d + 1) t).bind fun s =>
            ((specProps σ d r).map fun b => c!"    " ++ indent b).bind fun x =>
              .ok (pad (d + 1 + 1) ++ c!"\"" ++ reindent (d + 1) k ++ c!"\": " ++ indent s ++ c!",\n" ++ x) := by
          simp only [specProps, RenderRes.map_bind, RenderRes.bind_map]
          congr 1; funext s; congr 1; funext rest
          simp [RenderRes.map, indent_append, indent_pad, indent, pad_succ, indent_reindent]
      _ = (specPrint σ (d + 1) t).bind fun s =>
            ((specProps σ (d + 1) r).map fun b => b ++ c!"    ").bind fun x =>
              .ok (pad (d + 1 + 1) ++ c!"\"" ++ reindent (d + 1) k ++ c!"\": " ++ indent s ++ c!",\n" ++ x) := by rw [ihr d]
      _ = ((specPrint σ (d + 1) t).map indent).bind fun s' =>
            (specProps σ (d + 1) r).bind fun rest' =>
              .ok ((pad (d + 1 + 1) ++ c!"\"" ++ reindent (d + 1) k ++ c!"\": " ++ s' ++ c!",\n" ++ rest') ++ c!"    ") := by
          simp only [RenderRes.bind_map, List.append_assoc]
      _ = (specProps σ (d + 1) (.cons k t r)).map (fun b => b ++ c!"    ") := by
          rw [iht (d + 1)]
          simp only [specProps, RenderRes.map_bind, RenderRes.map_ok]

/-- **R2.** the renderer computes the direct printer at depth 0 (including the failures: the same error for the same
    first undecodable string) -/
theorem render_eq_spec (σ : State) (t : Tree) : renderTree σ t = specPrint σ 0 t := by
  refine Tree.rec
    (motive_1 := fun t => renderTree σ t = specPrint σ 0 t)
    (motive_2 := fun xs => renderTrees σ xs = specItems σ 0 xs)
    (motive_3 := fun ps => renderPropsT σ ps = specProps σ 0 ps)
    ?_ ?_ ?_ ?_ ?_ ?_ ?_ ?_ ?_ ?_ ?_ ?_ t
  · rfl
  · intro b; rfl
  · intro i; rfl
  · intro bs
    simp only [renderTree, specPrint, reindent_zero]
    cases utf8Decode bs <;> rfl
  · intro xs ih
    simp only [renderTree, specPrint, ih, pad_zero, List.append_nil]
  · intro ps ih
    simp only [renderTree, specPrint, ih, pad_zero, List.append_nil]
  · intro a
    simp only [renderTree, specPrint, reindent_zero]
    cases σ.getFunc a <;> rfl
  · intro n f
    simp only [renderTree, specPrint, reindent_zero]
  · rfl
  · intro t r iht ihr
    simp only [renderTrees, specItems, ← spec_indent σ t 0, ← iht, ← ihr, RenderRes.bind_map, pad_one']
  · rfl
  · intro k t r iht ihr
    simp only [renderPropsT, specProps, ← spec_indent σ t 0, ← iht, ← ihr, RenderRes.bind_map, pad_one', reindent_zero,
      List.append_assoc, List.cons_append, List.nil_append]

/-- `print` of an acyclic value writes `specPrint 0` of its unfolding -/
theorem render_spec {σ : State} {v : Val} {t : Tree} (h : Unf σ v t) :
    ∃ n, ∀ m, n ≤ m → render m σ [] v = specPrint σ 0 t := by
  obtain ⟨n, hn⟩ := render_unfold h
  exact ⟨n, fun m hm => by rw [hn m hm, render_eq_spec]⟩

end Seed.C19
