/-
  NoCrashAudit.lean — axiom audit of G4 (only propext / Classical.choice / Quot.sound may appear).
-/
import SeedProofs.Lemmas.NoCrash
namespace Seed
#print axioms safeAll
#print axioms evalProg_safe
#print axioms evalProg_no_crash
#print axioms evalProg_ok_wf
#print axioms run_crashed_lock
#print axioms evalExpr_no_crash
#print axioms evalStmts_no_crash
#print axioms bindList_no_index_crash
#print axioms eq_no_bad
#print axioms render_no_bad
#print axioms applyBinOp_safe
#print axioms callBuiltin_safe
#print axioms toPairs_ne_none
#print axioms toPairs_ok
#print axioms opAssignValue_safe
#print axioms bindNextName_safe
#print axioms validateArgsRes_safe
#print axioms wf_init
#print axioms alloc_wf
#print axioms set_wf
#print axioms scopeDeclare_spec
#print axioms scopeAssign_spec
#print axioms keepsWF
#print axioms evalProg_state_wf
#print axioms evalProg_ok_sorted
#print axioms evalProg_err_wf
#print axioms evalProg_err_sorted
#print axioms evalProg_state_sorted
#print axioms evalExpr_keeps_sorted
#print axioms evalStmts_keeps_sorted
#print axioms evalStmt_keeps_sorted
#print axioms evalExpr_obj_sorted
#print axioms WF.sorted
#print axioms Safe.state_wf
#print axioms set_obj_wf
#print axioms objInsert_foldl_sorted
end Seed
