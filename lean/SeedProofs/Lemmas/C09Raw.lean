/-
  Lemmas/C09Raw.lean — from single tokens to token streams: `RawEq a b` ("the texts `a` and `b` lex to
  the same tokens and the same kind of error, from any position, with any fuel"), its lift through a
  common `LexTo` prefix, and its consequence for `lexAll`.
-/
import SeedModel.Lex
import SeedProofs.Lemmas.Scan
import SeedProofs.Lemmas.C09Pos
import SeedProofs.Lemmas.C09Layout
import SeedProofs.Lemmas.C09Local
import SeedProofs.Lemmas.C09Tok
namespace Seed.C09
open Seed

/-- same raw tokens (positions erased) and same error (location erased), whatever the fuel and the
    starting positions -/
def RawEq (a b : List Char) : Prop :=
  ∀ m l c l' c', (lexRaw m ⟨a, l, c⟩).1.map Span.tok = (lexRaw m ⟨b, l', c'⟩).1.map Span.tok ∧
    (lexRaw m ⟨a, l, c⟩).2.map eraseLoc = (lexRaw m ⟨b, l', c'⟩).2.map eraseLoc

theorem RawEq.refl (a : List Char) : RawEq a a := fun m _ _ _ _ => lexRaw_kind_indep m rfl

theorem RawEq.symm {a b : List Char} (h : RawEq a b) : RawEq b a :=
  fun m l c l' c' => ⟨(h m l' c' l c).1.symm, (h m l' c' l c).2.symm⟩

theorem RawEq.trans {a b d : List Char} (h1 : RawEq a b) (h2 : RawEq b d) : RawEq a d :=
  fun m l c l' c' => ⟨(h1 m l c 0 0).1.trans (h2 m 0 0 l' c').1, (h1 m l c 0 0).2.trans (h2 m 0 0 l' c').2⟩

/-- the first tokens agree (same token, `RawEq` remainders), or both fail alike, or both end -/
theorem RawEq.of_kind {a b : List Char}
    (h : ∀ l c l' c', kind (nextToken ⟨a, l, c⟩) = kind (nextToken ⟨b, l', c'⟩)) : RawEq a b :=
  fun m l c l' c' => lexRaw_congr_of_kind m (h l c l' c')

theorem RawEq.of_tok {a b ra rb : List Char} {t : Token}
    (ha : ∀ l c, kind (nextToken ⟨a, l, c⟩) = .tok t ra)
    (hb : ∀ l c, kind (nextToken ⟨b, l, c⟩) = .tok t rb) (hr : RawEq ra rb) : RawEq a b := by
  intro m l c l' c'
  cases m with
  | zero => exact ⟨rfl, rfl⟩
  | succ m =>
    have h1 := ha l c
    have h2 := hb l' c'
    unfold lexRaw
    cases e1 : nextToken ⟨a, l, c⟩ <;> rw [e1] at h1 <;>
      simp only [kind, TokK.tok.injEq, reduceCtorEq] at h1
    cases e2 : nextToken ⟨b, l', c'⟩ <;> rw [e2] at h2 <;>
      simp only [kind, TokK.tok.injEq, reduceCtorEq] at h2
    next sp s sp' s' =>
    obtain ⟨sr, sl, sc⟩ := s
    obtain ⟨sr', sl', sc'⟩ := s'
    simp only at h1 h2
    obtain ⟨h1a, rfl⟩ := h1
    obtain ⟨h2a, rfl⟩ := h2
    obtain ⟨i1, i2⟩ := hr m sl sc sl' sc'
    simp only [List.map_cons, h1a, h2a, i1, i2, and_self]

/-- a common token prefix in front of `RawEq` remainders -/
theorem RawEq.of_lexTo {a a' : List Char} {ts : List Token} (h1 : LexTo a ts a') :
    ∀ {b b' : List Char}, LexTo b ts b' → RawEq a' b' → RawEq a b := by
  induction h1 with
  | nil r =>
    intro b b' h2 hr
    cases h2
    exact hr
  | @cons src mid rest t ts l c hk _ ih =>
    intro b b' h2 hr
    cases h2 with
    | @cons _ mid' _ _ _ l' c' hk' htail' =>
      refine RawEq.of_tok (t := t) (ra := mid) (rb := mid') ?_ ?_ (ih htail' hr)
      · intro l2 c2; rw [← hk]; exact nextToken_kind_indep rfl
      · intro l2 c2; rw [← hk']; exact nextToken_kind_indep rfl

/-- every prefix of the raw token stream ends at a token boundary -/
theorem LexTo.of_lexRaw (n : Nat) (s : Scanner) (k : Nat) :
    ∃ rest, LexTo s.rest (((Seed.lexRaw n s).1.take k).map Span.tok) rest := by
  induction n generalizing s k with
  | zero => exact ⟨s.rest, by simp only [Seed.lexRaw, List.take_nil, List.map_nil]; exact LexTo.nil _⟩
  | succ n ih =>
    cases k with
    | zero => exact ⟨s.rest, by simp only [List.take_zero, List.map_nil]; exact LexTo.nil _⟩
    | succ k =>
      unfold Seed.lexRaw
      cases hn : nextToken s with
      | eof => exact ⟨s.rest, by simp only [List.take_nil, List.map_nil]; exact LexTo.nil _⟩
      | err e => exact ⟨s.rest, by simp only [List.take_nil, List.map_nil]; exact LexTo.nil _⟩
      | tok sp s' =>
        obtain ⟨rest, hr⟩ := ih s' k
        refine ⟨rest, ?_⟩
        simp only [List.take_succ_cons, List.map_cons]
        obtain ⟨sr, sl, sc⟩ := s
        exact LexTo.cons sl sc (by rw [hn]; rfl) hr

/-! ### `lexAll` -/

theorem nextToken_progress {s s' : Scanner} {sp : Span} (h : nextToken s = .tok sp s') :
    s'.rest.length < s.rest.length := by
  obtain ⟨n, h1, h2, rfl⟩ := nextToken_advance h
  rw [Scanner.advance_rest_length]; omega

/-- any two amounts of fuel above the remaining input length give the same token stream
    (as `Seed.C03.lexRaw_fuel_irrelevant`) -/
theorem lexRaw_fuel_irrelevant (n m : Nat) (s : Scanner) (hn : s.rest.length < n) (hm : s.rest.length < m) :
    lexRaw n s = lexRaw m s := by
  induction n generalizing m s with
  | zero => omega
  | succ n ih =>
    cases m with
    | zero => omega
    | succ m =>
      unfold lexRaw
      cases h : nextToken s with
      | eof => rfl
      | err e => rfl
      | tok sp s' =>
        have := nextToken_progress h
        simp only
        rw [ih m s' (by omega) (by omega)]

/-- what the parser sees, positions erased, and the kind of lexical error -/
def SameTokens (a b : List Char) : Prop :=
  (lexAll a).1.map Span.tok = (lexAll b).1.map Span.tok ∧
  (lexAll a).2.map eraseLoc = (lexAll b).2.map eraseLoc

theorem suppress_tok_congr (last : Option Token) (ts ts' : List Span)
    (h : ts.map Span.tok = ts'.map Span.tok) :
    (suppress last ts).map Span.tok = (suppress last ts').map Span.tok := by
  induction ts generalizing last ts' with
  | nil =>
    cases ts' with
    | nil => rfl
    | cons _ _ => simp at h
  | cons sp r ih =>
    cases ts' with
    | nil => simp at h
    | cons sp' r' =>
      simp only [List.map_cons, List.cons.injEq] at h
      obtain ⟨h1, h2⟩ := h
      rw [suppress.eq_def, suppress.eq_def]
      simp only [h1]
      split
      · simp only [List.map_cons, h1, ih _ _ h2]
      · split
        · exact ih _ _ h2
        · split
          · exact ih _ _ h2
          · simp only [List.map_cons, h1, ih _ _ h2]

theorem RawEq.sameTokens {a b : List Char} (h : RawEq a b) : SameTokens a b := by
  have ea : Scanner.new a = ⟨a, (Scanner.new a).line, (Scanner.new a).col⟩ := by
    unfold Scanner.new; split <;> rfl
  have eb : Scanner.new b = ⟨b, (Scanner.new b).line, (Scanner.new b).col⟩ := by
    unfold Scanner.new; split <;> rfl
  have fa := lexRaw_fuel_irrelevant (a.length + 1) (a.length + b.length + 1) (Scanner.new a)
    (by rw [Scanner.new_rest]; omega) (by rw [Scanner.new_rest]; omega)
  have fb := lexRaw_fuel_irrelevant (b.length + 1) (a.length + b.length + 1) (Scanner.new b)
    (by rw [Scanner.new_rest]; omega) (by rw [Scanner.new_rest]; omega)
  obtain ⟨h1, h2⟩ := h (a.length + b.length + 1) (Scanner.new a).line (Scanner.new a).col
    (Scanner.new b).line (Scanner.new b).col
  rw [← ea, ← eb] at h1 h2
  unfold SameTokens lexAll
  simp only [fa, fb]
  exact ⟨suppress_tok_congr none _ _ h1, h2⟩

end Seed.C09
