/-
  ParseRT2Main.lean — the induction for expressions.  `exprStep` is the case analysis over `RawExpr` (one
  production lemma of ParseRT2Expr.lean per constructor; function literals are left to the caller),
  `rt_noFn` closes the induction for the statement-free fragment (`wfR false`), and
  `parse_print_expr0` / `parse_print_expr0_rel` are the resulting round-trip theorems for expressions
  without function literals: postfix forms, list and object literals, parentheses, operators.
-/
import SeedProofs.Lemmas.ParseRT2Expr
set_option linter.unusedSimpArgs false
namespace Seed

/-! ### well-formedness of list members -/

def wfProp (fn : Bool) : PropItem → Bool
  | .Pair k v => wfE fn k && wfE fn v
  | .Single e _ _ => wfE fn e

theorem wfItems_mem {fn : Bool} {l : List ListItem} (h : wfItems fn l = true) : ∀ i ∈ l, wfE fn i.e = true := by
  induction l with
  | nil => intro i hi; cases hi
  | cons a l ih =>
    obtain ⟨e, s⟩ := a
    simp only [wfItems, Bool.and_eq_true] at h
    intro i hi
    rcases List.mem_cons.mp hi with rfl | hi
    · exact h.1
    · exact ih h.2 i hi

theorem wfProps_mem {fn : Bool} {l : List PropItem} (h : wfProps fn l = true) : ∀ p ∈ l, wfProp fn p = true := by
  induction l with
  | nil => intro i hi; cases hi
  | cons a l ih =>
    intro i hi
    cases a with
    | Pair k v =>
      simp only [wfProps, Bool.and_eq_true] at h
      rcases List.mem_cons.mp hi with rfl | hi
      · simp only [wfProp, Bool.and_eq_true]; exact h.1
      · exact ih h.2 i hi
    | Single e s c =>
      simp only [wfProps, Bool.and_eq_true] at h
      rcases List.mem_cons.mp hi with rfl | hi
      · simp only [wfProp]; exact h.1
      · exact ih h.2 i hi

theorem wfEs_mem {fn : Bool} {l : List Expr} (h : wfEs fn l = true) : ∀ e ∈ l, wfE fn e = true := by
  induction l with
  | nil => intro i hi; cases hi
  | cons a l ih =>
    simp only [wfEs, Bool.and_eq_true] at h
    intro i hi
    rcases List.mem_cons.mp hi with rfl | hi
    · exact h.1
    · exact ih h.2 i hi

theorem collect_ne_nil {α} {c : Bool} {l : List α} (h : (!c || !l.isEmpty) = true) : c = true → l ≠ [] := by
  intro hc hl
  subst hc; subst hl
  simp at h

/-! ### sizes of members -/

theorem size_item {i : ListItem} {items : List ListItem} (h : i ∈ items) : sizeOf i.e.raw < sizeOf items := by
  have := List.sizeOf_lt_of_mem h
  obtain ⟨⟨raw, l⟩, s⟩ := i
  simp only [ListItem.mk.sizeOf_spec, Expr.mk.sizeOf_spec] at this
  simp only [ListItem.e, Expr.raw]
  omega

theorem size_expr {e : Expr} {es : List Expr} (h : e ∈ es) : sizeOf e.raw < sizeOf es := by
  have := List.sizeOf_lt_of_mem h
  obtain ⟨raw, l⟩ := e
  simp only [Expr.mk.sizeOf_spec] at this
  simp only [Expr.raw]
  omega

theorem size_raw (e : Expr) : sizeOf e.raw < sizeOf e := by
  obtain ⟨raw, l⟩ := e
  simp only [Expr.mk.sizeOf_spec, Expr.raw]
  omega

/-! ### the case analysis -/

theorem exprStep (fn : Bool) (r : RawExpr) (hwf : wfR fn r = true)
    (ih : ∀ r', sizeOf r' < sizeOf r → wfR fn r' = true → RT r')
    (hFn : ∀ args c stmts, r = .Func args c stmts → RT r) : RT r := by
  have ihE : ∀ e : Expr, sizeOf e.raw < sizeOf r → wfE fn e = true → FEE e := by
    intro e hs hw
    obtain ⟨raw, l⟩ := e
    exact FEE_of_RT (ih raw hs (by simpa [wfE] using hw))
  cases r with
  | Null => exact RT_atom rfl
  | Bool b => cases b <;> exact RT_atom rfl
  | Int n => cases n <;> exact RT_atom rfl
  | Str s o => cases o <;> exact RT_atom rfl
  | Var x => exact RT_atom rfl
  | BinaryOp op ol l r =>
    obtain ⟨l, ll⟩ := l
    obtain ⟨r, rl⟩ := r
    simp only [wfR, wfE, Bool.and_eq_true] at hwf
    exact RT_bin (ih l (by simp only [RawExpr.BinaryOp.sizeOf_spec, Expr.mk.sizeOf_spec]; omega) hwf.1)
      (ih r (by simp only [RawExpr.BinaryOp.sizeOf_spec, Expr.mk.sizeOf_spec]; omega) hwf.2)
  | Range l r =>
    obtain ⟨l, ll⟩ := l
    obtain ⟨r, rl⟩ := r
    simp only [wfR, wfE, Bool.and_eq_true] at hwf
    exact RT_range (ih l (by simp only [RawExpr.Range.sizeOf_spec, Expr.mk.sizeOf_spec]; omega) hwf.1)
      (ih r (by simp only [RawExpr.Range.sizeOf_spec, Expr.mk.sizeOf_spec]; omega) hwf.2)
  | List items c =>
    simp only [wfR, Bool.and_eq_true] at hwf
    refine RT_of_AtomicR (fun k => by simp only [prR]) (AtomicR_list (fun i hi => ?_) (collect_ne_nil hwf.1))
    exact ihE i.e (by have := size_item hi; simp only [RawExpr.List.sizeOf_spec]; omega) (wfItems_mem hwf.2 i hi)
  | Index e i =>
    obtain ⟨e, le⟩ := e
    simp only [wfR, wfE, Bool.and_eq_true] at hwf
    refine RT_of_KeyPR (fun k => by simp only [prR]) (KeyPR_index (ih e ?_ hwf.1).post (ihE i ?_ hwf.2))
    · simp only [RawExpr.Index.sizeOf_spec, Expr.mk.sizeOf_spec]; omega
    · have := size_raw i; simp only [RawExpr.Index.sizeOf_spec]; omega
  | RangeIndex e a b =>
    obtain ⟨e, le⟩ := e
    simp only [wfR, wfE, Bool.and_eq_true] at hwf
    refine RT_of_KeyPR (fun k => by simp only [prR]) (KeyPR_rangeIndex (ih e ?_ hwf.1.1).post ?_ ?_)
    · simp only [RawExpr.RangeIndex.sizeOf_spec, Expr.mk.sizeOf_spec]; omega
    · intro x hx
      subst hx
      refine ihE x ?_ (by simpa [wfO] using hwf.1.2)
      have := size_raw x; simp only [RawExpr.RangeIndex.sizeOf_spec, Option.some.sizeOf_spec]; omega
    · intro x hx
      subst hx
      refine ihE x ?_ (by simpa [wfO] using hwf.2)
      have := size_raw x; simp only [RawExpr.RangeIndex.sizeOf_spec, Option.some.sizeOf_spec]; omega
  | Object props =>
    simp only [wfR] at hwf
    refine RT_of_AtomicR (fun k => by simp only [prR]) (AtomicR_object (fun p hp => ?_))
    have hw := wfProps_mem hwf p hp
    have hs := List.sizeOf_lt_of_mem hp
    cases p with
    | Pair k v =>
      simp only [wfProp, Bool.and_eq_true] at hw
      simp only [PropItem.Pair.sizeOf_spec] at hs
      have := size_raw k; have := size_raw v
      exact ⟨ihE k (by simp only [RawExpr.Object.sizeOf_spec]; omega) hw.1,
        ihE v (by simp only [RawExpr.Object.sizeOf_spec]; omega) hw.2⟩
    | Single e s c =>
      simp only [wfProp] at hw
      simp only [PropItem.Single.sizeOf_spec] at hs
      have := size_raw e
      exact ihE e (by simp only [RawExpr.Object.sizeOf_spec]; omega) hw
  | «Prop» e name tp =>
    obtain ⟨e, le⟩ := e
    simp only [wfR, wfE] at hwf
    refine RT_of_KeyPR (fun k => by simp only [prR]) (KeyPR_prop (ih e ?_ hwf).post)
    simp only [RawExpr.Prop.sizeOf_spec, Expr.mk.sizeOf_spec]; omega
  | Func args c stmts => exact hFn args c stmts rfl
  | Call f args =>
    obtain ⟨f, lf⟩ := f
    simp only [wfR, wfE, Bool.and_eq_true] at hwf
    refine RT_of_KeyPR (fun k => by simp only [prR]) (KeyPR_call (ih f ?_ hwf.1).post (fun i hi => ?_))
    · simp only [RawExpr.Call.sizeOf_spec, Expr.mk.sizeOf_spec]; omega
    · exact ihE i.e (by have := size_item hi; simp only [RawExpr.Call.sizeOf_spec]; omega) (wfItems_mem hwf.2 i hi)

/-! ### the statement-free fragment -/

theorem rt_noFn : ∀ (n : Nat) (r : RawExpr), sizeOf r < n → wfR false r = true → RT r := by
  intro n
  induction n with
  | zero => intro r h; omega
  | succ n ih =>
    intro r hn hwf
    refine exprStep false r hwf (fun r' h' w' => ih r' (by omega) w') (fun args c stmts he => ?_)
    subst he
    simp [wfR] at hwf

/-- fuel-free round trip for expressions without function literals, in any expression slot (`s` says whether
    a trailing spread marker is allowed), followed by anything that cannot extend the expression -/
theorem parse_print_expr0_rel (e : Expr) (hwf : wfE false e = true) (s : Bool) (ts rest : List Span)
    (hts : ts.map Span.tok = prE 1 e) (hst : stops s rest) :
    ∃ e', stripE e' = stripE e ∧ PExpr s (ts ++ rest) e' rest := by
  obtain ⟨raw, l⟩ := e
  exact FEE_of_RT (rt_noFn _ raw (Nat.lt_succ_self _) (by simpa [wfE] using hwf)) s ts rest hts hst

/-- `parse (print e) = e` up to positions, at the driver's fuel, for every expression tree without function
    literals: atoms, binary operators, `..`, index, range index, `.name`, `->name`, calls with spread
    arguments, list literals with spread / collect items, object literals.  Parentheses are printed
    exactly where the grouping would otherwise change. -/
theorem parse_print_expr0 (e : Expr) (hwf : wfE false e = true) (ts : List Span) (hts : ts.map Span.tok = prE 1 e) :
    ∃ e', parseExpr (parseFuel ts) false ts = .ok e' [] ∧ stripE e' = stripE e := by
  obtain ⟨e', he', hp⟩ := parse_print_expr0_rel e hwf false ts [] hts (stops_nil _)
  rw [List.append_nil] at hp
  exact ⟨e', hp.at_fuel _ (by unfold parseFuel; omega), he'⟩

end Seed
