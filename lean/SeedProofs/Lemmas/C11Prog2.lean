/-
  C11Prog2.lean — the sequence laws as evaluations: `(x[:k] + x[k:]) == x` is `true`, `(x + y)[i]` reads `x` or `y`.
-/
import SeedProofs.Lemmas.C11Prog1
namespace Seed
open Gen (Leaf)

/-! ### a value compared with itself -/

/-- not a function: the values `==` can compare with themselves (two functions are an error by definition) -/
def Val.NotFn : Val → Prop
  | .builtin _ _ => False
  | .func _ => False
  | _ => True

instance (v : Val) : Decidable v.NotFn := by
  cases v <;> unfold Val.NotFn <;> infer_instance

/-- a non-function value is equal to itself — containers by the identity short-cut, whatever they contain -/
theorem eqVal_self (n : Nat) (σ : State) (v : Val) (h : v.NotFn) : eqVal (n + 1) σ v v = .ok true := by
  cases v <;> simp_all [eqVal, Val.NotFn]

/-- item by item, a list of non-function values is equal to itself -/
theorem eqItems_self (σ : State) (xs : List SVal) (h : ∀ v ∈ xs, v.v.NotFn) :
    ∀ n i, xs.length + 1 ≤ n → eqItems n σ i xs xs = .ok true := by
  induction xs with
  | nil =>
    intro n i hn
    obtain ⟨m, rfl⟩ : ∃ m, n = m + 1 := ⟨n - 1, by omega⟩
    simp [eqItems]
  | cons x r ih =>
    intro n i hn
    simp only [List.length_cons] at hn
    obtain ⟨m, rfl⟩ : ∃ m, n = m + 2 := ⟨n - 2, by omega⟩
    rw [eqItems, eqVal_self m σ x.v (h x List.mem_cons_self)]
    exact ih (fun v hv => h v (List.mem_cons_of_mem _ hv)) (m + 1) (i + 1) (by omega)

/-- two different cells holding the same items (none of them a function) are `==` -/
theorem eqVal_same_items {σ : State} {a b : Addr} {xs : List SVal} (n : Nat) (ha : σ.getList a = some xs)
    (hb : σ.getList b = some xs) (h : ∀ v ∈ xs, v.v.NotFn) (hn : xs.length + 2 ≤ n) :
    eqVal n σ (.list a) (.list b) = .ok true := by
  obtain ⟨m, rfl⟩ : ∃ m, n = m + 1 := ⟨n - 1, by omega⟩
  rw [eqVal]
  by_cases hab : a = b
  · simp only [hab, if_true]
  · simp only [hab, if_false, ha, hb, ne_eq, not_true_eq_false]
    exact eqItems_self σ xs h m 0 (by omega)

/-! ### reading a variable -/

theorem evalExpr_var {σ : State} {sc : List Addr} {x : List Char} {v : SVal} (n : Nat) (l : Loc)
    (h : scopeGet σ sc x = some v) : evalExpr (n + 1) σ sc (.mk (.Var x) l) = .ok v σ := by
  rw [evalExpr, h]

/-! ### `(x[:k] + x[k:]) == x` -/

/-- the state after evaluating `(x[:k] + x[k:])`: three new cells (the two slices and their concatenation) -/
def splitJoinState (σ : State) (xs : List SVal) (k : Nat) : State :=
  (((σ.alloc (.list (xs.take k))).2.alloc (.list (xs.drop k))).2.alloc (.list xs)).2

/-- `x[:k1]` for a list variable -/
theorem evalExpr_prefix_var {n : Nat} {σ : State} {sc : List Addr} {x : List Char} {a : Addr} {s s1 : Option Val}
    {xs : List SVal} {k : Int} {k1 : Expr} (lx ls : Loc)
    (hx : scopeGet σ sc x = some ⟨.list a, s⟩) (hxs : σ.getList a = some xs) (hk0 : 0 ≤ k) (hk : k.toNat ≤ xs.length)
    (hk1 : evalExpr n σ sc k1 = .ok ⟨.int k, s1⟩ σ) :
    evalExpr (n + 4) σ sc (.mk (.RangeIndex (.mk (.Var x) lx) none (some k1)) ls) =
      .ok (SVal.plain (.list σ.heap.size)) (σ.alloc (.list (xs.take k.toNat))).2 := by
  obtain ⟨m, rfl⟩ := evalExpr_ok_pos hk1
  rw [evalExpr_range_list ls (Bound.omitted σ) (Bound.given hk1) (fun _ h => by cases h)
    (fun _ h => by cases h; exact hk0) (evalExpr_var m lx hx) hxs]
  simp only [rangeLo, rangeHi, Option.map, Option.getD, Nat.zero_le, true_and, hk, if_true, List.drop_zero, Nat.sub_zero]

/-- `x[k2:]` for a list variable -/
theorem evalExpr_suffix_var {n : Nat} {σ : State} {sc : List Addr} {x : List Char} {a : Addr} {s s2 : Option Val}
    {xs : List SVal} {k : Int} {k2 : Expr} (lx ls : Loc)
    (hx : scopeGet σ sc x = some ⟨.list a, s⟩) (hxs : σ.getList a = some xs) (hk0 : 0 ≤ k) (hk : k.toNat ≤ xs.length)
    (hk2 : evalExpr n σ sc k2 = .ok ⟨.int k, s2⟩ σ) :
    evalExpr (n + 4) σ sc (.mk (.RangeIndex (.mk (.Var x) lx) (some k2) none) ls) =
      .ok (SVal.plain (.list σ.heap.size)) (σ.alloc (.list (xs.drop k.toNat))).2 := by
  obtain ⟨m, rfl⟩ := evalExpr_ok_pos hk2
  rw [evalExpr_range_list ls (Bound.given hk2) (Bound.omitted σ) (fun _ h => by cases h; exact hk0)
    (fun _ h => by cases h) (evalExpr_var m lx hx) hxs]
  have h : (xs.drop k.toNat).take (xs.length - k.toNat) = xs.drop k.toNat := List.take_of_length_le (by simp)
  simp only [rangeLo, rangeHi, Option.map, Option.getD, hk, Nat.le_refl, and_self, if_true, h]

/-- **`(x[:k1] + x[k2:]) == x`** for a list variable `x` whose items are not functions, and two bound expressions that
    evaluate to the same `k ∈ [0, len]` without effects (in the states they are evaluated in): `true`, at every
    sufficient fuel.  The state afterwards differs by the three cells the slices and the concatenation allocate. -/
theorem evalExpr_split_join {n : Nat} {σ : State} {sc : List Addr} {x : List Char} {a : Addr} {s s1 s2 : Option Val}
    {xs : List SVal} {k : Int} {k1 k2 : Expr} (l1 l2 l3 l4 l5 lp le lo : Loc)
    (hx : scopeGet σ sc x = some ⟨.list a, s⟩) (hxs : σ.getList a = some xs) (hfn : ∀ v ∈ xs, v.v.NotFn)
    (hk0 : 0 ≤ k) (hk : k.toNat ≤ xs.length)
    (hk1 : evalExpr n σ sc k1 = .ok ⟨.int k, s1⟩ σ)
    (hk2 : evalExpr n (σ.alloc (.list (xs.take k.toNat))).2 sc k2 =
      .ok ⟨.int k, s2⟩ (σ.alloc (.list (xs.take k.toNat))).2)
    {m : Nat} (hm : n + xs.length + 6 ≤ m) :
    evalExpr m σ sc
        (.mk (.BinaryOp .Eq lo
          (.mk (.BinaryOp .Sum lp (.mk (.RangeIndex (.mk (.Var x) l1) none (some k1)) l2)
            (.mk (.RangeIndex (.mk (.Var x) l3) (some k2) none) l4)) l5)
          (.mk (.Var x) le)) l5) =
      .ok (SVal.plain (.bool true)) (splitJoinState σ xs k.toNat) := by
  -- the three states
  have hA := evalExpr_prefix_var l1 l2 hx hxs hk0 hk hk1
  have hB := evalExpr_suffix_var l3 l4 (scopeGet_alloc (.list (xs.take k.toNat)) hx)
    (getList_alloc_old (.list (xs.take k.toNat)) hxs) hk0 hk hk2
  have hS := evalExpr_sum_lists lp l5 hA hB
    (getList_alloc_old _ (getList_alloc_new σ (xs.take k.toNat)))
    (getList_alloc_new (σ.alloc (.list (xs.take k.toNat))).2 (xs.drop k.toNat))
  rw [List.take_append_drop] at hS
  -- `x` in the final state
  have hx3 : scopeGet (splitJoinState σ xs k.toNat) sc x = some ⟨.list a, s⟩ :=
    scopeGet_alloc _ (scopeGet_alloc _ (scopeGet_alloc _ hx))
  have hxs3 : (splitJoinState σ xs k.toNat).getList a = some xs :=
    getList_alloc_old _ (getList_alloc_old _ (getList_alloc_old _ hxs))
  have hnew : (splitJoinState σ xs k.toNat).getList ((σ.alloc (.list (xs.take k.toNat))).2.alloc (.list (xs.drop k.toNat))).2.heap.size
      = some xs := getList_alloc_new _ xs
  -- the comparison
  have hfin : evalExpr (n + xs.length + 6) σ sc
        (.mk (.BinaryOp .Eq lo
          (.mk (.BinaryOp .Sum lp (.mk (.RangeIndex (.mk (.Var x) l1) none (some k1)) l2)
            (.mk (.RangeIndex (.mk (.Var x) l3) (some k2) none) l4)) l5)
          (.mk (.Var x) le)) l5) =
      .ok (SVal.plain (.bool true)) (splitJoinState σ xs k.toNat) := by
    simp only [splitJoinState] at hx3 hxs3 hnew ⊢
    rw [evalExpr, evalExpr_fuel_mono hS (by simp) (by omega : n + 4 + 1 ≤ n + xs.length + 5)]
    simp only [Res.bind]
    rw [show n + xs.length + 5 = (n + xs.length + 4) + 1 from rfl, evalExpr_var _ le hx3]
    simp only [SVal.plain, applyBinOp]
    rw [eqVal_same_items _ hnew hxs3 hfn (by omega)]
    rfl
  exact evalExpr_fuel_mono hfin (by simp) hm

/-! ### `(e1 + e2)[i]` -/

/-- **`(e1 + e2)[i]`** on two lists: the item of the left operand for `i < len`, of the right operand (at `i - len`)
    from there on, out of bounds from `len1 + len2` on.  `hstill`: the index expression does not write the new
    cell (automatic for index expressions without effects). -/
theorem evalExpr_concat_index {n : Nat} {σ σ1 σ2 σ4 : State} {sc : List Addr} {e1 e2 i : Expr} (lp ls loc : Loc)
    {a b : Addr} {s t si : Option Val} {xs ys : List SVal} {k : Int}
    (h1 : evalExpr n σ sc e1 = .ok ⟨.list a, s⟩ σ1) (h2 : evalExpr n σ1 sc e2 = .ok ⟨.list b, t⟩ σ2)
    (hxs : σ2.getList a = some xs) (hys : σ2.getList b = some ys)
    (hi : evalExpr (n + 1) (σ2.alloc (.list (xs ++ ys))).2 sc i = .ok ⟨.int k, si⟩ σ4)
    (hstill : σ4.getList σ2.heap.size = some (xs ++ ys)) :
    evalExpr (n + 4) σ sc (.mk (.Index (.mk (.BinaryOp .Sum lp e1 e2) ls) i) loc) =
      if k < 0 then errAt i.loc (Leaf.NegativeIndex k) σ4
      else match (if k.toNat < xs.length then xs[k.toNat]? else ys[k.toNat - xs.length]?) with
        | some v => .ok v σ4
        | none => errAt loc (Leaf.OutOfListBounds k.toNat) σ4 := by
  rw [evalExpr_index_list loc (evalExpr_sum_lists lp ls h1 h2 hxs hys) hi hstill, List.getElem?_append]
  by_cases hk : k < 0
  · simp only [hk, if_true]
  · simp only [hk, if_false]
    cases (if k.toNat < xs.length then xs[k.toNat]? else ys[k.toNat - xs.length]?) <;> rfl

/-- the same on two strings (bytes; no cell) -/
theorem evalExpr_concat_index_str {n : Nat} {σ σ1 σ2 σ4 : State} {sc : List Addr} {e1 e2 i : Expr} (lp ls loc : Loc)
    {s t si : Option Val} {xs ys : Bytes} {k : Int}
    (h1 : evalExpr n σ sc e1 = .ok ⟨.str xs, s⟩ σ1) (h2 : evalExpr n σ1 sc e2 = .ok ⟨.str ys, t⟩ σ2)
    (hi : evalExpr (n + 1) σ2 sc i = .ok ⟨.int k, si⟩ σ4) :
    evalExpr (n + 4) σ sc (.mk (.Index (.mk (.BinaryOp .Sum lp e1 e2) ls) i) loc) =
      if k < 0 then errAt i.loc (Leaf.NegativeIndex k) σ4
      else match (if k.toNat < xs.length then xs[k.toNat]? else ys[k.toNat - xs.length]?) with
        | some b => .ok (SVal.plain (.str [b])) σ4
        | none => errAt loc (Leaf.OutOfStringBounds k.toNat) σ4 := by
  rw [evalExpr_index_str loc (evalExpr_sum_strs lp ls h1 h2) hi, List.getElem?_append]
  by_cases hk : k < 0
  · simp only [hk, if_true]
  · simp only [hk, if_false]
    cases (if k.toNat < xs.length then xs[k.toNat]? else ys[k.toNat - xs.length]?) <;> rfl

end Seed
