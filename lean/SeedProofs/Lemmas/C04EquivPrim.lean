/-
  Lemmas/C04EquivPrim.lean — the primitives under a renaming: `==`, rendering, binary operations, builtins,
  iteration pairs and parameter validation do not depend on scope cells or on function bodies; the scope walks and the
  name binder are equivariant.
-/
import SeedProofs.Lemmas.C04EquivDefs
namespace Seed
namespace Eqv
open ScopeL

variable (π : List Char → List Char)

/-! ### `==` and rendering read only list / object cells and function names -/

theorem eq_rSt (n : Nat) :
    (∀ σ a b, eqVal n (rSt π σ) a b = eqVal n σ a b) ∧
    (∀ σ i xs ys, eqItems n (rSt π σ) i xs ys = eqItems n σ i xs ys) ∧
    (∀ σ xs ys, eqProps n (rSt π σ) xs ys = eqProps n σ xs ys) := by
  induction n with
  | zero =>
    refine ⟨?_, ?_, ?_⟩ <;> intros
    · unfold eqVal; rfl
    · unfold eqItems; rfl
    · unfold eqProps; rfl
  | succ n ih =>
    obtain ⟨ihV, ihI, ihP⟩ := ih
    refine ⟨?_, ?_, ?_⟩ <;> intros
    · unfold eqVal; simp only [getList_rSt, getObj_rSt, ihI, ihP]
    · unfold eqItems; simp only [ihV, ihI]
    · unfold eqProps; simp only [ihV, ihP]

@[simp] theorem eqVal_rSt (n : Nat) (σ : State) (a b : Val) : eqVal n (rSt π σ) a b = eqVal n σ a b := (eq_rSt π n).1 σ a b

theorem render_rSt_all (n : Nat) :
    (∀ σ held v, render n (rSt π σ) held v = render n σ held v) ∧
    (∀ σ held items, renderItems n (rSt π σ) held items = renderItems n σ held items) ∧
    (∀ σ held props, renderProps n (rSt π σ) held props = renderProps n σ held props) := by
  induction n with
  | zero =>
    refine ⟨?_, ?_, ?_⟩ <;> intros
    · unfold render; rfl
    · unfold renderItems; rfl
    · unfold renderProps; rfl
  | succ n ih =>
    obtain ⟨ihV, ihI, ihP⟩ := ih
    refine ⟨?_, ?_, ?_⟩ <;> intros
    · rename_i σ held v
      unfold render
      simp only [getList_rSt, getObj_rSt, getFunc_rSt, ihI, ihP]
      cases v <;> try rfl
      rename_i a
      simp only []
      cases σ.getFunc a <;> rfl
    · unfold renderItems; simp only [ihV, ihI]
    · unfold renderProps; simp only [ihV, ihP]

@[simp] theorem render_rSt (n : Nat) (σ : State) (held : List Addr) (v : Val) : render n (rSt π σ) held v = render n σ held v :=
  (render_rSt_all π n).1 σ held v

@[simp] theorem toPairs_rSt (σ : State) (v : Val) : toPairs (rSt π σ) v = toPairs σ v := by
  unfold toPairs; simp only [getList_rSt, getObj_rSt]

/-! ### operations and builtins -/

variable {π} {P : Expr → Prop}

theorem arith_sim (op : BinaryOp) (loc : Loc) (a b : Int) {σ : State} (hg : Good π P σ) :
    Sim π P id (arith op loc a b (rSt π σ)) (arith op loc a b σ) := by
  unfold arith
  cases op <;> simp only [] <;> (repeat' split) <;> exact Sim.of_eq rfl (by first | exact hg | trivial)

theorem applyBinOp_sim (n : Nat) (op : BinaryOp) (loc : Loc) (a b : Val) {σ : State} (hg : Good π P σ) :
    Sim π P id (applyBinOp n (rSt π σ) op loc a b) (applyBinOp n σ op loc a b) := by
  unfold applyBinOp
  cases op <;> simp only [eqVal_rSt, getList_rSt, alloc_pair, allocS_rSt_list, size_rSt] <;> (repeat' split) <;>
    first
      | exact arith_sim _ _ _ _ hg
      | exact Sim.of_eq rfl (by first | exact hg | trivial | exact good_allocS_list _ hg)

theorem render_err_fixed (n : Nat) :
    (∀ σ held v l, render n σ held v = .err l → rLeaf π l = l) ∧
    (∀ σ held items l, renderItems n σ held items = .err l → rLeaf π l = l) ∧
    (∀ σ held props l, renderProps n σ held props = .err l → rLeaf π l = l) := by
  induction n with
  | zero =>
    refine ⟨?_, ?_, ?_⟩ <;> intros <;> rename_i h
    · unfold render at h; cases h
    · unfold renderItems at h; cases h
    · unfold renderProps at h; cases h
  | succ n ih =>
    obtain ⟨ihV, ihI, ihP⟩ := ih
    refine ⟨?_, ?_, ?_⟩
    · intro σ held v l h
      unfold render at h
      simp only [] at h
      repeat' split at h
      all_goals first
        | (cases h; done)
        | (cases h; rfl)
        | (rename_i h2; exact ihI _ _ _ _ (by rw [h] at h2; exact h2))
        | (rename_i h2; exact ihP _ _ _ _ (by rw [h] at h2; exact h2))
        | (rename_i h2 _; exact ihI _ _ _ _ (by rw [h] at h2; exact h2))
        | (rename_i h2 _; exact ihP _ _ _ _ (by rw [h] at h2; exact h2))
        | (exact ihI _ _ _ _ h)
        | (exact ihP _ _ _ _ h)
    · intro σ held items l h
      unfold renderItems at h
      repeat' split at h
      all_goals first
        | (cases h; done)
        | (exact ihV _ _ _ _ h)
        | (exact ihI _ _ _ _ h)
        | (rename_i h2; exact ihV _ _ _ _ (h ▸ h2))
        | (rename_i h2; exact ihI _ _ _ _ (h ▸ h2))
        | (rename_i h2 _; exact ihV _ _ _ _ (h ▸ h2))
        | (rename_i h2 _; exact ihI _ _ _ _ (h ▸ h2))
    · intro σ held props l h
      unfold renderProps at h
      repeat' split at h
      all_goals first
        | (cases h; done)
        | (exact ihV _ _ _ _ h)
        | (exact ihP _ _ _ _ h)
        | (rename_i h2; exact ihV _ _ _ _ (h ▸ h2))
        | (rename_i h2; exact ihP _ _ _ _ (h ▸ h2))
        | (rename_i h2 _; exact ihV _ _ _ _ (h ▸ h2))
        | (rename_i h2 _; exact ihP _ _ _ _ (h ▸ h2))

theorem assertArgs_fixed {name : List Char} {e g : Nat} {l : Gen.Leaf} (h : assertArgs name e g = some l) : rLeaf π l = l := by
  unfold assertArgs at h
  split at h
  · cases h
  · cases h; rfl

theorem sim_err_fixed {α : Type} {fa : α → α} {l : Gen.Leaf} {σ : State} (h : rLeaf π l = l) :
    Sim π P fa (.err (.leaf l) (rSt π σ)) (.err (.leaf l) σ) :=
  Sim.of_eq (by simp only [rRes, rErr, h]) trivial

theorem callBuiltin_sim (n : Nat) (f : BuiltinId) (this : Option SVal) (args : List SVal) {σ : State} (hg : Good π P σ) :
    Sim π P id (callBuiltin n (rSt π σ) f this args) (callBuiltin n σ f this args) := by
  unfold callBuiltin
  cases f <;> simp only [render_rSt, print_rSt] <;> (repeat' split) <;>
    first
      | exact sim_err_fixed (assertArgs_fixed (by assumption))
      | exact sim_err_fixed ((render_err_fixed n).1 _ _ _ _ (by assumption))
      | exact Sim.of_eq rfl (by first | exact hg | trivial | exact good_print _ hg)

theorem opAssignValue_sim (n : Nat) (cur rhs : SVal) (op : Option (BinaryOp × Loc)) {σ : State} (hg : Good π P σ) :
    Sim π P id (opAssignValue n (rSt π σ) cur rhs op) (opAssignValue n σ cur rhs op) := by
  unfold opAssignValue
  split
  · exact Sim.of_eq rfl hg
  · exact Sim.map (applyBinOp_sim n _ _ _ _ hg) (fun _ => rfl)

/-! ### parameter validation -/

variable (π)

theorem rExprs_eq_map (l : List Expr) : rExprs π l = l.map (rExpr π) := by
  induction l with
  | nil => rfl
  | cons e r ih => simp [rExprs, ih]

theorem rExprs_append (a b : List Expr) : rExprs π (a ++ b) = rExprs π a ++ rExprs π b := by
  simp [rExprs_eq_map]

theorem rExprs_reverse (a : List Expr) : rExprs π a.reverse = (rExprs π a).reverse := by
  simp [rExprs_eq_map]

theorem invalidBindDescr_rRaw (r : RawExpr) : invalidBindDescr (rRaw π r) = invalidBindDescr r := by
  cases r <;> simp [rRaw, invalidBindDescr]

def rQ : Except Err (List Expr) → Except Err (List Expr)
  | .ok l => .ok (rExprs π l)
  | .error e => .error (rErr π e)

theorem propsToQueue_ren (loc : Loc) (ps : List PropItem) (acc : List Expr) :
    propsToQueue loc (rProps π ps) (rExprs π acc) = rQ π (propsToQueue loc ps acc) := by
  induction ps generalizing acc with
  | nil => simp [rProps, propsToQueue, rQ, rExprs_reverse]
  | cons p r ih =>
    cases p with
    | Pair n v =>
      simp only [rProps, rProp, propsToQueue]
      exact ih (v :: acc)
    | Single e s c =>
      simp only [rProps, rProp, propsToQueue]
      split
      · rfl
      · exact ih (e :: acc)

theorem itemsToQueue_ren (loc : Loc) (items : List ListItem) (acc : List Expr) :
    itemsToQueue loc (rItems π items) (rExprs π acc) = rQ π (itemsToQueue loc items acc) := by
  induction items generalizing acc with
  | nil => simp [rItems, itemsToQueue, rQ, rExprs_reverse]
  | cons p r ih =>
    cases p with
    | mk e s =>
      simp only [rItems, rItem, itemsToQueue]
      split
      · rfl
      · exact ih (e :: acc)

def rSeen (names : List (List Char × Loc)) : List (List Char × Loc) := names.map fun p => (π p.1, p.2)

theorem lookupAssoc_ren (hπ : ∀ a b, π a = π b → a = b) (x : List Char) (names : List (List Char × Loc)) :
    lookupAssoc (π x) (rSeen π names) = lookupAssoc x names := by
  induction names with
  | nil => rfl
  | cons p r ih =>
    obtain ⟨k, l⟩ := p
    simp only [rSeen, List.map_cons, lookupAssoc]
    by_cases h : x = k
    · subst h; simp
    · have h' : π x ≠ π k := fun e => h (hπ _ _ e)
      simp only [h, h', if_false]
      exact ih

theorem validateArgs_ren (hπ : ∀ a b, π a = π b → a = b) (hu : ∀ a, π a = c!"_" ↔ a = c!"_") (n : Nat) :
    ∀ (q : List Expr) (names : List (List Char × Loc)),
      validateArgs n (rExprs π q) (rSeen π names) = (validateArgs n q names).map (Option.map (rErr π)) := by
  induction n with
  | zero => intro q names; unfold validateArgs; rfl
  | succ n ih =>
    intro q names
    cases q with
    | nil => unfold validateArgs; rfl
    | cons e q =>
      cases e with
      | mk raw loc =>
        have hrest : ∀ (r : RawExpr) (q : List Expr) (names : List (List Char × Loc)),
            (∀ name, r ≠ .Var name) → (∀ ps, r ≠ .Object ps) → (∀ it c, r ≠ .List it c) →
            validateArgs (n + 1) (Expr.mk r loc :: q) names =
              (match invalidBindDescr r with
                | some d => some (some (Err.at loc (Gen.Leaf.InvalidBindTarget d)))
                | none => some none) := by
          intro r q names h1 h2 h3
          rw [validateArgs.eq_def]
          cases r <;> first | rfl | exact absurd rfl (h1 _) | exact absurd rfl (h2 _) | exact absurd rfl (h3 _ _)
        cases raw with
        | Var name =>
          simp only [rExprs, rExpr, rRaw]
          rw [validateArgs.eq_def, validateArgs.eq_def]
          simp only []
          by_cases hx : name = c!"_"
          · subst hx
            have := (hu c!"_").mpr rfl
            simp only [this, if_true]; rfl
          · have hx' : ¬ π name = c!"_" := fun e => hx ((hu name).mp e)
            simp only [hx, hx', if_false, lookupAssoc_ren π hπ]
            cases hl : lookupAssoc name names with
            | some p => obtain ⟨l, c⟩ := p; rfl
            | none =>
              simp only []
              have := ih q ((name, loc) :: names)
              simp only [rSeen, List.map_cons] at this ⊢
              exact this
        | Object ps =>
          simp only [rExprs, rExpr, rRaw]
          rw [validateArgs.eq_def, validateArgs.eq_def]
          simp only []
          have := propsToQueue_ren π loc ps []
          simp only [rExprs] at this
          rw [this]
          cases propsToQueue loc ps [] with
          | error e => rfl
          | ok more => simp only [rQ, ← rExprs_append]; exact ih _ _
        | List items c =>
          simp only [rExprs, rExpr, rRaw]
          rw [validateArgs.eq_def, validateArgs.eq_def]
          simp only []
          have := itemsToQueue_ren π loc items []
          simp only [rExprs] at this
          rw [this]
          cases itemsToQueue loc items [] with
          | error e => rfl
          | ok more => simp only [rQ, ← rExprs_append]; exact ih _ _
        | _ =>
          simp only [rExprs, rExpr, rRaw]
          rw [hrest _ _ _ (by intros; simp) (by intros; simp) (by intros; simp),
            hrest _ _ _ (by intros; simp) (by intros; simp) (by intros; simp)]
          simp only [invalidBindDescr]
          rfl

variable {π}

theorem validateArgsRes_sim (hπ : ∀ a b, π a = π b → a = b) (hu : ∀ a, π a = c!"_" ↔ a = c!"_") (n : Nat) (args : List Expr)
    {σ : State} (hg : Good π P σ) :
    Sim π P id (validateArgsRes n (rExprs π args) (rSt π σ)) (validateArgsRes n args σ) := by
  unfold validateArgsRes
  have := validateArgs_ren π hπ hu n args []
  simp only [rSeen, List.map_nil] at this
  rw [this]
  cases validateArgs n args [] with
  | none => exact Sim.timeout
  | some o =>
    cases o with
    | none => exact Sim.of_eq rfl hg
    | some e => exact Sim.of_eq rfl trivial

/-! ### the scope walks -/

variable (π)

theorem scopeGet_rSt (hπ : ∀ a b, π a = π b → a = b) (σ : State) (sc : List Addr) (x : List Char) :
    scopeGet (rSt π σ) sc (π x) = scopeGet σ sc x := by
  induction sc with
  | nil => rfl
  | cons a r ih =>
    rw [scopeGet_cons, scopeGet_cons, getScope_rSt]
    cases σ.getScope a with
    | none => rfl
    | some m =>
      simp only [Option.map, Ren.lookup_map π hπ]
      cases scopeLookup x m with
      | none => exact ih
      | some p => rfl

theorem scopeAssign_rSt (hπ : ∀ a b, π a = π b → a = b) (σ : State) (sc : List Addr) (x : List Char) (v : SVal) :
    scopeAssign (rSt π σ) sc (π x) v = (scopeAssign σ sc x v).map (rSt π) := by
  induction sc with
  | nil => rfl
  | cons a r ih =>
    rw [scopeAssign_cons, scopeAssign_cons, getScope_rSt]
    cases σ.getScope a with
    | none => rfl
    | some m =>
      simp only [Option.map, Ren.lookup_map π hπ]
      cases scopeLookup x m with
      | none => exact ih
      | some p => simp only [Ren.setVal_map π hπ, set_rSt_scope]

def rDecl : DeclRes → DeclRes
  | .ok σ => .ok (rSt π σ)
  | .dup p => .dup p
  | .bad => .bad

theorem scopeDeclare_rSt (hπ : ∀ a b, π a = π b → a = b) (σ : State) (sc : List Addr) (x : List Char) (loc : Loc) (v : SVal) :
    scopeDeclare (rSt π σ) sc (π x) loc v = rDecl π (scopeDeclare σ sc x loc v) := by
  cases sc with
  | nil => rfl
  | cons a r =>
    rw [scopeDeclare_cons, scopeDeclare_cons, getScope_rSt]
    cases σ.getScope a with
    | none => rfl
    | some m =>
      simp only [Option.map, Ren.lookup_map π hπ]
      cases scopeLookup x m with
      | none =>
        simp only [rDecl]
        have : (π x, v, loc) :: Ren.map π m = Ren.map π ((x, v, loc) :: m) := rfl
        rw [this, set_rSt_scope]
      | some p => rfl

variable {π}

theorem good_scopeAssign {σ σ' : State} {sc : List Addr} {x : List Char} {v : SVal} (hg : Good π P σ)
    (h : scopeAssign σ sc x v = some σ') : Good π P σ' := by
  obtain ⟨pre, a, post, m, w, l, _, _, _, _, rfl⟩ := scopeAssign_some_iff.mp h
  exact good_set_scope _ _ hg

theorem good_scopeDeclare {σ σ' : State} {sc : List Addr} {x : List Char} {loc : Loc} {v : SVal} (hg : Good π P σ)
    (h : scopeDeclare σ sc x loc v = .ok σ') : Good π P σ' := by
  cases sc with
  | nil => cases h
  | cons a r =>
    obtain ⟨m, _, _, rfl⟩ := scopeDeclare_ok_iff.mp h
    exact good_set_scope _ _ hg

theorem contains_ren (hπ : ∀ a b, π a = π b → a = b) (x : List Char) (names : List (List Char)) :
    (names.map π).contains (π x) = names.contains x := Ren.contains_map π hπ x names

/-- the name binder, in every mode: same outcome, names and diagnostic renamed -/
theorem bindNextName_sim (hπ : ∀ a b, π a = π b → a = b) (hu : ∀ a, π a = c!"_" ↔ a = c!"_")
    (n : Nat) (sc : List Addr) (names : List (List Char)) (x : List Char) (loc : Loc) (rhs : SVal)
    (op : Option (BinaryOp × Loc)) (d : Bool) {σ : State} (hg : Good π P σ) :
    Sim π P (List.map π) (bindNextName n (rSt π σ) sc (names.map π) (π x) loc rhs op d)
      (bindNextName n σ sc names x loc rhs op d) := by
  unfold bindNextName
  by_cases hx : x = c!"_"
  · subst hx
    have := (hu c!"_").mpr rfl
    simp only [this, if_true]
    exact Sim.of_eq rfl hg
  · have hx' : ¬ π x = c!"_" := fun e => hx ((hu x).mp e)
    simp only [hx, hx', if_false, contains_ren hπ]
    cases hc : names.contains x with
    | true => simp only [if_true]; exact Sim.of_eq rfl trivial
    | false =>
      simp only [Bool.false_eq_true, if_false]
      have store : ∀ (v : SVal) (σ1 : State), Good π P σ1 →
          Sim π P (List.map π)
            (match scopeAssign (rSt π σ1) sc (π x) v with
              | some σ2 => Res.ok (π x :: List.map π names) σ2
              | none => errAt loc (Gen.Leaf.Undefined (π x)) (rSt π σ1))
            (match scopeAssign σ1 sc x v with
              | some σ2 => Res.ok (x :: names) σ2
              | none => errAt loc (Gen.Leaf.Undefined x) σ1) := by
        intro v σ1 h1
        rw [scopeAssign_rSt π hπ]
        cases ha : scopeAssign σ1 sc x v with
        | none => exact Sim.of_eq rfl trivial
        | some σ2 => exact Sim.of_eq rfl (good_scopeAssign h1 ha)
      cases d with
      | true =>
        simp only [if_true]
        cases op with
        | some p => exact Sim.of_eq rfl trivial
        | none =>
          simp only [scopeDeclare_rSt π hπ]
          cases hd : scopeDeclare σ sc x loc rhs with
          | ok σ2 => exact Sim.of_eq rfl (good_scopeDeclare hg hd)
          | dup p => exact Sim.of_eq rfl trivial
          | bad => exact Sim.of_eq rfl trivial
      | false =>
        simp only [Bool.false_eq_true, if_false]
        cases op with
        | none => exact store rhs σ hg
        | some p =>
          obtain ⟨o, ol⟩ := p
          simp only [scopeGet_rSt π hπ]
          cases scopeGet σ sc x with
          | none => exact Sim.of_eq rfl trivial
          | some cur =>
            simp only []
            exact Sim.bind (applyBinOp_sim n o ol cur.v rhs.v hg) (fun v σ1 h1 => store (SVal.plain v) σ1 h1)

end Eqv
end Seed
