/-
  Lemmas/C05Heap.lean — cell-kind facts used by C05: a cell is of one kind, overwriting a cell with one of the
  same kind does not disturb readers of the other kinds; `listSet`.
-/
import SeedProofs.Lemmas.C04Scope
import SeedProofs.Lemmas.C20Bind
namespace Seed
namespace HeapL
open ScopeL

theorem getList_lt {σ : State} {a : Addr} {xs : List SVal} (h : σ.getList a = some xs) : a < σ.heap.size :=
  (Array.getElem?_eq_some_iff.mp (getList_heap.mp h)).1

theorem getObj_lt {σ : State} {a : Addr} {m : ObjMap} (h : σ.getObj a = some m) : a < σ.heap.size :=
  (Array.getElem?_eq_some_iff.mp (getObj_heap.mp h)).1

theorem getScope_none_of_getList {σ : State} {a : Addr} {xs : List SVal} (h : σ.getList a = some xs) : σ.getScope a = none := by
  unfold State.getScope; rw [getList_heap.mp h]

theorem getScope_none_of_getObj {σ : State} {a : Addr} {m : ObjMap} (h : σ.getObj a = some m) : σ.getScope a = none := by
  unfold State.getScope; rw [getObj_heap.mp h]

/-- overwriting a non-scope cell with a non-scope cell changes no scope -/
theorem getScope_set_nonscope (σ : State) (a : Addr) (c : Cell) (b : Addr) (h : σ.getScope a = none) (hc : ∀ m, c ≠ .scope m) :
    (σ.set a c).getScope b = σ.getScope b := by
  by_cases hb : b = a
  · subst hb
    rw [h]
    by_cases hlt : b < σ.heap.size
    · unfold State.getScope; rw [set_same σ b c hlt]
      cases c with
      | scope m => exact absurd rfl (hc m)
      | list _ => rfl
      | obj _ => rfl
      | func _ => rfl
    · rw [set_same_oob σ b c hlt]; exact h
  · exact getScope_set_other c hb

/-- rewriting a scope cell changes no list -/
theorem getList_set_scope (σ : State) (c : Addr) (m' : ScopeMap) (b : Addr) {m : ScopeMap} (h : σ.getScope c = some m) :
    (σ.set c (.scope m')).getList b = σ.getList b := by
  by_cases hb : b = c
  · subst hb
    unfold State.getList; rw [set_same σ b _ (getScope_lt h), getScope_heap.mp h]
  · exact getList_congr (set_other σ c _ hb)

theorem listSet_length {α} (xs : List α) (i : Nat) (v : α) : (listSet xs i v).length = xs.length := by
  induction xs generalizing i with
  | nil => rfl
  | cons x r ih => cases i with
    | zero => rfl
    | succ i => simp [listSet, ih]

theorem listSet_get_same {α} (xs : List α) (i : Nat) (v : α) (h : i < xs.length) : (listSet xs i v)[i]? = some v := by
  induction xs generalizing i with
  | nil => cases h
  | cons x r ih => cases i with
    | zero => rfl
    | succ i => simp only [listSet, List.getElem?_cons_succ]; exact ih i (Nat.lt_of_succ_lt_succ h)

theorem listSet_get_other {α} (xs : List α) (i j : Nat) (v : α) (h : j ≠ i) : (listSet xs i v)[j]? = xs[j]? := by
  induction xs generalizing i j with
  | nil => rfl
  | cons x r ih => cases i with
    | zero => cases j with
      | zero => exact absurd rfl h
      | succ j => rfl
    | succ i => cases j with
      | zero => rfl
      | succ j => simp only [listSet, List.getElem?_cons_succ]; exact ih i j (fun e => h (by rw [e]))

end HeapL
end Seed
