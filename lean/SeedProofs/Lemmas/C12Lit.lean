/-
  C12Lit.lean — a whole object literal of `name: value` entries whose names and values evaluate without side
  effects builds `insertAll acc pairs`; ASCII names survive the UTF-8 round trip.
-/
import SeedProofs.Lemmas.C12Map
namespace Seed
open Gen (Leaf)

/-- entries `nameE: valE` that evaluate, at every fuel ≥ k, to `(name, v)` without changing the state -/
def PureProps (k : Nat) (σ : State) (sc : List Addr) : List PropItem → List (List Char × SVal) → Prop
  | [], [] => True
  | .Pair nameE valE :: r, (name, v) :: ps =>
    (∀ m, k ≤ m → evalToStr m σ sc c!"property name" nameE = .ok name σ) ∧
    (∀ m, k ≤ m → evalExpr m σ sc valE = .ok v σ) ∧ PureProps k σ sc r ps
  | _, _ => False

theorem evalProps_pure {k : Nat} {σ : State} {sc : List Addr} {props : List PropItem} {pairs : List (List Char × SVal)}
    (h : PureProps k σ sc props pairs) (l : Loc) (d : Nat) (acc : ObjMap) :
    evalProps (k + props.length + 1 + d) σ sc l props acc = .ok (insertAll acc pairs) σ := by
  induction props generalizing pairs acc with
  | nil =>
    cases pairs with
    | nil =>
      have e1 : k + ([] : List PropItem).length + 1 + d = (k + d) + 1 := by simp only [List.length_nil]; omega
      rw [e1, evalProps]; rfl
    | cons _ _ => exact absurd h id
  | cons it r ih =>
    cases pairs with
    | nil => cases it <;> exact absurd h id
    | cons p ps =>
      obtain ⟨name, v⟩ := p
      cases it with
      | Single e s c => exact absurd h id
      | Pair nameE valE =>
        obtain ⟨h1, h2, h3⟩ := h
        have e1 : k + (PropItem.Pair nameE valE :: r).length + 1 + d = (k + r.length + 1 + d) + 1 := by
          simp only [List.length_cons]; omega
        rw [e1, evalProps, h1 _ (by omega)]
        simp only [Res.bind]
        rw [h2 _ (by omega)]
        simp only
        rw [ih h3]
        rfl

/-! ### ASCII round trip -/

def IsAscii (cs : List Char) : Prop := ∀ c ∈ cs, c.toNat < 128

theorem utf8EncodeChar_ascii {c : Char} (h : c.toNat < 128) : String.utf8EncodeChar c = [c.toNat.toUInt8] := by
  unfold String.utf8EncodeChar
  have : c.val.toNat ≤ 127 := by have : c.toNat = c.val.toNat := rfl; omega
  simp only [this, if_true]
  rfl

theorem char_ofNat_toNat (c : Char) : Char.ofNat c.toNat = c := by
  simp

theorem utf8DecodeAux_ascii (cs : List Char) (h : IsAscii cs) (fuel i : Nat) (acc : List Char) (hf : cs.length < fuel) :
    utf8DecodeAux fuel i (utf8Encode cs) acc = .ok (acc.reverse ++ cs) := by
  induction cs generalizing fuel i acc with
  | nil =>
    cases fuel with
    | zero => omega
    | succ f => simp [utf8Encode, utf8DecodeAux]
  | cons c r ih =>
    cases fuel with
    | zero => omega
    | succ f =>
      have hc : c.toNat < 128 := h c List.mem_cons_self
      have hr : IsAscii r := fun x hx => h x (List.mem_cons_of_mem _ hx)
      have e : utf8Encode (c :: r) = c.toNat.toUInt8 :: utf8Encode r := by
        simp [utf8Encode, utf8EncodeChar_ascii hc]
      rw [e, utf8DecodeAux.eq_def]
      have h2 : c.toNat.toUInt8.toNat = c.toNat := by
        simp only [Nat.toUInt8, UInt8.toNat_ofNat']; omega
      simp only [h2, hc, if_true]
      rw [ih hr f (i + 1) _ (by simp only [List.length_cons] at hf; omega), char_ofNat_toNat]
      simp

/-- names made of ASCII characters (every identifier is) survive encoding and decoding -/
theorem utf8_roundtrip_ascii {cs : List Char} (h : IsAscii cs) : utf8Decode (utf8Encode cs) = .ok cs := by
  unfold utf8Decode
  have hl : (utf8Encode cs).length = cs.length := by
    induction cs with
    | nil => rfl
    | cons c r ih =>
      have hc : c.toNat < 128 := h c List.mem_cons_self
      have hr : IsAscii r := fun x hx => h x (List.mem_cons_of_mem _ hx)
      simp only [utf8Encode, List.flatMap_cons, utf8EncodeChar_ascii hc, List.length_append, List.length_cons,
        List.length_nil] at *
      rw [ih hr]; omega
  rw [utf8DecodeAux_ascii cs h _ 0 [] (by omega)]
  rfl

end Seed
