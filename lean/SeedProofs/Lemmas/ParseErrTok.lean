/-
  Lemmas/ParseErrTok.lean — the token a syntax error names is a token of the input: for all 22 parser functions,
  what is left after a success is a suffix of the token list the parse started from, and an `unexpected token` error
  carries a member of that list.  Together with `lexAll_lines` (C03) this bounds the line of every syntax diagnostic.
-/
import SeedProofs.Lemmas.C18NodePos
namespace Seed

/-- success leaves a suffix of `T`; a token error names a token of `T` -/
def PRes.ErrSat {α} (T : List Span) : PRes α → Prop
  | .ok _ rest => Suf T rest
  | .err (.tok sp) => sp ∈ T
  | .err .eof => True
  | .timeout => True

theorem Suf.head_mem {T : List Span} {sp : Span} {r : List Span} (h : Suf T (sp :: r)) : sp ∈ T := by
  obtain ⟨p, hp⟩ := h
  simp [← hp]

namespace PRes.ErrSat
theorem bind {α β} {T : List Span} {r : PRes α} {f : α → List Span → PRes β}
    (h : PRes.ErrSat T r) (hf : ∀ a ts, Suf T ts → PRes.ErrSat T (f a ts)) : PRes.ErrSat T (r.bind f) := by
  cases r with
  | ok a rest => exact hf a rest h
  | err e => cases e <;> exact h
  | timeout => exact True.intro

theorem map {α β} {T : List Span} {r : PRes α} {f : α → β} (h : PRes.ErrSat T r) : PRes.ErrSat T (r.map f) := by
  cases r with
  | ok a rest => exact h
  | err e => cases e <;> exact h
  | timeout => exact True.intro
end PRes.ErrSat

theorem unexpected_errSat {α} {T : List Span} (ts : List Span) (h : Suf T ts) : PRes.ErrSat T (unexpected ts : PRes α) := by
  unfold unexpected
  split
  · exact True.intro
  · exact h.head_mem

theorem expectTok_errSat {T : List Span} (t : Token) (ts : List Span) (h : Suf T ts) : PRes.ErrSat T (expectTok t ts) := by
  unfold expectTok
  split
  · exact True.intro
  · split
    · exact h.tail
    · exact h.head_mem

theorem expectIdent_errSat {T : List Span} (ts : List Span) (h : Suf T ts) : PRes.ErrSat T (expectIdent ts) := by
  unfold expectIdent
  split
  · exact True.intro
  · split
    · exact h.tail
    · exact h.head_mem

structure ErrAll (T : List Span) (n : Nat) : Prop where
  parseAtom : ∀ pre ts, Suf T ts → PRes.ErrSat T (parseAtom n pre ts)
  parsePostfix : ∀ l pre ts, Suf T ts → PRes.ErrSat T (parsePostfix n l pre ts)
  postfixLoop : ∀ l acc ts, Suf T ts → PRes.ErrSat T (postfixLoop n l acc ts)
  parseIndexTail : ∀ e ts, Suf T ts → PRes.ErrSat T (parseIndexTail n e ts)
  parseRangeEnd : ∀ e s ts, Suf T ts → PRes.ErrSat T (parseRangeEnd n e s ts)
  parseTier : ∀ k l pre ts, Suf T ts → PRes.ErrSat T (parseTier n k l pre ts)
  tierLoop : ∀ k l acc ts, Suf T ts → PRes.ErrSat T (tierLoop n k l acc ts)
  parseExpr1 : ∀ s l pre ts, Suf T ts → PRes.ErrSat T (parseExpr1 n s l pre ts)
  rangeLoop : ∀ s l acc ts, Suf T ts → PRes.ErrSat T (rangeLoop n s l acc ts)
  parseExpr : ∀ s ts, Suf T ts → PRes.ErrSat T (parseExpr n s ts)
  parseArgs : ∀ acc ts, Suf T ts → PRes.ErrSat T (parseArgs n acc ts)
  parseExprList : ∀ acc ts, Suf T ts → PRes.ErrSat T (parseExprList n acc ts)
  parseParams : ∀ acc ts, Suf T ts → PRes.ErrSat T (parseParams n acc ts)
  parsePropItems : ∀ acc ts, Suf T ts → PRes.ErrSat T (parsePropItems n acc ts)
  parsePropTail : ∀ acc ts, Suf T ts → PRes.ErrSat T (parsePropTail n acc ts)
  parseBlock : ∀ ts, Suf T ts → PRes.ErrSat T (parseBlock n ts)
  parseStmts : ∀ c acc ts, Suf T ts → PRes.ErrSat T (parseStmts n c acc ts)
  parseIf : ∀ ts, Suf T ts → PRes.ErrSat T (parseIf n ts)
  parseStmtTail : ∀ lhs ts, Suf T ts → PRes.ErrSat T (parseStmtTail n lhs ts)
  parseExprStmt : ∀ amb l pre ts, Suf T ts → PRes.ErrSat T (parseExprStmt n amb l pre ts)
  parseRawStmt : ∀ amb ts, Suf T ts → PRes.ErrSat T (parseRawStmt n amb ts)
  parseBraceStmt : ∀ amb l ts, Suf T ts → PRes.ErrSat T (parseBraceStmt n amb l ts)

/-- suffix side conditions -/
syntax "suf_side" : tactic
macro_rules
  | `(tactic| suf_side) => `(tactic| first
    | assumption
    | exact Suf.tail (by assumption)
    | exact Suf.tail (Suf.tail (by assumption))
    | exact Suf.tail (Suf.tail (Suf.tail (by assumption))))

macro "err_call " ih:ident : tactic =>
  `(tactic| ((with_reducible first
    | apply ErrAll.parseAtom $ih | apply ErrAll.parsePostfix $ih | apply ErrAll.postfixLoop $ih
    | apply ErrAll.parseIndexTail $ih | apply ErrAll.parseRangeEnd $ih | apply ErrAll.parseTier $ih
    | apply ErrAll.tierLoop $ih | apply ErrAll.parseExpr1 $ih | apply ErrAll.rangeLoop $ih
    | apply ErrAll.parseExpr $ih | apply ErrAll.parseArgs $ih | apply ErrAll.parseExprList $ih
    | apply ErrAll.parseParams $ih | apply ErrAll.parsePropItems $ih | apply ErrAll.parsePropTail $ih
    | apply ErrAll.parseBlock $ih | apply ErrAll.parseStmts $ih | apply ErrAll.parseIf $ih
    | apply ErrAll.parseStmtTail $ih | apply ErrAll.parseExprStmt $ih | apply ErrAll.parseRawStmt $ih
    | apply ErrAll.parseBraceStmt $ih
    | apply expectTok_errSat | apply expectIdent_errSat | apply unexpected_errSat) <;> suf_side))

/-- a leaf: `ok _ rest` with `rest` a suffix, a token error at the head of a suffix, `eof`, `timeout` -/
macro "err_leaf" : tactic =>
  `(tactic| first
    | exact True.intro
    | (show Suf _ _; suf_side)
    | (show _ ∈ _; first
        | exact Suf.head_mem (by assumption)
        | exact Suf.head_mem (Suf.tail (by assumption))
        | exact Suf.head_mem (Suf.tail (Suf.tail (by assumption)))
        | exact Suf.head_mem (Suf.tail (Suf.tail (Suf.tail (by assumption))))))

macro "err_auto " ih:ident : tactic =>
  `(tactic| repeat' first
    | err_leaf
    | (apply PRes.ErrSat.bind (by err_call $ih))
    | (apply PRes.ErrSat.map (by err_call $ih))
    | err_call $ih
    | (intro _ _ _)
    | (dsimp only [])
    | split)

theorem errAll_zero (T : List Span) : ErrAll T 0 := by
  constructor <;> intros
  · unfold parseAtom; exact True.intro
  · unfold parsePostfix; exact True.intro
  · unfold postfixLoop; exact True.intro
  · unfold parseIndexTail; exact True.intro
  · unfold parseRangeEnd; exact True.intro
  · unfold parseTier; exact True.intro
  · unfold tierLoop; exact True.intro
  · unfold parseExpr1; exact True.intro
  · unfold rangeLoop; exact True.intro
  · unfold parseExpr; exact True.intro
  · unfold parseArgs; exact True.intro
  · unfold parseExprList; exact True.intro
  · unfold parseParams; exact True.intro
  · unfold parsePropItems; exact True.intro
  · unfold parsePropTail; exact True.intro
  · unfold parseBlock; exact True.intro
  · unfold parseStmts; exact True.intro
  · unfold parseIf; exact True.intro
  · unfold parseStmtTail; exact True.intro
  · unfold parseExprStmt; exact True.intro
  · unfold parseRawStmt; exact True.intro
  · unfold parseBraceStmt; exact True.intro

theorem errAll_succ (T : List Span) (n : Nat) (ih : ErrAll T n) : ErrAll T (n + 1) := by
  constructor
  · intro pre ts hs; (conv => arg 2; unfold parseAtom); err_auto ih
  · intro l pre ts hs; (conv => arg 2; unfold parsePostfix); err_auto ih
  · intro l acc ts hs; (conv => arg 2; unfold postfixLoop); err_auto ih
  · intro e ts hs; (conv => arg 2; unfold parseIndexTail); err_auto ih
  · intro e s ts hs; (conv => arg 2; unfold parseRangeEnd); err_auto ih
  · intro k l pre ts hs; (conv => arg 2; unfold parseTier); err_auto ih
  · intro k l acc ts hs; (conv => arg 2; unfold tierLoop); err_auto ih
  · intro s l pre ts hs; (conv => arg 2; unfold parseExpr1); err_auto ih
  · intro s l acc ts hs; (conv => arg 2; unfold rangeLoop); err_auto ih
  · intro s ts hs; (conv => arg 2; unfold parseExpr); err_auto ih
  · intro acc ts hs; (conv => arg 2; unfold parseArgs); err_auto ih
  · intro acc ts hs; (conv => arg 2; unfold parseExprList); err_auto ih
  · intro acc ts hs; (conv => arg 2; unfold parseParams); err_auto ih
  · intro acc ts hs; (conv => arg 2; unfold parsePropItems); err_auto ih
  · intro acc ts hs; (conv => arg 2; unfold parsePropTail); err_auto ih
  · intro ts hs; (conv => arg 2; unfold parseBlock); err_auto ih
  · intro c acc ts hs; (conv => arg 2; unfold parseStmts); err_auto ih
  · intro ts hs; (conv => arg 2; unfold parseIf); err_auto ih
  · intro lhs ts hs; (conv => arg 2; unfold parseStmtTail); err_auto ih
  · intro amb l pre ts hs; (conv => arg 2; unfold parseExprStmt); err_auto ih
  · intro amb ts hs; (conv => arg 2; unfold parseRawStmt); err_auto ih
  · intro amb l ts hs; (conv => arg 2; unfold parseBraceStmt); err_auto ih

theorem errAll (T : List Span) (n : Nat) : ErrAll T n := by
  induction n with
  | zero => exact errAll_zero T
  | succ n ih => exact errAll_succ T n ih

/-- the token named by a syntax error of the statement parser is a token of the input -/
theorem parseStmts_err_tok_mem {n : Nat} {c : Bool} {ts : List Span} {sp : Span}
    (h : parseStmts n c [] ts = .err (.tok sp)) : sp ∈ ts := by
  have := (errAll ts n).parseStmts c [] ts (Suf.refl ts)
  rw [h] at this
  exact this

theorem parseExpr_err_tok_mem {n : Nat} {s : Bool} {ts : List Span} {sp : Span}
    (h : parseExpr n s ts = .err (.tok sp)) : sp ∈ ts := by
  have := (errAll ts n).parseExpr s ts (Suf.refl ts)
  rw [h] at this
  exact this

end Seed
