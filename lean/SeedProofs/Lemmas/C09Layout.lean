/-
  Lemmas/C09Layout.lean — what `skipWs` removes, and that it does not matter.

  * `isBlank`, `Layout`: the text `skipWs` removes — blanks (space, tab, CR, FF) possibly followed by
    one `#` comment; a comment stops *before* the newline (or at the end of input), and a newline
    stops `skipWs`, so a `Layout` text never contains a newline and nothing follows its comment.
  * `skipWs_layout` / `skipWs_of_layout`: `skipWs` removes exactly the longest `Layout` prefix.
  * `nextToken_skip_layout`, `lexRaw_skip_layout`: layout in front of a token does not change it.
  * `LexTo`: a position-free "lexing `src` yields the tokens `ts` and leaves `rest`" relation, and its
    link with `lexRaw`.
-/
import SeedModel.Lex
import SeedProofs.Lemmas.Scan
import SeedProofs.Lemmas.C09Pos
namespace Seed.C09
open Seed

/-- space, tab, carriage return, form feed: the whitespace other than newline -/
def isBlank (c : Char) : Prop := c = ' ' ∨ c = '\t' ∨ c = '\r' ∨ c.toNat = 12

instance (c : Char) : Decidable (isBlank c) := by unfold isBlank; infer_instance

/-- text that `skipWs` removes: blanks, then possibly a comment `#…` without newline, running to the
    end of the text -/
inductive Layout : List Char → Prop
  | nil : Layout []
  | blank {c : Char} {p : List Char} : isBlank c → Layout p → Layout (c :: p)
  | comment {t : List Char} : (∀ c ∈ t, c ≠ '\n') → Layout ('#' :: t)

/-- what may follow a layout text `p`: anything if `p` is only blanks; if `p` ends in a comment, the
    comment must end there: a newline or the end of input follows -/
def CommentClosed (p r : List Char) : Prop := '#' ∈ p → r = [] ∨ r.head? = some '\n'

theorem CommentClosed.nil (r : List Char) : CommentClosed [] r := fun h => by cases h

theorem isBlank_iff (c : Char) : isBlank c ↔ (c ≠ '\n' ∧ isAsciiWs c = true) := by
  unfold isBlank isAsciiWs
  simp only [Bool.or_eq_true, decide_eq_true_eq]
  constructor
  · rintro (h | h | h | h)
    · subst h; decide
    · subst h; decide
    · subst h; decide
    · refine ⟨?_, Or.inl (Or.inr h)⟩
      intro hc; subst hc; revert h; decide
  · rintro ⟨h1, (((h | h) | h) | h) | h⟩
    · exact Or.inl h
    · exact Or.inr (Or.inl h)
    · exact absurd h h1
    · exact Or.inr (Or.inr (Or.inr h))
    · exact Or.inr (Or.inr (Or.inl h))

theorem isBlank_ne_hash {c : Char} (h : isBlank c) : c ≠ '#' := by
  rintro rfl; revert h; decide

theorem isBlank_ne_nl {c : Char} (h : isBlank c) : c ≠ '\n' := ((isBlank_iff c).mp h).1

theorem Layout.no_newline {p : List Char} (h : Layout p) : ∀ c ∈ p, c ≠ '\n' := by
  induction h with
  | nil => intro c hc; cases hc
  | blank hb _ ih =>
    intro c hc
    rcases List.mem_cons.mp hc with rfl | hc
    · exact isBlank_ne_nl hb
    · exact ih c hc
  | comment ht =>
    intro c hc
    rcases List.mem_cons.mp hc with rfl | hc
    · decide
    · exact ht c hc

/-- stepping rule of `skipWs` on a blank -/
theorem skipWs_blank {ch : Char} (hb : isBlank ch) (r : List Char) (l c : Nat) :
    skipWs (ch :: r) l c = skipWs r (locAfter l c r.head?).1 (locAfter l c r.head?).2 := by
  obtain ⟨h1, h2⟩ := (isBlank_iff ch).mp hb
  simp [skipWs, isBlank_ne_hash hb, h1, h2]

/-- `skipWs` stops on a character that is neither a blank nor `#` -/
theorem skipWs_stop {ch : Char} (hb : ¬ isBlank ch) (hh : ch ≠ '#') (r : List Char) (l c : Nat) :
    skipWs (ch :: r) l c = ⟨ch :: r, l, c⟩ := by
  have : (ch = '\n' || !isAsciiWs ch) = true := by
    by_cases h : ch = '\n'
    · simp [h]
    · have : isAsciiWs ch = false := by
        cases hw : isAsciiWs ch with
        | false => rfl
        | true => exact absurd ((isBlank_iff ch).mpr ⟨h, hw⟩) hb
      simp [this]
  simp only [skipWs, hh, this, if_true, if_false]

/-! ### comments -/

/-- `skipComment` removes the text up to the first newline -/
theorem skipComment_spec (r : List Char) (l c : Nat) :
    ∃ t, r = t ++ (skipComment r l c).rest ∧ (∀ x ∈ t, x ≠ '\n') ∧
      ((skipComment r l c).rest = [] ∨ (skipComment r l c).rest.head? = some '\n') := by
  induction r generalizing l c with
  | nil => exact ⟨[], rfl, by simp, Or.inl rfl⟩
  | cons ch r ih =>
    by_cases h : ch = '\n'
    · refine ⟨[], ?_, by simp, Or.inr ?_⟩ <;> simp [skipComment, h]
    · simp only [skipComment, h, if_false]
      obtain ⟨t, h1, h2, h3⟩ := ih (locAfter l c r.head?).1 (locAfter l c r.head?).2
      refine ⟨ch :: t, by rw [List.cons_append, ← h1], ?_, h3⟩
      intro x hx
      rcases List.mem_cons.mp hx with rfl | hx
      · exact h
      · exact h2 x hx

/-- a comment followed by a newline or the end of input is removed entirely -/
theorem skipComment_append (t r : List Char) (ht : ∀ x ∈ t, x ≠ '\n')
    (hr : r = [] ∨ r.head? = some '\n') (l c : Nat) : (skipComment (t ++ r) l c).rest = r := by
  induction t generalizing l c with
  | nil =>
    rcases hr with rfl | hr
    · rfl
    · cases r with
      | nil => rfl
      | cons x r =>
        simp only [List.head?_cons, Option.some.injEq] at hr
        subst hr
        simp [skipComment]
  | cons ch t ih =>
    have h : ch ≠ '\n' := ht ch (List.mem_cons_self ..)
    simp only [List.cons_append, skipComment, h, if_false]
    exact ih (fun x hx => ht x (List.mem_cons_of_mem _ hx)) _ _

/-! ### L2: `skipWs` removes exactly the longest layout prefix -/

theorem skipWs_layout (r : List Char) (l c : Nat) :
    ∃ p, r = p ++ (skipWs r l c).rest ∧ Layout p ∧ CommentClosed p (skipWs r l c).rest ∧
      (∀ x, (skipWs r l c).rest.head? = some x → ¬ isBlank x ∧ x ≠ '#') := by
  induction r generalizing l c with
  | nil => exact ⟨[], rfl, Layout.nil, CommentClosed.nil _, by simp [skipWs]⟩
  | cons ch r ih =>
    by_cases h1 : ch = '#'
    · subst h1
      have hsk : skipWs ('#' :: r) l c =
          skipComment r (locAfter l c r.head?).1 (locAfter l c r.head?).2 := by
        simp [skipWs, skipComment]
      rw [hsk]
      obtain ⟨t, e1, e2, e3⟩ := skipComment_spec r (locAfter l c r.head?).1 (locAfter l c r.head?).2
      refine ⟨'#' :: t, by rw [List.cons_append, ← e1], Layout.comment e2, fun _ => e3, ?_⟩
      intro x hx
      rcases e3 with e3 | e3
      · rw [e3] at hx; cases hx
      · rw [e3] at hx
        injection hx with hx
        subst hx
        exact ⟨by decide, by decide⟩
    · by_cases h2 : isBlank ch
      · rw [skipWs_blank h2]
        obtain ⟨p, e1, e2, e3, e4⟩ := ih (locAfter l c r.head?).1 (locAfter l c r.head?).2
        refine ⟨ch :: p, by rw [List.cons_append, ← e1], Layout.blank h2 e2, ?_, e4⟩
        intro hm
        rcases List.mem_cons.mp hm with hm | hm
        · exact absurd hm.symm h1
        · exact e3 hm
      · rw [skipWs_stop h2 h1]
        refine ⟨[], rfl, Layout.nil, CommentClosed.nil _, ?_⟩
        intro x hx
        simp only [List.head?_cons, Option.some.injEq] at hx
        subst hx
        exact ⟨h2, h1⟩

/-- layout followed by anything (after a comment: by a newline or the end) is skipped, and skipping
    continues in what follows -/
theorem skipWs_append_layout {p : List Char} (hp : Layout p) (r : List Char) (hc : CommentClosed p r)
    (l c l' c' : Nat) : (skipWs (p ++ r) l c).rest = (skipWs r l' c').rest := by
  induction hp generalizing l c with
  | nil => exact skipWs_rest_indep _ _ _ _ _
  | blank hb _ ih =>
    rw [List.cons_append, skipWs_blank hb]
    exact ih (fun hm => hc (List.mem_cons_of_mem _ hm)) _ _
  | @comment t ht =>
    have hr := hc (List.mem_cons_self ..)
    have hsk : skipWs ('#' :: t ++ r) l c =
        skipComment (t ++ r) (locAfter l c (t ++ r).head?).1 (locAfter l c (t ++ r).head?).2 := by
      simp [skipWs, skipComment]
    rw [hsk, skipComment_append t r ht hr]
    rcases hr with rfl | hr
    · rfl
    · cases r with
      | nil => rfl
      | cons x r =>
        simp only [List.head?_cons, Option.some.injEq] at hr
        subst hr
        simp [skipWs]

/-- converse of `skipWs_layout`: a layout prefix followed by a character that is neither blank nor
    `#` (a newline or the end after a comment) is exactly what `skipWs` removes -/
theorem skipWs_of_layout {p : List Char} (hp : Layout p) (r : List Char) (hc : CommentClosed p r)
    (hh : ∀ x, r.head? = some x → ¬ isBlank x ∧ x ≠ '#') (l c : Nat) :
    (skipWs (p ++ r) l c).rest = r := by
  rw [skipWs_append_layout hp r hc l c 0 0]
  cases r with
  | nil => rfl
  | cons x r =>
    obtain ⟨h1, h2⟩ := hh x rfl
    rw [skipWs_stop h1 h2]

/-- `skipWs` is idempotent -/
theorem skipWs_idem (r : List Char) (l c l' c' : Nat) :
    (skipWs (skipWs r l c).rest l' c').rest = (skipWs r l c).rest := by
  obtain ⟨p, _, _, _, e4⟩ := skipWs_layout r l c
  cases h : (skipWs r l c).rest with
  | nil => rfl
  | cons x t =>
    obtain ⟨h1, h2⟩ := e4 x (by rw [h]; rfl)
    rw [skipWs_stop h1 h2]

/-! ### L3, first form: layout in front of a token -/

/-- `nextToken` sees its scanner only through `skipWs` -/
theorem nextToken_kind_of_skipWs {s s' : Scanner} (h : s.skipWs.rest = s'.skipWs.rest) :
    kind (nextToken s) = kind (nextToken s') := by
  have e1 : kind (nextToken s) = kind (nextToken s.skipWs) := by
    rw [kind_of_tokBody, kind_of_tokBody]
    have : s.skipWs.skipWs.rest = s.skipWs.rest := skipWs_idem _ _ _ _ _
    rw [this]
    split
    · rfl
    · rw [tokBody_indep _ this]
  have e2 : kind (nextToken s') = kind (nextToken s'.skipWs) := by
    rw [kind_of_tokBody, kind_of_tokBody]
    have : s'.skipWs.skipWs.rest = s'.skipWs.rest := skipWs_idem _ _ _ _ _
    rw [this]
    split
    · rfl
    · rw [tokBody_indep _ this]
  rw [e1, e2]
  exact nextToken_kind_indep h

theorem nextToken_skip_layout {p : List Char} (hp : Layout p) (r : List Char)
    (hc : CommentClosed p r) (l c l' c' : Nat) :
    kind (nextToken ⟨p ++ r, l, c⟩) = kind (nextToken ⟨r, l', c'⟩) :=
  nextToken_kind_of_skipWs (skipWs_append_layout hp r hc l c l' c')

theorem lexRaw_congr_of_kind (n : Nat) {s s' : Scanner} (h : kind (nextToken s) = kind (nextToken s')) :
    (lexRaw n s).1.map Span.tok = (lexRaw n s').1.map Span.tok ∧
    (lexRaw n s).2.map eraseLoc = (lexRaw n s').2.map eraseLoc := by
  cases n with
  | zero => exact ⟨rfl, rfl⟩
  | succ n =>
    unfold lexRaw
    cases h1 : nextToken s <;> cases h2 : nextToken s' <;> rw [h1, h2] at h <;>
      simp only [kind, TokK.tok.injEq, TokK.err.injEq, reduceCtorEq] at h
    · exact ⟨rfl, rfl⟩
    · obtain ⟨ht, hr⟩ := h
      obtain ⟨i1, i2⟩ := lexRaw_kind_indep n hr
      simp only [List.map_cons, ht, i1, i2, and_self]
    · simp only [List.map_nil, Option.map_some, h, and_self]

theorem lexRaw_skip_layout {p : List Char} (hp : Layout p) (r : List Char)
    (hc : CommentClosed p r) (n l c l' c' : Nat) :
    (lexRaw n ⟨p ++ r, l, c⟩).1.map Span.tok = (lexRaw n ⟨r, l', c'⟩).1.map Span.tok ∧
    (lexRaw n ⟨p ++ r, l, c⟩).2.map eraseLoc = (lexRaw n ⟨r, l', c'⟩).2.map eraseLoc :=
  lexRaw_congr_of_kind n (nextToken_skip_layout hp r hc l c l' c')

/-! ### L4, base: newline and `;` -/

theorem nextToken_stmtEnd (ch : Char) (h : ch = '\n' ∨ ch = ';') (r : List Char) (l c : Nat) :
    kind (nextToken ⟨ch :: r, l, c⟩) = .tok Token.StmtEnd r := by
  have hb : ¬ isBlank ch := by rcases h with rfl | rfl <;> decide
  have hh : ch ≠ '#' := by rcases h with rfl | rfl <;> decide
  rw [kind_of_tokBody]
  simp only [Scanner.skipWs, skipWs_stop hb hh]
  have : (ch = '\n' || ch = ';') = true := by rcases h with rfl | rfl <;> rfl
  simp only [tokBody, this, if_true, exK, Scanner.next_rest, List.drop_one, List.tail_cons]

/-! ### a position-free lexing relation -/

/-- lexing `src` (from any position) yields the tokens `ts` and leaves the text `rest` -/
inductive LexTo : List Char → List Token → List Char → Prop
  | nil (r : List Char) : LexTo r [] r
  | cons {src mid rest : List Char} {t : Token} {ts : List Token} (l c : Nat) :
      kind (nextToken ⟨src, l, c⟩) = .tok t mid → LexTo mid ts rest → LexTo src (t :: ts) rest

theorem kind_tok_length {s : Scanner} {t : Token} {mid : List Char}
    (h : kind (nextToken s) = .tok t mid) :
    ∃ k, 1 ≤ k ∧ k ≤ s.rest.length ∧ mid = s.rest.drop k := by
  cases hn : nextToken s with
  | eof => rw [hn] at h; cases h
  | err e => rw [hn] at h; cases h
  | tok sp s' =>
    rw [hn] at h
    simp only [kind, TokK.tok.injEq] at h
    obtain ⟨n, h1, h2, h3⟩ := nextToken_advance hn
    exact ⟨n, h1, h2, by rw [← h.2, h3, Scanner.advance_rest]⟩

/-- what is left is a suffix of the source -/
theorem LexTo.suffix {src rest : List Char} {ts : List Token} (h : LexTo src ts rest) :
    ∃ pre, src = pre ++ rest ∧ (ts = [] → pre = []) := by
  induction h with
  | nil r => exact ⟨[], rfl, fun _ => rfl⟩
  | @cons src mid rest t ts l c hk _ ih =>
    obtain ⟨k, _, _, hm⟩ := kind_tok_length hk
    obtain ⟨pre, hp, _⟩ := ih
    simp only at hm
    refine ⟨src.take k ++ pre, ?_, by intro h; cases h⟩
    rw [List.append_assoc, ← hp, hm, List.take_append_drop]

theorem LexTo.append {a b c : List Char} {ts us : List Token} (h1 : LexTo a ts b) (h2 : LexTo b us c) :
    LexTo a (ts ++ us) c := by
  induction h1 with
  | nil r => exact h2
  | cons l c hk _ ih => exact LexTo.cons l c hk (ih h2)

/-- a `LexTo` prefix of the raw stream: with `n` more units of fuel than tokens in `ts`, `lexRaw`
    produces `ts` and then whatever it produces on `rest` -/
theorem LexTo.lexRaw {src rest : List Char} {ts : List Token} (h : LexTo src ts rest)
    (n l c l' c' : Nat) :
    (lexRaw (ts.length + n) ⟨src, l, c⟩).1.map Span.tok =
        ts ++ (lexRaw n ⟨rest, l', c'⟩).1.map Span.tok ∧
    (lexRaw (ts.length + n) ⟨src, l, c⟩).2.map eraseLoc = (lexRaw n ⟨rest, l', c'⟩).2.map eraseLoc := by
  induction h generalizing l c with
  | nil r =>
    simp only [List.length_nil, Nat.zero_add, List.nil_append]
    exact lexRaw_kind_indep n rfl
  | @cons src mid rest t ts l0 c0 hk _ ih =>
    have hk' : kind (nextToken ⟨src, l, c⟩) = .tok t mid := by
      rw [← hk]; exact nextToken_kind_indep rfl
    have e : (t :: ts).length + n = (ts.length + n) + 1 := by simp only [List.length_cons]; omega
    rw [e]
    cases hn : nextToken ⟨src, l, c⟩ with
    | eof => rw [hn] at hk'; cases hk'
    | err e => rw [hn] at hk'; cases hk'
    | tok sp s' =>
      rw [hn] at hk'
      simp only [kind, TokK.tok.injEq] at hk'
      obtain ⟨h1, h2⟩ := hk'
      obtain ⟨s'r, s'l, s'c⟩ := s'
      simp only at h2
      subst h2
      obtain ⟨i1, i2⟩ := ih s'l s'c
      simp only [Seed.lexRaw, hn, List.map_cons, h1, i1, i2, List.cons_append, and_self]

end Seed.C09
